(* Natives.v — the internal (Go-implemented) functions of gojq that the reference semantics supports:
   operators (operator.go), func.go natives.  Definitions only.

   Every native returns an [nres]:
     NOk v        the value
     NErr c val   a catchable error of class c (classes = the Go error types of /repo/error.go);
                  [val] is what `catch` receives: Some v for error(v) (a ValueError), None when it is
                  a message text the model does not reproduce (then a catching program is skipped)
     NSkip why    the model declines (unsupported float function, float formatting, ...): the case
                  is answered "(skip why)", never judged.
   HOW TO ADD A NATIVE: write `Definition fn_xxx (v : jv) (args...) : nres` following the Go code
   line by line, add it to [natives0]/[natives1]/[natives2]/[natives3] below by its jq name, and list
   it in docs/SEM.md.  Natives that need closures or generate several outputs (path, _range,
   _modify, ...) live in Sem.v instead.                                                           *)
From Coq Require Import String.
From Coq Require Import List ZArith NArith Bool.
From Flocq Require Import IEEE754.BinarySingleNaN IEEE754.Binary IEEE754.Bits.
From Verif Require Import common.Sexp sem.JV.
Import ListNotations.
Open Scope Z_scope.

Inductive errclass :=
| EExpectedObject | EExpectedArray | EIterator | EArrayIndexNegative | EArrayIndexTooLarge
| ERepeatStringTooLarge | EObjectKeyNotString | EArrayIndexNotNumber | EStringIndexNotNumber
| EExpectedStartEnd | EFunc0Type | EFunc1Type | EFunc2Type | EFunc0Wrap | EFunc1Wrap | EFunc2Wrap
| EUser            (* exitCodeError: error(x) *)
| EFlattenDepth | EUnaryType | EBinopType | EZeroDivision | EZeroModulo | EFormatNotFound | EFormatRow
| EInvalidPath | EInvalidPathIter | EBreak | EPlain (* errors.New / fmt.Errorf *).

Definition errclass_name (c : errclass) : string :=
  match c with
  | EExpectedObject => "expectedObject" | EExpectedArray => "expectedArray" | EIterator => "iterator"
  | EArrayIndexNegative => "arrayIndexNegative" | EArrayIndexTooLarge => "arrayIndexTooLarge"
  | ERepeatStringTooLarge => "repeatStringTooLarge" | EObjectKeyNotString => "objectKeyNotString"
  | EArrayIndexNotNumber => "arrayIndexNotNumber" | EStringIndexNotNumber => "stringIndexNotNumber"
  | EExpectedStartEnd => "expectedStartEnd" | EFunc0Type => "func0Type" | EFunc1Type => "func1Type"
  | EFunc2Type => "func2Type" | EFunc0Wrap => "func0Wrap" | EFunc1Wrap => "func1Wrap"
  | EFunc2Wrap => "func2Wrap" | EUser => "user" | EFlattenDepth => "flattenDepth"
  | EUnaryType => "unaryType" | EBinopType => "binopType" | EZeroDivision => "zeroDivision"
  | EZeroModulo => "zeroModulo" | EFormatNotFound => "formatNotFound" | EFormatRow => "formatRow"
  | EInvalidPath => "invalidPath" | EInvalidPathIter => "invalidPathIter" | EBreak => "break"
  | EPlain => "plain"
  end.

Inductive nres := NOk (v : jv) | NErr (c : errclass) (val : option jv) | NSkip (why : bytes).

Definition err (c : errclass) : nres := NErr c None.
Definition skip (s : string) : nres := NSkip (codes s).
Definition ok_int (z : Z) : nres := NOk (VInt z).
Definition ok_bool (b : bool) : nres := NOk (VBool b).
Definition ok_str (s : bytes) : nres := NOk (VStr s).

Definition nbind (r : nres) (f : jv -> nres) : nres :=
  match r with NOk v => f v | _ => r end.

Definition zlen {A} (l : list A) : Z := Z.of_nat (List.length l).

(* ------------------------------------------------------------------------------------------ *)
(* arithmetic operators (operator.go) *)

Definition num_add (a b : num) : num :=
  match a, b with
  | NInt x, NInt y => NInt (x + y)
  | _, _ => NFlt (f_add (to_float a) (to_float b))
  end.
Definition num_sub (a b : num) : num :=
  match a, b with
  | NInt x, NInt y => NInt (x - y)
  | _, _ => NFlt (f_sub (to_float a) (to_float b))
  end.
Definition num_mul (a b : num) : num :=
  match a, b with
  | NInt x, NInt y => NInt (x * y)
  | _, _ => NFlt (f_mul (to_float a) (to_float b))
  end.
Definition num_neg (a : num) : num :=
  match a with NInt x => NInt (- x) | NFlt f => NFlt (f_neg f) end.

Fixpoint bytes_repeat (n : nat) (s : bytes) : bytes :=
  match n with O => [] | S k => s ++ bytes_repeat k s end.

(* operator.go repeatString; the model declines results above 100000 bytes *)
Definition repeat_string (s : bytes) (n : binary64) : nres :=
  if jq_flt n f_zero then NOk VNull
  else
    let c := if f_ltb n (z2f 2147483647) then Btrunc 53 1024 n else 2147483647 in
    if 2147483647 <=? zlen s * c then err ERepeatStringTooLarge
    else if 100000 <? zlen s * c then skip "repeat-large"
    else if zlen s =? 0 then ok_str []          (* strings.Repeat("", c): no unary count of size c *)
    else ok_str (bytes_repeat (Z.to_nat c) s).

Fixpoint deep_merge (fuel : nat) (l r : list (bytes * jv)) : list (bytes * jv) :=
  match fuel with
  | O => obj_merge l r
  | S f =>
      fold_left (fun acc kv =>
                   let '(k, v) := kv in
                   match obj_get acc k, v with
                   | Some (VObj a), VObj b => obj_set acc k (VObj (deep_merge f a b))
                   | _, _ => obj_set acc k v
                   end) r l
  end.

Fixpoint jv_depth (v : jv) : nat :=
  match v with
  | VArr l => S (fold_left (fun acc x => Nat.max acc (jv_depth x)) l O)
  | VObj kvs => S (fold_left (fun acc kv => Nat.max acc (jv_depth (snd kv))) kvs O)
  | _ => O
  end.

(* strings.Split *)
Fixpoint split_at_sep (fuel : nat) (sep s cur : bytes) : list bytes :=
  match fuel with
  | O => [rev cur]
  | S f =>
      match s with
      | [] => [rev cur]
      | c :: r =>
          if is_prefix sep s then rev cur :: split_at_sep f sep (skipn (List.length sep) s) []
          else split_at_sep f sep r (c :: cur)
      end
  end.

Fixpoint explode_chunks (fuel : nat) (s : bytes) : list bytes :=
  match fuel with
  | O => []
  | S f => match decode_rune s with
           | None => []
           | Some (_, rest) => firstn (List.length s - List.length rest) s :: explode_chunks f rest
           end
  end.

Definition bytes_split (s sep : bytes) : list bytes :=
  match sep with
  | [] => explode_chunks (List.length s) s
  | _ => split_at_sep (S (List.length s)) sep s []
  end.

(* ------------------------------------------------------------------------------------------ *)
(* JSON text of a value (encoder.go) — floats only when integral below 2^53, NaN, infinities *)

Definition hexd (n : N) : N := if (n <? 10)%N then (48 + n)%N else (87 + n)%N.

Fixpoint json_string_aux (fuel : nat) (s : bytes) : bytes :=
  match fuel with
  | O => []
  | S f =>
      match s with
      | [] => []
      | b :: r =>
          if (b <? 128)%N then
            (if ((32 <=? b) && (b <=? 126) && negb (b =? 34) && negb (b =? 92))%N then [b]
             else if (b =? 34)%N then codes "\"""
             else if (b =? 92)%N then codes "\\"
             else if (b =? 8)%N then codes "\b"
             else if (b =? 12)%N then codes "\f"
             else if (b =? 10)%N then codes "\n"
             else if (b =? 13)%N then codes "\r"
             else if (b =? 9)%N then codes "\t"
             else codes "\u00" ++ [hexd (b / 16)%N; hexd (b mod 16)%N]) ++ json_string_aux f r
          else
            match decode_rune s with
            | Some (c, rest) =>
                let size := (List.length s - List.length rest)%nat in
                if (c =? rune_error)%N && Nat.eqb size 1 then codes "\ufffd" ++ json_string_aux f rest
                else firstn size s ++ json_string_aux f rest
            | None => []
            end
      end
  end.
Definition json_string (s : bytes) : bytes := 34%N :: json_string_aux (List.length s) s ++ [34%N].

Definition two53 : Z := 9007199254740992.

Definition json_num (n : num) : option bytes :=
  match n with
  | NInt z => Some (print_Z z)
  | NFlt f =>
      if f_is_nan f then Some (codes "null")
      else if f_is_inf f then Some (if f_sign f then codes "-1.7976931348623157e+308" else codes "1.7976931348623157e+308")
      else match f_exact_int f with
           | Some z => if Z.abs z <=? two53
                       then Some (if (z =? 0) && f_sign f then codes "-0" else print_Z z)
                       else None
           | None => None
           end
  end.

Fixpoint sep_concat (sep : bytes) (l : list bytes) : bytes :=
  match l with
  | [] => []
  | [x] => x
  | x :: r => x ++ sep ++ sep_concat sep r
  end.

Fixpoint all_some {A} (l : list (option A)) : option (list A) :=
  match l with
  | [] => Some []
  | Some x :: r => option_map (cons x) (all_some r)
  | None :: _ => None
  end.

Fixpoint to_json (v : jv) : option bytes :=
  match v with
  | VNull => Some (codes "null")
  | VBool true => Some (codes "true")
  | VBool false => Some (codes "false")
  | VNum n => json_num n
  | VStr s => Some (json_string s)
  | VArr l => option_map (fun xs => 91%N :: sep_concat [44%N] xs ++ [93%N]) (all_some (map to_json l))
  | VObj kvs =>
      option_map (fun xs => 123%N :: sep_concat [44%N] xs ++ [125%N])
        (all_some (map (fun kv => option_map (fun x => json_string (fst kv) ++ 58%N :: x) (to_json (snd kv))) kvs))
  end.

Definition fn_tojson (v : jv) : nres :=
  match to_json v with Some s => ok_str s | None => skip "float-format" end.
Definition fn_tostring (v : jv) : nres :=
  match v with VStr _ => NOk v | _ => fn_tojson v end.


(* ------------------------------------------------------------------------------------------ *)
(* error message texts (error.go), for the error types whose text names no function: what `catch`
   receives.  None = the model does not reproduce the text (float formatting) -> the case is skipped *)

(* unicode/utf8 DecodeLastRune: size of the last rune of a byte string *)
Definition last_rune_size (bs : bytes) : nat :=
  let n := List.length bs in
  match rev bs with
  | [] => O
  | b :: _ =>
      if (b <? 128)%N then 1%nat
      else
        let is_start (c : N) : bool := negb ((128 <=? c) && (c <=? 191))%N in
        let try_k (k : nat) : option nat :=
          match nth_error (rev bs) (k - 1) with
          | Some c => if is_start c then
                        match decode_rune (skipn (n - k) bs) with
                        | Some (_, rest) => if Nat.eqb (List.length rest) 0 then Some k else Some 1%nat
                        | None => Some 1%nat
                        end
                      else None
          | None => Some 1%nat
          end in
        match try_k 1%nat with
        | Some k => k
        | None => match try_k 2%nat with
                  | Some k => k
                  | None => match try_k 3%nat with
                            | Some k => k
                            | None => match try_k 4%nat with Some k => k | None => 1%nat end
                            end
                  end
        end
  end.

Fixpoint trim_runes (fuel : nat) (limit : nat) (bs : bytes) : bytes :=
  match fuel with
  | O => bs
  | S f => if (limit <? List.length bs)%nat
           then trim_runes f limit (firstn (List.length bs - last_rune_size bs) bs)
           else bs
  end.

(* preview.go Preview: the JSON text cut to 30 bytes *)
Definition preview (v : jv) : option bytes :=
  match to_json v with
  | None => None
  | Some js =>
      let bs := firstn 32 js in
      if (List.length bs <=? 30)%nat then Some bs
      else
        let trailing := match v with
                        | VStr _ => codes " ...""" | VArr _ => codes " ...]" | VObj _ => codes " ...}" | _ => codes " ..."
                        end in
        Some (trim_runes 40 (30 - List.length trailing) bs ++ trailing)
  end.

(* error.go typeErrorPreview *)
Definition tep (v : jv) : option bytes :=
  match v with
  | VNull => Some (codes "null")
  | _ => option_map (fun p => type_name v ++ codes " (" ++ p ++ codes ")") (preview v)
  end.

Definition msg1 (pre : string) (v : jv) : option jv :=
  option_map (fun t => VStr (codes pre ++ t)) (tep v).
Definition msg2 (pre : string) (l : jv) (mid : string) (r : jv) : option jv :=
  match tep l, tep r with
  | Some a, Some b => Some (VStr (codes pre ++ a ++ codes mid ++ b))
  | _, _ => None
  end.

Definition err_binop (name : string) (l r : jv) : nres :=
  NErr EBinopType (msg2 ("cannot " ++ name ++ ": ") l " and " r).
Definition err_zero_div (l r : jv) : nres := NErr EZeroDivision (msg2 "cannot divide " l " by: " r).
Definition err_zero_mod (l r : jv) : nres := NErr EZeroModulo (msg2 "cannot modulo " l " by: " r).
Definition err_exp_object (v : jv) : nres := NErr EExpectedObject (msg1 "expected an object but got: " v).
Definition err_exp_array (v : jv) : nres := NErr EExpectedArray (msg1 "expected an array but got: " v).
Definition err_key_not_string (v : jv) : nres :=
  NErr EObjectKeyNotString (msg1 "expected a string for object key but got: " v).
Definition err_arr_index (v : jv) : nres :=
  NErr EArrayIndexNotNumber (msg1 "expected a number for indexing an array but got: " v).
Definition err_str_index (v : jv) : nres :=
  NErr EStringIndexNotNumber (msg1 "expected a number for indexing a string but got: " v).
Definition err_start_end (v : jv) : nres :=
  NErr EExpectedStartEnd (msg1 "expected ""start"" and ""end"" for slicing but got: " v).
Definition err_unary (name : string) (v : jv) : nres := NErr EUnaryType (msg1 ("cannot " ++ name ++ ": ") v).
Definition msg_iterator (v : jv) : option jv := msg1 "cannot iterate over: " v.
Definition msg_invalid_path (v : jv) : option jv := msg1 "invalid path against: " v.
Definition msg_invalid_path_iter (v : jv) : option jv := msg1 "invalid path on iterating against: " v.

(* the operators *)
Definition binop_add (l r : jv) : nres :=
  match l, r with
  | VNum a, VNum b => NOk (VNum (num_add a b))
  | VStr a, VStr b => ok_str (a ++ b)
  | VArr a, VArr b => NOk (VArr (a ++ b))
  | VObj a, VObj b => NOk (VObj (obj_merge a b))
  | VNull, _ => NOk r
  | _, VNull => NOk l
  | _, _ => err_binop "add" l r
  end.

Definition binop_sub (l r : jv) : nres :=
  match l, r with
  | VNum a, VNum b => NOk (VNum (num_sub a b))
  | VArr a, VArr b => NOk (VArr (filter (fun x => negb (existsb (fun y => jv_eqb x y) b)) a))
  | _, _ => err_binop "subtract" l r
  end.

Definition binop_mul (l r : jv) : nres :=
  match l, r with
  | VNum a, VNum b => NOk (VNum (num_mul a b))
  | VObj a, VObj b => NOk (VObj (deep_merge (jv_depth l + jv_depth r) a b))
  | VStr s, VNum n => repeat_string s (to_float n)
  | VNum n, VStr s => repeat_string s (to_float n)
  | _, _ => err_binop "multiply" l r
  end.

Definition binop_div (l r : jv) : nres :=
  match l, r with
  | VNum (NInt a), VNum (NInt b) =>
      if b =? 0 then err_zero_div l r
      else if Z.rem a b =? 0 then ok_int (Z.quot a b)
      else NOk (VFlt (f_div (z2f a) (z2f b)))
  | VNum a, VNum b =>
      let fb := to_float b in
      if f_eqb fb f_zero then err_zero_div l r else NOk (VFlt (f_div (to_float a) fb))
  | VStr a, VStr b =>
      match a with
      | [] => NOk (VArr [])
      | _ => NOk (VArr (map VStr (bytes_split a b)))
      end
  | _, _ => err_binop "divide" l r
  end.

Definition binop_mod (l r : jv) : nres :=
  match l, r with
  | VNum (NInt a), VNum (NInt b) => if b =? 0 then err_zero_mod l r else ok_int (Z.rem a b)
  | VNum a, VNum b =>
      let fa := to_float a in let fb := to_float b in
      if f_is_nan fa || f_is_nan fb then NOk (VFlt f_nan)
      else let ri := float_to_int fb in
           if ri =? 0 then err_zero_mod l r else ok_int (Z.rem (float_to_int fa) ri)
  | _, _ => err_binop "modulo" l r
  end.

Definition binop_alt (l r : jv) : nres := NOk (if truthy l then l else r).

Definition cmp_is (f : comparison -> bool) (l r : jv) : nres := ok_bool (f (jv_cmp l r)).


(* ------------------------------------------------------------------------------------------ *)
(* indexing and slicing (func.go funcIndex2, index, indexString, funcSlice, slice, sliceString) *)

Definition clamp_index (i lo hi : Z) : Z :=
  let i := if i <? 0 then i + hi else i in
  if i <? lo then lo else if i <? hi then i else hi.

Definition nth_z {A} (l : list A) (i : Z) : option A :=
  if i <? 0 then None else nth_error l (Z.to_nat i).

Definition index_array (l : list jv) (i : Z) : jv :=
  match nth_z l (clamp_index i (-1) (zlen l)) with Some v => v | None => VNull end.

Definition index_string (s : bytes) (i : Z) : jv :=
  let rs := runes s in
  match nth_z rs (clamp_index i (-1) (zlen rs)) with Some r => VStr (encode_rune r) | None => VNull end.

Definition sublist {A} (l : list A) (s e : Z) : list A :=
  firstn (Z.to_nat (e - s)) (skipn (Z.to_nat s) l).

(* start/end computation shared by slice, sliceString and updateArraySlice;
   [bad] is the error class for a non-number bound *)
Definition slice_bounds (len : Z) (e s : jv) (bad : errclass) : (Z * Z) + errclass :=
  let start := match s with
               | VNull => inl 0
               | VNum n => inl (clamp_index (to_int n) 0 len)
               | _ => inr bad
               end in
  match start with
  | inr c => inr c
  | inl st =>
      match e with
      | VNull => inl (st, len)
      | VNum n => inl (st, clamp_index (to_int_ceil n) st len)
      | _ => inr bad
      end
  end.

(* the byte chunks of the runes of a string (invalid bytes are chunks of one byte) *)
Definition rune_chunks (s : bytes) : list bytes := explode_chunks (List.length s) s.

Definition fn_slice (v e s : jv) : nres :=
  match v with
  | VNull => NOk VNull
  | VArr l => match slice_bounds (zlen l) e s EArrayIndexNotNumber with
              | inl (st, en) => NOk (VArr (sublist l st en))
              | inr c => err c
              end
  | VStr b => let cs := rune_chunks b in
              match slice_bounds (zlen cs) e s EStringIndexNotNumber with
              | inl (st, en) => ok_str (concat (sublist cs st en))
              | inr c => err c
              end
  | _ => err_exp_array v
  end.

(* func.go indices (Compare-based subsequence search) *)
Fixpoint prefix_eq (xs vs : list jv) : bool :=
  match xs, vs with
  | [], _ => true
  | x :: xs', v :: vs' => jv_eqb v x && prefix_eq xs' vs'
  | _, [] => false
  end.
Fixpoint indices_from (vs xs : list jv) (i : Z) : list Z :=
  match vs with
  | [] => []
  | _ :: r => (if prefix_eq xs vs then [i] else []) ++ indices_from r xs (i + 1)
  end.
Definition indices_of (vs xs : list jv) : list Z :=
  match xs with [] => [] | _ => indices_from vs xs 0 end.

Definition fn_index2 (v x : jv) : nres :=
  match x with
  | VStr k =>
      match v with
      | VNull => NOk VNull
      | VObj kvs => NOk (match obj_get kvs k with Some w => w | None => VNull end)
      | _ => err_exp_object v
      end
  | VNum n =>
      let i := to_int n in
      match v with
      | VNull => NOk VNull
      | VArr l => NOk (index_array l i)
      | VStr s => NOk (index_string s i)
      | _ => err_exp_array v
      end
  | VArr xs =>
      match v with
      | VNull => NOk VNull
      | VArr l => NOk (VArr (map VInt (indices_of l xs)))
      | _ => err_exp_array v
      end
  | VObj m =>
      match v with
      | VNull => NOk VNull
      | _ => match obj_get m (codes "start"), obj_get m (codes "end") with
             | Some s, Some e => fn_slice v e s
             | _, _ => err_start_end x
             end
      end
  | _ =>
      match v with
      | VArr _ => err_arr_index x
      | VStr _ => err_str_index x
      | _ => err_key_not_string x
      end
  end.

(* opindexarray (destructuring): non-null non-array is expectedArrayError *)
Definition fn_indexarray (v : jv) (i : Z) : nres :=
  match v with
  | VNull | VArr _ => fn_index2 v (VInt i)
  | _ => err_exp_array v
  end.

(* ------------------------------------------------------------------------------------------ *)
(* getpath / setpath / delpaths (func.go: update, updateObject, updateArrayIndex, updateArraySlice,
   deleteEmpty) under value semantics.  [djv] = a value in which some positions are marked deleted
   (Go's struct{}{} marker). *)

Inductive djv := DHole | DV (v : jv) | DArr (l : list djv) | DObj (kvs : list (bytes * djv)).

Inductive dview := WHole | WNull | WArr (l : list djv) | WObj (kvs : list (bytes * djv)) | WOther.
Definition view (d : djv) : dview :=
  match d with
  | DHole => WHole
  | DV VNull => WNull
  | DV (VArr l) => WArr (map DV l)
  | DV (VObj kvs) => WObj (map (fun kv => (fst kv, DV (snd kv))) kvs)
  | DV _ => WOther
  | DArr l => WArr l
  | DObj kvs => WObj kvs
  end.
Definition is_hole (d : djv) : bool := match d with DHole => true | _ => false end.

Fixpoint dobj_get (kvs : list (bytes * djv)) (k : bytes) : option djv :=
  match kvs with
  | [] => None
  | (k', v) :: r => if bytes_eqb k k' then Some v else dobj_get r k
  end.
Fixpoint dobj_set (kvs : list (bytes * djv)) (k : bytes) (v : djv) : list (bytes * djv) :=
  match kvs with
  | [] => [(k, v)]
  | (k', v') :: r => match bytes_cmp k k' with
                     | Eq => (k, v) :: r
                     | Lt => (k, v) :: kvs
                     | Gt => (k', v') :: dobj_set r k v
                     end
  end.

Fixpoint list_set {A} (l : list A) (i : nat) (x pad : A) : list A :=
  match i, l with
  | O, [] => [x]
  | O, _ :: r => x :: r
  | S j, [] => pad :: list_set [] j x pad
  | S j, y :: r => y :: list_set r j x pad
  end.

Definition dnull : djv := DV VNull.

Fixpoint update (d : djv) (path : list jv) (n : djv) : djv + errclass :=
  match path with
  | [] => inl n
  | p :: rest =>
      match p with
      | VStr k =>
          let upd_obj (isnil : bool) (kvs : list (bytes * djv)) :=
            match dobj_get kvs k with
            | None => if is_hole n then inl d
                      else match update dnull rest n with
                           | inl u => inl (DObj (dobj_set kvs k u))
                           | inr c => inr c
                           end
            | Some x => match update x rest n with
                        | inl u => inl (DObj (dobj_set kvs k u))
                        | inr c => inr c
                        end
            end in
          match view d with
          | WNull => upd_obj true []
          | WObj kvs => upd_obj false kvs
          | WHole => inl d
          | _ => inr EExpectedObject
          end
      | VNum num =>
          let i := to_int num in
          let upd_arr (l : list djv) :=
            let len := zlen l in
            let j := clamp_index i (-1) len in
            if j <? 0 then (if is_hole n then inl d else inr EArrayIndexNegative)
            else if j <? len then
              match nth_z l j with
              | Some x => match update x rest n with
                          | inl u => inl (DArr (list_set l (Z.to_nat j) u dnull))
                          | inr c => inr c
                          end
              | None => inr EPlain (* unreachable *)
              end
            else if is_hole n then inl d
            else if 536870912 <=? i then inr EArrayIndexTooLarge
            else match update dnull rest n with
                 | inl u => inl (DArr (list_set l (Z.to_nat i) u dnull))
                 | inr c => inr c
                 end in
          match view d with
          | WNull => upd_arr []
          | WArr l => upd_arr l
          | WHole => inl d
          | _ => inr EExpectedArray
          end
      | VObj m =>
          let upd_slice (l : list djv) :=
            match obj_get m (codes "start"), obj_get m (codes "end") with
            | Some s, Some e =>
                match slice_bounds (zlen l) e s EArrayIndexNotNumber with
                | inr c => inr c
                | inl (st, en) =>
                    if (st =? en) && is_hole n then inl d
                    else match update (DArr (sublist l st en)) rest n with
                         | inr c => inr c
                         | inl u =>
                             match view u with
                             | WArr ul => inl (DArr (firstn (Z.to_nat st) l ++ ul ++ skipn (Z.to_nat en) l))
                             | WHole => inl (DArr (firstn (Z.to_nat st) l
                                                     ++ map (fun _ => DHole) (sublist l st en)
                                                     ++ skipn (Z.to_nat en) l))
                             | _ => inr EExpectedArray
                             end
                         end
                end
            | _, _ => inr EExpectedStartEnd
            end in
          match view d with
          | WNull => upd_slice []
          | WArr l => upd_slice l
          | WHole => inl d
          | _ => inr EExpectedArray
          end
      | _ =>
          match view d with
          | WArr _ => inr EArrayIndexNotNumber
          | _ => inr EObjectKeyNotString
          end
      end
  end.

(* deleteEmpty; a hole at the root becomes null *)
Fixpoint delete_empty (d : djv) : jv :=
  match d with
  | DHole => VNull
  | DV v => v
  | DArr l =>
      VArr ((fix go (l : list djv) : list jv :=
               match l with
               | [] => []
               | DHole :: r => go r
               | x :: r => delete_empty x :: go r
               end) l)
  | DObj kvs =>
      VObj ((fix go (l : list (bytes * djv)) : list (bytes * jv) :=
               match l with
               | [] => []
               | (_, DHole) :: r => go r
               | (k, x) :: r => (k, delete_empty x) :: go r
               end) kvs)
  end.

Definition fn_setpath (v p n : jv) : nres :=
  match p with
  | VArr path => match update (DV v) path (DV n) with
                 | inl u => NOk (delete_empty u)
                 | inr _ => err EFunc2Wrap
                 end
  | _ => err EFunc1Type
  end.

Definition fn_delpaths (v p : jv) : nres :=
  match p with
  | VArr paths =>
      match paths with
      | [] => NOk v
      | _ =>
          (fix go (u : djv) (ps : list jv) : nres :=
             match ps with
             | [] => NOk (delete_empty u)
             | VArr path :: r => match update u path DHole with
                                 | inl u' => go u' r
                                 | inr _ => err EFunc1Wrap
                                 end
             | _ :: _ => err EFunc1Wrap
             end) (DV v) paths
      end
  | _ => err EFunc1Type
  end.

Definition fn_getpath (v p : jv) : nres :=
  match p with
  | VArr path =>
      (fix go (cur : jv) (ps : list jv) : nres :=
         match ps with
         | [] => NOk cur
         | x :: r =>
             match cur with
             | VNull | VArr _ | VObj _ =>
                 match fn_index2 cur x with
                 | NOk w => go w r
                 | NErr _ _ => err EFunc1Wrap
                 | s => s
                 end
             | _ => err EFunc1Type
             end
         end) v path
  | _ => err EFunc1Type
  end.

(* ------------------------------------------------------------------------------------------ *)
(* simple func.go natives *)

Definition fn_length (v : jv) : nres :=
  match v with
  | VNull => ok_int 0
  | VNum (NInt z) => ok_int (Z.abs z)
  | VNum (NFlt f) => NOk (VFlt (f_abs f))
  | VStr s => ok_int (zlen (runes s))
  | VArr l => ok_int (zlen l)
  | VObj kvs => ok_int (zlen kvs)
  | _ => err EFunc0Type
  end.

Definition fn_abs (v : jv) : nres :=
  match v with
  | VNum (NInt z) => ok_int (Z.abs z)
  | VNum (NFlt f) => NOk (VFlt (f_abs f))
  | _ => err EFunc0Type
  end.

Definition fn_utf8bytelength (v : jv) : nres :=
  match v with VStr s => ok_int (zlen s) | _ => err EFunc0Type end.

Fixpoint iota (n : nat) (from : Z) : list Z :=
  match n with O => [] | S k => from :: iota k (from + 1) end.

Definition fn_keys (v : jv) : nres :=
  match v with
  | VArr l => NOk (VArr (map VInt (iota (List.length l) 0)))
  | VObj kvs => NOk (VArr (map (fun kv => VStr (fst kv)) kvs))
  | _ => err EFunc0Type
  end.

Definition values_of (v : jv) : option (list jv) :=
  match v with
  | VArr l => Some l
  | VObj kvs => Some (map snd kvs)
  | _ => None
  end.

Definition fn_has (v x : jv) : nres :=
  match v, x with
  | VArr l, VNum n => let i := to_int n in ok_bool ((0 <=? i) && (i <? zlen l))
  | VObj kvs, VStr k => ok_bool (obj_has kvs k)
  | VNull, _ => ok_bool false
  | _, _ => err EFunc1Type
  end.

(* add(xs): left fold of funcOpAdd from null (the fast paths of func.go add are the same function) *)
Fixpoint add_list (acc : jv) (l : list jv) : nres :=
  match l with
  | [] => NOk acc
  | VNull :: r => add_list acc r
  | x :: r => match binop_add acc x with NOk v => add_list v r | e => e end
  end.

Definition fn_add (v : jv) : nres :=
  match values_of v with Some l => add_list VNull l | None => err EFunc0Type end.

Definition fn_type (v : jv) : nres := ok_str (type_name v).

Definition fn_reverse (v : jv) : nres :=
  match v with VArr l => NOk (VArr (rev l)) | _ => err EFunc0Type end.

Definition fn_not (v : jv) : nres := ok_bool (negb (truthy v)).

Definition fn_toboolean (v : jv) : nres :=
  match v with
  | VBool _ => NOk v
  | VStr s => if bytes_eqb s (codes "true") then ok_bool true
              else if bytes_eqb s (codes "false") then ok_bool false else err EFunc0Wrap
  | _ => err EFunc0Type
  end.

Definition all_digits (s : bytes) : bool :=
  match s with [] => false | _ => forallb (fun c => (48 <=? c)%N && (c <=? 57)%N) s end.

Definition fn_tonumber (v : jv) : nres :=
  match v with
  | VNum _ => NOk v
  | VStr s =>
      let body := match s with 45%N :: r => r | _ => s end in
      if all_digits body then
        match parse_Z s with Some z => ok_int z | None => skip "tonumber" end
      else if forallb (fun c => ((48 <=? c) && (c <=? 57) || (c =? 46) || (c =? 101) || (c =? 69) || (c =? 43) || (c =? 45))%N) s
           then skip "tonumber-float"      (* may be a valid float literal: decimal conversion not modelled *)
           else match s with
                | [] => err EFunc0Wrap
                | _ => err EFunc0Wrap
                end
  | _ => err EFunc0Type
  end.

Fixpoint contains (fuel : nat) (l r : jv) : nres :=
  match fuel with
  | O => skip "fuel-contains"
  | S f =>
      match l, r with
      | VNum a, VNum b =>
          ok_bool (match a, b with
                   | NInt x, NInt y => x =? y
                   | _, _ => f_eqb (to_float a) (to_float b)
                   end)
      | VStr a, VStr b =>
          ok_bool (match b with
                   | [] => true
                   | _ => (fix go (s : bytes) : bool :=
                             match s with
                             | [] => false
                             | _ :: s' => is_prefix b s || go s'
                             end) a
                   end)
      | VArr a, VArr b =>
          ok_bool (forallb (fun y => existsb (fun x => match contains f x y with NOk (VBool true) => true | _ => false end) a) b)
      | VObj a, VObj b =>
          if zlen a <? zlen b then ok_bool false
          else ok_bool (forallb (fun kv => match obj_get a (fst kv) with
                                           | Some x => match contains f x (snd kv) with NOk (VBool true) => true | _ => false end
                                           | None => false
                                           end) b)
      | VNull, VNull => ok_bool true
      | VBool x, VBool y => if Bool.eqb x y then ok_bool true else err EFunc1Type
      | _, _ => err EFunc1Type
      end
  end.
Definition fn_contains (v x : jv) : nres := contains (S (jv_depth v + jv_depth x)) v x.
Definition fn_inside (v x : jv) : nres := fn_contains x v.

Definition index_func (v x : jv) (f : list jv -> list jv -> jv) : nres :=
  match v with
  | VNull => NOk VNull
  | VArr l => match x with
              | VArr xs => NOk (f l xs)
              | _ => NOk (f l [x])
              end
  | VStr s => match x with
              | VStr t => NOk (f (map (fun r => VInt (Z.of_N r)) (runes s)) (map (fun r => VInt (Z.of_N r)) (runes t)))
              | _ => err EFunc1Type
              end
  | _ => err EFunc1Type
  end.

Definition fn_indices (v x : jv) : nres := index_func v x (fun vs xs => VArr (map VInt (indices_of vs xs))).
Definition fn_index (v x : jv) : nres :=
  index_func v x (fun vs xs => match indices_of vs xs with i :: _ => VInt i | [] => VNull end).
Definition fn_rindex (v x : jv) : nres :=
  index_func v x (fun vs xs => match rev (indices_of vs xs) with i :: _ => VInt i | [] => VNull end).

Fixpoint is_suffix_aux (p s : bytes) : bool := is_prefix (rev p) (rev s).

Definition str2 (v x : jv) (f : bytes -> bytes -> jv) : nres :=
  match v, x with VStr s, VStr t => NOk (f s t) | _, _ => err EFunc1Type end.

Definition trim_prefix (s t : bytes) : bytes := if is_prefix t s then skipn (List.length t) s else s.
Definition trim_suffix (s t : bytes) : bytes :=
  if is_suffix_aux t s then firstn (List.length s - List.length t) s else s.

Definition fn_startswith (v x : jv) := str2 v x (fun s t => VBool (is_prefix t s)).
Definition fn_endswith (v x : jv) := str2 v x (fun s t => VBool (is_suffix_aux t s)).
Definition fn_ltrimstr (v x : jv) := str2 v x (fun s t => VStr (trim_prefix s t)).
Definition fn_rtrimstr (v x : jv) := str2 v x (fun s t => VStr (trim_suffix s t)).
Definition fn_trimstr (v x : jv) := str2 v x (fun s t => VStr (trim_suffix (trim_prefix s t) t)).

(* unicode.IsSpace *)
Definition is_space_rune (r : N) : bool :=
  ((9 <=? r) && (r <=? 13) || (r =? 32) || (r =? 133) || (r =? 160) || (r =? 5760)
   || (8192 <=? r) && (r <=? 8202) || (r =? 8232) || (r =? 8233) || (r =? 8239) || (r =? 8287) || (r =? 12288))%N.

Definition chunk_is_space (c : bytes) : bool :=
  match decode_rune c with
  | Some (r, _) => is_space_rune r && negb ((r =? rune_error)%N && Nat.eqb (List.length c) 1)
  | None => false
  end.
Fixpoint drop_while {A} (f : A -> bool) (l : list A) : list A :=
  match l with [] => [] | x :: r => if f x then drop_while f r else l end.

Definition trim_with (left right : bool) (v : jv) : nres :=
  match v with
  | VStr s =>
      let cs := rune_chunks s in
      let cs := if left then drop_while chunk_is_space cs else cs in
      let cs := if right then rev (drop_while chunk_is_space (rev cs)) else cs in
      ok_str (concat cs)
  | _ => err EFunc0Type
  end.

Definition fn_explode (v : jv) : nres :=
  match v with VStr s => NOk (VArr (map (fun r => VInt (Z.of_N r)) (runes s))) | _ => err EFunc0Type end.

Definition fn_implode (v : jv) : nres :=
  match v with
  | VArr l =>
      (fix go (l : list jv) (acc : list bytes) : nres :=
         match l with
         | [] => ok_str (concat (rev acc))
         | VNum n :: r =>
             let i := to_int n in
             go r ((if (0 <=? i) && (i <=? 1114111) then encode_rune (Z.to_N i) else encode_rune rune_error) :: acc)
         | _ => err EFunc0Type
         end) l []
  | _ => err EFunc0Type
  end.

Definition fn_split1 (v x : jv) : nres :=
  match v, x with
  | VStr s, VStr t => NOk (VArr (map VStr (bytes_split s t)))
  | _, _ => err EFunc0Type
  end.

Definition fn_join (v x : jv) : nres :=
  match values_of v with
  | None => err EFunc1Type
  | Some [] => ok_str []
  | Some vs =>
      let conv (w : jv) : option jv :=
        match w with
        | VBool _ | VNum _ => option_map VStr (to_json w)
        | _ => Some w
        end in
      match all_some (map conv vs) with
      | None => skip "float-format"
      | Some ws =>
          match ws with
          | [] => ok_str []
          | w0 :: r => add_list VNull (VStr [] :: w0 :: flat_map (fun w => [x; w]) r)
          end
      end
  end.

Definition map_ascii (f : N -> N) (v : jv) : nres :=
  match v with
  | VStr s => ok_str (concat (map (fun c => match c with
                                            | [b] => if (b <? 128)%N then [f b] else
                                                       (* strings.Map re-encodes: an invalid byte becomes U+FFFD *)
                                                       encode_rune rune_error
                                            | _ => c end) (rune_chunks s)))
  | _ => err EFunc0Type
  end.
Definition fn_ascii_downcase := map_ascii (fun b => if ((65 <=? b) && (b <=? 90))%N then (b + 32)%N else b).
Definition fn_ascii_upcase := map_ascii (fun b => if ((97 <=? b) && (b <=? 122))%N then (b - 32)%N else b).

(* flatten *)
Fixpoint flatten_aux (fuel : nat) (vs : list jv) (depth : option Z) : list jv :=
  match fuel with
  | O => vs
  | S f =>
      flat_map (fun v => match v with
                         | VArr l => match depth with
                                     | Some 0 => [v]
                                     | Some d => flatten_aux f l (Some (d - 1))
                                     | None => flatten_aux f l None
                                     end
                         | _ => [v]
                         end) vs
  end.

Definition fn_flatten (v : jv) (arg : option jv) : nres :=
  match values_of v with
  | None => err EFunc0Type
  | Some vs =>
      match arg with
      | None => NOk (VArr (flatten_aux (S (jv_depth v)) vs None))
      | Some (VNum n) =>
          let d := to_float n in
          if jq_flt d f_zero then err EFlattenDepth
          else match f_exact_int d with
               | Some z => NOk (VArr (flatten_aux (S (jv_depth v)) vs (Some z)))
               | None => if f_is_inf d then NOk (VArr (flatten_aux (S (jv_depth v)) vs None))
                         else skip "flatten-fractional-depth"
               end
      | Some _ => err EFunc0Type
      end
  end.

(* sorting: sort.SliceStable on at most 20 elements is insertion sort moving an element left while
   it is less than its predecessor; longer inputs are declined when a NaN is involved (the order
   is not a strict weak order then) *)
Fixpoint insert_sorted (x : jv * jv) (sorted_rev : list (jv * jv)) : list (jv * jv) :=
  (* sorted_rev: already sorted prefix, last element first *)
  match sorted_rev with
  | [] => [x]
  | y :: r => if jv_ltb (snd x) (snd y) then y :: insert_sorted x r else x :: sorted_rev
  end.
(* note: [insert_sorted] keeps the list reversed; cons of y happens on the way back *)
Fixpoint insert_rev (x : jv * jv) (l : list (jv * jv)) : list (jv * jv) :=
  match l with
  | [] => [x]
  | y :: r => if jv_ltb (snd x) (snd y) then y :: insert_rev x r else x :: l
  end.
Definition stable_sort (items : list (jv * jv)) : list (jv * jv) :=
  (* fold left: prefix kept reversed (largest first) *)
  rev (fold_left (fun acc x => insert_rev x acc) items []).

Fixpoint has_nan (fuel : nat) (v : jv) : bool :=
  match fuel with
  | O => true
  | S f => match v with
           | VNum (NFlt x) => f_is_nan x
           | VArr l => existsb (has_nan f) l
           | VObj kvs => existsb (fun kv => has_nan f (snd kv)) kvs
           | _ => false
           end
  end.

Definition sort_items (by_ : bool) (v x : jv) : (list (jv * jv)) + nres :=
  match v with
  | VArr vs =>
      match x with
      | VArr xs =>
          if negb (Nat.eqb (List.length vs) (List.length xs)) then inr (err EFunc1Wrap)
          else if (20 <? List.length vs)%nat && has_nan (S (jv_depth x)) x then inr (skip "sort-nan")
          else inl (stable_sort (combine vs xs))
      | _ => inr (err EFunc1Type)
      end
  | _ => inr (err (if by_ then EFunc1Type else EFunc0Type))
  end.

Definition fn_sort_by (by_ : bool) (v x : jv) : nres :=
  match sort_items by_ v x with inl items => NOk (VArr (map fst items)) | inr e => e end.

Fixpoint group_items (items : list (jv * jv)) (cur : list jv) (last : option jv) (acc : list jv) : list jv :=
  match items with
  | [] => match last with None => rev acc | Some _ => rev (VArr (rev cur) :: acc) end
  | (v, k) :: r =>
      match last with
      | None => group_items r [v] (Some k) acc
      | Some lk => if jv_eqb lk k then group_items r (v :: cur) (Some lk) acc
                   else group_items r [v] (Some k) (VArr (rev cur) :: acc)
      end
  end.
Definition fn_group_by (v x : jv) : nres :=
  match sort_items true v x with inl items => NOk (VArr (group_items items [] None [])) | inr e => e end.

Fixpoint unique_items (items : list (jv * jv)) (last : option jv) : list jv :=
  match items with
  | [] => []
  | (v, k) :: r =>
      match last with
      | Some lk => if jv_eqb lk k then unique_items r last else v :: unique_items r (Some k)
      | None => v :: unique_items r (Some k)
      end
  end.
Definition fn_unique_by (by_ : bool) (v x : jv) : nres :=
  match sort_items by_ v x with inl items => NOk (VArr (unique_items items None)) | inr e => e end.

(* minMaxBy *)
Definition min_max_by (vs xs : list jv) (is_min : bool) : jv :=
  match combine vs xs with
  | [] => VNull
  | (v0, x0) :: r =>
      fst (fold_left (fun (acc : jv * jv) (vx : jv * jv) =>
                        let gt := match jv_cmp (snd acc) (snd vx) with Gt => true | _ => false end in
                        if Bool.eqb gt is_min then vx else acc) r (v0, x0))
  end.
Definition fn_minmax (is_min : bool) (v : jv) : nres :=
  match v with VArr vs => NOk (min_max_by vs vs is_min) | _ => err EFunc0Type end.
Definition fn_minmax_by (is_min : bool) (v x : jv) : nres :=
  match v, x with
  | VArr vs, VArr xs => if Nat.eqb (List.length vs) (List.length xs) then NOk (min_max_by vs xs is_min) else err EFunc1Wrap
  | _, _ => err EFunc1Type
  end.

Definition fn_transpose (v : jv) : nres :=
  match v with
  | VArr vss =>
      match vss with
      | [] => NOk (VArr [])
      | _ =>
          if forallb (fun x => match x with VArr _ => true | _ => false end) vss then
            let rows := map (fun x => match x with VArr l => l | _ => [] end) vss in
            let width := fold_left (fun acc r => Nat.max acc (List.length r)) rows O in
            NOk (VArr (map (fun j => VArr (map (fun r => nth j r VNull) rows)) (seq 0 width)))
          else err EFunc0Type
      end
  | _ => err EFunc0Type
  end.

(* sort.Search based bsearch *)
Fixpoint bsearch_aux (fuel : nat) (vs : list jv) (t : jv) (i j : Z) : Z :=
  match fuel with
  | O => i
  | S f =>
      if i <? j then
        let h := (i + j) / 2 in
        match nth_z vs h with
        | Some x => match jv_cmp x t with
                    | Lt => bsearch_aux f vs t (h + 1) j
                    | _ => bsearch_aux f vs t i h
                    end
        | None => i
        end
      else i
  end.
Definition fn_bsearch (v t : jv) : nres :=
  match v with
  | VArr vs =>
      let i := bsearch_aux (S (List.length vs)) vs t 0 (zlen vs) in
      match nth_z vs i with
      | Some x => if jv_eqb x t then ok_int i else ok_int (- i - 1)
      | None => ok_int (- i - 1)
      end
  | _ => err EFunc1Type
  end.

(* math functions: only the ones binary64 gives exactly *)
Definition math1 (f : binary64 -> binary64) (v : jv) : nres :=
  match v with VNum n => NOk (VFlt (f (to_float n))) | _ => err EFunc0Type end.

Definition fn_isinfinite (v : jv) : nres :=
  match v with VNum n => ok_bool (f_is_inf (to_float n)) | _ => ok_bool false end.
Definition fn_isfinite (v : jv) : nres :=
  match v with VNum n => ok_bool (negb (f_is_inf (to_float n))) | _ => ok_bool false end.
Definition fn_isnan (v : jv) : nres :=
  match v with
  | VNum n => ok_bool (f_is_nan (to_float n))
  | VNull => ok_bool false
  | _ => err EFunc0Type
  end.
Definition fn_isnormal (v : jv) : nres :=
  match v with
  | VNum n => let e := Z.shiftr (Z.land (f_bits (to_float n)) 9218868437227405312) 52 in
              ok_bool ((0 <? e) && (e <? 2047))
  | _ => ok_bool false
  end.

Definition fn_error0 (v : jv) : nres := NErr EUser (Some v).

(* @text @json @html @sh ... (func.go funcToHTML etc.) *)
Definition replace_bytes (f : N -> option bytes) (s : bytes) : bytes :=
  flat_map (fun b => match f b with Some r => r | None => [b] end) s.

Definition fn_tohtml (v : jv) : nres :=
  nbind (fn_tostring v) (fun x => match x with
    | VStr s => ok_str (replace_bytes (fun b =>
                  if (b =? 60)%N then Some (codes "&lt;") else if (b =? 62)%N then Some (codes "&gt;")
                  else if (b =? 38)%N then Some (codes "&amp;") else if (b =? 39)%N then Some (codes "&apos;")
                  else if (b =? 34)%N then Some (codes "&quot;") else None) s)
    | _ => NOk x end).

Definition uri_unreserved (b : N) : bool :=
  ((48 <=? b) && (b <=? 57) || (65 <=? b) && (b <=? 90) || (97 <=? b) && (b <=? 122)
   || (b =? 45) || (b =? 95) || (b =? 46) || (b =? 126))%N.
Definition hexu (n : N) : N := if (n <? 10)%N then (48 + n)%N else (55 + n)%N.
Definition fn_touri (v : jv) : nres :=
  nbind (fn_tostring v) (fun x => match x with
    | VStr s => ok_str (replace_bytes (fun b => if uri_unreserved b then None
                                                else Some [37%N; hexu (b / 16)%N; hexu (b mod 16)%N]) s)
    | _ => NOk x end).

Definition format_join (sh : bool) (v : jv) (sep : bytes) (escape : bytes -> bytes) : nres :=
  match v with
  | VArr vs =>
      (fix go (l : list jv) (acc : list bytes) : nres :=
         match l with
         | [] => ok_str (sep_concat sep (rev acc))
         | VArr _ :: _ | VObj _ :: _ => err EFormatRow
         | VStr s :: r => go r (escape s :: acc)
         | w :: r => match to_json w with
                     | Some s => go r ((if bytes_eqb s (codes "null") && negb sh then [] else s) :: acc)
                     | None => skip "float-format"
                     end
         end) vs []
  | _ => err EFunc0Type
  end.

Definition fn_tocsv (v : jv) : nres :=
  format_join false v [44%N] (fun s => 34%N :: replace_bytes (fun b =>
     if (b =? 34)%N then Some [34%N; 34%N] else if (b =? 0)%N then Some (codes "\0") else None) s ++ [34%N]).
Definition fn_totsv (v : jv) : nres :=
  format_join false v [9%N] (replace_bytes (fun b =>
     if (b =? 9)%N then Some (codes "\t") else if (b =? 13)%N then Some (codes "\r")
     else if (b =? 10)%N then Some (codes "\n") else if (b =? 92)%N then Some (codes "\\")
     else if (b =? 0)%N then Some (codes "\0") else None)).
Definition fn_tosh (v : jv) : nres :=
  format_join true (match v with VArr _ => v | _ => VArr [v] end) [32%N] (fun s => 39%N :: replace_bytes (fun b =>
     if (b =? 39)%N then Some (codes "'\''") else if (b =? 0)%N then Some (codes "\0") else None) s ++ [39%N]).

Definition b64char (n : N) : N :=
  if (n <? 26)%N then (65 + n)%N else if (n <? 52)%N then (71 + n)%N
  else if (n <? 62)%N then (n - 4)%N else if (n =? 62)%N then 43%N else 47%N.
Fixpoint b64enc (fuel : nat) (s : bytes) : bytes :=
  match fuel with
  | O => []
  | S f =>
      match s with
      | [] => []
      | [a] => [b64char (a / 4); b64char ((a mod 4) * 16); 61; 61]%N
      | [a; b] => [b64char (a / 4); b64char ((a mod 4) * 16 + b / 16); b64char ((b mod 16) * 4); 61]%N
      | a :: b :: c :: r =>
          [b64char (a / 4); b64char ((a mod 4) * 16 + b / 16); b64char ((b mod 16) * 4 + c / 64); b64char (c mod 64)]%N
            ++ b64enc f r
      end
  end.
Definition fn_tobase64 (v : jv) : nres :=
  nbind (fn_tostring v) (fun x => match x with VStr s => ok_str (b64enc (S (List.length s)) s) | _ => NOk x end).

Definition fn_format (v x : jv) : nres :=
  match x with
  | VStr s =>
      if bytes_eqb s (codes "text") then fn_tostring v
      else if bytes_eqb s (codes "json") then fn_tojson v
      else if bytes_eqb s (codes "html") then fn_tohtml v
      else if bytes_eqb s (codes "uri") then fn_touri v
      else if bytes_eqb s (codes "csv") then fn_tocsv v
      else if bytes_eqb s (codes "tsv") then fn_totsv v
      else if bytes_eqb s (codes "sh") then fn_tosh v
      else if bytes_eqb s (codes "base64") then fn_tobase64 v
      else if bytes_eqb s (codes "base64d") || bytes_eqb s (codes "urid") then skip "format-decoder"
      else err EFormatNotFound
  | _ => err EFunc0Type
  end.

(* ------------------------------------------------------------------------------------------ *)
(* dispatch tables by jq name *)

Definition unsupported (why : string) : jv -> nres := fun _ => skip why.

Open Scope string_scope.
Definition natives0 : list (string * (jv -> nres)) :=
  [ ("length", fn_length); ("utf8bytelength", fn_utf8bytelength); ("keys", fn_keys); ("add", fn_add);
    ("abs", fn_abs); ("toboolean", fn_toboolean); ("tonumber", fn_tonumber); ("tostring", fn_tostring);
    ("type", fn_type); ("reverse", fn_reverse); ("tojson", fn_tojson);
    ("ltrim", trim_with true false); ("rtrim", trim_with false true); ("trim", trim_with true true);
    ("explode", fn_explode); ("implode", fn_implode);
    ("ascii_downcase", fn_ascii_downcase); ("ascii_upcase", fn_ascii_upcase);
    ("_tohtml", fn_tohtml); ("_touri", fn_touri); ("_tocsv", fn_tocsv); ("_totsv", fn_totsv); ("_tosh", fn_tosh);
    ("_tobase64", fn_tobase64);
    ("_plus", fun v => match v with VNum _ => NOk v | _ => err_unary "plus" v end);
    ("_negate", fun v => match v with VNum n => NOk (VNum (num_neg n)) | _ => err_unary "negate" v end);
    ("flatten", fun v => fn_flatten v None);
    ("min", fn_minmax true); ("max", fn_minmax false);
    ("sort", fun v => fn_sort_by false v v); ("unique", fun v => fn_unique_by false v v);
    ("floor", math1 f_floor); ("ceil", math1 f_ceil); ("trunc", math1 f_trunc); ("round", math1 f_roundaway);
    ("rint", math1 f_rint); ("nearbyint", math1 f_rint); ("fabs", math1 f_abs); ("sqrt", math1 f_sqrt);
    ("infinite", fun _ => NOk (VFlt (f_inf false))); ("nan", fun _ => NOk (VFlt f_nan));
    ("isfinite", fn_isfinite); ("isinfinite", fn_isinfinite); ("isnan", fn_isnan); ("isnormal", fn_isnormal);
    ("transpose", fn_transpose); ("error", fn_error0) ].

Definition natives1 : list (string * (jv -> jv -> nres)) :=
  [ ("has", fn_has); ("contains", fn_contains); ("inside", fn_inside); ("indices", fn_indices);
    ("index", fn_index); ("rindex", fn_rindex); ("startswith", fn_startswith); ("endswith", fn_endswith);
    ("ltrimstr", fn_ltrimstr); ("rtrimstr", fn_rtrimstr); ("trimstr", fn_trimstr);
    ("split", fn_split1); ("join", fn_join); ("format", fn_format);
    ("flatten", fun v x => fn_flatten v (Some x));
    ("_min_by", fn_minmax_by true); ("_max_by", fn_minmax_by false);
    ("_sort_by", fn_sort_by true); ("_group_by", fn_group_by); ("_unique_by", fn_unique_by true);
    ("delpaths", fn_delpaths); ("getpath", fn_getpath); ("bsearch", fn_bsearch);
    ("error", fun _ x => NErr EUser (Some x)) ].

Definition natives2 : list (string * (jv -> jv -> jv -> nres)) :=
  [ ("setpath", fn_setpath);
    ("_index", fun _ v x => fn_index2 v x);
    ("_add", fun _ l r => binop_add l r); ("_subtract", fun _ l r => binop_sub l r);
    ("_multiply", fun _ l r => binop_mul l r); ("_divide", fun _ l r => binop_div l r);
    ("_modulo", fun _ l r => binop_mod l r); ("_alternative", fun _ l r => binop_alt l r);
    ("_equal", fun _ => cmp_is (fun c => match c with Eq => true | _ => false end));
    ("_notequal", fun _ => cmp_is (fun c => match c with Eq => false | _ => true end));
    ("_greater", fun _ => cmp_is (fun c => match c with Gt => true | _ => false end));
    ("_less", fun _ => cmp_is (fun c => match c with Lt => true | _ => false end));
    ("_greatereq", fun _ => cmp_is (fun c => match c with Lt => false | _ => true end));
    ("_lesseq", fun _ => cmp_is (fun c => match c with Gt => false | _ => true end)) ].

Definition natives3 : list (string * (jv -> jv -> jv -> jv -> nres)) :=
  [ ("_slice", fun _ v e s => fn_slice v e s) ].

(* natives gojq has but the model declines (by arity); anything else is "function not defined" *)
Definition declined : list (string * Z) :=
  [ ("fromjson", 0); ("_tourid", 0); ("_tobase64d", 0); ("significand", 0); ("cbrt", 0); ("exp", 0); ("exp10", 0);
    ("exp2", 0); ("expm1", 0); ("frexp", 0); ("modf", 0); ("log", 0); ("log10", 0); ("log1p", 0); ("log2", 0);
    ("logb", 0); ("gamma", 0); ("tgamma", 0); ("lgamma", 0); ("erf", 0); ("erfc", 0); ("j0", 0); ("j1", 0); ("y0", 0);
    ("y1", 0); ("sin", 0); ("cos", 0); ("tan", 0); ("asin", 0); ("acos", 0); ("atan", 0); ("sinh", 0); ("cosh", 0);
    ("tanh", 0); ("asinh", 0); ("acosh", 0); ("atanh", 0);
    ("atan2", 2); ("copysign", 2); ("drem", 2); ("fdim", 2); ("fmax", 2); ("fmin", 2); ("fmod", 2); ("hypot", 2);
    ("jn", 2); ("nextafter", 2); ("nexttoward", 2); ("remainder", 2); ("ldexp", 2); ("scalb", 2); ("scalbln", 2);
    ("yn", 2); ("pow", 2); ("fma", 3);
    ("gmtime", 0); ("localtime", 0); ("mktime", 0); ("strftime", 1); ("strflocaltime", 1); ("strptime", 1); ("now", 0);
    ("_match", 3); ("_captures", 0); ("builtins", 0); ("modulemeta", 0); ("debug", 1); ("env", 0);
    ("halt_error", 1) ].

Close Scope string_scope.

(* the tables keyed by bytes, converted once (a constant of the extracted program) *)
Definition keyed {A} (l : list (string * A)) : list (bytes * A) := map (fun p => (codes (fst p), snd p)) l.
Definition natives0b := keyed natives0.
Definition natives1b := keyed natives1.
Definition natives2b := keyed natives2.
Definition natives3b := keyed natives3.
Definition declinedb := keyed declined.

Fixpoint assoc_b {A} (l : list (bytes * A)) (name : bytes) : option A :=
  match l with
  | [] => None
  | (s, a) :: r => if list_N_eqb name s then Some a else assoc_b r name
  end.

Definition is_declined (name : bytes) (arity : nat) : bool :=
  existsb (fun p => list_N_eqb name (fst p) && (snd p =? Z.of_nat arity)) declinedb.

(* None: gojq has no such native *)
Definition call_native (name : bytes) (v : jv) (args : list jv) : option nres :=
  match args with
  | [] => match assoc_b natives0b name with Some f => Some (f v) | None =>
            if is_declined name 0 then Some (NSkip name) else None end
  | [a] => match assoc_b natives1b name with Some f => Some (f v a) | None =>
            if is_declined name 1 then Some (NSkip name) else None end
  | [a; b] => match assoc_b natives2b name with Some f => Some (f v a b) | None =>
            if is_declined name 2 then Some (NSkip name) else None end
  | [a; b; c] => match assoc_b natives3b name with Some f => Some (f v a b c) | None =>
            if is_declined name 3 then Some (NSkip name) else None end
  | _ => None
  end.
