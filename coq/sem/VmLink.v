(* VmLink.v — END TO END on the fragment F0 /\ F: the code that coq/c01vm's transcription of compiler.go emits
   for q, run on coq/c01vm's transcription of the VM (execute.go), yields exactly the observation of the
   reference semantics Sem on the translated program — by composing
     VM(compile q) = Den q          (coq/c01vm: Peep.compile_correct, for EVERY instance of the natives)
     Den q  ~  den0 (tr q)          (this file: den_link, natives instantiated with Sem's on embedded values)
     den0 q' = Sem on (emb q')      (DenLink.v: sem_den0 / observe_den0).
   coq/c01vm is imported read-only.  R is "agreement up to the point where Sem declines (skip)". *)
From Coq Require Import String.
From Coq Require Import List ZArith NArith Bool Lia.
From Verif Require Import common.Sexp sem.JV sem.Syntax sem.Natives sem.Sem sem.SemProofs sem.DenLink.
From Verif Require c01vm.Syntax c01vm.Code c01vm.Den c01vm.VM c01vm.Compile c01vm.Correct c01vm.Peep.
Import ListNotations.
Module VS := Verif.c01vm.Syntax.
Module VC := Verif.c01vm.Code.
Module VD := Verif.c01vm.Den.

(* values of c01vm (integers only) embedded into the values of Sem *)
Fixpoint emb_v (v : VS.jv) : jv :=
  match v with
  | VS.VNull => VNull
  | VS.VBool b => VBool b
  | VS.VNum z => VNum (NInt z)
  | VS.VStr s => VStr s
  | VS.VArr l => VArr (map emb_v l)
  | VS.VObj l => VObj (map (fun kv => (fst kv, emb_v (snd kv))) l)
  end.

(* variable n of c01vm is the jq variable $a..a (n+1 letters) *)
Definition name_of (x : N) : bytes := 36%N :: repeat 97%N (S (N.to_nat x)).

Definition op_of (o : VS.binop) : operator :=
  match o with
  | VS.OAdd => OpAdd | VS.OSub => OpSub | VS.OEq => OpEq | VS.ONe => OpNe
  | VS.OLt => OpLt | VS.OLe => OpLe | VS.OGt => OpGt | VS.OGe => OpGe
  end.

(* the operands compileCallInternal inlines *)
Definition tr_sarg (a : VS.sarg) : option q0 :=
  match a with
  | VS.AId => Some Z0Id
  | VS.AConst VS.VNull => Some Z0Null
  | VS.AConst (VS.VBool b) => Some (Z0Bool b)
  | VS.AConst (VS.VNum z) => Some (Z0Num (print_Z z) (NInt z))
  | VS.AConst (VS.VStr s) => Some (Z0Str s)
  | VS.AConst _ => None
  | VS.AIndex (VS.VStr (c :: k)) => Some (Z0Field Z0Id c k)
  | VS.AIndex _ => None
  | VS.AIter => Some (Z0Iter Z0Id)
  | VS.AEmpty => Some Z0Empty
  | VS.ACall0 VS.F0Error => Some Z0Error
  | VS.ACall0 VS.F0Length => Some Z0Length
  end.

Fixpoint tr (q : VS.query) : option q0 :=
  match q with
  | VS.QId => Some Z0Id
  | VS.QConst VS.VNull => Some Z0Null
  | VS.QConst (VS.VBool b) => Some (Z0Bool b)
  | VS.QConst (VS.VNum z) => Some (Z0Num (print_Z z) (NInt z))
  | VS.QConst (VS.VStr s) => Some (Z0Str s)
  | VS.QPipe a b => match tr a, tr b with Some a, Some b => Some (Z0Pipe a b) | _, _ => None end
  | VS.QComma a b => match tr a, tr b with Some a, Some b => Some (Z0Comma a b) | _, _ => None end
  | VS.QEmpty => Some Z0Empty
  | VS.QIter t => option_map Z0Iter (tr t)
  | VS.QIndex t (VS.VStr (c :: k)) => option_map (fun t => Z0Field t c k) (tr t)
  | VS.QIf c a b => match tr c, tr a, tr b with Some c, Some a, Some b => Some (Z0If c a b) | _, _, _ => None end
  | VS.QTry a None => option_map (fun a => Z0Try a None) (tr a)
  | VS.QTry a (Some h) => match tr a, tr h with Some a, Some h => Some (Z0Try a (Some h)) | _, _ => None end
  | VS.QBind src x body => match tr src, tr body with Some s, Some b => Some (Z0Bind s (name_of x) b) | _, _ => None end
  | VS.QVar x => Some (Z0Var (name_of x))
  | VS.QCall0 VS.F0Error => Some Z0Error
  | VS.QCall0 VS.F0Length => Some Z0Length
  | VS.QArray q => option_map Z0Array (tr q)
  | VS.QAlt a b => match tr a, tr b with Some a, Some b => Some (Z0Alt a b) | _, _ => None end
  | VS.QReduce src x init upd =>
      match tr src, tr init, tr upd with
      | Some s, Some i, Some u => Some (Z0Reduce s (name_of x) i u)
      | _, _, _ => None
      end
  | VS.QBinop o a b => match tr_sarg a, tr_sarg b with Some a, Some b => Some (Z0Binop (op_of o) a b) | _, _ => None end
  | VS.QLabel l b => option_map (Z0Label (name_of l)) (tr b)
  | VS.QBreak l => Some (Z0Break (name_of l))
  | VS.QForeach src x init upd None =>
      match tr src, tr init, tr upd with
      | Some s, Some i, Some u => Some (Z0Foreach s (name_of x) i u None)
      | _, _, _ => None
      end
  | VS.QForeach src x init upd (Some e) =>
      match tr src, tr init, tr upd, tr e with
      | Some s, Some i, Some u, Some e => Some (Z0Foreach s (name_of x) i u (Some e))
      | _, _, _, _ => None
      end
  | _ => None
  end.

(* errors: Sem carries (class, what catch receives); c01vm carries the payload or the message *)
Definition erel (c : errclass) (val : option jv) (e : VS.err0) : Prop :=
  match e with
  | VS.EVal v => val = Some (emb_v v)
  | VS.EMsg m => val = None \/ val = Some (VStr m)
  end.
(* breaks: c01vm's Den breaks to the label NAME, Sem to the id the name is bound to in the environment L *)
Definition xrel (L : env) (a : option exn) (b : option VD.exn) : Prop :=
  match a, b with
  | None, None => True
  | Some (XErr O c val), Some (VD.XErr e) => erel c val e
  | Some (XBreak i), Some (VD.XBrk l) => lookup_label L (name_of l) = Some i
  | _, _ => False
  end.
(* agreement up to the point where Sem declines: either both results agree, or Sem's outputs are
   (the embedding of) a prefix of the VM-side outputs and Sem ends with a skip *)
Definition R (L : env) (rs : result) (rv : VD.result) : Prop :=
  (fst rs = map emb_v (fst rv) /\ xrel L (snd rs) (snd rv)) \/
  (exists why pre post, snd rs = Some (XSkip why) /\ fst rv = pre ++ post /\ fst rs = map emb_v pre).

Section Rel.
Variable L : env.

Lemma R_rseq a a' b b' : R L a a' -> R L b b' -> R L (rseq a b) (VD.seq a' b').
Proof.
  intros [[Ea Xa]|(why & pre & post & Sa & Pa & Ea)] Hb; destruct a as [ws x], a' as [ws' x']; cbn [fst snd] in *.
  - destruct x as [x|], x' as [x'|]; cbn [rseq VD.seq]; try (destruct x as [[|d]| | | | |]; contradiction); try contradiction.
    + left. split; assumption.
    + destruct Hb as [[Eb Xb]|(why & pre & post & Sb & Pb & Eb)]; cbn [fst snd].
      * left. cbn [fst snd]. split; [rewrite map_app, Ea, Eb; reflexivity|exact Xb].
      * right. exists why, (ws' ++ pre), post. cbn [fst snd]. rewrite Sb, Pb, Ea, Eb, map_app, app_assoc. auto.
  - subst x. cbn [rseq]. right. destruct x' as [x'|]; cbn [VD.seq fst snd].
    + exists why, pre, post. auto.
    + exists why, pre, (post ++ fst b'). rewrite Pa, app_assoc. auto.
Qed.

Lemma R_bind_list f f' : (forall w, R L (f (emb_v w)) (f' w)) ->
  forall ws', R L (rbind_list (map emb_v ws') f) (VD.bind_list ws' f').
Proof.
  intros Hf. induction ws' as [|w r IH]; cbn [map rbind_list VD.bind_list].
  - left. split; [reflexivity|exact I].
  - apply R_rseq; [apply Hf|exact IH].
Qed.

Lemma bind_list_app f a b : VD.bind_list (a ++ b) f = VD.seq (VD.bind_list a f) (VD.bind_list b f).
Proof.
  induction a as [|w a IH]; cbn [app VD.bind_list].
  - destruct (VD.bind_list b f); reflexivity.
  - rewrite IH. destruct (f w) as [os [x|]]; cbn [VD.seq]; [reflexivity|].
    destruct (VD.bind_list a f) as [os1 [y|]]; cbn [VD.seq fst snd]; [reflexivity|].
    rewrite app_assoc. reflexivity.
Qed.

Lemma R_rbind r r' f f' : R L r r' -> (forall w, R L (f (emb_v w)) (f' w)) -> R L (rbind r f) (VD.bind r' f').
Proof.
  intros Hr Hf. unfold rbind, VD.bind.
  destruct Hr as [[Er Xr]|(why & pre & post & Sr & Pr & Er)].
  - rewrite Er. pose proof (R_bind_list f f' Hf (fst r')) as HL.
    destruct (rbind_list (map emb_v (fst r')) f) as [os x], (VD.bind_list (fst r') f') as [os' x'].
    destruct HL as [[EL XL]|(why & pre & post & SL & PL & EL)]; cbn [fst snd] in *.
    + destruct x as [x|], x' as [x'|]; try (destruct x as [[|d]| | | | |]; contradiction); try contradiction.
      * left. split; assumption.
      * left. split; assumption.
    + subst x. right. exists why, pre, post. destruct x'; cbn [fst snd]; auto.
  - rewrite Er, Pr, bind_list_app. pose proof (R_bind_list f f' Hf pre) as HL.
    destruct (rbind_list (map emb_v pre) f) as [os x], (VD.bind_list pre f') as [os' x'].
    destruct HL as [[EL XL]|(why' & pre' & post' & SL & PL & EL)]; cbn [fst snd] in *.
    + destruct x as [x|], x' as [x'|]; try (destruct x as [[|d]| | | | |]; contradiction); try contradiction.
      * cbn [VD.seq]. left. split; assumption.
      * cbn [VD.seq]. right. exists why, os', (fst (VD.bind_list post f')).
        destruct (VD.bind_list post f') as [os2 [y|]]; cbn [fst snd]; rewrite Sr; auto.
    + subst x. right. destruct x' as [x'|]; cbn [VD.seq].
      * exists why', pre', post'. cbn [fst snd]. auto.
      * exists why', pre', (post' ++ fst (VD.bind_list post f')).
        destruct (VD.bind_list post f') as [os2 [y|]]; cbn [fst snd]; rewrite PL, app_assoc; auto.
Qed.

Lemma name_of_var x : is_var_name (name_of x) = true.
Proof. reflexivity. Qed.

Lemma repeat_eqb n m : list_N_eqb (repeat 97%N n) (repeat 97%N m) = Nat.eqb n m.
Proof.
  revert m. induction n as [|n IH]; destruct m as [|m]; cbn; try reflexivity. apply IH.
Qed.

Lemma name_of_eqb x y : list_N_eqb (name_of x) (name_of y) = N.eqb x y.
Proof.
  unfold name_of. cbn [list_N_eqb]. rewrite N.eqb_refl. cbn [andb]. rewrite repeat_eqb. cbn [Nat.eqb].
  destruct (N.eqb_spec x y) as [->|Hne]; [apply Nat.eqb_refl|].
  apply Nat.eqb_neq. intros H. apply Hne. apply N2Nat.inj. exact H.
Qed.

Lemma name_of_not_env x : list_N_eqb (name_of x) (codes "$ENV") = false.
Proof. unfold name_of. destruct (N.to_nat x); reflexivity. Qed.

Lemma tr_sarg_ok0 a a' : tr_sarg a = Some a' -> ok0 a'.
Proof.
  destruct a as [|c|k| | |f]; cbn [tr_sarg]; intros H.
  - injection H as <-. exact I.
  - destruct c; try discriminate; injection H as <-; exact I.
  - destruct k as [| | |[|c k]| |]; try discriminate. injection H as <-. exact I.
  - injection H as <-. exact I.
  - injection H as <-. exact I.
  - destruct f; injection H as <-; exact I.
Qed.

Fixpoint tr_ok0 (q : VS.query) : forall q', tr q = Some q' -> ok0 q'.
Proof.
  destruct q; intros q' H; cbn [tr] in H.
  all: try (injection H as <-; exact I).
  all: try discriminate.
  - destruct c; try discriminate; injection H as <-; exact I.
  - destruct (tr q1) eqn:E1, (tr q2) eqn:E2; try discriminate. injection H as <-. cbn. eauto.
  - destruct (tr q1) eqn:E1, (tr q2) eqn:E2; try discriminate. injection H as <-. cbn. eauto.
  - destruct (tr q) eqn:E1; try discriminate. injection H as <-. cbn. eauto.
  - destruct k as [| | |[|c k]| |]; try discriminate; destruct (tr q) eqn:E1; try discriminate; cbn in H; injection H as <-; cbn; eauto.
  - destruct (tr q1) eqn:E1, (tr q2) eqn:E2, (tr q3) eqn:E3; try discriminate. injection H as <-. cbn. repeat split; eauto.
  - destruct (tr q1) eqn:E1, (tr q2) eqn:E2; try discriminate. injection H as <-. cbn. eauto.
  - destruct h as [h|].
    + destruct (tr q) eqn:E1; try discriminate. destruct (tr h) eqn:E2; try discriminate. injection H as <-. cbn. split; eauto.
    + destruct (tr q) eqn:E1; try discriminate. cbn in H. injection H as <-. cbn. split; eauto.
  - destruct (tr q) eqn:E1; try discriminate. cbn in H. injection H as <-. cbn. eauto.
  - destruct (tr q1) eqn:E1, (tr q2) eqn:E2, (tr q3) eqn:E3; try discriminate. injection H as <-. cbn. repeat split; eauto.
  - destruct ext as [e|].
    + destruct (tr q1) eqn:E1, (tr q2) eqn:E2, (tr q3) eqn:E3; try discriminate. destruct (tr e) eqn:E4; try discriminate.
      injection H as <-. cbn. repeat split; eauto.
    + destruct (tr q1) eqn:E1, (tr q2) eqn:E2, (tr q3) eqn:E3; try discriminate. injection H as <-. cbn. repeat split; eauto.
  - destruct (tr q) eqn:E1; try discriminate. cbn in H. injection H as <-. cbn. eauto.
  - destruct (tr q1) eqn:E1, (tr q2) eqn:E2; try discriminate. injection H as <-. cbn. repeat split; eauto.
  - injection H as <-. cbn [ok0]. split; [reflexivity|apply name_of_not_env].
  - destruct f; injection H as <-; exact I.
  - destruct (tr_sarg a) eqn:E1, (tr_sarg b) eqn:E2; try discriminate. injection H as <-. cbn [ok0].
    split; [destruct o; reflexivity|]. split; eapply tr_sarg_ok0; eassumption.
Qed.

(* environments: c01vm binds variable numbers, Sem binds names *)
Definition renv (rs : env) (rv : VD.venv) : Prop :=
  vars_only rs /\
  forall x, lookup_var rs (name_of x) = option_map (fun w => plain (emb_v w)) (VS.lookup x rv).

Lemma renv_nil : renv [] [].
Proof. split; [exact I|reflexivity]. Qed.

Lemma renv_bind rs rv x w : renv rs rv -> renv (bind_env rs (name_of x) (emb_v w)) ((x, w) :: rv).
Proof.
  intros [Hv Hl]. split; [exact Hv|]. intros y. unfold bind_env. cbn [lookup_var VS.lookup].
  rewrite name_of_eqb. rewrite N.eqb_sym. destruct (N.eqb y x); [reflexivity|apply Hl].
Qed.

Definition try_s (a : result) (h : option (jv -> result)) : result :=
  match a with
  | (ws, Some (XErr O c val)) =>
      match h with
      | None => (ws, None)
      | Some hf => match val with
                   | Some e => rseq (ws, None) (hf e)
                   | None => (ws, Some (XSkip (codes "error-message")))
                   end
      end
  | r => r
  end.
Definition try_v (a : VD.result) (h : option (VS.jv -> VD.result)) : VD.result :=
  match a with
  | (ws, Some (VD.XErr e)) =>
      match h with
      | Some hf => VD.seq (ws, None) (hf (VS.errval e))
      | None => (ws, None)
      end
  | r => r
  end.

Lemma R_try a a' h h' : R L a a' ->
  match h, h' with
  | None, None => True
  | Some f, Some f' => forall w, R L (f (emb_v w)) (f' w)
  | _, _ => False
  end -> R L (try_s a h) (try_v a' h').
Proof.
  intros Ha Hh. destruct a as [ws x], a' as [ws' x'].
  destruct Ha as [[Ea Xa]|(why & pre & post & Sa & Pa & Ea)]; cbn [fst snd] in *.
  - destruct x as [[[|d] c val| | | | |]|], x' as [[e|lb]|]; cbn [xrel] in Xa; try contradiction.
    + (* a caught error *) cbn [try_s try_v].
      destruct h as [f|], h' as [f'|]; try contradiction.
      * destruct e as [v|m]; cbn [erel] in Xa.
        -- subst val. apply R_rseq; [left; split; [exact Ea|exact I]|apply Hh].
        -- destruct Xa as [->| ->].
           ++ right. exists (codes "error-message"), ws', (fst (f' (VS.errval (VS.EMsg m)))).
              destruct (f' (VS.errval (VS.EMsg m))) as [os y]; cbn [VD.seq fst snd]. auto.
           ++ apply R_rseq; [left; split; [exact Ea|exact I]|]. exact (Hh (VS.VStr m)).
      * left. split; [exact Ea|exact I].
    + left. split; [exact Ea|exact Xa].
    + left. split; [exact Ea|exact I].
  - subst x. cbn [try_s]. right. exists why, pre, (post ++ match x' with
        | Some (VD.XErr e) => match h' with Some hf => fst (hf (VS.errval e)) | None => [] end
        | _ => [] end).
    destruct x' as [[e|lb]|]; cbn [try_v fst snd]; try (rewrite Pa, app_nil_r; auto).
    destruct h' as [hf|]; cbn [VD.seq fst snd]; [|rewrite Pa, app_nil_r; auto].
    destruct (hf (VS.errval e)) as [os y]; cbn [fst snd]. rewrite Pa, app_assoc. auto.
Qed.

Lemma den0_try_eq rs0 a h rho v :
  den0 rs0 (Z0Try a h) rho v = try_s (den0 rs0 a rho v) (option_map (fun h e => den0 rs0 h rho e) h).
Proof.
  cbn [den0]. destruct (den0 rs0 a rho v) as [ws [[[|d] c val| | | | |]|]]; destruct h; reflexivity.
Qed.

Lemma den_try_eq nt a h rho v :
  VD.den nt (VS.QTry a h) rho v = try_v (VD.den nt a rho v) (option_map (fun h e => VD.den nt h rho e) h).
Proof.
  cbn [VD.den]. destruct (VD.den nt a rho v) as [ws [[e|lb]|]]; destruct h; reflexivity.
Qed.

(* [q] *)
Definition arr_s (a : result) : result :=
  match a with (ws, None) => ([VArr ws], None) | (_, Some x) => ([], Some x) end.
Definition arr_v (a : VD.result) : VD.result :=
  match a with (ws, None) => ([VS.VArr ws], None) | (_, Some x) => ([], Some x) end.

Lemma R_array a a' : R L a a' -> R L (arr_s a) (arr_v a').
Proof.
  intros [[Ea Xa]|(why & pre & post & Sa & Pa & Ea)]; destruct a as [ws x], a' as [ws' x']; cbn [fst snd] in *.
  - destruct x as [[[|d] c val| | | | |]|], x' as [[e|lb]|]; cbn [xrel] in Xa; try contradiction; cbn [arr_s arr_v].
    + left. split; [reflexivity|exact Xa].
    + left. split; [reflexivity|exact Xa].
    + left. split; [|exact I]. cbn [fst map emb_v]. rewrite Ea. reflexivity.
  - subst x. cbn [arr_s]. right. exists why, [], (fst (arr_v (ws', x'))). auto.
Qed.

(* reduce *)
Definition red_s (src : result) (upd : jv -> jv -> result) (s0 : jv) : result :=
  let '(ws, sx) := src in
  match reduce_fold0 upd ws s0 with
  | inr e => ([], Some e)
  | inl acc => match sx with Some e => ([], Some e) | None => ([acc], None) end
  end.
Definition red_v (src : VD.result) (upd : VS.jv -> VS.jv -> VD.result) (s0 : VS.jv) : VD.result :=
  let '(ws, sx) := src in
  match VD.reduce_fold upd ws s0 with
  | inr e => ([], Some e)
  | inl acc => match sx with Some e => ([], Some e) | None => ([acc], None) end
  end.

Definition fold_rel (a : jv + exn) (b : VS.jv + VD.exn) : Prop :=
  match a, b with
  | inl x, inl y => x = emb_v y
  | inr (XErr O c val), inr (VD.XErr e) => erel c val e
  | inr (XBreak i), inr (VD.XBrk l) => lookup_label L (name_of l) = Some i
  | inr (XSkip _), _ => True
  | _, _ => False
  end.

Lemma last_emb us acc : last (map emb_v us) (emb_v acc) = emb_v (last us acc).
Proof. induction us as [|u r IH]; [reflexivity|]. cbn [map last]. destruct r; [reflexivity|exact IH]. Qed.

Lemma fold_rel_ind upd upd' : (forall w acc, R L (upd (emb_v w) (emb_v acc)) (upd' w acc)) ->
  forall ws acc, fold_rel (reduce_fold0 upd (map emb_v ws) (emb_v acc)) (VD.reduce_fold upd' ws acc).
Proof.
  intros Hu. induction ws as [|w r IH]; intros acc; cbn [map reduce_fold0 VD.reduce_fold]; [reflexivity|].
  destruct (Hu w acc) as [[Eu Xu]|(why & pre & post & Su & _ & _)];
    destruct (upd (emb_v w) (emb_v acc)) as [us x], (upd' w acc) as [us' x']; cbn [fst snd] in *.
  - destruct x as [[[|d] c val| | | | |]|], x' as [[e|lb]|]; cbn [xrel] in Xu; try contradiction.
    + exact Xu.
    + exact Xu.
    + unfold VD.last_or. rewrite Eu, last_emb. apply IH.
  - subst x. exact I.
Qed.

Lemma reduce_fold_app upd a b acc :
  VD.reduce_fold upd (a ++ b) acc = match VD.reduce_fold upd a acc with inl acc' => VD.reduce_fold upd b acc' | inr e => inr e end.
Proof.
  revert acc. induction a as [|w a IH]; intros acc; cbn [app VD.reduce_fold]; [reflexivity|].
  destruct (upd w acc) as [us [x|]]; [reflexivity|apply IH].
Qed.

Lemma R_reduce src src' upd upd' : R L src src' ->
  (forall w acc, R L (upd (emb_v w) (emb_v acc)) (upd' w acc)) ->
  forall s0, R L (red_s src upd (emb_v s0)) (red_v src' upd' s0).
Proof.
  intros Hs Hu s0. destruct src as [ws sx], src' as [ws' sx'].
  destruct Hs as [[Es Xs]|(why & pre & post & Ss & Ps & Es)]; cbn [fst snd] in *; unfold red_s, red_v.
  - subst ws. pose proof (fold_rel_ind upd upd' Hu ws' s0) as HF.
    destruct (reduce_fold0 upd (map emb_v ws') (emb_v s0)) as [a|e], (VD.reduce_fold upd' ws' s0) as [a'|e']; cbn [fold_rel] in HF.
    + subst a. destruct sx as [[[|d] c val| | | | |]|], sx' as [[e|lb]|]; cbn [xrel] in Xs; try contradiction.
      * left. split; [reflexivity|exact Xs].
      * left. split; [reflexivity|exact Xs].
      * left. split; [reflexivity|exact I].
    + contradiction.
    + destruct e as [[|d] c val| | | | |]; try contradiction. destruct sx' as [e0|]; right; [exists why, [], []|exists why, [], [a']]; cbn; auto.
    + destruct e as [[|d] c val|i| | | |]; try contradiction.
      * destruct e' as [e'|lb]; [|contradiction]. left. split; [reflexivity|exact HF].
      * destruct e' as [e'|lb]; [contradiction|]. left. split; [reflexivity|exact HF].
      * right. exists why, [], []. auto.
  - subst ws sx ws'. rewrite reduce_fold_app. pose proof (fold_rel_ind upd upd' Hu pre s0) as HF.
    destruct (reduce_fold0 upd (map emb_v pre) (emb_v s0)) as [a|e], (VD.reduce_fold upd' pre s0) as [a'|e']; cbn [fold_rel] in HF.
    + right. exists why, [], (fst (match VD.reduce_fold upd' post a' with
                                   | inl acc => match sx' with Some e => ([], Some e) | None => ([acc], None) end
                                   | inr e => ([], Some e) end)). auto.
    + contradiction.
    + destruct e as [[|d] c val| | | | |]; try contradiction. right. exists why0, [], (fst (match VD.reduce_fold upd' post a' with
                                   | inl acc => match sx' with Some e => ([], Some e) | None => ([acc], None) end
                                   | inr e => ([], Some e) end)). auto.
    + destruct e as [[|d] c val|i| | | |]; try contradiction.
      * destruct e' as [e'|lb]; [|contradiction]. left. split; [reflexivity|exact HF].
      * destruct e' as [e'|lb]; [contradiction|]. left. split; [reflexivity|exact HF].
      * right. exists why0, [], []. auto.
Qed.

Lemma renv_bind1 rs rv x w : renv rs rv -> renv (BVar (name_of x) (plain (emb_v w)) :: rs) ((x, w) :: rv).
Proof.
  intros [Hv Hl]. split; [exact Hv|]. intros y. cbn [lookup_var VS.lookup].
  rewrite name_of_eqb. rewrite N.eqb_sym. destruct (N.eqb y x); [reflexivity|apply Hl].
Qed.

Lemma den0_array_eq rs0 q rho v : den0 rs0 (Z0Array q) rho v = arr_s (den0 rs0 q rho v).
Proof. cbn [den0]. destruct (den0 rs0 q rho v) as [ws [x|]]; reflexivity. Qed.
Lemma den_array_eq nt q rho v : VD.den nt (VS.QArray q) rho v = arr_v (VD.den nt q rho v).
Proof. cbn [VD.den]. destruct (VD.den nt q rho v) as [ws [x|]]; reflexivity. Qed.

Lemma den0_reduce_eq rs0 src x init upd rho v :
  den0 rs0 (Z0Reduce src x init upd) rho v =
  rbind (den0 rs0 init rho v) (red_s (den0 rs0 src rho v) (fun w acc => den0 rs0 upd (BVar x (plain w) :: rho) acc)).
Proof. reflexivity. Qed.
Lemma den_reduce_eq nt src x init upd rho v :
  VD.den nt (VS.QReduce src x init upd) rho v =
  VD.bind (VD.den nt init rho v) (red_v (VD.den nt src rho v) (fun w acc => VD.den nt upd ((x, w) :: rho) acc)).
Proof. reflexivity. Qed.

(* foreach *)
Lemma R_skip why r' : R L ([], Some (XSkip why)) r'.
Proof. right. exists why, [], (fst r'). auto. Qed.

Lemma R_rseq' a a' b b' : R L a a' -> (snd a = None -> R L b b') -> R L (rseq a b) (VD.seq a' b').
Proof.
  intros Ha Hb. destruct (snd a) as [x|] eqn:E.
  - replace (rseq a b) with (rseq a ([], Some (XSkip []))) by (destruct a as [ws [y|]]; [reflexivity|discriminate]).
    apply R_rseq; [exact Ha|apply R_skip].
  - apply R_rseq; [exact Ha|apply Hb; reflexivity].
Qed.

Lemma seq_assoc a b c : VD.seq (VD.seq a b) c = VD.seq a (VD.seq b c).
Proof.
  destruct a as [wa [xa|]]; [reflexivity|]. destruct b as [wb [xb|]]; cbn [VD.seq fst snd]; [reflexivity|].
  rewrite app_assoc. reflexivity.
Qed.

Lemma foreach_upd_spec ext us acc :
  fst (VD.foreach_upd ext us acc) = VD.bind_list us ext /\
  (snd (VD.bind_list us ext) = None -> snd (VD.foreach_upd ext us acc) = last us acc).
Proof.
  revert acc. induction us as [|u r IH]; intros acc; cbn [VD.foreach_upd VD.bind_list]; [split; reflexivity|].
  destruct (ext u) as [os [x|]]; cbn [VD.seq fst snd].
  - split; [reflexivity|]. intros E; discriminate.
  - destruct (IH u) as [E1 E2]. destruct (VD.foreach_upd ext r u) as [[os' x] acc']. cbn [fst snd] in *.
    rewrite <- E1. cbn [fst snd]. split; [reflexivity|]. intros E. rewrite last_cons. apply E2. rewrite <- E1. exact E.
Qed.

Lemma foreach_fold_cons upd ext w r acc :
  VD.foreach_fold upd ext (w :: r) acc =
  VD.seq (VD.bind (upd w acc) (ext w)) (VD.foreach_fold upd ext r (last (fst (upd w acc)) acc)).
Proof.
  cbn [VD.foreach_fold]. unfold VD.bind. destruct (upd w acc) as [us ux]. cbn [fst snd].
  destruct (foreach_upd_spec (ext w) us acc) as [E1 E2].
  destruct (VD.foreach_upd (ext w) us acc) as [[os x] acc']. cbn [fst snd] in *. rewrite <- E1.
  destruct x as [x|]; [reflexivity|]. destruct ux as [x|]; [reflexivity|].
  cbn [VD.seq]. rewrite (E2 (f_equal snd (eq_sym E1))). reflexivity.
Qed.

Lemma rbind_none r f : snd (rbind r f) = None -> snd r = None.
Proof. unfold rbind. destruct (rbind_list (fst r) f) as [os [x|]]; cbn [snd]; [discriminate|auto]. Qed.

Lemma R_foreach_fold upd upd' ext ext' tail post sx' :
  (forall w acc, R L (upd (emb_v w) (emb_v acc)) (upd' w acc)) ->
  (forall w u, R L (ext (emb_v w) (emb_v u)) (ext' w u)) ->
  (forall acc, R L tail (VD.seq (VD.foreach_fold upd' ext' post acc) ([], sx'))) ->
  forall pre acc, R L (rseq (foreach_fold0 upd ext (map emb_v pre) (emb_v acc)) tail)
                    (VD.seq (VD.foreach_fold upd' ext' (pre ++ post) acc) ([], sx')).
Proof.
  intros Hu He Ht. induction pre as [|w r IH]; intros acc.
  - cbn [map app foreach_fold0 rseq fst snd]. destruct tail as [tw tx]. exact (Ht acc).
  - cbn [map app]. rewrite foreach_fold0_cons, foreach_fold_cons, rseq_assoc, seq_assoc.
    apply R_rseq'; [apply R_rbind; [apply Hu|apply He]|].
    intros Hn. unfold item_res in Hn. apply rbind_none in Hn.
    destruct (Hu w acc) as [[Eu Xu]|(why & pre' & post' & Su & _ & _)]; [|rewrite Su in Hn; discriminate].
    rewrite Eu, last_emb. apply IH.
Qed.

Definition fe_s (src : result) (upd ext : jv -> jv -> result) (s0 : jv) : result :=
  let '(ws, sx) := src in rseq (foreach_fold0 upd ext ws s0) ([], sx).
Definition fe_v (src : VD.result) (upd ext : VS.jv -> VS.jv -> VD.result) (s0 : VS.jv) : VD.result :=
  let '(ws, sx) := src in VD.seq (VD.foreach_fold upd ext ws s0) ([], sx).

Lemma R_foreach src src' upd upd' ext ext' : R L src src' ->
  (forall w acc, R L (upd (emb_v w) (emb_v acc)) (upd' w acc)) ->
  (forall w u, R L (ext (emb_v w) (emb_v u)) (ext' w u)) ->
  forall s0, R L (fe_s src upd ext (emb_v s0)) (fe_v src' upd' ext' s0).
Proof.
  intros Hs Hu He s0. destruct src as [ws sx], src' as [ws' sx']. unfold fe_s, fe_v.
  destruct Hs as [[Es Xs]|(why & pre & post & Ss & Ps & Es)]; cbn [fst snd] in *.
  - subst ws. rewrite <- (app_nil_r ws') at 2. apply R_foreach_fold; try assumption.
    intros acc. cbn [VD.foreach_fold VD.seq app fst snd]. left. split; [reflexivity|exact Xs].
  - subst ws sx ws'. apply R_foreach_fold; try assumption. intros acc. apply R_skip.
Qed.

Lemma den0_foreach_eq rs0 src x init upd ext rho v :
  den0 rs0 (Z0Foreach src x init upd ext) rho v =
  rbind (den0 rs0 init rho v) (fe_s (den0 rs0 src rho v) (fun w acc => den0 rs0 upd (BVar x (plain w) :: rho) acc)
     (fun w u => match ext with Some e => den0 rs0 e (BVar x (plain w) :: rho) u | None => ([u], None) end)).
Proof. reflexivity. Qed.
Lemma den_foreach_eq nt src x init upd ext rho v :
  VD.den nt (VS.QForeach src x init upd ext) rho v =
  VD.bind (VD.den nt init rho v) (fe_v (VD.den nt src rho v) (fun w acc => VD.den nt upd ((x, w) :: rho) acc)
     (fun w u => match ext with Some e => VD.den nt e ((x, w) :: rho) u | None => ([u], None) end)).
Proof. reflexivity. Qed.

(* a // b *)
Definition alt_s (a b : result) : result :=
  let '(ws, x) := a in
  let ts := filter truthy ws in
  match x with
  | Some e => (ts, Some e)
  | None => match ts with [] => b | _ => (ts, None) end
  end.
Definition alt_v (a b : VD.result) : VD.result :=
  let '(ws, x) := a in
  let ts := filter VS.truthy ws in
  match x with
  | Some e => (ts, Some e)
  | None => match ts with [] => b | _ => (ts, None) end
  end.

Lemma truthy_emb w : truthy (emb_v w) = VS.truthy w.
Proof. destruct w as [|[]| | | |]; reflexivity. Qed.

Lemma filter_emb l : filter truthy (map emb_v l) = map emb_v (filter VS.truthy l).
Proof. induction l as [|w r IH]; [reflexivity|]. cbn [map filter]. rewrite truthy_emb. destruct (VS.truthy w); cbn [map]; rewrite IH; reflexivity. Qed.

Lemma R_alt a a' b b' : R L a a' -> R L b b' -> R L (alt_s a b) (alt_v a' b').
Proof.
  intros [[Ea Xa]|(why & pre & post & Sa & Pa & Ea)] Hb; destruct a as [ws x], a' as [ws' x']; cbn [fst snd] in *; unfold alt_s, alt_v.
  - subst ws. rewrite filter_emb.
    destruct x as [[[|d] c val| | | | |]|], x' as [[e|lb]|]; cbn [xrel] in Xa; try contradiction.
    + left. split; [reflexivity|exact Xa].
    + left. split; [reflexivity|exact Xa].
    + destruct (filter VS.truthy ws') as [|t ts]; cbn [map]; [exact Hb|]. left. split; [reflexivity|exact I].
  - subst x ws ws'. rewrite filter_emb, filter_app. right.
    destruct x' as [x'|].
    + exists why, (filter VS.truthy pre), (filter VS.truthy post). auto.
    + destruct (filter VS.truthy pre ++ filter VS.truthy post) as [|t ts] eqn:E.
      * apply app_eq_nil in E. destruct E as [E1 E2]. rewrite E1. exists why, [], (fst b'). auto.
      * exists why, (filter VS.truthy pre), (filter VS.truthy post). rewrite <- E. auto.
Qed.

Lemma den0_alt_eq rs0 a b rho v : den0 rs0 (Z0Alt a b) rho v = alt_s (den0 rs0 a rho v) (den0 rs0 b rho v).
Proof. cbn [den0]. destruct (den0 rs0 a rho v) as [ws [x|]]; reflexivity. Qed.
Lemma den_alt_eq nt a b rho v : VD.den nt (VS.QAlt a b) rho v = alt_v (VD.den nt a rho v) (VD.den nt b rho v).
Proof. cbn [VD.den]. destruct (VD.den nt a rho v) as [ws [x|]]; reflexivity. Qed.

(* label: Den catches the break by name, den0 by the id the name was bound to *)
Definition lab_v (l : N) (r : VD.result) : VD.result :=
  match r with
  | (ws, Some (VD.XBrk l')) => if N.eqb l l' then (ws, None) else (ws, Some (VD.XBrk l'))
  | r => r
  end.

Lemma den_label_eq nt l b rho v : VD.den nt (VS.QLabel l b) rho v = lab_v l (VD.den nt b rho v).
Proof. cbn [VD.den]. destruct (VD.den nt b rho v) as [ws [[e|l']|]]; reflexivity. Qed.

Lemma R_label l a a' : R (BLabel (name_of l) (lab_bound L) :: L) a a' -> R L (label_res (lab_bound L) a) (lab_v l a').
Proof.
  intros [[Ea Xa]|(why & pre & post & Sa & Pa & Ea)]; destruct a as [ws x], a' as [ws' x']; cbn [fst snd] in *.
  - destruct x as [[[|d] c val|i| | | |]|], x' as [[e|lb]|]; cbn [xrel] in Xa; try contradiction; cbn [label_res lab_v].
    + left. split; [exact Ea|exact Xa].
    + cbn [lookup_label] in Xa. rewrite name_of_eqb in Xa. destruct (N.eqb l lb).
      * injection Xa as <-. rewrite N.eqb_refl. left. split; [exact Ea|exact I].
      * pose proof (lab_ids_lt _ _ (lookup_label_in _ _ _ Xa)) as Hlt.
        destruct (N.eqb_spec i (lab_bound L)); [lia|]. left. split; [exact Ea|exact Xa].
    + left. split; [exact Ea|exact I].
  - subst x. cbn [label_res]. right. exists why, pre, post. split; [reflexivity|]. split; [|exact Ea].
    destruct x' as [[e|lb]|]; cbn [lab_v fst]; try exact Pa. destruct (N.eqb l lb); exact Pa.
Qed.

End Rel.

Lemma R_env_ext L L' a b : (forall nm, lookup_label L nm = lookup_label L' nm) -> R L a b -> R L' a b.
Proof.
  intros H [[Ea Xa]|Hs]; [left|right; exact Hs]. split; [exact Ea|].
  destruct (snd a) as [[[|d] c val|i| | | |]|], (snd b) as [[e|lb]|]; cbn [xrel] in *; try assumption.
  rewrite <- H. exact Xa.
Qed.

Lemma renv_label rs rv nm i : renv rs rv -> renv (BLabel nm i :: rs) rv.
Proof. intros [Hv Hl]. split; [exact Hv|]. intros x. cbn [lookup_var]. apply Hl. Qed.

Section Natives.
Variable nt : VC.natives.
(* what the link needs from the natives instance: they are Sem's, on embedded values *)
Hypothesis Hiter : forall L w, R L (iter_res false (emb_v w)) (VD.iter_res nt w).
Hypothesis Hfield : forall L w c k, R L (of_nres false (fn_index2 (emb_v w) (VStr (c :: k)))) (VD.of_sum (VC.n_index nt w (VS.VStr (c :: k)))).
Hypothesis Herr : forall v, VC.n_fn0 nt VS.F0Error v = inr (VS.EVal v).
Hypothesis Hlen : forall L v, R L (of_nres false (fn_length (emb_v v))) (VD.of_sum (VC.n_fn0 nt VS.F0Length v)).

Hypothesis Hfn2 : forall L o v l r, R L (binop_res false (op_of o) (emb_v l) (emb_v r)) (VD.of_sum (VC.n_fn2 nt o v l r)).

Lemma R_single L w : R L ([emb_v w], None) ([w], None).
Proof. left. split; [reflexivity|exact I]. Qed.

Lemma rbind_single v f : rbind ([v], None) f = f v.
Proof. unfold rbind. cbn [fst snd rbind_list]. destruct (f v) as [ws [x|]]; cbn [rseq fst snd]; [reflexivity|]. rewrite app_nil_r. reflexivity. Qed.

Lemma sarg_link a a' : tr_sarg a = Some a' -> forall L rs v, R L (den0 false a' rs (emb_v v)) (VD.den_sarg nt a v).
Proof.
  destruct a as [|c|k| | |f]; cbn [tr_sarg VD.den_sarg]; intros H L rs v.
  - injection H as <-. apply R_single.
  - destruct c; try discriminate; injection H as <-; cbn [den0];
      [exact (R_single L VS.VNull)|exact (R_single L (VS.VBool b))|exact (R_single L (VS.VNum z))|exact (R_single L (VS.VStr s))].
  - destruct k as [| | |[|c k]| |]; try discriminate. injection H as <-. cbn [den0]. rewrite rbind_single. apply Hfield.
  - injection H as <-. cbn [den0]. rewrite rbind_single. apply Hiter.
  - injection H as <-. left. split; [reflexivity|exact I].
  - destruct f; injection H as <-; cbn [den0].
    + rewrite Herr. left. split; [reflexivity|]. cbn. reflexivity.
    + apply Hlen.
Qed.

Fixpoint den_link (q : VS.query) : forall q', tr q = Some q' ->
  forall rs rv v, renv rs rv -> R rs (den0 false q' rs (emb_v v)) (VD.den nt q rv v).
Proof.
  destruct q; intros q' H rs rv v Hr; cbn [tr] in H.
  all: try discriminate.
  - injection H as <-. apply R_single.
  - destruct c; try discriminate; injection H as <-; cbn [den0 VD.den]; [exact (R_single rs VS.VNull)|exact (R_single rs (VS.VBool b))|exact (R_single rs (VS.VNum z))|exact (R_single rs (VS.VStr s))].
  - destruct (tr q1) eqn:E1, (tr q2) eqn:E2; try discriminate. injection H as <-. cbn [den0 VD.den].
    apply R_rbind; [eapply den_link; eassumption|]. intros w. eapply den_link; eassumption.
  - destruct (tr q1) eqn:E1, (tr q2) eqn:E2; try discriminate. injection H as <-. cbn [den0 VD.den].
    apply R_rseq; eapply den_link; eassumption.
  - injection H as <-. left. split; [reflexivity|exact I].
  - destruct (tr q) eqn:E1; try discriminate. cbn in H. injection H as <-. cbn [den0 VD.den].
    apply R_rbind; [eapply den_link; eassumption|]. apply Hiter.
  - destruct k as [| | |[|c k]| |]; try discriminate. destruct (tr q) eqn:E1; try discriminate. cbn in H. injection H as <-.
    cbn [den0 VD.den]. apply R_rbind; [eapply den_link; eassumption|]. intros w. apply Hfield.
  - destruct (tr q1) eqn:E1, (tr q2) eqn:E2, (tr q3) eqn:E3; try discriminate. injection H as <-. cbn [den0 VD.den].
    apply R_rbind; [eapply den_link; eassumption|]. intros w.
    replace (truthy (emb_v w)) with (VS.truthy w) by (destruct w as [|[]| | | |]; reflexivity).
    destruct (VS.truthy w); eapply den_link; eassumption.
  - (* alt *) destruct (tr q1) eqn:E1, (tr q2) eqn:E2; try discriminate. injection H as <-.
    rewrite den0_alt_eq, den_alt_eq. apply R_alt; eapply den_link; eassumption.
  - destruct h as [h|].
    + destruct (tr q) eqn:E1; try discriminate. destruct (tr h) eqn:E2; try discriminate. injection H as <-.
      rewrite den0_try_eq, den_try_eq. cbn [option_map].
      apply R_try; [eapply den_link; eassumption|]. intros w. eapply den_link; eassumption.
    + destruct (tr q) eqn:E1; try discriminate. cbn in H. injection H as <-.
      rewrite den0_try_eq, den_try_eq. cbn [option_map].
      apply R_try; [eapply den_link; eassumption|exact I].
  - (* array *) destruct (tr q) eqn:E1; try discriminate. cbn in H. injection H as <-.
    rewrite den0_array_eq, den_array_eq. apply R_array. eapply den_link; eassumption.
  - (* reduce *) destruct (tr q1) eqn:E1, (tr q2) eqn:E2, (tr q3) eqn:E3; try discriminate. injection H as <-.
    rewrite den0_reduce_eq, den_reduce_eq. apply R_rbind; [eapply den_link; eassumption|]. intros s0.
    apply R_reduce; [eapply den_link; eassumption|]. intros w acc.
    apply (R_env_ext (BVar (name_of x) (plain (emb_v w)) :: rs) rs); [reflexivity|]. eapply den_link; [eassumption|]. apply renv_bind1. exact Hr.
  - (* foreach *) destruct ext as [e|].
    + destruct (tr q1) eqn:E1, (tr q2) eqn:E2, (tr q3) eqn:E3; try discriminate. destruct (tr e) eqn:E4; try discriminate.
      injection H as <-. rewrite den0_foreach_eq, den_foreach_eq. apply R_rbind; [eapply den_link; eassumption|]. intros s0.
      apply R_foreach; [eapply den_link; eassumption| |].
      * intros w acc. apply (R_env_ext (BVar (name_of x) (plain (emb_v w)) :: rs) rs); [reflexivity|]. eapply den_link; [eassumption|]. apply renv_bind1. exact Hr.
      * intros w u. apply (R_env_ext (BVar (name_of x) (plain (emb_v w)) :: rs) rs); [reflexivity|]. eapply den_link; [eassumption|]. apply renv_bind1. exact Hr.
    + destruct (tr q1) eqn:E1, (tr q2) eqn:E2, (tr q3) eqn:E3; try discriminate.
      injection H as <-. rewrite den0_foreach_eq, den_foreach_eq. apply R_rbind; [eapply den_link; eassumption|]. intros s0.
      apply R_foreach; [eapply den_link; eassumption| |].
      * intros w acc. apply (R_env_ext (BVar (name_of x) (plain (emb_v w)) :: rs) rs); [reflexivity|]. eapply den_link; [eassumption|]. apply renv_bind1. exact Hr.
      * intros w u. apply R_single.
  - (* label *) destruct (tr q) eqn:E1; try discriminate. cbn in H. injection H as <-.
    rewrite den_label_eq. cbn [den0]. apply R_label. eapply den_link; [eassumption|]. apply renv_label. exact Hr.
  - (* break *) injection H as <-. cbn [den0 VD.den]. destruct (lookup_label rs (name_of l)) as [i|] eqn:E.
    + left. split; [reflexivity|exact E].
    + apply R_skip.
  - (* bind *) destruct (tr q1) eqn:E1, (tr q2) eqn:E2; try discriminate. injection H as <-. cbn [den0 VD.den].
    apply R_rbind; [eapply den_link; eassumption|]. intros w.
    apply (R_env_ext (bind_env rs (name_of x) (emb_v w)) rs); [reflexivity|]. eapply den_link; [eassumption|]. apply renv_bind. exact Hr.
  - (* var *) injection H as <-. cbn [den0 VD.den]. destruct Hr as [Hv Hl]. rewrite Hl.
    destruct (VS.lookup x rv) as [w|]; cbn [option_map].
    + apply R_single.
    + right. exists (codes "undefined-variable"), [], []. auto.
  - destruct f; injection H as <-; cbn [den0 VD.den].
    + rewrite Herr. left. split; [reflexivity|]. cbn. reflexivity.
    + apply Hlen.
  - (* binary operator: right operand first *)
    destruct (tr_sarg a) eqn:E1, (tr_sarg b) eqn:E2; try discriminate. injection H as <-. cbn [den0 VD.den].
    apply R_rbind; [apply sarg_link; exact E2|]. intros r. apply R_rbind; [apply sarg_link; exact E1|]. intros l. apply Hfn2.
Qed.
End Natives.

(* ------------------------------------------------------------------------------------------ *)
(* the natives of Sem as an instance of c01vm's abstract natives *)

Definition emsg (val : option jv) : VS.err0 :=
  match val with Some (VStr m) => VS.EMsg m | _ => VS.EMsg [] end.

Fixpoint sobj_get (l : list (bytes * VS.jv)) (k : bytes) : option VS.jv :=
  match l with
  | [] => None
  | (k', v) :: r => match bytes_cmp k k' with Eq => Some v | Lt => None | Gt => sobj_get r k end
  end.

Definition s_index (w k : VS.jv) : VS.jv + VS.err0 :=
  match k with
  | VS.VStr ks =>
      match w with
      | VS.VNull => inl VS.VNull
      | VS.VObj l => inl (match sobj_get l ks with Some x => x | None => VS.VNull end)
      | _ => inr (emsg (msg1 "expected an object but got: " (emb_v w)))
      end
  | _ => inr (VS.EMsg [])
  end.

Definition s_iter (w : VS.jv) : list VS.jv + VS.err0 :=
  match w with
  | VS.VArr l => inl l
  | VS.VObj l => inl (map snd l)
  | _ => inr (emsg (msg_iterator (emb_v w)))
  end.

Definition s_fn0 (f : VS.fn0) (v : VS.jv) : VS.jv + VS.err0 :=
  match f with
  | VS.F0Error => inr (VS.EVal v)
  | VS.F0Length =>
      match v with
      | VS.VNull => inl (VS.VNum 0)
      | VS.VNum z => inl (VS.VNum (Z.abs z))
      | VS.VStr s => inl (VS.VNum (zlen (runes s)))
      | VS.VArr l => inl (VS.VNum (zlen l))
      | VS.VObj l => inl (VS.VNum (zlen l))
      | VS.VBool _ => inr (VS.EMsg [])
      end
  end.

(* operators on c01vm values, mirroring Natives.binop_add / binop_sub / cmp_is on embedded values *)
Definition embkvs (l : list (bytes * VS.jv)) : list (bytes * jv) := map (fun kv => (fst kv, emb_v (snd kv))) l.

Fixpoint sobj_set (kvs : list (bytes * VS.jv)) (k : bytes) (v : VS.jv) : list (bytes * VS.jv) :=
  match kvs with
  | [] => [(k, v)]
  | (k', v') :: r => match bytes_cmp k k' with
                     | Eq => (k, v) :: r
                     | Lt => (k, v) :: kvs
                     | Gt => (k', v') :: sobj_set r k v
                     end
  end.
Definition sobj_merge (l r : list (bytes * VS.jv)) : list (bytes * VS.jv) :=
  fold_left (fun acc kv => sobj_set acc (fst kv) (snd kv)) r l.

Definition s_add (l r : VS.jv) : VS.jv + VS.err0 :=
  match l, r with
  | VS.VNum a, VS.VNum b => inl (VS.VNum (a + b))
  | VS.VStr a, VS.VStr b => inl (VS.VStr (a ++ b))
  | VS.VArr a, VS.VArr b => inl (VS.VArr (a ++ b))
  | VS.VObj a, VS.VObj b => inl (VS.VObj (sobj_merge a b))
  | VS.VNull, _ => inl r
  | _, VS.VNull => inl l
  | _, _ => inr (emsg (msg2 ("cannot " ++ "add" ++ ": ") (emb_v l) " and " (emb_v r)))
  end.
Definition s_sub (l r : VS.jv) : VS.jv + VS.err0 :=
  match l, r with
  | VS.VNum a, VS.VNum b => inl (VS.VNum (a - b))
  | VS.VArr a, VS.VArr b => inl (VS.VArr (filter (fun x => negb (existsb (fun y => jv_eqb (emb_v x) (emb_v y)) b)) a))
  | _, _ => inr (emsg (msg2 ("cannot " ++ "subtract" ++ ": ") (emb_v l) " and " (emb_v r)))
  end.
Definition s_cmp (f : comparison -> bool) (l r : VS.jv) : VS.jv + VS.err0 := inl (VS.VBool (f (jv_cmp (emb_v l) (emb_v r)))).
Definition s_fn2 (o : VS.binop) (v l r : VS.jv) : VS.jv + VS.err0 :=
  match o with
  | VS.OAdd => s_add l r
  | VS.OSub => s_sub l r
  | VS.OEq => s_cmp (fun c => match c with Eq => true | _ => false end) l r
  | VS.ONe => s_cmp (fun c => match c with Eq => false | _ => true end) l r
  | VS.OGt => s_cmp (fun c => match c with Gt => true | _ => false end) l r
  | VS.OLt => s_cmp (fun c => match c with Lt => true | _ => false end) l r
  | VS.OGe => s_cmp (fun c => match c with Lt => false | _ => true end) l r
  | VS.OLe => s_cmp (fun c => match c with Gt => false | _ => true end) l r
  end.

Definition sem_natives : VC.natives :=
  {| VC.n_index := s_index; VC.n_iter := s_iter; VC.n_fn0 := s_fn0; VC.n_fn2 := s_fn2 |}.

Lemma sobj_set_emb l k v : obj_set (embkvs l) k (emb_v v) = embkvs (sobj_set l k v).
Proof.
  induction l as [|[k' v'] r IH]; [reflexivity|]. cbn [embkvs map fst snd obj_set sobj_set] in *.
  destruct (bytes_cmp k k'); cbn [map fst snd]; try reflexivity. f_equal. exact IH.
Qed.

Lemma sobj_merge_emb l r : obj_merge (embkvs l) (embkvs r) = embkvs (sobj_merge l r).
Proof.
  unfold obj_merge, sobj_merge. revert l. induction r as [|[k v] r IH]; intros l; [reflexivity|].
  cbn [embkvs map fold_left fst snd]. rewrite sobj_set_emb. apply IH.
Qed.

Lemma filter_map_emb (p : jv -> bool) a : filter p (map emb_v a) = map emb_v (filter (fun x => p (emb_v x)) a).
Proof. induction a as [|x a IH]; [reflexivity|]. cbn [map filter]. destruct (p (emb_v x)); cbn [map]; rewrite IH; reflexivity. Qed.

Lemma existsb_map_emb (p : jv -> bool) b : existsb p (map emb_v b) = existsb (fun y => p (emb_v y)) b.
Proof. induction b as [|y b IH]; [reflexivity|]. cbn [map existsb]. rewrite IH. reflexivity. Qed.


Lemma R_msg L c o : R L ([], Some (XErr O c (option_map VStr o))) ([], Some (VD.XErr (emsg (option_map VStr o)))).
Proof. left. split; [reflexivity|]. destruct o; cbn; auto. Qed.

Lemma msg1_str pre v : exists o, msg1 pre v = option_map VStr o.
Proof. unfold msg1. destruct (tep v) as [t|]; [exists (Some (codes pre ++ t))|exists None]; reflexivity. Qed.

Lemma obj_get_emb l k :
  obj_get (map (fun kv => (fst kv, emb_v (snd kv))) l) k = option_map emb_v (sobj_get l k).
Proof.
  induction l as [|[k' v] r IH]; [reflexivity|]. cbn [map fst snd obj_get sobj_get].
  destruct (bytes_cmp k k'); [reflexivity|reflexivity|exact IH].
Qed.

Ltac msg_case :=
  unfold mask, msg_iterator, err_exp_object; cbn [of_nres]; unfold mask;
  match goal with |- context [msg1 ?p ?x] => destruct (msg1_str p x) as [o Ho]; rewrite Ho end; apply R_msg.

Lemma sem_iter L w : R L (iter_res false (emb_v w)) (VD.iter_res sem_natives w).
Proof.
  unfold VD.iter_res. cbn [VC.n_iter sem_natives].
  destruct w; cbn [emb_v iter_res s_iter]; try msg_case.
  - left. split; [reflexivity|exact I].
  - left. split; [|exact I]. cbn [fst]. rewrite !map_map. reflexivity.
Qed.

Lemma sem_field L w c k :
  R L (of_nres false (fn_index2 (emb_v w) (VStr (c :: k)))) (VD.of_sum (VC.n_index sem_natives w (VS.VStr (c :: k)))).
Proof.
  cbn [VC.n_index sem_natives s_index].
  destruct w; cbn [emb_v fn_index2 of_nres VD.of_sum]; try msg_case.
  - left. split; [reflexivity|exact I].
  - rewrite obj_get_emb. destruct (sobj_get l (c :: k)); left; (split; [reflexivity|exact I]).
Qed.

Lemma zlen_map {A B} (f : A -> B) l : zlen (map f l) = zlen l.
Proof. unfold zlen. rewrite map_length. reflexivity. Qed.

Lemma sem_length L v : R L (of_nres false (fn_length (emb_v v))) (VD.of_sum (VC.n_fn0 sem_natives VS.F0Length v)).
Proof.
  cbn [VC.n_fn0 sem_natives s_fn0]. destruct v; cbn [emb_v fn_length of_nres VD.of_sum ok_int err];
    try (left; split; [reflexivity|exact I]).
  - left. split; [reflexivity|]. cbn. auto.
  - left. split; [|exact I]. cbn [fst map emb_v]. unfold VInt. rewrite zlen_map. reflexivity.
  - left. split; [|exact I]. cbn [fst map emb_v]. unfold VInt. rewrite zlen_map. reflexivity.
Qed.

Lemma msg2_str pre l mid r : exists o, msg2 pre l mid r = option_map VStr o.
Proof. unfold msg2. destruct (tep l) as [a|], (tep r) as [b|]; [exists (Some (codes pre ++ a ++ codes mid ++ b))|exists None|exists None|exists None]; reflexivity. Qed.

Ltac msg2_case :=
  unfold err_binop; cbn [of_nres]; unfold mask;
  match goal with |- context [msg2 ?p ?x ?m ?y] => destruct (msg2_str p x m y) as [o Ho]; rewrite Ho end; apply R_msg.

Lemma sem_fn2 L o v l r : R L (binop_res false (op_of o) (emb_v l) (emb_v r)) (VD.of_sum (VC.n_fn2 sem_natives o v l r)).
Proof.
  cbn [VC.n_fn2 sem_natives]. unfold binop_res.
  destruct o; cbn [op_of op_binop s_fn2]; try (unfold cmp_is, ok_bool, s_cmp; cbn [of_nres VD.of_sum]; left; split; [reflexivity|exact I]).
  - destruct l, r; cbn [emb_v binop_add s_add of_nres VD.of_sum num_add ok_str]; try (left; split; [reflexivity|exact I]); try msg2_case.
    + left. split; [|exact I]. cbn [fst map emb_v]. rewrite map_app. reflexivity.
    + left. split; [|exact I]. cbn [fst map emb_v]. fold (embkvs l). fold (embkvs l0). rewrite sobj_merge_emb. reflexivity.
  - destruct l, r; cbn [emb_v binop_sub s_sub of_nres VD.of_sum num_sub]; try (left; split; [reflexivity|exact I]); try msg2_case.
    left. split; [|exact I]. cbn [fst map emb_v]. rewrite filter_map_emb. do 3 f_equal.
    apply filter_ext. intros x. rewrite existsb_map_emb. reflexivity.
Qed.

Theorem den_link_sem q q' : tr q = Some q' ->
  forall v, R [] (den0 false q' [] (emb_v v)) (VD.den sem_natives q [] v).
Proof.
  intros H v. apply (den_link sem_natives sem_iter sem_field (fun v => eq_refl) sem_length sem_fn2 q q' H [] [] v renv_nil).
Qed.

(* ------------------------------------------------------------------------------------------ *)
(* end to end: the compiled code on the VM = Sem.observe, on F0 /\ F *)

Module VM := Verif.c01vm.VM.
Module VK := Verif.c01vm.Compile.
Module VX := Verif.c01vm.Correct.
Module VP := Verif.c01vm.Peep.

(* how a VM run ends vs how a Sem observation ends *)
Definition end_rel (e : ending) (m : VM.ending) : Prop :=
  match e, m with
  | EndNormal, VM.End => True
  | EndError c val, VM.Error (VM.VE (VM.EV v)) => val = Some (emb_v v)
  | EndError c val, VM.Error (VM.VE (VM.EM msg)) => val = None \/ val = Some (VStr msg)
  | _, _ => False
  end.

Section EndToEnd.
Variable bs : list funcdef.
Hypothesis Hempty : lookup_builtin bs (codes "empty") 0 = None.
Hypothesis Herror : lookup_builtin bs (codes "error") 0 = None.
Hypothesis Hlength : lookup_builtin bs (codes "length") 0 = None.

Theorem vm_run_is_sem_observe q q' code :
  tr q = Some q' -> VK.compile q = Some code ->
  forall v (n capn : nat) ins,
  (need q' <= n)%nat -> (List.length (fst (den0 false q' [] (emb_v v))) < capn)%nat ->
  (forall why, snd (observe bs n capn false ins (emb q') (emb_v v)) <> EndSkip why) ->
  exists fuel outs m,
    VM.run sem_natives code fuel (VM.init v) = (outs, m) /\
    fst (observe bs n capn false ins (emb q') (emb_v v)) = map emb_v outs /\
    end_rel (snd (observe bs n capn false ins (emb q') (emb_v v))) m.
Proof.
  intros Htr Hc v n capn ins Hn Hcap Hns.
  rewrite (observe_den0 bs false Hempty Herror Hlength q' (tr_ok0 q q' Htr) n capn ins (emb_v v) Hn Hcap) in *.
  cbn [fst snd] in *.
  destruct (VP.compile_correct sem_natives q code Hc v) as [fuel Hrun].
  pose proof (den_link_sem q q' Htr v) as HR.
  unfold VX.run_is in Hrun.
  destruct HR as [[El Xl]|(why & pre & post & Sk & _ & _)].
  - destruct (VD.den sem_natives q [] v) as [ws' x'], (den0 false q' [] (emb_v v)) as [ws x]; cbn [fst snd] in *.
    destruct x as [[[|d] c val| | | | |]|], x' as [[e|lb]|]; cbn [xrel] in Xl; try contradiction.
    + exists fuel, ws', (VM.Error (VM.VE (VM.err_of e))). split; [exact Hrun|]. split; [exact El|].
      destruct e; exact Xl.
    + exists fuel, ws', VM.End. split; [exact Hrun|]. split; [exact El|exact I].
  - exfalso. rewrite Sk in Hns. cbn [ending_of] in Hns. eapply Hns. reflexivity.
Qed.
End EndToEnd.
