(* VmLink2.v — END TO END for coq/c01vm2 on the function-free part of its fragment F3: the FINAL code that c01vm2's
   transcription of compiler.go emits for q (after optimizeTailRec and the peephole pass), run on c01vm2's transcription of
   the VM with the natives record instantiated by Sem's natives, yields exactly the observation of the reference
   semantics Sem on the translated program — by composing
     VM(final code of q) = Den q      (coq/c01vm2: Peep.compile_g_correct, for EVERY instance of the natives)
     Den q  ~  den2 (tr q)            (this file: den_link2)
     den2 q' = Sem on (emb2 q')       (DenLink2All.v: observe_den2).
   coq/c01vm2 is imported read-only. *)
From Coq Require Import String.
From Coq Require Import List ZArith NArith Bool Lia.
From Verif Require Import common.Sexp sem.JV sem.Syntax sem.Natives sem.Sem sem.SemProofs sem.DenLink sem.DenLink2
  sem.DenLink2All sem.VmLink2Def sem.VmLink2Rel.
From Verif Require c01vm2.Syntax c01vm2.Code c01vm2.Den c01vm2.VM c01vm2.Compile c01vm2.Correct c01vm2.Peep c01vm2.Lemmas.
Import ListNotations.

(* ---- induction over values (nested lists) ---- *)
Section JvInd.
  Variable P : jv -> Prop.
  Hypothesis Hnull : P VNull.
  Hypothesis Hbool : forall b, P (VBool b).
  Hypothesis Hnum : forall n, P (VNum n).
  Hypothesis Hstr : forall s, P (VStr s).
  Hypothesis Harr : forall l, Forall P l -> P (VArr l).
  Hypothesis Hobj : forall m, Forall (fun kv => P (snd kv)) m -> P (VObj m).
  Fixpoint jv_ind' (v : jv) : P v :=
    match v with
    | VNull => Hnull | VBool b => Hbool b | VNum n => Hnum n | VStr s => Hstr s
    | VArr l => Harr l ((fix go (l : list jv) : Forall P l :=
                           match l with [] => Forall_nil _ | x :: r => Forall_cons _ (jv_ind' x) (go r) end) l)
    | VObj m => Hobj m ((fix go (m : list (bytes * jv)) : Forall (fun kv => P (snd kv)) m :=
                           match m with [] => Forall_nil _ | kv :: r => Forall_cons _ (jv_ind' (snd kv)) (go r) end) m)
    end.
End JvInd.
Section VjvInd.
  Variable P : VS.jv -> Prop.
  Hypothesis Hnull : P VS.VNull.
  Hypothesis Hbool : forall b, P (VS.VBool b).
  Hypothesis Hnum : forall n, P (VS.VNum n).
  Hypothesis Hstr : forall s, P (VS.VStr s).
  Hypothesis Harr : forall l, Forall P l -> P (VS.VArr l).
  Hypothesis Hobj : forall m, Forall (fun kv => P (snd kv)) m -> P (VS.VObj m).
  Fixpoint vjv_ind' (v : VS.jv) : P v :=
    match v with
    | VS.VNull => Hnull | VS.VBool b => Hbool b | VS.VNum n => Hnum n | VS.VStr s => Hstr s
    | VS.VArr l => Harr l ((fix go (l : list VS.jv) : Forall P l :=
                           match l with [] => Forall_nil _ | x :: r => Forall_cons _ (vjv_ind' x) (go r) end) l)
    | VS.VObj m => Hobj m ((fix go (m : list (list N * VS.jv)) : Forall (fun kv => P (snd kv)) m :=
                           match m with [] => Forall_nil _ | kv :: r => Forall_cons _ (vjv_ind' (snd kv)) (go r) end) m)
    end.
End VjvInd.

Lemma intvb_emb w : intvb (emb_v w) = true.
Proof.
  induction w using vjv_ind'; cbn [emb_v intvb]; try reflexivity.
  - induction H as [|x l Hx _ IH]; [reflexivity|]. cbn [map forallb]. rewrite Hx, IH. reflexivity.
  - induction H as [|x l Hx _ IH]; [reflexivity|]. cbn [map forallb fst snd]. rewrite Hx, IH. reflexivity.
Qed.

Lemma emb_unemb v : intvb v = true -> emb_v (unemb v) = v.
Proof.
  induction v using jv_ind'; cbn [unemb intvb]; intros Hi; try reflexivity.
  - destruct n; [reflexivity|discriminate].
  - cbn [emb_v]. f_equal. induction H as [|x l Hx _ IH]; [reflexivity|]. cbn [forallb] in Hi. apply andb_true_iff in Hi as [H1 H2].
    cbn [map]. rewrite (Hx H1), (IH H2). reflexivity.
  - cbn [emb_v]. f_equal. induction H as [|[k x] l Hx _ IH]; [reflexivity|]. cbn [forallb snd] in Hi. apply andb_true_iff in Hi as [H1 H2].
    cbn [map fst snd] in *. rewrite (Hx H1), (IH H2). reflexivity.
Qed.

(* ---- natives: how a result of a Sem native relates to a result of the instance ---- *)
Section NRel.
Variable rsf : bool.

Definition nrel (r : nres) (s : VS.jv + VS.err0) : Prop :=
  match r, s with
  | NOk a, inl b => a = emb_v b
  | NErr c val, inr e => erel c (mask rsf c val) e
  | NSkip _, _ => True
  | _, _ => False
  end.

Lemma nrel_R L r s : nrel r s -> R L (of_nres rsf r) (VD.of_sum s).
Proof.
  destruct r as [a|c val|why], s as [b|e]; cbn [nrel of_nres VD.of_sum]; intros H; try contradiction.
  - left. split; [cbn; rewrite H; reflexivity|exact I].
  - left. split; [reflexivity|exact H].
  - right. exists why, [], [b]. auto.
  - right. exists why, [], []. auto.
Qed.

Definition strmsg (val : option jv) : Prop := exists o, val = option_map VStr o.
Definition good (r : nres) : Prop :=
  match r with NOk w => intvb w = true | NErr c val => strmsg val | NSkip _ => True end.

Lemma mask_none c : mask rsf c None = None.
Proof. unfold mask. destruct c, rsf; reflexivity. Qed.

Lemma nrel_of_n r : good r -> nrel r (of_n r).
Proof.
  destruct r as [a|c val|why]; cbn [good of_n nrel]; intros H.
  - symmetry. apply emb_unemb. exact H.
  - destruct H as [[m|] ->]; cbn [option_map emsg erel].
    + unfold mask. destruct c, rsf; auto.
    + left. apply mask_none.
  - exact I.
Qed.

Lemma msg1_good c pre v : good (NErr c (msg1 pre v)).
Proof. unfold msg1. destruct (tep v) as [t|]; [exists (Some (codes pre ++ t))|exists None]; reflexivity. Qed.
Lemma msg2_good c pre l mid r : good (NErr c (msg2 pre l mid r)).
Proof. unfold msg2. destruct (tep l) as [a|], (tep r) as [b|]; [exists (Some (codes pre ++ a ++ codes mid ++ b))|exists None|exists None|exists None]; reflexivity. Qed.
Lemma err_good c : good (err c).
Proof. exists None. reflexivity. Qed.

Lemma forallb_In {A} (p : A -> bool) l x : forallb p l = true -> In x l -> p x = true.
Proof. rewrite forallb_forall. auto. Qed.
Lemma forallb_sublist {A} (p : A -> bool) l s e : forallb p l = true -> forallb p (sublist l s e) = true.
Proof.
  unfold sublist. rewrite !forallb_forall. intros H x Hx. apply H.
  rewrite <- (firstn_skipn (Z.to_nat s) l). apply in_or_app. right.
  rewrite <- (firstn_skipn (Z.to_nat (e - s)) (skipn (Z.to_nat s) l)). apply in_or_app. left. exact Hx.
Qed.

Lemma good_slice v e s : intvb v = true -> good (fn_slice v e s).
Proof.
  intros Hv. destruct v; cbn [fn_slice]; try (unfold err_exp_array; apply msg1_good).
  - reflexivity.
  - cbn zeta. destruct (slice_bounds _ e s EStringIndexNotNumber) as [[st en]|c]; [reflexivity|apply err_good].
  - destruct (slice_bounds (zlen l) e s EArrayIndexNotNumber) as [[st en]|c]; [|apply err_good].
    cbn [good intvb]. apply forallb_sublist. exact Hv.
Qed.

Lemma good_obj_get m k : forallb (fun kv => intvb (snd kv)) m = true ->
  intvb (match obj_get m k with Some w => w | None => VNull end) = true.
Proof.
  induction m as [|[k' x] r IH]; [reflexivity|]. cbn [forallb snd obj_get]. intros H. apply andb_true_iff in H as [H1 H2].
  destruct (bytes_cmp k k'); [exact H1|reflexivity|apply IH; exact H2].
Qed.

Lemma good_index2 a k : intvb a = true -> intvb k = true -> good (fn_index2 a k).
Proof.
  intros Ha Hk. destruct k as [|b|n|s|xs|m]; cbn [fn_index2].
  - destruct a; first [apply msg1_good|unfold err_arr_index, err_str_index, err_key_not_string; apply msg1_good].
  - destruct a; first [apply msg1_good|unfold err_arr_index, err_str_index, err_key_not_string; apply msg1_good].
  - destruct a; try (unfold err_exp_array; apply msg1_good); try reflexivity.
    + cbn [good]. unfold index_string. destruct (nth_z _ _); reflexivity.
    + cbn [good]. unfold index_array, nth_z. destruct (_ <? 0)%Z; [reflexivity|].
      destruct (nth_error l _) eqn:E; [|reflexivity]. eapply forallb_In; [exact Ha|]. eapply nth_error_In. exact E.
  - destruct a; try (unfold err_exp_object; apply msg1_good); try reflexivity.
    cbn [good]. apply good_obj_get. exact Ha.
  - destruct a; try (unfold err_exp_array; apply msg1_good); try reflexivity.
    cbn [good intvb]. induction (indices_of l xs) as [|z r IH]; [reflexivity|exact IH].
  - destruct a; try reflexivity;
      (destruct (obj_get m (codes "start")) as [s0|]; [destruct (obj_get m (codes "end")) as [e0|]|];
       first [apply good_slice; exact Ha|unfold err_start_end; apply msg1_good]).
Qed.

Lemma forallb_obj_set m k x : forallb (fun kv => intvb (snd kv)) m = true -> intvb x = true ->
  forallb (fun kv => intvb (snd kv)) (obj_set m k x) = true.
Proof.
  intros Hm Hx. induction m as [|[k' y] r IH]; cbn [obj_set forallb snd]; [rewrite Hx; reflexivity|].
  cbn [forallb snd] in Hm. apply andb_true_iff in Hm as [H1 H2].
  destruct (bytes_cmp k k'); cbn [forallb snd]; rewrite ?Hx, ?H1, ?H2; try reflexivity. rewrite (IH H2). reflexivity.
Qed.

Lemma good_add a b : intvb a = true -> intvb b = true -> good (binop_add a b).
Proof.
  intros Ha Hb. destruct a as [|ba|na|sa|la|ma], b as [|bb|nb|sb|lb|mb]; cbn [binop_add]; try assumption; try reflexivity; try (unfold err_binop; apply msg2_good).
  - destruct na, nb; cbn in *; try discriminate; reflexivity.
  - cbn [good intvb] in *. rewrite forallb_app, Ha, Hb. reflexivity.
  - cbn [good intvb] in *. unfold obj_merge. revert ma Ha. induction mb as [|[k x] r IH]; intros l Ha; [exact Ha|].
    cbn [forallb snd] in Hb. apply andb_true_iff in Hb as [H1 H2]. cbn [fold_left fst snd].
    apply IH; [exact H2|]. apply forallb_obj_set; assumption.
Qed.

Lemma good_sub a b : intvb a = true -> intvb b = true -> good (binop_sub a b).
Proof.
  intros Ha Hb. destruct a, b; cbn [binop_sub]; try (unfold err_binop; apply msg2_good).
  - destruct n, n0; cbn in *; try discriminate; reflexivity.
  - cbn [good intvb] in *. rewrite forallb_forall in *. intros x Hx. apply filter_In in Hx. apply Ha. tauto.
Qed.

Lemma good_binop o a b : intvb a = true -> intvb b = true ->
  match op_binop (op_of o) with Some f => good (f a b) | None => True end.
Proof.
  intros Ha Hb. destruct o; cbn [op_of op_binop]; try reflexivity; [apply good_add|apply good_sub]; assumption.
Qed.

Lemma good_length a : intvb a = true -> good (fn_length a).
Proof. intros Ha. destruct a as [| |[z|f]| | |]; cbn [fn_length]; try reflexivity; try discriminate. apply err_good. Qed.
Lemma good_tojson a : good (fn_tojson a).
Proof. unfold fn_tojson. destruct (to_json a); reflexivity. Qed.
Lemma good_tostring a : good (fn_tostring a).
Proof. destruct a; cbn [fn_tostring]; try apply good_tojson. reflexivity. Qed.

(* the instance *)
Lemma sem2_index L w k : R L (of_nres rsf (fn_index2 (emb_v w) (emb_v k))) (VD.of_sum (VC.n_index sem_natives2 w k)).
Proof. apply nrel_R. apply nrel_of_n. apply good_index2; apply intvb_emb. Qed.
Lemma sem2_index_n w k : nrel (fn_index2 (emb_v w) (emb_v k)) (VC.n_index sem_natives2 w k).
Proof. apply nrel_of_n. apply good_index2; apply intvb_emb. Qed.
Lemma sem2_slice L w e s : R L (of_nres rsf (fn_slice (emb_v w) (emb_v e) (emb_v s))) (VD.of_sum (VC.n_slice sem_natives2 w e s)).
Proof. apply nrel_R. apply nrel_of_n. apply good_slice; apply intvb_emb. Qed.
Lemma sem2_fn2 L o v l r : R L (binop_res rsf (op_of o) (emb_v l) (emb_v r)) (VD.of_sum (VC.n_fn2 sem_natives2 o v l r)).
Proof.
  unfold binop_res. cbn [VC.n_fn2 sem_natives2]. unfold s2_fn2.
  pose proof (good_binop o (emb_v l) (emb_v r) (intvb_emb l) (intvb_emb r)) as H.
  destruct o; cbn [op_of op_binop] in *; apply nrel_R; apply nrel_of_n; exact H.
Qed.
Lemma sem2_length L v : R L (of_nres rsf (fn_length (emb_v v))) (VD.of_sum (VC.n_fn0 sem_natives2 VS.F0Length v)).
Proof. apply nrel_R. apply nrel_of_n. apply good_length. apply intvb_emb. Qed.
Lemma sem2_fmt L f g v : (forall a, good (g a)) -> VC.n_fn0 sem_natives2 f v = of_n (g (emb_v v)) ->
  R L (fmt_res rsf g (emb_v v)) (VD.of_sum (VC.n_fn0 sem_natives2 f v)).
Proof.
  intros Hg E. unfold fmt_res. destruct (rsf && _).
  - right. exists (codes "number-representation"), [], (fst (VD.of_sum (VC.n_fn0 sem_natives2 f v))). auto.
  - rewrite E. apply nrel_R. apply nrel_of_n. apply Hg.
Qed.
Lemma sem2_iter L w : R L (iter_res rsf (emb_v w)) (VD.iter_res sem_natives2 w).
Proof.
  unfold VD.iter_res. cbn [VC.n_iter sem_natives2].
  destruct w; cbn [emb_v iter_res s2_iter];
    try (pose proof (nrel_R L (NErr EIterator (msg_iterator (emb_v _))) (inr (emsg (msg_iterator (emb_v _))))) as H;
         cbn [of_nres VD.of_sum] in H).
  all: try (left; split; [reflexivity|exact I]).
  all: try (left; split; [cbn [fst]; rewrite ?map_map; reflexivity|exact I]).
  all: apply (nrel_R L (NErr EIterator _) (inr _)); apply (nrel_of_n (NErr EIterator _)); unfold msg_iterator; apply msg1_good.
Qed.
End NRel.

(* ---- destructuring patterns ---- *)
Fixpoint pv2 (p : pat2) : list bytes :=
  match p with P2Var x => [x] | P2Arr l => pv2a l | P2Obj l => pv2o l end
with pv2a (l : parr2) : list bytes := match l with A2Nil => [] | A2Cons p r => pv2 p ++ pv2a r end
with pv2o (l : pobj2) : list bytes :=
  match l with O2Nil => [] | O2Key k p r => pv2 p ++ pv2o r | O2KeyVar x p r => x :: pv2 p ++ pv2o r end.

Definition po_vars (f : nat) (po : patternobject) : list bytes :=
  match po with
  | PatternObject key _ _ val =>
      (if is_var_name key then [key] else []) ++ match val with Some p' => pattern_vars f p' | None => [] end
  end.

Lemma pattern_vars_S f name arr obj : pattern_vars (S f) (Pattern name arr obj) =
  (match name with [] => [] | _ => [name] end) ++ flat_map (pattern_vars f) arr ++ flat_map (po_vars f) obj.
Proof. reflexivity. Qed.

Lemma pattern_vars_sub :
  (forall p k nm, In nm (pattern_vars k (embp p)) -> In nm (pv2 p)) /\
  (forall l k nm, In nm (flat_map (pattern_vars k) (embpa l)) -> In nm (pv2a l)) /\
  (forall l k nm, In nm (flat_map (po_vars k) (embpo l)) -> In nm (pv2o l)).
Proof.
  apply pat2_mutind.
  - intros x [|k] nm; [intros []|]. cbn [embp]. rewrite pattern_vars_S. destruct x; cbn; tauto.
  - intros l IH [|k] nm; [intros []|]. cbn [embp pv2]. rewrite pattern_vars_S. cbn [app flat_map]. rewrite app_nil_r. apply IH.
  - intros l IH [|k] nm; [intros []|]. cbn [embp pv2]. rewrite pattern_vars_S. cbn [app flat_map]. apply IH.
  - intros k nm [].
  - intros p IHp r IHr k nm. cbn [embpa flat_map pv2a]. rewrite !in_app_iff. intros [H|H]; [left; eapply IHp; exact H|right; eapply IHr; exact H].
  - intros k nm [].
  - intros key p IHp r IHr k nm. cbn [embpo flat_map pv2o po_vars is_var_name app]. rewrite !in_app_iff.
    intros [H|H]; [left; eapply IHp; exact H|right; eapply IHr; exact H].
  - intros x p IHp r IHr k nm. cbn [embpo flat_map pv2o po_vars]. rewrite !in_app_iff. cbn [In]. rewrite in_app_iff.
    intros [[H|H]|H].
    + destruct (is_var_name x); [destruct H as [H|[]]; left; exact H|destruct H].
    + right. left. eapply IHp. exact H.
    + right. right. eapply IHr. exact H.
Qed.

Lemma pattern_vars_sub1 p k nm : In nm (flat_map (pattern_vars k) [embp p]) -> In nm (pv2 p).
Proof. cbn [flat_map]. rewrite app_nil_r. apply (proj1 pattern_vars_sub). Qed.

Lemma lookup_var_app a b nm : lookup_var (a ++ b) nm = match lookup_var a nm with Some t => Some t | None => lookup_var b nm end.
Proof. induction a as [|x a IH]; [reflexivity|]. destruct x; cbn [app lookup_var]; try exact IH. destruct (list_N_eqb name nm); [reflexivity|exact IH]. Qed.

Lemma pmb_binds rsf :
  (forall p w bl, pmb rsf p w = inl bl -> forall nm, In nm (pv2 p) -> lookup_var bl nm <> None) /\
  (forall l i w bl, pmba rsf l i w = inl bl -> forall nm, In nm (pv2a l) -> lookup_var bl nm <> None) /\
  (forall l w bl, pmbo rsf l w = inl bl -> forall nm, In nm (pv2o l) -> lookup_var bl nm <> None).
Proof.
  apply pat2_mutind.
  - intros x w bl E nm [<-|[]]. cbn in E. injection E as <-. cbn [lookup_var]. rewrite list_N_eqb_refl. discriminate.
  - intros l IH w bl E. rewrite pmb_arr in E. eapply IH. exact E.
  - intros l IH w bl E. rewrite pmb_obj in E. eapply IH. exact E.
  - intros i w bl E nm [].
  - intros p IHp r IHr i w bl E nm Hn. rewrite pmba_cons in E.
    destruct (nres_exn rsf (fn_indexarray w i)) as [wi|x]; [|discriminate].
    destruct (pmb rsf p wi) as [b1|x] eqn:E1; [|discriminate].
    destruct (pmba rsf r (i + 1)%Z w) as [b2|x] eqn:E2; [|discriminate]. injection E as <-.
    rewrite lookup_var_app. cbn [pv2a] in Hn. apply in_app_iff in Hn as [Hn|Hn].
    + destruct (lookup_var b2 nm); [discriminate|]. eapply IHp; eassumption.
    + pose proof (IHr _ _ _ E2 nm Hn). destruct (lookup_var b2 nm); [discriminate|contradiction].
  - intros w bl E nm [].
  - intros k p IHp r IHr w bl E nm Hn. rewrite pmbo_key in E.
    destruct (nres_exn rsf (fn_index2 w (VStr k))) as [wk|x]; [|discriminate].
    destruct (pmb rsf p wk) as [b1|x] eqn:E1; [|discriminate].
    destruct (pmbo rsf r w) as [b2|x] eqn:E2; [|discriminate]. injection E as <-.
    rewrite lookup_var_app. cbn [pv2o] in Hn. apply in_app_iff in Hn as [Hn|Hn].
    + destruct (lookup_var b2 nm); [discriminate|]. eapply IHp; eassumption.
    + pose proof (IHr _ _ E2 nm Hn). destruct (lookup_var b2 nm); [discriminate|contradiction].
  - intros x p IHp r IHr w bl E nm Hn. rewrite pmbo_keyvar in E.
    destruct (nres_exn rsf (fn_index2 w (VStr (strip_dollar x)))) as [wk|y]; [|discriminate].
    destruct (pmb rsf p wk) as [b1|y] eqn:E1; [|discriminate].
    destruct (pmbo rsf r w) as [b2|y] eqn:E2; [|discriminate]. injection E as <-.
    rewrite !lookup_var_app. cbn [pv2o] in Hn. destruct Hn as [<-|Hn].
    + destruct (lookup_var b2 x); [discriminate|]. destruct (lookup_var b1 x); [discriminate|].
      cbn [lookup_var]. rewrite list_N_eqb_refl. discriminate.
    + apply in_app_iff in Hn as [Hn|Hn].
      * destruct (lookup_var b2 nm); [discriminate|]. pose proof (IHp _ _ E1 nm Hn). destruct (lookup_var b1 nm); [discriminate|contradiction].
      * pose proof (IHr _ _ E2 nm Hn). destruct (lookup_var b2 nm); [discriminate|contradiction].
Qed.

Lemma list_N_eqb_eq (a b : list N) : list_N_eqb a b = true -> a = b.
Proof.
  revert b. induction a as [|c a IH]; intros [|d b] E; try discriminate; [reflexivity|].
  cbn [list_N_eqb] in E. apply andb_true_iff in E as [E1 E2]. apply N.eqb_eq in E1. subst d. f_equal. apply IH. exact E2.
Qed.

Lemma lookup_nulls (l : list bytes) nm : ~ In nm l -> lookup_var (rev (map (fun n => BVar n (plain VNull)) l)) nm = None.
Proof.
  induction l as [|x l IH]; intros Hn; [reflexivity|]. cbn [map rev]. rewrite lookup_var_app.
  rewrite IH by (intros H; apply Hn; right; exact H). cbn [lookup_var].
  destruct (list_N_eqb x nm) eqn:E; [|reflexivity]. exfalso. apply Hn. left. apply list_N_eqb_eq. exact E.
Qed.

(* the nulls compileBind pushes under the bindings of a pattern are invisible once the pattern has matched *)
Lemma nulls_invisible rsf p w bl rho nm : pmb rsf p w = inl bl ->
  lookup_var (bl ++ nulls2 p rho) nm = lookup_var (bl ++ rho) nm.
Proof.
  intros E. rewrite nulls2_eq, !lookup_var_app.
  destruct (lookup_var bl nm) as [t|] eqn:El; [reflexivity|].
  unfold nulls_l. rewrite lookup_nulls; [reflexivity|]. intros Hin.
  apply pattern_vars_sub1 in Hin. exact (proj1 (pmb_binds rsf) p w bl E nm Hin El).
Qed.

Module VL := Verif.c01vm2.Lemmas.

Section PatLink.
Variable rsf : bool.
Notation nt := sem_natives2.

Definition embb (b : N * VD.binding) : binding :=
  match b with
  | (x, VD.BV w) => BVar (name_of x) (plain (emb_v w))
  | (x, _) => BVar (name_of x) (plain VNull)
  end.
Definition isBV (b : N * VD.binding) : Prop := match snd b with VD.BV _ => True | _ => False end.

Definition irel (a : jv + exn) (b : VS.jv + VS.err0) : Prop :=
  match a, b with
  | inl x, inl y => x = emb_v y
  | inr (XErr O c val), inr e => erel c val e
  | inr (XSkip _), _ => True
  | _, _ => False
  end.
Definition prel (a : list binding + exn) (b : VD.venv + VS.err0) : Prop :=
  match a, b with
  | inl bl2, inl bl => bl2 = map embb bl /\ Forall isBV bl
  | inr (XErr O c val), inr e => erel c val e
  | inr (XSkip _), _ => True
  | _, _ => False
  end.

Lemma nrel_irel r s : nrel rsf r s -> irel (nres_exn rsf r) s.
Proof. destruct r as [a|c val|why], s as [b|e]; cbn [nrel nres_exn irel]; auto. Qed.

Lemma index_arr_rel w i : rsf = true -> irel (nres_exn rsf (fn_indexarray (emb_v w) (Z.of_nat i))) (VD.index_arr nt w i).
Proof.
  intros Hr. unfold VD.index_arr, fn_indexarray.
  destruct w as [|b|z|s|l|m].
  - apply nrel_irel. exact (sem2_index_n rsf VS.VNull (VS.VNum (Z.of_nat i))).
  - subst rsf. cbn. left. reflexivity.
  - subst rsf. cbn. left. reflexivity.
  - subst rsf. cbn. left. reflexivity.
  - apply nrel_irel. exact (sem2_index_n rsf (VS.VArr l) (VS.VNum (Z.of_nat i))).
  - subst rsf. cbn. left. reflexivity.
Qed.

Lemma prel_step (a : jv + exn) (b : VS.jv + VS.err0) (f : jv -> list binding + exn) (g : VS.jv -> VD.venv + VS.err0) :
  irel a b -> (forall w, prel (f (emb_v w)) (g w)) ->
  prel (match a with inl x => f x | inr e => inr e end) (match b with inl x => g x | inr e => inr e end).
Proof.
  destruct a as [x|[[|d] c val| | | | |]], b as [y|e]; cbn [irel]; intros H Hf; try contradiction; try exact I.
  - subst x. apply Hf.
  - exact H.
Qed.
Lemma prel_step2 (a : list binding + exn) (b : VD.venv + VS.err0) f g :
  prel a b -> (forall bl, Forall isBV bl -> prel (f (map embb bl)) (g bl)) ->
  prel (match a with inl x => f x | inr e => inr e end) (match b with inl x => g x | inr e => inr e end).
Proof.
  destruct a as [x|[[|d] c val| | | | |]], b as [y|e]; cbn [prel]; intros H Hf; try contradiction; try exact I.
  - destruct H as [-> H]. apply Hf. exact H.
  - exact H.
Qed.

Lemma pmatch_arr l w : VD.pmatch nt (VS.PArr l) w = VD.parr_match nt l 0 w. Proof. reflexivity. Qed.
Lemma pmatch_obj l w : VD.pmatch nt (VS.PObj l) w = VD.pobj_match nt l w. Proof. reflexivity. Qed.
Lemma parr_match_cons p r i w : VD.parr_match nt (VS.ACons p r) i w =
  match VD.index_arr nt w i with
  | inl wi => match VD.pmatch nt p wi with
              | inl b1 => match VD.parr_match nt r (S i) w with inl b2 => inl (b2 ++ b1) | inr e => inr e end
              | inr e => inr e end
  | inr e => inr e
  end.
Proof. reflexivity. Qed.
Lemma pobj_match_key k p r w : VD.pobj_match nt (VS.OKey k p r) w =
  match VC.n_index nt w (VS.VStr k) with
  | inl wk => match VD.pmatch nt p wk with
              | inl b1 => match VD.pobj_match nt r w with inl b2 => inl (b2 ++ b1) | inr e => inr e end
              | inr e => inr e end
  | inr e => inr e
  end.
Proof. reflexivity. Qed.
Lemma pobj_match_keyvar k x p r w : VD.pobj_match nt (VS.OKeyVar k x p r) w =
  match VC.n_index nt w (VS.VStr k) with
  | inl wk => match VD.pmatch nt p wk with
              | inl b1 => match VD.pobj_match nt r w with inl b2 => inl (b2 ++ b1 ++ [(x, VD.BV wk)]) | inr e => inr e end
              | inr e => inr e end
  | inr e => inr e
  end.
Proof. reflexivity. Qed.

Lemma pat_link :
  (forall p p', trp rsf p = Some p' -> forall w, prel (pmb rsf p' (emb_v w)) (VD.pmatch nt p w)) /\
  (forall l l', trpa rsf l = Some l' -> rsf = true -> forall i w, prel (pmba rsf l' (Z.of_nat i) (emb_v w)) (VD.parr_match nt l i w)) /\
  (forall l l', trpo rsf l = Some l' -> forall w, prel (pmbo rsf l' (emb_v w)) (VD.pobj_match nt l w)).
Proof.
  apply VL.pattern_mutind.
  - intros x p' H w. cbn in H. injection H as <-. cbn. split; [reflexivity|repeat constructor].
  - intros l IH p' H w. cbn [trp] in H. destruct rsf eqn:Er; [|discriminate].
    destruct (trpa true l) as [l'|] eqn:El; [|destruct l; discriminate].
    assert (p' = P2Arr l') by (destruct l; [discriminate|cbn in H; congruence]). subst p'.
    rewrite pmb_arr, pmatch_arr. exact (IH l' eq_refl eq_refl 0%nat w).
  - intros l IH p' H w. cbn [trp] in H.
    destruct (trpo rsf l) as [l'|] eqn:El; [|destruct l; discriminate].
    assert (p' = P2Obj l') by (destruct l; [discriminate|cbn in H; congruence|cbn in H; congruence]). subst p'.
    rewrite pmb_obj, pmatch_obj. exact (IH l' eq_refl w).
  - intros l' H _ i w. cbn in H. injection H as <-. cbn. split; [reflexivity|constructor].
  - intros p IHp r IHr l' H Hr i w. cbn [trpa] in H.
    destruct (trp rsf p) as [p'|] eqn:Ep; [|discriminate]. destruct (trpa rsf r) as [r'|] eqn:Er; [|discriminate].
    injection H as <-. rewrite pmba_cons, parr_match_cons.
    apply prel_step; [apply index_arr_rel; exact Hr|]. intros wi.
    apply prel_step2; [apply IHp; reflexivity|]. intros b1 Hb1.
    replace (Z.of_nat i + 1)%Z with (Z.of_nat (S i)) by lia.
    pose proof (IHr r' eq_refl Hr (S i) w) as H2.
    destruct (pmba rsf r' (Z.of_nat (S i)) (emb_v w)) as [x|[[|d] c val| | | | |]], (VD.parr_match nt r (S i) w) as [y|e];
      cbn [prel] in *; try contradiction; try exact I; try exact H2.
    destruct H2 as [-> H2]. split; [rewrite map_app; reflexivity|apply Forall_app; split; assumption].
  - intros l' H w. cbn in H. injection H as <-. cbn. split; [reflexivity|constructor].
  - intros k p IHp r IHr l' H w. cbn [trpo] in H.
    destruct (trp rsf p) as [p'|] eqn:Ep; [|discriminate]. destruct (trpo rsf r) as [r'|] eqn:Er; [|discriminate].
    injection H as <-. rewrite pmbo_key, pobj_match_key.
    apply prel_step; [apply nrel_irel; exact (sem2_index_n rsf w (VS.VStr k))|]. intros wk.
    apply prel_step2; [apply IHp; reflexivity|]. intros b1 Hb1.
    pose proof (IHr r' eq_refl w) as H2.
    destruct (pmbo rsf r' (emb_v w)) as [x|[[|d] c val| | | | |]], (VD.pobj_match nt r w) as [y|e];
      cbn [prel] in *; try contradiction; try exact I; try exact H2.
    destruct H2 as [-> H2]. split; [rewrite map_app; reflexivity|apply Forall_app; split; assumption].
  - intros k x p IHp r IHr l' H w. cbn [trpo] in H.
    destruct (list_N_eqb k (tl (name_of x))) eqn:Ek; [|discriminate]. apply list_N_eqb_eq in Ek. subst k.
    destruct (trp rsf p) as [p'|] eqn:Ep; [|discriminate]. destruct (trpo rsf r) as [r'|] eqn:Er; [|discriminate].
    injection H as <-. rewrite pmbo_keyvar, pobj_match_keyvar.
    change (strip_dollar (name_of x)) with (tl (name_of x)).
    apply prel_step; [apply nrel_irel; exact (sem2_index_n rsf w (VS.VStr (tl (name_of x))))|]. intros wk.
    apply prel_step2; [apply IHp; reflexivity|]. intros b1 Hb1.
    pose proof (IHr r' eq_refl w) as H2.
    destruct (pmbo rsf r' (emb_v w)) as [x0|[[|d] c val| | | | |]], (VD.pobj_match nt r w) as [y|e];
      cbn [prel] in *; try contradiction; try exact I; try exact H2.
    destruct H2 as [-> H2]. split; [rewrite !map_app; reflexivity|].
    apply Forall_app; split; [assumption|]. apply Forall_app; split; [assumption|]. repeat constructor.
Qed.

(* environments after a successful match *)
Lemma lookup_embb bl E rv : Forall isBV bl ->
  (forall y, lookup_var E (name_of y) = option_map (fun w => plain (emb_v w)) (VD.lookup_v y rv)) ->
  forall y, lookup_var (map embb bl ++ E) (name_of y) = option_map (fun w => plain (emb_v w)) (VD.lookup_v y (bl ++ rv)).
Proof.
  intros Hb HE. induction Hb as [|[x b] bl Hx _ IH]; intros y; [apply HE|].
  destruct b as [w| |]; try contradiction. cbn [map embb app lookup_var VD.lookup_v].
  rewrite name_of_eqb, N.eqb_sym. destruct (N.eqb y x); [reflexivity|apply IH].
Qed.

Lemma embb_bvp bl : Forall bvp (map embb bl).
Proof. induction bl as [|[x b] bl IH]; constructor; [destruct b; exact I|exact IH]. Qed.

Lemma renv_pat p' w bl rs rv : pmb rsf p' (emb_v w) = inl (map embb bl) -> Forall isBV bl ->
  renv rs rv -> renv (map embb bl ++ nulls2 p' rs) (bl ++ rv).
Proof.
  intros E Hb [Hv Hl]. split.
  - rewrite nulls2_eq. apply bvp_vars_only; [apply embb_bvp|]. apply bvp_vars_only; [apply nulls_l_bvp|exact Hv].
  - intros y. rewrite (nulls_invisible rsf p' (emb_v w) _ rs _ E). apply lookup_embb; assumption.
Qed.
End PatLink.


Lemma int_lit_key z : query_index_key (int_lit z) = Some (VNum (NInt z)).
Proof. unfold int_lit. destruct (0 <=? z)%Z; [reflexivity|]. cbn. rewrite Z.opp_involutive. reflexivity. Qed.

Lemma const_index_key k i : const_index k = Some i -> index_key i = Some (emb_v k).
Proof.
  destruct k as [|b|z|[|c s]|l|[|[ke e] [|[ks s] [|x m]]]]; cbn [const_index]; try discriminate.
  - intros [= <-]. cbn -[int_lit query_index_key]. rewrite int_lit_key. reflexivity.
  - intros [= <-]. reflexivity.
  - destruct (list_N_eqb ke nm_end) eqn:E1; [|discriminate]. destruct (list_N_eqb ks nm_start) eqn:E2; [|discriminate]. cbn [andb].
    apply list_N_eqb_eq in E1. apply list_N_eqb_eq in E2. subst ke ks.
    destruct s as [| |zs| | |], e as [| |ze| | |]; cbn [lit_bound]; try discriminate; intros [= <-];
      cbn -[int_lit query_index_key obj_set]; rewrite ?int_lit_key; reflexivity.
Qed.

(* constant arrays *)
Lemma den2_const rsf c : forall q', tr_const c = Some q' -> ok2 q' /\ forall rho v, den2 rsf q' rho v = ([emb_v c], None).
Proof.
  induction c using vjv_ind'; intros q' Hq; cbn [tr_const] in Hq.
  - injection Hq as <-. split; [exact I|reflexivity].
  - injection Hq as <-. split; [exact I|reflexivity].
  - injection Hq as <-. split; [exact I|reflexivity].
  - injection Hq as <-. split; [exact I|reflexivity].
  - destruct l as [|x r]; [injection Hq as <-; split; [exact I|reflexivity]|].
    destruct (tr_commas (fun x => tr_const x) (x :: r)) as [qs|] eqn:E; [|discriminate]. cbn in Hq. injection Hq as <-.
    assert (HL : forall l, l <> [] -> Forall (fun c => forall q', tr_const c = Some q' ->
                    ok2 q' /\ forall rho v, den2 rsf q' rho v = ([emb_v c], None)) l ->
                  forall qs, tr_commas (fun x => tr_const x) l = Some qs ->
                  ok2 qs /\ forall rho v, den2 rsf qs rho v = (map emb_v l, None)).
    { clear. induction l as [|y l IH]; intros Hne HF qs E; [congruence|]. inversion HF as [|? ? Hy HFl]; subst.
      cbn [tr_commas] in E. destruct l as [|z l'].
      - destruct (Hy qs E) as [H1 H2]. split; [exact H1|]. intros rho v. rewrite H2. reflexivity.
      - destruct (tr_const y) as [a|] eqn:Ea; [|discriminate].
        destruct (tr_commas (fun x => tr_const x) (z :: l')) as [b|] eqn:Eb; [|discriminate]. injection E as <-.
        destruct (Hy a eq_refl) as [H1 H2]. destruct (IH ltac:(discriminate) HFl b eq_refl) as [H3 H4].
        split; [cbn [ok2]; auto|]. intros rho v. cbn [den2]. rewrite H2, H4. reflexivity. }
    destruct (HL (x :: r) ltac:(discriminate) H qs E) as [H1 H2]. split; [exact H1|].
    intros rho v. cbn [den2]. rewrite H2. reflexivity.
  - destruct m; [|discriminate]. injection Hq as <-. split; [exact I|reflexivity].
Qed.

(* ---- the denotation of c01vm2 (natives = Sem's) and den2 agree up to Sem's skips ---- *)
Section DenLink2.
Variable rsf : bool.
Notation nt := sem_natives2.

Definition embpair (p : VS.jv * VS.jv) : jv * jv := (emb_v (fst p), emb_v (snd p)).
Definition obj_res (ps : list (jv * jv)) : result :=
  match build_object ps [] with
  | Some o => ([VObj o], None)
  | None => ([], Some (XErr O EObjectKeyNotString None))
  end.
(* opobject: c01vm2 inserts the pairs from the last to the first without overwriting, Sem from the first to the last
   with overwriting (proved in ObjLink2.v) *)
Hypothesis mk_obj_link : forall L acc, R L (obj_res (map embpair acc)) (VD.of_sum (VS.mk_obj acc)).

Lemma R_single L w : R L ([emb_v w], None) ([w], None).
Proof. left. split; [reflexivity|exact I]. Qed.

Lemma vbind_single v f : VD.bind ([v], None) f = f v.
Proof. unfold VD.bind. cbn [fst snd VD.bind_list]. destruct (f v) as [ws [x|]]; cbn [VD.seq fst snd]; [reflexivity|]. rewrite app_nil_r. reflexivity. Qed.

Definition P_link (call : VS.query -> VD.venv -> VS.jv -> VD.result) (q : VS.query) : Prop :=
  forall q', tr rsf q = Some q' -> forall rs rv v, renv rs rv -> R rs (den2 rsf q' rs (emb_v v)) (VD.den1 nt call q rv v).

Lemma ents_link call es : Forall (VL.Pent (P_link call)) es -> forall es', tr_ents (fun x => tr rsf x) es = Some es' ->
  forall rs rv v, renv rs rv -> forall acc,
  R rs (den_ents2 rsf es' rs (emb_v v) (rev (map embpair acc))) (VD.den_ents (fun a => VD.den1 nt call a rv v) es acc).
Proof.
  induction 1 as [|[[k|kq] qv] es [Hk Hv] _ IH]; intros es' H rs rv v Hr acc.
  - cbn in H. injection H as <-. cbn [den_ents2 VD.den_ents]. rewrite rev_involutive. apply mk_obj_link.
  - cbn [tr_ents] in H. destruct (tr rsf qv) as [v'|] eqn:Ev; [|discriminate].
    destruct (tr_ents (fun x => tr rsf x) es) as [r'|] eqn:Er; [|discriminate]. injection H as <-.
    cbn [den_ents2 VD.den_ents]. rewrite vbind_single. cbn [VL.Pent fst snd] in Hv.
    apply R_rbind; [apply Hv; assumption|]. intros w.
    replace ((VStr k, emb_v w) :: rev (map embpair acc)) with (rev (map embpair (acc ++ [(VS.VStr k, w)])))
      by (rewrite map_app, rev_app_distr; reflexivity).
    apply IH; first [assumption|reflexivity].
  - cbn [tr_ents] in H. destruct (tr rsf kq) as [k'|] eqn:Ek; [|discriminate]. destruct (tr rsf qv) as [v'|] eqn:Ev; [|discriminate].
    destruct (tr_ents (fun x => tr rsf x) es) as [r'|] eqn:Er; [|discriminate]. injection H as <-.
    cbn [den_ents2 VD.den_ents]. cbn [VL.Pent VL.Pkey fst snd] in Hk, Hv.
    apply R_rbind; [apply Hk; assumption|]. intros kx. apply R_rbind; [apply Hv; assumption|]. intros w.
    replace ((emb_v kx, emb_v w) :: rev (map embpair acc)) with (rev (map embpair (acc ++ [(kx, w)])))
      by (rewrite map_app, rev_app_distr; reflexivity).
    apply IH; first [assumption|reflexivity].
Qed.

Lemma renv_vars rs rv : renv rs rv -> vars_only rs. Proof. intros [H _]; exact H. Qed.

Theorem den_link2 call : forall q, P_link call q.
Proof.
  induction q using VL.query_ind'; intros q' Htr rs rv v Hr; cbn [tr] in Htr.
  - (* id *) injection Htr as <-. apply R_single.
  - (* const *) cbn [VD.den1]. rewrite (proj2 (den2_const rsf c q' Htr)). exact (R_single rs c).
  - (* pipe *) destruct (tr rsf q1) eqn:E1, (tr rsf q2) eqn:E2; try discriminate. injection Htr as <-. cbn [den2 VD.den1].
    apply R_rbind; [eapply IHq1; eassumption|]. intros w. eapply IHq2; eassumption.
  - (* comma *) destruct (tr rsf q1) eqn:E1, (tr rsf q2) eqn:E2; try discriminate. injection Htr as <-. cbn [den2 VD.den1].
    apply R_rseq; [eapply IHq1|eapply IHq2]; eassumption.
  - (* empty *) injection Htr as <-. left. split; [reflexivity|exact I].
  - (* iter *) destruct (tr rsf q) eqn:E1; try discriminate. cbn in Htr. injection Htr as <-. cbn [den2 VD.den1].
    apply R_rbind; [eapply IHq; eassumption|]. intros w. apply sem2_iter.
  - (* constant index *)
    destruct k as [|b|z|[|c s]|l|m].
    5:{ destruct (tr rsf q) eqn:E1; try discriminate. cbn in Htr. injection Htr as <-.
        cbn [den2 VD.den1]. apply R_rbind; [eapply IHq; eassumption|]. intros w. exact (sem2_index rsf rs w (VS.VStr (c :: s))). }
    all: destruct (const_index _) as [i|] eqn:Ei; [|discriminate]; destruct (tr rsf q) eqn:E1; try discriminate;
         injection Htr as <-; cbn [den2 VD.den1]; rewrite (const_index_key _ _ Ei);
         (apply R_rbind; [eapply IHq; eassumption|]); intros w; apply sem2_index.
  - (* if *) destruct (tr rsf q1) eqn:E1, (tr rsf q2) eqn:E2, (tr rsf q3) eqn:E3; try discriminate. injection Htr as <-. cbn [den2 VD.den1].
    apply R_rbind; [eapply IHq1; eassumption|]. intros w. rewrite truthy_emb.
    destruct (VS.truthy w); [eapply IHq2|eapply IHq3]; eassumption.
  - (* alt *) destruct (tr rsf q1) eqn:E1, (tr rsf q2) eqn:E2; try discriminate. injection Htr as <-.
    rewrite den2_alt_eq, den_alt_eq. apply R_alt; [eapply IHq1|eapply IHq2]; eassumption.
  - (* try *) destruct h as [h|].
    + destruct (tr rsf q) eqn:E1; try discriminate. destruct (tr rsf h) eqn:E2; try discriminate. injection Htr as <-.
      rewrite den2_try_eq, den_try_eq. cbn [option_map].
      apply R_try; [eapply IHq; eassumption|]. intros w. cbn [VL.Popt] in H. eapply H; eassumption.
    + destruct (tr rsf q) eqn:E1; try discriminate. cbn in Htr. injection Htr as <-.
      rewrite den2_try_eq, den_try_eq. cbn [option_map].
      apply R_try; [eapply IHq; eassumption|exact I].
  - (* array *) destruct (tr rsf q) eqn:E1; try discriminate. cbn in Htr. injection Htr as <-.
    rewrite den2_array_eq, den_array_eq. apply R_array. eapply IHq; eassumption.
  - (* reduce *) destruct x as [x|lp|lp]; try discriminate. destruct (tr rsf q1) eqn:E1, (tr rsf q2) eqn:E2, (tr rsf q3) eqn:E3; try discriminate. injection Htr as <-.
    rewrite den2_reduce_eq, den_reduce_eq. apply R_rbind; [eapply IHq2; eassumption|]. intros s0.
    apply R_reduce; [eapply IHq1; eassumption|]. intros w acc.
    apply (R_env_ext (BVar (name_of x) (plain (emb_v w)) :: rs) rs); [reflexivity|]. eapply IHq3; [eassumption|]. apply renv_bind1. exact Hr.
  - (* foreach *) destruct x as [x|lp|lp]; try (destruct e; discriminate). destruct e as [e|].
    + destruct (tr rsf q1) eqn:E1, (tr rsf q2) eqn:E2, (tr rsf q3) eqn:E3; try discriminate. destruct (tr rsf e) eqn:E4; try discriminate.
      injection Htr as <-. rewrite den2_foreach_eq, den_foreach_eq. apply R_rbind; [eapply IHq2; eassumption|]. intros s0.
      apply R_foreach; [eapply IHq1; eassumption| |].
      * intros w acc. apply (R_env_ext (BVar (name_of x) (plain (emb_v w)) :: rs) rs); [reflexivity|]. eapply IHq3; [eassumption|]. apply renv_bind1. exact Hr.
      * intros w u. apply (R_env_ext (BVar (name_of x) (plain (emb_v w)) :: rs) rs); [reflexivity|]. cbn [VL.Popt] in H. eapply H; [eassumption|]. apply renv_bind1. exact Hr.
    + destruct (tr rsf q1) eqn:E1, (tr rsf q2) eqn:E2, (tr rsf q3) eqn:E3; try discriminate.
      injection Htr as <-. rewrite den2_foreach_eq, den_foreach_eq. apply R_rbind; [eapply IHq2; eassumption|]. intros s0.
      apply R_foreach; [eapply IHq1; eassumption| |].
      * intros w acc. apply (R_env_ext (BVar (name_of x) (plain (emb_v w)) :: rs) rs); [reflexivity|]. eapply IHq3; [eassumption|]. apply renv_bind1. exact Hr.
      * intros w u. apply R_single.
  - (* label *) destruct (tr rsf q) eqn:E1; try discriminate. cbn in Htr. injection Htr as <-.
    rewrite den_label_eq. cbn [den2]. apply R_label. eapply IHq; [eassumption|]. apply renv_label. exact Hr.
  - (* break *) injection Htr as <-. cbn [den2 VD.den1]. destruct (lookup_label rs (name_of l)) as [i|] eqn:E.
    + left. split; [reflexivity|exact E].
    + apply R_skip.
  - (* bind *) destruct (tr rsf q1) eqn:E1, (tr rsf q2) eqn:E2; try discriminate. injection Htr as <-. cbn [den2 VD.den1].
    apply R_rbind; [eapply IHq1; eassumption|]. intros w.
    apply (R_env_ext (bind_env rs (name_of x) (emb_v w)) rs); [reflexivity|]. eapply IHq2; [eassumption|]. apply renv_bind. exact Hr.
  - (* var *) injection Htr as <-. cbn [den2 VD.den1]. destruct Hr as [Hv Hl]. rewrite Hl.
    destruct (VD.lookup_v x rv) as [w|]; cbn [option_map].
    + apply R_single.
    + right. exists (codes "undefined-variable"), [], []. auto.
  - (* natives *) destruct f; try discriminate; injection Htr as <-; cbn [den2 VD.den1].
    + left. split; [reflexivity|]. cbn. reflexivity.
    + apply sem2_length.
    + apply (sem2_fmt rsf rs VS.F0ToString fn_tostring v); [apply good_tostring|reflexivity].
    + apply (sem2_fmt rsf rs VS.F0ToJson fn_tojson v); [apply good_tojson|reflexivity].
  - (* binary operator: right operand first *)
    destruct (tr rsf q1) eqn:E1, (tr rsf q2) eqn:E2; try discriminate. injection Htr as <-. cbn [den2 VD.den1].
    apply R_rbind; [eapply IHq2; eassumption|]. intros r. apply R_rbind; [eapply IHq1; eassumption|]. intros l. apply sem2_fn2.
  - discriminate.
  - discriminate.
  - (* object *) destruct (tr_ents (fun x => tr rsf x) es) as [es'|] eqn:Ee; [|discriminate]. cbn in Htr. injection Htr as <-.
    cbn [den2 VD.den1]. exact (ents_link call es H es' Ee rs rv v Hr []).
  - (* destructuring *)
    destruct (tr rsf q1) eqn:E1; try discriminate. destruct (trp rsf p) as [p'|] eqn:Ep; try discriminate.
    destruct (tr rsf q2) eqn:E2; try discriminate. injection Htr as <-. cbn [den2 VD.den1].
    apply R_rbind; [eapply IHq1; eassumption|]. intros w.
    pose proof (proj1 (pat_link rsf) p p' Ep w) as Hp.
    destruct (pmb rsf p' (emb_v w)) as [bl2|[[|d] c val| | | | |]] eqn:Em, (VD.pmatch nt p w) as [bl|e]; cbn [prel] in Hp; try contradiction.
    + destruct Hp as [-> Hb].
      apply (R_env_ext (map embb bl ++ nulls2 p' rs) rs).
      { intros nm. rewrite nulls2_eq. rewrite (bvp_lookup_label _ _ nm (embb_bvp bl)). apply bvp_lookup_label. apply nulls_l_bvp. }
      eapply IHq2; [eassumption|]. eapply renv_pat; eassumption.
    + left. split; [reflexivity|exact Hp].
    + apply R_skip.
    + apply R_skip.
  - (* computed index *)
    destruct (tr rsf q1) eqn:E1; try discriminate. destruct (tr rsf q2) eqn:E2; try discriminate.
    destruct (query_index_key (emb2 q0)); [discriminate|]. injection Htr as <-. cbn [den2 VD.den1].
    apply R_rbind; [eapply IHq2; eassumption|]. intros k. apply R_rbind; [eapply IHq1; eassumption|]. intros w. apply sem2_index.
  - (* slice *)
    destruct (tr rsf q1) eqn:E1; try discriminate.
    destruct (tr_bound (fun x => tr rsf x) q2) as [a'|] eqn:Ea; try discriminate.
    destruct (tr_bound (fun x => tr rsf x) q3) as [b'|] eqn:Eb; try discriminate.
    destruct (index_key _); [discriminate|]. injection Htr as <-. cbn [den2 VD.den1].
    assert (HB : forall qb o, P_link call qb -> tr_bound (fun x => tr rsf x) qb = Some o ->
                 R rs (match o with Some a0 => den2 rsf a0 rs (emb_v v) | None => ([VNull], None) end) (VD.den1 nt call qb rv v)).
    { intros qb o IH Ho. unfold tr_bound in Ho.
      assert (Hgen : option_map Some (tr rsf qb) = Some o ->
                R rs (match o with Some a0 => den2 rsf a0 rs (emb_v v) | None => ([VNull], None) end) (VD.den1 nt call qb rv v)).
      { destruct (tr rsf qb) as [a0|] eqn:E0; [|discriminate]. cbn. intros [= <-]. eapply IH; eassumption. }
      destruct qb; try exact (Hgen Ho). destruct c; try exact (Hgen Ho). injection Ho as <-. exact (R_single rs VS.VNull). }
    apply R_rbind; [apply HB; assumption|]. intros sv. apply R_rbind; [apply HB; assumption|]. intros ev.
    apply R_rbind; [eapply IHq1; eassumption|]. intros w. apply sem2_slice.
  - (* error(a) *) discriminate.
Qed.
End DenLink2.

(* ---- translated programs are in the fragment for which Sem = den2 is proved ---- *)
Lemma trp_okp rsf :
  (forall p p', trp rsf p = Some p' -> okp p') /\
  (forall l l', trpa rsf l = Some l' -> okpa l' /\ (l <> VS.ANil -> l' <> A2Nil)) /\
  (forall l l', trpo rsf l = Some l' -> okpo l' /\ (l <> VS.ONil -> l' <> O2Nil)).
Proof.
  apply VL.pattern_mutind.
  - intros x p' H. cbn in H. injection H as <-. reflexivity.
  - intros l IH p' H. cbn [trp] in H. destruct rsf; [|discriminate].
    destruct (trpa true l) as [l'|] eqn:El; [|destruct l; discriminate].
    destruct (IH l' eq_refl) as [H1 H2].
    assert (p' = P2Arr l' /\ l <> VS.ANil) as [-> Hne] by (destruct l; [discriminate|split; [cbn in H; congruence|discriminate]]).
    cbn [okp]. auto.
  - intros l IH p' H. cbn [trp] in H.
    destruct (trpo rsf l) as [l'|] eqn:El; [|destruct l; discriminate].
    destruct (IH l' eq_refl) as [H1 H2].
    assert (p' = P2Obj l' /\ l <> VS.ONil) as [-> Hne] by (destruct l; [discriminate| |]; (split; [cbn in H; congruence|discriminate])).
    cbn [okp]. auto.
  - intros l' H. cbn in H. injection H as <-. split; [exact I|congruence].
  - intros p IHp r IHr l' H. cbn [trpa] in H.
    destruct (trp rsf p) as [p'|] eqn:Ep; [|discriminate]. destruct (trpa rsf r) as [r'|] eqn:Er; [|discriminate].
    injection H as <-. split; [|discriminate]. cbn [okpa]. split; [apply IHp; reflexivity|apply (IHr r' eq_refl)].
  - intros l' H. cbn in H. injection H as <-. split; [exact I|congruence].
  - intros k p IHp r IHr l' H. cbn [trpo] in H.
    destruct (trp rsf p) as [p'|] eqn:Ep; [|discriminate]. destruct (trpo rsf r) as [r'|] eqn:Er; [|discriminate].
    injection H as <-. split; [|discriminate]. cbn [okpo]. split; [apply IHp; reflexivity|apply (IHr r' eq_refl)].
  - intros k x p IHp r IHr l' H. cbn [trpo] in H. destruct (list_N_eqb k (tl (name_of x))); [|discriminate].
    destruct (trp rsf p) as [p'|] eqn:Ep; [|discriminate]. destruct (trpo rsf r) as [r'|] eqn:Er; [|discriminate].
    injection H as <-. split; [|discriminate]. cbn [okpo]. split; [reflexivity|]. split; [apply IHp; reflexivity|apply (IHr r' eq_refl)].
Qed.

Lemma tr_ents_ok rsf es : Forall (VL.Pent (fun q => forall q', tr rsf q = Some q' -> ok2 q')) es ->
  forall es', tr_ents (fun x => tr rsf x) es = Some es' -> ok_ents es'.
Proof.
  induction 1 as [|[[k|kq] qv] es [Hk Hv] _ IH]; intros es' H.
  - cbn in H. injection H as <-. exact I.
  - cbn [tr_ents] in H. destruct (tr rsf qv) as [v'|] eqn:Ev; [|discriminate].
    destruct (tr_ents (fun x => tr rsf x) es) as [r'|] eqn:Er; [|discriminate]. injection H as <-.
    cbn [ok_ents]. cbn [VL.Pent fst snd] in Hv. split; [apply Hv; exact Ev|apply IH; reflexivity].
  - cbn [tr_ents] in H. destruct (tr rsf kq) as [k'|] eqn:Ek; [|discriminate]. destruct (tr rsf qv) as [v'|] eqn:Ev; [|discriminate].
    destruct (tr_ents (fun x => tr rsf x) es) as [r'|] eqn:Er; [|discriminate]. injection H as <-.
    cbn [ok_ents]. cbn [VL.Pent VL.Pkey fst snd] in Hk, Hv. split; [apply Hk; exact Ek|]. split; [apply Hv; exact Ev|apply IH; reflexivity].
Qed.

Theorem tr_ok2 rsf : forall q q', tr rsf q = Some q' -> ok2 q'.
Proof.
  induction q using VL.query_ind'; intros q' Htr; cbn [tr] in Htr.
  - injection Htr as <-. exact I.
  - exact (proj1 (den2_const rsf c q' Htr)).
  - destruct (tr rsf q1) eqn:E1, (tr rsf q2) eqn:E2; try discriminate. injection Htr as <-. cbn. eauto.
  - destruct (tr rsf q1) eqn:E1, (tr rsf q2) eqn:E2; try discriminate. injection Htr as <-. cbn. eauto.
  - injection Htr as <-. exact I.
  - destruct (tr rsf q) eqn:E1; try discriminate. cbn in Htr. injection Htr as <-. cbn. eauto.
  - destruct k as [|b|z|[|c s]|l|m].
    5:{ destruct (tr rsf q) eqn:E1; try discriminate. cbn in Htr. injection Htr as <-. cbn [ok2]. eauto. }
    all: destruct (const_index _) as [i|] eqn:Ei; [|discriminate]; destruct (tr rsf q) eqn:E1; try discriminate;
         injection Htr as <-; cbn [ok2]; (split; [rewrite (const_index_key _ _ Ei); discriminate|eauto]).
  - destruct (tr rsf q1) eqn:E1, (tr rsf q2) eqn:E2, (tr rsf q3) eqn:E3; try discriminate. injection Htr as <-. cbn. repeat split; eauto.
  - destruct (tr rsf q1) eqn:E1, (tr rsf q2) eqn:E2; try discriminate. injection Htr as <-. cbn. eauto.
  - destruct h as [h|].
    + destruct (tr rsf q) eqn:E1; try discriminate. destruct (tr rsf h) eqn:E2; try discriminate. injection Htr as <-. cbn. cbn [VL.Popt] in H. split; eauto.
    + destruct (tr rsf q) eqn:E1; try discriminate. cbn in Htr. injection Htr as <-. cbn. split; eauto.
  - destruct (tr rsf q) eqn:E1; try discriminate. cbn in Htr. injection Htr as <-. cbn. eauto.
  - destruct x as [x|lp|lp]; try discriminate. destruct (tr rsf q1) eqn:E1, (tr rsf q2) eqn:E2, (tr rsf q3) eqn:E3; try discriminate. injection Htr as <-. cbn. repeat split; eauto.
  - destruct x as [x|lp|lp]; try (destruct e; discriminate). destruct e as [e|].
    + destruct (tr rsf q1) eqn:E1, (tr rsf q2) eqn:E2, (tr rsf q3) eqn:E3; try discriminate. destruct (tr rsf e) eqn:E4; try discriminate.
      injection Htr as <-. cbn. cbn [VL.Popt] in H. repeat split; eauto.
    + destruct (tr rsf q1) eqn:E1, (tr rsf q2) eqn:E2, (tr rsf q3) eqn:E3; try discriminate. injection Htr as <-. cbn. repeat split; eauto.
  - destruct (tr rsf q) eqn:E1; try discriminate. cbn in Htr. injection Htr as <-. cbn. eauto.
  - injection Htr as <-. exact I.
  - destruct (tr rsf q1) eqn:E1, (tr rsf q2) eqn:E2; try discriminate. injection Htr as <-. cbn. repeat split; eauto.
  - injection Htr as <-. cbn [ok2]. split; [reflexivity|apply name_of_not_env].
  - destruct f; try discriminate; injection Htr as <-; exact I.
  - destruct (tr rsf q1) eqn:E1, (tr rsf q2) eqn:E2; try discriminate. injection Htr as <-. cbn [ok2].
    split; [destruct o; reflexivity|]. split; eauto.
  - discriminate.
  - discriminate.
  - destruct (tr_ents (fun x => tr rsf x) es) as [es'|] eqn:Ee; [|discriminate]. cbn in Htr. injection Htr as <-.
    cbn [ok2]. eapply tr_ents_ok; eassumption.
  - destruct (tr rsf q1) eqn:E1; try discriminate. destruct (trp rsf p) as [p'|] eqn:Ep; try discriminate.
    destruct (tr rsf q2) eqn:E2; try discriminate. injection Htr as <-. cbn [ok2].
    split; [eapply (proj1 (trp_okp rsf)); eassumption|]. split; eauto.
  - destruct (tr rsf q1) eqn:E1; try discriminate. destruct (tr rsf q2) eqn:E2; try discriminate.
    destruct (query_index_key (emb2 q0)) eqn:Ek; [discriminate|]. injection Htr as <-. cbn [ok2]. repeat split; eauto.
  - destruct (tr rsf q1) eqn:E1; try discriminate.
    destruct (tr_bound (fun x => tr rsf x) q2) as [a'|] eqn:Ea; try discriminate.
    destruct (tr_bound (fun x => tr rsf x) q3) as [b'|] eqn:Eb; try discriminate.
    destruct (index_key _) eqn:Ek; [discriminate|]. injection Htr as <-. cbn [ok2].
    assert (HB : forall qb o, (forall q', tr rsf qb = Some q' -> ok2 q') -> tr_bound (fun x => tr rsf x) qb = Some o ->
                 match o with Some a0 => ok2 a0 | None => True end).
    { intros qb o IH Ho. unfold tr_bound in Ho.
      assert (Hgen : option_map Some (tr rsf qb) = Some o -> match o with Some a0 => ok2 a0 | None => True end).
      { destruct (tr rsf qb) as [a0|] eqn:E0; [|discriminate]. cbn. intros [= <-]. apply IH. reflexivity. }
      destruct qb; try exact (Hgen Ho). destruct c; try exact (Hgen Ho). injection Ho as <-. exact I. }
    split; [exact Ek|]. split; [eauto|]. split; [exact (HB q2 a' IHq2 Ea)|exact (HB q3 b' IHq3 Eb)].
  - discriminate.
Qed.

(* ------------------------------------------------------------------------------------------ *)
(* end to end: the final compiled code on the VM = Sem.observe *)
Module VM := Verif.c01vm2.VM.
Module VK := Verif.c01vm2.Compile.
Module VX := Verif.c01vm2.Correct.
Module VP := Verif.c01vm2.Peep.

(* how a VM run ends vs how a Sem observation ends *)
Definition end_rel (e : ending) (m : VM.ending) : Prop :=
  match e, m with
  | EndNormal, VM.End => True
  | EndError c val, VM.Error (VM.VE (VM.EV v)) => val = Some (emb_v v)
  | EndError c val, VM.Error (VM.VE (VM.EM msg)) => val = None \/ val = Some (VStr msg)
  | _, _ => False
  end.

Section EndToEnd.
Variable bs : list funcdef.
Hypothesis Hempty : lookup_builtin bs (codes "empty") 0 = None.
Hypothesis Herror : lookup_builtin bs (codes "error") 0 = None.
Hypothesis Hlength : lookup_builtin bs (codes "length") 0 = None.
Hypothesis Htostring : lookup_builtin bs (codes "tostring") 0 = None.
Hypothesis Htojson : lookup_builtin bs (codes "tojson") 0 = None.
Variable rsf : bool.
Hypothesis mk_obj_link : forall L acc, R L (obj_res (map embpair acc)) (VD.of_sum (VS.mk_obj acc)).

Theorem den_is_sem_observe q q' : tr rsf q = Some q' ->
  forall fu v (n capn : nat) ins,
  (need2 q' <= n)%nat -> (List.length (fst (den2 rsf q' [] (emb_v v))) < capn)%nat ->
  (forall why, snd (observe bs n capn rsf ins (emb2 q') (emb_v v)) <> EndSkip why) ->
  fst (observe bs n capn rsf ins (emb2 q') (emb_v v)) = map emb_v (fst (VD.den sem_natives2 fu q [] v)) /\
  xrel [] (snd (den2 rsf q' [] (emb_v v))) (snd (VD.den sem_natives2 fu q [] v)).
Proof.
  intros Htr fu v n capn ins Hn Hcap Hns.
  rewrite (observe_den2 bs rsf Hempty Herror Hlength Htostring Htojson q' (tr_ok2 rsf q q' Htr) n capn ins (emb_v v) Hn Hcap) in *.
  cbn [fst snd] in *.
  pose proof (den_link2 rsf mk_obj_link (VD.call_of sem_natives2 fu) q q' Htr [] [] v renv_nil) as HR.
  destruct HR as [[El Xl]|(why & pre & post & Sk & _ & _)]; [split; assumption|].
  exfalso. rewrite Sk in Hns. cbn [ending_of] in Hns. eapply Hns. reflexivity.
Qed.

Theorem vm2_run_is_sem_observe q q' tco code :
  tr rsf q = Some q' -> option_map VK.peephole (VK.compile_raw_g tco q) = Some code ->
  forall v (n capn : nat) ins,
  (need2 q' <= n)%nat -> (List.length (fst (den2 rsf q' [] (emb_v v))) < capn)%nat ->
  (forall why, snd (observe bs n capn rsf ins (emb2 q') (emb_v v)) <> EndSkip why) ->
  exists fuel outs m,
    VM.run sem_natives2 code fuel (VM.init code v) = (outs, m) /\
    fst (observe bs n capn rsf ins (emb2 q') (emb_v v)) = map emb_v outs /\
    end_rel (snd (observe bs n capn rsf ins (emb2 q') (emb_v v))) m.
Proof.
  intros Htr Hc v n capn ins Hn Hcap Hns.
  destruct (den_is_sem_observe q q' Htr 0 v n capn ins Hn Hcap Hns) as [El Xl].
  rewrite (observe_den2 bs rsf Hempty Herror Hlength Htostring Htojson q' (tr_ok2 rsf q q' Htr) n capn ins (emb_v v) Hn Hcap) in *.
  cbn [fst snd] in *.
  destruct (VP.compile_g_correct sem_natives2 tco q code Hc 0 v) as [fuel Hrun].
  unfold VX.run_is in Hrun.
  destruct (VD.den sem_natives2 0 q [] v) as [ws' x'], (den2 rsf q' [] (emb_v v)) as [ws x]; cbn [fst snd] in *.
  destruct x as [[[|d] c val| | | | |]|], x' as [[e|lb|]|]; cbn [xrel] in Xl; try contradiction.
  - exists fuel, ws', (VM.Error (VM.VE (VM.err_of e))). split; [exact Hrun|]. split; [exact El|].
    destruct e; exact Xl.
  - exists fuel, ws', VM.End. split; [exact Hrun|]. split; [exact El|exact I].
Qed.
End EndToEnd.

(* the statement in one piece (what coq/props/C01link2.v exports) *)
Definition mk_obj_agree : Prop := forall L acc, R L (obj_res (map embpair acc)) (VD.of_sum (VS.mk_obj acc)).
Definition tr2 (rs : bool) (q : VS.query) : option query := option_map emb2 (tr rs q).
