(* DenLink.v — the reference semantics (demand-driven, continuation-passing) agrees with an EAGER LIST
   semantics on the fragment F0 of jq: identity, scalar literals, pipe, comma, empty, t[], t.k, if/else,
   try/catch, error, length, `src as $x | body`, $x, [q], reduce, foreach, //, label/break, the arithmetic and
   comparison operators (right operand first).  den0 is written
   clause by clause like coq/c01vm/Den.v (seq / bind_list / bind), over the values and natives of coq/sem.
   Constructs that keep a cell or a label alive while their consumer runs are handled by a frame property
   of continuations (K_ok) and, for labels, by the invariance of den0 under renamings of label ids (den0_ren).
   This is the Sem side of the link Sem <-> Den <-> VM (coq/c01vm proves Den <-> VM). *)
From Coq Require Import String.
From Coq Require Import List ZArith NArith Bool Lia.
From Verif Require Import common.Sexp sem.JV sem.Syntax sem.Natives sem.Sem sem.SemProofs.
Import ListNotations.

(* the fragment F0 *)
Inductive q0 :=
| Z0Id
| Z0Null | Z0Bool (b : bool) | Z0Num (t : bytes) (n : num) | Z0Str (s : bytes)
| Z0Pipe (a b : q0)
| Z0Comma (a b : q0)
| Z0Empty
| Z0Iter (t : q0)
| Z0Field (t : q0) (c : N) (k : bytes)        (* t.k, key c :: k *)
| Z0If (c a b : q0)
| Z0Try (a : q0) (h : option q0)
| Z0Error | Z0Length
| Z0Bind (src : q0) (x : bytes) (body : q0)   (* src as $x | body ; x carries the $ *)
| Z0Var (x : bytes)
| Z0Array (q : q0)                            (* [q] *)
| Z0Reduce (src : q0) (x : bytes) (init upd : q0)    (* reduce src as $x (init; upd) *)
| Z0Alt (a b : q0)                             (* a // b *)
| Z0Foreach (src : q0) (x : bytes) (init upd : q0) (ext : option q0)   (* foreach src as $x (init; upd [; ext]) *)
| Z0Label (nm : bytes) (body : q0)            (* label $nm | body ; nm carries the $ *)
| Z0Break (nm : bytes)                        (* break $nm *)
| Z0Binop (o : operator) (a b : q0).          (* a o b for arithmetic / comparison operators *)

Definition paren (q : query) : term := Term (TQuery q) [].

(* the AST gojq.Parse gives these shapes (every compound operand in parentheses) *)
Fixpoint emb (q : q0) : query :=
  match q with
  | Z0Id => q_identity
  | Z0Null => q_term TNull
  | Z0Bool true => q_term TTrue
  | Z0Bool false => q_term TFalse
  | Z0Num t n => q_term (TNumber t n)
  | Z0Str s => q_term (TString (JString s None))
  | Z0Pipe a b => q_bin (emb a) OpPipe (emb b)
  | Z0Comma a b => q_bin (emb a) OpComma (emb b)
  | Z0Empty => q_call (codes "empty") []
  | Z0Iter t => Query [] [] (Some (Term (TQuery (emb t)) [Suffix None true false])) None None None []
  | Z0Field t c k => Query [] [] (Some (Term (TQuery (emb t)) [Suffix (Some (Index (c :: k) None None None false)) false false])) None None None []
  | Z0If c a b => q_term (TIf (emb c) (emb a) [] (Some (emb b)))
  | Z0Try a h => q_term (TTry (emb a) (option_map emb h))
  | Z0Error => q_call (codes "error") []
  | Z0Length => q_call (codes "length") []
  | Z0Bind src x body => Query [] [] None (Some (emb src)) (Some OpPipe) (Some (emb body)) [Pattern x [] []]
  | Z0Var x => q_call x []
  | Z0Array q => q_term (TArray (Some (emb q)))
  | Z0Reduce src x init upd => q_term (TReduce (emb src) (Pattern x [] []) (emb init) (emb upd))
  | Z0Alt a b => q_bin (emb a) OpAlt (emb b)
  | Z0Foreach src x init upd ext => q_term (TForeach (emb src) (Pattern x [] []) (emb init) (emb upd) (option_map emb ext))
  | Z0Label nm body => q_term (TLabel nm (emb body))
  | Z0Break nm => q_term (TBreak nm)
  | Z0Binop o a b => q_bin (emb a) o (emb b)
  end.

(* eager list semantics, clause by clause as coq/c01vm/Den.v *)
Definition result := (list jv * option exn)%type.

(* labels: the ids bound in an environment, and an id above all of them.  Sem takes the label id from the
   state's counter; the list semantics has no state and takes [lab_bound rho]: any id not bound in rho gives
   the same result (den0_ren below). *)
Definition is_arith (o : operator) : bool :=
  match o with
  | OpAdd | OpSub | OpMul | OpDiv | OpMod | OpEq | OpNe | OpGt | OpLt | OpGe | OpLe => true
  | _ => false
  end.

Fixpoint lab_ids (rho : env) : list N :=
  match rho with
  | [] => []
  | BLabel _ l :: r => l :: lab_ids r
  | _ :: r => lab_ids r
  end.
Fixpoint lab_bound (rho : env) : N :=
  match rho with
  | [] => 0%N
  | BLabel _ l :: r => N.max (l + 1) (lab_bound r)
  | _ :: r => lab_bound r
  end.
Definition label_res (id : N) (r : result) : result :=
  match r with
  | (ws, Some (XBreak l)) => if (l =? id)%N then (ws, None) else r
  | _ => r
  end.
Definition rseq (r k : result) : result :=
  match r with
  | (ws, None) => (ws ++ fst k, snd k)
  | (ws, Some x) => (ws, Some x)
  end.
Fixpoint rbind_list (ws : list jv) (f : jv -> result) : result :=
  match ws with
  | [] => ([], None)
  | w :: r => rseq (f w) (rbind_list r f)
  end.
Definition rbind (r : result) (f : jv -> result) : result :=
  match rbind_list (fst r) f with
  | (os, Some x) => (os, Some x)
  | (os, None) => (os, snd r)
  end.
Section Den0.
Variable rs : bool.   (* the run's representation flag (Sem.repsens): message texts are withheld when set *)
Definition mask (c : errclass) (val : option jv) : option jv :=
  match c with
  | EUser | EPlain => val
  | _ => if rs then None else val
  end.
Definition of_nres (r : nres) : result :=
  match r with
  | NOk w => ([w], None)
  | NErr c val => ([], Some (XErr O c (mask c val)))
  | NSkip why => ([], Some (XSkip why))
  end.
Definition iter_res (w : jv) : result :=
  match w with
  | VArr l => (l, None)
  | VObj kvs => (map snd kvs, None)
  | _ => ([], Some (XErr O EIterator (mask EIterator (msg_iterator w))))
  end.
Definition binop_res (o : operator) (l r : jv) : result :=
  match op_binop o with
  | Some f => of_nres (f l r)
  | None => ([], Some (XSkip (codes "operator")))
  end.
Definition bind_env (rho : env) (x : bytes) (w : jv) : env := BVar x (plain w) :: BVar x (plain VNull) :: rho.

(* reduce: the accumulator takes the LAST output of the update, or stays when the update is empty *)
Fixpoint reduce_fold0 (upd : jv -> jv -> result) (ws : list jv) (acc : jv) : jv + exn :=
  match ws with
  | [] => inl acc
  | w :: r => match upd w acc with
              | (us, None) => reduce_fold0 upd r (last us acc)
              | (_, Some x) => inr x
              end
  end.

(* foreach, as coq/c01vm/Den.v: every update output becomes the state and its extraction is emitted *)
Fixpoint foreach_upd0 (ext : jv -> result) (us : list jv) (acc : jv) : result * jv :=
  match us with
  | [] => (([], None), acc)
  | u :: r => match ext u with
              | (os, None) => let '((os', x), acc') := foreach_upd0 ext r u in ((os ++ os', x), acc')
              | (os, Some x) => ((os, Some x), u)
              end
  end.
Fixpoint foreach_fold0 (upd : jv -> jv -> result) (ext : jv -> jv -> result) (ws : list jv) (acc : jv) : result :=
  match ws with
  | [] => ([], None)
  | w :: r =>
      let '(us, ux) := upd w acc in
      match foreach_upd0 (ext w) us acc with
      | ((os, Some x), _) => (os, Some x)
      | ((os, None), acc') =>
          match ux with
          | Some x => (os, Some x)
          | None => rseq (os, None) (foreach_fold0 upd ext r acc')
          end
      end
  end.

Fixpoint den0 (q : q0) (rho : env) (v : jv) : result :=
  match q with
  | Z0Id => ([v], None)
  | Z0Null => ([VNull], None)
  | Z0Bool b => ([VBool b], None)
  | Z0Num _ n => ([VNum n], None)
  | Z0Str s => ([VStr s], None)
  | Z0Pipe a b => rbind (den0 a rho v) (den0 b rho)
  | Z0Comma a b => rseq (den0 a rho v) (den0 b rho v)
  | Z0Empty => ([], None)
  | Z0Iter t => rbind (den0 t rho v) iter_res
  | Z0Field t c k => rbind (den0 t rho v) (fun w => of_nres (fn_index2 w (VStr (c :: k))))
  | Z0If c a b => rbind (den0 c rho v) (fun w => if truthy w then den0 a rho v else den0 b rho v)
  | Z0Try a h =>
      match den0 a rho v with
      | (ws, Some (XErr O c val)) =>
          match h with
          | None => (ws, None)
          | Some h => match val with
                      | Some e => rseq (ws, None) (den0 h rho e)
                      | None => (ws, Some (XSkip (codes "error-message")))
                      end
          end
      | r => r
      end
  | Z0Error => ([], Some (XErr O EUser (Some v)))
  | Z0Length => of_nres (fn_length v)
  | Z0Bind src x body => rbind (den0 src rho v) (fun w => den0 body (bind_env rho x w) v)
  | Z0Var x => match lookup_var rho x with Some w => ([fst w], None) | None => ([], Some (XSkip (codes "undefined-variable"))) end
  | Z0Array q =>
      match den0 q rho v with
      | (ws, None) => ([VArr ws], None)
      | (_, Some x) => ([], Some x)
      end
  | Z0Reduce src x init upd =>
      rbind (den0 init rho v) (fun s0 =>
        let '(ws, sx) := den0 src rho v in
        match reduce_fold0 (fun w acc => den0 upd (BVar x (plain w) :: rho) acc) ws s0 with
        | inr e => ([], Some e)
        | inl acc => match sx with Some e => ([], Some e) | None => ([acc], None) end
        end)
  | Z0Alt a b =>
      let '(ws, x) := den0 a rho v in
      let ts := filter truthy ws in
      match x with
      | Some e => (ts, Some e)                (* an error of the left operand propagates *)
      | None => match ts with [] => den0 b rho v | _ => (ts, None) end
      end
  | Z0Foreach src x init upd ext =>
      rbind (den0 init rho v) (fun s0 =>
        let '(ws, sx) := den0 src rho v in
        rseq (foreach_fold0 (fun w acc => den0 upd (BVar x (plain w) :: rho) acc)
                (fun w u => match ext with Some e => den0 e (BVar x (plain w) :: rho) u | None => ([u], None) end)
                ws s0)
             ([], sx))
  | Z0Label nm body => label_res (lab_bound rho) (den0 body (BLabel nm (lab_bound rho) :: rho) v)
  | Z0Break nm => match lookup_label rho nm with
                  | Some l => ([], Some (XBreak l))
                  | None => ([], Some (XSkip (codes "undefined-label")))
                  end
  (* binary operators evaluate the RIGHT operand first: it is the outer loop *)
  | Z0Binop o a b => rbind (den0 b rho v) (fun r => rbind (den0 a rho v) (fun l => binop_res o l r))
  end.

End Den0.

(* the CPS reading of a result: call k on every output in order, then end as the result ends *)
Fixpoint run_list (k : K) (ws : list jv) (e : option exn) : M unit :=
  match ws with
  | [] => match e with None => ret tt | Some x => raise x end
  | w :: r => k (plain w) None ;; run_list k r e
  end.
Definition run_res (k : K) (r : result) : M unit := run_list k (fst r) (snd r).


Lemma run_list_app k a b e s :
  run_list k (a ++ b) e s = (run_list k a None ;; run_list k b e) s.
Proof.
  revert s. induction a as [|w a IH]; intros s; cbn [app run_list]; [reflexivity|].
  unfold bind in *. destruct (k (plain w) None s) as [[[]|x] s1]; [apply IH|reflexivity].
Qed.

Lemma run_list_exn_absorbs k ws x (m : M unit) s :
  (run_list k ws (Some x) ;; m) s = run_list k ws (Some x) s.
Proof.
  revert s. induction ws as [|w r IH]; intros s; cbn [run_list]; [reflexivity|].
  unfold bind in *. destruct (k (plain w) None s) as [[[]|y] s1]; [apply IH|reflexivity].
Qed.

Lemma run_list_raise k ws x s : run_list k ws (Some x) s = (run_list k ws None ;; raise x) s.
Proof.
  revert s. induction ws as [|w r IH]; intros s; cbn [run_list]; [reflexivity|].
  unfold bind in *. destruct (k (plain w) None s) as [[[]|y] s1]; [apply IH|reflexivity].
Qed.

Lemma run_rbind k f ws e s :
  run_list (fun x _ => run_res k (f (fst x))) ws e s = run_res k (rbind (ws, e) f) s.
Proof.
  revert s. induction ws as [|w r IH]; intros s.
  - reflexivity.
  - cbn [run_list fst plain]. unfold rbind in *. cbn [fst snd rbind_list] in *.
    destruct (f w) as [os [x|]] eqn:Ef; cbn [rseq fst snd].
    + unfold run_res at 1. cbn [fst snd]. rewrite run_list_exn_absorbs. reflexivity.
    + unfold run_res at 1. cbn [fst snd]. unfold bind.
      destruct (rbind_list r f) as [os' [x|]] eqn:ER; unfold run_res; cbn [fst snd];
        rewrite run_list_app; unfold bind;
        destruct (run_list k os None s) as [[[]|y] s1]; try reflexivity; rewrite IH; reflexivity.
Qed.

Lemma run_try k ws e h s :
  try_catch (run_list (fun x ps => down (k x ps)) ws e) h s =
  (run_list k ws None ;;
   match e with
   | None => ret tt
   | Some (XErr O c val) => h val
   | Some (XErr (S d) c val) => raise (XErr d c val)
   | Some x => raise x
   end) s.
Proof.
  revert s. induction ws as [|w r IH]; intros s.
  - cbn [run_list]. unfold try_catch, bind, ret, raise. destruct e as [[[|d] c val| | | | |]|]; reflexivity.
  - cbn [run_list]. unfold try_catch, bind, down in *.
    destruct (k (plain w) None s) as [[[]|x] s1]; [apply IH|]. destruct x; reflexivity.
Qed.

Section Link.
Variable bs : list funcdef.
Variable rs : bool.

(* continuations keep the representation flag (every state update of Sem does) *)
(* A frame: a live cell pushed by an enclosing `//` or foreach while the consumer runs.  The id is the
   counter's value, the counter moves by one. *)
Definition fr1 (val : tv) (s : sst) : sst :=
  mkst (outs s) (nout s) (cap s) (nextid s + 1)%N (inputs s) ((nextid s, val) :: cells s) (repsens s) (steps s).

(* well-behaved continuations, relative to a state invariant Inv: they keep Inv, they leave the id counter
   where it was (every id they allocate is dead when they return), they do not see frames, and they break
   only to labels that exist (ids below the counter) *)
Record K_ok (Inv : sst -> Prop) (k : K) : Prop := {
  kg_ok : forall w s, Inv s -> Inv (snd (k (plain w) None s));
  kg_nid : forall w s, Inv s -> nextid (snd (k (plain w) None s)) = nextid s;
  kg_fr : forall w s val, Inv s ->
          k (plain w) None (fr1 val s) = (fst (k (plain w) None s), fr1 val (snd (k (plain w) None s)));
  kg_brk : forall w s l, Inv s -> fst (k (plain w) None s) = inr (XBreak l) -> (l < nextid s)%N
}.
(* the invariant implies the representation flag and is stable under frames *)
Definition inv_ok (Inv : sst -> Prop) : Prop :=
  (forall s, Inv s -> repsens s = rs) /\ (forall s val, Inv s -> Inv (fr1 val s)).

Lemma run_list_ok Inv k ws e s : K_ok Inv k -> Inv s -> Inv (snd (run_list k ws e s)).
Proof.
  intros Hk. revert s. induction ws as [|w r IH]; intros s Hs; cbn [run_list].
  - destruct e; exact Hs.
  - unfold bind. pose proof (kg_ok _ _ Hk w s Hs) as H1. destruct (k (plain w) None s) as [[[]|x] s1]; cbn in *.
    + apply IH. exact H1. + exact H1.
Qed.

Lemma run_list_nid Inv k ws e s : K_ok Inv k -> Inv s -> nextid (snd (run_list k ws e s)) = nextid s.
Proof.
  intros Hk. revert s. induction ws as [|w r IH]; intros s Hs; cbn [run_list].
  - destruct e; reflexivity.
  - unfold bind. pose proof (kg_ok _ _ Hk w s Hs) as H1. pose proof (kg_nid _ _ Hk w s Hs) as H2.
    destruct (k (plain w) None s) as [[[]|x] s1]; cbn in *.
    + rewrite IH by exact H1. exact H2. + exact H2.
Qed.

Lemma run_list_fr Inv k ws e s val : K_ok Inv k -> Inv s ->
  run_list k ws e (fr1 val s) = (fst (run_list k ws e s), fr1 val (snd (run_list k ws e s))).
Proof.
  intros Hk. revert s. induction ws as [|w r IH]; intros s Hs; cbn [run_list].
  - destruct e; reflexivity.
  - unfold bind. rewrite (kg_fr _ _ Hk w s val Hs). pose proof (kg_ok _ _ Hk w s Hs) as H1.
    destruct (k (plain w) None s) as [[[]|x] s1]; cbn [fst snd] in *.
    + apply IH. exact H1. + reflexivity.
Qed.

Lemma run_list_ext Inv k1 k2 ws e s : K_ok Inv k1 -> Inv s ->
  (forall w s', Inv s' -> k1 (plain w) None s' = k2 (plain w) None s') ->
  run_list k1 ws e s = run_list k2 ws e s.
Proof.
  intros Hk Hs He. revert s Hs. induction ws as [|w r IH]; intros s Hs; cbn [run_list]; [reflexivity|].
  unfold bind. rewrite <- (He w s Hs). pose proof (kg_ok _ _ Hk w s Hs) as H1.
  destruct (k1 (plain w) None s) as [[[]|x] s1]; [apply IH; exact H1|reflexivity].
Qed.

Lemma run_list_brk Inv k ws e s l : K_ok Inv k -> Inv s ->
  fst (run_list k ws e s) = inr (XBreak l) -> (l < nextid s)%N \/ e = Some (XBreak l).
Proof.
  intros Hk. revert s. induction ws as [|w r IH]; intros s Hs; cbn [run_list].
  - destruct e as [x|]; cbn; [|discriminate]. intros [= ->]. right. reflexivity.
  - unfold bind. pose proof (kg_ok _ _ Hk w s Hs) as H1. pose proof (kg_nid _ _ Hk w s Hs) as H2.
    pose proof (kg_brk _ _ Hk w s l Hs) as H3.
    destruct (k (plain w) None s) as [[[]|x] s1]; cbn [fst snd] in *.
    + intros E. destruct (IH s1 H1 E) as [Hl|He]; [left; lia|right; exact He].
    + intros E. left. apply H3. exact E.
Qed.

(* the breaks a result ends with are below the counter of every Inv-state *)
Definition brk_lt (Inv : sst -> Prop) (r : result) : Prop :=
  forall s l, Inv s -> snd r = Some (XBreak l) -> (l < nextid s)%N.

(* a continuation that is, on Inv-states, "run k over a list" is well-behaved when k is *)
Lemma K_ok_of_eq Inv k (K' : K) (F : jv -> result) : inv_ok Inv -> K_ok Inv k ->
  (forall w, brk_lt Inv (F w)) ->
  (forall w s, Inv s -> K' (plain w) None s = run_res k (F w) s) -> K_ok Inv K'.
Proof.
  intros [HI1 HI2] Hk Hb He. constructor.
  - intros w s Hs. rewrite He by exact Hs. apply (run_list_ok Inv); assumption.
  - intros w s Hs. rewrite He by exact Hs. apply (run_list_nid Inv); assumption.
  - intros w s val Hs. rewrite He by (apply HI2; exact Hs). rewrite He by exact Hs.
    apply (run_list_fr Inv); assumption.
  - intros w s l Hs. rewrite He by exact Hs. intros E.
    destruct (run_list_brk Inv k _ _ s l Hk Hs E) as [H|H]; [exact H|]. apply (Hb w s l Hs H).
Qed.

Hypothesis Hempty : lookup_builtin bs (codes "empty") 0 = None.
Hypothesis Herror : lookup_builtin bs (codes "error") 0 = None.
Hypothesis Hlength : lookup_builtin bs (codes "length") 0 = None.

Fixpoint vars_only (rho : env) : Prop :=
  match rho with
  | [] => True
  | BVar _ (_, None) :: r => vars_only r
  | BLabel _ _ :: r => vars_only r
  | _ => False
  end.

Lemma vars_only_fun rho name ar : vars_only rho -> lookup_fun rho name ar = None.
Proof. induction rho as [|b r IH]; [reflexivity|]. destruct b as [nm [x [i|]]| | |]; cbn; tauto. Qed.

Lemma vars_only_var rho x w : vars_only rho -> lookup_var rho x = Some w -> w = plain (fst w).
Proof.
  induction rho as [|b r IH]; [discriminate|]. destruct b as [nm [y [i|]]| | |]; cbn; try tauto.
  intros Hr. destruct (list_N_eqb nm x); [intros [= <-]; reflexivity|apply IH; exact Hr].
Qed.

Fixpoint ok0 (q : q0) : Prop :=
  match q with
  | Z0Pipe a b | Z0Comma a b => ok0 a /\ ok0 b
  | Z0Iter t | Z0Field t _ _ => ok0 t
  | Z0If c a b => ok0 c /\ ok0 a /\ ok0 b
  | Z0Try a h => ok0 a /\ match h with Some h => ok0 h | None => True end
  | Z0Bind src x body => is_var_name x = true /\ ok0 src /\ ok0 body
  | Z0Var x => is_var_name x = true /\ list_N_eqb x (codes "$ENV") = false
  | Z0Array q => ok0 q
  | Z0Reduce src x init upd => is_var_name x = true /\ ok0 src /\ ok0 init /\ ok0 upd
  | Z0Alt a b => ok0 a /\ ok0 b
  | Z0Foreach src x init upd ext => is_var_name x = true /\ ok0 src /\ ok0 init /\ ok0 upd /\ match ext with Some e => ok0 e | None => True end
  | Z0Label _ body => ok0 body
  | Z0Binop o a b => is_arith o = true /\ ok0 a /\ ok0 b
  | _ => True
  end.

Fixpoint need (q : q0) : nat :=
  match q with
  | Z0Pipe a b | Z0Comma a b => S (Nat.max (need a) (need b))
  | Z0Iter t | Z0Field t _ _ => 4 + need t
  | Z0If c a b => 3 + Nat.max (need c) (Nat.max (need a) (need b))
  | Z0Try a h => 3 + Nat.max (need a) (match h with Some h => need h | None => 0 end)
  | Z0Bind src x body => 3 + Nat.max (need src) (need body)
  | Z0Array q => 3 + need q
  | Z0Reduce src x init upd => 4 + Nat.max (need src) (Nat.max (need init) (need upd))
  | Z0Alt a b => 2 + Nat.max (need a) (need b)
  | Z0Foreach src x init upd ext => 4 + Nat.max (need src) (Nat.max (need init) (Nat.max (need upd) (match ext with Some e => need e | None => 0 end)))
  | Z0Label _ body => 3 + need body
  | Z0Binop _ a b => S (Nat.max (need a) (need b))
  | _ => 4
  end.

Definition sim (q : q0) : Prop :=
  forall (n : nat) rho v k s (Inv : sst -> Prop), (need q <= n)%nat -> vars_only rho ->
    inv_ok Inv -> K_ok Inv k -> (forall s', Inv s' -> (lab_bound rho <= nextid s')%N) -> Inv s ->
    eval_q bs n rho (emb q) (plain v) None k s = run_res k (den0 rs q rho v) s.

(* ---- the breaks a den0 result can end with are bound in the environment ---- *)
Definition brk_in (ids : list N) (r : result) : Prop := forall l, snd r = Some (XBreak l) -> In l ids.

Ltac trivb := let E := fresh "E" in intros ? E; cbn in E; congruence.

Lemma brk_in_rseq ids r k : brk_in ids r -> brk_in ids k -> brk_in ids (rseq r k).
Proof. destruct r as [ws [x|]]; cbn; intros Hr Hk; [exact Hr|exact Hk]. Qed.

Lemma brk_in_rbind ids r f : brk_in ids r -> (forall w, brk_in ids (f w)) -> brk_in ids (rbind r f).
Proof.
  intros Hr Hf. unfold rbind.
  assert (H : brk_in ids (rbind_list (fst r) f)).
  { induction (fst r) as [|w l IH]; [trivb|]. cbn. apply brk_in_rseq; [apply Hf|exact IH]. }
  destruct (rbind_list (fst r) f) as [os [x|]]; [exact H|]. exact Hr.
Qed.

Lemma reduce_fold0_brk ids upd : (forall w acc, brk_in ids (upd w acc)) ->
  forall ws acc l, reduce_fold0 upd ws acc = inr (XBreak l) -> In l ids.
Proof.
  intros Hu. induction ws as [|w r IH]; intros acc l E; cbn [reduce_fold0] in E; [discriminate|].
  specialize (Hu w acc). destruct (upd w acc) as [us [x|]]; [|eapply IH; exact E].
  injection E as ->. apply Hu. reflexivity.
Qed.

Lemma foreach_upd0_brk ids ext : (forall u, brk_in ids (ext u)) -> forall us acc, brk_in ids (fst (foreach_upd0 ext us acc)).
Proof.
  intros He. induction us as [|u r IH]; intros acc; cbn [foreach_upd0]; [trivb|].
  specialize (He u). destruct (ext u) as [os [x|]]; [exact He|].
  specialize (IH u). destruct (foreach_upd0 ext r u) as [[os' x] acc']. exact IH.
Qed.

Lemma foreach_fold0_brk ids upd ext : (forall w acc, brk_in ids (upd w acc)) -> (forall w u, brk_in ids (ext w u)) ->
  forall ws acc, brk_in ids (foreach_fold0 upd ext ws acc).
Proof.
  intros Hu He. induction ws as [|w r IH]; intros acc; cbn [foreach_fold0]; [trivb|].
  specialize (Hu w acc). destruct (upd w acc) as [us ux].
  pose proof (foreach_upd0_brk ids (ext w) (He w) us acc) as HF.
  destruct (foreach_upd0 (ext w) us acc) as [[os [x|]] acc']; [exact HF|].
  destruct ux as [x|]; [exact Hu|]. apply brk_in_rseq; [trivb|apply IH].
Qed.

Lemma lookup_label_in rho nm l : lookup_label rho nm = Some l -> In l (lab_ids rho).
Proof.
  induction rho as [|b r IH]; [discriminate|]. destruct b; cbn [lookup_label lab_ids]; try exact IH.
  destruct (list_N_eqb name nm); [intros [= ->]; left; reflexivity|intros H; right; apply IH; exact H].
Qed.

Lemma lab_ids_lt rho l : In l (lab_ids rho) -> (l < lab_bound rho)%N.
Proof.
  induction rho as [|b r IH]; [intros []|]. destruct b; cbn [lab_ids lab_bound]; try exact IH.
  intros [->|H]; [lia|]. specialize (IH H). lia.
Qed.

Fixpoint den0_brk (q : q0) : forall rho v, brk_in (lab_ids rho) (den0 rs q rho v).
Proof.
  destruct q; intros rho v; cbn [den0]; try trivb.
  - apply brk_in_rbind; [apply den0_brk|intros w; apply den0_brk].
  - apply brk_in_rseq; apply den0_brk.
  - apply brk_in_rbind; [apply den0_brk|intros w]. destruct w; trivb.
  - apply brk_in_rbind; [apply den0_brk|intros w]. destruct (fn_index2 w (VStr (c :: k))); trivb.
  - apply brk_in_rbind; [apply den0_brk|intros w]. destruct (truthy w); apply den0_brk.
  - pose proof (den0_brk q rho v) as IH. destruct (den0 rs q rho v) as [ws [[[|d] c val| | | | |]|]]; try exact IH.
    destruct h as [h|]; [|trivb].
    destruct val as [e|]; [|trivb].
    apply brk_in_rseq; [trivb|]. apply den0_brk.
  - destruct (fn_length v); trivb.
  - apply brk_in_rbind; [apply den0_brk|intros w]. apply (den0_brk q2 (bind_env rho x w) v).
  - destruct (lookup_var rho x); trivb.
  - pose proof (den0_brk q rho v) as IH. destruct (den0 rs q rho v) as [ws [x|]]; [|trivb].
    intros l E. cbn in E. apply IH. exact E.
  - apply brk_in_rbind; [apply den0_brk|intros s0].
    pose proof (den0_brk q1 rho v) as IHs. destruct (den0 rs q1 rho v) as [ws sx].
    destruct (reduce_fold0 _ ws s0) as [acc|e] eqn:ER.
    + destruct sx as [e|]; [|trivb]. intros l E. cbn in E. apply IHs. exact E.
    + intros l E. cbn in E. injection E as ->.
      eapply reduce_fold0_brk; [|exact ER]. intros w acc. apply (den0_brk q3 (BVar x (plain w) :: rho) acc).
  - pose proof (den0_brk q1 rho v) as IHa. destruct (den0 rs q1 rho v) as [ws [x|]].
    + intros l E. cbn in E. apply IHa. exact E.
    + destruct (filter truthy ws); [apply den0_brk|trivb].
  - apply brk_in_rbind; [apply den0_brk|intros s0].
    pose proof (den0_brk q1 rho v) as IHs. destruct (den0 rs q1 rho v) as [ws sx].
    apply brk_in_rseq; [|exact IHs].
    apply foreach_fold0_brk; [intros w acc; apply (den0_brk q3 (BVar x (plain w) :: rho) acc)|].
    intros w u. destruct ext as [e|]; [apply (den0_brk e (BVar x (plain w) :: rho) u)|trivb].
  - pose proof (den0_brk q (BLabel nm (lab_bound rho) :: rho) v) as IH. cbn [lab_ids] in IH.
    destruct (den0 rs q (BLabel nm (lab_bound rho) :: rho) v) as [ws [[d c val|l| | | |]|]]; cbn [label_res]; try trivb.
    destruct (N.eqb_spec l (lab_bound rho)) as [E|Hne]; [trivb|].
    intros l' E. cbn in E. injection E as <-. destruct (IH l eq_refl) as [H|H]; [congruence|exact H].
  - destruct (lookup_label rho nm) as [l|] eqn:E; [|trivb]. intros l' E'. cbn in E'. injection E' as <-.
    eapply lookup_label_in. exact E.
  - apply brk_in_rbind; [apply den0_brk|intros r]. apply brk_in_rbind; [apply den0_brk|intros l].
    unfold binop_res. destruct (op_binop o) as [f|]; [destruct (f l r)|]; trivb.
Qed.

Lemma brk_lt_of_in (Inv : sst -> Prop) ids r : (forall s l, Inv s -> In l ids -> (l < nextid s)%N) -> brk_in ids r -> brk_lt Inv r.
Proof. intros H Hb s l Hs E. apply (H s l Hs). apply Hb. exact E. Qed.

Lemma den0_brk_lt (Inv : sst -> Prop) q rho v : (forall s, Inv s -> (lab_bound rho <= nextid s)%N) -> brk_lt Inv (den0 rs q rho v).
Proof.
  intros H. apply (brk_lt_of_in Inv (lab_ids rho)); [|apply den0_brk].
  intros s l Hs Hl. specialize (H s Hs). apply lab_ids_lt in Hl. lia.
Qed.

Lemma in_lt (Inv : sst -> Prop) rho : (forall s, Inv s -> (lab_bound rho <= nextid s)%N) ->
  forall s l, Inv s -> In l (lab_ids rho) -> (l < nextid s)%N.
Proof. intros H s l Hs Hl. specialize (H s Hs). apply lab_ids_lt in Hl. lia. Qed.

Lemma brk_lt_none (Inv : sst -> Prop) r : (forall l, snd r <> Some (XBreak l)) -> brk_lt Inv r.
Proof. intros H s l _ E. exfalso. exact (H l E). Qed.

Lemma run_single k w s : run_res k ([w], None) s = k (plain w) None s.
Proof. unfold run_res. cbn [run_list fst snd]. unfold bind, ret. destruct (k (plain w) None s) as [[[]|x] s1]; reflexivity. Qed.

Ltac fuel2 n := do 2 (destruct n as [|n]; [cbn in *; lia|]).

Lemma sim_leaves : sim Z0Id /\ sim Z0Null /\ (forall b, sim (Z0Bool b)) /\ (forall t m, sim (Z0Num t m)) /\ (forall x, sim (Z0Str x)).
Proof.
  repeat split; intros; intros n rho v k s Inv Hn _ _ _ _ _; fuel2 n; cbn [den0]; rewrite run_single; try reflexivity.
  - destruct b; reflexivity.
  - destruct n as [|n]; [cbn in Hn; lia|]. reflexivity.
Qed.

Lemma sim_pipe a b : sim a -> sim b -> sim (Z0Pipe a b).
Proof.
  intros Ha Hb n rho v k s Inv Hn Hr HI Hk Hlt Hs. cbn [need] in Hn. destruct n as [|n]; [lia|].
  cbn [emb den0]. rewrite pipe_law.
  assert (HK : K_ok Inv (fun x ps' => eval_q bs n rho (emb b) x ps' k)).
  { apply (K_ok_of_eq Inv k _ (den0 rs b rho)); try assumption; [intros w; apply den0_brk_lt; assumption|].
    intros w s' Hs'. apply (Hb _ _ _ _ _ Inv); try assumption. lia. }
  rewrite (Ha _ _ _ _ _ Inv) by (try lia; assumption). unfold run_res at 1.
  rewrite (run_list_ext Inv _ (fun x _ => run_res k (den0 rs b rho (fst x)))); try assumption.
  - rewrite run_rbind. destruct (den0 rs a rho v); reflexivity.
  - intros w s' Hs'. apply (Hb _ _ _ _ _ Inv); try assumption. lia.
Qed.

Lemma sim_comma a b : sim a -> sim b -> sim (Z0Comma a b).
Proof.
  intros Ha Hb n rho v k s Inv Hn Hr HI Hk Hlt Hs. cbn [need] in Hn. destruct n as [|n]; [lia|].
  cbn [emb den0]. rewrite comma_law. unfold bind. rewrite (Ha _ _ _ _ _ Inv) by (try lia; assumption).
  pose proof (run_list_ok Inv k (fst (den0 rs a rho v)) (snd (den0 rs a rho v)) s Hk Hs) as Hs1.
  unfold run_res in *. destruct (den0 rs a rho v) as [ws [x|]]; cbn [fst snd rseq] in *.
  - rewrite <- (run_list_exn_absorbs k ws x (ret tt)). unfold bind.
    destruct (run_list k ws (Some x) s) as [[[]|y] s1] eqn:E; [|reflexivity].
    exfalso. clear -E. revert s E. induction ws as [|w r IH]; intros s E; cbn [run_list] in E; [discriminate|].
    unfold bind in E. destruct (k (plain w) None s) as [[[]|y] s2]; [eapply IH; exact E|discriminate].
  - rewrite run_list_app. unfold bind. destruct (run_list k ws None s) as [[[]|y] s1]; [|reflexivity].
    apply (Hb _ _ _ _ _ Inv); try assumption. lia.
Qed.

Lemma sim_empty : sim Z0Empty.
Proof.
  intros n rho v k s Inv Hn Hr HI _ _ _. cbn [need] in Hn. do 3 (destruct n as [|n]; [lia|]).
  cbn [emb den0]. unfold eval_q, q_call, q_term.
  cbn [evals_n step ev_q step_eval_q push_defs fold_left ev_t step_eval_t rev app ev_call].
  unfold step_call. cbn [List.length].
  replace (is_var_name (codes "empty") && Nat.eqb 0 0) with false by reflexivity.
  rewrite (vars_only_fun _ _ _ Hr), Hempty. reflexivity.
Qed.

Lemma sim_error : sim Z0Error.
Proof.
  intros n rho v k s Inv Hn Hr HI _ _ _. cbn [need] in Hn. do 3 (destruct n as [|n]; [lia|]).
  cbn [emb den0]. unfold eval_q, q_call, q_term.
  cbn [evals_n step ev_q step_eval_q push_defs fold_left ev_t step_eval_t rev app ev_call].
  unfold step_call. cbn [List.length].
  replace (is_var_name (codes "error") && Nat.eqb 0 0) with false by reflexivity.
  rewrite (vars_only_fun _ _ _ Hr), Herror. reflexivity.
Qed.

Lemma sim_length : sim Z0Length.
Proof.
  intros n rho v k s Inv Hn Hr HI _ _ Hs. cbn [need] in Hn. do 3 (destruct n as [|n]; [lia|]).
  cbn [emb den0]. unfold eval_q, q_call, q_term.
  cbn [evals_n step ev_q step_eval_q push_defs fold_left ev_t step_eval_t rev app ev_call].
  unfold step_call. cbn [List.length].
  replace (is_var_name (codes "length") && Nat.eqb 0 0) with false by reflexivity.
  rewrite (vars_only_fun _ _ _ Hr), Hlength.
  change (guard_repsens (codes "length") (fst (plain v))
            (lift (fn_length v) (fun w => k (plain w) None)) s = run_res k (of_nres rs (fn_length v)) s).
  unfold guard_repsens. replace (is_formatter (codes "length")) with false by reflexivity.
  destruct (fn_length v) as [w|c val|why]; cbn [lift of_nres].
  - rewrite run_single. reflexivity.
  - unfold raise_err, run_res, mask. cbn [run_list fst snd]. rewrite (proj1 HI _ Hs). reflexivity.
  - reflexivity.
Qed.

Lemma sim_var x : ok0 (Z0Var x) -> sim (Z0Var x).
Proof.
  intros [Hx Henv] n rho v k s Inv Hn Hr HI _ _ _. cbn [need] in Hn. do 3 (destruct n as [|n]; [lia|]).
  cbn [emb den0]. unfold eval_q, q_call, q_term.
  cbn [evals_n step ev_q step_eval_q push_defs fold_left ev_t step_eval_t rev app ev_call].
  unfold step_call. cbn [List.length]. rewrite Hx. cbn [andb Nat.eqb].
  destruct (lookup_var rho x) as [w|] eqn:E.
  - rewrite run_single. rewrite <- (vars_only_var _ _ _ Hr E). reflexivity.
  - change (list_N_eqb x nm_0) with (list_N_eqb x (codes "$ENV")). rewrite Henv. reflexivity.
Qed.

(* .[] outside path tracking *)
Lemma iterate_run k w s : repsens s = rs -> iterate (plain w) None k s = run_res k (iter_res rs w) s.
Proof.
  intros Hs. unfold iterate. cbn [fst plain].
  assert (Hel : forall (elems : list (jv * jv)) s,
    (fix go (l : list (jv * jv)) : M unit :=
       match l with
       | [] => ret tt
       | (key, e) :: r => k (plain e) None ;; go r
       end) elems s = run_list k (map snd elems) None s).
  { induction elems as [|[key e] r IH]; intros s0; [reflexivity|]. cbn [map snd run_list]. unfold bind.
    destruct (k (plain e) None s0) as [[[]|x] s1]; [apply IH|reflexivity]. }
  destruct w; try (unfold raise_err, run_res, iter_res, mask; cbn [run_list fst snd]; rewrite Hs; reflexivity).
  - unfold iter_res, run_res. cbn [fst snd]. rewrite Hel. f_equal.
    generalize 0%Z. induction l as [|e r IH]; intros z; [reflexivity|]. cbn. f_equal. apply IH.
  - unfold iter_res, run_res. cbn [fst snd]. rewrite Hel. rewrite map_map. reflexivity.
Qed.

Ltac fold_eval :=
  repeat match goal with
         | |- context [step_eval_q (evals_n bs ?m)] => change (step_eval_q (evals_n bs m)) with (eval_q bs (S m))
         | |- context [ev_q (step bs (evals_n bs ?m))] => change (ev_q (step bs (evals_n bs m))) with (eval_q bs (S m))
         | |- context [ev_q (evals_n bs ?m)] => change (ev_q (evals_n bs m)) with (eval_q bs m)
         end.

Lemma sim_iter t : sim t -> sim (Z0Iter t).
Proof.
  intros Ht n rho v k s Inv Hn Hr HI Hk Hlt Hs. cbn [need] in Hn. do 4 (destruct n as [|n]; [lia|]).
  cbn [emb den0]. unfold eval_q. cbn [evals_n step ev_q step_eval_q push_defs fold_left ev_t step_eval_t rev app].
  fold_eval.
  assert (HK : K_ok Inv (fun x ps' => iterate x ps' k)).
  { apply (K_ok_of_eq Inv k _ (iter_res rs)); try assumption; [intros w; apply brk_lt_none; intros l; destruct w; discriminate|].
    intros w s' Hs'. apply iterate_run. apply (proj1 HI). exact Hs'. }
  rewrite (Ht _ _ _ _ _ Inv) by (try lia; assumption). unfold run_res at 1.
  rewrite (run_list_ext Inv _ (fun x _ => run_res k (iter_res rs (fst x)))); try assumption.
  - rewrite run_rbind. destruct (den0 rs t rho v); reflexivity.
  - intros w s' Hs'. apply iterate_run. apply (proj1 HI). exact Hs'.
Qed.

Lemma index_run k w key s : repsens s = rs ->
  lift (fn_index2 w key) (fun r => nav None (plain w) key r k) s = run_res k (of_nres rs (fn_index2 w key)) s.
Proof.
  intros Hs. destruct (fn_index2 w key) as [r|c val|why]; cbn [lift of_nres nav].
  - rewrite run_single. reflexivity.
  - unfold raise_err, run_res, mask. cbn [run_list fst snd]. rewrite Hs. reflexivity.
  - reflexivity.
Qed.

Lemma sim_field t c key : sim t -> sim (Z0Field t c key).
Proof.
  intros Ht n rho v k s Inv Hn Hr HI Hk Hlt Hs. cbn [need] in Hn. do 4 (destruct n as [|n]; [lia|]).
  cbn [emb den0]. unfold eval_q. cbn [evals_n step ev_q step_eval_q push_defs fold_left ev_t step_eval_t rev app ev_index].
  unfold step_eval_index. cbn [index_key ev_t step step_eval_t rev app].
  fold_eval.
  assert (HK : K_ok Inv (fun x ps' => lift (fn_index2 (fst x) (VStr (c :: key))) (fun w => nav ps' x (VStr (c :: key)) w k))).
  { apply (K_ok_of_eq Inv k _ (fun w => of_nres rs (fn_index2 w (VStr (c :: key))))); try assumption;
      [intros w; apply brk_lt_none; intros l; destruct (fn_index2 w (VStr (c :: key))); discriminate|].
    intros w s' Hs'. apply index_run. apply (proj1 HI). exact Hs'. }
  rewrite (Ht _ _ _ _ _ Inv) by (try lia; assumption). unfold run_res at 1.
  rewrite (run_list_ext Inv _ (fun x _ => run_res k (of_nres rs (fn_index2 (fst x) (VStr (c :: key)))))); try assumption.
  - rewrite (run_rbind k (fun w => of_nres rs (fn_index2 w (VStr (c :: key))))). destruct (den0 rs t rho v); reflexivity.
  - intros w s' Hs'. apply index_run. apply (proj1 HI). exact Hs'.
Qed.

Lemma sim_if c a b : sim c -> sim a -> sim b -> sim (Z0If c a b).
Proof.
  intros Hc Ha Hb n rho v k s Inv Hn Hr HI Hk Hlt Hs. cbn [need] in Hn. do 3 (destruct n as [|n]; [lia|]).
  cbn [emb den0]. unfold eval_q, q_term. cbn [evals_n step ev_q step_eval_q push_defs fold_left ev_t step_eval_t rev app if_chain].
  fold_eval.
  set (K' := fun (x : tv) (_ : pst) => if truthy (fst x) then eval_q bs (S n) rho (emb a) (plain v) None k
                                       else eval_q bs (S n) rho (emb b) (plain v) None k).
  assert (HK : K_ok Inv K').
  { apply (K_ok_of_eq Inv k _ (fun w => if truthy w then den0 rs a rho v else den0 rs b rho v)); try assumption;
      [intros w; destruct (truthy w); apply den0_brk_lt; assumption|].
    intros w s' Hs'. unfold K'. cbn [fst plain]. destruct (truthy w); [apply (Ha _ _ _ _ _ Inv)|apply (Hb _ _ _ _ _ Inv)]; try assumption; lia. }
  change (eval_q bs (S n) rho (emb c) (plain v) None K' s = run_res k (rbind (den0 rs c rho v) (fun w => if truthy w then den0 rs a rho v else den0 rs b rho v)) s).
  rewrite (Hc _ _ _ _ _ Inv) by (try lia; assumption). unfold run_res at 1.
  rewrite (run_list_ext Inv _ (fun x _ => run_res k ((fun w => if truthy w then den0 rs a rho v else den0 rs b rho v) (fst x)))); try assumption.
  - rewrite (run_rbind k (fun w => if truthy w then den0 rs a rho v else den0 rs b rho v)). destruct (den0 rs c rho v); reflexivity.
  - intros w s' Hs'. unfold K'. cbn [fst plain]. destruct (truthy w); [apply (Ha _ _ _ _ _ Inv)|apply (Hb _ _ _ _ _ Inv)]; try assumption; lia.
Qed.

(* errors in results of den0 are raised at depth 0 *)
Definition depth0 (r : result) : Prop := forall d c val, snd r = Some (XErr d c val) -> d = O.

Lemma depth0_rseq r k : depth0 r -> depth0 k -> depth0 (rseq r k).
Proof. destruct r as [ws [x|]]; cbn; intros Hr Hk; [exact Hr|exact Hk]. Qed.

Lemma depth0_rbind r f : depth0 r -> (forall w, depth0 (f w)) -> depth0 (rbind r f).
Proof.
  intros Hr Hf. unfold rbind.
  assert (H : depth0 (rbind_list (fst r) f) ).
  { induction (fst r) as [|w l IH]; [intros d c val E; discriminate|]. cbn. apply depth0_rseq; [apply Hf|exact IH]. }
  destruct (rbind_list (fst r) f) as [os [x|]]; [exact H|]. exact Hr.
Qed.

Lemma reduce_fold0_depth0 upd : (forall w acc, depth0 (upd w acc)) ->
  forall ws acc d c val, reduce_fold0 upd ws acc = inr (XErr d c val) -> d = O.
Proof.
  intros Hu. induction ws as [|w r IH]; intros acc d c val E; cbn [reduce_fold0] in E; [discriminate|].
  specialize (Hu w acc). destruct (upd w acc) as [us [x|]]; [|eapply IH; exact E].
  injection E as ->. eapply Hu. reflexivity.
Qed.

Lemma foreach_upd0_depth0 ext : (forall u, depth0 (ext u)) -> forall us acc, depth0 (fst (foreach_upd0 ext us acc)).
Proof.
  intros He. induction us as [|u r IH]; intros acc; cbn [foreach_upd0]; [intros d c val E; discriminate|].
  specialize (He u). destruct (ext u) as [os [x|]]; [exact He|].
  specialize (IH u). destruct (foreach_upd0 ext r u) as [[os' x] acc']. exact IH.
Qed.

Lemma foreach_fold0_depth0 upd ext : (forall w acc, depth0 (upd w acc)) -> (forall w u, depth0 (ext w u)) ->
  forall ws acc, depth0 (foreach_fold0 upd ext ws acc).
Proof.
  intros Hu He. induction ws as [|w r IH]; intros acc; cbn [foreach_fold0]; [intros d c val E; discriminate|].
  specialize (Hu w acc). destruct (upd w acc) as [us ux].
  pose proof (foreach_upd0_depth0 (ext w) (He w) us acc) as HF.
  destruct (foreach_upd0 (ext w) us acc) as [[os [x|]] acc']; [exact HF|].
  destruct ux as [x|]; [exact Hu|]. apply depth0_rseq; [intros d c val E; discriminate|apply IH].
Qed.

Ltac triv0 := let E := fresh "E" in intros ? ? ? E; cbn in E; congruence.

Fixpoint den0_depth0 (q : q0) : forall rho v, depth0 (den0 rs q rho v).
Proof.
  destruct q; intros rho v; cbn [den0]; try triv0.
  - apply depth0_rbind; [apply den0_depth0|intros w; apply den0_depth0].
  - apply depth0_rseq; apply den0_depth0.
  - apply depth0_rbind; [apply den0_depth0|intros w]. destruct w; triv0.
  - apply depth0_rbind; [apply den0_depth0|intros w]. destruct (fn_index2 w (VStr (c :: k))); triv0.
  - apply depth0_rbind; [apply den0_depth0|intros w]. destruct (truthy w); apply den0_depth0.
  - pose proof (den0_depth0 q rho v) as IH. destruct (den0 rs q rho v) as [ws [[d c val| | | | |]|]]; try exact IH.
    assert (d = O) by (eapply IH; reflexivity). subst d.
    destruct h as [h|]; [|triv0].
    destruct val as [e|]; [|triv0].
    apply depth0_rseq; [triv0|]. apply den0_depth0.
  - destruct (fn_length v); triv0.
  - apply depth0_rbind; [apply den0_depth0|intros w; apply den0_depth0].
  - destruct (lookup_var rho x); triv0.
  - pose proof (den0_depth0 q rho v) as IH. destruct (den0 rs q rho v) as [ws [x|]]; [|triv0].
    intros d c val E. cbn in E. eapply IH. exact E.
  - apply depth0_rbind; [apply den0_depth0|intros s0].
    pose proof (den0_depth0 q1 rho v) as IHs. destruct (den0 rs q1 rho v) as [ws sx].
    destruct (reduce_fold0 _ ws s0) as [acc|e] eqn:ER.
    + destruct sx as [e|]; [|triv0]. intros d c val E. cbn in E. eapply IHs. exact E.
    + intros d c val E. cbn in E. injection E as ->.
      eapply reduce_fold0_depth0; [|exact ER]. intros w acc. apply den0_depth0.
  - pose proof (den0_depth0 q1 rho v) as IHa. destruct (den0 rs q1 rho v) as [ws [x|]].
    + intros d c val E. cbn in E. eapply IHa. exact E.
    + destruct (filter truthy ws); [apply den0_depth0|triv0].
  - apply depth0_rbind; [apply den0_depth0|intros s0].
    pose proof (den0_depth0 q1 rho v) as IHs. destruct (den0 rs q1 rho v) as [ws sx].
    apply depth0_rseq; [|exact IHs].
    apply foreach_fold0_depth0; [intros w acc; apply den0_depth0|].
    intros w u. destruct ext as [e|]; [apply den0_depth0|triv0].
  - pose proof (den0_depth0 q (BLabel nm (lab_bound rho) :: rho) v) as IH.
    destruct (den0 rs q (BLabel nm (lab_bound rho) :: rho) v) as [ws [[d c val|l| | | |]|]]; cbn [label_res]; try exact IH.
    destruct (l =? lab_bound rho)%N; [triv0|exact IH].
  - destruct (lookup_label rho nm); triv0.
  - apply depth0_rbind; [apply den0_depth0|intros r]. apply depth0_rbind; [apply den0_depth0|intros l].
    unfold binop_res. destruct (op_binop o) as [f|]; [destruct (f l r)|]; triv0.
Qed.

Lemma sim_try a h : sim a -> match h with Some h => sim h | None => True end -> sim (Z0Try a h).
Proof.
  intros Ha Hh n rho v k s Inv Hn Hr HI Hk Hlt Hs. cbn [need] in Hn. do 3 (destruct n as [|n]; [lia|]).
  cbn [emb]. unfold eval_q, q_term. cbn [evals_n step ev_q step_eval_q push_defs fold_left ev_t step_eval_t rev app].
  fold_eval.
  assert (HK : K_ok Inv (fun y ps' => down (k y ps'))).
  { constructor.
    - intros w s' Hs'. unfold down. pose proof (kg_ok _ _ Hk w s' Hs') as H1. destruct (k (plain w) None s') as [[[]|[]] s1]; exact H1.
    - intros w s' Hs'. unfold down. pose proof (kg_nid _ _ Hk w s' Hs') as H1. destruct (k (plain w) None s') as [[[]|[]] s1]; exact H1.
    - intros w s' val Hs'. unfold down. rewrite (kg_fr _ _ Hk w s' val Hs'). destruct (k (plain w) None s') as [[[]|[]] s1]; reflexivity.
    - intros w s' l Hs'. unfold down. pose proof (kg_brk _ _ Hk w s' l Hs') as H1.
      destruct (k (plain w) None s') as [[[]|[]] s1]; cbn [fst] in *; try discriminate; exact H1. }
  unfold try_catch at 1.
  rewrite (Ha _ _ _ _ _ Inv) by (try lia; assumption).
  change (try_catch (run_res (fun y ps' => down (k y ps')) (den0 rs a rho v))
            (fun val => match option_map emb h with
                        | None => ret tt
                        | Some hq => match val with
                                     | Some e => eval_q bs (S n) rho hq (plain e) None k
                                     | None => skipM "error-message"
                                     end
                        end) s = run_res k (den0 rs (Z0Try a h) rho v) s).
  unfold run_res at 1. rewrite run_try. cbn [den0].
  pose proof (den0_depth0 a rho v) as Hd.
  pose proof (run_list_ok Inv k (fst (den0 rs a rho v)) None s Hk Hs) as Hs1.
  destruct (den0 rs a rho v) as [ws [[d c val| | | | |]|]]; cbn [fst snd] in *;
    try (unfold run_res; cbn [fst snd]; rewrite run_list_raise; reflexivity).
  - assert (d = O) by (eapply Hd; reflexivity). subst d.
    destruct h as [hq|]; cbn [option_map].
    + destruct val as [e|].
      * unfold run_res. cbn [rseq fst snd]. rewrite run_list_app. unfold bind.
        destruct (run_list k ws None s) as [[[]|y] s1]; [|reflexivity]. apply (Hh _ _ _ _ _ Inv); try assumption. lia.
      * unfold run_res. cbn [fst snd]. rewrite run_list_raise. reflexivity.
    + unfold run_res. cbn [fst snd]. unfold bind, ret. destruct (run_list k ws None s) as [[[]|y] s1]; reflexivity.
  - unfold run_res. cbn [fst snd]. unfold bind, ret. destruct (run_list k ws None s) as [[[]|y] s1]; reflexivity.
Qed.

(* ---- constructs with a cell: [q] and reduce (with_cell restores the state on exit) ---- *)

Definition coll (c : N) : K :=
  fun x _ => a <- get_cell c ;;
             match fst a with
             | VArr l => set_cell c (plain (VArr (fst x :: l)))
             | _ => skipM "cell"
             end.

Lemma set_cells_twice s a b : set_cells (set_cells s a) b = set_cells s b.
Proof. reflexivity. Qed.

Lemma coll_step c cs w acc s0 : cells s0 = (c, plain (VArr acc)) :: cs ->
  coll c (plain w) None s0 = (inl tt, set_cells s0 ((c, plain (VArr (w :: acc))) :: cs)).
Proof.
  intros Hc. unfold coll, bind, get_cell. rewrite Hc. cbn [cell_lookup]. rewrite N.eqb_refl. cbn [fst plain].
  unfold set_cell. rewrite Hc. cbn [cell_update]. rewrite N.eqb_refl. reflexivity.
Qed.

Lemma coll_run c cs ws e : forall acc s0, cells s0 = (c, plain (VArr acc)) :: cs ->
  run_list (coll c) ws e s0 =
  (match e with None => inl tt | Some x => inr x end, set_cells s0 ((c, plain (VArr (rev ws ++ acc))) :: cs)).
Proof.
  induction ws as [|w r IH]; intros acc s0 Hc; cbn [run_list].
  - cbn [rev app]. rewrite <- Hc. destruct s0; destruct e; reflexivity.
  - unfold bind. rewrite (coll_step c cs w acc s0 Hc).
    rewrite (IH (w :: acc) (set_cells s0 ((c, plain (VArr (w :: acc))) :: cs)) eq_refl).
    rewrite set_cells_twice. cbn [rev]. rewrite <- app_assoc. reflexivity.
Qed.

(* collectors and setters of a cell c are well-behaved on states where c is an allocated id *)
Definition inv_c (c : N) (s : sst) : Prop := repsens s = rs /\ (c < nextid s)%N.

Lemma inv_c_ok c : inv_ok (inv_c c).
Proof. split; [intros s [H _]; exact H|]. intros s val [H1 H2]. split; [exact H1|]. cbn [fr1 nextid]. lia. Qed.

Lemma coll_ok c : K_ok (inv_c c) (coll c).
Proof.
  constructor.
  - intros w s [H1 H2]. unfold coll, bind, get_cell. destruct (cell_lookup (cells s) c) as [[a i]|]; [|split; assumption].
    cbn [fst]. destruct a; split; assumption.
  - intros w s _. unfold coll, bind, get_cell. destruct (cell_lookup (cells s) c) as [[a i]|]; [|reflexivity].
    cbn [fst]. destruct a; reflexivity.
  - intros w s val [H1 H2]. unfold coll, bind, get_cell. cbn [fr1 cells cell_lookup].
    destruct (N.eqb_spec (nextid s) c) as [E|_]; [lia|].
    destruct (cell_lookup (cells s) c) as [[a i]|]; [|reflexivity].
    cbn [fst]. destruct a; try reflexivity.
    unfold set_cell, set_cells. cbn [fr1 cells cell_update outs nout cap nextid inputs repsens steps fst snd].
    destruct (N.eqb_spec (nextid s) c) as [E|_]; [lia|]. reflexivity.
  - intros w s l _. unfold coll, bind, get_cell. destruct (cell_lookup (cells s) c) as [[a i]|]; [|discriminate].
    cbn [fst]. destruct a; discriminate.
Qed.

Lemma sim_array q : sim q -> sim (Z0Array q).
Proof.
  intros Hq n rho v k s Inv Hn Hr HI Hk Hlt Hs. cbn [need] in Hn. do 3 (destruct n as [|n]; [lia|]).
  cbn [emb den0]. unfold eval_q, q_term. cbn [evals_n step ev_q step_eval_q push_defs fold_left ev_t step_eval_t rev app scoped_ids].
  fold_eval. unfold with_cell.
  change (fun (x : tv) (_ : pst) => a <- get_cell (nextid s);; match fst a with
            | VArr l => set_cell (nextid s) (plain (VArr (fst x :: l))) | _ => skipM "cell" end) with (coll (nextid s)).
  set (st := mkst (outs s) (nout s) (cap s) (nextid s + 1)%N (inputs s) ((nextid s, plain (VArr [])) :: cells s) (repsens s) (steps s)).
  rewrite (Hq _ _ _ _ _ (inv_c (nextid s))); [|lia|assumption|apply inv_c_ok|apply coll_ok|intros s1 [_ H1]; specialize (Hlt s Hs); lia|split; [exact (proj1 HI _ Hs)|subst st; cbn [nextid]; lia]].
  unfold run_res. rewrite (coll_run (nextid s) (cells s) (fst (den0 rs q rho v)) (snd (den0 rs q rho v)) [] st eq_refl).
  subst st.
  destruct (den0 rs q rho v) as [ws [x|]]; cbn [fst snd set_cells cells cell_lookup cell_remove outs nout cap nextid inputs repsens steps].
  - rewrite N.eqb_refl. destruct s; reflexivity.
  - rewrite !N.eqb_refl. cbn [fst plain]. rewrite app_nil_r. unfold rev'. rewrite <- rev_alt, rev_involutive.
    change (run_list k [VArr ws] None s) with (run_res k ([VArr ws], None) s). rewrite run_single. destruct s; reflexivity.
Qed.

Definition setter (c : N) : K := fun u _ => set_cell c u.

Lemma last_cons {A} (u : A) r acc : last (u :: r) acc = last r u.
Proof. revert u. induction r as [|a r IH]; intros u; [reflexivity|]. cbn [last] in *. destruct r; [reflexivity|apply IH]. Qed.

Lemma setter_run c cs us e : forall acc s1, cells s1 = (c, plain acc) :: cs ->
  run_list (setter c) us e s1 =
  (match e with None => inl tt | Some x => inr x end, set_cells s1 ((c, plain (last us acc)) :: cs)).
Proof.
  induction us as [|u r IH]; intros acc s1 Hc; cbn [run_list].
  - cbn [last]. rewrite <- Hc. destruct s1; destruct e; reflexivity.
  - unfold bind, setter at 1, set_cell. rewrite Hc. cbn [cell_update]. rewrite N.eqb_refl.
    rewrite (IH u (set_cells s1 ((c, plain u) :: cs)) eq_refl). rewrite set_cells_twice, last_cons. reflexivity.
Qed.

Lemma setter_ok c : K_ok (inv_c c) (setter c).
Proof.
  constructor.
  - intros w s H. exact H.
  - intros w s _. reflexivity.
  - intros w s val [H1 H2]. unfold setter, set_cell, set_cells.
    cbn [fr1 cells cell_update outs nout cap nextid inputs repsens steps fst snd].
    destruct (N.eqb_spec (nextid s) c) as [E|_]; [lia|]. reflexivity.
  - intros w s l _. discriminate.
Qed.

Lemma cell_lookup_update cs c v u : cell_lookup cs c = Some v -> cell_lookup (cell_update cs c u) c = Some u.
Proof.
  induction cs as [|[i w] r IH]; [discriminate|]. cbn [cell_lookup cell_update].
  destruct (N.eqb_spec i c) as [->|Hne]; cbn [cell_lookup].
  - intros _. rewrite N.eqb_refl. reflexivity.
  - intros H. destruct (N.eqb_spec i c); [contradiction|]. apply IH. exact H.
Qed.

(* the cell c holds a plain value: kept by any run of its setter *)
Definition holds (c : N) (s : sst) : Prop := exists a, cell_lookup (cells s) c = Some (plain a).

Lemma setter_holds c us e : forall s, holds c s -> holds c (snd (run_list (setter c) us e s)).
Proof.
  induction us as [|u r IH]; intros s H; cbn [run_list].
  - destruct e; exact H.
  - unfold bind, setter at 1, set_cell. cbn [fst snd]. apply IH. destruct H as [a Ha]. exists u.
    cbn [set_cells cells]. eapply cell_lookup_update. exact Ha.
Qed.

Lemma sim_reduce src x init upd : is_var_name x = true -> sim src -> sim init -> sim upd -> sim (Z0Reduce src x init upd).
Proof.
  intros Hx Hsrc Hinit Hupd n rho v k s Inv Hn Hr HI Hk Hlt Hs. cbn [need] in Hn. do 4 (destruct n as [|n]; [lia|]).
  destruct x as [|cx x]; [discriminate Hx|].
  cbn [emb]. unfold eval_q, q_term. cbn [evals_n step ev_q step_eval_q push_defs fold_left ev_t step_eval_t rev app].
  fold_eval.
  set (upd0 := fun w acc => den0 rs upd (BVar (cx :: x) (plain w) :: rho) acc).
  set (Kitem := fun (c : N) (item : tv) (ps1 : pst) =>
         ev_bindpat (step bs (step bs (evals_n bs n))) rho (Pattern (cx :: x) [] []) item ps1
           (fun rho' ps2 => cur <- get_cell c ;; eval_q bs (S (S n)) rho' (emb upd) cur ps2 (fun u _ => set_cell c u))).
  set (F := fun s0 : jv =>
         let '(ws, sx) := den0 rs src rho v in
         match reduce_fold0 upd0 ws s0 with
         | inr e => ([], Some e)
         | inl acc => match sx with Some e => ([], Some e) | None => ([acc], None) end
         end).
  pose (InvC := fun (c : N) (s1 : sst) => inv_c c s1 /\ holds c s1).
  (* one item *)
  (* one item, wherever the cell sits *)
  assert (Hitem0 : forall c w acc s1, (lab_bound rho <= c)%N -> inv_c c s1 -> cell_lookup (cells s1) c = Some (plain acc) ->
            Kitem c (plain w) None s1 = run_res (setter c) (upd0 w acc) s1).
  { intros c w acc s1 Hc0 Hs1 Hc. unfold Kitem. cbn [ev_bindpat step step_bind_pat].
    unfold bind, get_cell. rewrite Hc.
    change (fun (u : tv) (_ : pst) => set_cell c u) with (setter c).
    apply (Hupd _ _ _ _ _ (inv_c c)); [lia|exact Hr|apply inv_c_ok|apply setter_ok|intros s2 [_ H2]; cbn [lab_bound]; lia|exact Hs1]. }
  (* one item, the cell on top *)
  assert (Hitem : forall c cs w acc s1, (lab_bound rho <= c)%N -> cells s1 = (c, plain acc) :: cs -> inv_c c s1 ->
            Kitem c (plain w) None s1 =
            (match snd (upd0 w acc) with None => inl tt | Some e => inr e end,
             set_cells s1 ((c, plain (last (fst (upd0 w acc)) acc)) :: cs))).
  { intros c cs w acc s1 Hc0 Hc Hs1. rewrite (Hitem0 c w acc s1 Hc0 Hs1) by (rewrite Hc; cbn [cell_lookup]; rewrite N.eqb_refl; reflexivity).
    unfold run_res. apply (setter_run c cs _ _ acc s1 Hc). }
  assert (HInvC : forall c, inv_ok (InvC c)).
  { intros c. split; [intros s0 [[H0 _] _]; exact H0|]. intros s0 val [H0 [a Ha]]. split; [apply (proj2 (inv_c_ok c)); exact H0|].
    exists a. cbn [fr1 cells cell_lookup]. destruct H0 as [_ H0]. destruct (N.eqb_spec (nextid s0) c); [lia|exact Ha]. }
  assert (HKitem : forall c, (lab_bound rho <= c)%N -> K_ok (InvC c) (Kitem c)).
  { intros c Hc0. constructor.
    - intros w s1 [Hs1 [acc Hc]]. rewrite (Hitem0 c w acc s1 Hc0 Hs1 Hc). split.
      + apply (run_list_ok (inv_c c)); [apply setter_ok|exact Hs1].
      + apply setter_holds. exists acc. exact Hc.
    - intros w s1 [Hs1 [acc Hc]]. rewrite (Hitem0 c w acc s1 Hc0 Hs1 Hc). apply (run_list_nid (inv_c c)); [apply setter_ok|exact Hs1].
    - intros w s1 val [Hs1 [acc Hc]].
      rewrite (Hitem0 c w acc (fr1 val s1) Hc0).
      + rewrite (Hitem0 c w acc s1 Hc0 Hs1 Hc). apply (run_list_fr (inv_c c)); [apply setter_ok|exact Hs1].
      + apply (proj2 (inv_c_ok c)). exact Hs1.
      + cbn [fr1 cells cell_lookup]. destruct Hs1 as [_ Hlt1]. destruct (N.eqb_spec (nextid s1) c); [lia|exact Hc].
    - intros w s1 l [Hs1 [acc Hc]]. rewrite (Hitem0 c w acc s1 Hc0 Hs1 Hc). intros E.
      destruct (run_list_brk (inv_c c) (setter c) _ _ s1 l (setter_ok c) Hs1 E) as [H|H]; [exact H|].
      pose proof (den0_brk upd (BVar (cx :: x) (plain w) :: rho) acc l H) as Hin. cbn [lab_ids] in Hin.
      apply lab_ids_lt in Hin. destruct Hs1 as [_ Hlt1]. lia. }
  (* all items *)
  assert (Hitems : forall c cs ws sx acc s1, (lab_bound rho <= c)%N -> cells s1 = (c, plain acc) :: cs -> inv_c c s1 ->
            exists a', run_list (Kitem c) ws sx s1 =
            (match reduce_fold0 upd0 ws acc with
             | inr e => inr e
             | inl _ => match sx with None => inl tt | Some e => inr e end
             end, set_cells s1 ((c, plain a') :: cs)) /\
            (forall r, reduce_fold0 upd0 ws acc = inl r -> a' = r)).
  { intros c cs ws sx. induction ws as [|w r IH]; intros acc s1 Hc0 Hc Hs1; cbn [run_list reduce_fold0].
    - exists acc. split; [rewrite <- Hc; destruct s1; destruct sx; reflexivity|]. intros r [= <-]. reflexivity.
    - unfold bind. rewrite (Hitem c cs w acc s1 Hc0 Hc Hs1).
      destruct (upd0 w acc) as [us [e|]]; cbn [fst snd].
      + exists (last us acc). split; [reflexivity|]. intros r0 E; discriminate.
      + destruct (IH (last us acc) (set_cells s1 ((c, plain (last us acc)) :: cs)) Hc0 eq_refl Hs1) as [a' [E1 E2]].
        exists a'. rewrite E1, set_cells_twice. split; [reflexivity|exact E2]. }
  (* the continuation of init *)
  set (K' := fun (s0 : tv) (ps0 : pst) =>
         with_cell (scoped_ids ps0) s0 (fun c => eval_q bs (S (S n)) rho (emb src) (plain v) ps0 (Kitem c)) (fun res => k res ps0)).
  assert (HK' : forall w0 s', Inv s' -> K' (plain w0) None s' = run_res k (F w0) s').
  { intros w0 s' Hs'. unfold K', with_cell. cbn [scoped_ids].
    set (st := mkst (outs s') (nout s') (cap s') (nextid s' + 1)%N (inputs s') ((nextid s', plain w0) :: cells s') (repsens s') (steps s')).
    assert (Hst : inv_c (nextid s') st) by (split; [exact (proj1 HI _ Hs')|subst st; cbn [nextid]; lia]).
    rewrite (Hsrc _ _ _ _ _ (InvC (nextid s'))); [|lia|exact Hr|apply HInvC|apply HKitem; apply Hlt; exact Hs'|intros s2 [[_ H2] _]; specialize (Hlt s' Hs'); lia|split; [exact Hst|exists w0; subst st; cbn [cells cell_lookup]; rewrite N.eqb_refl; reflexivity]].
    unfold run_res.
    destruct (Hitems (nextid s') (cells s') (fst (den0 rs src rho v)) (snd (den0 rs src rho v)) w0 st (Hlt s' Hs') eq_refl Hst) as [a' [E1 E2]].
    rewrite E1. unfold F. destruct (den0 rs src rho v) as [ws sx]. cbn [fst snd] in *.
    destruct (reduce_fold0 upd0 ws w0) as [acc|e] eqn:ER.
    - specialize (E2 acc eq_refl). subst a'. destruct sx as [e|];
        cbn [set_cells cells cell_lookup cell_remove outs nout cap nextid inputs repsens steps]; rewrite ?N.eqb_refl.
      + subst st. destruct s'; reflexivity.
      + change (run_list k (fst ([acc], None)) (snd ([acc], None)) s') with (run_res k ([acc], None) s'). rewrite run_single. subst st. destruct s'; reflexivity.
    - cbn [set_cells cells cell_remove outs nout cap nextid inputs repsens steps]. rewrite N.eqb_refl. subst st. destruct s'; reflexivity. }
  assert (HFb : forall w0, brk_lt Inv (F w0)).
  { intros w0. apply (brk_lt_of_in Inv (lab_ids rho)); [apply in_lt; exact Hlt|]. unfold F.
    pose proof (den0_brk src rho v) as IHs. destruct (den0 rs src rho v) as [ws sx].
    destruct (reduce_fold0 upd0 ws w0) as [acc|e] eqn:ER.
    - destruct sx as [e|]; [|trivb]. intros l E. cbn in E. apply IHs. exact E.
    - intros l E. cbn in E. injection E as ->.
      eapply reduce_fold0_brk; [|exact ER]. intros w acc. apply (den0_brk upd (BVar (cx :: x) (plain w) :: rho) acc). }
  assert (HKok : K_ok Inv K') by (apply (K_ok_of_eq Inv k K' F); assumption).
  change (eval_q bs (S (S n)) rho (emb init) (plain v) None K' s = run_res k (den0 rs (Z0Reduce src (cx :: x) init upd) rho v) s).
  rewrite (Hinit _ _ _ _ _ Inv) by (try lia; assumption). unfold run_res at 1.
  rewrite (run_list_ext Inv _ (fun x0 _ => run_res k (F (fst x0)))); try assumption.
  rewrite (run_rbind k F). cbn [den0]. destruct (den0 rs init rho v); reflexivity.
Qed.

(* ---- a // b : the consumer runs while the `found` cell is live (a frame) ---- *)

Fixpoint frames (fs : list tv) (s : sst) : sst :=
  match fs with
  | [] => s
  | f :: r => fr1 f (frames r s)
  end.

Lemma frames_repsens fs s : repsens (frames fs s) = repsens s.
Proof. induction fs; [reflexivity|exact IHfs]. Qed.

Lemma frames_nextid_le fs s : (nextid s <= nextid (frames fs s))%N.
Proof. induction fs as [|f r IH]; cbn [frames fr1 nextid]; lia. Qed.

Lemma frames_inv Inv fs s : inv_ok Inv -> Inv s -> Inv (frames fs s).
Proof. intros [_ H2] Hs. induction fs as [|f r IH]; [exact Hs|]. apply H2. exact IH. Qed.

Lemma k_frames Inv k w fs s : inv_ok Inv -> K_ok Inv k -> Inv s ->
  k (plain w) None (frames fs s) = (fst (k (plain w) None s), frames fs (snd (k (plain w) None s))).
Proof.
  intros HI Hk Hs. induction fs as [|f r IH]; cbn [frames].
  - destruct (k (plain w) None s); reflexivity.
  - rewrite (kg_fr _ _ Hk w (frames r s) f) by (apply frames_inv; assumption). rewrite IH. reflexivity.
Qed.

Lemma set_cell_frames u fs b s0 :
  set_cell (nextid s0) u (frames fs (fr1 b s0)) = (inl tt, frames fs (fr1 u s0)).
Proof.
  unfold set_cell. f_equal.
  induction fs as [|f r IH]; cbn [frames].
  - unfold set_cells. cbn [fr1 cells cell_update outs nout cap nextid inputs repsens steps]. rewrite N.eqb_refl. reflexivity.
  - rewrite <- IH. unfold set_cells. cbn [fr1 cells cell_update outs nout cap nextid inputs repsens steps].
    assert (Hne : (nextid (frames r (fr1 b s0)) =? nextid s0)%N = false).
    { apply N.eqb_neq. pose proof (frames_nextid_le r (fr1 b s0)) as H. cbn [fr1 nextid] in H. lia. }
    rewrite Hne. reflexivity.
Qed.

Definition K1 (k : K) (c : N) : K :=
  fun x ps' => if truthy (fst x) then set_cell c (plain VTrue) ;; k x ps' else ret tt.

Definition inv_alt (Inv : sst -> Prop) (c : N) (s1 : sst) : Prop :=
  exists fs b s0, Inv s0 /\ nextid s0 = c /\ s1 = frames fs (fr1 (plain (VBool b)) s0).

Lemma frames_nextid fs X s : nextid (frames fs (fr1 X s)) = (nextid s + 1 + N.of_nat (List.length fs))%N.
Proof. induction fs as [|f r IH]; cbn [frames fr1 nextid List.length]; [lia|]. rewrite IH. lia. Qed.

Lemma K1_step Inv k w fs b s0 : inv_ok Inv -> K_ok Inv k -> Inv s0 ->
  K1 k (nextid s0) (plain w) None (frames fs (fr1 (plain (VBool b)) s0)) =
  if truthy w then (fst (k (plain w) None s0), frames fs (fr1 (plain VTrue) (snd (k (plain w) None s0))))
  else (inl tt, frames fs (fr1 (plain (VBool b)) s0)).
Proof.
  intros HI Hk Hs. unfold K1. cbn [fst plain]. destruct (truthy w); [|reflexivity].
  unfold bind. rewrite set_cell_frames.
  rewrite (k_frames Inv k w fs (fr1 (plain VTrue) s0) HI Hk) by (apply (proj2 HI); exact Hs).
  rewrite (kg_fr _ _ Hk w s0 (plain VTrue) Hs). reflexivity.
Qed.

Lemma inv_alt_ok Inv c : inv_ok Inv -> inv_ok (inv_alt Inv c).
Proof.
  intros HI. split.
  - intros s1 (fs & b & s0 & H0 & _ & ->). rewrite frames_repsens. cbn [fr1 repsens]. apply (proj1 HI). exact H0.
  - intros s1 val (fs & b & s0 & H0 & Hc & ->). exists (val :: fs), b, s0. auto.
Qed.

Lemma inv_alt_lt (Inv : sst -> Prop) c (B : N) : (forall s, Inv s -> (B <= nextid s)%N) -> forall s1, inv_alt Inv c s1 -> (B <= nextid s1)%N.
Proof. intros H s1 (fs & b & s0 & H0 & _ & ->). rewrite frames_nextid. specialize (H s0 H0). lia. Qed.

Lemma K1_ok Inv k c : inv_ok Inv -> K_ok Inv k -> K_ok (inv_alt Inv c) (K1 k c).
Proof.
  intros HI Hk. constructor.
  - intros w s1 (fs & b & s0 & H0 & <- & ->). rewrite (K1_step Inv k w fs b s0 HI Hk H0).
    destruct (truthy w); cbn [snd].
    + exists fs, true, (snd (k (plain w) None s0)). split; [apply (kg_ok _ _ Hk); exact H0|]. split; [apply (kg_nid _ _ Hk); exact H0|reflexivity].
    + exists fs, b, s0. auto.
  - intros w s1 (fs & b & s0 & H0 & <- & ->). rewrite (K1_step Inv k w fs b s0 HI Hk H0).
    destruct (truthy w); cbn [snd]; [|reflexivity]. rewrite !frames_nextid. rewrite (kg_nid _ _ Hk w s0 H0). reflexivity.
  - intros w s1 val (fs & b & s0 & H0 & <- & ->).
    change (fr1 val (frames fs (fr1 (plain (VBool b)) s0))) with (frames (val :: fs) (fr1 (plain (VBool b)) s0)).
    rewrite (K1_step Inv k w (val :: fs) b s0 HI Hk H0), (K1_step Inv k w fs b s0 HI Hk H0).
    destruct (truthy w); reflexivity.
  - intros w s1 l (fs & b & s0 & H0 & <- & ->). rewrite (K1_step Inv k w fs b s0 HI Hk H0).
    destruct (truthy w); cbn [fst]; [|discriminate]. intros E. pose proof (kg_brk _ _ Hk w s0 l H0 E).
    rewrite frames_nextid. lia.
Qed.

Definition is_nil {A} (l : list A) : bool := match l with [] => true | _ => false end.

Lemma alt_run Inv k e : inv_ok Inv -> K_ok Inv k -> forall ws b s0, Inv s0 ->
  exists b', run_list (K1 k (nextid s0)) ws e (fr1 (plain (VBool b)) s0) =
             (fst (run_list k (filter truthy ws) e s0), fr1 (plain (VBool b')) (snd (run_list k (filter truthy ws) e s0))) /\
             (fst (run_list k (filter truthy ws) e s0) = inl tt -> b' = b || negb (is_nil (filter truthy ws))).
Proof.
  intros HI Hk. induction ws as [|w r IH]; intros b s0 H0; cbn [run_list filter].
  - exists b. split; [destruct e; reflexivity|]. intros _. cbn. rewrite orb_false_r. reflexivity.
  - unfold bind at 1. pose proof (K1_step Inv k w [] b s0 HI Hk H0) as HS. cbn [frames] in HS. rewrite HS. clear HS.
    destruct (truthy w) eqn:Tw; cbn [run_list].
    + unfold bind. pose proof (kg_ok _ _ Hk w s0 H0) as H1. pose proof (kg_nid _ _ Hk w s0 H0) as H2.
      destruct (k (plain w) None s0) as [[[]|x] s1]; cbn [fst snd] in *.
      * rewrite <- H2. destruct (IH true s1 H1) as [b' [E1 E2]]. exists b'. split; [exact E1|].
        intros E. rewrite (E2 E). cbn [is_nil negb orb]. rewrite orb_true_r. reflexivity.
      * exists true. split; [reflexivity|]. intros E; discriminate.
    + apply IH. exact H0.
Qed.

Lemma run_list_some_not_inl k ws x s : fst (run_list k ws (Some x) s) <> inl tt.
Proof.
  revert s. induction ws as [|w r IH]; intros s; cbn [run_list]; [discriminate|].
  unfold bind. destruct (k (plain w) None s) as [[[]|y] s1]; [apply IH|discriminate].
Qed.

Lemma sim_alt a b : sim a -> sim b -> sim (Z0Alt a b).
Proof.
  intros Ha Hb n rho v k s Inv Hn Hr HI Hk Hlt Hs. cbn [need] in Hn. do 2 (destruct n as [|n]; [lia|]).
  cbn [emb]. unfold eval_q, q_bin. cbn [evals_n step ev_q step_eval_q push_defs fold_left scoped_ids].
  fold_eval. unfold with_cell.
  change (fun (x : tv) (ps' : pst) => if truthy (fst x) then set_cell (nextid s) (plain VTrue);; k x ps' else ret tt) with (K1 k (nextid s)).
  change (mkst (outs s) (nout s) (cap s) (nextid s + 1)%N (inputs s) ((nextid s, plain VFalse) :: cells s) (repsens s) (steps s))
    with (fr1 (plain (VBool false)) s).
  rewrite (Ha _ _ _ _ _ (inv_alt Inv (nextid s))); [|lia|assumption|apply inv_alt_ok; assumption|apply K1_ok; assumption|apply inv_alt_lt; exact Hlt|exists [], false, s; auto].
  unfold run_res. destruct (alt_run Inv k (snd (den0 rs a rho v)) HI Hk (fst (den0 rs a rho v)) false s Hs) as [b' [E1 E2]].
  rewrite E1. cbn [den0].
  pose proof (run_list_nid Inv k (filter truthy (fst (den0 rs a rho v))) (snd (den0 rs a rho v)) s Hk Hs) as Hnid.
  destruct (den0 rs a rho v) as [ws e]; cbn [fst snd] in *.
  set (R := run_list k (filter truthy ws) e s) in *.
  destruct R as [[[]|x] sR] eqn:ER; cbn [fst snd fr1 cells cell_lookup cell_remove outs nout cap nextid inputs repsens steps] in *.
  - rewrite Hnid, N.eqb_refl. specialize (E2 eq_refl). cbn [orb] in E2. subst b'. cbn [fst plain].
    destruct e as [x0|].
    + exfalso. eapply (run_list_some_not_inl k (filter truthy ws) x0 s). subst R. rewrite ER. reflexivity.
    + destruct (filter truthy ws) as [|t ts] eqn:Ef; cbn [is_nil negb truthy].
      * subst R. cbn [run_list ret] in ER. injection ER as <-. 
        replace (mkst (outs s) (nout s) (cap s) (nextid s) (inputs s) (cells s) (repsens s) (steps s)) with s by (destruct s; reflexivity).
        apply (Hb _ _ _ _ _ Inv); try assumption. lia.
      * cbn [fst snd]. change (run_list k (t :: ts) None s) with R. rewrite ER. unfold ret. f_equal. rewrite <- Hnid. destruct sR; reflexivity.
  - rewrite Hnid, N.eqb_refl.
    assert (ER' : run_list k (filter truthy ws) e s = (inr x, sR)) by (subst R; exact ER).
    destruct e as [x0|].
    + cbn [fst snd]. rewrite ER'. f_equal. rewrite <- Hnid. destruct sR; reflexivity.
    + destruct (filter truthy ws) as [|t ts] eqn:Ef.
      * cbn [run_list ret] in ER'. discriminate ER'.
      * cbn [fst snd]. rewrite ER'. f_equal. rewrite <- Hnid. destruct sR; reflexivity.
Qed.

(* ---- foreach: the state cell is a frame while extraction and consumer run ---- *)

Definition inv_frame (Inv : sst -> Prop) (c : N) (s1 : sst) : Prop :=
  exists fs cur s0, Inv s0 /\ nextid s0 = c /\ s1 = frames fs (fr1 (plain cur) s0).

Lemma inv_frame_ok Inv c : inv_ok Inv -> inv_ok (inv_frame Inv c).
Proof.
  intros HI. split.
  - intros s1 (fs & val & s0 & H0 & _ & ->). rewrite frames_repsens. cbn [fr1 repsens]. apply (proj1 HI). exact H0.
  - intros s1 v1 (fs & cur & s0 & H0 & Hc & ->). exists (v1 :: fs), cur, s0. auto.
Qed.

Lemma inv_frame_lt (Inv : sst -> Prop) c (B : N) : (forall s, Inv s -> (B <= nextid s)%N) -> forall s1, inv_frame Inv c s1 -> (B <= nextid s1)%N.
Proof. intros H s1 (fs & b & s0 & H0 & _ & ->). rewrite frames_nextid. specialize (H s0 H0). lia. Qed.

Definition Ku (k2 : K) (c : N) : K := fun u ps' => set_cell c u ;; k2 u ps'.

Lemma Ku_step Inv k2 w fs val s0 : inv_ok Inv -> K_ok Inv k2 -> Inv s0 ->
  Ku k2 (nextid s0) (plain w) None (frames fs (fr1 val s0)) =
  (fst (k2 (plain w) None s0), frames fs (fr1 (plain w) (snd (k2 (plain w) None s0)))).
Proof.
  intros HI Hk Hs. unfold Ku, bind. rewrite set_cell_frames.
  rewrite (k_frames Inv k2 w fs (fr1 (plain w) s0) HI Hk) by (apply (proj2 HI); exact Hs).
  rewrite (kg_fr _ _ Hk w s0 (plain w) Hs). reflexivity.
Qed.

Lemma Ku_ok Inv k2 c : inv_ok Inv -> K_ok Inv k2 -> K_ok (inv_frame Inv c) (Ku k2 c).
Proof.
  intros HI Hk. constructor.
  - intros w s1 (fs & cur & s0 & H0 & <- & ->). rewrite (Ku_step Inv k2 w fs (plain cur) s0 HI Hk H0). cbn [snd].
    exists fs, w, (snd (k2 (plain w) None s0)). split; [apply (kg_ok _ _ Hk); exact H0|]. split; [apply (kg_nid _ _ Hk); exact H0|reflexivity].
  - intros w s1 (fs & cur & s0 & H0 & <- & ->). rewrite (Ku_step Inv k2 w fs (plain cur) s0 HI Hk H0). cbn [snd].
    rewrite !frames_nextid. rewrite (kg_nid _ _ Hk w s0 H0). reflexivity.
  - intros w s1 v1 (fs & cur & s0 & H0 & <- & ->).
    change (fr1 v1 (frames fs (fr1 (plain cur) s0))) with (frames (v1 :: fs) (fr1 (plain cur) s0)).
    rewrite (Ku_step Inv k2 w (v1 :: fs) (plain cur) s0 HI Hk H0), (Ku_step Inv k2 w fs (plain cur) s0 HI Hk H0). reflexivity.
  - intros w s1 l (fs & cur & s0 & H0 & <- & ->). rewrite (Ku_step Inv k2 w fs (plain cur) s0 HI Hk H0). cbn [fst].
    intros E. pose proof (kg_brk _ _ Hk w s0 l H0 E). rewrite frames_nextid. lia.
Qed.

Lemma Ku_run Inv k2 e : inv_ok Inv -> K_ok Inv k2 -> forall ws acc s0, Inv s0 ->
  exists acc', (forall fs, run_list (Ku k2 (nextid s0)) ws e (frames fs (fr1 (plain acc) s0)) =
               (fst (run_list k2 ws e s0), frames fs (fr1 (plain acc') (snd (run_list k2 ws e s0))))) /\
               (fst (run_list k2 ws e s0) = inl tt -> acc' = last ws acc).
Proof.
  intros HI Hk. induction ws as [|w r IH]; intros acc s0 H0; cbn [run_list].
  - exists acc. split; [intros fs; destruct e; reflexivity|]. intros _. reflexivity.
  - pose proof (kg_ok _ _ Hk w s0 H0) as H1. pose proof (kg_nid _ _ Hk w s0 H0) as H2.
    destruct (k2 (plain w) None s0) as [[[]|x] s1] eqn:Ek2; cbn [fst snd] in *.
    + destruct (IH w s1 H1) as [acc' [E1 E2]]. exists acc'. split.
      * intros fs. unfold bind at 1. rewrite (Ku_step Inv k2 w fs (plain acc) s0 HI Hk H0). rewrite Ek2. cbn [fst snd].
        unfold bind. rewrite Ek2. rewrite <- H2. apply E1.
      * unfold bind. rewrite Ek2. intros E. rewrite (E2 E). rewrite last_cons. reflexivity.
    + exists w. split.
      * intros fs. unfold bind at 1. rewrite (Ku_step Inv k2 w fs (plain acc) s0 HI Hk H0). rewrite Ek2. cbn [fst snd].
        unfold bind. rewrite Ek2. reflexivity.
      * unfold bind. rewrite Ek2. intros E; discriminate.
Qed.

Lemma get_cell_frames fs val s0 :
  get_cell (nextid s0) (frames fs (fr1 val s0)) = (inl val, frames fs (fr1 val s0)).
Proof.
  unfold get_cell.
  assert (H : cell_lookup (cells (frames fs (fr1 val s0))) (nextid s0) = Some val).
  { induction fs as [|f r IH]; cbn [frames fr1 cells cell_lookup].
    - rewrite N.eqb_refl. reflexivity.
    - assert (Hne : (nextid (frames r (fr1 val s0)) =? nextid s0)%N = false).
      { apply N.eqb_neq. pose proof (frames_nextid_le r (fr1 val s0)) as H. cbn [fr1 nextid] in H. lia. }
      rewrite Hne. exact IH. }
  rewrite H. reflexivity.
Qed.

(* foreach_upd0 / foreach_fold0 in terms of rbind / rseq *)
Lemma foreach_upd0_spec ext us acc :
  fst (foreach_upd0 ext us acc) = rbind_list us ext /\
  (snd (rbind_list us ext) = None -> snd (foreach_upd0 ext us acc) = last us acc).
Proof.
  revert acc. induction us as [|u r IH]; intros acc; cbn [foreach_upd0 rbind_list]; [split; reflexivity|].
  destruct (ext u) as [os [x|]]; cbn [rseq fst snd].
  - split; [reflexivity|]. intros E; discriminate.
  - destruct (IH u) as [E1 E2]. destruct (foreach_upd0 ext r u) as [[os' x] acc']. cbn [fst snd] in *.
    rewrite <- E1. cbn [fst snd]. split; [reflexivity|]. intros E. rewrite last_cons. apply E2. rewrite <- E1. exact E.
Qed.

Definition item_res (upd ext : jv -> jv -> result) (w acc : jv) : result := rbind (upd w acc) (ext w).

Lemma foreach_fold0_cons upd ext w r acc :
  foreach_fold0 upd ext (w :: r) acc =
  rseq (item_res upd ext w acc) (foreach_fold0 upd ext r (last (fst (upd w acc)) acc)).
Proof.
  cbn [foreach_fold0]. unfold item_res, rbind. destruct (upd w acc) as [us ux]. cbn [fst snd].
  destruct (foreach_upd0_spec (ext w) us acc) as [E1 E2].
  destruct (foreach_upd0 (ext w) us acc) as [[os x] acc']. cbn [fst snd] in *. rewrite <- E1.
  destruct x as [x|]; [reflexivity|]. destruct ux as [x|]; [reflexivity|].
  cbn [rseq]. rewrite (E2 (f_equal snd (eq_sym E1)) ). reflexivity.
Qed.


Lemma rseq_assoc a b c : rseq (rseq a b) c = rseq a (rseq b c).
Proof.
  destruct a as [wa [xa|]]; [reflexivity|]. destruct b as [wb [xb|]]; cbn [rseq fst snd]; [reflexivity|].
  rewrite app_assoc. reflexivity.
Qed.

Lemma run_rseq k a b s :
  run_res k (rseq a b) s =
  match snd a with
  | None => (run_list k (fst a) None ;; run_res k b) s
  | Some _ => run_res k a s
  end.
Proof.
  destruct a as [wa [xa|]]; cbn [rseq fst snd]; [reflexivity|]. unfold run_res. cbn [fst snd]. apply run_list_app.
Qed.

Lemma sim_foreach src x init upd ext : is_var_name x = true -> sim src -> sim init -> sim upd ->
  match ext with Some e => sim e | None => True end -> sim (Z0Foreach src x init upd ext).
Proof.
  intros Hx Hsrc Hinit Hupd Hext n rho v k s Inv Hn Hr HI Hk Hlt Hs. cbn [need] in Hn. do 4 (destruct n as [|n]; [lia|]).
  destruct x as [|cx x]; [discriminate Hx|].
  cbn [emb]. unfold eval_q, q_term. cbn [evals_n step ev_q step_eval_q push_defs fold_left ev_t step_eval_t rev app].
  fold_eval.
  set (upd0 := fun w acc => den0 rs upd (BVar (cx :: x) (plain w) :: rho) acc).
  set (ext0 := fun w u => match ext with Some e => den0 rs e (BVar (cx :: x) (plain w) :: rho) u | None => ([u], None) end).
  (* the continuation after the state was stored: extraction, then the consumer *)
  set (Ek := fun (w : jv) (u : tv) (ps3 : pst) =>
         match option_map emb ext with
         | None => k u ps3
         | Some e => eval_q bs (S (S n)) (BVar (cx :: x) (plain w) :: rho) e u ps3 k
         end).
  assert (HEk : forall w u s', Inv s' -> Ek w (plain u) None s' = run_res k (ext0 w u) s').
  { intros w u s' Hs'. unfold Ek, ext0. destruct ext as [e|]; cbn [option_map].
    - apply (Hext _ _ _ _ _ Inv); try assumption. lia.
    - rewrite run_single. reflexivity. }
  assert (Hextb : forall w u, brk_in (lab_ids rho) (ext0 w u)).
  { intros w u. unfold ext0. destruct ext as [e|]; [apply (den0_brk e (BVar (cx :: x) (plain w) :: rho) u)|trivb]. }
  assert (HEkok : forall w, K_ok Inv (Ek w)).
  { intros w. apply (K_ok_of_eq Inv k (Ek w) (ext0 w)); try assumption; [|apply HEk].
    intros u. apply (brk_lt_of_in Inv (lab_ids rho)); [apply in_lt; exact Hlt|apply Hextb]. }
  assert (Hib : forall w cur, brk_in (lab_ids rho) (item_res upd0 ext0 w cur)).
  { intros w cur. unfold item_res. apply brk_in_rbind; [apply (den0_brk upd (BVar (cx :: x) (plain w) :: rho) cur)|apply Hextb]. }
  set (Kit := fun (c : N) (item : tv) (ps1 : pst) =>
         ev_bindpat (step bs (step bs (evals_n bs n))) rho (Pattern (cx :: x) [] []) item ps1
           (fun rho' ps2 => cur <- get_cell c ;;
              eval_q bs (S (S n)) rho' (emb upd) cur ps2 (fun u ps3 =>
                set_cell c u ;;
                match option_map emb ext with
                | None => k u ps3
                | Some e => eval_q bs (S (S n)) rho' e u ps3 k
                end))).
  (* one item under the frame *)
  assert (Hitem : forall w cur s0, Inv s0 ->
            exists acc', (forall fs, Kit (nextid s0) (plain w) None (frames fs (fr1 (plain cur) s0)) =
              (fst (run_res k (item_res upd0 ext0 w cur) s0),
               frames fs (fr1 (plain acc') (snd (run_res k (item_res upd0 ext0 w cur) s0))))) /\
              (fst (run_res k (item_res upd0 ext0 w cur) s0) = inl tt -> acc' = last (fst (upd0 w cur)) cur)).
  { intros w cur s0 H0.
    destruct (Ku_run Inv (Ek w) (snd (upd0 w cur)) HI (HEkok w) (fst (upd0 w cur)) cur s0 H0) as [acc' [E1 E2]].
    assert (ER : run_list (Ek w) (fst (upd0 w cur)) (snd (upd0 w cur)) s0 = run_res k (item_res upd0 ext0 w cur) s0).
    { rewrite (run_list_ext Inv _ (fun u _ => run_res k (ext0 w (fst u)))); [|apply HEkok|exact H0|intros u s' Hs'; apply HEk; exact Hs'].
      rewrite (run_rbind k (ext0 w)). unfold item_res. destruct (upd0 w cur); reflexivity. }
    exists acc'. split; [|rewrite <- ER; exact E2].
    intros fs. unfold Kit. cbn [ev_bindpat step step_bind_pat].
    unfold bind at 1. rewrite get_cell_frames.
    change (fun (u : tv) (ps3 : pst) => set_cell (nextid s0) u;; match option_map emb ext with
              | Some e => eval_q bs (S (S n)) (BVar (cx :: x) (plain w) :: rho) e u ps3 k | None => k u ps3 end)
      with (Ku (Ek w) (nextid s0)).
    rewrite (Hupd _ _ _ _ _ (inv_frame Inv (nextid s0))); [|lia|exact Hr|apply inv_frame_ok; exact HI|apply Ku_ok; [exact HI|apply HEkok]|apply inv_frame_lt; exact Hlt|exists fs, cur, s0; auto].
    change (den0 rs upd (BVar (cx :: x) (plain w) :: rho) cur) with (upd0 w cur).
    unfold run_res at 1. rewrite E1, ER. reflexivity. }
  assert (HKit : forall c, K_ok (inv_frame Inv c) (Kit c)).
  { intros c. constructor.
    - intros w s1 (fs & cur & s0 & H0 & <- & ->).
      destruct (Hitem w cur s0 H0) as [acc' [E1 _]]. rewrite E1. cbn [snd].
      exists fs, acc', (snd (run_res k (item_res upd0 ext0 w cur) s0)).
      split; [apply (run_list_ok Inv); assumption|]. split; [apply (run_list_nid Inv); assumption|reflexivity].
    - intros w s1 (fs & cur & s0 & H0 & <- & ->).
      destruct (Hitem w cur s0 H0) as [acc' [E1 _]]. rewrite E1. cbn [snd].
      rewrite !frames_nextid. unfold run_res. rewrite (run_list_nid Inv k _ _ s0 Hk H0). reflexivity.
    - intros w s1 v1 (fs & cur & s0 & H0 & <- & ->).
      change (fr1 v1 (frames fs (fr1 (plain cur) s0))) with (frames (v1 :: fs) (fr1 (plain cur) s0)).
      destruct (Hitem w cur s0 H0) as [a1 [E1 _]].
      rewrite (E1 (v1 :: fs)), (E1 fs). reflexivity.
    - intros w s1 l (fs & cur & s0 & H0 & <- & ->).
      destruct (Hitem w cur s0 H0) as [acc' [E1 _]]. rewrite E1. cbn [fst]. intros E. rewrite frames_nextid.
      destruct (run_list_brk Inv k _ _ s0 l Hk H0 E) as [H|H]; [lia|].
      pose proof (in_lt Inv rho Hlt s0 l H0 (Hib w cur l H)). lia. }
  (* all items, the cell on top *)
  assert (Hitems : forall ws sx cur s0, Inv s0 ->
            exists acc', run_list (Kit (nextid s0)) ws sx (fr1 (plain cur) s0) =
              (fst (run_res k (rseq (foreach_fold0 upd0 ext0 ws cur) ([], sx)) s0),
               fr1 (plain acc') (snd (run_res k (rseq (foreach_fold0 upd0 ext0 ws cur) ([], sx)) s0)))).
  { intros ws sx. induction ws as [|w r IH]; intros cur s0 H0.
    - exists cur. cbn [run_list foreach_fold0 rseq app fst snd]. unfold run_res. cbn [fst snd run_list]. destruct sx; reflexivity.
    - cbn [run_list]. unfold bind at 1. destruct (Hitem w cur s0 H0) as [a1 [E1 F1]].
      pose proof (E1 []) as E1'. cbn [frames] in E1'. rewrite E1'. clear E1'.
      rewrite foreach_fold0_cons, rseq_assoc, run_rseq.
      pose proof (run_list_ok Inv k (fst (item_res upd0 ext0 w cur)) (snd (item_res upd0 ext0 w cur)) s0 Hk H0) as Hok.
      pose proof (run_list_nid Inv k (fst (item_res upd0 ext0 w cur)) (snd (item_res upd0 ext0 w cur)) s0 Hk H0) as Hni.
      unfold run_res in *.
      destruct (run_list k (fst (item_res upd0 ext0 w cur)) (snd (item_res upd0 ext0 w cur)) s0) as [[[]|xx] s1] eqn:ERi; cbn [fst snd] in *.
      + specialize (F1 eq_refl). subst a1.
        destruct (snd (item_res upd0 ext0 w cur)) as [x0|] eqn:Esn.
        * exfalso. eapply (run_list_some_not_inl k (fst (item_res upd0 ext0 w cur)) x0 s0). try rewrite ERi. reflexivity.
        * unfold bind. try rewrite ERi. rewrite <- Hni. apply IH. exact Hok.
      + exists a1. destruct (snd (item_res upd0 ext0 w cur)) as [x0|] eqn:Esn.
        * reflexivity.
        * unfold bind. try rewrite ERi. reflexivity. }
  set (F := fun w0 : jv => let '(ws, sx) := den0 rs src rho v in rseq (foreach_fold0 upd0 ext0 ws w0) ([], sx)).
  set (K' := fun (s0 : tv) (ps0 : pst) =>
         with_cell (scoped_ids ps0) s0 (fun c => eval_q bs (S (S n)) rho (emb src) (plain v) ps0 (Kit c)) (fun _ => ret tt)).
  assert (HK' : forall w0 s', Inv s' -> K' (plain w0) None s' = run_res k (F w0) s').
  { intros w0 s' Hs'. unfold K', with_cell. cbn [scoped_ids].
    change (mkst (outs s') (nout s') (cap s') (nextid s' + 1)%N (inputs s') ((nextid s', plain w0) :: cells s') (repsens s') (steps s'))
      with (fr1 (plain w0) s').
    rewrite (Hsrc _ _ _ _ _ (inv_frame Inv (nextid s'))); [|lia|exact Hr|apply inv_frame_ok; exact HI|apply HKit|apply inv_frame_lt; exact Hlt|exists [], w0, s'; auto].
    unfold run_res at 1.
    destruct (Hitems (fst (den0 rs src rho v)) (snd (den0 rs src rho v)) w0 s' Hs') as [acc' E1]. rewrite E1.
    unfold F. destruct (den0 rs src rho v) as [ws sx]. cbn [fst snd].
    pose proof (run_list_nid Inv k (fst (rseq (foreach_fold0 upd0 ext0 ws w0) ([], sx))) (snd (rseq (foreach_fold0 upd0 ext0 ws w0) ([], sx))) s' Hk Hs') as Hnid.
    unfold run_res in *.
    destruct (run_list k (fst (rseq (foreach_fold0 upd0 ext0 ws w0) ([], sx))) (snd (rseq (foreach_fold0 upd0 ext0 ws w0) ([], sx))) s') as [[[]|xx] sR];
      cbn [fst snd fr1 cells cell_lookup cell_remove outs nout cap nextid inputs repsens steps] in *; rewrite Hnid, N.eqb_refl.
    - unfold ret. f_equal. rewrite <- Hnid. destruct sR; reflexivity.
    - f_equal. rewrite <- Hnid. destruct sR; reflexivity. }
  assert (HFb : forall w0, brk_lt Inv (F w0)).
  { intros w0. apply (brk_lt_of_in Inv (lab_ids rho)); [apply in_lt; exact Hlt|]. unfold F.
    pose proof (den0_brk src rho v) as IHs. destruct (den0 rs src rho v) as [ws sx].
    apply brk_in_rseq; [|exact IHs].
    apply foreach_fold0_brk; [intros w acc; apply (den0_brk upd (BVar (cx :: x) (plain w) :: rho) acc)|apply Hextb]. }
  assert (HKok : K_ok Inv K') by (apply (K_ok_of_eq Inv k K' F); assumption).
  change (eval_q bs (S (S n)) rho (emb init) (plain v) None K' s = run_res k (den0 rs (Z0Foreach src (cx :: x) init upd ext) rho v) s).
  rewrite (Hinit _ _ _ _ _ Inv) by (try lia; assumption). unfold run_res at 1.
  rewrite (run_list_ext Inv _ (fun x0 _ => run_res k (F (fst x0)))); try assumption.
  rewrite (run_rbind k F). cbn [den0]. destruct (den0 rs init rho v); reflexivity.
Qed.

Lemma syn_depth_S : exists d, syn_depth = S d.
Proof. eexists. vm_compute. reflexivity. Qed.

Lemma sim_bind src x body : is_var_name x = true -> sim src -> sim body -> sim (Z0Bind src x body).
Proof.
  intros Hx Hsrc Hbody n rho v k s Inv Hn Hr HI Hk Hlt Hs. cbn [need] in Hn. do 3 (destruct n as [|n]; [lia|]).
  cbn [emb den0]. unfold eval_q. cbn [evals_n step ev_q step_eval_q push_defs fold_left].
  destruct syn_depth_S as [d Hd]. rewrite Hd.
  destruct x as [|c x]; [discriminate Hx|].
  cbn [flat_map pattern_vars app fold_left alts_loop ev_bindpat step step_bind_pat].
  fold_eval.
  set (K' := fun (x0 : tv) (_ : pst) =>
               eval_q bs (S (S n)) (BVar (c :: x) x0 :: BVar (c :: x) (plain VNull) :: rho) (emb body) (plain v) None k).
  assert (HR : forall w, vars_only (bind_env rho (c :: x) w)) by (intros w; exact Hr).
  assert (HK : K_ok Inv K').
  { apply (K_ok_of_eq Inv k _ (fun w => den0 rs body (bind_env rho (c :: x) w) v)); try assumption;
      [intros w; apply den0_brk_lt; exact Hlt|].
    intros w s' Hs'. unfold K'. apply (Hbody _ _ _ _ _ Inv); [lia|apply HR|assumption|assumption|exact Hlt|assumption]. }
  change (eval_q bs (S (S n)) rho (emb src) (plain v) None K' s =
          run_res k (rbind (den0 rs src rho v) (fun w => den0 rs body (bind_env rho (c :: x) w) v)) s).
  rewrite (Hsrc _ _ _ _ _ Inv) by (try lia; assumption). unfold run_res at 1.
  rewrite (run_list_ext Inv _ (fun x0 _ => run_res k ((fun w => den0 rs body (bind_env rho (c :: x) w) v) (fst x0)))); try assumption.
  - rewrite (run_rbind k (fun w => den0 rs body (bind_env rho (c :: x) w) v)). destruct (den0 rs src rho v); reflexivity.
  - intros w s' Hs'. unfold K'. apply (Hbody _ _ _ _ _ Inv); [lia|apply HR|assumption|assumption|exact Hlt|assumption].
Qed.


(* ---- arithmetic and comparison operators ---- *)
Lemma binop_law n rho l o r v ps k : is_arith o = true ->
  eval_q bs (S n) rho (q_bin l o r) v ps k =
  match op_binop o with
  | Some f => eval_q bs n rho r v ps (fun rv ps1 =>
                eval_q bs n rho l v ps1 (fun lv ps2 => lift (f (fst lv) (fst rv)) (fun w => k (plain w) ps2)))
  | None => skipM "operator"
  end.
Proof. intros H. destruct o; try discriminate H; reflexivity. Qed.

Lemma lift_run k (r : nres) s : repsens s = rs -> lift r (fun w => k (plain w) None) s = run_res k (of_nres rs r) s.
Proof.
  intros Hs. destruct r as [w|c val|why]; cbn [lift of_nres].
  - rewrite run_single. reflexivity.
  - unfold raise_err, run_res, mask. cbn [run_list fst snd]. rewrite Hs. reflexivity.
  - reflexivity.
Qed.

Lemma of_nres_nobrk r l : snd (of_nres rs r) <> Some (XBreak l).
Proof. destruct r; discriminate. Qed.

Lemma sim_binop o a b : is_arith o = true -> sim a -> sim b -> sim (Z0Binop o a b).
Proof.
  intros Ho Ha Hb n rho v k s Inv Hn Hr HI Hk Hlt Hs. cbn [need] in Hn. destruct n as [|n]; [lia|].
  cbn [emb den0]. rewrite (binop_law n rho (emb a) o (emb b) (plain v) None k Ho). unfold binop_res.
  destruct (op_binop o) as [f|] eqn:Ef; [|destruct o; discriminate].
  set (KL := fun (r : jv) (lv : tv) (ps2 : pst) => lift (f (fst lv) r) (fun w => k (plain w) ps2)).
  assert (HKL : forall r, K_ok Inv (KL r)).
  { intros r. apply (K_ok_of_eq Inv k _ (fun l => of_nres rs (f l r))); try assumption.
    - intros l. apply brk_lt_none. intros l0. apply of_nres_nobrk.
    - intros l s' Hs'. unfold KL. cbn [fst plain]. apply lift_run. apply (proj1 HI). exact Hs'. }
  set (FR := fun r : jv => rbind (den0 rs a rho v) (fun l => of_nres rs (f l r))).
  assert (HKR : forall r s', Inv s' -> eval_q bs n rho (emb a) (plain v) None (KL r) s' = run_res k (FR r) s').
  { intros r s' Hs'. rewrite (Ha _ _ _ _ _ Inv); [|lia|assumption|assumption|apply HKL|assumption|assumption]. unfold run_res at 1.
    rewrite (run_list_ext Inv _ (fun x _ => run_res k ((fun l => of_nres rs (f l r)) (fst x)))); [|apply HKL|assumption|].
    - rewrite (run_rbind k (fun l => of_nres rs (f l r))). unfold FR. destruct (den0 rs a rho v); reflexivity.
    - intros l s'' Hs''. unfold KL. cbn [fst plain]. apply lift_run. apply (proj1 HI). exact Hs''. }
  assert (HKRok : K_ok Inv (fun rv ps1 => eval_q bs n rho (emb a) (plain v) ps1 (KL (fst rv)))).
  { apply (K_ok_of_eq Inv k _ FR); [assumption|assumption| |intros r s' Hs'; cbn [fst plain]; apply HKR; exact Hs'].
    intros r. apply (brk_lt_of_in Inv (lab_ids rho)); [apply in_lt; exact Hlt|]. unfold FR.
    apply brk_in_rbind; [apply den0_brk|]. intros l l0 E. exfalso. exact (of_nres_nobrk _ _ E). }
  change (eval_q bs n rho (emb b) (plain v) None (fun rv ps1 => eval_q bs n rho (emb a) (plain v) ps1 (KL (fst rv))) s =
          run_res k (rbind (den0 rs b rho v) FR) s).
  rewrite (Hb _ _ _ _ _ Inv) by (try lia; assumption). unfold run_res at 1.
  rewrite (run_list_ext Inv _ (fun x _ => run_res k (FR (fst x)))); [|assumption|assumption|intros r s' Hs'; cbn [fst plain]; apply HKR; exact Hs'].
  rewrite (run_rbind k FR). destruct (den0 rs b rho v); reflexivity.
Qed.

(* ---- label / break ---- *)
(* renaming of label ids: den0 treats ids parametrically *)
Definition ren_b (p : N -> N) (b : binding) : binding := match b with BLabel nm l => BLabel nm (p l) | _ => b end.
Definition ren_env (p : N -> N) (rho : env) : env := map (ren_b p) rho.
Definition ren_exn (p : N -> N) (x : exn) : exn := match x with XBreak l => XBreak (p l) | _ => x end.
Definition ren_res (p : N -> N) (r : result) : result := (fst r, option_map (ren_exn p) (snd r)).

Lemma ren_rseq p a b : ren_res p (rseq a b) = rseq (ren_res p a) (ren_res p b).
Proof. destruct a as [ws [x|]]; reflexivity. Qed.

Lemma ren_rbind_list p ws f : ren_res p (rbind_list ws f) = rbind_list ws (fun w => ren_res p (f w)).
Proof. induction ws as [|w r IH]; [reflexivity|]. cbn [rbind_list]. rewrite ren_rseq, IH. reflexivity. Qed.

Lemma ren_rbind p r f : ren_res p (rbind r f) = rbind (ren_res p r) (fun w => ren_res p (f w)).
Proof.
  unfold rbind. cbn [ren_res fst]. rewrite <- ren_rbind_list.
  destruct (rbind_list (fst r) f) as [os [x|]]; reflexivity.
Qed.

Lemma rbind_list_ext ws f g : (forall w, f w = g w) -> rbind_list ws f = rbind_list ws g.
Proof. intros H. induction ws as [|w r IH]; [reflexivity|]. cbn [rbind_list]. rewrite H, IH. reflexivity. Qed.

Lemma rbind_ext r f g : (forall w, f w = g w) -> rbind r f = rbind r g.
Proof. intros H. unfold rbind. rewrite (rbind_list_ext _ f g H). reflexivity. Qed.

Lemma reduce_fold0_ren p upd' upd : (forall w acc, upd' w acc = ren_res p (upd w acc)) ->
  forall ws acc, reduce_fold0 upd' ws acc = match reduce_fold0 upd ws acc with inl a => inl a | inr e => inr (ren_exn p e) end.
Proof.
  intros H. induction ws as [|w r IH]; intros acc; cbn [reduce_fold0]; [reflexivity|].
  rewrite H. destruct (upd w acc) as [us [x|]]; cbn [ren_res fst snd option_map]; [reflexivity|apply IH].
Qed.

Lemma foreach_fold0_ren p upd' upd ext' ext : (forall w acc, upd' w acc = ren_res p (upd w acc)) ->
  (forall w u, ext' w u = ren_res p (ext w u)) ->
  forall ws acc, foreach_fold0 upd' ext' ws acc = ren_res p (foreach_fold0 upd ext ws acc).
Proof.
  intros Hu He. induction ws as [|w r IH]; intros acc; [reflexivity|].
  rewrite !foreach_fold0_cons, ren_rseq. f_equal.
  - unfold item_res. rewrite Hu, ren_rbind. apply rbind_ext. apply He.
  - rewrite Hu. cbn [ren_res fst]. apply IH.
Qed.

Lemma lookup_var_ren p rho x : lookup_var (ren_env p rho) x = lookup_var rho x.
Proof. induction rho as [|b r IH]; [reflexivity|]. destruct b; cbn [ren_env map ren_b lookup_var]; try exact IH. destruct (list_N_eqb name x); [reflexivity|exact IH]. Qed.

Lemma lookup_label_ren p rho nm : lookup_label (ren_env p rho) nm = option_map p (lookup_label rho nm).
Proof. induction rho as [|b r IH]; [reflexivity|]. destruct b; cbn [ren_env map ren_b lookup_label]; try exact IH. destruct (list_N_eqb name nm); [reflexivity|exact IH]. Qed.

Lemma lab_ids_ren p rho : lab_ids (ren_env p rho) = map p (lab_ids rho).
Proof. induction rho as [|b r IH]; [reflexivity|]. destruct b; cbn [ren_env map ren_b lab_ids]; try exact IH. f_equal. exact IH. Qed.

Lemma ren_env_ext p p' rho : (forall l, In l (lab_ids rho) -> p l = p' l) -> ren_env p rho = ren_env p' rho.
Proof.
  induction rho as [|b r IH]; intros H; [reflexivity|]. cbn [ren_env map].
  destruct b; cbn [ren_b lab_ids] in *; try (f_equal; apply IH; exact H).
  rewrite (H id) by (left; reflexivity). f_equal. apply IH. intros l Hl. apply H. right. exact Hl.
Qed.

Lemma ren_env_id p rho : (forall l, In l (lab_ids rho) -> p l = l) -> ren_env p rho = rho.
Proof.
  induction rho as [|b r IH]; intros H; [reflexivity|]. cbn [ren_env map].
  destruct b; cbn [ren_b lab_ids] in *; try (f_equal; apply IH; exact H).
  rewrite (H id) by (left; reflexivity). f_equal. apply IH. intros l Hl. apply H. right. exact Hl.
Qed.

Fixpoint den0_ren (q : q0) : forall p rho v, den0 rs q (ren_env p rho) v = ren_res p (den0 rs q rho v).
Proof.
  destruct q; intros p rho v; cbn [den0]; try reflexivity.
  - rewrite ren_rbind, den0_ren. apply rbind_ext. intros w. apply den0_ren.
  - rewrite ren_rseq, !den0_ren. reflexivity.
  - rewrite ren_rbind, den0_ren. apply rbind_ext. intros w. destruct w; reflexivity.
  - rewrite ren_rbind, den0_ren. apply rbind_ext. intros w. destruct (fn_index2 w (VStr (c :: k))); reflexivity.
  - rewrite ren_rbind, den0_ren. apply rbind_ext. intros w. destruct (truthy w); apply den0_ren.
  - rewrite den0_ren. destruct (den0 rs q rho v) as [ws [[[|d] c val|l| | | |]|]]; cbn [ren_res fst snd option_map ren_exn]; try reflexivity.
    destruct h as [h|]; [|reflexivity]. destruct val as [e|]; [|reflexivity].
    rewrite ren_rseq, den0_ren. reflexivity.
  - destruct (fn_length v); reflexivity.
  - rewrite ren_rbind, den0_ren. apply rbind_ext. intros w. exact (den0_ren q2 p (bind_env rho x w) v).
  - rewrite lookup_var_ren. destruct (lookup_var rho x); reflexivity.
  - rewrite den0_ren. destruct (den0 rs q rho v) as [ws [x|]]; reflexivity.
  - rewrite ren_rbind, den0_ren. apply rbind_ext. intros s0. rewrite (den0_ren q1).
    destruct (den0 rs q1 rho v) as [ws sx]. cbn [ren_res fst snd].
    rewrite (reduce_fold0_ren p _ (fun w acc => den0 rs q3 (BVar x (plain w) :: rho) acc))
      by (intros w acc; exact (den0_ren q3 p (BVar x (plain w) :: rho) acc)).
    destruct (reduce_fold0 _ ws s0) as [acc|e]; [|reflexivity]. destruct sx; reflexivity.
  - rewrite (den0_ren q1). destruct (den0 rs q1 rho v) as [ws [x|]]; cbn [ren_res fst snd option_map]; [reflexivity|].
    destruct (filter truthy ws); [apply den0_ren|reflexivity].
  - rewrite ren_rbind, den0_ren. apply rbind_ext. intros s0. rewrite (den0_ren q1).
    destruct (den0 rs q1 rho v) as [ws sx]. cbn [ren_res fst snd]. rewrite ren_rseq. f_equal.
    apply foreach_fold0_ren.
    + intros w acc. exact (den0_ren q3 p (BVar x (plain w) :: rho) acc).
    + intros w u. destruct ext as [e|]; [exact (den0_ren e p (BVar x (plain w) :: rho) u)|reflexivity].
  - (* label: the id chosen under the renamed environment is the image of the id chosen under rho *)
    set (ID := lab_bound rho). set (ID' := lab_bound (ren_env p rho)).
    set (p' := fun i : N => if (i =? ID)%N then ID' else p i).
    assert (E : BLabel nm ID' :: ren_env p rho = ren_env p' (BLabel nm ID :: rho)).
    { cbn [ren_env map ren_b]. unfold p' at 1. rewrite N.eqb_refl. f_equal. apply ren_env_ext.
      intros l Hl. unfold p'. apply lab_ids_lt in Hl. destruct (N.eqb_spec l ID); [subst ID; lia|reflexivity]. }
    rewrite E, den0_ren.
    pose proof (den0_brk q (BLabel nm ID :: rho) v) as Hb. cbn [lab_ids] in Hb.
    destruct (den0 rs q (BLabel nm ID :: rho) v) as [ws [[d c val|l| | | |]|]]; cbn [ren_res fst snd option_map ren_exn label_res]; try reflexivity.
    destruct (N.eqb_spec l ID) as [->|Hne].
    + unfold p'. rewrite N.eqb_refl, N.eqb_refl. reflexivity.
    + destruct (Hb l eq_refl) as [H|H]; [congruence|].
      unfold p'. destruct (N.eqb_spec l ID); [contradiction|].
      assert (Hlt' : (p l < ID')%N).
      { apply lab_ids_lt. rewrite lab_ids_ren. apply in_map. exact H. }
      destruct (N.eqb_spec (p l) ID'); [lia|]. unfold ren_res. cbn [fst snd option_map ren_exn].
      destruct (N.eqb_spec l ID); [contradiction|]. reflexivity.
  - rewrite lookup_label_ren. destruct (lookup_label rho nm); reflexivity.
  - rewrite ren_rbind, den0_ren. apply rbind_ext. intros r. rewrite ren_rbind, den0_ren. apply rbind_ext. intros l.
    unfold binop_res. destruct (op_binop o) as [f|]; [destruct (f l r)|]; reflexivity.
Qed.

(* a well-behaved continuation is well-behaved under a frame *)
Lemma k_frames1 Inv k w fs cur s0 : inv_ok Inv -> K_ok Inv k -> Inv s0 ->
  k (plain w) None (frames fs (fr1 cur s0)) = (fst (k (plain w) None s0), frames fs (fr1 cur (snd (k (plain w) None s0)))).
Proof.
  intros HI Hk Hs. rewrite (k_frames Inv k w fs (fr1 cur s0) HI Hk) by (apply (proj2 HI); exact Hs).
  rewrite (kg_fr _ _ Hk w s0 cur Hs). reflexivity.
Qed.

Lemma K_frame_ok Inv k c : inv_ok Inv -> K_ok Inv k -> K_ok (inv_frame Inv c) k.
Proof.
  intros HI Hk. constructor.
  - intros w s1 (fs & cur & s0 & H0 & <- & ->). rewrite (k_frames1 Inv k w fs (plain cur) s0 HI Hk H0). cbn [snd].
    exists fs, cur, (snd (k (plain w) None s0)). split; [apply (kg_ok _ _ Hk); exact H0|]. split; [apply (kg_nid _ _ Hk); exact H0|reflexivity].
  - intros w s1 (fs & cur & s0 & H0 & <- & ->). rewrite (k_frames1 Inv k w fs (plain cur) s0 HI Hk H0). cbn [snd].
    rewrite !frames_nextid. rewrite (kg_nid _ _ Hk w s0 H0). reflexivity.
  - intros w s1 v1 (fs & cur & s0 & H0 & <- & ->).
    change (fr1 v1 (frames fs (fr1 (plain cur) s0))) with (frames (v1 :: fs) (fr1 (plain cur) s0)).
    rewrite (k_frames1 Inv k w (v1 :: fs) (plain cur) s0 HI Hk H0), (k_frames1 Inv k w fs (plain cur) s0 HI Hk H0). reflexivity.
  - intros w s1 l (fs & cur & s0 & H0 & <- & ->). rewrite (k_frames1 Inv k w fs (plain cur) s0 HI Hk H0). cbn [fst].
    intros E. pose proof (kg_brk _ _ Hk w s0 l H0 E). rewrite frames_nextid. lia.
Qed.

Lemma catch_break_eq l (m : M unit) s :
  catch_break l m s = (match fst (m s) with
                       | inr (XBreak l') => if (l' =? l)%N then inl tt else fst (m s)
                       | a => a
                       end, snd (m s)).
Proof. unfold catch_break. destruct (m s) as [[[]|[]] s1]; cbn [fst snd]; try reflexivity. destruct (l0 =? l)%N; reflexivity. Qed.

(* catching the break of a fresh label on a run = running the result with that break removed *)
Lemma catch_run Inv k ws e s : K_ok Inv k -> Inv s ->
  (match fst (run_list k ws e s) with
   | inr (XBreak l') => if (l' =? nextid s)%N then inl tt else fst (run_list k ws e s)
   | a => a
   end, snd (run_list k ws e s)) = run_res k (label_res (nextid s) (ws, e)) s.
Proof.
  intros Hk Hs. unfold run_res.
  assert (Hnb : forall e', e' <> Some (XBreak (nextid s)) ->
            match fst (run_list k ws e' s) with
            | inr (XBreak l') => if (l' =? nextid s)%N then inl tt else fst (run_list k ws e' s)
            | a => a
            end = fst (run_list k ws e' s)).
  { intros e' He'. destruct (fst (run_list k ws e' s)) as [[]|[d c val|l| | | |]] eqn:E; try reflexivity.
    destruct (N.eqb_spec l (nextid s)) as [->|]; [|reflexivity].
    destruct (run_list_brk Inv k ws e' s (nextid s) Hk Hs E) as [H|H]; [lia|contradiction]. }
  destruct e as [[d c val|l| | | |]|]; cbn [label_res fst snd];
    try (rewrite Hnb by discriminate; destruct (run_list k ws _ s); reflexivity).
  destruct (N.eqb_spec l (nextid s)) as [->|Hne]; cbn [fst snd].
  - rewrite run_list_raise. unfold bind, raise.
    pose proof (Hnb None ltac:(discriminate)) as H0.
    destruct (run_list k ws None s) as [[[]|x] s1] eqn:E0; cbn [fst snd] in *.
    + rewrite N.eqb_refl. reflexivity.
    + rewrite H0. reflexivity.
  - rewrite Hnb by congruence. destruct (run_list k ws _ s); reflexivity.
Qed.

Lemma sim_break nm : sim (Z0Break nm).
Proof.
  intros n rho v k s Inv Hn Hr HI _ _ _. cbn [need] in Hn. do 3 (destruct n as [|n]; [lia|]).
  cbn [emb den0]. unfold eval_q, q_term.
  cbn [evals_n step ev_q step_eval_q push_defs fold_left ev_t step_eval_t rev app].
  destruct (lookup_label rho nm); reflexivity.
Qed.

Lemma sim_label nm body : sim body -> sim (Z0Label nm body).
Proof.
  intros Hb n rho v k s Inv Hn Hr HI Hk Hlt Hs. cbn [need] in Hn. do 3 (destruct n as [|n]; [lia|]).
  cbn [emb]. unfold eval_q, q_term. cbn [evals_n step ev_q step_eval_q push_defs fold_left ev_t step_eval_t rev app scoped_ids].
  fold_eval. unfold with_label, with_cell.
  change (mkst (outs s) (nout s) (cap s) (nextid s + 1)%N (inputs s) ((nextid s, (VNull, None)) :: cells s) (repsens s) (steps s))
    with (fr1 (plain VNull) s).
  rewrite catch_break_eq.
  rewrite (Hb _ _ _ _ _ (inv_frame Inv (nextid s))); [|lia|exact Hr|apply inv_frame_ok; exact HI|apply K_frame_ok; assumption| |exists [], VNull, s; auto].
  2:{ intros s1 (fs & cur & s0 & H0 & Hc & ->). cbn [lab_bound]. rewrite frames_nextid. specialize (Hlt s0 H0). lia. }
  set (rc := den0 rs body (BLabel nm (nextid s) :: rho) v).
  unfold run_res. rewrite (run_list_fr Inv k _ _ s (plain VNull) Hk Hs). cbn [fst snd].
  (* the renaming step: the id of den0 and the id of Sem give the same result *)
  assert (HA : den0 rs (Z0Label nm body) rho v = label_res (nextid s) (fst rc, snd rc)).
  { cbn [den0]. set (ID := lab_bound rho). set (p := fun i : N => if (i =? nextid s)%N then ID else i).
    assert (E : BLabel nm ID :: rho = ren_env p (BLabel nm (nextid s) :: rho)).
    { cbn [ren_env map ren_b]. unfold p at 1. rewrite N.eqb_refl. f_equal. symmetry. apply ren_env_id.
      intros l Hl. unfold p. apply lab_ids_lt in Hl. specialize (Hlt s Hs). destruct (N.eqb_spec l (nextid s)); [lia|reflexivity]. }
    rewrite E, den0_ren. fold rc.
    pose proof (den0_brk body (BLabel nm (nextid s) :: rho) v) as Hbk. fold rc in Hbk. cbn [lab_ids] in Hbk.
    destruct rc as [ws [[d c val|l| | | |]|]]; cbn [ren_res fst snd option_map ren_exn label_res]; try reflexivity.
    destruct (N.eqb_spec l (nextid s)) as [->|Hne].
    - unfold p. rewrite N.eqb_refl, N.eqb_refl. reflexivity.
    - destruct (Hbk l eq_refl) as [H|H]; [congruence|]. apply lab_ids_lt in H. fold ID in H.
      unfold ren_res, p. cbn [fst snd option_map ren_exn label_res].
      destruct (N.eqb_spec l (nextid s)); [contradiction|]. destruct (N.eqb_spec l ID); [lia|reflexivity]. }
  rewrite HA. clear HA. fold (run_res k (label_res (nextid s) (fst rc, snd rc)) s).
  pose proof (catch_run Inv k (fst rc) (snd rc) s Hk Hs) as HC.
  pose proof (run_list_nid Inv k (fst (label_res (nextid s) (fst rc, snd rc))) (snd (label_res (nextid s) (fst rc, snd rc))) s Hk Hs) as Hnid.
  fold (run_res k (label_res (nextid s) (fst rc, snd rc)) s) in Hnid.
  remember (run_res k (label_res (nextid s) (fst rc, snd rc)) s) as R' eqn:ER'. clear ER'.
  pose proof (f_equal fst HC) as HC1. pose proof (f_equal snd HC) as HC2. cbn [fst snd] in HC1, HC2. rewrite HC1, HC2. clear HC HC1 HC2.
  destruct R' as [[[]|x] sR]; cbn [fst snd fr1 cells cell_lookup cell_remove outs nout cap nextid inputs repsens steps] in *;
    rewrite Hnid, N.eqb_refl.
  - unfold ret. f_equal. rewrite <- Hnid. destruct sR; reflexivity.
  - f_equal. rewrite <- Hnid. destruct sR; reflexivity.
Qed.

(* the reference semantics agrees with the eager list semantics on the state-free fragment *)
Fixpoint sem_den0 (q : q0) : ok0 q -> sim q.
Proof.
  destruct q; cbn [ok0]; intros H.
  - apply sim_leaves. - apply sim_leaves. - apply sim_leaves. - apply sim_leaves. - apply sim_leaves.
  - apply sim_pipe; apply sem_den0; tauto.
  - apply sim_comma; apply sem_den0; tauto.
  - apply sim_empty.
  - apply sim_iter; apply sem_den0; exact H.
  - apply sim_field; apply sem_den0; exact H.
  - apply sim_if; apply sem_den0; tauto.
  - apply sim_try; [apply sem_den0; tauto|]. destruct h as [h|]; [apply sem_den0; tauto|exact I].
  - apply sim_error.
  - apply sim_length.
  - apply sim_bind; [tauto|apply sem_den0; tauto|apply sem_den0; tauto].
  - apply sim_var. exact H.
  - apply sim_array. apply sem_den0. exact H.
  - apply sim_reduce; [tauto|apply sem_den0; tauto|apply sem_den0; tauto|apply sem_den0; tauto].
  - apply sim_alt; apply sem_den0; tauto.
  - apply sim_foreach; [tauto|apply sem_den0; tauto|apply sem_den0; tauto|apply sem_den0; tauto|destruct ext as [e|]; [apply sem_den0; tauto|exact I]].
  - apply sim_label. apply sem_den0. exact H.
  - apply sim_break.
  - apply sim_binop; [tauto|apply sem_den0; tauto|apply sem_den0; tauto].
Qed.

(* observation level: when the generator ends before the cap, the observation is the list *)
Definition ending_of (e : option exn) : ending :=
  match e with
  | None => EndNormal
  | Some XStop => EndCap
  | Some (XErr _ c val) => EndError c val
  | Some (XBreak _) => EndError EBreak None
  | Some (XHalt hv code) => EndHalt hv code
  | Some XFuel => EndSkip (codes "fuel")
  | Some (XSkip why) => EndSkip why
  end.

Lemma run_emit ws e : forall s, (nout s + List.length ws < cap s)%nat ->
  exists s', run_list emit ws e s = (match e with None => inl tt | Some x => inr x end, s') /\
             outs s' = rev ws ++ outs s.
Proof.
  induction ws as [|w r IH]; intros s Hc; cbn [run_list].
  - exists s. destruct e; split; reflexivity.
  - unfold bind, emit at 1. cbn [fst plain].
    replace (Nat.leb (cap s) (S (nout s))) with false by (symmetry; apply Nat.leb_gt; cbn [List.length] in Hc; lia).
    destruct (IH (mkst (w :: outs s) (S (nout s)) (cap s) (nextid s) (inputs s) (cells s) (repsens s) (steps s))) as [s' [E1 E2]].
    { cbn [nout cap List.length] in *. lia. }
    exists s'. split; [exact E1|]. rewrite E2. cbn [outs rev]. rewrite <- app_assoc. reflexivity.
Qed.

Definition inv_top (s : sst) : Prop := repsens s = rs.
Lemma inv_top_ok : inv_ok inv_top.
Proof. split; [intros s H; exact H|intros s val H; exact H]. Qed.

Lemma emit_ok : K_ok inv_top emit.
Proof.
  constructor.
  - intros w s Hs. unfold emit. destruct (Nat.leb (cap s) (S (nout s))); exact Hs.
  - intros w s _. unfold emit. destruct (Nat.leb (cap s) (S (nout s))); reflexivity.
  - intros w s val _. unfold emit. cbn [fr1 cap nout]. destruct (Nat.leb (cap s) (S (nout s))); reflexivity.
  - intros w s l _. unfold emit. destruct (Nat.leb (cap s) (S (nout s))); discriminate.
Qed.

Theorem observe_den0 q : ok0 q -> forall n capn ins v,
  (need q <= n)%nat -> (List.length (fst (den0 rs q [] v)) < capn)%nat ->
  observe bs n capn rs ins (emb q) v = (fst (den0 rs q [] v), ending_of (snd (den0 rs q [] v))).
Proof.
  intros Hq n capn ins v Hn Hc. unfold observe.
  rewrite (sem_den0 q Hq n [] v emit (init_state capn ins rs) inv_top Hn I inv_top_ok emit_ok (fun s' _ => N.le_0_l (nextid s')) eq_refl).
  unfold run_res. destruct (run_emit (fst (den0 rs q [] v)) (snd (den0 rs q [] v)) (init_state capn ins rs)) as [s' [E1 E2]].
  { cbn [nout cap init_state]. lia. }
  rewrite E1. cbn [outs init_state] in E2. rewrite app_nil_r in E2.
  destruct (snd (den0 rs q [] v)) as [x|]; unfold rev'; rewrite <- rev_alt, E2, rev_involutive; [destruct x|]; reflexivity.
Qed.
End Link.
