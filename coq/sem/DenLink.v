(* DenLink.v — the reference semantics (demand-driven, continuation-passing) agrees with an EAGER LIST
   semantics on the state-free fragment F0 of jq: identity, scalar literals, pipe, comma, empty, t[], t.k,
   if/else, try/catch, error, length, `src as $x | body`, $x.  den0 is written clause by clause like
   coq/c01vm/Den.v (seq / bind_list / bind), over the values and natives of coq/sem; F0 is the part of
   c01vm's fragment F whose evaluation allocates no cell and no fresh id (so that no frame lemma is
   needed).  This is the Sem side of the link Sem <-> Den <-> VM (coq/c01vm proves Den <-> VM). *)
From Coq Require Import String.
From Coq Require Import List ZArith NArith Bool Lia.
From Verif Require Import common.Sexp sem.JV sem.Syntax sem.Natives sem.Sem sem.SemProofs.
Import ListNotations.

(* the state-free fragment F0 (the part of coq/c01vm's fragment F that needs no cell and no fresh id) *)
Inductive q0 :=
| Z0Id
| Z0Null | Z0Bool (b : bool) | Z0Num (t : bytes) (n : num) | Z0Str (s : bytes)
| Z0Pipe (a b : q0)
| Z0Comma (a b : q0)
| Z0Empty
| Z0Iter (t : q0)
| Z0Field (t : q0) (c : N) (k : bytes)        (* t.k, key c :: k *)
| Z0If (c a b : q0)
| Z0Try (a : q0) (h : option q0)
| Z0Error | Z0Length
| Z0Bind (src : q0) (x : bytes) (body : q0)   (* src as $x | body ; x carries the $ *)
| Z0Var (x : bytes)
| Z0Array (q : q0)                            (* [q] *)
| Z0Reduce (src : q0) (x : bytes) (init upd : q0).   (* reduce src as $x (init; upd) *)

Definition paren (q : query) : term := Term (TQuery q) [].

(* the AST gojq.Parse gives these shapes (every compound operand in parentheses) *)
Fixpoint emb (q : q0) : query :=
  match q with
  | Z0Id => q_identity
  | Z0Null => q_term TNull
  | Z0Bool true => q_term TTrue
  | Z0Bool false => q_term TFalse
  | Z0Num t n => q_term (TNumber t n)
  | Z0Str s => q_term (TString (JString s None))
  | Z0Pipe a b => q_bin (emb a) OpPipe (emb b)
  | Z0Comma a b => q_bin (emb a) OpComma (emb b)
  | Z0Empty => q_call (codes "empty") []
  | Z0Iter t => Query [] [] (Some (Term (TQuery (emb t)) [Suffix None true false])) None None None []
  | Z0Field t c k => Query [] [] (Some (Term (TQuery (emb t)) [Suffix (Some (Index (c :: k) None None None false)) false false])) None None None []
  | Z0If c a b => q_term (TIf (emb c) (emb a) [] (Some (emb b)))
  | Z0Try a h => q_term (TTry (emb a) (option_map emb h))
  | Z0Error => q_call (codes "error") []
  | Z0Length => q_call (codes "length") []
  | Z0Bind src x body => Query [] [] None (Some (emb src)) (Some OpPipe) (Some (emb body)) [Pattern x [] []]
  | Z0Var x => q_call x []
  | Z0Array q => q_term (TArray (Some (emb q)))
  | Z0Reduce src x init upd => q_term (TReduce (emb src) (Pattern x [] []) (emb init) (emb upd))
  end.

(* eager list semantics, clause by clause as coq/c01vm/Den.v *)
Definition result := (list jv * option exn)%type.
Definition rseq (r k : result) : result :=
  match r with
  | (ws, None) => (ws ++ fst k, snd k)
  | (ws, Some x) => (ws, Some x)
  end.
Fixpoint rbind_list (ws : list jv) (f : jv -> result) : result :=
  match ws with
  | [] => ([], None)
  | w :: r => rseq (f w) (rbind_list r f)
  end.
Definition rbind (r : result) (f : jv -> result) : result :=
  match rbind_list (fst r) f with
  | (os, Some x) => (os, Some x)
  | (os, None) => (os, snd r)
  end.
Section Den0.
Variable rs : bool.   (* the run's representation flag (Sem.repsens): message texts are withheld when set *)
Definition mask (c : errclass) (val : option jv) : option jv :=
  match c with
  | EUser | EPlain => val
  | _ => if rs then None else val
  end.
Definition of_nres (r : nres) : result :=
  match r with
  | NOk w => ([w], None)
  | NErr c val => ([], Some (XErr O c (mask c val)))
  | NSkip why => ([], Some (XSkip why))
  end.
Definition iter_res (w : jv) : result :=
  match w with
  | VArr l => (l, None)
  | VObj kvs => (map snd kvs, None)
  | _ => ([], Some (XErr O EIterator (mask EIterator (msg_iterator w))))
  end.
Definition bind_env (rho : env) (x : bytes) (w : jv) : env := BVar x (plain w) :: BVar x (plain VNull) :: rho.

(* reduce: the accumulator takes the LAST output of the update, or stays when the update is empty *)
Fixpoint reduce_fold0 (upd : jv -> jv -> result) (ws : list jv) (acc : jv) : jv + exn :=
  match ws with
  | [] => inl acc
  | w :: r => match upd w acc with
              | (us, None) => reduce_fold0 upd r (last us acc)
              | (_, Some x) => inr x
              end
  end.

Fixpoint den0 (q : q0) (rho : env) (v : jv) : result :=
  match q with
  | Z0Id => ([v], None)
  | Z0Null => ([VNull], None)
  | Z0Bool b => ([VBool b], None)
  | Z0Num _ n => ([VNum n], None)
  | Z0Str s => ([VStr s], None)
  | Z0Pipe a b => rbind (den0 a rho v) (den0 b rho)
  | Z0Comma a b => rseq (den0 a rho v) (den0 b rho v)
  | Z0Empty => ([], None)
  | Z0Iter t => rbind (den0 t rho v) iter_res
  | Z0Field t c k => rbind (den0 t rho v) (fun w => of_nres (fn_index2 w (VStr (c :: k))))
  | Z0If c a b => rbind (den0 c rho v) (fun w => if truthy w then den0 a rho v else den0 b rho v)
  | Z0Try a h =>
      match den0 a rho v with
      | (ws, Some (XErr O c val)) =>
          match h with
          | None => (ws, None)
          | Some h => match val with
                      | Some e => rseq (ws, None) (den0 h rho e)
                      | None => (ws, Some (XSkip (codes "error-message")))
                      end
          end
      | r => r
      end
  | Z0Error => ([], Some (XErr O EUser (Some v)))
  | Z0Length => of_nres (fn_length v)
  | Z0Bind src x body => rbind (den0 src rho v) (fun w => den0 body (bind_env rho x w) v)
  | Z0Var x => match lookup_var rho x with Some w => ([fst w], None) | None => ([], Some (XSkip (codes "undefined-variable"))) end
  | Z0Array q =>
      match den0 q rho v with
      | (ws, None) => ([VArr ws], None)
      | (_, Some x) => ([], Some x)
      end
  | Z0Reduce src x init upd =>
      rbind (den0 init rho v) (fun s0 =>
        let '(ws, sx) := den0 src rho v in
        match reduce_fold0 (fun w acc => den0 upd (BVar x (plain w) :: rho) acc) ws s0 with
        | inr e => ([], Some e)
        | inl acc => match sx with Some e => ([], Some e) | None => ([acc], None) end
        end)
  end.

End Den0.

(* the CPS reading of a result: call k on every output in order, then end as the result ends *)
Fixpoint run_list (k : K) (ws : list jv) (e : option exn) : M unit :=
  match ws with
  | [] => match e with None => ret tt | Some x => raise x end
  | w :: r => k (plain w) None ;; run_list k r e
  end.
Definition run_res (k : K) (r : result) : M unit := run_list k (fst r) (snd r).


Lemma run_list_app k a b e s :
  run_list k (a ++ b) e s = (run_list k a None ;; run_list k b e) s.
Proof.
  revert s. induction a as [|w a IH]; intros s; cbn [app run_list]; [reflexivity|].
  unfold bind in *. destruct (k (plain w) None s) as [[[]|x] s1]; [apply IH|reflexivity].
Qed.

Lemma run_list_exn_absorbs k ws x (m : M unit) s :
  (run_list k ws (Some x) ;; m) s = run_list k ws (Some x) s.
Proof.
  revert s. induction ws as [|w r IH]; intros s; cbn [run_list]; [reflexivity|].
  unfold bind in *. destruct (k (plain w) None s) as [[[]|y] s1]; [apply IH|reflexivity].
Qed.

Lemma run_list_raise k ws x s : run_list k ws (Some x) s = (run_list k ws None ;; raise x) s.
Proof.
  revert s. induction ws as [|w r IH]; intros s; cbn [run_list]; [reflexivity|].
  unfold bind in *. destruct (k (plain w) None s) as [[[]|y] s1]; [apply IH|reflexivity].
Qed.

Lemma run_rbind k f ws e s :
  run_list (fun x _ => run_res k (f (fst x))) ws e s = run_res k (rbind (ws, e) f) s.
Proof.
  revert s. induction ws as [|w r IH]; intros s.
  - reflexivity.
  - cbn [run_list fst plain]. unfold rbind in *. cbn [fst snd rbind_list] in *.
    destruct (f w) as [os [x|]] eqn:Ef; cbn [rseq fst snd].
    + unfold run_res at 1. cbn [fst snd]. rewrite run_list_exn_absorbs. reflexivity.
    + unfold run_res at 1. cbn [fst snd]. unfold bind.
      destruct (rbind_list r f) as [os' [x|]] eqn:ER; unfold run_res; cbn [fst snd];
        rewrite run_list_app; unfold bind;
        destruct (run_list k os None s) as [[[]|y] s1]; try reflexivity; rewrite IH; reflexivity.
Qed.

Lemma run_try k ws e h s :
  try_catch (run_list (fun x ps => down (k x ps)) ws e) h s =
  (run_list k ws None ;;
   match e with
   | None => ret tt
   | Some (XErr O c val) => h val
   | Some (XErr (S d) c val) => raise (XErr d c val)
   | Some x => raise x
   end) s.
Proof.
  revert s. induction ws as [|w r IH]; intros s.
  - cbn [run_list]. unfold try_catch, bind, ret, raise. destruct e as [[[|d] c val| | | | |]|]; reflexivity.
  - cbn [run_list]. unfold try_catch, bind, down in *.
    destruct (k (plain w) None s) as [[[]|x] s1]; [apply IH|]. destruct x; reflexivity.
Qed.

Section Link.
Variable bs : list funcdef.
Variable rs : bool.

(* continuations keep the representation flag (every state update of Sem does) *)
(* continuations keep an invariant of the state that implies the representation flag *)
Definition K_ok (Inv : sst -> Prop) (k : K) : Prop := forall w s, Inv s -> Inv (snd (k (plain w) None s)).

Lemma run_list_ok Inv k ws e s : K_ok Inv k -> Inv s -> Inv (snd (run_list k ws e s)).
Proof.
  intros Hk. revert s. induction ws as [|w r IH]; intros s Hs; cbn [run_list].
  - destruct e; exact Hs.
  - unfold bind. specialize (Hk w s Hs). destruct (k (plain w) None s) as [[[]|x] s1]; cbn in *.
    + apply IH. exact Hk. + exact Hk.
Qed.

Lemma run_list_ext Inv k1 k2 ws e s : K_ok Inv k1 -> Inv s ->
  (forall w s', Inv s' -> k1 (plain w) None s' = k2 (plain w) None s') ->
  run_list k1 ws e s = run_list k2 ws e s.
Proof.
  intros Hk Hs He. revert s Hs. induction ws as [|w r IH]; intros s Hs; cbn [run_list]; [reflexivity|].
  unfold bind. rewrite <- (He w s Hs). specialize (Hk w s Hs).
  destruct (k1 (plain w) None s) as [[[]|x] s1]; [apply IH; exact Hk|reflexivity].
Qed.

Hypothesis Hempty : lookup_builtin bs (codes "empty") 0 = None.
Hypothesis Herror : lookup_builtin bs (codes "error") 0 = None.
Hypothesis Hlength : lookup_builtin bs (codes "length") 0 = None.

Fixpoint vars_only (rho : env) : Prop :=
  match rho with
  | [] => True
  | BVar _ (_, None) :: r => vars_only r
  | _ => False
  end.

Lemma vars_only_fun rho name ar : vars_only rho -> lookup_fun rho name ar = None.
Proof. induction rho as [|b r IH]; [reflexivity|]. destruct b as [nm [x [i|]]| | |]; cbn; tauto. Qed.

Lemma vars_only_var rho x w : vars_only rho -> lookup_var rho x = Some w -> w = plain (fst w).
Proof.
  induction rho as [|b r IH]; [discriminate|]. destruct b as [nm [y [i|]]| | |]; cbn; try tauto.
  intros Hr. destruct (list_N_eqb nm x); [intros [= <-]; reflexivity|apply IH; exact Hr].
Qed.

Fixpoint ok0 (q : q0) : Prop :=
  match q with
  | Z0Pipe a b | Z0Comma a b => ok0 a /\ ok0 b
  | Z0Iter t | Z0Field t _ _ => ok0 t
  | Z0If c a b => ok0 c /\ ok0 a /\ ok0 b
  | Z0Try a h => ok0 a /\ match h with Some h => ok0 h | None => True end
  | Z0Bind src x body => is_var_name x = true /\ ok0 src /\ ok0 body
  | Z0Var x => is_var_name x = true /\ list_N_eqb x (codes "$ENV") = false
  | Z0Array q => ok0 q
  | Z0Reduce src x init upd => is_var_name x = true /\ ok0 src /\ ok0 init /\ ok0 upd
  | _ => True
  end.

Fixpoint need (q : q0) : nat :=
  match q with
  | Z0Pipe a b | Z0Comma a b => S (Nat.max (need a) (need b))
  | Z0Iter t | Z0Field t _ _ => 4 + need t
  | Z0If c a b => 3 + Nat.max (need c) (Nat.max (need a) (need b))
  | Z0Try a h => 3 + Nat.max (need a) (match h with Some h => need h | None => 0 end)
  | Z0Bind src x body => 3 + Nat.max (need src) (need body)
  | Z0Array q => 3 + need q
  | Z0Reduce src x init upd => 4 + Nat.max (need src) (Nat.max (need init) (need upd))
  | _ => 4
  end.

Definition sim (q : q0) : Prop :=
  forall (n : nat) rho v k s (Inv : sst -> Prop), (need q <= n)%nat -> vars_only rho ->
    (forall s0, Inv s0 -> repsens s0 = rs) -> K_ok Inv k -> Inv s ->
    eval_q bs n rho (emb q) (plain v) None k s = run_res k (den0 rs q rho v) s.

Lemma run_single k w s : run_res k ([w], None) s = k (plain w) None s.
Proof. unfold run_res. cbn [run_list fst snd]. unfold bind, ret. destruct (k (plain w) None s) as [[[]|x] s1]; reflexivity. Qed.

Ltac fuel2 n := do 2 (destruct n as [|n]; [cbn in *; lia|]).

Lemma sim_leaves : sim Z0Id /\ sim Z0Null /\ (forall b, sim (Z0Bool b)) /\ (forall t m, sim (Z0Num t m)) /\ (forall x, sim (Z0Str x)).
Proof.
  repeat split; intros; intros n rho v k s Inv Hn _ _ _ _; fuel2 n; cbn [den0]; rewrite run_single; try reflexivity.
  - destruct b; reflexivity.
  - destruct n as [|n]; [cbn in Hn; lia|]. reflexivity.
Qed.

Lemma sim_pipe a b : sim a -> sim b -> sim (Z0Pipe a b).
Proof.
  intros Ha Hb n rho v k s Inv Hn Hr HI Hk Hs. cbn [need] in Hn. destruct n as [|n]; [lia|].
  cbn [emb den0]. rewrite pipe_law.
  assert (HK : K_ok Inv (fun x ps' => eval_q bs n rho (emb b) x ps' k)).
  { intros w s' Hs'. rewrite (Hb _ _ _ _ _ Inv) by (try lia; assumption). apply (run_list_ok Inv); assumption. }
  rewrite (Ha _ _ _ _ _ Inv) by (try lia; assumption). unfold run_res at 1.
  rewrite (run_list_ext Inv _ (fun x _ => run_res k (den0 rs b rho (fst x)))); try assumption.
  - rewrite run_rbind. destruct (den0 rs a rho v); reflexivity.
  - intros w s' Hs'. apply (Hb _ _ _ _ _ Inv); try assumption. lia.
Qed.

Lemma sim_comma a b : sim a -> sim b -> sim (Z0Comma a b).
Proof.
  intros Ha Hb n rho v k s Inv Hn Hr HI Hk Hs. cbn [need] in Hn. destruct n as [|n]; [lia|].
  cbn [emb den0]. rewrite comma_law. unfold bind. rewrite (Ha _ _ _ _ _ Inv) by (try lia; assumption).
  pose proof (run_list_ok Inv k (fst (den0 rs a rho v)) (snd (den0 rs a rho v)) s Hk Hs) as Hs1.
  unfold run_res in *. destruct (den0 rs a rho v) as [ws [x|]]; cbn [fst snd rseq] in *.
  - rewrite <- (run_list_exn_absorbs k ws x (ret tt)). unfold bind.
    destruct (run_list k ws (Some x) s) as [[[]|y] s1] eqn:E; [|reflexivity].
    exfalso. clear -E. revert s E. induction ws as [|w r IH]; intros s E; cbn [run_list] in E; [discriminate|].
    unfold bind in E. destruct (k (plain w) None s) as [[[]|y] s2]; [eapply IH; exact E|discriminate].
  - rewrite run_list_app. unfold bind. destruct (run_list k ws None s) as [[[]|y] s1]; [|reflexivity].
    apply (Hb _ _ _ _ _ Inv); try assumption. lia.
Qed.

Lemma sim_empty : sim Z0Empty.
Proof.
  intros n rho v k s Inv Hn Hr HI _ _. cbn [need] in Hn. do 3 (destruct n as [|n]; [lia|]).
  cbn [emb den0]. unfold eval_q, q_call, q_term.
  cbn [evals_n step ev_q step_eval_q push_defs fold_left ev_t step_eval_t rev app ev_call].
  unfold step_call. cbn [List.length].
  replace (is_var_name (codes "empty") && Nat.eqb 0 0) with false by reflexivity.
  rewrite (vars_only_fun _ _ _ Hr), Hempty. reflexivity.
Qed.

Lemma sim_error : sim Z0Error.
Proof.
  intros n rho v k s Inv Hn Hr HI _ _. cbn [need] in Hn. do 3 (destruct n as [|n]; [lia|]).
  cbn [emb den0]. unfold eval_q, q_call, q_term.
  cbn [evals_n step ev_q step_eval_q push_defs fold_left ev_t step_eval_t rev app ev_call].
  unfold step_call. cbn [List.length].
  replace (is_var_name (codes "error") && Nat.eqb 0 0) with false by reflexivity.
  rewrite (vars_only_fun _ _ _ Hr), Herror. reflexivity.
Qed.

Lemma sim_length : sim Z0Length.
Proof.
  intros n rho v k s Inv Hn Hr HI _ Hs. cbn [need] in Hn. do 3 (destruct n as [|n]; [lia|]).
  cbn [emb den0]. unfold eval_q, q_call, q_term.
  cbn [evals_n step ev_q step_eval_q push_defs fold_left ev_t step_eval_t rev app ev_call].
  unfold step_call. cbn [List.length].
  replace (is_var_name (codes "length") && Nat.eqb 0 0) with false by reflexivity.
  rewrite (vars_only_fun _ _ _ Hr), Hlength.
  change (guard_repsens (codes "length") (fst (plain v))
            (lift (fn_length v) (fun w => k (plain w) None)) s = run_res k (of_nres rs (fn_length v)) s).
  unfold guard_repsens. replace (is_formatter (codes "length")) with false by reflexivity.
  destruct (fn_length v) as [w|c val|why]; cbn [lift of_nres].
  - rewrite run_single. reflexivity.
  - unfold raise_err, run_res, mask. cbn [run_list fst snd]. rewrite (HI _ Hs). reflexivity.
  - reflexivity.
Qed.

Lemma sim_var x : ok0 (Z0Var x) -> sim (Z0Var x).
Proof.
  intros [Hx Henv] n rho v k s Inv Hn Hr HI _ _. cbn [need] in Hn. do 3 (destruct n as [|n]; [lia|]).
  cbn [emb den0]. unfold eval_q, q_call, q_term.
  cbn [evals_n step ev_q step_eval_q push_defs fold_left ev_t step_eval_t rev app ev_call].
  unfold step_call. cbn [List.length]. rewrite Hx. cbn [andb Nat.eqb].
  destruct (lookup_var rho x) as [w|] eqn:E.
  - rewrite run_single. rewrite <- (vars_only_var _ _ _ Hr E). reflexivity.
  - change (list_N_eqb x nm_0) with (list_N_eqb x (codes "$ENV")). rewrite Henv. reflexivity.
Qed.

(* .[] outside path tracking *)
Lemma iterate_run k w s : repsens s = rs -> iterate (plain w) None k s = run_res k (iter_res rs w) s.
Proof.
  intros Hs. unfold iterate. cbn [fst plain].
  assert (Hel : forall (elems : list (jv * jv)) s,
    (fix go (l : list (jv * jv)) : M unit :=
       match l with
       | [] => ret tt
       | (key, e) :: r => k (plain e) None ;; go r
       end) elems s = run_list k (map snd elems) None s).
  { induction elems as [|[key e] r IH]; intros s0; [reflexivity|]. cbn [map snd run_list]. unfold bind.
    destruct (k (plain e) None s0) as [[[]|x] s1]; [apply IH|reflexivity]. }
  destruct w; try (unfold raise_err, run_res, iter_res, mask; cbn [run_list fst snd]; rewrite Hs; reflexivity).
  - unfold iter_res, run_res. cbn [fst snd]. rewrite Hel. f_equal.
    generalize 0%Z. induction l as [|e r IH]; intros z; [reflexivity|]. cbn. f_equal. apply IH.
  - unfold iter_res, run_res. cbn [fst snd]. rewrite Hel. rewrite map_map. reflexivity.
Qed.

Ltac fold_eval :=
  repeat match goal with
         | |- context [step_eval_q (evals_n bs ?m)] => change (step_eval_q (evals_n bs m)) with (eval_q bs (S m))
         | |- context [ev_q (step bs (evals_n bs ?m))] => change (ev_q (step bs (evals_n bs m))) with (eval_q bs (S m))
         | |- context [ev_q (evals_n bs ?m)] => change (ev_q (evals_n bs m)) with (eval_q bs m)
         end.

Lemma sim_iter t : sim t -> sim (Z0Iter t).
Proof.
  intros Ht n rho v k s Inv Hn Hr HI Hk Hs. cbn [need] in Hn. do 4 (destruct n as [|n]; [lia|]).
  cbn [emb den0]. unfold eval_q. cbn [evals_n step ev_q step_eval_q push_defs fold_left ev_t step_eval_t rev app].
  fold_eval.
  assert (HK : K_ok Inv (fun x ps' => iterate x ps' k)).
  { intros w s' Hs'. rewrite iterate_run by (apply HI; assumption). apply (run_list_ok Inv); assumption. }
  rewrite (Ht _ _ _ _ _ Inv) by (try lia; assumption). unfold run_res at 1.
  rewrite (run_list_ext Inv _ (fun x _ => run_res k (iter_res rs (fst x)))); try assumption.
  - rewrite run_rbind. destruct (den0 rs t rho v); reflexivity.
  - intros w s' Hs'. apply iterate_run. apply HI. exact Hs'.
Qed.

Lemma index_run k w key s : repsens s = rs ->
  lift (fn_index2 w key) (fun r => nav None (plain w) key r k) s = run_res k (of_nres rs (fn_index2 w key)) s.
Proof.
  intros Hs. destruct (fn_index2 w key) as [r|c val|why]; cbn [lift of_nres nav].
  - rewrite run_single. reflexivity.
  - unfold raise_err, run_res, mask. cbn [run_list fst snd]. rewrite Hs. reflexivity.
  - reflexivity.
Qed.

Lemma sim_field t c key : sim t -> sim (Z0Field t c key).
Proof.
  intros Ht n rho v k s Inv Hn Hr HI Hk Hs. cbn [need] in Hn. do 4 (destruct n as [|n]; [lia|]).
  cbn [emb den0]. unfold eval_q. cbn [evals_n step ev_q step_eval_q push_defs fold_left ev_t step_eval_t rev app ev_index].
  unfold step_eval_index. cbn [index_key ev_t step step_eval_t rev app].
  fold_eval.
  assert (HK : K_ok Inv (fun x ps' => lift (fn_index2 (fst x) (VStr (c :: key))) (fun w => nav ps' x (VStr (c :: key)) w k))).
  { intros w s' Hs'. cbn [fst plain]. rewrite index_run by (apply HI; assumption). apply (run_list_ok Inv); assumption. }
  rewrite (Ht _ _ _ _ _ Inv) by (try lia; assumption). unfold run_res at 1.
  rewrite (run_list_ext Inv _ (fun x _ => run_res k (of_nres rs (fn_index2 (fst x) (VStr (c :: key)))))); try assumption.
  - rewrite (run_rbind k (fun w => of_nres rs (fn_index2 w (VStr (c :: key))))). destruct (den0 rs t rho v); reflexivity.
  - intros w s' Hs'. apply index_run. apply HI. exact Hs'.
Qed.

Lemma sim_if c a b : sim c -> sim a -> sim b -> sim (Z0If c a b).
Proof.
  intros Hc Ha Hb n rho v k s Inv Hn Hr HI Hk Hs. cbn [need] in Hn. do 3 (destruct n as [|n]; [lia|]).
  cbn [emb den0]. unfold eval_q, q_term. cbn [evals_n step ev_q step_eval_q push_defs fold_left ev_t step_eval_t rev app if_chain].
  fold_eval.
  set (K' := fun (x : tv) (_ : pst) => if truthy (fst x) then eval_q bs (S n) rho (emb a) (plain v) None k
                                       else eval_q bs (S n) rho (emb b) (plain v) None k).
  assert (HK : K_ok Inv K').
  { intros w s' Hs'. unfold K'. cbn [fst plain]. destruct (truthy w).
    - rewrite (Ha _ _ _ _ _ Inv) by (try lia; assumption). apply (run_list_ok Inv); assumption.
    - rewrite (Hb _ _ _ _ _ Inv) by (try lia; assumption). apply (run_list_ok Inv); assumption. }
  change (eval_q bs (S n) rho (emb c) (plain v) None K' s = run_res k (rbind (den0 rs c rho v) (fun w => if truthy w then den0 rs a rho v else den0 rs b rho v)) s).
  rewrite (Hc _ _ _ _ _ Inv) by (try lia; assumption). unfold run_res at 1.
  rewrite (run_list_ext Inv _ (fun x _ => run_res k ((fun w => if truthy w then den0 rs a rho v else den0 rs b rho v) (fst x)))); try assumption.
  - rewrite (run_rbind k (fun w => if truthy w then den0 rs a rho v else den0 rs b rho v)). destruct (den0 rs c rho v); reflexivity.
  - intros w s' Hs'. unfold K'. cbn [fst plain]. destruct (truthy w); [apply (Ha _ _ _ _ _ Inv)|apply (Hb _ _ _ _ _ Inv)]; try assumption; lia.
Qed.

(* errors in results of den0 are raised at depth 0 *)
Definition depth0 (r : result) : Prop := forall d c val, snd r = Some (XErr d c val) -> d = O.

Lemma depth0_rseq r k : depth0 r -> depth0 k -> depth0 (rseq r k).
Proof. destruct r as [ws [x|]]; cbn; intros Hr Hk; [exact Hr|exact Hk]. Qed.

Lemma depth0_rbind r f : depth0 r -> (forall w, depth0 (f w)) -> depth0 (rbind r f).
Proof.
  intros Hr Hf. unfold rbind.
  assert (H : depth0 (rbind_list (fst r) f) ).
  { induction (fst r) as [|w l IH]; [intros d c val E; discriminate|]. cbn. apply depth0_rseq; [apply Hf|exact IH]. }
  destruct (rbind_list (fst r) f) as [os [x|]]; [exact H|]. exact Hr.
Qed.

Lemma reduce_fold0_depth0 upd : (forall w acc, depth0 (upd w acc)) ->
  forall ws acc d c val, reduce_fold0 upd ws acc = inr (XErr d c val) -> d = O.
Proof.
  intros Hu. induction ws as [|w r IH]; intros acc d c val E; cbn [reduce_fold0] in E; [discriminate|].
  specialize (Hu w acc). destruct (upd w acc) as [us [x|]]; [|eapply IH; exact E].
  injection E as ->. eapply Hu. reflexivity.
Qed.

Ltac triv0 := let E := fresh "E" in intros ? ? ? E; cbn in E; congruence.

Fixpoint den0_depth0 (q : q0) : forall rho v, depth0 (den0 rs q rho v).
Proof.
  destruct q; intros rho v; cbn [den0]; try triv0.
  - apply depth0_rbind; [apply den0_depth0|intros w; apply den0_depth0].
  - apply depth0_rseq; apply den0_depth0.
  - apply depth0_rbind; [apply den0_depth0|intros w]. destruct w; triv0.
  - apply depth0_rbind; [apply den0_depth0|intros w]. destruct (fn_index2 w (VStr (c :: k))); triv0.
  - apply depth0_rbind; [apply den0_depth0|intros w]. destruct (truthy w); apply den0_depth0.
  - pose proof (den0_depth0 q rho v) as IH. destruct (den0 rs q rho v) as [ws [[d c val| | | | |]|]]; try exact IH.
    assert (d = O) by (eapply IH; reflexivity). subst d.
    destruct h as [h|]; [|triv0].
    destruct val as [e|]; [|triv0].
    apply depth0_rseq; [triv0|]. apply den0_depth0.
  - destruct (fn_length v); triv0.
  - apply depth0_rbind; [apply den0_depth0|intros w; apply den0_depth0].
  - destruct (lookup_var rho x); triv0.
  - pose proof (den0_depth0 q rho v) as IH. destruct (den0 rs q rho v) as [ws [x|]]; [|triv0].
    intros d c val E. cbn in E. eapply IH. exact E.
  - apply depth0_rbind; [apply den0_depth0|intros s0].
    pose proof (den0_depth0 q1 rho v) as IHs. destruct (den0 rs q1 rho v) as [ws sx].
    destruct (reduce_fold0 _ ws s0) as [acc|e] eqn:ER.
    + destruct sx as [e|]; [|triv0]. intros d c val E. cbn in E. eapply IHs. exact E.
    + intros d c val E. cbn in E. injection E as ->.
      eapply reduce_fold0_depth0; [|exact ER]. intros w acc. apply den0_depth0.
Qed.

Lemma sim_try a h : sim a -> match h with Some h => sim h | None => True end -> sim (Z0Try a h).
Proof.
  intros Ha Hh n rho v k s Inv Hn Hr HI Hk Hs. cbn [need] in Hn. do 3 (destruct n as [|n]; [lia|]).
  cbn [emb]. unfold eval_q, q_term. cbn [evals_n step ev_q step_eval_q push_defs fold_left ev_t step_eval_t rev app].
  fold_eval.
  assert (HK : K_ok Inv (fun y ps' => down (k y ps'))).
  { intros w s' Hs'. unfold down. specialize (Hk w s' Hs'). destruct (k (plain w) None s') as [[[]|[]] s1]; exact Hk. }
  unfold try_catch at 1.
  rewrite (Ha _ _ _ _ _ Inv) by (try lia; assumption).
  change (try_catch (run_res (fun y ps' => down (k y ps')) (den0 rs a rho v))
            (fun val => match option_map emb h with
                        | None => ret tt
                        | Some hq => match val with
                                     | Some e => eval_q bs (S n) rho hq (plain e) None k
                                     | None => skipM "error-message"
                                     end
                        end) s = run_res k (den0 rs (Z0Try a h) rho v) s).
  unfold run_res at 1. rewrite run_try. cbn [den0].
  pose proof (den0_depth0 a rho v) as Hd.
  pose proof (run_list_ok Inv k (fst (den0 rs a rho v)) None s Hk Hs) as Hs1.
  destruct (den0 rs a rho v) as [ws [[d c val| | | | |]|]]; cbn [fst snd] in *;
    try (unfold run_res; cbn [fst snd]; rewrite run_list_raise; reflexivity).
  - assert (d = O) by (eapply Hd; reflexivity). subst d.
    destruct h as [hq|]; cbn [option_map].
    + destruct val as [e|].
      * unfold run_res. cbn [rseq fst snd]. rewrite run_list_app. unfold bind.
        destruct (run_list k ws None s) as [[[]|y] s1]; [|reflexivity]. apply (Hh _ _ _ _ _ Inv); try assumption. lia.
      * unfold run_res. cbn [fst snd]. rewrite run_list_raise. reflexivity.
    + unfold run_res. cbn [fst snd]. unfold bind, ret. destruct (run_list k ws None s) as [[[]|y] s1]; reflexivity.
  - unfold run_res. cbn [fst snd]. unfold bind, ret. destruct (run_list k ws None s) as [[[]|y] s1]; reflexivity.
Qed.

(* ---- constructs with a cell: [q] and reduce (with_cell restores the state on exit) ---- *)

Definition coll (c : N) : K :=
  fun x _ => a <- get_cell c ;;
             match fst a with
             | VArr l => set_cell c (plain (VArr (fst x :: l)))
             | _ => skipM "cell"
             end.

Lemma set_cells_twice s a b : set_cells (set_cells s a) b = set_cells s b.
Proof. reflexivity. Qed.

Lemma coll_step c cs w acc s0 : cells s0 = (c, plain (VArr acc)) :: cs ->
  coll c (plain w) None s0 = (inl tt, set_cells s0 ((c, plain (VArr (w :: acc))) :: cs)).
Proof.
  intros Hc. unfold coll, bind, get_cell. rewrite Hc. cbn [cell_lookup]. rewrite N.eqb_refl. cbn [fst plain].
  unfold set_cell. rewrite Hc. cbn [cell_update]. rewrite N.eqb_refl. reflexivity.
Qed.

Lemma coll_run c cs ws e : forall acc s0, cells s0 = (c, plain (VArr acc)) :: cs ->
  run_list (coll c) ws e s0 =
  (match e with None => inl tt | Some x => inr x end, set_cells s0 ((c, plain (VArr (rev ws ++ acc))) :: cs)).
Proof.
  induction ws as [|w r IH]; intros acc s0 Hc; cbn [run_list].
  - cbn [rev app]. rewrite <- Hc. destruct s0; destruct e; reflexivity.
  - unfold bind. rewrite (coll_step c cs w acc s0 Hc).
    rewrite (IH (w :: acc) (set_cells s0 ((c, plain (VArr (w :: acc))) :: cs)) eq_refl).
    rewrite set_cells_twice. cbn [rev]. rewrite <- app_assoc. reflexivity.
Qed.

Lemma coll_ok c : K_ok (fun s => repsens s = rs) (coll c).
Proof.
  intros w s Hs. unfold coll, bind, get_cell. destruct (cell_lookup (cells s) c) as [[a i]|]; [|exact Hs].
  cbn [fst]. destruct a; exact Hs.
Qed.

Lemma sim_array q : sim q -> sim (Z0Array q).
Proof.
  intros Hq n rho v k s Inv Hn Hr HI Hk Hs. cbn [need] in Hn. do 3 (destruct n as [|n]; [lia|]).
  cbn [emb den0]. unfold eval_q, q_term. cbn [evals_n step ev_q step_eval_q push_defs fold_left ev_t step_eval_t rev app scoped_ids].
  fold_eval. unfold with_cell.
  change (fun (x : tv) (_ : pst) => a <- get_cell (nextid s);; match fst a with
            | VArr l => set_cell (nextid s) (plain (VArr (fst x :: l))) | _ => skipM "cell" end) with (coll (nextid s)).
  set (st := mkst (outs s) (nout s) (cap s) (nextid s + 1)%N (inputs s) ((nextid s, plain (VArr [])) :: cells s) (repsens s) (steps s)).
  rewrite (Hq _ _ _ _ _ (fun s1 => repsens s1 = rs)); [|lia|assumption|auto|apply coll_ok|exact (HI _ Hs)].
  unfold run_res. rewrite (coll_run (nextid s) (cells s) (fst (den0 rs q rho v)) (snd (den0 rs q rho v)) [] st eq_refl).
  subst st.
  destruct (den0 rs q rho v) as [ws [x|]]; cbn [fst snd set_cells cells cell_lookup cell_remove outs nout cap nextid inputs repsens steps].
  - rewrite N.eqb_refl. destruct s; reflexivity.
  - rewrite !N.eqb_refl. cbn [fst plain]. rewrite app_nil_r. unfold rev'. rewrite <- rev_alt, rev_involutive.
    change (run_list k [VArr ws] None s) with (run_res k ([VArr ws], None) s). rewrite run_single. destruct s; reflexivity.
Qed.

Definition setter (c : N) : K := fun u _ => set_cell c u.

Lemma last_cons {A} (u : A) r acc : last (u :: r) acc = last r u.
Proof. revert u. induction r as [|a r IH]; intros u; [reflexivity|]. cbn [last] in *. destruct r; [reflexivity|apply IH]. Qed.

Lemma setter_run c cs us e : forall acc s1, cells s1 = (c, plain acc) :: cs ->
  run_list (setter c) us e s1 =
  (match e with None => inl tt | Some x => inr x end, set_cells s1 ((c, plain (last us acc)) :: cs)).
Proof.
  induction us as [|u r IH]; intros acc s1 Hc; cbn [run_list].
  - cbn [last]. rewrite <- Hc. destruct s1; destruct e; reflexivity.
  - unfold bind, setter at 1, set_cell. rewrite Hc. cbn [cell_update]. rewrite N.eqb_refl.
    rewrite (IH u (set_cells s1 ((c, plain u) :: cs)) eq_refl). rewrite set_cells_twice, last_cons. reflexivity.
Qed.

Lemma sim_reduce src x init upd : is_var_name x = true -> sim src -> sim init -> sim upd -> sim (Z0Reduce src x init upd).
Proof.
  intros Hx Hsrc Hinit Hupd n rho v k s Inv Hn Hr HI Hk Hs. cbn [need] in Hn. do 4 (destruct n as [|n]; [lia|]).
  destruct x as [|cx x]; [discriminate Hx|].
  cbn [emb]. unfold eval_q, q_term. cbn [evals_n step ev_q step_eval_q push_defs fold_left ev_t step_eval_t rev app].
  fold_eval.
  set (upd0 := fun w acc => den0 rs upd (BVar (cx :: x) (plain w) :: rho) acc).
  set (Kitem := fun (c : N) (item : tv) (ps1 : pst) =>
         ev_bindpat (step bs (step bs (evals_n bs n))) rho (Pattern (cx :: x) [] []) item ps1
           (fun rho' ps2 => cur <- get_cell c ;; eval_q bs (S (S n)) rho' (emb upd) cur ps2 (fun u _ => set_cell c u))).
  set (F := fun s0 : jv =>
         let '(ws, sx) := den0 rs src rho v in
         match reduce_fold0 upd0 ws s0 with
         | inr e => ([], Some e)
         | inl acc => match sx with Some e => ([], Some e) | None => ([acc], None) end
         end).
  pose (InvC := fun (c : N) (cs : list (N * tv)) (s1 : sst) => repsens s1 = rs /\ exists acc, cells s1 = (c, plain acc) :: cs).
  (* one item *)
  assert (Hitem : forall c cs w acc s1, cells s1 = (c, plain acc) :: cs -> repsens s1 = rs ->
            Kitem c (plain w) None s1 =
            (match snd (upd0 w acc) with None => inl tt | Some e => inr e end,
             set_cells s1 ((c, plain (last (fst (upd0 w acc)) acc)) :: cs))).
  { intros c cs w acc s1 Hc Hs1. unfold Kitem. cbn [ev_bindpat step step_bind_pat].
    unfold bind, get_cell. rewrite Hc. cbn [cell_lookup]. rewrite N.eqb_refl.
    change (fun (u : tv) (_ : pst) => set_cell c u) with (setter c).
    rewrite (Hupd _ _ _ _ _ (fun s2 => repsens s2 = rs)); [|lia|exact Hr|auto|intros u s2 H2; exact H2|exact Hs1].
    unfold run_res. apply (setter_run c cs _ _ acc s1 Hc). }
  assert (HKitem : forall c cs, K_ok (InvC c cs) (Kitem c)).
  { intros c cs w s1 [Hs1 [acc Hc]]. rewrite (Hitem c cs w acc s1 Hc Hs1). cbn [snd]. split; [exact Hs1|]. eexists. reflexivity. }
  (* all items *)
  assert (Hitems : forall c cs ws sx acc s1, cells s1 = (c, plain acc) :: cs -> repsens s1 = rs ->
            exists a', run_list (Kitem c) ws sx s1 =
            (match reduce_fold0 upd0 ws acc with
             | inr e => inr e
             | inl _ => match sx with None => inl tt | Some e => inr e end
             end, set_cells s1 ((c, plain a') :: cs)) /\
            (forall r, reduce_fold0 upd0 ws acc = inl r -> a' = r)).
  { intros c cs ws sx. induction ws as [|w r IH]; intros acc s1 Hc Hs1; cbn [run_list reduce_fold0].
    - exists acc. split; [rewrite <- Hc; destruct s1; destruct sx; reflexivity|]. intros r [= <-]. reflexivity.
    - unfold bind. rewrite (Hitem c cs w acc s1 Hc Hs1).
      destruct (upd0 w acc) as [us [e|]]; cbn [fst snd].
      + exists (last us acc). split; [reflexivity|]. intros r0 E; discriminate.
      + destruct (IH (last us acc) (set_cells s1 ((c, plain (last us acc)) :: cs)) eq_refl Hs1) as [a' [E1 E2]].
        exists a'. rewrite E1, set_cells_twice. split; [reflexivity|exact E2]. }
  (* the continuation of init *)
  set (K' := fun (s0 : tv) (ps0 : pst) =>
         with_cell (scoped_ids ps0) s0 (fun c => eval_q bs (S (S n)) rho (emb src) (plain v) ps0 (Kitem c)) (fun res => k res ps0)).
  assert (HK' : forall w0 s', Inv s' -> K' (plain w0) None s' = run_res k (F w0) s').
  { intros w0 s' Hs'. unfold K', with_cell. cbn [scoped_ids].
    set (st := mkst (outs s') (nout s') (cap s') (nextid s' + 1)%N (inputs s') ((nextid s', plain w0) :: cells s') (repsens s') (steps s')).
    rewrite (Hsrc _ _ _ _ _ (InvC (nextid s') (cells s'))); [|lia|exact Hr|intros s0 [H0 _]; exact H0|apply HKitem|split; [exact (HI _ Hs')|eexists; reflexivity]].
    unfold run_res.
    destruct (Hitems (nextid s') (cells s') (fst (den0 rs src rho v)) (snd (den0 rs src rho v)) w0 st eq_refl (HI _ Hs')) as [a' [E1 E2]].
    rewrite E1. unfold F. destruct (den0 rs src rho v) as [ws sx]. cbn [fst snd] in *.
    destruct (reduce_fold0 upd0 ws w0) as [acc|e] eqn:ER.
    - specialize (E2 acc eq_refl). subst a'. destruct sx as [e|];
        cbn [set_cells cells cell_lookup cell_remove outs nout cap nextid inputs repsens steps]; rewrite ?N.eqb_refl.
      + subst st. destruct s'; reflexivity.
      + change (run_list k (fst ([acc], None)) (snd ([acc], None)) s') with (run_res k ([acc], None) s'). rewrite run_single. subst st. destruct s'; reflexivity.
    - cbn [set_cells cells cell_remove outs nout cap nextid inputs repsens steps]. rewrite N.eqb_refl. subst st. destruct s'; reflexivity. }
  assert (HKok : K_ok Inv K').
  { intros w0 s' Hs'. rewrite HK' by exact Hs'. apply (run_list_ok Inv); assumption. }
  change (eval_q bs (S (S n)) rho (emb init) (plain v) None K' s = run_res k (den0 rs (Z0Reduce src (cx :: x) init upd) rho v) s).
  rewrite (Hinit _ _ _ _ _ Inv) by (try lia; assumption). unfold run_res at 1.
  rewrite (run_list_ext Inv _ (fun x0 _ => run_res k (F (fst x0)))); try assumption.
  rewrite (run_rbind k F). cbn [den0]. destruct (den0 rs init rho v); reflexivity.
Qed.

Lemma syn_depth_S : exists d, syn_depth = S d.
Proof. eexists. vm_compute. reflexivity. Qed.

Lemma sim_bind src x body : is_var_name x = true -> sim src -> sim body -> sim (Z0Bind src x body).
Proof.
  intros Hx Hsrc Hbody n rho v k s Inv Hn Hr HI Hk Hs. cbn [need] in Hn. do 3 (destruct n as [|n]; [lia|]).
  cbn [emb den0]. unfold eval_q. cbn [evals_n step ev_q step_eval_q push_defs fold_left].
  destruct syn_depth_S as [d Hd]. rewrite Hd.
  destruct x as [|c x]; [discriminate Hx|].
  cbn [flat_map pattern_vars app fold_left alts_loop ev_bindpat step step_bind_pat].
  fold_eval.
  set (K' := fun (x0 : tv) (_ : pst) =>
               eval_q bs (S (S n)) (BVar (c :: x) x0 :: BVar (c :: x) (plain VNull) :: rho) (emb body) (plain v) None k).
  assert (HR : forall w, vars_only (bind_env rho (c :: x) w)) by (intros w; exact Hr).
  assert (HK : K_ok Inv K').
  { intros w s' Hs'. unfold K'. rewrite (Hbody _ _ _ _ _ Inv) by (try lia; try apply HR; assumption). apply (run_list_ok Inv); assumption. }
  change (eval_q bs (S (S n)) rho (emb src) (plain v) None K' s =
          run_res k (rbind (den0 rs src rho v) (fun w => den0 rs body (bind_env rho (c :: x) w) v)) s).
  rewrite (Hsrc _ _ _ _ _ Inv) by (try lia; assumption). unfold run_res at 1.
  rewrite (run_list_ext Inv _ (fun x0 _ => run_res k ((fun w => den0 rs body (bind_env rho (c :: x) w) v) (fst x0)))); try assumption.
  - rewrite (run_rbind k (fun w => den0 rs body (bind_env rho (c :: x) w) v)). destruct (den0 rs src rho v); reflexivity.
  - intros w s' Hs'. unfold K'. apply (Hbody _ _ _ _ _ Inv); [lia|apply HR|assumption|assumption|assumption].
Qed.

(* the reference semantics agrees with the eager list semantics on the state-free fragment *)
Fixpoint sem_den0 (q : q0) : ok0 q -> sim q.
Proof.
  destruct q; cbn [ok0]; intros H.
  - apply sim_leaves. - apply sim_leaves. - apply sim_leaves. - apply sim_leaves. - apply sim_leaves.
  - apply sim_pipe; apply sem_den0; tauto.
  - apply sim_comma; apply sem_den0; tauto.
  - apply sim_empty.
  - apply sim_iter; apply sem_den0; exact H.
  - apply sim_field; apply sem_den0; exact H.
  - apply sim_if; apply sem_den0; tauto.
  - apply sim_try; [apply sem_den0; tauto|]. destruct h as [h|]; [apply sem_den0; tauto|exact I].
  - apply sim_error.
  - apply sim_length.
  - apply sim_bind; [tauto|apply sem_den0; tauto|apply sem_den0; tauto].
  - apply sim_var. exact H.
  - apply sim_array. apply sem_den0. exact H.
  - apply sim_reduce; [tauto|apply sem_den0; tauto|apply sem_den0; tauto|apply sem_den0; tauto].
Qed.

(* observation level: when the generator ends before the cap, the observation is the list *)
Definition ending_of (e : option exn) : ending :=
  match e with
  | None => EndNormal
  | Some XStop => EndCap
  | Some (XErr _ c val) => EndError c val
  | Some (XBreak _) => EndError EBreak None
  | Some (XHalt hv code) => EndHalt hv code
  | Some XFuel => EndSkip (codes "fuel")
  | Some (XSkip why) => EndSkip why
  end.

Lemma run_emit ws e : forall s, (nout s + List.length ws < cap s)%nat ->
  exists s', run_list emit ws e s = (match e with None => inl tt | Some x => inr x end, s') /\
             outs s' = rev ws ++ outs s.
Proof.
  induction ws as [|w r IH]; intros s Hc; cbn [run_list].
  - exists s. destruct e; split; reflexivity.
  - unfold bind, emit at 1. cbn [fst plain].
    replace (Nat.leb (cap s) (S (nout s))) with false by (symmetry; apply Nat.leb_gt; cbn [List.length] in Hc; lia).
    destruct (IH (mkst (w :: outs s) (S (nout s)) (cap s) (nextid s) (inputs s) (cells s) (repsens s) (steps s))) as [s' [E1 E2]].
    { cbn [nout cap List.length] in *. lia. }
    exists s'. split; [exact E1|]. rewrite E2. cbn [outs rev]. rewrite <- app_assoc. reflexivity.
Qed.

Lemma emit_ok : K_ok (fun s => repsens s = rs) emit.
Proof. intros w s Hs. unfold emit. destruct (Nat.leb (cap s) (S (nout s))); exact Hs. Qed.

Theorem observe_den0 q : ok0 q -> forall n capn ins v,
  (need q <= n)%nat -> (List.length (fst (den0 rs q [] v)) < capn)%nat ->
  observe bs n capn rs ins (emb q) v = (fst (den0 rs q [] v), ending_of (snd (den0 rs q [] v))).
Proof.
  intros Hq n capn ins v Hn Hc. unfold observe.
  rewrite (sem_den0 q Hq n [] v emit (init_state capn ins rs) (fun s => repsens s = rs) Hn I (fun _ H => H) emit_ok eq_refl).
  unfold run_res. destruct (run_emit (fst (den0 rs q [] v)) (snd (den0 rs q [] v)) (init_state capn ins rs)) as [s' [E1 E2]].
  { cbn [nout cap init_state]. lia. }
  rewrite E1. cbn [outs init_state] in E2. rewrite app_nil_r in E2.
  destruct (snd (den0 rs q [] v)) as [x|]; unfold rev'; rewrite <- rev_alt, E2, rev_involutive; [destruct x|]; reflexivity.
Qed.
End Link.
