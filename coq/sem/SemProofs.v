(* SemProofs.v — theorems about the reference semantics Sem.v.

   1. Fuel monotonicity (the well-formedness theorem of a fuelled semantics), for the WHOLE evaluator:
      if a run with fuel n does not end in XFuel, every run with fuel m >= n gives the same result
      (same outputs, same ending, same final state).  Proof: the step functions are monotone for
      the order  a [= b  :=  "wherever a does not run out of fuel, b agrees with it"  (mle), one lemma per
      step function, closed under the monad/control combinators; then induction on the fuel.
   2. The generator laws that ARE jq's semantics, as equations between computations (for every
      continuation, hence for every observation).
   Determinism needs no theorem: eval_q is a function.                                         *)
From Coq Require Import String.
From Coq Require Import List ZArith NArith Bool Lia.
From Verif Require Import common.Sexp sem.JV sem.Syntax sem.Natives sem.Sem.
Import ListNotations.

Definition fuel_free {A} (r : (A + exn) * sst) : Prop := match fst r with inr XFuel => False | _ => True end.
Definition mle {A} (a b : M A) : Prop := forall s, fuel_free (a s) -> b s = a s.

Lemma mle_refl {A} (a : M A) : mle a a.
Proof. intros s _. reflexivity. Qed.

Lemma mle_fuel {A} (b : M A) : mle (raise XFuel) b.
Proof. intros s H. destruct H. Qed.

Lemma mle_bind {A B} (a a' : M A) (f f' : A -> M B) :
  mle a a' -> (forall x, mle (f x) (f' x)) -> mle (bind a f) (bind a' f').
Proof.
  intros Ha Hf s H. unfold bind in *. destruct (a s) as [[x|e] s1] eqn:E.
  - rewrite (Ha s) by (rewrite E; exact I). rewrite E. apply Hf. exact H.
  - rewrite (Ha s). + rewrite E. reflexivity. + rewrite E. exact H.
Qed.

Lemma mle_down a a' : mle a a' -> mle (down a) (down a').
Proof.
  intros Ha s H. unfold down in *. destruct (a s) as [[x|e] s1] eqn:E.
  - rewrite (Ha s) by (rewrite E; exact I). rewrite E. reflexivity.
  - rewrite (Ha s). + rewrite E. reflexivity. + rewrite E. destruct e; try exact I; destruct H.
Qed.

Lemma mle_try_catch a a' h h' : mle a a' -> (forall x, mle (h x) (h' x)) -> mle (try_catch a h) (try_catch a' h').
Proof.
  intros Ha Hh s H. unfold try_catch in *. destruct (a s) as [[x|e] s1] eqn:E.
  - rewrite (Ha s) by (rewrite E; exact I). rewrite E. reflexivity.
  - rewrite (Ha s). + rewrite E. destruct e as [[|d] c val| | | | |]; try reflexivity. apply Hh. exact H.
    + rewrite E. destruct e as [[|d] c val| | | | |]; try exact I; destruct H.
Qed.

Lemma mle_catch_break l a a' : mle a a' -> mle (catch_break l a) (catch_break l a').
Proof.
  intros Ha s H. unfold catch_break in *. destruct (a s) as [[x|e] s1] eqn:E.
  - rewrite (Ha s) by (rewrite E; exact I). rewrite E. reflexivity.
  - rewrite (Ha s). + rewrite E. reflexivity. + rewrite E. destruct e; try exact I; destruct H.
Qed.

Lemma mle_with_cell sc init body body' after after' :
  (forall c, mle (body c) (body' c)) -> (forall v, mle (after v) (after' v)) ->
  mle (with_cell sc init body after) (with_cell sc init body' after').
Proof.
  intros Hb Ha s H. unfold with_cell in *.
  set (st := mkst (outs s) (nout s) (cap s) (nextid s + 1)%N (inputs s) ((nextid s, init) :: cells s) (repsens s) (steps s)) in *.
  specialize (Hb (nextid s) st). unfold mle in Hb.
  destruct (body (nextid s) st) as [[x|e] s1] eqn:E.
  - rewrite Hb by exact I.
    destruct (cell_lookup (cells s1) (nextid s)); [apply Ha; exact H|reflexivity].
  - rewrite Hb; [reflexivity|]. destruct e; try exact I; destruct H.
Qed.

Lemma mle_with_label sc body body' : (forall l, mle (body l) (body' l)) -> mle (with_label sc body) (with_label sc body').
Proof.
  intros Hb. unfold with_label. apply mle_with_cell; [|intros; apply mle_refl].
  intros c. apply mle_catch_break. apply Hb.
Qed.

Lemma mle_or_else a a' b b'  : mle a a' -> mle b b' -> mle (or_else a b) (or_else a' b').
Proof.
  intros Ha Hb s H. unfold or_else in *. destruct (a s) as [[x|e] s1] eqn:E.
  - rewrite (Ha s) by (rewrite E; exact I). rewrite E. reflexivity.
  - rewrite (Ha s). + rewrite E. destruct e; try reflexivity; apply Hb; exact H.
    + rewrite E. destruct e; try exact I; destruct H.
Qed.

Definition kle (k k' : K) : Prop := forall x ps, mle (k x ps) (k' x ps).

Lemma mle_lift r (k k' : jv -> M unit) : (forall w, mle (k w) (k' w)) -> mle (lift r k) (lift r k').
Proof. intros H. destruct r; cbn [lift]; [apply H | apply mle_refl | apply mle_refl]. Qed.

Lemma mle_nav ps src pe w k k' : kle k k' -> mle (nav ps src pe w k) (nav ps src pe w k').
Proof.
  intros H. unfold nav. destruct ps as [p|]; [|apply H].
  apply mle_bind; [apply mle_refl|intros _]. apply mle_bind; [apply mle_refl|intros id]. apply H.
Qed.

Lemma mle_guard name v m m' : mle m m' -> mle (guard_repsens name v m) (guard_repsens name v m').
Proof.
  intros H. unfold guard_repsens. destruct (is_formatter name); [|exact H].
  intros s Hs. destruct (repsens s && has_number (S (jv_depth v)) v); [reflexivity|apply H; exact Hs].
Qed.

Lemma mle_iterate x ps k k' : kle k k' -> mle (iterate x ps k) (iterate x ps k').
Proof.
  intros H. unfold iterate.
  assert (Heach : forall elems,
    mle ((fix go (l : list (jv * jv)) : M unit :=
       match l with
       | [] => ret tt
       | (key, e) :: r =>
           match ps with
           | None => k (plain e) None
           | Some p => id <- fresh ;; k (e, Some id) (Some (mkp (key :: rpath p) e id))
           end ;; go r
       end) elems)
      ((fix go (l : list (jv * jv)) : M unit :=
       match l with
       | [] => ret tt
       | (key, e) :: r =>
           match ps with
           | None => k' (plain e) None
           | Some p => id <- fresh ;; k' (e, Some id) (Some (mkp (key :: rpath p) e id))
           end ;; go r
       end) elems)).
  { induction elems as [|[key e] r IH]; [apply mle_refl|].
    apply mle_bind; [|intros _; exact IH].
    destruct ps; [apply mle_bind; [apply mle_refl|intros; apply H]|apply H]. }
  destruct (fst x); try apply mle_refl;
    (destruct ps; [apply mle_bind; [apply mle_refl|intros _; apply Heach]|apply Heach]).
Qed.

Lemma mle_range b : forall cur e st ps k k', kle k k' -> mle (range_loop b cur e st ps k) (range_loop b cur e st ps k').
Proof.
  induction b; intros; cbn [range_loop]; [apply mle_refl|].
  match goal with |- mle (if ?c then _ else _) _ => destruct c end; [apply mle_refl|].
  apply mle_bind; [apply H|intros _]. apply mle_lift. intros. apply IHb. exact H.
Qed.


Lemma mle_cps_fold {A S} (f f' : A -> S -> (S -> M unit) -> M unit) l :
  (forall a s k k', (forall s', mle (k s') (k' s')) -> mle (f a s k) (f' a s k')) ->
  forall s kend kend', (forall s', mle (kend s') (kend' s')) -> mle (cps_fold f l s kend) (cps_fold f' l s kend').
Proof.
  intros Hf. induction l as [|a r IH]; intros s kend kend' Hk; cbn [cps_fold]; [apply Hk|].
  apply Hf. intros s'. apply IH. exact Hk.
Qed.

Lemma mle_alts {P} (run run' : P -> M unit) pats :
  (forall p, mle (run p) (run' p)) -> mle (alts_loop run pats) (alts_loop run' pats).
Proof.
  intros H. induction pats as [|p r IH]; cbn [alts_loop]; [apply mle_refl|].
  destruct r; [apply H|]. apply mle_or_else; [apply H|exact IH].
Qed.

Lemma mle_if_chain {Q} (cond cond' : Q -> (bool -> M unit) -> M unit) (branch branch' : Q -> M unit) elifs :
  (forall c kk kk', (forall b, mle (kk b) (kk' b)) -> mle (cond c kk) (cond' c kk')) ->
  (forall b, mle (branch b) (branch' b)) ->
  forall c th els els', mle els els' ->
  mle (if_chain cond branch c th elifs els) (if_chain cond' branch' c th elifs els').
Proof.
  intros Hc Hb. induction elifs as [|[c2 t2] r IH]; intros c th els els' He; cbn [if_chain];
    apply Hc; intros b; destruct b; try apply Hb; try exact He. apply IH. exact He.
Qed.
Opaque syn_depth range_budget.

Section Mono.
Variable bs : list funcdef.

Record ele (E E' : evals) : Prop := {
  le_q : forall rho q v ps k k', kle k k' -> mle (ev_q E rho q v ps k) (ev_q E' rho q v ps k');
  le_path : forall rho p v kp kp', (forall path, mle (kp path) (kp' path)) -> mle (ev_path E rho p v kp) (ev_path E' rho p v kp');
  le_modify : forall rho p f f' v k k',
      (forall y kk kk', (forall w, mle (kk w) (kk' w)) -> mle (f y kk) (f' y kk')) -> kle k k' ->
      mle (ev_modify E rho p f v k) (ev_modify E' rho p f' v k');
  le_bindpat : forall rho p x ps kb kb', (forall r ps', mle (kb r ps') (kb' r ps')) ->
      mle (ev_bindpat E rho p x ps kb) (ev_bindpat E' rho p x ps kb');
  le_string : forall rho s fmt v ps k k', kle k k' -> mle (ev_string E rho s fmt v ps k) (ev_string E' rho s fmt v ps k');
  le_t : forall rho t v ps k k', kle k k' -> mle (ev_t E rho t v ps k) (ev_t E' rho t v ps k');
  le_index : forall rho e i v ps k k', kle k k' -> mle (ev_index E rho e i v ps k) (ev_index E' rho e i v ps k');
  le_call : forall rho name args v ps k k', kle k k' -> mle (ev_call E rho name args v ps k) (ev_call E' rho name args v ps k')
}.

Ltac mono_step HE :=
  first
    [ assumption
    | apply mle_refl
    | apply mle_bind; [ | intro ]
    | apply mle_try_catch; [ | intro ]
    | apply mle_catch_break
    | apply mle_or_else
    | apply mle_with_cell; intro
    | apply mle_with_label; intro
    | apply mle_down
    | apply mle_guard
    | apply mle_lift; intro
    | apply mle_nav; intros ? ?
    | apply mle_iterate; intros ? ?
    | apply mle_range; intros ? ?
    | apply mle_cps_fold; [ intros ? ? ? ? ? | intro ]
    | apply mle_alts; intro
    | apply mle_if_chain; [ intros ? ? ? ? | intro | ]
    | apply (le_q _ _ HE); intros ? ?
    | apply (le_path _ _ HE); intro
    | apply (le_modify _ _ HE); [ intros ? ? ? ? | intros ? ? ]
    | apply (le_bindpat _ _ HE); intros ? ?
    | apply (le_string _ _ HE); intros ? ?
    | apply (le_t _ _ HE); intros ? ?
    | apply (le_index _ _ HE); intros ? ?
    | apply (le_call _ _ HE); intros ? ?
    | match goal with H : kle ?k ?k' |- mle (?k _ _) (?k' _ _) => apply H end
    | match goal with H : forall w, mle (?k w) (?k' w) |- mle (?k _) (?k' _) => apply H end
    | match goal with H : forall w, mle (?k w) (?k' w) |- mle (?k _) (?k' _) => apply H end
    | match goal with H : forall r ps', mle (?k r ps') (?k' r ps') |- mle (?k _ _) (?k' _ _) => apply H end
    | match goal with |- mle (match ?x with _ => _ end) (match ?x with _ => _ end) => destruct x end
    | match goal with |- mle (if ?b then _ else _) (if ?b then _ else _) => destruct b end ].
Ltac mono HE := repeat mono_step HE.

Lemma step_path_mono E E' : ele E E' -> forall rho p v kp kp', (forall path, mle (kp path) (kp' path)) ->
  mle (step_eval_path E rho p v kp) (step_eval_path E' rho p v kp').
Proof.
  intros HE rho p v kp kp' Hk. unfold step_eval_path. mono HE.
Qed.

Lemma step_index_mono E E' : ele E E' -> forall rho e i v ps k k', kle k k' ->
  mle (step_eval_index E rho e i v ps k) (step_eval_index E' rho e i v ps k').
Proof.
  intros HE rho e i v ps k k' Hk. unfold step_eval_index. mono HE.
Qed.

Lemma step_modify_mono E E' : ele E E' -> forall rho p f f' v k k',
      (forall y kk kk', (forall w, mle (kk w) (kk' w)) -> mle (f y kk) (f' y kk')) -> kle k k' ->
  mle (step_modify E rho p f v k) (step_modify E' rho p f' v k').
Proof.
  intros HE rho p f f' v k k' Hf Hk. unfold step_modify. mono HE.
  all: try (apply Hf; intro; mono HE).
Qed.


Lemma step_string_mono E E' : ele E E' -> forall rho s fmt v ps k k', kle k k' ->
  mle (step_eval_string E rho s fmt v ps k) (step_eval_string E' rho s fmt v ps k').
Proof.
  intros HE rho s fmt v ps k k' Hk. unfold step_eval_string. mono HE.
Qed.

Lemma step_bindpat_mono E E' : ele E E' -> forall rho p x ps kb kb', (forall r ps', mle (kb r ps') (kb' r ps')) ->
  mle (step_bind_pat E rho p x ps kb) (step_bind_pat E' rho p x ps kb').
Proof.
  intros HE rho p x ps kb kb' Hk. unfold step_bind_pat. mono HE.
Qed.

Lemma step_t_mono E E' : ele E E' -> forall rho t v ps k k', kle k k' ->
  mle (step_eval_t E rho t v ps k) (step_eval_t E' rho t v ps k').
Proof.
  intros HE rho t v ps k k' Hk. unfold step_eval_t. mono HE.
Qed.

Lemma step_q_mono E E' : ele E E' -> forall rho q v ps k k', kle k k' ->
  mle (step_eval_q E rho q v ps k) (step_eval_q E' rho q v ps k').
Proof.
  intros HE rho q v ps k k' Hk. unfold step_eval_q.
  destruct q as [imports fds tm lq oq rq pats]. destruct imports; [|apply mle_refl].
  destruct tm; [solve [mono HE]|]. destruct lq; [|apply mle_refl]. destruct oq; [|apply mle_refl].
  destruct rq; [|apply mle_refl]. destruct o.
  all: solve [mono HE].
Qed.

Lemma step_call_mono E E' : ele E E' -> forall rho name args v ps k k', kle k k' ->
  mle (step_call bs E rho name args v ps k) (step_call bs E' rho name args v ps k').
Proof.
  intros HE rho name args v ps k k' Hk. unfold step_call. generalize range_budget; intro rb.
  destruct (is_var_name name && Nat.eqb (List.length args) 0); [solve [mono HE]|].
  destruct (lookup_fun rho name (List.length args)) as [[fd defenv|body cenv]|]; [solve [mono HE]|solve [mono HE]|].
  destruct (lookup_builtin bs name (List.length args)); [solve [mono HE]|].
  apply mle_guard. destruct args as [|a [|b [|c r]]].
  all: solve [mono HE].
Qed.

Lemma step_mono E E' : ele E E' -> ele (step bs E) (step bs E').
Proof.
  intros HE. constructor; cbn [step ev_q ev_path ev_modify ev_bindpat ev_string ev_t ev_index ev_call]; intros.
  - apply step_q_mono; assumption.
  - apply step_path_mono; assumption.
  - apply step_modify_mono; assumption.
  - apply step_bindpat_mono; assumption.
  - apply step_string_mono; assumption.
  - apply step_t_mono; assumption.
  - apply step_index_mono; assumption.
  - apply step_call_mono; assumption.
Qed.

Lemma bottom_le E : ele bottom E.
Proof. constructor; intros; apply mle_fuel. Qed.

Lemma evals_mono n : forall d, ele (evals_n bs n) (evals_n bs (n + d)).
Proof.
  induction n as [|n IH]; intros d; cbn [evals_n Nat.add]; [apply bottom_le|].
  apply step_mono. apply IH.
Qed.

Lemma kle_refl k : kle k k.
Proof. intros x ps. apply mle_refl. Qed.

(* more fuel, same answer — for queries ... *)
Theorem eval_fuel_mono (n m : nat) rho q v ps k s : (n <= m)%nat ->
  fuel_free (eval_q bs n rho q v ps k s) -> eval_q bs m rho q v ps k s = eval_q bs n rho q v ps k s.
Proof.
  intros Hle Hf. replace m with (n + (m - n))%nat by lia.
  exact (le_q _ _ (evals_mono n (m - n)%nat) rho q v ps k k (kle_refl k) s Hf).
Qed.

(* ... and for observations *)
Definition raw_run (fuel capn : nat) (rs : bool) (ins : list jv) (q : query) (v : jv) :=
  eval_q bs fuel [] q (plain v) None emit (init_state capn ins rs).

Theorem observe_fuel_mono (n m : nat) capn rs ins q v : (n <= m)%nat ->
  fuel_free (raw_run n capn rs ins q v) ->
  observe bs m capn rs ins q v = observe bs n capn rs ins q v.
Proof.
  intros Hle Hf. unfold observe. unfold raw_run in Hf. rewrite (eval_fuel_mono n m _ _ _ _ _ _ Hle Hf). reflexivity.
Qed.
End Mono.

(* ------------------------------------------------------------------------------------------ *)
(* generator laws *)

Definition meq {A} (a b : M A) : Prop := forall s, a s = b s.

Section Laws.
Variable bs : list funcdef.

(* comma: the outputs of the left operand, then those of the right one (same input, same path state) *)
Lemma comma_law n rho l r v ps k :
  eval_q bs (S n) rho (q_bin l OpComma r) v ps k = (eval_q bs n rho l v ps k ;; eval_q bs n rho r v ps k).
Proof. reflexivity. Qed.

(* pipe: nesting of continuations *)
Lemma pipe_law n rho l r v ps k :
  eval_q bs (S n) rho (q_bin l OpPipe r) v ps k = eval_q bs n rho l v ps (fun x ps' => eval_q bs n rho r x ps' k).
Proof. reflexivity. Qed.

Definition q_empty : query := q_call (codes "empty") [].
Definition not_redefined (rho : env) (name : string) (arity : nat) : Prop :=
  lookup_fun rho (codes name) arity = None /\ lookup_builtin bs (codes name) arity = None.

Lemma empty_law n rho v ps k : not_redefined rho "empty" 0 ->
  eval_q bs (S (S (S n))) rho q_empty v ps k = ret tt.
Proof.
  intros [H1 H2]. unfold eval_q, q_empty, q_call, q_term.
  cbn [evals_n step ev_q step_eval_q push_defs fold_left ev_t step_eval_t rev app ev_call].
  unfold step_call. cbn [List.length]. 
  replace (is_var_name (codes "empty") && Nat.eqb 0 0) with false by reflexivity.
  rewrite H1, H2. reflexivity.
Qed.

Lemma empty_unit_left n rho r v ps k : not_redefined rho "empty" 0 ->
  meq (eval_q bs (S (S (S (S n)))) rho (q_bin q_empty OpComma r) v ps k)
      (eval_q bs (S (S (S n))) rho r v ps k).
Proof.
  intros H s. rewrite comma_law, (empty_law n rho v ps k H). reflexivity.
Qed.

Lemma empty_unit_right n rho l v ps k : not_redefined rho "empty" 0 ->
  meq (eval_q bs (S (S (S (S n)))) rho (q_bin l OpComma q_empty) v ps k)
      (eval_q bs (S (S (S n))) rho l v ps k).
Proof.
  intros H s. rewrite comma_law, (empty_law n rho v ps k H). unfold bind, ret.
  destruct (eval_q bs (S (S (S n))) rho l v ps k s) as [[[]|e] s1]; reflexivity.
Qed.

(* try never intercepts what its CONSUMER raises: a try around a computation whose errors all come
   from the continuation (wrapped by [down]) is transparent *)
Lemma try_down_id (m : M unit) handler : meq (try_catch (down m) handler) m.
Proof.
  intros s. unfold try_catch, down. destruct (m s) as [[[]|e] s1]; [reflexivity|].
  destruct e; reflexivity.
Qed.

(* ... so `try b catch h` around a body that emits exactly one value and cannot fail itself is the
   same as b, whatever the consumer does with the value (in particular when the consumer errors) *)
Lemma try_transparent n rho body h v ps k x px :
  (forall k', eval_q bs n rho body v ps k' = k' x px) ->
  meq (eval_t bs (S n) rho (Term (TTry body h) []) v ps k) (k x px).
Proof.
  intros Hb s. unfold eval_t, eval_q in *. cbn [evals_n step ev_t step_eval_t rev]. rewrite Hb.
  apply try_down_id.
Qed.

(* ... while an error raised by the body itself is caught and handed to the handler *)
Lemma try_catches_body n rho body h v ps k c e :
  (forall k', meq (eval_q bs n rho body v ps k') (raise (XErr O c (Some e)))) ->
  meq (eval_t bs (S n) rho (Term (TTry body (Some h)) []) v ps k) (eval_q bs n rho h (plain e) ps k).
Proof.
  intros Hb s. unfold eval_t, eval_q in *. cbn [evals_n step ev_t step_eval_t rev].
  unfold try_catch. rewrite Hb. reflexivity.
Qed.

Lemma list_N_eqb_refl l : list_N_eqb l l = true.
Proof. induction l; cbn; [reflexivity|]. rewrite N.eqb_refl. exact IHl. Qed.

Definition q_lit (t : bytes) (c : num) : query := q_term (TNumber t c).
Definition q_break (x : bytes) : query := q_term (TBreak x).

(* label $x | (c, break $x, B)  emits c and stops: B is never evaluated *)
Lemma label_break_law n rho x t c B v ps k :
  meq (eval_q bs (S (S (S (S (S (S n)))))) rho
         (q_term (TLabel x (q_bin (q_lit t c) OpComma (q_bin (q_break x) OpComma B)))) v ps k)
      (with_label (scoped_ids ps) (fun l => k (plain (VNum c)) ps ;; raise (XBreak l))).
Proof.
  intros s. unfold eval_q, q_lit, q_break, q_term, q_bin.
  cbn [evals_n step ev_q step_eval_q push_defs fold_left ev_t step_eval_t rev app lookup_label].
  rewrite list_N_eqb_refl. unfold with_label, with_cell, bind, catch_break, raise, ret.
  destruct (k (plain (VNum c)) ps _) as [[[]|e] s1]; reflexivity.
Qed.

(* reduce / foreach: the defining unfoldings *)
Lemma reduce_unfold n rho src pat start upd v ps k :
  eval_t bs (S n) rho (Term (TReduce src pat start upd) []) v ps k =
  eval_q bs n rho start v ps (fun s0 ps0 =>
    with_cell (scoped_ids ps0) s0
      (fun c => eval_q bs n rho src v ps0 (fun item ps1 =>
         ev_bindpat (evals_n bs n) rho pat item ps1 (fun rho' ps2 =>
           cur <- get_cell c ;; eval_q bs n rho' upd cur ps2 (fun u _ => set_cell c u))))
      (fun res => k res ps0)).
Proof. reflexivity. Qed.

Lemma foreach_unfold n rho src pat start upd ext v ps k :
  eval_t bs (S n) rho (Term (TForeach src pat start upd ext) []) v ps k =
  eval_q bs n rho start v ps (fun s0 ps0 =>
    with_cell (scoped_ids ps0) s0
      (fun c => eval_q bs n rho src v ps0 (fun item ps1 =>
         ev_bindpat (evals_n bs n) rho pat item ps1 (fun rho' ps2 =>
           cur <- get_cell c ;;
           eval_q bs n rho' upd cur ps2 (fun u ps3 =>
             set_cell c u ;;
             match ext with
             | None => k u ps3
             | Some e => eval_q bs n rho' e u ps3 k
             end))))
      (fun _ => ret tt)).
Proof. reflexivity. Qed.
End Laws.

Section Laws.
Variable bs : list funcdef.
(* first(f) as builtin.jq defines it *)
Definition first_def : funcdef :=
  FuncDef (codes "first") [codes "g"]
    (q_term (TLabel (codes "$out")
       (q_bin (q_call (codes "g") []) OpPipe (q_bin q_identity OpComma (q_term (TBreak (codes "$out"))))))).

(* first((c, g)) emits c and never evaluates g: no error, no divergence of g can show *)
Lemma first_law n rho t c g v ps k :
  lookup_fun rho (codes "first") 1 = None ->
  lookup_builtin bs (codes "first") 1 = Some first_def ->
  meq (eval_q bs (12 + n) rho (q_call (codes "first") [q_bin (q_lit t c) OpComma g]) v ps k)
      (tick ;; with_label (scoped_ids ps) (fun l => tick ;; (k (plain (VNum c)) ps ;; raise (XBreak l)))).
Proof.
  intros H1 H2 s. unfold eval_q, q_call, q_lit, q_term, q_bin.
  cbn [evals_n step ev_q step_eval_q push_defs fold_left ev_t step_eval_t rev app ev_call Nat.add].
  unfold step_call at 1. cbn [List.length].
  replace (is_var_name (codes "first") && Nat.eqb 1 0) with false by reflexivity.
  rewrite H1, H2. unfold first_def, q_call, q_identity, q_term, q_bin.
  cbn [combine fold_left cps_fold fst snd].
  replace (is_var_name (codes "g")) with false by reflexivity.
  cbn [evals_n step ev_q step_eval_q push_defs fold_left ev_t step_eval_t rev app ev_call lookup_label].
  unfold step_call at 1. cbn [List.length].
  replace (is_var_name (codes "g") && Nat.eqb 0 0) with false by reflexivity.
  cbn [lookup_fun]. 
  replace (Nat.eqb 0 0 && list_N_eqb (strip_dollar (codes "g")) (codes "g")) with true by reflexivity.
  cbn [evals_n step ev_q step_eval_q push_defs fold_left ev_t step_eval_t rev app ev_call lookup_label].
  replace (list_N_eqb (codes "$out") (codes "$out")) with true by reflexivity.
  unfold with_label, with_cell, bind, tick, catch_break, raise, ret.
  destruct (steps s); [reflexivity|]. cbn [steps outs nout cap nextid inputs cells repsens].
  destruct (N.pred (N.pos p)); [reflexivity|]. cbn [steps outs nout cap nextid inputs cells repsens].
  destruct (k (plain (VNum c)) ps _) as [[[]|e] s1]; reflexivity.
Qed.

(* path(.a | .b) = path(.a) followed by path(.b): the paths concatenate *)
Definition q_field (a : bytes) : query := q_term (TIndex (Index a None None None false)).

Lemma path_field_law n rho c a v w kp :
  fn_index2 v (VStr (c :: a)) = NOk w ->
  meq (eval_path bs (5 + n) rho (q_field (c :: a)) (plain v) kp)
      (_ <- fresh ;; _ <- fresh ;; kp [VStr (c :: a)]).
Proof.
  intros H1 s. unfold eval_path, q_field, q_term.
  cbn [evals_n step ev_path step_eval_path ev_q step_eval_q push_defs fold_left ev_t step_eval_t rev app
       ev_index step_eval_index index_key Nat.add fst snd plain].
  unfold step_eval_path.
  cbn [evals_n step ev_path step_eval_path ev_q step_eval_q push_defs fold_left ev_t step_eval_t rev app
       ev_index step_eval_index index_key Nat.add fst snd plain].
  unfold step_eval_index. cbn [index_key ev_t step_eval_t rev app].
  unfold bind, fresh. cbn [nextid outs nout cap inputs cells repsens steps fst snd].
  rewrite H1. cbn [lift]. unfold nav, check_intact, intact, bind, fresh.
  cbn [nextid outs nout cap inputs cells repsens steps fst snd lid rpath lv rev app].
  rewrite !N.eqb_refl. reflexivity.
Qed.

Lemma path_pipe_fields_law n rho c a d b v w1 w2 kp :
  fn_index2 v (VStr (c :: a)) = NOk w1 -> fn_index2 w1 (VStr (d :: b)) = NOk w2 ->
  meq (eval_path bs (6 + n) rho (q_bin (q_field (c :: a)) OpPipe (q_field (d :: b))) (plain v) kp)
      (_ <- fresh ;; _ <- fresh ;; _ <- fresh ;; kp [VStr (c :: a); VStr (d :: b)]).
Proof.
  intros H1 H2 s. unfold eval_path, q_field, q_term, q_bin.
  cbn [evals_n step ev_path step_eval_path ev_q step_eval_q push_defs fold_left ev_t step_eval_t rev app
       ev_index step_eval_index index_key Nat.add fst snd plain].
  unfold step_eval_path.
  cbn [evals_n step ev_path step_eval_path ev_q step_eval_q push_defs fold_left ev_t step_eval_t rev app
       ev_index step_eval_index index_key Nat.add fst snd plain].
  unfold step_eval_index. cbn [index_key ev_t step_eval_t rev app].
  unfold bind, fresh. cbn [nextid outs nout cap inputs cells repsens steps fst snd].
  rewrite H1. cbn [lift]. unfold nav, check_intact, intact, bind, fresh.
  cbn [nextid outs nout cap inputs cells repsens steps fst snd lid rpath lv rev app].
  rewrite !N.eqb_refl. rewrite H2. cbn [lift].
  cbn [nextid outs nout cap inputs cells repsens steps fst snd lid rpath lv rev app].
  rewrite !N.eqb_refl. reflexivity.
Qed.
End Laws.
