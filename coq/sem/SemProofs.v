(* SemProofs.v — theorems about the reference semantics Sem.v.

   1. Fuel monotonicity (the well-formedness theorem of a fuelled semantics), for the WHOLE evaluator:
      if a run with fuel n does not end in XFuel, every run with fuel m >= n gives the same result
      (same outputs, same ending, same final state).  Proof: the step functions are monotone for
      the order  a [= b  :=  "wherever a does not run out of fuel, b agrees with it"  (mle), one lemma per
      step function, closed under the monad/control combinators; then induction on the fuel.
   2. The generator laws that ARE jq's semantics, as equations between computations (for every
      continuation, hence for every observation).
   Determinism needs no theorem: eval_q is a function.                                         *)
From Coq Require Import String.
From Coq Require Import List ZArith NArith Bool Lia.
From Verif Require Import common.Sexp sem.JV sem.Syntax sem.Natives sem.Sem.
Import ListNotations.

Definition fuel_free {A} (r : (A + exn) * sst) : Prop := match fst r with inr XFuel => False | _ => True end.
Definition mle {A} (a b : M A) : Prop := forall s, fuel_free (a s) -> b s = a s.

Lemma mle_refl {A} (a : M A) : mle a a.
Proof. intros s _. reflexivity. Qed.

Lemma mle_fuel {A} (b : M A) : mle (raise XFuel) b.
Proof. intros s H. destruct H. Qed.

Lemma mle_bind {A B} (a a' : M A) (f f' : A -> M B) :
  mle a a' -> (forall x, mle (f x) (f' x)) -> mle (bind a f) (bind a' f').
Proof.
  intros Ha Hf s H. unfold bind in *. destruct (a s) as [[x|e] s1] eqn:E.
  - rewrite (Ha s) by (rewrite E; exact I). rewrite E. apply Hf. exact H.
  - rewrite (Ha s). + rewrite E. reflexivity. + rewrite E. exact H.
Qed.

Lemma mle_down a a' : mle a a' -> mle (down a) (down a').
Proof.
  intros Ha s H. unfold down in *. destruct (a s) as [[x|e] s1] eqn:E.
  - rewrite (Ha s) by (rewrite E; exact I). rewrite E. reflexivity.
  - rewrite (Ha s). + rewrite E. reflexivity. + rewrite E. destruct e; try exact I; destruct H.
Qed.

Lemma mle_try_catch a a' h h' : mle a a' -> (forall x, mle (h x) (h' x)) -> mle (try_catch a h) (try_catch a' h').
Proof.
  intros Ha Hh s H. unfold try_catch in *. destruct (a s) as [[x|e] s1] eqn:E.
  - rewrite (Ha s) by (rewrite E; exact I). rewrite E. reflexivity.
  - rewrite (Ha s). + rewrite E. destruct e as [[|d] c val| | | | |]; try reflexivity. apply Hh. exact H.
    + rewrite E. destruct e as [[|d] c val| | | | |]; try exact I; destruct H.
Qed.

Lemma mle_catch_break l a a' : mle a a' -> mle (catch_break l a) (catch_break l a').
Proof.
  intros Ha s H. unfold catch_break in *. destruct (a s) as [[x|e] s1] eqn:E.
  - rewrite (Ha s) by (rewrite E; exact I). rewrite E. reflexivity.
  - rewrite (Ha s). + rewrite E. reflexivity. + rewrite E. destruct e; try exact I; destruct H.
Qed.

Lemma mle_or_else a a' b b' : mle a a' -> mle b b' -> mle (or_else a b) (or_else a' b').
Proof.
  intros Ha Hb s H. unfold or_else in *. destruct (a s) as [[x|e] s1] eqn:E.
  - rewrite (Ha s) by (rewrite E; exact I). rewrite E. reflexivity.
  - rewrite (Ha s). + rewrite E. destruct e; try reflexivity; apply Hb; exact H.
    + rewrite E. destruct e; try exact I; destruct H.
Qed.

Definition kle (k k' : K) : Prop := forall x ps, mle (k x ps) (k' x ps).

Lemma mle_lift r (k k' : jv -> M unit) : (forall w, mle (k w) (k' w)) -> mle (lift r k) (lift r k').
Proof. intros H. destruct r; cbn [lift]; [apply H | apply mle_refl | apply mle_refl]. Qed.

Lemma mle_nav ps src pe w k k' : kle k k' -> mle (nav ps src pe w k) (nav ps src pe w k').
Proof.
  intros H. unfold nav. destruct ps as [p|]; [|apply H].
  apply mle_bind; [apply mle_refl|intros _]. apply mle_bind; [apply mle_refl|intros id]. apply H.
Qed.

Lemma mle_guard name v m m' : mle m m' -> mle (guard_repsens name v m) (guard_repsens name v m').
Proof.
  intros H. unfold guard_repsens. destruct (is_formatter name); [|exact H].
  intros s Hs. destruct (repsens s && has_number (S (jv_depth v)) v); [reflexivity|apply H; exact Hs].
Qed.

Lemma mle_iterate x ps k k' : kle k k' -> mle (iterate x ps k) (iterate x ps k').
Proof.
  intros H. unfold iterate.
  assert (Heach : forall elems,
    mle ((fix go (l : list (jv * jv)) : M unit :=
       match l with
       | [] => ret tt
       | (key, e) :: r =>
           match ps with
           | None => k (plain e) None
           | Some p => id <- fresh ;; k (e, Some id) (Some (mkp (key :: rpath p) e id))
           end ;; go r
       end) elems)
      ((fix go (l : list (jv * jv)) : M unit :=
       match l with
       | [] => ret tt
       | (key, e) :: r =>
           match ps with
           | None => k' (plain e) None
           | Some p => id <- fresh ;; k' (e, Some id) (Some (mkp (key :: rpath p) e id))
           end ;; go r
       end) elems)).
  { induction elems as [|[key e] r IH]; [apply mle_refl|].
    apply mle_bind; [|intros _; exact IH].
    destruct ps; [apply mle_bind; [apply mle_refl|intros; apply H]|apply H]. }
  destruct (fst x); try apply mle_refl;
    (destruct ps; [apply mle_bind; [apply mle_refl|intros _; apply Heach]|apply Heach]).
Qed.

Lemma mle_range b : forall cur e st ps k k', kle k k' -> mle (range_loop b cur e st ps k) (range_loop b cur e st ps k').
Proof.
  induction b; intros; cbn [range_loop]; [apply mle_refl|].
  match goal with |- mle (if ?c then _ else _) _ => destruct c end; [apply mle_refl|].
  apply mle_bind; [apply H|intros _]. apply mle_lift. intros. apply IHb. exact H.
Qed.


Lemma mle_cps_fold {A S} (f f' : A -> S -> (S -> M unit) -> M unit) l :
  (forall a s k k', (forall s', mle (k s') (k' s')) -> mle (f a s k) (f' a s k')) ->
  forall s kend kend', (forall s', mle (kend s') (kend' s')) -> mle (cps_fold f l s kend) (cps_fold f' l s kend').
Proof.
  intros Hf. induction l as [|a r IH]; intros s kend kend' Hk; cbn [cps_fold]; [apply Hk|].
  apply Hf. intros s'. apply IH. exact Hk.
Qed.

Lemma mle_alts {P} (run run' : P -> M unit) pats :
  (forall p, mle (run p) (run' p)) -> mle (alts_loop run pats) (alts_loop run' pats).
Proof.
  intros H. induction pats as [|p r IH]; cbn [alts_loop]; [apply mle_refl|].
  destruct r; [apply H|]. apply mle_or_else; [apply H|exact IH].
Qed.

Lemma mle_if_chain {Q} (cond cond' : Q -> (bool -> M unit) -> M unit) (branch branch' : Q -> M unit) elifs :
  (forall c kk kk', (forall b, mle (kk b) (kk' b)) -> mle (cond c kk) (cond' c kk')) ->
  (forall b, mle (branch b) (branch' b)) ->
  forall c th els els', mle els els' ->
  mle (if_chain cond branch c th elifs els) (if_chain cond' branch' c th elifs els').
Proof.
  intros Hc Hb. induction elifs as [|[c2 t2] r IH]; intros c th els els' He; cbn [if_chain];
    apply Hc; intros b; destruct b; try apply Hb; try exact He. apply IH. exact He.
Qed.
Opaque syn_depth range_budget.

Section Mono.
Variable bs : list funcdef.

Record ele (E E' : evals) : Prop := {
  le_q : forall rho q v ps k k', kle k k' -> mle (ev_q E rho q v ps k) (ev_q E' rho q v ps k');
  le_path : forall rho p v kp kp', (forall path, mle (kp path) (kp' path)) -> mle (ev_path E rho p v kp) (ev_path E' rho p v kp');
  le_modify : forall rho p f f' v k k',
      (forall y kk kk', (forall w, mle (kk w) (kk' w)) -> mle (f y kk) (f' y kk')) -> kle k k' ->
      mle (ev_modify E rho p f v k) (ev_modify E' rho p f' v k');
  le_bindpat : forall rho p x ps kb kb', (forall r ps', mle (kb r ps') (kb' r ps')) ->
      mle (ev_bindpat E rho p x ps kb) (ev_bindpat E' rho p x ps kb');
  le_string : forall rho s fmt v ps k k', kle k k' -> mle (ev_string E rho s fmt v ps k) (ev_string E' rho s fmt v ps k');
  le_t : forall rho t v ps k k', kle k k' -> mle (ev_t E rho t v ps k) (ev_t E' rho t v ps k');
  le_index : forall rho e i v ps k k', kle k k' -> mle (ev_index E rho e i v ps k) (ev_index E' rho e i v ps k');
  le_call : forall rho name args v ps k k', kle k k' -> mle (ev_call E rho name args v ps k) (ev_call E' rho name args v ps k')
}.

Ltac mono_step HE :=
  first
    [ assumption
    | apply mle_refl
    | apply mle_bind; [ | intro ]
    | apply mle_try_catch; [ | intro ]
    | apply mle_catch_break
    | apply mle_or_else
    | apply mle_down
    | apply mle_guard
    | apply mle_lift; intro
    | apply mle_nav; intros ? ?
    | apply mle_iterate; intros ? ?
    | apply mle_range; intros ? ?
    | apply mle_cps_fold; [ intros ? ? ? ? ? | intro ]
    | apply mle_alts; intro
    | apply mle_if_chain; [ intros ? ? ? ? | intro | ]
    | apply (le_q _ _ HE); intros ? ?
    | apply (le_path _ _ HE); intro
    | apply (le_modify _ _ HE); [ intros ? ? ? ? | intros ? ? ]
    | apply (le_bindpat _ _ HE); intros ? ?
    | apply (le_string _ _ HE); intros ? ?
    | apply (le_t _ _ HE); intros ? ?
    | apply (le_index _ _ HE); intros ? ?
    | apply (le_call _ _ HE); intros ? ?
    | match goal with H : kle ?k ?k' |- mle (?k _ _) (?k' _ _) => apply H end
    | match goal with H : forall w, mle (?k w) (?k' w) |- mle (?k _) (?k' _) => apply H end
    | match goal with H : forall w, mle (?k w) (?k' w) |- mle (?k _) (?k' _) => apply H end
    | match goal with H : forall r ps', mle (?k r ps') (?k' r ps') |- mle (?k _ _) (?k' _ _) => apply H end
    | match goal with |- mle (match ?x with _ => _ end) (match ?x with _ => _ end) => destruct x end
    | match goal with |- mle (if ?b then _ else _) (if ?b then _ else _) => destruct b end ].
Ltac mono HE := repeat mono_step HE.

Lemma step_path_mono E E' : ele E E' -> forall rho p v kp kp', (forall path, mle (kp path) (kp' path)) ->
  mle (step_eval_path E rho p v kp) (step_eval_path E' rho p v kp').
Proof.
  intros HE rho p v kp kp' Hk. unfold step_eval_path. mono HE.
Qed.

Lemma step_index_mono E E' : ele E E' -> forall rho e i v ps k k', kle k k' ->
  mle (step_eval_index E rho e i v ps k) (step_eval_index E' rho e i v ps k').
Proof.
  intros HE rho e i v ps k k' Hk. unfold step_eval_index. mono HE.
Qed.

Lemma step_modify_mono E E' : ele E E' -> forall rho p f f' v k k',
      (forall y kk kk', (forall w, mle (kk w) (kk' w)) -> mle (f y kk) (f' y kk')) -> kle k k' ->
  mle (step_modify E rho p f v k) (step_modify E' rho p f' v k').
Proof.
  intros HE rho p f f' v k k' Hf Hk. unfold step_modify. mono HE.
  all: try (apply Hf; intro; mono HE).
Qed.


Lemma step_string_mono E E' : ele E E' -> forall rho s fmt v ps k k', kle k k' ->
  mle (step_eval_string E rho s fmt v ps k) (step_eval_string E' rho s fmt v ps k').
Proof.
  intros HE rho s fmt v ps k k' Hk. unfold step_eval_string. mono HE.
Qed.

Lemma step_bindpat_mono E E' : ele E E' -> forall rho p x ps kb kb', (forall r ps', mle (kb r ps') (kb' r ps')) ->
  mle (step_bind_pat E rho p x ps kb) (step_bind_pat E' rho p x ps kb').
Proof.
  intros HE rho p x ps kb kb' Hk. unfold step_bind_pat. mono HE.
Qed.

Lemma step_t_mono E E' : ele E E' -> forall rho t v ps k k', kle k k' ->
  mle (step_eval_t E rho t v ps k) (step_eval_t E' rho t v ps k').
Proof.
  intros HE rho t v ps k k' Hk. unfold step_eval_t. mono HE.
Qed.

Lemma step_q_mono E E' : ele E E' -> forall rho q v ps k k', kle k k' ->
  mle (step_eval_q E rho q v ps k) (step_eval_q E' rho q v ps k').
Proof.
  intros HE rho q v ps k k' Hk. unfold step_eval_q.
  destruct q as [imports fds tm lq oq rq pats]. destruct imports; [|apply mle_refl].
  destruct tm; [solve [mono HE]|]. destruct lq; [|apply mle_refl]. destruct oq; [|apply mle_refl].
  destruct rq; [|apply mle_refl]. destruct o.
  all: solve [mono HE].
Qed.

Lemma step_call_mono E E' : ele E E' -> forall rho name args v ps k k', kle k k' ->
  mle (step_call bs E rho name args v ps k) (step_call bs E' rho name args v ps k').
Proof.
  intros HE rho name args v ps k k' Hk. unfold step_call. generalize range_budget; intro rb.
  apply mle_bind; [apply mle_refl|intros _].
  do 4 mono_step HE.
  1-3: solve [mono HE].
  destruct args as [|a [|b [|c r]]].
  all: solve [mono HE].
Qed.

Lemma step_mono E E' : ele E E' -> ele (step bs E) (step bs E').
Proof.
  intros HE. constructor; cbn [step ev_q ev_path ev_modify ev_bindpat ev_string ev_t ev_index ev_call]; intros.
  - apply step_q_mono; assumption.
  - apply step_path_mono; assumption.
  - apply step_modify_mono; assumption.
  - apply step_bindpat_mono; assumption.
  - apply step_string_mono; assumption.
  - apply step_t_mono; assumption.
  - apply step_index_mono; assumption.
  - apply step_call_mono; assumption.
Qed.

Lemma bottom_le E : ele bottom E.
Proof. constructor; intros; apply mle_fuel. Qed.

Lemma evals_mono n : forall d, ele (evals_n bs n) (evals_n bs (n + d)).
Proof.
  induction n as [|n IH]; intros d; cbn [evals_n Nat.add]; [apply bottom_le|].
  apply step_mono. apply IH.
Qed.

Lemma kle_refl k : kle k k.
Proof. intros x ps. apply mle_refl. Qed.

(* more fuel, same answer — for queries ... *)
Theorem eval_fuel_mono (n m : nat) rho q v ps k s : (n <= m)%nat ->
  fuel_free (eval_q bs n rho q v ps k s) -> eval_q bs m rho q v ps k s = eval_q bs n rho q v ps k s.
Proof.
  intros Hle Hf. replace m with (n + (m - n))%nat by lia.
  exact (le_q _ _ (evals_mono n (m - n)%nat) rho q v ps k k (kle_refl k) s Hf).
Qed.

(* ... and for observations *)
Definition raw_run (fuel capn : nat) (rs : bool) (ins : list jv) (q : query) (v : jv) :=
  eval_q bs fuel [] q (plain v) None emit (init_state capn ins rs).

Theorem observe_fuel_mono (n m : nat) capn rs ins q v : (n <= m)%nat ->
  fuel_free (raw_run n capn rs ins q v) ->
  observe bs m capn rs ins q v = observe bs n capn rs ins q v.
Proof.
  intros Hle Hf. unfold observe. unfold raw_run in Hf. rewrite (eval_fuel_mono n m _ _ _ _ _ _ Hle Hf). reflexivity.
Qed.
End Mono.
