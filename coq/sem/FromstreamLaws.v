(* FromstreamLaws.v — fromstream of builtin.jq over the reference semantics Sem: definitions.
   def fromstream(f): foreach f as $pv (null;
       if .e then null end | $pv as [$p, $v] |
       if $pv | length == 2 then setpath(["v"] + $p; $v) | setpath(["e"]; $p | length == 0)
       else setpath(["e"]; $p | length == 1) end;
       if .e then .v else empty end);                                  (Proofs: FromstreamProofs.v.) *)
From Coq Require Import String.
From Coq Require Import List ZArith NArith Bool.
From Verif Require Import common.Sexp sem.JV sem.Syntax sem.Natives sem.Sem sem.BuiltinLaws sem.BuiltinCalls sem.StreamLaws.
Import ListNotations.

Definition q_num (t : string) (z : Z) : query := q_term (TNumber (codes t) (NInt z)).
Definition q_arr1 (q : query) : query := q_term (TArray (Some q)).
Definition q_len_is (x : string) (t : string) (z : Z) : query :=
  q_bin (q_var x) OpPipe (q_bin (q_call (codes "length") []) OpEq (q_num t z)).
Definition q_setpath (a b : query) : query := q_call (codes "setpath") [a; b].

(* if .e then null end *)
Definition fs_reset : query := q_term (TIf (q_fld "e") (q_term TNull) [] None).
(* setpath(["v"] + $p; $v) | setpath(["e"]; $p | length == 0) *)
Definition fs_then : query :=
  q_bin (q_setpath (q_bin (q_arr1 (q_str "v")) OpAdd (q_var "$p")) (q_var "$v")) OpPipe
        (q_setpath (q_arr1 (q_str "e")) (q_len_is "$p" "0" 0)).
(* setpath(["e"]; $p | length == 1) *)
Definition fs_else : query := q_setpath (q_arr1 (q_str "e")) (q_len_is "$p" "1" 1).
Definition fs_if : query := q_term (TIf (q_len_is "$pv" "2" 2) fs_then [] (Some fs_else)).
Definition fs_bind : query :=
  Query [] [] None (Some (q_var "$pv")) (Some OpPipe) (Some fs_if)
        [Pattern [] [Pattern (codes "$p") [] []; Pattern (codes "$v") [] []] []].
(* the update of the foreach *)
Definition fs_upd : query := q_bin fs_reset OpPipe fs_bind.
(* the extraction: if .e then .v else empty end *)
Definition fs_ext : query := q_term (TIf (q_fld "e") (q_fld "v") [] (Some (q_call (codes "empty") []))).
Definition fromstream_def : funcdef :=
  FuncDef (codes "fromstream") [codes "f"]
    (q_term (TForeach (q_call (codes "f") []) (Pattern (codes "$pv") [] []) (q_term TNull) fs_upd (Some fs_ext))).

Definition fromstream_pins (bs : list funcdef) : Prop :=
  lookup_builtin bs (codes "fromstream") 1 = Some fromstream_def /\
  lookup_builtin bs (codes "setpath") 2 = None /\
  lookup_builtin bs (codes "length") 0 = None /\
  lookup_builtin bs (codes "empty") 0 = None.

(* ---- the step as a function on the accumulator ---- *)
Definition len_is (p : list jv) (z : Z) : jv :=
  VBool (match jv_cmp (VInt (zlen p)) (VInt z) with Eq => true | _ => false end).

Definition nbind (r : nres) (f : jv -> nres) : nres :=
  match r with NOk v => f v | e => e end.

(* `if .e then null end` *)
Definition fs_reset_val (acc : jv) : nres :=
  nbind (fn_index2 acc (VStr (codes "e"))) (fun e => NOk (if truthy e then VNull else acc)).

(* the update on the two-element event [p, x] / the one-element event [p] *)
Definition fs_step2 (acc : jv) (p : list jv) (x : jv) : nres :=
  nbind (fs_reset_val acc) (fun a =>
  nbind (fn_setpath a (VArr (VStr (codes "v") :: p)) x) (fun a1 =>
  fn_setpath a1 (VArr [VStr (codes "e")]) (len_is p 0))).
Definition fs_step1 (acc : jv) (p : list jv) : nres :=
  nbind (fs_reset_val acc) (fun a => fn_setpath a (VArr [VStr (codes "e")]) (len_is p 1)).

(* the environment of the update: $pv bound to the event, inside fromstream(f) called at top level *)
Definition fs_env (farg : query) (ev : jv) : env :=
  [BVar (codes "$pv") (plain ev); BClos (codes "f") farg []].

(* ONE STEP of fromstream as a transformer of the accumulator cell c: [st] is the update's result on the cell's content;
   the new accumulator is stored, then `if .e then .v else empty end` hands .v to the consumer when .e is truthy *)
Definition fs_emit (k : K) (u : jv) : M unit :=
  lift (fn_index2 u (VStr (codes "e")))
       (fun e => if truthy e then lift (fn_index2 u (VStr (codes "v"))) (fun w => k (plain w) None) else ret tt).
Definition fs_item (c : N) (k : K) (step : jv -> nres) : M unit :=
  cur <- get_cell c ;; lift (step (fst cur)) (fun u => set_cell c (plain u) ;; fs_emit k u).
