(* BuiltinLaws.v — C13 (and the "defined in jq" clause of C03) stated about the reference semantics Sem
   applied to the definitions of builtin.jq: definitions.

   The laws of coq/c13 are proved over hand transcriptions of to_entries / from_entries / with_entries / ...
   Here the object is [Sem.eval_q bs] where [bs] is the table of jq-defined builtins; what a law needs of
   that table is a PIN: [lookup_builtin bs name arity = Some <the definition as an AST>] (or [= None] for a
   name that must reach the Go-implemented function).  The pins are closed by [reflexivity] on
   coq/gen/GenBuiltins.v, which is regenerated from builtin.jq of the current tree on every run
   (props/C13c.v): an edit of a pinned definition breaks that obligation.

   Shape of the laws: for a query q that is a FUNCTION on the inputs considered (one output, no error),

       eval_q bs m rho q (plain v) None k s = (ticks N ;; k (plain w) None) s        for every fuel m >= F

   — an equation between runs, for every continuation k that is well behaved under frames ([Kat]) and every
   state s: the call costs N units of the step budget ([ticks N]: exactly N applications of jq-defined
   functions / filter arguments; the run is declined with `skip steps` when the budget is smaller), leaves
   the id counter and the cells as they were, and hands w to the consumer.  Definitions only. *)
From Coq Require Import String.
From Coq Require Import List ZArith NArith Bool.
From Verif Require Import common.Sexp sem.JV sem.Syntax sem.Natives sem.Sem.
Import ListNotations.

(* ------------------------------------------------------------------------------------------ *)
(* the step budget *)

Definition set_steps (s : sst) (n : N) : sst :=
  mkst (outs s) (nout s) (cap s) (nextid s) (inputs s) (cells s) (repsens s) n.

(* n successive [tick]s *)
Definition ticks (n : N) : M unit :=
  fun s => if (n <=? steps s)%N then (inl tt, set_steps s (steps s - n))
           else (inr (XSkip (codes "steps")), set_steps s 0).

(* ------------------------------------------------------------------------------------------ *)
(* frames: a cell pushed by an enclosing `//` (or foreach, label) that is live while the consumer runs *)

Definition frame (val : tv) (s : sst) : sst :=
  mkst (outs s) (nout s) (cap s) (nextid s + 1)%N (inputs s) ((nextid s, val) :: cells s) (repsens s) (steps s).

(* state invariants a continuation may rely on: stable under frames and under changes of the budget *)
Definition inv_ok (Inv : sst -> Prop) : Prop :=
  (forall s val, Inv s -> Inv (frame val s)) /\ (forall s n, Inv s -> Inv (set_steps s n)).

(* the continuation k is well behaved on the value w (relative to Inv): it leaves the id counter where it
   was and does not see frames.  (The top-level consumer [emit], the collector of [q], and every
   continuation built from such by the constructs of the language are.) *)
Record Kat (Inv : sst -> Prop) (k : K) (w : jv) : Prop := {
  ka_nid : forall s, Inv s -> nextid (snd (k (plain w) None s)) = nextid s;
  ka_fr : forall s val, Inv s ->
          k (plain w) None (frame val s) = (fst (k (plain w) None s), frame val (snd (k (plain w) None s)))
}.

(* the collector of an array construction [q] with cell c *)
Definition coll (c : N) : K :=
  fun x _ => a <- get_cell c ;;
             match fst a with
             | VArr l => set_cell c (plain (VArr (fst x :: l)))
             | _ => skipM "cell"
             end.

Definition inv_above (c : N) (s : sst) : Prop := (c < nextid s)%N.
Definition inv_true (s : sst) : Prop := True.

(* .[] outside path tracking: the consumer once per element, in order *)
Fixpoint each (k : K) (l : list jv) : M unit :=
  match l with
  | [] => ret tt
  | e :: r => k (plain e) None ;; each k r
  end.

(* ------------------------------------------------------------------------------------------ *)
(* the definitions of builtin.jq the laws are about, as ASTs (the shapes gojq.Parse gives) *)

Definition q_fld (s : string) : query := q_term (TIndex (Index (codes s) None None None false)).
Definition q_iter : query := Query [] [] (Some (Term TIdentity [Suffix None true false])) None None None [].
Definition q_str (s : string) : query := q_term (TString (JString (codes s) None)).

(* def map(f): [.[] | f]; *)
Definition map_def : funcdef :=
  FuncDef (codes "map") [codes "f"] (q_term (TArray (Some (q_bin q_iter OpPipe (q_call (codes "f") []))))).

(* def to_entries: [keys[] as $k | {key: $k, value: .[$k]}]; *)
Definition te_keys : query :=
  Query [] [] (Some (Term (TFunc (Func (codes "keys") [])) [Suffix None true false])) None None None [].
Definition te_entry : query :=
  q_term (TObject [ObjectKeyVal (codes "key") None None (Some (q_call (codes "$k") []));
                   ObjectKeyVal (codes "value") None None
                     (Some (q_term (TIndex (Index [] None (Some (q_call (codes "$k") [])) None false))))]).
Definition te_body : query :=
  q_term (TArray (Some (Query [] [] None (Some te_keys) (Some OpPipe) (Some te_entry) [Pattern (codes "$k") [] []]))).
Definition to_entries_def : funcdef := FuncDef (codes "to_entries") [] te_body.

(* def from_entries: map({ (.key // .Key // .name // .Name): if has("value") then .value else .Value end }) | add // {}; *)
Definition fe_key : query :=
  q_bin (q_fld "key") OpAlt (q_bin (q_fld "Key") OpAlt (q_bin (q_fld "name") OpAlt (q_fld "Name"))).
Definition fe_val : query :=
  q_term (TIf (q_call (codes "has") [q_str "value"]) (q_fld "value") [] (Some (q_fld "Value"))).
Definition fe_obj : query := q_term (TObject [ObjectKeyVal [] None (Some fe_key) (Some fe_val)]).
Definition fe_add : query := q_bin (q_call (codes "add") []) OpAlt (q_term (TObject [])).
Definition fe_body : query := q_bin (q_call (codes "map") [fe_obj]) OpPipe fe_add.
Definition from_entries_def : funcdef := FuncDef (codes "from_entries") [] fe_body.

(* def with_entries(f): to_entries | map(f) | from_entries; *)
Definition we_body : query :=
  q_bin (q_call (codes "to_entries") []) OpPipe
        (q_bin (q_call (codes "map") [q_call (codes "f") []]) OpPipe (q_call (codes "from_entries") [])).
Definition with_entries_def : funcdef := FuncDef (codes "with_entries") [codes "f"] we_body.

(* what the entry laws need of the table of jq-defined builtins (true of builtin.jq: props/C13c.v) *)
Definition entries_pins (bs : list funcdef) : Prop :=
  lookup_builtin bs (codes "map") 1 = Some map_def /\
  lookup_builtin bs (codes "to_entries") 0 = Some to_entries_def /\
  lookup_builtin bs (codes "from_entries") 0 = Some from_entries_def /\
  lookup_builtin bs (codes "with_entries") 1 = Some with_entries_def /\
  lookup_builtin bs (codes "keys") 0 = None /\
  lookup_builtin bs (codes "has") 1 = None /\
  lookup_builtin bs (codes "add") 0 = None.

(* ------------------------------------------------------------------------------------------ *)
(* the values *)

(* {"key": k, "value": v} *)
Definition entry (kv : bytes * jv) : jv := VObj [(codes "key", VStr (fst kv)); (codes "value", snd kv)].
Definition entries (kvs : list (bytes * jv)) : jv := VArr (map entry kvs).

(* the programs *)
Definition q_to_entries : query := q_call (codes "to_entries") [].
Definition q_from_entries : query := q_call (codes "from_entries") [].
Definition q_to_from : query := q_bin q_to_entries OpPipe q_from_entries.
Definition q_with_entries_id : query := q_call (codes "with_entries") [q_identity].

(* endings: a verdict, or none (as PathSound.verdict) *)
Definition is_verdict (e : ending) : Prop := match e with EndSkip _ => False | _ => True end.

(* ------------------------------------------------------------------------------------------ *)
(* the shape of the laws: on the input v the program q is a FUNCTION with value w — for every fuel m >= F,
   every well-behaved consumer k and every state s, the run of q hands w to k exactly once, after N units
   of the step budget, in a state that differs from s by that budget only *)
Definition fn_law (bs : list funcdef) (q : query) (v : jv) (N : N) (w : jv) (F : nat) : Prop :=
  forall m Inv (k : K) s, (F <= m)%nat -> inv_ok Inv -> Kat Inv k w -> Inv s ->
  eval_q bs m [] q (plain v) None k s = (ticks N ;; k (plain w) None) s.
