(* BuiltinLawsProofs.v — proofs of the laws of BuiltinLaws.v: to_entries, from_entries, with_entries and map
   of builtin.jq, evaluated by Sem. *)
From Coq Require Import String.
From Coq Require Import List ZArith NArith Bool Lia.
From Verif Require Import common.Sexp sem.JV sem.Syntax sem.Natives sem.Sem sem.SemProofs sem.PathSound sem.PathSoundProofs sem.BuiltinLaws.
Import ListNotations.

(* ------------------------------------------------------------------------------------------ *)
(* the step budget *)

Lemma sst_eta s : mkst (outs s) (nout s) (cap s) (nextid s) (inputs s) (cells s) (repsens s) (steps s) = s.
Proof. destruct s; reflexivity. Qed.

Lemma tick_ticks s : tick s = ticks 1 s.
Proof.
  unfold tick, ticks, set_steps. destruct (steps s) as [|p] eqn:E.
  - cbn. rewrite <- E. rewrite sst_eta. reflexivity.
  - replace (1 <=? N.pos p)%N with true by (symmetry; apply N.leb_le; lia).
    rewrite N.sub_1_r. reflexivity.
Qed.

Lemma ticks_0 s : ticks 0 s = (inl tt, s).
Proof.
  unfold ticks, set_steps. replace (0 <=? steps s)%N with true by (symmetry; apply N.leb_le; lia).
  rewrite N.sub_0_r, sst_eta. reflexivity.
Qed.

Lemma ticks_add a b (m : M unit) s : (ticks a ;; (ticks b ;; m)) s = (ticks (a + b) ;; m) s.
Proof.
  unfold bind, ticks.
  destruct (N.leb_spec a (steps s)) as [H|H].
  - cbn [set_steps steps].
    destruct (N.leb_spec b (steps s - a)); destruct (N.leb_spec (a + b) (steps s)); try lia.
    + unfold set_steps. cbn [steps outs nout cap nextid inputs cells repsens].
      replace (steps s - a - b)%N with (steps s - (a + b))%N by lia. reflexivity.
    + reflexivity.
  - destruct (N.leb_spec (a + b) (steps s)); try lia. reflexivity.
Qed.

Lemma tick_bind (m : M unit) s : (tick ;; m) s = (ticks 1 ;; m) s.
Proof. unfold bind. rewrite tick_ticks. reflexivity. Qed.

Lemma ticks_0_bind (m : M unit) s : (ticks 0 ;; m) s = m s.
Proof. unfold bind. rewrite ticks_0. reflexivity. Qed.

(* a failing budget passes a scoped cell: the cell is removed and the id counter reset *)
Lemma with_cell_ticks init n (body : N -> M unit) after s :
  with_cell true init (fun c => ticks n ;; body c) after s = (ticks n ;; with_cell true init body after) s.
Proof.
  unfold with_cell, bind, ticks, set_steps. cbn [steps outs nout cap nextid inputs cells repsens].
  destruct (N.leb_spec n (steps s)); [reflexivity|].
  cbn [cells cell_remove outs nout cap nextid inputs repsens steps]. rewrite N.eqb_refl. reflexivity.
Qed.

(* ------------------------------------------------------------------------------------------ *)
(* well-behaved continuations *)

Lemma inv_true_ok : inv_ok inv_true.
Proof. split; intros; exact I. Qed.

Lemma inv_above_ok c : inv_ok (inv_above c).
Proof. split; unfold inv_above; intros; cbn [frame set_steps nextid] in *; lia. Qed.

Lemma emit_kat w : Kat inv_true emit w.
Proof.
  constructor.
  - intros s _. unfold emit. destruct (Nat.leb _ _); reflexivity.
  - intros s val _. unfold emit, frame. cbn [outs nout cap nextid inputs cells repsens steps fst plain].
    destruct (Nat.leb _ _); reflexivity.
Qed.

Lemma coll_kat c w : Kat (inv_above c) (coll c) w.
Proof.
  constructor.
  - intros s _. unfold coll, bind, get_cell. destruct (cell_lookup (cells s) c) as [[a i]|]; [|reflexivity].
    cbn [fst]. destruct a; reflexivity.
  - intros s val H. unfold inv_above in H. unfold coll, bind, get_cell. cbn [frame cells cell_lookup].
    destruct (N.eqb_spec (nextid s) c) as [E|_]; [lia|].
    destruct (cell_lookup (cells s) c) as [[a i]|]; [|reflexivity].
    cbn [fst]. destruct a; try reflexivity.
    unfold set_cell, set_cells. cbn [frame cells cell_update outs nout cap nextid inputs repsens steps fst snd].
    destruct (N.eqb_spec (nextid s) c) as [E|_]; [lia|]. reflexivity.
Qed.

Lemma coll_step c cs w acc s0 : cells s0 = (c, plain (VArr acc)) :: cs ->
  coll c (plain w) None s0 = (inl tt, set_cells s0 ((c, plain (VArr (w :: acc))) :: cs)).
Proof.
  intros Hc. unfold coll, bind, get_cell. rewrite Hc. cbn [cell_lookup]. rewrite N.eqb_refl. cbn [fst plain].
  unfold set_cell. rewrite Hc. cbn [cell_update]. rewrite N.eqb_refl. reflexivity.
Qed.

(* ------------------------------------------------------------------------------------------ *)
(* .[] on an array / the keys of an object, outside path tracking *)

Lemma iterate_go_none (k : K) (elems : list (jv * jv)) :
  (fix go (l : list (jv * jv)) : M unit :=
     match l with
     | [] => ret tt
     | (key, e) :: r => k (plain e) None ;; go r
     end) elems = each k (map snd elems).
Proof.
  induction elems as [|[key e] r IH]; [reflexivity|]. cbn [map snd each]. rewrite <- IH. reflexivity.
Qed.

Lemma combine_iota_snd (l : list jv) : forall from, map snd (combine (map VInt (iota (List.length l) from)) l) = l.
Proof. induction l as [|x r IH]; intros from; [reflexivity|]. cbn. rewrite IH. reflexivity. Qed.

Lemma iterate_arr l k : iterate (plain (VArr l)) None k = each k l.
Proof.
  unfold iterate. cbn [fst plain]. rewrite iterate_go_none, combine_iota_snd. reflexivity.
Qed.

(* ------------------------------------------------------------------------------------------ *)
(* the collecting loop of [.. | f]: each element costs c units and yields one value *)

Definition cell_state (s : sst) (c : N) (acc : list jv) (cs : list (N * tv)) (st : N) : sst :=
  mkst (outs s) (nout s) (cap s) (c + 1)%N (inputs s) ((c, plain (VArr acc)) :: cs) (repsens s) st.

Lemma collect_loop (Kc : K) (g : jv -> jv) (cost : N) c s cs l :
  (forall x, In x l -> forall st, inv_above c st ->
     Kc (plain x) None st = (ticks cost ;; coll c (plain (g x)) None) st) ->
  forall acc st,
  if (cost * N.of_nat (List.length l) <=? st)%N
  then each Kc l (cell_state s c acc cs st) =
       (inl tt, cell_state s c (rev (map g l) ++ acc) cs (st - cost * N.of_nat (List.length l)))
  else exists acc', each Kc l (cell_state s c acc cs st) = (inr (XSkip (codes "steps")), cell_state s c acc' cs 0).
Proof.
  induction l as [|x r IH]; intros H acc st.
  - cbn [List.length N.of_nat]. rewrite N.mul_0_r. replace (0 <=? st)%N with true by (symmetry; apply N.leb_le; lia).
    cbn [each map rev app]. rewrite N.sub_0_r. reflexivity.
  - assert (E : (Kc (plain x) None ;; each Kc r) (cell_state s c acc cs st) =
                if (cost <=? st)%N then each Kc r (cell_state s c (g x :: acc) cs (st - cost))
                else (inr (XSkip (codes "steps")), cell_state s c acc cs 0)).
    { unfold bind at 1. rewrite (H x (or_introl eq_refl)) by (unfold inv_above, cell_state; cbn [nextid]; lia).
      unfold bind at 1. unfold ticks at 1. cbn [steps cell_state].
      destruct (N.leb_spec cost st) as [Hc|Hc]; [|reflexivity].
      change (set_steps (cell_state s c acc cs st) (st - cost)) with (cell_state s c acc cs (st - cost)).
      rewrite (coll_step c cs (g x) acc (cell_state s c acc cs (st - cost)) eq_refl). reflexivity. }
    cbn [each]. rewrite E. clear E.
    assert (IH' := IH (fun y Hy => H y (or_intror Hy))). clear IH.
    cbn [List.length]. rewrite Nat2N.inj_succ, N.mul_succ_r.
    specialize (IH' (g x :: acc) (st - cost)%N).
    destruct (N.leb_spec cost st) as [Hc|Hc].
    + destruct (N.leb_spec (cost * N.of_nat (List.length r)) (st - cost)) as [H1|H1];
        destruct (N.leb_spec (cost * N.of_nat (List.length r) + cost) st) as [H2|H2]; try lia.
      * rewrite IH'. cbn [map rev]. rewrite <- app_assoc. cbn [app].
        replace (st - cost - cost * N.of_nat (List.length r))%N with (st - (cost * N.of_nat (List.length r) + cost))%N by lia.
        reflexivity.
      * exact IH'.
    + destruct (N.leb_spec (cost * N.of_nat (List.length r) + cost) st) as [H2|H2]; try lia.
      exists acc. reflexivity.
Qed.

Lemma collect_cell (Kc : N -> K) (g : jv -> jv) (cost : N) l (k : K) s :
  (forall c x, In x l -> forall st, inv_above c st ->
     Kc c (plain x) None st = (ticks cost ;; coll c (plain (g x)) None) st) ->
  with_cell true (plain (VArr [])) (fun c => each (Kc c) l)
    (fun a => match fst a with
              | VArr l => k (plain (VArr (rev' l))) None
              | _ => skipM "cell"
              end) s
  = (ticks (cost * N.of_nat (List.length l)) ;; k (plain (VArr (map g l))) None) s.
Proof.
  intros H. unfold with_cell.
  change (mkst (outs s) (nout s) (cap s) (nextid s + 1)%N (inputs s) ((nextid s, plain (VArr [])) :: cells s) (repsens s) (steps s))
    with (cell_state s (nextid s) [] (cells s) (steps s)).
  pose proof (collect_loop (Kc (nextid s)) g cost (nextid s) s (cells s) l (H (nextid s)) [] (steps s)) as L.
  unfold bind, ticks.
  destruct (N.leb_spec (cost * N.of_nat (List.length l)) (steps s)) as [Hc|Hc].
  - rewrite L. cbn [cell_state cells cell_lookup]. rewrite N.eqb_refl. cbn [fst plain cell_remove outs nout cap nextid inputs repsens steps].
    rewrite N.eqb_refl. rewrite app_nil_r. unfold rev'. rewrite <- rev_alt, rev_involutive. reflexivity.
  - destruct L as [acc' L]. rewrite L. cbn [cell_state cells cell_remove outs nout cap nextid inputs repsens steps].
    rewrite N.eqb_refl. reflexivity.
Qed.

(* ------------------------------------------------------------------------------------------ *)
(* what a function law says about observations: with fuel >= F and a step budget >= N the observation is
   the single output w and a normal end; and on EVERY fuel, an observation that is a verdict is that one *)
Lemma fn_law_observe bs q v N w F : fn_law bs q v N w F ->
  forall m capn rs ins, (2 <= capn)%nat ->
  ((F <= m)%nat -> (N <= step_budget)%N -> observe bs m capn rs ins q v = ([w], EndNormal)) /\
  (is_verdict (snd (observe bs m capn rs ins q v)) -> observe bs m capn rs ins q v = ([w], EndNormal)).
Proof.
  intros L m capn rs ins Hcap.
  assert (A : forall m', (F <= m')%nat ->
            observe bs m' capn rs ins q v =
            if (N <=? step_budget)%N then ([w], EndNormal) else ([], EndSkip (codes "steps"))).
  { intros m' Hm. unfold observe.
    rewrite (L m' inv_true emit (init_state capn ins rs) Hm inv_true_ok (emit_kat w) I).
    unfold bind, ticks, init_state. cbn [steps]. destruct (N <=? step_budget)%N; [|reflexivity].
    unfold emit, set_steps. cbn [outs nout cap nextid inputs cells repsens steps fst plain].
    destruct capn as [|[|c]]; try lia. reflexivity. }
  split.
  - intros Hm HN. rewrite (A m Hm). replace (N <=? step_budget)%N with true by (symmetry; apply N.leb_le; exact HN). reflexivity.
  - intros V. assert (FF : fuel_free (raw_run bs m capn rs ins q v)).
    { unfold observe in V. unfold raw_run, fuel_free. destruct (eval_q _ _ _ _ _ _ _ _) as [[[]|x] s']; cbn [fst snd] in *; [exact I|].
      destruct x; try exact I. exact V. }
    pose proof (observe_fuel_mono bs m (Nat.max m F) capn rs ins q v ltac:(lia) FF) as E.
    rewrite (A (Nat.max m F)) in E by lia. rewrite <- E in V |- *.
    destruct (N <=? step_budget)%N; [reflexivity|destruct V].
Qed.

(* a // b when a's first truthy output reaches a well-behaved consumer: the `found` cell is a frame around it *)
Lemma alt_found Inv (k : K) w s (right : M unit) :
  Kat Inv k w -> Inv s ->
  with_cell true (plain VFalse) (fun c => set_cell c (plain VTrue) ;; k (plain w) None)
    (fun f => if truthy (fst f) then ret tt else right) s = k (plain w) None s.
Proof.
  intros Hk Hs. unfold with_cell, bind, set_cell, set_cells.
  cbn [cells cell_update outs nout cap nextid inputs repsens steps]. rewrite N.eqb_refl.
  change (mkst (outs s) (nout s) (cap s) (nextid s + 1)%N (inputs s) ((nextid s, plain VTrue) :: cells s) (repsens s) (steps s))
    with (frame (plain VTrue) s).
  rewrite (ka_fr _ _ _ Hk s (plain VTrue) Hs). pose proof (ka_nid _ _ _ Hk s Hs) as Hn.
  destruct (k (plain w) None s) as [[[]|x] s1]; cbn [fst snd frame cells cell_lookup cell_remove outs nout cap nextid inputs repsens steps] in *.
  - rewrite Hn, N.eqb_refl. cbn [fst plain truthy]. unfold VTrue. cbn [truthy]. unfold ret. rewrite <- Hn, sst_eta. reflexivity.
  - rewrite Hn, N.eqb_refl. rewrite <- Hn, sst_eta. reflexivity.
Qed.

Lemma with_cell_ext sc init (body body' : N -> M unit) after s :
  (forall c st, body c st = body' c st) -> with_cell sc init body after s = with_cell sc init body' after s.
Proof. intros H. unfold with_cell. rewrite H. reflexivity. Qed.

Lemma bind_ext_r (a : M unit) (m m' : M unit) s : (forall st, m st = m' st) -> (a ;; m) s = (a ;; m') s.
Proof. intros H. unfold bind. destruct (a s) as [[[]|x] s1]; [apply H|reflexivity]. Qed.

Lemma ticks_ext n (m m' : M unit) s :
  (forall st, m (set_steps s st) = m' (set_steps s st)) -> (ticks n ;; m) s = (ticks n ;; m') s.
Proof. intros H. unfold bind, ticks. destruct (n <=? steps s)%N; [apply H|reflexivity]. Qed.

(* ------------------------------------------------------------------------------------------ *)
(* add on the singleton objects of a sorted association list rebuilds it *)
Lemma obj_set_last acc k v : (forall k' v', In (k', v') acc -> bytes_cmp k' k = Lt) -> obj_set acc k v = acc ++ [(k, v)].
Proof.
  induction acc as [|[k0 v0] r IH]; intros H; [reflexivity|]. cbn [obj_set app].
  rewrite (bytes_cmp_gt k0 k (H k0 v0 (or_introl eq_refl))). rewrite IH; [reflexivity|].
  intros k' v' Hin. apply (H k' v'). right. exact Hin.
Qed.

Definition sing (kv : bytes * jv) : jv := VObj [kv].

Lemma add_sing r : forall acc, obj_sorted r = true ->
  (forall k v, In (k, v) r -> forall k' v', In (k', v') acc -> bytes_cmp k' k = Lt) ->
  add_list (VObj acc) (map sing r) = NOk (VObj (acc ++ r)).
Proof.
  induction r as [|[k v] r IH]; intros acc Hs H; cbn [map].
  - cbn [add_list]. rewrite app_nil_r. reflexivity.
  - change (sing (k, v)) with (VObj [(k, v)]). cbn [add_list binop_add]. unfold obj_merge. cbn [fold_left fst snd].
    rewrite obj_set_last by (intros k' v' Hin; apply (H k v (or_introl eq_refl) k' v' Hin)).
    destruct (sorted_head k v r Hs) as [Hlt Hr].
    rewrite IH; [rewrite <- app_assoc; reflexivity|exact Hr|].
    intros k1 v1 Hin1 k' v' Hin'. apply in_app_or in Hin' as [Hin'|[[= <- <-]|[]]].
    + eapply bytes_cmp_lt_trans; [apply (H k v (or_introl eq_refl) k' v' Hin')|apply (Hlt k1 v1 Hin1)].
    + apply (Hlt k1 v1 Hin1).
Qed.

Lemma add_singletons kvs : obj_sorted kvs = true ->
  fn_add (VArr (map sing kvs)) = NOk (match kvs with [] => VNull | _ => VObj kvs end).
Proof.
  intros Hs. unfold fn_add. cbn [values_of]. destruct kvs as [|[k v] r]; [reflexivity|].
  cbn [map]. change (sing (k, v)) with (VObj [(k, v)]). cbn [add_list binop_add]. destruct (sorted_head k v r Hs) as [Hlt Hr].
  rewrite add_sing; [reflexivity|exact Hr|]. intros k1 v1 Hin1 k' v' [[= <- <-]|[]]. apply (Hlt k1 v1 Hin1).
Qed.

Lemma syn_depth_S : exists d, syn_depth = S d.
Proof. eexists. vm_compute. reflexivity. Qed.

(* ------------------------------------------------------------------------------------------ *)
Section Entries.
Variable bs : list funcdef.
Hypothesis Hmap : lookup_builtin bs (codes "map") 1 = Some map_def.
Hypothesis Hte : lookup_builtin bs (codes "to_entries") 0 = Some to_entries_def.
Hypothesis Hfe : lookup_builtin bs (codes "from_entries") 0 = Some from_entries_def.
Hypothesis Hwe : lookup_builtin bs (codes "with_entries") 1 = Some with_entries_def.
Hypothesis Hkeys : lookup_builtin bs (codes "keys") 0 = None.
Hypothesis Hhas : lookup_builtin bs (codes "has") 1 = None.
Hypothesis Hadd : lookup_builtin bs (codes "add") 0 = None.

Ltac red_eval := cbn [evals_n step ev_q step_eval_q push_defs fold_left ev_t step_eval_t rev app ev_index ev_call ev_bindpat ev_string].
Ltac cbool t := let v := eval vm_compute in t in
                match v with true => change t with true | false => change t with false end.
Ltac closed_bools :=
  repeat match goal with
         | |- context [is_var_name ?x] => cbool (is_var_name x)
         | |- context [list_N_eqb ?x ?y] => cbool (list_N_eqb x y)
         | |- context [is_formatter ?x] => cbool (is_formatter x)
         end.
Ltac ev1 := unfold q_term, q_call, q_bin, q_identity, q_fld, q_str, q_iter; red_eval;
            try unfold step_call at 1;
            cbn [step_eval_index step_call step_bind_pat step_eval_string
                 cps_fold combine fst snd plain List.length Nat.eqb andb orb negb codes lookup_fun lookup_var
                 if_chain alts_loop flat_map strip_dollar term_index_key query_index_key index_key term_number];
            closed_bools.
Ltac ev := repeat (progress ev1).
(* rewrite with a pin after [ev] has unfolded the names *)
Ltac rw H := let H' := fresh in pose proof H as H'; cbn [codes] in H'; rewrite H'; clear H'.

(* {key: $k, value: .[$k]} with $k bound to a key of the object *)
Lemma te_entry_eval m rho kvs key v (k : K) s :
  (8 <= m)%nat -> obj_get kvs key = Some v ->
  eval_q bs m (BVar (codes "$k") (plain (VStr key)) :: rho) te_entry (plain (VObj kvs)) None k s = k (plain (entry (key, v))) None s.
Proof.
  intros Hm Hg. do 8 (destruct m as [|m]; [lia|]). clear Hm.
  unfold eval_q, te_entry. ev.
  unfold fn_index2. rewrite Hg. cbn [lift nav fst plain]. reflexivity.
Qed.

Lemma sorted_get kvs : obj_sorted kvs = true -> forall k v, In (k, v) kvs -> obj_get kvs k = Some v.
Proof. exact (PathSoundProofs.sorted_get kvs). Qed.

(* to_entries on a well-formed object: one tick, the entries in key order *)
Lemma to_entries_eval m rho kvs (k : K) s :
  (16 <= m)%nat -> lookup_fun rho (codes "to_entries") 0 = None -> obj_sorted kvs = true ->
  eval_q bs m rho q_to_entries (plain (VObj kvs)) None k s = (ticks 1 ;; k (plain (entries kvs)) None) s.
Proof.
  intros Hm Hr Hs. do 16 (destruct m as [|m]; [lia|]). clear Hm.
  unfold eval_q, q_to_entries. unfold q_call, q_term. red_eval. unfold step_call at 1.
  cbn [List.length]. cbool (is_var_name (codes "to_entries")). cbn [andb]. rewrite Hr, Hte.
  unfold to_entries_def, te_body. rewrite tick_bind. ev.
  destruct syn_depth_S as [d Hd]. rewrite Hd. cbn [pattern_vars flat_map app fold_left scoped_ids].
  unfold te_keys. ev. rw Hkeys. unfold guard_repsens. ev.
  change (call_native _ (VObj kvs) []) with (Some (fn_keys (VObj kvs))). cbn [fn_keys lift].
  set (g := fun x => match x with
                     | VStr key => entry (key, match obj_get kvs key with Some v => v | None => VNull end)
                     | _ => VNull
                     end).
  set (Kc := fun (c : N) (x : tv) (_ : pst) =>
               eval_q bs (10 + m) [BVar (codes "$k") x; BVar (codes "$k") (plain VNull)] te_entry (plain (VObj kvs)) None (coll c)).
  etransitivity.
  { apply bind_ext_r. intros st. apply with_cell_ext with (body' := fun c => each (Kc c) (map (fun kv => VStr (fst kv)) kvs)).
    intros c st'. rewrite iterate_arr. reflexivity. }
  apply bind_ext_r. intros st.
  rewrite (collect_cell Kc g 0 (map (fun kv => VStr (fst kv)) kvs) k st).
  - rewrite N.mul_0_l, ticks_0_bind. unfold entries. rewrite map_map. do 3 f_equal.
    apply map_ext_in. intros [key v] Hin. subst g. cbn [fst snd]. rewrite (sorted_get kvs Hs key v Hin). reflexivity.
  - intros c x Hin st' _. apply in_map_iff in Hin as [[key v] [<- Hin]]. cbn [fst].
    subst Kc. cbv beta. rewrite ticks_0_bind. subst g. cbv beta iota.
    rewrite (sorted_get kvs Hs key v Hin). apply te_entry_eval; [lia|]. exact (sorted_get kvs Hs key v Hin).
Qed.


(* { (.key // .Key // .name // .Name): if has("value") then .value else .Value end } on {"key":k,"value":v} *)
Lemma fe_obj_eval m Inv key v (k : K) s :
  (12 <= m)%nat -> inv_ok Inv -> Kat Inv k (VObj [(key, v)]) -> Inv s ->
  eval_q bs m [] fe_obj (plain (entry (key, v))) None k s = k (plain (VObj [(key, v)])) None s.
Proof.
  intros Hm HI Hk Hs. do 12 (destruct m as [|m]; [lia|]). clear Hm.
  unfold eval_q, fe_obj, fe_key, fe_val. ev. rw Hhas. unfold guard_repsens. ev.
  assert (E1 : fn_index2 (entry (key, v)) (VStr (codes "key")) = NOk (VStr key)) by reflexivity.
  assert (E2 : fn_index2 (entry (key, v)) (VStr (codes "value")) = NOk v) by reflexivity.
  assert (E3 : call_native (codes "has") (entry (key, v)) [VStr (codes "value")] = Some (NOk VTrue)) by reflexivity.
  rw E1. rw E3. cbn [lift nav fst plain truthy]. rw E2. cbn [lift nav fst plain truthy build_object obj_set scoped_ids].
  apply (alt_found Inv); assumption.
Qed.


(* map(f) on an array when f is a function of cost c on every element: 1 + (1 + c) * length units *)
Lemma map_eval m rho farg l (g : jv -> jv) cost Ff (k : K) s :
  (Ff + 12 <= m)%nat -> lookup_fun rho (codes "map") 1 = None ->
  (forall x, In x l -> forall m' Inv (k' : K) st, (Ff <= m')%nat -> inv_ok Inv -> Kat Inv k' (g x) -> Inv st ->
     eval_q bs m' rho farg (plain x) None k' st = (ticks cost ;; k' (plain (g x)) None) st) ->
  eval_q bs m rho (q_call (codes "map") [farg]) (plain (VArr l)) None k s =
  (ticks (1 + (1 + cost) * N.of_nat (List.length l)) ;; k (plain (VArr (map g l))) None) s.
Proof.
  intros Hm Hr Hf. do 12 (destruct m as [|m]; [lia|]).
  unfold eval_q. unfold q_call, q_term. red_eval. unfold step_call at 1.
  cbn [List.length]. cbool (is_var_name (codes "map")). cbn [andb]. rewrite Hr, Hmap.
  unfold map_def. rewrite tick_bind. ev. cbn [scoped_ids].
  set (Kc := fun (c : N) (x : tv) (ps' : pst) => tick ;; eval_q bs (3 + m) rho farg x ps' (coll c)).
  rewrite <- ticks_add.
  apply bind_ext_r. intros st.
  etransitivity.
  { apply with_cell_ext with (body' := fun c => each (Kc c) l). intros c st'. rewrite iterate_arr. reflexivity. }
  apply (collect_cell Kc g (1 + cost) l k st).
  intros c x Hin st' Hst. subst Kc. cbv beta. rewrite tick_bind, <- ticks_add. apply ticks_ext. intros n1.
  apply (Hf x Hin (3 + m)%nat (inv_above c)); [lia|apply inv_above_ok|apply coll_kat|exact Hst].
Qed.


(* add // {} on the array of singleton objects *)
Lemma fe_add_eval m rho Inv kvs (k : K) s :
  (8 <= m)%nat -> lookup_fun rho (codes "add") 0 = None -> obj_sorted kvs = true ->
  inv_ok Inv -> Kat Inv k (VObj kvs) -> Inv s ->
  eval_q bs m rho fe_add (plain (VArr (map sing kvs))) None k s = k (plain (VObj kvs)) None s.
Proof.
  intros Hm Hr Hs HI Hk Hst. do 8 (destruct m as [|m]; [lia|]). clear Hm.
  unfold eval_q, fe_add. unfold q_bin, q_call, q_term. red_eval. unfold step_call at 1.
  cbn [List.length]. cbool (is_var_name (codes "add")). cbn [andb]. rewrite Hr, Hadd.
  unfold guard_repsens. ev.
  change (call_native _ (VArr (map sing kvs)) []) with (Some (fn_add (VArr (map sing kvs)))).
  rewrite (add_singletons kvs Hs). cbn [lift scoped_ids]. destruct kvs as [|kv r].
  - cbn [truthy]. unfold with_cell, ret. cbn [cells cell_lookup cell_remove outs nout cap nextid inputs repsens steps].
    rewrite !N.eqb_refl. cbn [fst plain]. unfold VFalse. cbn [truthy]. rewrite sst_eta. reflexivity.
  - cbn [truthy]. apply (alt_found Inv); assumption.
Qed.

(* from_entries on the entries of a well-formed object: 2 + length units *)
Lemma from_entries_eval m rho Inv kvs (k : K) s :
  (32 <= m)%nat -> lookup_fun rho (codes "from_entries") 0 = None -> obj_sorted kvs = true ->
  inv_ok Inv -> Kat Inv k (VObj kvs) -> Inv s ->
  eval_q bs m rho q_from_entries (plain (entries kvs)) None k s =
  (ticks (2 + N.of_nat (List.length kvs)) ;; k (plain (VObj kvs)) None) s.
Proof.
  intros Hm Hr Hs HI Hk Hst. do 5 (destruct m as [|m]; [lia|]).
  unfold eval_q, q_from_entries. unfold q_call, q_term. red_eval. unfold step_call at 1.
  cbn [List.length]. cbool (is_var_name (codes "from_entries")). cbn [andb]. rewrite Hr, Hfe.
  unfold from_entries_def, fe_body. rewrite tick_bind. cbn [combine fold_left cps_fold].
  change (ev_q (step bs (step bs (evals_n bs m)))) with (eval_q bs (S (S m))). rewrite pipe_law.
  set (g := fun e => match e with
                     | VObj [(_, VStr key); (_, v)] => VObj [(key, v)]
                     | _ => VNull
                     end).
  replace (2 + N.of_nat (List.length kvs))%N with (1 + (1 + N.of_nat (List.length kvs)))%N by lia.
  rewrite <- (ticks_add 1 (1 + N.of_nat (List.length kvs))). apply ticks_ext. intros n1.
  unfold entries.
  rewrite (map_eval (S m) [] fe_obj (map entry kvs) g 0 12); [|lia|reflexivity|].
  - rewrite map_length, N.add_0_r, N.mul_1_l. apply ticks_ext. intros n2.
    rewrite map_map. replace (map (fun x => g (entry x)) kvs) with (map sing kvs) by (apply map_ext; intros [a b]; reflexivity).
    apply (fe_add_eval (S m) [] Inv); try assumption; [lia|reflexivity|apply (proj2 HI), (proj2 HI); exact Hst].
  - intros x Hin m' Inv' k' st Hm' HI' Hk' Hst'. apply in_map_iff in Hin as [[key v] [<- Hin]].
    rewrite ticks_0_bind. apply (fe_obj_eval m' Inv'); assumption.
Qed.


(* to_entries | from_entries *)
Lemma to_from_eval m Inv kvs (k : K) s :
  (33 <= m)%nat -> obj_sorted kvs = true -> inv_ok Inv -> Kat Inv k (VObj kvs) -> Inv s ->
  eval_q bs m [] q_to_from (plain (VObj kvs)) None k s =
  (ticks (3 + N.of_nat (List.length kvs)) ;; k (plain (VObj kvs)) None) s.
Proof.
  intros Hm Hs HI Hk Hst. destruct m as [|m]; [lia|]. unfold q_to_from. rewrite pipe_law.
  rewrite to_entries_eval; [|lia|reflexivity|exact Hs].
  replace (3 + N.of_nat (List.length kvs))%N with (1 + (2 + N.of_nat (List.length kvs)))%N by lia.
  rewrite <- ticks_add. apply ticks_ext. intros n1.
  apply (from_entries_eval m [] Inv); try assumption; [lia|reflexivity|apply (proj2 HI); exact Hst].
Qed.

(* the filter argument `.` of with_entries(.), called as f from the body of map *)
Lemma we_arg_eval m x (k : K) s :
  (6 <= m)%nat ->
  eval_q bs m [BClos (codes "f") q_identity []] (q_call (codes "f") []) (plain x) None k s = (ticks 1 ;; k (plain x) None) s.
Proof.
  intros Hm. do 6 (destruct m as [|m]; [lia|]). unfold eval_q. ev. rewrite tick_bind. reflexivity.
Qed.

(* with_entries(.) *)
Lemma with_entries_id_eval m Inv kvs (k : K) s :
  (40 <= m)%nat -> obj_sorted kvs = true -> inv_ok Inv -> Kat Inv k (VObj kvs) -> Inv s ->
  eval_q bs m [] q_with_entries_id (plain (VObj kvs)) None k s =
  (ticks (5 + 3 * N.of_nat (List.length kvs)) ;; k (plain (VObj kvs)) None) s.
Proof.
  intros Hm Hs HI Hk Hst. do 5 (destruct m as [|m]; [lia|]).
  unfold eval_q, q_with_entries_id. unfold q_call, q_term. red_eval. unfold step_call at 1.
  cbn [List.length]. cbool (is_var_name (codes "with_entries")). cbn [andb lookup_fun]. rewrite Hwe.
  unfold with_entries_def, we_body. rewrite tick_bind. cbn [combine fold_left cps_fold fst snd].
  cbool (is_var_name (codes "f")). cbv iota. cbn [strip_dollar].
  change (ev_q (step bs (step bs (evals_n bs m)))) with (eval_q bs (S (S m))).
  set (rho1 := [BClos (codes "f") q_identity []]).
  set (L := N.of_nat (List.length kvs)).
  replace (5 + 3 * L)%N with (1 + (1 + ((1 + (1 + 1) * L) + (2 + L))))%N by lia.
  rewrite <- (ticks_add 1 (1 + ((1 + (1 + 1) * L) + (2 + L)))). apply ticks_ext. intros n1.
  rewrite pipe_law. rewrite to_entries_eval; [|lia|reflexivity|exact Hs].
  rewrite <- (ticks_add 1 ((1 + (1 + 1) * L) + (2 + L))). apply ticks_ext. intros n2.
  rewrite pipe_law. unfold entries.
  rewrite (map_eval m rho1 (q_call (codes "f") []) (map entry kvs) (fun x => x) 1 6); [|lia|reflexivity|].
  - rewrite map_length, map_id. fold L. rewrite <- (ticks_add (1 + (1 + 1) * L) (2 + L)). apply ticks_ext. intros n3.
    apply (from_entries_eval m rho1 Inv); try assumption; [lia|reflexivity|].
    apply (proj2 HI), (proj2 HI), (proj2 HI). exact Hst.
  - intros x Hin m' Inv' k' st Hm' HI' Hk' Hst'. apply we_arg_eval. exact Hm'.
Qed.

Theorem to_entries_law kvs : obj_sorted kvs = true -> fn_law bs q_to_entries (VObj kvs) 1 (entries kvs) 16.
Proof. intros Hs m Inv k s Hm _ _ _. apply to_entries_eval; [exact Hm|reflexivity|exact Hs]. Qed.

Theorem from_entries_law kvs : obj_sorted kvs = true ->
  fn_law bs q_from_entries (entries kvs) (2 + N.of_nat (List.length kvs)) (VObj kvs) 32.
Proof. intros Hs m Inv k s Hm HI Hk Hst. apply (from_entries_eval m [] Inv); try assumption. reflexivity. Qed.

Theorem to_from_law kvs : obj_sorted kvs = true ->
  fn_law bs q_to_from (VObj kvs) (3 + N.of_nat (List.length kvs)) (VObj kvs) 33.
Proof. intros Hs m Inv k s Hm HI Hk Hst. apply (to_from_eval m Inv); assumption. Qed.

Theorem with_entries_id_law kvs : obj_sorted kvs = true ->
  fn_law bs q_with_entries_id (VObj kvs) (5 + 3 * N.of_nat (List.length kvs)) (VObj kvs) 40.
Proof. intros Hs m Inv k s Hm HI Hk Hst. apply (with_entries_id_eval m Inv); assumption. Qed.
End Entries.

Theorem from_entries_sem bs : entries_pins bs -> forall kvs, obj_sorted kvs = true ->
  fn_law bs q_from_entries (entries kvs) (2 + N.of_nat (List.length kvs)) (VObj kvs) 32.
Proof. intros (H1 & H2 & H3 & H4 & H5 & H6 & H7) kvs. apply from_entries_law; assumption. Qed.

Theorem to_from_sem bs : entries_pins bs -> forall kvs, obj_sorted kvs = true ->
  fn_law bs q_to_from (VObj kvs) (3 + N.of_nat (List.length kvs)) (VObj kvs) 33.
Proof. intros (H1 & H2 & H3 & H4 & H5 & H6 & H7) kvs. apply to_from_law; assumption. Qed.

Theorem with_entries_id_sem bs : entries_pins bs -> forall kvs, obj_sorted kvs = true ->
  fn_law bs q_with_entries_id (VObj kvs) (5 + 3 * N.of_nat (List.length kvs)) (VObj kvs) 40.
Proof. intros (H1 & H2 & H3 & H4 & H5 & H6 & H7) kvs. apply with_entries_id_law; assumption. Qed.

Theorem to_entries_sem bs : entries_pins bs -> forall kvs, obj_sorted kvs = true ->
  fn_law bs q_to_entries (VObj kvs) 1 (entries kvs) 16.
Proof. intros (H1 & H2 & H3 & H4 & H5 & H6 & H7) kvs. apply to_entries_law; assumption. Qed.

Theorem entries_roundtrips_sem bs : entries_pins bs -> forall kvs, obj_sorted kvs = true ->
  fn_law bs q_to_from (VObj kvs) (3 + N.of_nat (List.length kvs)) (VObj kvs) 33 /\
  fn_law bs q_with_entries_id (VObj kvs) (5 + 3 * N.of_nat (List.length kvs)) (VObj kvs) 40.
Proof. intros H kvs Hs. split; [apply to_from_sem|apply with_entries_id_sem]; assumption. Qed.
