(* Run.v — one harness line -> verdict (see harness/sem/main.go for the line format).

     (run <cap> <ast> <input> <repsens t|f> (<inputs>..) (<outputs>..) <ending> <hex program text: ignored>)
     ending: end | cap | (err <class> <value|_>) | (halt <value> <code>)

   Verdict: "ok" | (skip <reason>) | (bad <model outputs> <model ending>).
   Compared: the output sequence exactly (numbers by exact value, Go representation projected away),
   the kind of ending, the class of the first uncaught error and the value carried by error(x) /
   halt_error; message texts are not compared (a plain errors.New message is compared only when the
   model produces one: `input` exhausted = "break").

     (static <ast> <hex program text: ignored>)     the compiler rejected the program with "function not defined",
                                                     "variable not defined" or "label not defined"
   Verdict: ok when Scope.scope_check finds an unbound name, (bad compiles-in-model) when it finds none.
   Conversely a `run` line (the compiler accepted the program) whose program has an unbound name gets
   (bad (static-error-expected <name>)).  Programs Scope does not judge (imports, computed pattern keys)
   are skipped for this question only.  Definitions only. *)
From Coq Require Import String.
From Coq Require Import List ZArith NArith Bool.
From Verif Require Import common.Sexp sem.JV sem.Syntax sem.AstDecode sem.Natives sem.Sem sem.Scope gen.GenBuiltins.
Import ListNotations.

Definition default_fuel : nat := N.to_nat 3000.

Definition enc_ending (e : ending) : sexp :=
  match e with
  | EndNormal => A "end"
  | EndCap => A "cap"
  | EndError c val =>
      SList [A "err"; A (errclass_name c); match val with Some v => enc_jv v | None => A "_" end]
  | EndHalt v code => SList [A "halt"; enc_jv v; Atom (print_Z code)]
  | EndSkip why => SList [A "skip"; Atom (match why with [] => codes "unknown" | _ => why end)]
  end.

Fixpoint all_obs_eq (a b : list jv) : bool :=
  match a, b with
  | [], [] => true
  | x :: a', y :: b' => obs_eqb x y && all_obs_eq a' b'
  | _, _ => false
  end.

(* does the implementation's ending agree with the model's? *)
Definition ending_agrees (n : nat) (m : ending) (impl : sexp) : bool :=
  match m with
  | EndNormal => atom_is "end" impl
  | EndCap => atom_is "cap" impl
  | EndError c val =>
      match impl with
      | SList [t; cls; iv] =>
          atom_is "err" t && atom_is (errclass_name c) cls &&
          match c, val with
          | EUser, Some v | EPlain, Some v =>
              match dec_jv n iv with Some w => obs_eqb v (normalize w) | None => false end
          | _, _ => true
          end
      | _ => false
      end
  | EndHalt v code =>
      match impl with
      | SList [t; iv; Atom ic] =>
          atom_is "halt" t &&
          match dec_jv n iv, parse_Z ic with
          | Some w, Some z => obs_eqb v (normalize w) && Z.eqb z code
          | _, _ => false
          end
      | _ => false
      end
  | EndSkip _ => false
  end.

Definition scope_of (q : query) : sres := scope_check builtin_defs native_arities q.

Definition run_sexp (n : nat) (e : sexp) : sexp :=
  match e with
  | SList [k; ast; _] =>
      if atom_is "static" k then
        match dec_query n ast with
        | Some q =>
            match scope_of q with
            | SUndef _ => A "ok"
            | SOk => SList [A "bad"; A "compiles-in-model"]
            | SDecline => SList [A "skip"; A "scope-not-judged"]
            end
        | None => A "undecodable"
        end
      else A "undecodable"
  | SList [k; Atom capa; ast; inp; rs; SList ins; SList outs; ending; _] =>
      if atom_is "run" k then
        match parse_N capa, dec_query n ast, dec_jv n inp, dec_bool rs, map_opt (dec_jv n) ins, map_opt (dec_jv n) outs with
        | Some capn, Some q, Some v, Some rsens, Some ins, Some outs =>
            match scope_of q with
            | SUndef name => SList [A "bad"; SList [A "static-error-expected"; Atom name]]
            | _ =>
            let '(mouts, mend) := observe builtin_defs default_fuel (N.to_nat capn) rsens
                                          (map normalize ins) q (normalize v) in
            match mend with
            | EndSkip _ => enc_ending mend
            | _ =>
                if all_obs_eq mouts (map normalize outs) && ending_agrees n mend ending then A "ok"
                else SList [A "bad"; SList (map enc_jv mouts); enc_ending mend]
            end
            end
        | _, _, _, _, _, _ => A "undecodable"
        end
      else A "undecodable"
  | _ => A "undecodable"
  end.

Definition run_line (l : list N) : list N :=
  match parse l with
  | Some e => print (run_sexp (List.length l) e)
  | None => codes "unparsable"
  end.
