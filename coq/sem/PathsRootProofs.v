(* PathsRootProofs.v — `..` in path mode is the walk pre_run; `paths` is `path(..)` without the ROOT. *)
From Coq Require Import String.
From Coq Require Import List ZArith NArith Bool Lia FunctionalExtensionality.
From Verif Require Import common.Sexp sem.JV sem.Syntax sem.Natives sem.Sem sem.SemProofs sem.BuiltinLaws sem.BuiltinLawsProofs
  sem.BuiltinCalls sem.BuiltinCallsProofs sem.StreamLaws sem.StreamLawsProofs sem.StreamGen sem.StreamGenProofs sem.PathsRoot.
Import ListNotations.

Ltac red_eval := cbn [evals_n step ev_q step_eval_q push_defs fold_left ev_t step_eval_t rev app ev_index ev_call ev_bindpat ev_string ev_path].
Ltac cbool t := let v := eval vm_compute in t in
                match v with true => change t with true | false => change t with false end.
Ltac closed_bools :=
  repeat match goal with
         | |- context [is_var_name ?x] => cbool (is_var_name x)
         | |- context [list_N_eqb ?x ?y] => cbool (list_N_eqb x y)
         | |- context [is_formatter ?x] => cbool (is_formatter x)
         end.
Ltac ev1 := unfold q_term, q_call, q_bin, q_identity, q_path, q_dotdot, q_optiter, q_var, q_r; red_eval;
            try unfold step_call at 1;
            cbn [step_eval_index step_call step_bind_pat step_eval_string
                 cps_fold combine fst snd plain List.length Nat.eqb andb orb negb codes lookup_fun lookup_var lookup_label
                 if_chain alts_loop flat_map strip_dollar term_index_key query_index_key index_key term_number op_binop];
            closed_bools.
Ltac ev := repeat (progress ev1).

Section Root.
Variable bs : list funcdef.

Lemma rr_call n body fq cenv x ps (K0 : K) :
  eval_q bs (3 + n) (env_rr body fq cenv) q_r x ps K0 = (tick ;; eval_q bs n (env_rr body fq cenv) body x ps K0).
Proof. unfold eval_q, env_rr. cbn [Nat.add]. ev. reflexivity. Qed.

(* ., (f | qr)  for abstract f-argument and qr *)
Lemma rr_body_unfold n body fq cenv qr x ps (K0 : K) :
  eval_q bs (7 + n) (env_rr body fq cenv)
    (q_bin q_identity OpComma (q_term (TQuery (q_bin (q_call (codes "f") []) OpPipe qr)))) x ps K0 =
  (K0 x ps ;; (tick ;; eval_q bs n cenv fq x ps (fun y ps' => eval_q bs (3 + n) (env_rr body fq cenv) qr y ps' K0))).
Proof. unfold eval_q, env_rr. cbn [Nat.add]. ev. reflexivity. Qed.

Lemma optiter_eval n rho x ps (K0 : K) :
  eval_q bs (3 + n) rho q_optiter x ps K0 =
  try_catch (iterate x ps (fun y ps'' => down (K0 y ps''))) (fun _ => ret tt).
Proof. unfold eval_q. cbn [Nat.add]. ev. reflexivity. Qed.

Definition env_dd : env := env_rr rr_body q_optiter [].

Lemma pre_run_eq kp v rp s :
  pre_run kp v rp s = (tick ;; (kp (rev rp) ;; (tick ;; pre_kids kp v rp))) s.
Proof.
  unfold pre_kids. destruct v as [| | | |l|kvs]; try reflexivity.
  - cbn [pre_run elems_of]. rewrite (go2_arr _ (fun e i => pre_run kp e (VInt i :: rp))) by reflexivity. reflexivity.
  - cbn [pre_run elems_of]. rewrite (go2_obj _ (fun key e => pre_run kp e (VStr key :: rp))) by reflexivity. reflexivity.
Qed.

(* THE WALK of r = `., (f | r)` with f = .[]? in path mode *)
Lemma rr_run kp d : forall v, (vsize v <= d)%nat -> forall n id rp s, (7 * d <= n)%nat ->
  eval_q bs (13 + n) env_dd q_r (v, Some id) (Some (mkp rp v id)) (kpath kp) s = pre_run kp v rp s.
Proof.
  induction d as [|d IH]; intros v Hv n id rp s Hn; [destruct v; cbn [vsize] in Hv; lia|].
  change (13 + n)%nat with (3 + (7 + (3 + n)))%nat. unfold env_dd. rewrite rr_call.
  unfold rr_body at 2. change (q_call (codes "r") []) with q_r. rewrite rr_body_unfold.
  rewrite pre_run_eq. apply bind_ext_r. intros st. unfold bind at 1 3. rewrite kpath_at.
  destruct (kp (rev rp) st) as [[[]|x] s1]; [|reflexivity].
  apply bind_ext_r. intros st2. rewrite optiter_eval. rewrite optiter_path. unfold pre_kids.
  apply go_elems_go2. intros key e Hin id' st'.
  replace (3 + (3 + n))%nat with (13 + (n - 7))%nat by lia.
  apply IH; [pose proof (elems_size v key e Hin); lia|lia].
Qed.

Hypothesis Hrec0 : lookup_builtin bs (codes "recurse") 0 = Some recurse0_def.
Hypothesis Hrec1 : lookup_builtin bs (codes "recurse") 1 = Some recurse1_def.

(* `..` from builtin.jq's top level: two units of budget (recurse/0, recurse/1), then r *)
Lemma dotdot_eval m x ps (K0 : K) :
  eval_q bs (7 + m) [] q_dotdot x ps K0 = (tick ;; (tick ;; eval_q bs (1 + m) env_dd q_r x ps K0)).
Proof.
  transitivity (eval_q bs (3 + (4 + m)) [] (q_call (codes "recurse") []) x ps K0); [reflexivity|].
  rewrite (builtin_call_unfold bs (4 + m) [] (codes "recurse") [] _ _ _ x ps K0 eq_refl eq_refl Hrec0).
  unfold bind_params, closures. cbn [combine fold_left cps_fold].
  change (4 + m)%nat with (3 + (1 + m))%nat.
  rewrite (builtin_call_unfold bs (1 + m) [] (codes "recurse") [q_optiter] _ _ _ x ps K0 eq_refl eq_refl Hrec1).
  unfold bind_params, closures. cbn [combine fold_left cps_fold fst snd]. cbool (is_var_name (codes "f")). cbv iota.
  reflexivity.
Qed.

Lemma path_dotdot_run n v (kp : list jv -> M unit) s : (7 * vsize v <= n)%nat ->
  eval_path bs (20 + n) [] q_dotdot (plain v) kp s = (_ <- fresh ;; (tick ;; (tick ;; pre_run kp v []))) s.
Proof.
  intros Hn.
  transitivity ((id <- fresh ;; eval_q bs (7 + (12 + n)) [] q_dotdot (v, Some id) (Some (mkp [] v id)) (kpath kp)) s); [reflexivity|].
  unfold bind at 1. unfold fresh at 1. unfold bind at 2. unfold fresh at 1. cbn [fst snd].
  rewrite dotdot_eval. apply bind_ext_r. intros st. apply bind_ext_r. intros st2.
  change (1 + (12 + n))%nat with (13 + n)%nat. apply (rr_run kp (vsize v)); [lia|exact Hn].
Qed.

Lemma go2_ext' (f f' : jv -> jv -> M unit) elems :
  (forall key e, In (key, e) elems -> forall st, f key e st = f' key e st) -> forall s, go2 f elems s = go2 f' elems s.
Proof.
  induction elems as [|[key e] r IH]; intros H s; [reflexivity|].
  cbn [go2]. unfold bind, fresh. cbn [fst snd]. rewrite (H key e (or_introl eq_refl)).
  destruct (f' key e _) as [[[]|x] s1]; [|reflexivity]. apply IH. intros key' e' Hin. apply H. right. exact Hin.
Qed.

(* below the root every path is non-empty: the filter of `paths` passes it *)
Lemma pre_run_nonroot (k : K) d : forall v, (vsize v <= d)%nat -> forall rp s, rp <> [] ->
  pre_run (fun p => tick ;; (tick ;; if is_empty_path (VArr p) then ret tt else k (plain (VArr p)) None)) v rp s =
  pre_run (fun p => tick ;; (tick ;; k (plain (VArr p)) None)) v rp s.
Proof.
  induction d as [|d IH]; intros v Hv rp s Hrp; [destruct v; cbn [vsize] in Hv; lia|].
  rewrite !pre_run_eq. apply bind_ext_r. intros st.
  assert (E : is_empty_path (VArr (rev rp)) = false).
  { destruct (rev rp) eqn:Er; [|reflexivity]. exfalso. apply Hrp. rewrite <- (rev_involutive rp), Er. reflexivity. }
  rewrite E. apply bind_ext_r. intros st2. apply bind_ext_r. intros st3. unfold pre_kids.
  apply go2_ext'. intros key e Hin st'. apply IH; [pose proof (elems_size v key e Hin); lia|discriminate].
Qed.
End Root.

Lemma bind_ext_gen {A} (a : M A) (f f' : A -> M unit) s :
  (forall x st, f x st = f' x st) -> bind a f s = bind a f' s.
Proof. intros H. unfold bind. destruct (a s) as [[x|e] s1]; [apply H|reflexivity]. Qed.

(* `paths` and `path(..)` on ANY value: the same walk (node first, then its children); path(..) hands the root path []
   to its consumer, paths spends its two units of budget on the root and drops it; every other path passes *)
Theorem paths_root_sem bs : stream_pins bs -> recurse_pins bs -> forall n v (k : K) s, (7 * vsize v <= n)%nat ->
  eval_q bs (27 + n) [] (q_call (codes "paths") []) (plain v) None k s =
  (tick ;; (_ <- fresh ;; (tick ;; (tick ;;
     (tick ;; ((tick ;; (tick ;; ret tt)) ;;
               (tick ;; pre_kids (fun p => tick ;; (tick ;; k (plain (VArr p)) None)) v []))))))) s /\
  eval_q bs (24 + n) [] (q_path q_dotdot) (plain v) None k s =
  (_ <- fresh ;; (tick ;; (tick ;;
     (tick ;; (k (plain (VArr [])) None ;;
               (tick ;; pre_kids (fun p => k (plain (VArr p)) None) v [])))))) s.
Proof.
  intros Hp [Hr0 Hr1] n v k s Hn. pose proof Hp as (H1 & H2 & H3 & H4 & H5 & H6). split.
  - change (27 + n)%nat with (20 + (7 + n))%nat.
    rewrite (paths_sem bs Hp (7 + n) [] (plain v) None k eq_refl).
    apply bind_ext_gen. intros ? st. change (13 + (7 + n))%nat with (20 + n)%nat.
    rewrite (path_dotdot_run bs Hr0 Hr1 n v _ st Hn).
    do 3 (apply bind_ext_gen; intros ? ?).
    rewrite pre_run_eq. apply bind_ext_gen; intros ? ?. cbn [rev is_empty_path].
    do 2 (apply bind_ext_gen; intros ? ?). unfold pre_kids.
    apply go2_ext'. intros key e Hin st'. apply (pre_run_nonroot k (vsize e)); [lia|discriminate].
  - change (24 + n)%nat with (4 + (20 + n))%nat.
    rewrite (path_sem bs Hp (20 + n) [] q_dotdot (plain v) None k eq_refl).
    change (1 + (20 + n))%nat with (20 + (1 + n))%nat.
    rewrite (path_dotdot_run bs Hr0 Hr1 (1 + n) v _ s) by lia.
    do 3 (apply bind_ext_gen; intros ? ?).
    rewrite pre_run_eq. reflexivity.
Qed.
