(* StreamObsProofs.v — tostream on a well-formed value, observed: exactly the list of events of the value. *)
From Coq Require Import String.
From Coq Require Import List ZArith NArith Bool Lia ZifyN ZifyNat.
From Verif Require Import common.Sexp sem.JV sem.Syntax sem.Natives sem.Sem sem.SemProofs sem.PathSound sem.PathSoundProofs sem.StreamWfProofs.
From Verif Require Import sem.BuiltinLaws sem.BuiltinLawsProofs sem.BuiltinCalls sem.StreamLaws sem.StreamLawsProofs sem.StreamGen sem.StreamGenProofs sem.StreamObs.
Import ListNotations.

Lemma st_walk_0 s : st_walk s [] 0 0 = s.
Proof. unfold st_walk. cbn [rev app List.length N.of_nat]. rewrite Nat.add_0_r, N.add_0_r, N.sub_0_r. apply sst_eta. Qed.

Lemma st_walk_walk s a i t b j u : (N.of_nat (t + u) <= steps s)%N ->
  st_walk (st_walk s a i t) b j u = st_walk s (a ++ b) (i + j) (t + u).
Proof.
  intros H. unfold st_walk. cbn [outs nout cap nextid inputs cells repsens steps]. f_equal.
  - rewrite rev_app_distr, app_assoc. reflexivity.
  - rewrite app_length. lia.
  - lia.
  - lia.
Qed.

Lemma tick_ok s : (1 <= steps s)%N -> tick s = (inl tt, st_walk s [] 0 1).
Proof.
  intros H. unfold tick, st_walk. destruct (steps s) eqn:E; [lia|].
  cbn [rev app List.length N.of_nat]. rewrite Nat.add_0_r, N.add_0_r. rewrite <- E. f_equal. f_equal. lia.
Qed.

Lemma fresh_ok s : fresh s = (inl (nextid s), st_walk s [] 1 0).
Proof.
  unfold fresh, st_walk. cbn [rev app List.length N.of_nat]. rewrite Nat.add_0_r, N.sub_0_r. reflexivity.
Qed.

Lemma emit_ok s x : (S (nout s) < cap s)%nat -> emit (plain x) None s = (inl tt, st_walk s [x] 0 0).
Proof.
  intros H. unfold emit, st_walk. cbn [fst plain rev app List.length N.of_nat].
  replace (Nat.leb (cap s) (S (nout s))) with false by (symmetry; apply Nat.leb_gt; lia).
  rewrite N.add_0_r, N.sub_0_r. f_equal. f_equal. lia.
Qed.

Lemma size_sum_elems v : size_sum (elems_of v) = (vsize v - 1)%nat.
Proof.
  destruct v as [| | | |l|kvs]; try reflexivity.
  - cbn [elems_of vsize]. rewrite Nat.sub_succ, Nat.sub_0_r.
    generalize 0%Z. induction l as [|e r IH]; intros z; [reflexivity|].
    cbn [List.length iota map combine size_sum fold_right snd]. fold (size_sum (combine (map VInt (iota (List.length r) (z + 1))) r)).
    rewrite IH. reflexivity.
  - cbn [elems_of vsize]. rewrite Nat.sub_succ, Nat.sub_0_r.
    induction kvs as [|[k e] r IH]; [reflexivity|].
    cbn [map size_sum fold_right snd fst]. fold (size_sum (map (fun kv : bytes * jv => (VStr (fst kv), snd kv)) r)).
    rewrite IH. reflexivity.
Qed.

Lemma vsize_pos v : (1 <= vsize v)%nat.
Proof. destruct v; cbn [vsize]; lia. Qed.

Lemma flat_len d rp elems :
  (forall key e, In (key, e) elems -> List.length (events_at d e (key :: rp)) = vsize e) ->
  List.length (flat_map (fun ke => events_at d (snd ke) (fst ke :: rp)) elems) = size_sum elems.
Proof.
  induction elems as [|[key e] r IH]; intros H; [reflexivity|].
  cbn [flat_map size_sum fold_right snd fst]. fold (size_sum r). rewrite app_length, (H key e (or_introl eq_refl)), IH; [reflexivity|].
  intros k' e' Hin. apply H. right. exact Hin.
Qed.

Lemma events_length d : forall v rp, (vsize v <= d)%nat -> List.length (events_at d v rp) = vsize v.
Proof.
  induction d as [|d IH]; intros v rp Hv; [pose proof (vsize_pos v); lia|].
  cbn [events_at]. rewrite app_length, flat_len.
  - rewrite size_sum_elems. pose proof (vsize_pos v). cbn [List.length]. lia.
  - intros key e Hin. apply IH. pose proof (elems_size v key e Hin). lia.
Qed.

Ltac nlia := cbn [Nat.add]; rewrite ?Nat2N.inj_add in *; cbn [N.of_nat] in *; lia.
Ltac st_lia := unfold st_walk; cbn [outs nout cap nextid inputs cells repsens steps]; rewrite ?app_length; cbn [List.length]; nlia.

Section Obs.
Variable F : list jv -> jv -> M unit.
Hypothesis HF : forall p x s, (S (nout s) < cap s)%nat -> F p x s = (inl tt, st_walk s [ts_event p x] 0 0).

(* the children loop, given the walk of every child *)
Lemma go2_walk d rp elems :
  (forall key e, In (key, e) elems -> List.length (events_at d e (key :: rp)) = vsize e) ->
  (forall key e, In (key, e) elems -> forall s, (N.of_nat (vsize e) <= steps s)%N -> (nout s + vsize e < cap s)%nat ->
     vrun F e (key :: rp) s = (inl tt, st_walk s (events_at d e (key :: rp)) (vsize e - 1) (vsize e))) ->
  forall s, (N.of_nat (size_sum elems) <= steps s)%N -> (nout s + size_sum elems < cap s)%nat ->
  go2 (fun key e => vrun F e (key :: rp)) elems s =
  (inl tt, st_walk s (flat_map (fun ke => events_at d (snd ke) (fst ke :: rp)) elems) (size_sum elems) (size_sum elems)).
Proof.
  induction elems as [|[key e] r IH]; intros HL H s Hs Hc.
  - cbn [go2 flat_map size_sum fold_right]. unfold ret. rewrite st_walk_0. reflexivity.
  - cbn [size_sum fold_right snd] in Hs, Hc. fold (size_sum r) in Hs, Hc.
    cbn [go2]. unfold bind at 1. unfold bind at 1. rewrite fresh_ok.
    pose proof (vsize_pos e) as Hpos. pose proof (HL key e (or_introl eq_refl)) as HLe.
    rewrite (H key e (or_introl eq_refl)); [|st_lia|st_lia].
    rewrite st_walk_walk by nlia.
    rewrite IH; [| intros k' e' Hin; apply HL; right; exact Hin
                 | intros k' e' Hin; apply H; right; exact Hin
                 | st_lia | st_lia].
    rewrite st_walk_walk by nlia.
    cbn [flat_map size_sum fold_right snd fst app]. fold (size_sum r).
    f_equal. f_equal; lia.
Qed.

Lemma vrun_walk d : forall v, (vsize v <= d)%nat -> forall rp s,
  (N.of_nat (vsize v) <= steps s)%N -> (nout s + vsize v < cap s)%nat ->
  vrun F v rp s = (inl tt, st_walk s (events_at d v rp) (vsize v - 1) (vsize v)).
Proof.
  induction d as [|d IH]; intros v Hv rp s Hs Hc; [pose proof (vsize_pos v); lia|].
  pose proof (vsize_pos v) as Hpos. pose proof (size_sum_elems v) as Hsum.
  rewrite vrun_eq. unfold bind at 1. rewrite tick_ok by nlia. unfold bind at 1.
  assert (HL : forall key e, In (key, e) (elems_of v) -> List.length (events_at d e (key :: rp)) = vsize e).
  { intros key e Hin. apply events_length. pose proof (elems_size v key e Hin). lia. }
  pose proof (flat_len d rp (elems_of v) HL) as HFL.
  rewrite (go2_walk d rp (elems_of v) HL).
  - rewrite st_walk_walk by nlia. rewrite HF by st_lia.
    rewrite st_walk_walk by nlia. cbn [events_at app]. f_equal. f_equal; lia.
  - intros key e Hin s0 Hs0 Hc0. apply IH; [pose proof (elems_size v key e Hin); lia|exact Hs0|exact Hc0].
  - st_lia.
  - st_lia.
Qed.
End Obs.

(* tostream on a well-formed value, observed (fuel from the size, budget and cap large enough): exactly the events of the
   value, in order, and a normal end *)
Theorem tostream_observe bs : stream_pins bs -> forall n v capn rs ins, jv_wf v -> (7 * vsize v <= n)%nat ->
  (N.of_nat (S (vsize v)) <= step_budget)%N -> (vsize v < capn)%nat ->
  observe bs (20 + n) capn rs ins (q_call (codes "tostream") []) v = (events v, EndNormal).
Proof.
  intros Hp n v capn rs ins Hw Hn Hb Hc. unfold observe. rewrite Nat2N.inj_succ in Hb.
  rewrite (tostream_wf_sem bs Hp n v emit (init_state capn ins rs) Hw Hn).
  set (s0 := init_state capn ins rs).
  assert (Hs0 : steps s0 = step_budget) by reflexivity.
  assert (Hn0 : nout s0 = O) by reflexivity. assert (Hc0 : cap s0 = capn) by reflexivity.
  assert (Ho0 : outs s0 = []) by reflexivity.
  unfold bind at 1. rewrite tick_ok by (rewrite Hs0; lia). unfold bind at 1. rewrite fresh_ok.
  rewrite st_walk_walk by (rewrite Hs0; cbn [Nat.add N.of_nat]; lia).
  rewrite (vrun_walk (fun p x => emit (plain (ts_event p x)) None) (fun p x s => emit_ok s (ts_event p x)) (vsize v) v (le_n _) []).
  - rewrite st_walk_walk by (rewrite Hs0; cbn [Nat.add]; rewrite Nat2N.inj_succ; lia). unfold st_walk. cbn [outs]. rewrite Ho0, app_nil_r.
    unfold rev'. rewrite <- rev_alt, rev_involutive. reflexivity.
  - unfold st_walk. cbn [steps Nat.add N.of_nat]. rewrite Hs0. lia.
  - unfold st_walk. cbn [nout cap List.length app]. rewrite Hn0, Hc0. lia.
Qed.
