(* StreamLawsProofs.v — proofs of the laws of StreamLaws.v. *)
From Coq Require Import String.
From Coq Require Import List ZArith NArith Bool Lia FunctionalExtensionality.
From Verif Require Import common.Sexp sem.JV sem.Syntax sem.Natives sem.Sem sem.SemProofs sem.BuiltinLaws sem.BuiltinLawsProofs
  sem.BuiltinCalls sem.BuiltinCallsProofs sem.StreamLaws.
Import ListNotations.

Ltac red_eval := cbn [evals_n step ev_q step_eval_q push_defs fold_left ev_t step_eval_t rev app ev_index ev_call ev_bindpat ev_string ev_path].
Ltac cbool t := let v := eval vm_compute in t in
                match v with true => change t with true | false => change t with false end.
Ltac closed_bools :=
  repeat match goal with
         | |- context [is_var_name ?x] => cbool (is_var_name x)
         | |- context [list_N_eqb ?x ?y] => cbool (list_N_eqb x y)
         | |- context [is_formatter ?x] => cbool (is_formatter x)
         end.
Ltac ev1 := unfold q_term, q_call, q_bin, q_identity, q_fld, q_str, q_iter, q_empty, q_break, q_path, q_dotdot, q_optiter, q_var; red_eval;
            try unfold step_call at 1;
            cbn [step_eval_index step_call step_bind_pat step_eval_string
                 cps_fold combine fst snd plain List.length Nat.eqb andb orb negb codes lookup_fun lookup_var lookup_label
                 if_chain alts_loop flat_map strip_dollar term_index_key query_index_key index_key term_number op_binop];
            closed_bools.
Ltac ev := repeat (progress ev1).
Ltac rw H := let H' := fresh in pose proof H as H'; unfold undefined_in in H'; cbn [codes] in H'; rewrite H'; clear H'.

Section Stream.
Variable bs : list funcdef.
Hypothesis Hpaths : lookup_builtin bs (codes "paths") 0 = Some paths_def.
Hypothesis Htostream : lookup_builtin bs (codes "tostream") 0 = Some tostream_def.
Hypothesis Hselect : lookup_builtin bs (codes "select") 1 = Some select_def.
Hypothesis Hempty : lookup_builtin bs (codes "empty") 0 = None.
Hypothesis Hpath : lookup_builtin bs (codes "path") 1 = None.
Hypothesis Hgetpath : lookup_builtin bs (codes "getpath") 1 = None.

Lemma paths_call m rho v ps k : undefined_in rho "paths" 0 ->
  eval_q bs (20 + m) rho (q_call (codes "paths") []) v ps k =
  (tick ;; eval_path bs (13 + m) [] q_dotdot v
             (fun path => tick ;; (tick ;; if is_empty_path (VArr path) then ret tt else k (plain (VArr path)) ps))).
Proof.
  intros Hr. change (20 + m)%nat with (3 + (17 + m))%nat.
  rewrite (builtin_call_unfold bs (17 + m) rho (codes "paths") [] _ _ _ v ps k eq_refl Hr Hpaths).
  unfold bind_params, closures. cbn [combine fold_left cps_fold fst snd].
  unfold eval_q. cbn [Nat.add]. ev. rw Hpath. unfold guard_repsens. ev. rw Hselect. unfold select_def. ev. rw Hempty. unfold guard_repsens. ev.
  match goal with |- context [step_eval_path _ _ _ _ ?K0] =>
    replace K0 with (fun path : list jv => tick ;; (tick ;; if is_empty_path (VArr path) then ret tt else k (plain (VArr path)) ps))
  end; [reflexivity|].
  apply functional_extensionality. intros [|x r]; reflexivity.
Qed.

(* path(q), the Go-implemented generator: the paths of q on the input, handed to the consumer as arrays *)
Lemma path_call m rho q v ps k : undefined_in rho "path" 1 ->
  eval_q bs (4 + m) rho (q_path q) v ps k = eval_path bs (1 + m) rho q v (fun path => k (plain (VArr path)) ps).
Proof.
  intros Hr. unfold eval_q. cbn [Nat.add]. ev. rw Hr. rw Hpath. unfold guard_repsens. ev. reflexivity.
Qed.

Definition ts_env (p : list jv) : env := [BVar (codes "$p") (plain (VArr p)); BVar (codes "$p") (plain VNull)].

(* states that differ from s in the id counter and the cells only *)
Definition st_of (s : sst) (n : N) (cs : list (N * tv)) : sst :=
  mkst (outs s) (nout s) (cap s) n (inputs s) cs (repsens s) (steps s).

Lemma with_cell_done init (body : N -> M unit) (after : tv -> M unit) s fin nid' :
  body (nextid s) (frame init s) = (inl tt, st_of s nid' ((nextid s, fin) :: cells s)) ->
  with_cell true init body after s = after fin s.
Proof.
  intros H. unfold with_cell.
  change (mkst (outs s) (nout s) (cap s) (nextid s + 1)%N (inputs s) ((nextid s, init) :: cells s) (repsens s) (steps s)) with (frame init s).
  rewrite H. unfold st_of. cbn [cells cell_lookup cell_remove outs nout cap nextid inputs repsens steps].
  rewrite !N.eqb_refl. rewrite sst_eta. reflexivity.
Qed.

(* the consumer path(.[]?) installs around a consumer Kq of paths *)
Definition ts_item (Kq : K) : K := fun y ps'' =>
  down (match ps'' with
        | Some pp => check_intact y pp EInvalidPath ;; Kq (plain (VArr (rev (rpath pp)))) None
        | None => skipM "path-state"
        end).

Definition last_event (p : list jv) (cur : tv) (keys : list jv) : tv :=
  match rev keys with
  | [] => cur
  | lastk :: _ => plain (VArr [VArr (p ++ [lastk])])
  end.

Lemma last_event_cons p cur key keys : last_event p (plain (VArr [VArr (p ++ [key])])) keys = last_event p cur (key :: keys).
Proof.
  unfold last_event. cbn [rev]. destruct (rev keys) as [|a r] eqn:E; cbn [app]; reflexivity.
Qed.

Lemma combine_fst {A B} (a : list A) (b : list B) : List.length a = List.length b -> map fst (combine a b) = a.
Proof. revert b. induction a as [|x a IH]; intros [|y b] H; cbn in *; try discriminate; [reflexivity|]. rewrite IH by lia. reflexivity. Qed.

Lemma iota_length n : forall from, List.length (iota n from) = n.
Proof. induction n; intros; cbn; [reflexivity|]. rewrite IHn. reflexivity. Qed.

Section Children.
Variable p : list jv.
Variable s : sst.
Variable c : N.
Variable Kq : K.
(* the consumer of paths stores [$p + [key]] in the cell c (tostream's update) *)
Hypothesis HK : forall key n cur cs,
  Kq (plain (VArr [key])) None (st_of s n ((c, cur) :: cs)) =
  (inl tt, st_of s n ((c, plain (VArr [VArr (p ++ [key])])) :: cs)).

Lemma ts_item_step cs n cur key e :
  ts_item Kq (e, Some n) (Some (mkp [key] e n)) (st_of s (n + 1) ((c, cur) :: cs)) =
  (inl tt, st_of s (n + 1) ((c, plain (VArr [VArr (p ++ [key])])) :: cs)).
Proof.
  unfold ts_item, down, bind, check_intact, intact. cbn [snd fst lid rpath rev app]. rewrite N.eqb_refl.
  rewrite HK. reflexivity.
Qed.

Lemma ts_loop cs x i (elems : list (jv * jv)) : forall n cur,
  (fix go (l : list (jv * jv)) : M unit :=
     match l with
     | [] => ret tt
     | (key, e) :: r =>
         (id <- fresh ;; ts_item Kq (e, Some id) (Some (mkp (key :: rpath (mkp [] x i)) e id))) ;; go r
     end) elems (st_of s n ((c, cur) :: cs)) =
  (inl tt, st_of s (n + N.of_nat (List.length elems)) ((c, last_event p cur (map fst elems)) :: cs)).
Proof.
  induction elems as [|[key e] r IH]; intros n cur.
  - cbn [List.length N.of_nat map]. rewrite N.add_0_r. reflexivity.
  - unfold bind at 1. unfold bind at 1. unfold fresh at 1. cbn [st_of nextid outs nout cap inputs cells repsens steps rpath].
    change (mkst (outs s) (nout s) (cap s) (n + 1)%N (inputs s) ((c, cur) :: cs) (repsens s) (steps s)) with (st_of s (n + 1) ((c, cur) :: cs)).
    rewrite ts_item_step. rewrite IH. cbn [map fst List.length]. rewrite (last_event_cons p cur).
    rewrite Nat2N.inj_succ. f_equal. f_equal. lia.
Qed.

Lemma ts_children cs x n init :
  (id <- fresh ;;
   try_catch (iterate (x, Some id) (Some (mkp [] x id)) (ts_item Kq)) (fun _ => ret tt)) (st_of s n ((c, init) :: cs)) =
  (inl tt, st_of s (n + 1 + N.of_nat (List.length (child_keys x))) ((c, last_event p init (child_keys x)) :: cs)).
Proof.
  unfold bind at 1. unfold fresh at 1. cbn [st_of nextid outs nout cap inputs cells repsens steps].
  change (mkst (outs s) (nout s) (cap s) (n + 1)%N (inputs s) ((c, init) :: cs) (repsens s) (steps s))
    with (st_of s (n + 1) ((c, init) :: cs)).
  assert (Hchk : forall c0 st, check_intact (x, Some n) (mkp [] x n) c0 st = (inl tt, st)).
  { intros c0 st. unfold check_intact, intact. cbn [snd lid]. rewrite N.eqb_refl. reflexivity. }
  unfold try_catch, iterate. cbn [fst].
  destruct x as [| | | |l|kvs]; cbn [child_keys List.length N.of_nat];
    try (unfold raise_err, ret; rewrite N.add_0_r; reflexivity).
  - unfold bind at 1. rewrite Hchk.
    rewrite (ts_loop cs (VArr l) n).
    rewrite combine_fst by (rewrite map_length, iota_length; reflexivity).
    rewrite combine_length, !map_length, iota_length, Nat.min_id. reflexivity.
  - unfold bind at 1. rewrite Hchk.
    rewrite (ts_loop cs (VObj kvs) n).
    rewrite !map_map, !map_length. cbn [fst]. reflexivity.
Qed.
End Children.

(* the pieces of tostream's reduce, each at a small depth *)
Lemma ts_init_eval m p x (K0 : K) s :
  eval_q bs (6 + m) (ts_env p) ts_init (plain x) None K0 s = K0 (plain (VArr [VArr p; x])) None s.
Proof.
  unfold eval_q, ts_env, ts_init. cbn [Nat.add]. ev. cbn [scoped_ids].
  rewrite (with_cell_done _ _ _ s (plain (VArr [x; VArr p])) (nextid s + 1)%N); [reflexivity|].
  unfold bind at 1.
  change (frame (plain (VArr [])) s) with (st_of s (nextid s + 1) ((nextid s, plain (VArr [])) :: cells s)).
  pose proof (coll_step (nextid s) (cells s) (VArr p) [] (st_of s (nextid s + 1) ((nextid s, plain (VArr [])) :: cells s)) eq_refl) as E1.
  unfold coll in E1. cbn [fst plain] in E1. rewrite E1. clear E1.
  pose proof (coll_step (nextid s) (cells s) x [VArr p] (st_of s (nextid s + 1) ((nextid s, plain (VArr [VArr p])) :: cells s)) eq_refl) as E2.
  unfold coll in E2. cbn [fst plain] in E2. exact E2.
Time Qed.

Lemma ts_upd_eval m p q cur (K0 : K) s :
  eval_q bs (7 + m) (BVar (codes "$q") (plain (VArr q)) :: ts_env p) ts_upd cur None K0 s =
  K0 (plain (VArr [VArr (p ++ q)])) None s.
Proof.
  unfold eval_q, ts_env, ts_upd. cbn [Nat.add]. ev. cbn [scoped_ids binop_add lift].
  rewrite (with_cell_done _ _ _ s (plain (VArr [VArr (p ++ q)])) (nextid s + 1)%N); [reflexivity|].
  change (frame (plain (VArr [])) s) with (st_of s (nextid s + 1) ((nextid s, plain (VArr [])) :: cells s)).
  pose proof (coll_step (nextid s) (cells s) (VArr (p ++ q)) [] (st_of s (nextid s + 1) ((nextid s, plain (VArr [])) :: cells s)) eq_refl) as E1.
  unfold coll in E1. cbn [fst plain] in E1. exact E1.
Time Qed.

Lemma ts_src_eval m rho x (K0 : K) : undefined_in rho "path" 1 ->
  eval_q bs (8 + m) rho (q_path q_optiter) (plain x) None K0 =
  (id <- fresh ;; try_catch (iterate (x, Some id) (Some (mkp [] x id)) (ts_item K0)) (fun _ => ret tt)).
Proof.
  intros Hr. unfold eval_q. cbn [Nat.add]. ev. rw Hr. rw Hpath. unfold guard_repsens. ev. unfold step_eval_path. ev. reflexivity.
Time Qed.

(* reduce qs as $q (qi; qu) for ABSTRACT queries with the laws of tostream's pieces (keeps the terms small) *)
Lemma ts_reduce_gen n (rho : env) (qi qs qu : query) p x (k : K) s :
  (forall (K0 : K) st, eval_q bs n rho qi (plain x) None K0 st = K0 (plain (VArr [VArr p; x])) None st) ->
  (forall (K0 : K), eval_q bs n rho qs (plain x) None K0 =
                    (id <- fresh ;; try_catch (iterate (x, Some id) (Some (mkp [] x id)) (ts_item K0)) (fun _ => ret tt))) ->
  (forall key cur (K0 : K) st, eval_q bs n (BVar (codes "$q") (plain (VArr [key])) :: rho) qu cur None K0 st =
                               K0 (plain (VArr [VArr (p ++ [key])])) None st) ->
  eval_q bs (S (S n)) rho (q_term (TReduce qs (Pattern (codes "$q") [] []) qi qu)) (plain x) None k s =
  k (plain (ts_event p x)) None s.
Proof.
  intros Hi Hs Hu.
  change (eval_q bs (S (S n)) rho (q_term (TReduce qs (Pattern (codes "$q") [] []) qi qu)) (plain x) None k)
    with (eval_t bs (S n) rho (Term (TReduce qs (Pattern (codes "$q") [] []) qi qu) []) (plain x) None k).
  rewrite (reduce_unfold bs n). rewrite Hi. cbn [scoped_ids].
  rewrite (with_cell_done _ _ _ s (last_event p (plain (VArr [VArr p; x])) (child_keys x))
             (nextid s + 1 + 1 + N.of_nat (List.length (child_keys x)))%N).
  - unfold last_event, ts_event. destruct (rev (child_keys x)); reflexivity.
  - rewrite Hs.
    change (frame (plain (VArr [VArr p; x])) s) with (st_of s (nextid s + 1) ((nextid s, plain (VArr [VArr p; x])) :: cells s)).
    apply (ts_children p s (nextid s)).
    intros key n0 cur cs. destruct n as [|n']; [specialize (Hu key cur (fun _ _ => ret tt) s); discriminate Hu|].
    cbn [evals_n step ev_bindpat step_bind_pat codes].
    unfold bind, get_cell. cbn [st_of cells cell_lookup]. rewrite N.eqb_refl.
    rewrite Hu.
    unfold set_cell, set_cells, st_of. cbn [cells cell_update outs nout cap nextid inputs repsens steps]. rewrite ?N.eqb_refl. reflexivity.
Time Qed.


(* reduce path(.[]?) as $q ([$p, .]; [$p + $q]) on x: exactly one output, the event of x *)
Lemma ts_reduce_eval m p x (k : K) s :
  eval_q bs (S (S (8 + m))) (ts_env p) ts_reduce (plain x) None k s = k (plain (ts_event p x)) None s.
Proof.
  apply (ts_reduce_gen (8 + m) (ts_env p) ts_init (q_path q_optiter) ts_upd).
  - intros K0 st. exact (ts_init_eval (2 + m) p x K0 st).
  - intros K0. exact (ts_src_eval m (ts_env p) x K0 eq_refl).
  - intros key cur K0 st. exact (ts_upd_eval (1 + m) p [key] cur K0 st).
Time Qed.

(* getpath($p) | r for an abstract r *)
Lemma getpath_pipe_gen n p (r : query) v (k : K) s :
  eval_q bs (8 + n) (ts_env p) (q_bin (q_call (codes "getpath") [q_var "$p"]) OpPipe r) (plain v) None k s =
  lift (fn_getpath v (VArr p)) (fun x => eval_q bs (7 + n) (ts_env p) r (plain x) None k) s.
Proof.
  change (8 + n)%nat with (S (7 + n)). rewrite pipe_law.
  unfold eval_q at 1. unfold ts_env. cbn [Nat.add]. ev. rw Hgetpath. unfold guard_repsens. ev. reflexivity.
Time Qed.

(* getpath($p) | reduce path(.[]?) as $q ([$p, .]; [$p + $q]): the event for the path $p — the leaf event
   [p, getpath(p)] when the value at p has no children, the closing event [p + [last key]] otherwise *)
Lemma ts_tail_eval m p v (k : K) s :
  eval_q bs (11 + m) (ts_env p) ts_tail (plain v) None k s =
  lift (fn_getpath v (VArr p)) (fun x => k (plain (ts_event p x)) None) s.
Proof.
  unfold ts_tail. change (11 + m)%nat with (8 + (3 + m))%nat. rewrite getpath_pipe_gen.
  destruct (fn_getpath v (VArr p)) as [x|c val|why]; cbn [lift]; [|reflexivity|reflexivity].
  exact (ts_reduce_eval m p x k s).
Time Qed.
End Stream.

(* for a table with the pins *)
Theorem paths_sem bs : stream_pins bs -> forall m rho v ps k, undefined_in rho "paths" 0 ->
  eval_q bs (20 + m) rho (q_call (codes "paths") []) v ps k =
  (tick ;; eval_path bs (13 + m) [] q_dotdot v
             (fun path => tick ;; (tick ;; if is_empty_path (VArr path) then ret tt else k (plain (VArr path)) ps))).
Proof. intros (H1 & H2 & H3 & H4 & H5 & H6) m rho v ps k. apply paths_call; assumption. Qed.

Theorem path_sem bs : stream_pins bs -> forall m rho q v ps k, undefined_in rho "path" 1 ->
  eval_q bs (4 + m) rho (q_path q) v ps k = eval_path bs (1 + m) rho q v (fun path => k (plain (VArr path)) ps).
Proof. intros (H1 & H2 & H3 & H4 & H5 & H6) m rho q v ps k. apply path_call; assumption. Qed.

Theorem ts_tail_sem bs : stream_pins bs -> forall m p v k s,
  eval_q bs (11 + m) (ts_env p) ts_tail (plain v) None k s =
  lift (fn_getpath v (VArr p)) (fun x => k (plain (ts_event p x)) None) s.
Proof. intros (H1 & H2 & H3 & H4 & H5 & H6) m p v k s. apply ts_tail_eval; assumption. Qed.
