(* StreamLaws.v — C13, clauses about `paths` and `tostream`, stated about the reference semantics Sem applied to the
   definitions of builtin.jq: definitions.  (Proofs: StreamLawsProofs.v.) *)
From Coq Require Import String.
From Coq Require Import List ZArith NArith Bool.
From Verif Require Import common.Sexp sem.JV sem.Syntax sem.Natives sem.Sem sem.BuiltinLaws sem.BuiltinCalls.
Import ListNotations.

Definition q_path (q : query) : query := q_call (codes "path") [q].
Definition q_dotdot : query := q_term TRecurse.
Definition q_optiter : query :=
  Query [] [] (Some (Term TIdentity [Suffix None true false; Suffix None false true])) None None None [].
Definition q_var (x : string) : query := q_call (codes x) [].

(* def paths: path(..) | select(. != []); *)
Definition paths_def : funcdef :=
  FuncDef (codes "paths") []
    (q_bin (q_path q_dotdot) OpPipe (q_call (codes "select") [q_bin q_identity OpNe (q_term (TArray None))])).

(* def tostream: path(def r: (.[]?|r), .; r) as $p | getpath($p) | reduce path(.[]?) as $q ([$p, .]; [$p + $q]); *)
Definition ts_r_def : funcdef :=
  FuncDef (codes "r") []
    (q_bin (q_term (TQuery (q_bin q_optiter OpPipe (q_call (codes "r") [])))) OpComma q_identity).
(* the generator of tostream's paths: children first, then the node itself *)
Definition ts_gen : query := q_path (Query [] [ts_r_def] (Some (Term (TFunc (Func (codes "r") [])) [])) None None None []).
(* [$p, .] and [$p + $q] *)
Definition ts_init : query := q_term (TArray (Some (q_bin (q_var "$p") OpComma q_identity))).
Definition ts_upd : query := q_term (TArray (Some (q_bin (q_var "$p") OpAdd (q_var "$q")))).
Definition ts_reduce : query := q_term (TReduce (q_path q_optiter) (Pattern (codes "$q") [] []) ts_init ts_upd).
(* getpath($p) | reduce path(.[]?) as $q ([$p, .]; [$p + $q]) : the event for the path $p *)
Definition ts_tail : query := q_bin (q_call (codes "getpath") [q_var "$p"]) OpPipe ts_reduce.
Definition tostream_def : funcdef :=
  FuncDef (codes "tostream") []
    (Query [] [] None (Some ts_gen) (Some OpPipe) (Some ts_tail) [Pattern (codes "$p") [] []]).

Definition stream_pins (bs : list funcdef) : Prop :=
  lookup_builtin bs (codes "paths") 0 = Some paths_def /\
  lookup_builtin bs (codes "tostream") 0 = Some tostream_def /\
  lookup_builtin bs (codes "select") 1 = Some select_def /\
  lookup_builtin bs (codes "empty") 0 = None /\
  lookup_builtin bs (codes "path") 1 = None /\
  lookup_builtin bs (codes "getpath") 1 = None.

(* ------------------------------------------------------------------------------------------ *)
(* values *)

Definition is_empty_path (x : jv) : bool := match x with VArr [] => true | _ => false end.

(* the path elements of the children of a value, in the order .[] enumerates them *)
Definition child_keys (x : jv) : list jv :=
  match x with
  | VArr l => map VInt (iota (List.length l) 0)
  | VObj kvs => map (fun kv => VStr (fst kv)) kvs
  | _ => []
  end.

(* the event tostream emits for the path p whose value is x: the leaf event [p, x] when x has no children, the closing
   event [p + [last key]] otherwise *)
Definition ts_event (p : list jv) (x : jv) : jv :=
  match rev (child_keys x) with
  | [] => VArr [VArr p; x]
  | lastk :: _ => VArr [VArr (p ++ [lastk])]
  end.
