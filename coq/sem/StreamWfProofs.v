(* StreamWfProofs.v — on a WELL-FORMED value getpath finds, at every path the walk of tostream visits, the node itself:
   tostream is the value-level walk vrun. *)
From Coq Require Import String.
From Coq Require Import List ZArith NArith Bool Lia FunctionalExtensionality.
From Verif Require Import common.Sexp sem.JV sem.Syntax sem.Natives sem.Sem sem.SemProofs sem.PathSound sem.PathSoundProofs.
From Verif Require Import sem.BuiltinLaws sem.BuiltinLawsProofs sem.BuiltinCalls sem.StreamLaws sem.StreamLawsProofs sem.StreamGen sem.StreamGenProofs.
Import ListNotations.

Lemma getpath_snoc root p x :
  fn_getpath root (VArr (p ++ [x])) =
  match fn_getpath root (VArr p) with
  | NOk w => match w with
             | VNull | VArr _ | VObj _ =>
                 match fn_index2 w x with
                 | NOk u => NOk u
                 | NErr _ _ => err EFunc1Wrap
                 | s => s
                 end
             | _ => err EFunc1Type
             end
  | e => e
  end.
Proof.
  unfold fn_getpath. revert root. induction p as [|a r IH]; intros root; cbn [app].
  - destruct root; try reflexivity; destruct (fn_index2 _ x); reflexivity.
  - destruct root; try reflexivity; destruct (fn_index2 _ a); try reflexivity; apply IH.
Qed.

Lemma child_getpath root rp v key e : jv_wf v -> fn_getpath root (VArr (rev rp)) = NOk v -> In (key, e) (elems_of v) ->
  fn_getpath root (VArr (rev (key :: rp))) = NOk e /\ jv_wf e.
Proof.
  intros Hw Hg Hin. cbn [rev]. rewrite getpath_snoc, Hg.
  destruct v as [| | | |l|kvs]; cbn [elems_of] in Hin; try destruct Hin.
  - destruct (arr_elems l key e Hw Hin) as [E W]. rewrite E. split; [reflexivity|exact W].
  - destruct (obj_elems kvs key e Hw Hin) as [E W]. rewrite E. split; [reflexivity|exact W].
Qed.

Lemma go2_ext (f f' : jv -> jv -> M unit) elems :
  (forall key e, In (key, e) elems -> forall st, f key e st = f' key e st) -> forall s, go2 f elems s = go2 f' elems s.
Proof.
  induction elems as [|[key e] r IH]; intros H s; [reflexivity|].
  cbn [go2]. unfold bind, fresh. cbn [fst snd]. rewrite (H key e (or_introl eq_refl)).
  destruct (f' key e _) as [[[]|x] s1]; [|reflexivity]. apply IH. intros key' e' Hin. apply H. right. exact Hin.
Qed.

Lemma gen_run_eq kp v rp s :
  gen_run kp v rp s = (tick ;; (go2 (fun key e => gen_run kp e (key :: rp)) (elems_of v) ;; kp (rev rp))) s.
Proof.
  destruct v as [| | | |l|kvs]; try reflexivity.
  - cbn [gen_run elems_of]. rewrite (go2_arr _ (fun e i => gen_run kp e (VInt i :: rp))) by reflexivity. reflexivity.
  - cbn [gen_run elems_of]. rewrite (go2_obj _ (fun key e => gen_run kp e (VStr key :: rp))) by reflexivity. reflexivity.
Qed.

Lemma vrun_eq F v rp s :
  vrun F v rp s = (tick ;; (go2 (fun key e => vrun F e (key :: rp)) (elems_of v) ;; F (rev rp) v)) s.
Proof.
  destruct v as [| | | |l|kvs]; try reflexivity.
  - cbn [vrun elems_of]. rewrite (go2_arr _ (fun e i => vrun F e (VInt i :: rp))) by reflexivity. reflexivity.
  - cbn [vrun elems_of]. rewrite (go2_obj _ (fun key e => vrun F e (VStr key :: rp))) by reflexivity. reflexivity.
Qed.

(* along the walk of a well-formed value, getpath of the path of a node is the node *)
Lemma gen_run_getpath root (F : list jv -> jv -> M unit) d : forall v, (vsize v <= d)%nat -> forall rp s,
  jv_wf v -> fn_getpath root (VArr (rev rp)) = NOk v ->
  gen_run (fun p => lift (fn_getpath root (VArr p)) (F p)) v rp s = vrun F v rp s.
Proof.
  induction d as [|d IH]; intros v Hv rp s Hw Hg; [destruct v; cbn [vsize] in Hv; lia|].
  rewrite gen_run_eq, vrun_eq. apply bind_ext_r. intros st. unfold bind.
  rewrite (go2_ext _ (fun key e => vrun F e (key :: rp))).
  - destruct (go2 _ _ st) as [[[]|x] s1]; [|reflexivity]. rewrite Hg. reflexivity.
  - intros key e Hin st'. destruct (child_getpath root rp v key e Hw Hg Hin) as [Hg' Hw'].
    apply IH; [pose proof (elems_size v key e Hin); lia|exact Hw'|exact Hg'].
Qed.

(* tostream on a WELL-FORMED value: the value-level walk, one event per node *)
Theorem tostream_wf_sem bs : stream_pins bs -> forall n v (k : K) s, jv_wf v -> (7 * vsize v <= n)%nat ->
  eval_q bs (20 + n) [] (q_call (codes "tostream") []) (plain v) None k s =
  (tick ;; (_ <- fresh ;; vrun (fun p x => k (plain (ts_event p x)) None) v [])) s.
Proof.
  intros Hp n v k s Hw Hn. rewrite (tostream_sem bs Hp n v k s Hn).
  apply bind_ext_r. intros st. unfold bind, fresh. cbn [fst snd].
  apply (gen_run_getpath v (fun p x => k (plain (ts_event p x)) None) (vsize v)); [lia|exact Hw|reflexivity].
Qed.
