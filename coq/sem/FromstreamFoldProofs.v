(* FromstreamFoldProofs.v — fromstream(tostream) observed on a well-formed value = the pure fold of fromstream's steps
   over the events of the value. *)
From Coq Require Import String.
From Coq Require Import List ZArith NArith Bool Lia.
From Verif Require Import common.Sexp sem.JV sem.Syntax sem.Natives sem.Sem sem.SemProofs sem.PathSound sem.PathSoundProofs sem.StreamWfProofs.
From Verif Require Import sem.BuiltinLaws sem.BuiltinLawsProofs sem.BuiltinCalls sem.StreamLaws sem.StreamLawsProofs sem.StreamGen sem.StreamGenProofs
  sem.StreamObs sem.StreamObsProofs sem.FromstreamLaws sem.FromstreamProofs sem.FromstreamFold.
Import ListNotations.

Lemma fs_fold_app a l1 l2 :
  fs_fold a (l1 ++ l2) =
  match fs_fold a l1 with
  | Some (a1, o1) => match fs_fold a1 l2 with Some (a2, o2) => Some (a2, o1 ++ o2) | None => None end
  | None => None
  end.
Proof.
  revert a. induction l1 as [|ev r IH]; intros a; cbn [app fs_fold].
  - destruct (fs_fold a l2) as [[a2 o2]|]; reflexivity.
  - destruct (fs_step_ev a ev) as [u| |]; try reflexivity. destruct (fs_out u) as [o|]; [|reflexivity].
    rewrite IH. destruct (fs_fold u r) as [[a1 o1]|]; [|reflexivity].
    destruct (fs_fold a1 l2) as [[a2 o2]|]; [|reflexivity]. rewrite app_assoc. reflexivity.
Qed.

Lemma fs_out_len u o : fs_out u = Some o -> (List.length o <= 1)%nat.
Proof.
  unfold fs_out. destruct (fn_index2 u _) as [e| |]; try discriminate. destruct (truthy e).
  - destruct (fn_index2 u _); try discriminate. intros [= <-]. cbn. lia.
  - intros [= <-]. cbn. lia.
Qed.

Lemma fs_fold_len evs : forall a a' os, fs_fold a evs = Some (a', os) -> (List.length os <= List.length evs)%nat.
Proof.
  induction evs as [|ev r IH]; intros a a' os; cbn [fs_fold].
  - intros [= <- <-]. cbn. lia.
  - destruct (fs_step_ev a ev) as [u| |]; try discriminate. destruct (fs_out u) as [o|] eqn:Eo; [|discriminate].
    destruct (fs_fold u r) as [[a1 o1]|] eqn:Er; [|discriminate]. intros [= <- <-].
    rewrite app_length. pose proof (fs_out_len u o Eo). pose proof (IH u a1 o1 Er). cbn [List.length]. lia.
Qed.

Ltac z_red := unfold zst; cbn [outs nout cap nextid inputs cells repsens steps]; rewrite ?app_length; cbn [List.length].

Section Fold.
Variable bs : list funcdef.
Hypothesis Hfp : fromstream_pins bs.
Variable n : nat.
Variable farg : query.
Variable s : sst.   (* the state at the entry of the foreach cell *)
Let c := nextid s.
Let F : list jv -> jv -> M unit := fun p x => fs_cont bs n farg c emit (plain (ts_event p x)) None.

Lemma tick_z o i t a : (N.of_nat (S t) <= steps s)%N -> tick (zst s o i t a) = (inl tt, zst s o i (S t) a).
Proof.
  intros H. unfold tick, zst. cbn [steps]. destruct (steps s - N.of_nat t)%N eqn:E; [lia|].
  f_equal. f_equal. lia.
Qed.

Lemma fresh_z o i t a : fresh (zst s o i t a) = (inl (nextid s + 1 + N.of_nat i)%N, zst s o (S i) t a).
Proof. unfold fresh, zst. cbn [nextid outs nout cap inputs cells repsens steps]. f_equal. f_equal. lia. Qed.

Lemma ts_event_shape p x : (exists y, ts_event p x = VArr [VArr p; y]) \/ (exists q, ts_event p x = VArr [VArr q]).
Proof. unfold ts_event. destruct (rev (child_keys x)); [left|right]; eexists; reflexivity. Qed.

(* one event *)
Lemma F_z p x o i t a u ow : fs_step_ev a (ts_event p x) = NOk u -> fs_out u = Some ow ->
  (nout s + List.length o + 1 < cap s)%nat ->
  F p x (zst s o i t a) = (inl tt, zst s (o ++ ow) i t u).
Proof.
  intros Hstep Hout Hcap. unfold F.
  assert (Hc : cell_lookup (cells (zst s o i t a)) c = Some (plain a)).
  { unfold zst. cbn [cells cell_lookup]. unfold c. destruct (N.eqb_spec (nextid s) (nextid s)); [reflexivity|congruence]. }
  assert (E : fs_cont bs n farg c emit (plain (ts_event p x)) None (zst s o i t a) =
              lift (fs_step_ev a (ts_event p x)) (fun u0 => set_cell c (plain u0) ;; fs_emit emit u0) (zst s o i t a)).
  { destruct (ts_event_shape p x) as [[y Ey]|[q Eq]].
    - rewrite Ey. exact (proj1 (fromstream_step_sem bs Hfp n farg c emit p a _ Hc) y).
    - rewrite Eq. exact (proj2 (fromstream_step_sem bs Hfp n farg c emit q a _ Hc)). }
  rewrite E, Hstep. cbn [lift]. clear E Hc. unfold bind, set_cell, set_cells, zst.
  cbn [cells cell_update outs nout cap nextid inputs repsens steps]. unfold c.
  destruct (N.eqb_spec (nextid s) (nextid s)) as [_|Hne]; [|congruence].
  unfold fs_emit. unfold fs_out in Hout.
  destruct (fn_index2 u (VStr (codes "e"))) as [e| |]; try discriminate Hout. cbn [lift].
  destruct (truthy e).
  - destruct (fn_index2 u (VStr (codes "v"))) as [w| |]; try discriminate Hout. injection Hout as <-. cbn [lift].
    unfold emit. cbn [fst plain outs nout cap nextid inputs cells repsens steps].
    replace (Nat.leb (cap s) (S (nout s + List.length o))) with false by (symmetry; apply Nat.leb_gt; lia).
    rewrite rev_app_distr, app_length. cbn [rev app List.length]. f_equal. f_equal. lia.
  - injection Hout as <-. unfold ret. rewrite app_nil_r. reflexivity.
Qed.

Lemma go2_z d rp elems :
  (forall key e, In (key, e) elems -> List.length (events_at d e (key :: rp)) = vsize e) ->
  (forall key e, In (key, e) elems -> forall o i t a a' os,
     fs_fold a (events_at d e (key :: rp)) = Some (a', os) ->
     (N.of_nat (t + vsize e) <= steps s)%N -> (nout s + List.length o + vsize e < cap s)%nat ->
     vrun F e (key :: rp) (zst s o i t a) = (inl tt, zst s (o ++ os) (i + (vsize e - 1)) (t + vsize e) a')) ->
  forall o i t a a' os,
  fs_fold a (flat_map (fun ke => events_at d (snd ke) (fst ke :: rp)) elems) = Some (a', os) ->
  (N.of_nat (t + size_sum elems) <= steps s)%N -> (nout s + List.length o + size_sum elems < cap s)%nat ->
  go2 (fun key e => vrun F e (key :: rp)) elems (zst s o i t a) =
  (inl tt, zst s (o ++ os) (i + size_sum elems) (t + size_sum elems) a').
Proof.
  induction elems as [|[key e] r IH]; intros HL H o i t a a' os Hf Hs Hc.
  - cbn [flat_map fs_fold] in Hf. injection Hf as <- <-. cbn [go2 size_sum fold_right]. unfold ret.
    rewrite app_nil_r, !Nat.add_0_r. reflexivity.
  - cbn [flat_map snd fst] in Hf. rewrite fs_fold_app in Hf.
    destruct (fs_fold a (events_at d e (key :: rp))) as [[a1 o1]|] eqn:E1; [|discriminate].
    destruct (fs_fold a1 (flat_map _ r)) as [[a2 o2]|] eqn:E2; [|discriminate]. injection Hf as <- <-.
    cbn [size_sum fold_right snd] in Hs, Hc |- *. fold (size_sum r) in Hs, Hc |- *.
    pose proof (vsize_pos e) as Hpos. pose proof (HL key e (or_introl eq_refl)) as HLe.
    pose proof (fs_fold_len _ _ _ _ E1) as Hl1. rewrite HLe in Hl1.
    cbn [go2]. unfold bind at 1. unfold bind at 1. rewrite fresh_z.
    rewrite (H key e (or_introl eq_refl) o (S i) t a a1 o1 E1) by lia.
    rewrite (IH (fun k' e' Hin => HL k' e' (or_intror Hin)) (fun k' e' Hin => H k' e' (or_intror Hin))
                (o ++ o1) (S i + (vsize e - 1))%nat (t + vsize e)%nat a1 a2 o2 E2)
      by (rewrite ?app_length; lia).
    rewrite <- app_assoc. f_equal. f_equal; lia.
Qed.

Lemma vrun_z d : forall v, (vsize v <= d)%nat -> forall rp o i t a a' os,
  fs_fold a (events_at d v rp) = Some (a', os) ->
  (N.of_nat (t + vsize v) <= steps s)%N -> (nout s + List.length o + vsize v < cap s)%nat ->
  vrun F v rp (zst s o i t a) = (inl tt, zst s (o ++ os) (i + (vsize v - 1)) (t + vsize v) a').
Proof.
  induction d as [|d IH]; intros v Hv rp o i t a a' os Hf Hs Hc; [pose proof (vsize_pos v); lia|].
  pose proof (vsize_pos v) as Hpos. pose proof (size_sum_elems v) as Hsum.
  assert (HL : forall key e, In (key, e) (elems_of v) -> List.length (events_at d e (key :: rp)) = vsize e).
  { intros key e Hin. apply events_length. pose proof (elems_size v key e Hin). lia. }
  pose proof (flat_len d rp (elems_of v) HL) as HFL.
  cbn [events_at] in Hf. rewrite fs_fold_app in Hf.
  destruct (fs_fold a (flat_map _ (elems_of v))) as [[a1 o1]|] eqn:E1; [|discriminate].
  cbn [fs_fold] in Hf.
  destruct (fs_step_ev a1 (ts_event (rev rp) v)) as [u| |] eqn:Es; try discriminate.
  destruct (fs_out u) as [ow|] eqn:Eo; [|discriminate]. injection Hf as <- <-.
  pose proof (fs_fold_len _ _ _ _ E1) as Hl1. rewrite HFL in Hl1.
  rewrite vrun_eq. unfold bind at 1. rewrite tick_z by lia. unfold bind at 1.
  rewrite (go2_z d rp (elems_of v) HL) with (a' := a1) (os := o1); [| |exact E1|lia|lia].
  - rewrite (F_z (rev rp) v _ _ _ a1 u ow Es Eo) by (rewrite app_length; lia).
    rewrite app_nil_r, <- app_assoc. f_equal. f_equal; lia.
  - intros key e Hin o0 i0 t0 a0 a0' os0 Hf0 Hs0 Hc0. apply IH; try assumption. pose proof (elems_size v key e Hin). lia.
Qed.
End Fold.

Definition q_fs_ts : query := q_call (codes "fromstream") [q_call (codes "tostream") []].

(* fromstream(tostream) observed on a well-formed value = the outputs of the pure fold of fromstream's steps over the
   events of the value (whenever that fold succeeds; fuel from the size, budget and cap large enough) *)
Theorem fromstream_tostream_fold bs : stream_pins bs -> fromstream_pins bs ->
  forall n v capn rs ins a' os, jv_wf v -> (7 * vsize v <= n)%nat ->
  fs_fold VNull (events v) = Some (a', os) ->
  (N.of_nat (vsize v + 3) <= step_budget)%N -> (vsize v < capn)%nat ->
  observe bs (28 + n) capn rs ins q_fs_ts v = (os, EndNormal).
Proof.
  intros Hp Hfp n v capn rs ins a' os Hw Hn Hf Hb Hc. unfold observe, q_fs_ts.
  set (s0 := init_state capn ins rs).
  assert (Hs0 : steps s0 = step_budget) by reflexivity.
  assert (Hn0 : nout s0 = O) by reflexivity. assert (Hc0 : cap s0 = capn) by reflexivity.
  assert (Ho0 : outs s0 = []) by reflexivity.
  change (28 + n)%nat with (21 + (7 + n))%nat. rewrite (fromstream_call_sem bs Hfp (7 + n)).
  cbn [scoped_ids]. unfold bind at 1. rewrite tick_ok by (rewrite Hs0; lia).
  set (s1 := st_walk s0 [] 0 1).
  assert (Hs1 : steps s1 = (step_budget - 1)%N) by (unfold s1, st_walk; cbn [steps N.of_nat]; rewrite Hs0; reflexivity).
  assert (Hn1 : nout s1 = O) by (unfold s1, st_walk; cbn [nout List.length]; rewrite Hn0; reflexivity).
  assert (Hc1 : cap s1 = capn) by reflexivity.
  assert (Ho1 : outs s1 = []) by (unfold s1, st_walk; cbn [outs rev app]; exact Ho0).
  assert (Z0 : mkst (outs s1) (nout s1) (cap s1) (nextid s1 + 1)%N (inputs s1) ((nextid s1, plain VNull) :: cells s1) (repsens s1) (steps s1)
               = zst s1 [] 0 0 VNull).
  { unfold zst. cbn [rev app List.length N.of_nat]. rewrite Nat.add_0_r, N.add_0_r, N.sub_0_r. reflexivity. }
  unfold with_cell. rewrite Z0.
  unfold bind at 1. rewrite (tick_z bs O q_identity s1 [] O O VNull) by (rewrite Hs1; lia).
  change (13 + (7 + n))%nat with (20 + n)%nat.
  rewrite (tostream_wf_sem bs Hp n v _ _ Hw Hn).
  unfold bind at 1. rewrite (tick_z bs O q_identity s1 [] O 1%nat VNull) by (rewrite Hs1; lia).
  unfold bind at 1. rewrite (fresh_z bs O q_identity s1 [] O 2%nat VNull).
  rewrite (vrun_z bs Hfp (7 + n) (q_call (codes "tostream") []) s1 (vsize v) v (le_n _) [] [] 1%nat 2%nat VNull a' os Hf)
    by (rewrite ?Hs1, ?Hn1, ?Hc1; cbn [List.length]; lia).
  unfold zst. cbn [cells cell_lookup cell_remove outs nout cap nextid inputs repsens steps fst].
  destruct (N.eqb_spec (nextid s1) (nextid s1)) as [_|Hne]; [|congruence].
  unfold ret. cbn [outs app]. rewrite Ho1, app_nil_r. unfold rev'. rewrite <- rev_alt, rev_involutive. reflexivity.
Qed.
