(* Syntax.v — the AST of /repo/query.go, type for type.

   Go encodes a term as a struct with a Type tag and one meaningful payload field; here that is a sum
   type with one constructor per TermType carrying exactly that payload (plus the SuffixList every
   term has).  Pointer fields that may be nil are [option]; Go strings are [bytes]; "" is [].
   Query.Meta (module metadata) is not represented; Query.Imports only by its paths (the
   semantics answers "skip" for programs with imports: modules are property C18).
   The harness serialises the AST returned by gojq.Parse (harness/sem/ast.go); AstDecode.v reads it. *)
From Coq Require Import List ZArith NArith.
From Verif Require Import sem.JV.
Import ListNotations.

Inductive operator :=
| OpPipe | OpComma | OpAdd | OpSub | OpMul | OpDiv | OpMod | OpEq | OpNe | OpGt | OpLt | OpGe | OpLe
| OpAnd | OpOr | OpAlt | OpAssign | OpModify | OpUpdateAdd | OpUpdateSub | OpUpdateMul | OpUpdateDiv
| OpUpdateMod | OpUpdateAlt.

Inductive import := Import (importPath importAlias includePath : bytes).

(* A number literal travels with the value gojq's toNumber gives its text (parseNumber of
   strconv: trusted), so the model needs no decimal-to-binary64 conversion. *)
Inductive query :=
| Query (imports : list import) (funcDefs : list funcdef) (term : option term)
        (left : option query) (op : option operator) (right : option query) (patterns : list pattern)
with funcdef :=
| FuncDef (name : bytes) (args : list bytes) (body : query)
with term :=
| Term (ty : termkind) (suffixList : list suffix)
with termkind :=
| TIdentity | TRecurse | TNull | TTrue | TFalse
| TIndex (i : index)
| TFunc (f : func)
| TObject (kvs : list objectkeyval)
| TArray (q : option query)
| TNumber (text : bytes) (value : num)
| TUnary (op : operator) (t : term)
| TFormat (fmt : bytes) (str : option jstring)
| TString (s : jstring)
| TIf (cond then_ : query) (elifs : list (query * query)) (else_ : option query)
| TTry (body : query) (catch : option query)
| TReduce (source : query) (pat : pattern) (start update : query)
| TForeach (source : query) (pat : pattern) (start update : query) (extract : option query)
| TLabel (ident : bytes) (body : query)
| TBreak (label : bytes)
| TQuery (q : query)
with index :=
| Index (name : bytes) (str : option jstring) (start end_ : option query) (isSlice : bool)
with func :=
| Func (name : bytes) (args : list query)
with jstring :=
| JString (str : bytes) (queries : option (list query))   (* Queries == nil  <->  None *)
with objectkeyval :=
| ObjectKeyVal (key : bytes) (keyString : option jstring) (keyQuery : option query) (val : option query)
with suffix :=
| Suffix (index : option index) (iter optional : bool)
with pattern :=
| Pattern (name : bytes) (array : list pattern) (object : list patternobject)
with patternobject :=
| PatternObject (key : bytes) (keyString : option jstring) (keyQuery : option query) (val : option pattern).

(* convenient builders for the evaluator (the queries compiler.go synthesises) *)
Definition q_term (t : termkind) : query := Query [] [] (Some (Term t [])) None None None [].
Definition q_bin (l : query) (o : operator) (r : query) : query := Query [] [] None (Some l) (Some o) (Some r) [].
Definition q_identity : query := q_term TIdentity.
Definition q_call (name : bytes) (args : list query) : query := q_term (TFunc (Func name args)).
