(* VmLink2Rel.v — the relation R between results of the eager list semantics den2 (Sem's values) and results of
   c01vm2's denotation (c01vm2's values), and its algebra: transcribed from VmLink.v (which does the same for coq/c01vm),
   the exception type of c01vm2.Den having one more constructor (XFuel: related to nothing). *)
From Coq Require Import String.
From Coq Require Import List ZArith NArith Bool Lia.
From Verif Require Import common.Sexp sem.JV sem.Syntax sem.Natives sem.Sem sem.SemProofs sem.DenLink sem.DenLink2 sem.VmLink2Def.
From Verif Require c01vm2.Syntax c01vm2.Code c01vm2.Den.
Import ListNotations.

(* errors: Sem carries (class, what catch receives); c01vm carries the payload or the message *)
Definition erel (c : errclass) (val : option jv) (e : VS.err0) : Prop :=
  match e with
  | VS.EVal v => val = Some (emb_v v)
  | VS.EMsg m => val = None \/ val = Some (VStr m)
  end.
(* breaks: c01vm's Den breaks to the label NAME, Sem to the id the name is bound to in the environment L *)
Definition xrel (L : env) (a : option exn) (b : option VD.exn) : Prop :=
  match a, b with
  | None, None => True
  | Some (XErr O c val), Some (VD.XErr e) => erel c val e
  | Some (XBreak i), Some (VD.XBrk l) => lookup_label L (name_of l) = Some i
  | _, _ => False
  end.
(* agreement up to the point where Sem declines: either both results agree, or Sem's outputs are
   (the embedding of) a prefix of the VM-side outputs and Sem ends with a skip *)
Definition R (L : env) (rs : result) (rv : VD.result) : Prop :=
  (fst rs = map emb_v (fst rv) /\ xrel L (snd rs) (snd rv)) \/
  (exists why pre post, snd rs = Some (XSkip why) /\ fst rv = pre ++ post /\ fst rs = map emb_v pre).

Section Rel.
Variable L : env.

Lemma R_rseq a a' b b' : R L a a' -> R L b b' -> R L (rseq a b) (VD.seq a' b').
Proof.
  intros [[Ea Xa]|(why & pre & post & Sa & Pa & Ea)] Hb; destruct a as [ws x], a' as [ws' x']; cbn [fst snd] in *.
  - destruct x as [x|], x' as [x'|]; cbn [rseq VD.seq]; try (destruct x as [[|d]| | | | |]; contradiction); try contradiction.
    + left. split; assumption.
    + destruct Hb as [[Eb Xb]|(why & pre & post & Sb & Pb & Eb)]; cbn [fst snd].
      * left. cbn [fst snd]. split; [rewrite map_app, Ea, Eb; reflexivity|exact Xb].
      * right. exists why, (ws' ++ pre), post. cbn [fst snd]. rewrite Sb, Pb, Ea, Eb, map_app, app_assoc. auto.
  - subst x. cbn [rseq]. right. destruct x' as [x'|]; cbn [VD.seq fst snd].
    + exists why, pre, post. auto.
    + exists why, pre, (post ++ fst b'). rewrite Pa, app_assoc. auto.
Qed.

Lemma R_bind_list f f' : (forall w, R L (f (emb_v w)) (f' w)) ->
  forall ws', R L (rbind_list (map emb_v ws') f) (VD.bind_list ws' f').
Proof.
  intros Hf. induction ws' as [|w r IH]; cbn [map rbind_list VD.bind_list].
  - left. split; [reflexivity|exact I].
  - apply R_rseq; [apply Hf|exact IH].
Qed.

Lemma bind_list_app f a b : VD.bind_list (a ++ b) f = VD.seq (VD.bind_list a f) (VD.bind_list b f).
Proof.
  induction a as [|w a IH]; cbn [app VD.bind_list].
  - destruct (VD.bind_list b f); reflexivity.
  - rewrite IH. destruct (f w) as [os [x|]]; cbn [VD.seq]; [reflexivity|].
    destruct (VD.bind_list a f) as [os1 [y|]]; cbn [VD.seq fst snd]; [reflexivity|].
    rewrite app_assoc. reflexivity.
Qed.

Lemma R_rbind r r' f f' : R L r r' -> (forall w, R L (f (emb_v w)) (f' w)) -> R L (rbind r f) (VD.bind r' f').
Proof.
  intros Hr Hf. unfold rbind, VD.bind.
  destruct Hr as [[Er Xr]|(why & pre & post & Sr & Pr & Er)].
  - rewrite Er. pose proof (R_bind_list f f' Hf (fst r')) as HL.
    destruct (rbind_list (map emb_v (fst r')) f) as [os x], (VD.bind_list (fst r') f') as [os' x'].
    destruct HL as [[EL XL]|(why & pre & post & SL & PL & EL)]; cbn [fst snd] in *.
    + destruct x as [x|], x' as [x'|]; try (destruct x as [[|d]| | | | |]; contradiction); try contradiction.
      * left. split; assumption.
      * left. split; assumption.
    + subst x. right. exists why, pre, post. destruct x'; cbn [fst snd]; auto.
  - rewrite Er, Pr, bind_list_app. pose proof (R_bind_list f f' Hf pre) as HL.
    destruct (rbind_list (map emb_v pre) f) as [os x], (VD.bind_list pre f') as [os' x'].
    destruct HL as [[EL XL]|(why' & pre' & post' & SL & PL & EL)]; cbn [fst snd] in *.
    + destruct x as [x|], x' as [x'|]; try (destruct x as [[|d]| | | | |]; contradiction); try contradiction.
      * cbn [VD.seq]. left. split; assumption.
      * cbn [VD.seq]. right. exists why, os', (fst (VD.bind_list post f')).
        destruct (VD.bind_list post f') as [os2 [y|]]; cbn [fst snd]; rewrite Sr; auto.
    + subst x. right. destruct x' as [x'|]; cbn [VD.seq].
      * exists why', pre', post'. cbn [fst snd]. auto.
      * exists why', pre', (post' ++ fst (VD.bind_list post f')).
        destruct (VD.bind_list post f') as [os2 [y|]]; cbn [fst snd]; rewrite PL, app_assoc; auto.
Qed.

Lemma name_of_var x : is_var_name (name_of x) = true.
Proof. reflexivity. Qed.

Lemma repeat_eqb n m : list_N_eqb (repeat 97%N n) (repeat 97%N m) = Nat.eqb n m.
Proof.
  revert m. induction n as [|n IH]; destruct m as [|m]; cbn; try reflexivity. apply IH.
Qed.

Lemma name_of_eqb x y : list_N_eqb (name_of x) (name_of y) = N.eqb x y.
Proof.
  unfold name_of. cbn [list_N_eqb]. rewrite N.eqb_refl. cbn [andb]. rewrite repeat_eqb. cbn [Nat.eqb].
  destruct (N.eqb_spec x y) as [->|Hne]; [apply Nat.eqb_refl|].
  apply Nat.eqb_neq. intros H. apply Hne. apply N2Nat.inj. exact H.
Qed.

Lemma name_of_not_env x : list_N_eqb (name_of x) (codes "$ENV") = false.
Proof. unfold name_of. destruct (N.to_nat x); reflexivity. Qed.

(* environments: c01vm2 binds variable numbers (BV), Sem binds names *)
Definition renv (rs : env) (rv : VD.venv) : Prop :=
  vars_only rs /\
  forall x, lookup_var rs (name_of x) = option_map (fun w => plain (emb_v w)) (VD.lookup_v x rv).

Lemma renv_nil : renv [] [].
Proof. split; [exact I|reflexivity]. Qed.

Lemma renv_bind rs rv x w : renv rs rv -> renv (bind_env rs (name_of x) (emb_v w)) ((x, VD.BV w) :: rv).
Proof.
  intros [Hv Hl]. split; [exact Hv|]. intros y. unfold bind_env. cbn [lookup_var VD.lookup_v].
  rewrite name_of_eqb. rewrite N.eqb_sym. destruct (N.eqb y x); [reflexivity|apply Hl].
Qed.

Definition try_s (a : result) (h : option (jv -> result)) : result :=
  match a with
  | (ws, Some (XErr O c val)) =>
      match h with
      | None => (ws, None)
      | Some hf => match val with
                   | Some e => rseq (ws, None) (hf e)
                   | None => (ws, Some (XSkip (codes "error-message")))
                   end
      end
  | r => r
  end.
Definition try_v (a : VD.result) (h : option (VS.jv -> VD.result)) : VD.result :=
  match a with
  | (ws, Some (VD.XErr e)) =>
      match h with
      | Some hf => VD.seq (ws, None) (hf (VS.errval e))
      | None => (ws, None)
      end
  | r => r
  end.

Lemma R_try a a' h h' : R L a a' ->
  match h, h' with
  | None, None => True
  | Some f, Some f' => forall w, R L (f (emb_v w)) (f' w)
  | _, _ => False
  end -> R L (try_s a h) (try_v a' h').
Proof.
  intros Ha Hh. destruct a as [ws x], a' as [ws' x'].
  destruct Ha as [[Ea Xa]|(why & pre & post & Sa & Pa & Ea)]; cbn [fst snd] in *.
  - destruct x as [[[|d] c val| | | | |]|], x' as [[e|lb|]|]; cbn [xrel] in Xa; try contradiction.
    + (* a caught error *) cbn [try_s try_v].
      destruct h as [f|], h' as [f'|]; try contradiction.
      * destruct e as [v|m]; cbn [erel] in Xa.
        -- subst val. apply R_rseq; [left; split; [exact Ea|exact I]|apply Hh].
        -- destruct Xa as [->| ->].
           ++ right. exists (codes "error-message"), ws', (fst (f' (VS.errval (VS.EMsg m)))).
              destruct (f' (VS.errval (VS.EMsg m))) as [os y]; cbn [VD.seq fst snd]. auto.
           ++ apply R_rseq; [left; split; [exact Ea|exact I]|]. exact (Hh (VS.VStr m)).
      * left. split; [exact Ea|exact I].
    + left. split; [exact Ea|exact Xa].
    + left. split; [exact Ea|exact I].
  - subst x. cbn [try_s]. right. exists why, pre, (post ++ match x' with
        | Some (VD.XErr e) => match h' with Some hf => fst (hf (VS.errval e)) | None => [] end
        | _ => [] end).
    destruct x' as [[e|lb|]|]; cbn [try_v fst snd]; try (rewrite Pa, app_nil_r; auto).
    destruct h' as [hf|]; cbn [VD.seq fst snd]; [|rewrite Pa, app_nil_r; auto].
    destruct (hf (VS.errval e)) as [os y]; cbn [fst snd]. rewrite Pa, app_assoc. auto.
Qed.

Lemma den2_try_eq rs0 a h rho v :
  den2 rs0 (Z2Try a h) rho v = try_s (den2 rs0 a rho v) (option_map (fun h e => den2 rs0 h rho e) h).
Proof.
  cbn [den2]. destruct (den2 rs0 a rho v) as [ws [[[|d] c val| | | | |]|]]; destruct h; reflexivity.
Qed.

Lemma den_try_eq nt call a h rho v :
  VD.den1 nt call (VS.QTry a h) rho v = try_v (VD.den1 nt call a rho v) (option_map (fun h e => VD.den1 nt call h rho e) h).
Proof.
  cbn [VD.den1]. destruct (VD.den1 nt call a rho v) as [ws [[e|lb|]|]]; destruct h; reflexivity.
Qed.

(* [q] *)
Definition arr_s (a : result) : result :=
  match a with (ws, None) => ([VArr ws], None) | (_, Some x) => ([], Some x) end.
Definition arr_v (a : VD.result) : VD.result :=
  match a with (ws, None) => ([VS.VArr ws], None) | (_, Some x) => ([], Some x) end.

Lemma R_array a a' : R L a a' -> R L (arr_s a) (arr_v a').
Proof.
  intros [[Ea Xa]|(why & pre & post & Sa & Pa & Ea)]; destruct a as [ws x], a' as [ws' x']; cbn [fst snd] in *.
  - destruct x as [[[|d] c val| | | | |]|], x' as [[e|lb|]|]; cbn [xrel] in Xa; try contradiction; cbn [arr_s arr_v].
    + left. split; [reflexivity|exact Xa].
    + left. split; [reflexivity|exact Xa].
    + left. split; [|exact I]. cbn [fst map emb_v]. rewrite Ea. reflexivity.
  - subst x. cbn [arr_s]. right. exists why, [], (fst (arr_v (ws', x'))). auto.
Qed.

(* reduce *)
Definition red_s (src : result) (upd : jv -> jv -> result) (s0 : jv) : result :=
  let '(ws, sx) := src in
  match reduce_fold0 upd ws s0 with
  | inr e => ([], Some e)
  | inl acc => match sx with Some e => ([], Some e) | None => ([acc], None) end
  end.
Definition red_v (src : VD.result) (upd : VS.jv -> VS.jv -> VD.result) (s0 : VS.jv) : VD.result :=
  let '(ws, sx) := src in
  match VD.reduce_fold upd ws s0 with
  | inr e => ([], Some e)
  | inl acc => match sx with Some e => ([], Some e) | None => ([acc], None) end
  end.

Definition fold_rel (a : jv + exn) (b : VS.jv + VD.exn) : Prop :=
  match a, b with
  | inl x, inl y => x = emb_v y
  | inr (XErr O c val), inr (VD.XErr e) => erel c val e
  | inr (XBreak i), inr (VD.XBrk l) => lookup_label L (name_of l) = Some i
  | inr (XSkip _), _ => True
  | _, _ => False
  end.

Lemma last_emb us acc : last (map emb_v us) (emb_v acc) = emb_v (last us acc).
Proof. induction us as [|u r IH]; [reflexivity|]. cbn [map last]. destruct r; [reflexivity|exact IH]. Qed.

Lemma fold_rel_ind upd upd' : (forall w acc, R L (upd (emb_v w) (emb_v acc)) (upd' w acc)) ->
  forall ws acc, fold_rel (reduce_fold0 upd (map emb_v ws) (emb_v acc)) (VD.reduce_fold upd' ws acc).
Proof.
  intros Hu. induction ws as [|w r IH]; intros acc; cbn [map reduce_fold0 VD.reduce_fold]; [reflexivity|].
  destruct (Hu w acc) as [[Eu Xu]|(why & pre & post & Su & _ & _)];
    destruct (upd (emb_v w) (emb_v acc)) as [us x], (upd' w acc) as [us' x']; cbn [fst snd] in *.
  - destruct x as [[[|d] c val| | | | |]|], x' as [[e|lb|]|]; cbn [xrel] in Xu; try contradiction.
    + exact Xu.
    + exact Xu.
    + unfold VD.last_or. rewrite Eu, last_emb. apply IH.
  - subst x. exact I.
Qed.

Lemma reduce_fold_app upd a b acc :
  VD.reduce_fold upd (a ++ b) acc = match VD.reduce_fold upd a acc with inl acc' => VD.reduce_fold upd b acc' | inr e => inr e end.
Proof.
  revert acc. induction a as [|w a IH]; intros acc; cbn [app VD.reduce_fold]; [reflexivity|].
  destruct (upd w acc) as [us [x|]]; [reflexivity|apply IH].
Qed.

Lemma R_reduce src src' upd upd' : R L src src' ->
  (forall w acc, R L (upd (emb_v w) (emb_v acc)) (upd' w acc)) ->
  forall s0, R L (red_s src upd (emb_v s0)) (red_v src' upd' s0).
Proof.
  intros Hs Hu s0. destruct src as [ws sx], src' as [ws' sx'].
  destruct Hs as [[Es Xs]|(why & pre & post & Ss & Ps & Es)]; cbn [fst snd] in *; unfold red_s, red_v.
  - subst ws. pose proof (fold_rel_ind upd upd' Hu ws' s0) as HF.
    destruct (reduce_fold0 upd (map emb_v ws') (emb_v s0)) as [a|e], (VD.reduce_fold upd' ws' s0) as [a'|e']; cbn [fold_rel] in HF.
    + subst a. destruct sx as [[[|d] c val| | | | |]|], sx' as [[e|lb|]|]; cbn [xrel] in Xs; try contradiction.
      * left. split; [reflexivity|exact Xs].
      * left. split; [reflexivity|exact Xs].
      * left. split; [reflexivity|exact I].
    + contradiction.
    + destruct e as [[|d] c val| | | | |]; try contradiction. destruct sx' as [e0|]; right; [exists why, [], []|exists why, [], [a']]; cbn; auto.
    + destruct e as [[|d] c val|i| | | |]; try contradiction.
      * destruct e' as [e'|lb|]; [|contradiction|contradiction]. left. split; [reflexivity|exact HF].
      * destruct e' as [e'|lb|]; [contradiction| |contradiction]. left. split; [reflexivity|exact HF].
      * right. exists why, [], []. auto.
  - subst ws sx ws'. rewrite reduce_fold_app. pose proof (fold_rel_ind upd upd' Hu pre s0) as HF.
    destruct (reduce_fold0 upd (map emb_v pre) (emb_v s0)) as [a|e], (VD.reduce_fold upd' pre s0) as [a'|e']; cbn [fold_rel] in HF.
    + right. exists why, [], (fst (match VD.reduce_fold upd' post a' with
                                   | inl acc => match sx' with Some e => ([], Some e) | None => ([acc], None) end
                                   | inr e => ([], Some e) end)). auto.
    + contradiction.
    + destruct e as [[|d] c val| | | | |]; try contradiction. right. exists why0, [], (fst (match VD.reduce_fold upd' post a' with
                                   | inl acc => match sx' with Some e => ([], Some e) | None => ([acc], None) end
                                   | inr e => ([], Some e) end)). auto.
    + destruct e as [[|d] c val|i| | | |]; try contradiction.
      * destruct e' as [e'|lb|]; [|contradiction|contradiction]. left. split; [reflexivity|exact HF].
      * destruct e' as [e'|lb|]; [contradiction| |contradiction]. left. split; [reflexivity|exact HF].
      * right. exists why0, [], []. auto.
Qed.

Lemma renv_bind1 rs rv x w : renv rs rv -> renv (BVar (name_of x) (plain (emb_v w)) :: rs) ((x, VD.BV w) :: rv).
Proof.
  intros [Hv Hl]. split; [exact Hv|]. intros y. cbn [lookup_var VD.lookup_v].
  rewrite name_of_eqb. rewrite N.eqb_sym. destruct (N.eqb y x); [reflexivity|apply Hl].
Qed.

Lemma den2_array_eq rs0 q rho v : den2 rs0 (Z2Array q) rho v = arr_s (den2 rs0 q rho v).
Proof. cbn [den2]. destruct (den2 rs0 q rho v) as [ws [x|]]; reflexivity. Qed.
Lemma den_array_eq nt call q rho v : VD.den1 nt call (VS.QArray q) rho v = arr_v (VD.den1 nt call q rho v).
Proof. cbn [VD.den1]. destruct (VD.den1 nt call q rho v) as [ws [x|]]; reflexivity. Qed.

Lemma den2_reduce_eq rs0 src x init upd rho v :
  den2 rs0 (Z2Reduce src x init upd) rho v =
  rbind (den2 rs0 init rho v) (red_s (den2 rs0 src rho v) (fun w acc => den2 rs0 upd (BVar x (plain w) :: rho) acc)).
Proof. reflexivity. Qed.
Lemma den_reduce_eq nt call src x init upd rho v :
  VD.den1 nt call (VS.QReduce src (VS.PVar x) init upd) rho v =
  VD.bind (VD.den1 nt call init rho v) (red_v (VD.den1 nt call src rho v) (fun w acc => VD.den1 nt call upd ((x, VD.BV w) :: rho) acc)).
Proof. reflexivity. Qed.

(* foreach *)
Lemma R_skip why r' : R L ([], Some (XSkip why)) r'.
Proof. right. exists why, [], (fst r'). auto. Qed.

Lemma R_rseq' a a' b b' : R L a a' -> (snd a = None -> R L b b') -> R L (rseq a b) (VD.seq a' b').
Proof.
  intros Ha Hb. destruct (snd a) as [x|] eqn:E.
  - replace (rseq a b) with (rseq a ([], Some (XSkip []))) by (destruct a as [ws [y|]]; [reflexivity|discriminate]).
    apply R_rseq; [exact Ha|apply R_skip].
  - apply R_rseq; [exact Ha|apply Hb; reflexivity].
Qed.

Lemma seq_assoc a b c : VD.seq (VD.seq a b) c = VD.seq a (VD.seq b c).
Proof.
  destruct a as [wa [xa|]]; [reflexivity|]. destruct b as [wb [xb|]]; cbn [VD.seq fst snd]; [reflexivity|].
  rewrite app_assoc. reflexivity.
Qed.

Lemma foreach_upd_spec ext us acc :
  fst (VD.foreach_upd ext us acc) = VD.bind_list us ext /\
  (snd (VD.bind_list us ext) = None -> snd (VD.foreach_upd ext us acc) = last us acc).
Proof.
  revert acc. induction us as [|u r IH]; intros acc; cbn [VD.foreach_upd VD.bind_list]; [split; reflexivity|].
  destruct (ext u) as [os [x|]]; cbn [VD.seq fst snd].
  - split; [reflexivity|]. intros E; discriminate.
  - destruct (IH u) as [E1 E2]. destruct (VD.foreach_upd ext r u) as [[os' x] acc']. cbn [fst snd] in *.
    rewrite <- E1. cbn [fst snd]. split; [reflexivity|]. intros E. rewrite last_cons. apply E2. rewrite <- E1. exact E.
Qed.

Lemma foreach_fold_cons upd ext w r acc :
  VD.foreach_fold upd ext (w :: r) acc =
  VD.seq (VD.bind (upd w acc) (ext w)) (VD.foreach_fold upd ext r (last (fst (upd w acc)) acc)).
Proof.
  cbn [VD.foreach_fold]. unfold VD.bind. destruct (upd w acc) as [us ux]. cbn [fst snd].
  destruct (foreach_upd_spec (ext w) us acc) as [E1 E2].
  destruct (VD.foreach_upd (ext w) us acc) as [[os x] acc']. cbn [fst snd] in *. rewrite <- E1.
  destruct x as [x|]; [reflexivity|]. destruct ux as [x|]; [reflexivity|].
  cbn [VD.seq]. rewrite (E2 (f_equal snd (eq_sym E1))). reflexivity.
Qed.

Lemma rbind_none r f : snd (rbind r f) = None -> snd r = None.
Proof. unfold rbind. destruct (rbind_list (fst r) f) as [os [x|]]; cbn [snd]; [discriminate|auto]. Qed.

Lemma R_foreach_fold upd upd' ext ext' tail post sx' :
  (forall w acc, R L (upd (emb_v w) (emb_v acc)) (upd' w acc)) ->
  (forall w u, R L (ext (emb_v w) (emb_v u)) (ext' w u)) ->
  (forall acc, R L tail (VD.seq (VD.foreach_fold upd' ext' post acc) ([], sx'))) ->
  forall pre acc, R L (rseq (foreach_fold0 upd ext (map emb_v pre) (emb_v acc)) tail)
                    (VD.seq (VD.foreach_fold upd' ext' (pre ++ post) acc) ([], sx')).
Proof.
  intros Hu He Ht. induction pre as [|w r IH]; intros acc.
  - cbn [map app foreach_fold0 rseq fst snd]. destruct tail as [tw tx]. exact (Ht acc).
  - cbn [map app]. rewrite foreach_fold0_cons, foreach_fold_cons, rseq_assoc, seq_assoc.
    apply R_rseq'; [apply R_rbind; [apply Hu|apply He]|].
    intros Hn. unfold item_res in Hn. apply rbind_none in Hn.
    destruct (Hu w acc) as [[Eu Xu]|(why & pre' & post' & Su & _ & _)]; [|rewrite Su in Hn; discriminate].
    rewrite Eu, last_emb. apply IH.
Qed.

Definition fe_s (src : result) (upd ext : jv -> jv -> result) (s0 : jv) : result :=
  let '(ws, sx) := src in rseq (foreach_fold0 upd ext ws s0) ([], sx).
Definition fe_v (src : VD.result) (upd ext : VS.jv -> VS.jv -> VD.result) (s0 : VS.jv) : VD.result :=
  let '(ws, sx) := src in VD.seq (VD.foreach_fold upd ext ws s0) ([], sx).

Lemma R_foreach src src' upd upd' ext ext' : R L src src' ->
  (forall w acc, R L (upd (emb_v w) (emb_v acc)) (upd' w acc)) ->
  (forall w u, R L (ext (emb_v w) (emb_v u)) (ext' w u)) ->
  forall s0, R L (fe_s src upd ext (emb_v s0)) (fe_v src' upd' ext' s0).
Proof.
  intros Hs Hu He s0. destruct src as [ws sx], src' as [ws' sx']. unfold fe_s, fe_v.
  destruct Hs as [[Es Xs]|(why & pre & post & Ss & Ps & Es)]; cbn [fst snd] in *.
  - subst ws. rewrite <- (app_nil_r ws') at 2. apply R_foreach_fold; try assumption.
    intros acc. cbn [VD.foreach_fold VD.seq app fst snd]. left. split; [reflexivity|exact Xs].
  - subst ws sx ws'. apply R_foreach_fold; try assumption. intros acc. apply R_skip.
Qed.

Lemma den2_foreach_eq rs0 src x init upd ext rho v :
  den2 rs0 (Z2Foreach src x init upd ext) rho v =
  rbind (den2 rs0 init rho v) (fe_s (den2 rs0 src rho v) (fun w acc => den2 rs0 upd (BVar x (plain w) :: rho) acc)
     (fun w u => match ext with Some e => den2 rs0 e (BVar x (plain w) :: rho) u | None => ([u], None) end)).
Proof. reflexivity. Qed.
Lemma den_foreach_eq nt call src x init upd ext rho v :
  VD.den1 nt call (VS.QForeach src (VS.PVar x) init upd ext) rho v =
  VD.bind (VD.den1 nt call init rho v) (fe_v (VD.den1 nt call src rho v) (fun w acc => VD.den1 nt call upd ((x, VD.BV w) :: rho) acc)
     (fun w u => match ext with Some e => VD.den1 nt call e ((x, VD.BV w) :: rho) u | None => ([u], None) end)).
Proof. reflexivity. Qed.

(* a // b *)
Definition alt_s (a b : result) : result :=
  let '(ws, x) := a in
  let ts := filter truthy ws in
  match x with
  | Some e => (ts, Some e)
  | None => match ts with [] => b | _ => (ts, None) end
  end.
Definition alt_v (a b : VD.result) : VD.result :=
  let '(ws, x) := a in
  let ts := filter VS.truthy ws in
  match x with
  | Some e => (ts, Some e)
  | None => match ts with [] => b | _ => (ts, None) end
  end.

Lemma truthy_emb w : truthy (emb_v w) = VS.truthy w.
Proof. destruct w as [|[]| | | |]; reflexivity. Qed.

Lemma filter_emb l : filter truthy (map emb_v l) = map emb_v (filter VS.truthy l).
Proof. induction l as [|w r IH]; [reflexivity|]. cbn [map filter]. rewrite truthy_emb. destruct (VS.truthy w); cbn [map]; rewrite IH; reflexivity. Qed.

Lemma R_alt a a' b b' : R L a a' -> R L b b' -> R L (alt_s a b) (alt_v a' b').
Proof.
  intros [[Ea Xa]|(why & pre & post & Sa & Pa & Ea)] Hb; destruct a as [ws x], a' as [ws' x']; cbn [fst snd] in *; unfold alt_s, alt_v.
  - subst ws. rewrite filter_emb.
    destruct x as [[[|d] c val| | | | |]|], x' as [[e|lb|]|]; cbn [xrel] in Xa; try contradiction.
    + left. split; [reflexivity|exact Xa].
    + left. split; [reflexivity|exact Xa].
    + destruct (filter VS.truthy ws') as [|t ts]; cbn [map]; [exact Hb|]. left. split; [reflexivity|exact I].
  - subst x ws ws'. rewrite filter_emb, filter_app. right.
    destruct x' as [x'|].
    + exists why, (filter VS.truthy pre), (filter VS.truthy post). auto.
    + destruct (filter VS.truthy pre ++ filter VS.truthy post) as [|t ts] eqn:E.
      * apply app_eq_nil in E. destruct E as [E1 E2]. rewrite E1. exists why, [], (fst b'). auto.
      * exists why, (filter VS.truthy pre), (filter VS.truthy post). rewrite <- E. auto.
Qed.

Lemma den2_alt_eq rs0 a b rho v : den2 rs0 (Z2Alt a b) rho v = alt_s (den2 rs0 a rho v) (den2 rs0 b rho v).
Proof. cbn [den2]. destruct (den2 rs0 a rho v) as [ws [x|]]; reflexivity. Qed.
Lemma den_alt_eq nt call a b rho v : VD.den1 nt call (VS.QAlt a b) rho v = alt_v (VD.den1 nt call a rho v) (VD.den1 nt call b rho v).
Proof. cbn [VD.den1]. destruct (VD.den1 nt call a rho v) as [ws [x|]]; reflexivity. Qed.

(* label: Den catches the break by name, den2 by the id the name was bound to *)
Definition lab_v (l : N) (r : VD.result) : VD.result :=
  match r with
  | (ws, Some (VD.XBrk l')) => if N.eqb l l' then (ws, None) else (ws, Some (VD.XBrk l'))
  | r => r
  end.

Lemma den_label_eq nt call l b rho v : VD.den1 nt call (VS.QLabel l b) rho v = lab_v l (VD.den1 nt call b rho v).
Proof. cbn [VD.den1]. destruct (VD.den1 nt call b rho v) as [ws [[e|l'|]|]]; reflexivity. Qed.

Lemma R_label l a a' : R (BLabel (name_of l) (lab_bound L) :: L) a a' -> R L (label_res (lab_bound L) a) (lab_v l a').
Proof.
  intros [[Ea Xa]|(why & pre & post & Sa & Pa & Ea)]; destruct a as [ws x], a' as [ws' x']; cbn [fst snd] in *.
  - destruct x as [[[|d] c val|i| | | |]|], x' as [[e|lb|]|]; cbn [xrel] in Xa; try contradiction; cbn [label_res lab_v].
    + left. split; [exact Ea|exact Xa].
    + cbn [lookup_label] in Xa. rewrite name_of_eqb in Xa. destruct (N.eqb l lb).
      * injection Xa as <-. rewrite N.eqb_refl. left. split; [exact Ea|exact I].
      * pose proof (lab_ids_lt _ _ (lookup_label_in _ _ _ Xa)) as Hlt.
        destruct (N.eqb_spec i (lab_bound L)); [lia|]. left. split; [exact Ea|exact Xa].
    + left. split; [exact Ea|exact I].
  - subst x. cbn [label_res]. right. exists why, pre, post. split; [reflexivity|]. split; [|exact Ea].
    destruct x' as [[e|lb|]|]; cbn [lab_v fst]; try exact Pa. destruct (N.eqb l lb); exact Pa.
Qed.

End Rel.

Lemma R_env_ext L L' a b : (forall nm, lookup_label L nm = lookup_label L' nm) -> R L a b -> R L' a b.
Proof.
  intros H [[Ea Xa]|Hs]; [left|right; exact Hs]. split; [exact Ea|].
  destruct (snd a) as [[[|d] c val|i| | | |]|], (snd b) as [[e|lb|]|]; cbn [xrel] in *; try assumption.
  rewrite <- H. exact Xa.
Qed.

Lemma renv_label rs rv nm i : renv rs rv -> renv (BLabel nm i :: rs) rv.
Proof. intros [Hv Hl]. split; [exact Hv|]. intros x. cbn [lookup_var]. apply Hl. Qed.
