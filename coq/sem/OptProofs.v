(* OptProofs.v — groundwork for C04 (compiler optimisations are unobservable), at the level of the
   reference semantics: the SOURCE rewrites the C04 stream uses to defeat each optimisation are
   semantics preserving in Sem, and the model of query.go's constant folder (Sem.term_index_key /
   index_key = toNumber / toIndexKey) is sound: what it folds to c emits exactly c for every input. *)
From Coq Require Import String.
From Coq Require Import List ZArith NArith Bool Lia.
From Verif Require Import common.Sexp sem.JV sem.Syntax sem.Natives sem.Sem sem.SemProofs.
Import ListNotations.

Section Opt.
Variable bs : list funcdef.

(* (q | .) is q: the rewrite that defeats the optimisations is semantics preserving *)
Lemma pipe_identity n rho q v ps k :
  eval_q bs (3 + n) rho (q_bin q OpPipe q_identity) v ps k = eval_q bs (2 + n) rho q v ps k.
Proof. reflexivity. Qed.

(* ((q | .)) as a parenthesised term *)
Lemma paren_pipe_identity n rho q v ps k :
  eval_t bs (4 + n) rho (Term (TQuery (q_bin q OpPipe q_identity)) []) v ps k = eval_q bs (2 + n) rho q v ps k.
Proof. reflexivity. Qed.

Lemma paren_pipe_identity_q n rho q v ps k :
  eval_q bs (5 + n) rho (q_term (TQuery (q_bin q OpPipe q_identity))) v ps k = eval_q bs (2 + n) rho q v ps k.
Proof. reflexivity. Qed.

Definition wrap (q : query) : query := q_term (TQuery (q_bin q OpPipe q_identity)).

Lemma wrap_id n rho q v ps k :
  eval_q bs (5 + n) rho (wrap q) v ps k = eval_q bs (2 + n) rho q v ps k.
Proof. reflexivity. Qed.

(* R3: operands of an operator *)
Definition arith_op (o : operator) : bool :=
  match o with
  | OpAdd | OpSub | OpMul | OpDiv | OpMod | OpEq | OpNe | OpGt | OpLt | OpGe | OpLe => true
  | _ => false
  end.

Lemma wrap_operands n rho o a b v ps k : arith_op o = true ->
  eval_q bs (6 + n) rho (q_bin (wrap a) o (wrap b)) v ps k = eval_q bs (3 + n) rho (q_bin a o b) v ps k.
Proof.
  intros Hf. destruct o; try discriminate Hf; reflexivity.
Qed.

(* R5: condition and branches of if *)
Lemma wrap_if n rho c a b v ps k :
  eval_t bs (6 + n) rho (Term (TIf (wrap c) (wrap a) [] (Some (wrap b))) []) v ps k =
  eval_t bs (3 + n) rho (Term (TIf c a [] (Some b)) []) v ps k.
Proof. reflexivity. Qed.

Lemma wrap_if_noelse n rho c a v ps k :
  eval_t bs (6 + n) rho (Term (TIf (wrap c) (wrap a) [] None) []) v ps k =
  eval_t bs (3 + n) rho (Term (TIf c a [] None) []) v ps k.
Proof. reflexivity. Qed.

(* R5 on an `if` without else: the missing branch is the identity (the rewrite makes it explicit) *)
Lemma if_explicit_else n rho c a v ps k :
  eval_t bs (3 + n) rho (Term (TIf c a [] (Some q_identity)) []) v ps k =
  eval_t bs (3 + n) rho (Term (TIf c a [] None) []) v ps k.
Proof. reflexivity. Qed.

(* R1: elements of an array literal, values of an object literal *)
Lemma wrap_array1 n rho a v ps k :
  eval_t bs (6 + n) rho (Term (TArray (Some (wrap a))) []) v ps k =
  eval_t bs (3 + n) rho (Term (TArray (Some a)) []) v ps k.
Proof. reflexivity. Qed.

Lemma wrap_array2 n rho a b v ps k :
  eval_t bs (7 + n) rho (Term (TArray (Some (q_bin (wrap a) OpComma (wrap b)))) []) v ps k =
  eval_t bs (4 + n) rho (Term (TArray (Some (q_bin a OpComma b))) []) v ps k.
Proof. reflexivity. Qed.

Lemma wrap_object1 n rho key a v ps k : is_var_name key = false ->
  eval_t bs (6 + n) rho (Term (TObject [ObjectKeyVal key None None (Some (wrap a))]) []) v ps k =
  eval_t bs (3 + n) rho (Term (TObject [ObjectKeyVal key None None (Some a)]) []) v ps k.
Proof.
  intros H. destruct key; [reflexivity|]. unfold eval_t. cbn [Nat.add evals_n step ev_t step_eval_t rev cps_fold].
  rewrite H. reflexivity.
Qed.

(* R6 / constant keys: the model of query.go toNumber / toIndexKey is sound: a term it folds to c
   emits exactly c, once, for every input *)
Lemma index_key_const_sound t c : term_index_key t = Some c ->
  forall n rho v ps k, eval_t bs (3 + n) rho t v ps k = k (plain c) ps.
Proof.
  intros H n rho v ps k. destruct t as [kind sfx]. destruct kind; try discriminate H; destruct sfx; try discriminate H.
  all: try (cbn in H; injection H as <-; reflexivity).
  all: try (unfold eval_t; cbn [Nat.add evals_n step ev_t step_eval_t rev]; rewrite H; reflexivity).
  - destruct s as [str [qs|]]; [discriminate H|]. cbn in H. injection H as <-. reflexivity.
  - destruct s as [str [qs|]]; discriminate H.
Qed.

(* the unfolded evaluation of -n agrees with the folded one *)
Lemma negate_literal_sound n rho tx nx v ps k :
  eval_t bs (2 + n) rho (Term (TNumber tx nx) []) v ps
    (fun x ps' => lift (match fst x with VNum m => NOk (VNum (num_neg m)) | _ => err EUnaryType end) (fun w => k (plain w) ps'))
  = k (plain (VNum (num_neg nx))) ps.
Proof. reflexivity. Qed.

Lemma query_key_const_sound fds t l o r pats c : term_index_key t = Some c ->
  forall n rho v ps k, eval_q bs (4 + n) rho (Query [] fds (Some t) l o r pats) v ps k = k (plain c) ps.
Proof.
  intros H n rho v ps k. change (eval_q bs (4 + n) rho (Query [] fds (Some t) l o r pats) v ps k)
    with (eval_t bs (3 + n) (push_defs rho fds) t v ps k). apply index_key_const_sound. exact H.
Qed.

(* R2: indexing with a constant key compiled to opindex = the general _index call on the same key *)
Lemma const_index_static_eq_dynamic n rho e iq fds t l o r pats c v ps k :
  iq = Query [] fds (Some t) l o r pats -> term_index_key t = Some c ->
  ev_index (evals_n bs (8 + n)) rho e (Index [] None (Some (wrap iq)) None false) v ps k =
  ev_index (evals_n bs (8 + n)) rho e (Index [] None (Some iq) None false) v ps k.
Proof.
  intros -> H. cbn [Nat.add evals_n step ev_index]. unfold step_eval_index.
  cbn [index_key wrap q_term query_index_key term_index_key negb]. rewrite H.
  change (ev_q (step bs (step bs (step bs (step bs (step bs (step bs (step bs (evals_n bs n))))))))) with (eval_q bs (7 + n)).
  rewrite (wrap_id (2 + n)). rewrite (query_key_const_sound fds t l o r pats c H n rho v None).
  reflexivity.
Qed.
End Opt.

Section R3.
Variable bs : list funcdef.

(* R3 on the argument of a one-argument NATIVE function (incl. path, getpath, _last, error/1) *)
Lemma wrap_native_arg1 n rho name a v ps k :
  is_var_name name = false ->
  lookup_fun rho name 1 = None -> lookup_builtin bs name 1 = None ->
  call bs (7 + n) rho name [wrap a] v ps k = call bs (4 + n) rho name [a] v ps k.
Proof.
  intros Hv H1 H2. unfold call. cbn [Nat.add evals_n step ev_call]. unfold step_call.
  cbn [List.length]. rewrite Hv, H1, H2. cbn [andb].
  repeat match goal with |- context [if ?b then _ else _] => destruct b end; try reflexivity.
Qed.

Lemma wrap_native_arg2 n rho name a b v ps k :
  is_var_name name = false ->
  lookup_fun rho name 2 = None -> lookup_builtin bs name 2 = None ->
  call bs (8 + n) rho name [wrap a; wrap b] v ps k = call bs (5 + n) rho name [a; b] v ps k.
Proof.
  intros Hv H1 H2. unfold call. cbn [Nat.add evals_n step ev_call]. unfold step_call.
  cbn [List.length]. rewrite Hv, H1, H2. cbn [andb].
  repeat match goal with |- context [if ?b then _ else _] => destruct b end; try reflexivity.
  all: destruct ps; reflexivity.
Qed.
End R3.

