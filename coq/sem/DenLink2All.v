(* DenLink2All.v — the reference semantics Sem agrees with the eager list semantics den2 on the whole syntax q2
   (DenLink2.v): assembly of the per-construct lemmas of DenLink2Old.v and DenLink2New.v, and the statement at the level
   of observations. *)
From Coq Require Import String.
From Coq Require Import List ZArith NArith Bool Lia.
From Verif Require Import common.Sexp sem.JV sem.Syntax sem.Natives sem.Sem sem.SemProofs sem.DenLink sem.DenLink2
  sem.DenLink2Old sem.DenLink2New.
Import ListNotations.

Section Link.
Variable bs : list funcdef.
Variable rs : bool.
Hypothesis Hempty : lookup_builtin bs (codes "empty") 0 = None.
Hypothesis Herror : lookup_builtin bs (codes "error") 0 = None.
Hypothesis Hlength : lookup_builtin bs (codes "length") 0 = None.
Hypothesis Htostring : lookup_builtin bs (codes "tostring") 0 = None.
Hypothesis Htojson : lookup_builtin bs (codes "tojson") 0 = None.

Fixpoint sem_den2 (q : qz) : ok2 q -> sim2 bs rs q
with sem_ents2 (es : ents2) : ok_ents es -> ents_sim bs rs es.
Proof.
  { destruct q; cbn [ok2]; intros H.
  - apply DenLink2Old.sim_leaves. - apply DenLink2Old.sim_leaves. - apply DenLink2Old.sim_leaves.
  - apply DenLink2Old.sim_leaves. - apply DenLink2Old.sim_leaves.
  - apply DenLink2Old.sim_pipe; apply sem_den2; tauto.
  - apply DenLink2Old.sim_comma; apply sem_den2; tauto.
  - apply DenLink2Old.sim_empty; assumption.
  - apply DenLink2Old.sim_iter; apply sem_den2; exact H.
  - apply DenLink2Old.sim_field; apply sem_den2; exact H.
  - apply DenLink2Old.sim_if; apply sem_den2; tauto.
  - apply DenLink2Old.sim_try; [apply sem_den2; tauto|]. destruct h as [h|]; [apply sem_den2; tauto|exact I].
  - apply DenLink2Old.sim_error; assumption.
  - apply DenLink2Old.sim_length; assumption.
  - apply DenLink2Old.sim_bind; [tauto|apply sem_den2; tauto|apply sem_den2; tauto].
  - apply DenLink2Old.sim_var. exact H.
  - apply DenLink2Old.sim_array. apply sem_den2. exact H.
  - apply DenLink2Old.sim_reduce; [tauto|apply sem_den2; tauto|apply sem_den2; tauto|apply sem_den2; tauto].
  - apply DenLink2Old.sim_alt; apply sem_den2; tauto.
  - apply DenLink2Old.sim_foreach; [tauto|apply sem_den2; tauto|apply sem_den2; tauto|apply sem_den2; tauto|destruct ext as [e|]; [apply sem_den2; tauto|exact I]].
  - apply DenLink2Old.sim_label. apply sem_den2. exact H.
  - apply DenLink2Old.sim_break.
  - apply DenLink2Old.sim_binop; [tauto|apply sem_den2; tauto|apply sem_den2; tauto].
  - apply sim_emptyarr.
  - apply sim_emptyobj.
  - apply sim_indexk; [tauto|apply sem_den2; tauto].
  - apply sim_indexq; [tauto|apply sem_den2; tauto|apply sem_den2; tauto].
  - apply sim_slice; [tauto|apply sem_den2; tauto| |].
    + destruct a as [a|]; [apply sem_den2; tauto|exact I].
    + destruct b as [b|]; [apply sem_den2; tauto|exact I].
  - apply sim_tostring; assumption.
  - apply sim_tojson; assumption.
  - apply sim_object. apply sem_ents2. exact H.
  - apply sim_bindp; [tauto|apply sem_den2; tauto|apply sem_den2; tauto]. }
  { destruct es; cbn [ok_ents ents_sim]; intros H.
  - exact I.
  - split; [apply sem_den2; tauto|apply sem_ents2; tauto].
  - split; [apply sem_den2; tauto|]. split; [apply sem_den2; tauto|apply sem_ents2; tauto]. }
Qed.

Theorem observe_den2 q : ok2 q -> forall n capn ins v,
  (need2 q <= n)%nat -> (List.length (fst (den2 rs q [] v)) < capn)%nat ->
  observe bs n capn rs ins (emb2 q) v = (fst (den2 rs q [] v), ending_of (snd (den2 rs q [] v))).
Proof.
  intros Hq n capn ins v Hn Hc. unfold observe.
  rewrite (sem_den2 q Hq n [] v emit (init_state capn ins rs) (inv_top rs) Hn I (inv_top_ok rs) (emit_ok rs) (fun s' _ => N.le_0_l (nextid s')) eq_refl).
  unfold run_res. destruct (run_emit (fst (den2 rs q [] v)) (snd (den2 rs q [] v)) (init_state capn ins rs)) as [s' [E1 E2]].
  { cbn [nout cap init_state]. lia. }
  rewrite E1. cbn [outs init_state] in E2. rewrite app_nil_r in E2.
  destruct (snd (den2 rs q [] v)) as [x|]; unfold rev'; rewrite <- rev_alt, E2, rev_involutive; [destruct x|]; reflexivity.
Qed.
End Link.
