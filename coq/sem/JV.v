(* JV.v — the value domain of the reference semantics (coq/sem).  Definitions only.

   A jq value as the semantics sees it:
     numbers  NInt z : an exact integer of ANY size.  Go `int`, `*big.Int` and an integer-literal
                       json.Number all denote here (gojq computes + - * % and exact / on them
                       exactly, promoting to big when needed: property C10).
              NFlt f : an IEEE-754 binary64 (Flocq, computes and extracts).
     strings  byte lists (Go strings are byte strings; may be invalid UTF-8)
     objects  association lists sorted by key bytes, duplicate free ([obj_set] keeps that).
   Conversions between Z and binary64 are the ones Go performs (func.go: toInt, toFloat,
   floatToInt, bigToFloat; operator.go: binopTypeSwitch).                                     *)
From Coq Require Import String.
From Coq Require Import List ZArith NArith Bool.
From Flocq Require Import IEEE754.BinarySingleNaN IEEE754.Binary IEEE754.Bits.
From Verif Require Import common.Sexp.
Import ListNotations.
Open Scope Z_scope.

Definition bytes := list N.

Inductive num := NInt (z : Z) | NFlt (f : binary64).

Inductive jv :=
| VNull
| VBool (b : bool)
| VNum (n : num)
| VStr (s : bytes)
| VArr (l : list jv)
| VObj (kvs : list (bytes * jv)).

Definition VInt (z : Z) : jv := VNum (NInt z).
Definition VFlt (f : binary64) : jv := VNum (NFlt f).
Definition VTrue := VBool true.
Definition VFalse := VBool false.
Definition vstr (s : string) : jv := VStr (codes s).

(* ------------------------------------------------------------------------------------------ *)
(* bytes *)

Fixpoint bytes_cmp (a b : bytes) : comparison :=
  match a, b with
  | [], [] => Eq
  | [], _ => Lt
  | _, [] => Gt
  | x :: a', y :: b' => match N.compare x y with Eq => bytes_cmp a' b' | c => c end
  end.
Definition bytes_eqb (a b : bytes) : bool := match bytes_cmp a b with Eq => true | _ => false end.
Definition bytes_ltb (a b : bytes) : bool := match bytes_cmp a b with Lt => true | _ => false end.

Fixpoint is_prefix (p s : bytes) : bool :=
  match p, s with
  | [], _ => true
  | x :: p', y :: s' => N.eqb x y && is_prefix p' s'
  | _, [] => false
  end.

(* ------------------------------------------------------------------------------------------ *)
(* binary64 helpers *)

Definition Hprec64 : FLX.Prec_gt_0 53 := eq_refl _.
Definition Hmax64 : Prec_lt_emax 53 1024 := eq_refl _.

Definition f_of_bits (z : Z) : binary64 := b64_of_bits z.
Definition f_bits (f : binary64) : Z := bits_of_b64 f.
Definition f_nan : binary64 := b64_of_bits 9221120237041090561.   (* Go math.NaN() = 0x7FF8000000000001 *)
Definition f_inf (neg : bool) : binary64 := B754_infinity 53 1024 neg.
Definition f_zero : binary64 := B754_zero 53 1024 false.
Definition f_is_nan (f : binary64) : bool := Binary.is_nan 53 1024 f.
Definition f_is_inf (f : binary64) : bool := match f with B754_infinity _ _ _ => true | _ => false end.
Definition f_sign (f : binary64) : bool := Binary.Bsign 53 1024 f.

(* correctly rounded (nearest even) conversion, overflow to infinity: float64(int64) and
   strconv.ParseFloat(big.String()) both are this *)
Definition z2f (z : Z) : binary64 := binary_normalize 53 1024 Hprec64 Hmax64 mode_NE z 0 false.

Definition f_add (a b : binary64) := b64_plus mode_NE a b.
Definition f_sub (a b : binary64) := b64_minus mode_NE a b.
Definition f_mul (a b : binary64) := b64_mult mode_NE a b.
Definition f_div (a b : binary64) := b64_div mode_NE a b.
Definition f_neg (a : binary64) := b64_opp a.
Definition f_abs (a : binary64) := b64_abs a.
Definition f_sqrt (a : binary64) := b64_sqrt mode_NE a.
Definition f_round (m : mode) (a : binary64) : binary64 := Bnearbyint 53 1024 Hmax64 unop_nan_pl64 m a.
Definition f_floor := f_round mode_DN.
Definition f_ceil := f_round mode_UP.
Definition f_trunc := f_round mode_ZR.
Definition f_rint := f_round mode_NE.
Definition f_roundaway := f_round mode_NA.     (* Go math.Round: half away from zero *)

(* Go comparisons on float64: any comparison with NaN is false *)
Definition f_ltb (a b : binary64) : bool := match b64_compare a b with Some Lt => true | _ => false end.
Definition f_eqb (a b : binary64) : bool := match b64_compare a b with Some Eq => true | _ => false end.
Definition f_leb (a b : binary64) : bool := f_ltb a b || f_eqb a b.

(* compare.go: lt(l, r) = l < r || math.IsNaN(l) *)
Definition jq_flt (a b : binary64) : bool := f_ltb a b || f_is_nan a.
Definition f_cmp (a b : binary64) : comparison :=
  if jq_flt a b then Lt else if f_eqb a b then Eq else Gt.

Definition min_int : Z := - 2 ^ 63.
Definition max_int : Z := 2 ^ 63 - 1.
Definition in_intb (z : Z) : bool := (min_int <=? z) && (z <=? max_int).

(* func.go floatToInt: truncation when MinInt <= x < MaxInt(as float = 2^63), else saturation
   (NaN goes to MinInt because both comparisons are false) *)
Definition float_to_int (f : binary64) : Z :=
  if f_leb (z2f min_int) f && f_ltb f (z2f max_int) then Btrunc 53 1024 f
  else if f_ltb f_zero f then max_int else min_int.

(* func.go toInt: int stays, big saturates *)
Definition clamp_int (z : Z) : Z := if z <? min_int then min_int else if max_int <? z then max_int else z.
Definition to_int (n : num) : Z := match n with NInt z => clamp_int z | NFlt f => float_to_int f end.
Definition to_int_ceil (n : num) : Z := match n with NInt z => clamp_int z | NFlt f => float_to_int (f_ceil f) end.
Definition to_float (n : num) : binary64 := match n with NInt z => z2f z | NFlt f => f end.

(* exact integer value of a float, when it is a finite integer *)
Definition f_exact_int (f : binary64) : option Z :=
  match f with
  | B754_zero _ _ _ => Some 0
  | B754_finite _ _ _ _ _ _ => if f_eqb (f_trunc f) f then Some (Btrunc 53 1024 f) else None
  | _ => None
  end.

(* ------------------------------------------------------------------------------------------ *)
(* numbers: order and arithmetic (operator.go, compare.go) *)

Definition num_cmp (a b : num) : comparison :=
  match a, b with
  | NInt x, NInt y => Z.compare x y
  | _, _ => f_cmp (to_float a) (to_float b)
  end.

(* ------------------------------------------------------------------------------------------ *)
(* objects: sorted association lists *)

Fixpoint obj_get (kvs : list (bytes * jv)) (k : bytes) : option jv :=
  match kvs with
  | [] => None
  | (k', v) :: r => match bytes_cmp k k' with Eq => Some v | Lt => None | Gt => obj_get r k end
  end.

Fixpoint obj_set (kvs : list (bytes * jv)) (k : bytes) (v : jv) : list (bytes * jv) :=
  match kvs with
  | [] => [(k, v)]
  | (k', v') :: r => match bytes_cmp k k' with
                     | Eq => (k, v) :: r
                     | Lt => (k, v) :: kvs
                     | Gt => (k', v') :: obj_set r k v
                     end
  end.

Fixpoint obj_del (kvs : list (bytes * jv)) (k : bytes) : list (bytes * jv) :=
  match kvs with
  | [] => []
  | (k', v') :: r => if bytes_eqb k k' then r else (k', v') :: obj_del r k
  end.

Definition obj_has (kvs : list (bytes * jv)) (k : bytes) : bool :=
  match obj_get kvs k with Some _ => true | None => false end.

(* right operand wins: maps.Copy(m, l); maps.Copy(m, r) *)
Definition obj_merge (l r : list (bytes * jv)) : list (bytes * jv) :=
  fold_left (fun acc kv => obj_set acc (fst kv) (snd kv)) r l.

Fixpoint obj_sorted (kvs : list (bytes * jv)) : bool :=
  match kvs with
  | [] => true
  | (k, _) :: r => match r with
                   | [] => true
                   | (k', _) :: _ => bytes_ltb k k' && obj_sorted r
                   end
  end.

(* ------------------------------------------------------------------------------------------ *)
(* jq's total order (compare.go Compare): null < false < true < numbers < strings < arrays < objects *)

Definition type_index (v : jv) : Z :=
  match v with
  | VNull => 0 | VBool false => 1 | VBool true => 2 | VNum _ => 3 | VStr _ => 4 | VArr _ => 5 | VObj _ => 6
  end.

Fixpoint jv_cmp (a b : jv) {struct a} : comparison :=
  match a, b with
  | VNum x, VNum y => num_cmp x y
  | VStr x, VStr y => bytes_cmp x y
  | VArr x, VArr y =>
      (fix go (x y : list jv) {struct x} : comparison :=
         match x, y with
         | [], [] => Eq
         | [], _ => Lt
         | _, [] => Gt
         | p :: x', q :: y' => match jv_cmp p q with Eq => go x' y' | c => c end
         end) x y
  | VObj x, VObj y =>
      (* keys (sorted) compared as arrays of strings first, then values in key order *)
      let keycmp := (fix go (x y : list (bytes * jv)) {struct x} : comparison :=
                       match x, y with
                       | [], [] => Eq
                       | [], _ => Lt
                       | _, [] => Gt
                       | (k, _) :: x', (k', _) :: y' => match bytes_cmp k k' with Eq => go x' y' | c => c end
                       end) x y in
      match keycmp with
      | Eq => (fix go (x y : list (bytes * jv)) {struct x} : comparison :=
                 match x, y with
                 | (_, p) :: x', (_, q) :: y' => match jv_cmp p q with Eq => go x' y' | c => c end
                 | _, _ => Eq
                 end) x y
      | c => c
      end
  | _, _ => Z.compare (type_index a) (type_index b)
  end.

Definition jv_eqb (a b : jv) : bool := match jv_cmp a b with Eq => true | _ => false end.
Definition jv_ltb (a b : jv) : bool := match jv_cmp a b with Lt => true | _ => false end.

Definition truthy (v : jv) : bool := match v with VNull | VBool false => false | _ => true end.

Definition type_name (v : jv) : bytes :=
  match v with
  | VNull => codes "null" | VBool _ => codes "boolean" | VNum _ => codes "number"
  | VStr _ => codes "string" | VArr _ => codes "array" | VObj _ => codes "object"
  end.

(* ------------------------------------------------------------------------------------------ *)
(* observational equality used by the verdict: exact values; the Go representation of a number is
   projected away (an integral float equals the integer of the same exact value; NaN = NaN;
   -0 = 0).  NOT the jq order: 2^53+1 and 2^53 are different here. *)

Definition num_obs_eqb (a b : num) : bool :=
  match a, b with
  | NInt x, NInt y => x =? y
  | NFlt x, NFlt y => (f_is_nan x && f_is_nan y) || f_eqb x y
  | NInt x, NFlt y | NFlt y, NInt x => match f_exact_int y with Some z => x =? z | None => false end
  end.

Fixpoint obs_eqb (a b : jv) {struct a} : bool :=
  match a, b with
  | VNull, VNull => true
  | VBool x, VBool y => Bool.eqb x y
  | VNum x, VNum y => num_obs_eqb x y
  | VStr x, VStr y => bytes_eqb x y
  | VArr x, VArr y =>
      (fix go (x y : list jv) {struct x} : bool :=
         match x, y with
         | [], [] => true
         | p :: x', q :: y' => obs_eqb p q && go x' y'
         | _, _ => false
         end) x y
  | VObj x, VObj y =>
      (fix go (x y : list (bytes * jv)) {struct x} : bool :=
         match x, y with
         | [], [] => true
         | (k, p) :: x', (k', q) :: y' => bytes_eqb k k' && obs_eqb p q && go x' y'
         | _, _ => false
         end) x y
  | _, _ => false
  end.

(* ------------------------------------------------------------------------------------------ *)
(* UTF-8 as Go decodes it (unicode/utf8: DecodeRuneInString; every invalid byte is U+FFFD, width 1) *)

Definition rune_error : N := 65533.
Open Scope N_scope.
Definition is_cont (b : N) : bool := (128 <=? b) && (b <=? 191).
Definition in_rng (lo hi b : N) : bool := (lo <=? b) && (b <=? hi).

(* returns (rune, rest) *)
Definition decode_rune (s : bytes) : option (N * bytes) :=
  match s with
  | [] => None
  | b0 :: r =>
      if b0 <? 128 then Some (b0, r)
      else
        let bad := Some (rune_error, r) in
        if in_rng 194 223 b0 then
          match r with
          | b1 :: r1 => if is_cont b1 then Some ((b0 mod 32) * 64 + (b1 mod 64), r1) else bad
          | _ => bad
          end
        else if in_rng 224 239 b0 then
          let lo := if b0 =? 224 then 160 else 128 in
          let hi := if b0 =? 237 then 159 else 191 in
          match r with
          | b1 :: b2 :: r2 =>
              if in_rng lo hi b1 && is_cont b2
              then Some ((b0 mod 16) * 4096 + (b1 mod 64) * 64 + (b2 mod 64), r2) else bad
          | _ => bad
          end
        else if in_rng 240 244 b0 then
          let lo := if b0 =? 240 then 144 else 128 in
          let hi := if b0 =? 244 then 143 else 191 in
          match r with
          | b1 :: b2 :: b3 :: r3 =>
              if in_rng lo hi b1 && is_cont b2 && is_cont b3
              then Some ((b0 mod 8) * 262144 + (b1 mod 64) * 4096 + (b2 mod 64) * 64 + (b3 mod 64), r3) else bad
          | _ => bad
          end
        else bad
  end.

(* [fuel] = length of the string suffices *)
Fixpoint runes_aux (fuel : nat) (s : bytes) : list N :=
  match fuel with
  | O => []
  | S f => match decode_rune s with
           | None => []
           | Some (r, rest) => r :: runes_aux f rest
           end
  end.
Definition runes (s : bytes) : list N := runes_aux (length s) s.

(* utf8.EncodeRune / strings.Builder.WriteRune: surrogates and out-of-range become U+FFFD *)
Definition encode_rune (r : N) : bytes :=
  let r := if (in_rng 55296 57343 r) || (1114111 <? r) then rune_error else r in
  if r <? 128 then [r]
  else if r <? 2048 then [192 + r / 64; 128 + r mod 64]
  else if r <? 65536 then [224 + r / 4096; 128 + (r / 64) mod 64; 128 + r mod 64]
  else [240 + r / 262144; 128 + (r / 4096) mod 64; 128 + (r / 64) mod 64; 128 + r mod 64].

Definition encode_runes (rs : list N) : bytes := flat_map encode_rune rs.
Close Scope N_scope.
