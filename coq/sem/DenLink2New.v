(* DenLink2New.v — Sem = den2 for the constructs that DenLink.q0 lacks: the literals [] and {}, t[k] with any constant
   key, t[q], t[a:b], tostring / tojson, object construction, destructuring `as`. *)
From Coq Require Import String.
From Coq Require Import List ZArith NArith Bool Lia.
From Verif Require Import common.Sexp sem.JV sem.Syntax sem.Natives sem.Sem sem.SemProofs sem.DenLink sem.DenLink2.
Import ListNotations.

Section Link.
Variable bs : list funcdef.
Variable rs : bool.
Hypothesis Htostring : lookup_builtin bs (codes "tostring") 0 = None.
Hypothesis Htojson : lookup_builtin bs (codes "tojson") 0 = None.

Local Notation sim := (sim2 bs rs).
Local Notation inv_ok := (DenLink.inv_ok rs).
Local Notation K_ok_of_eq := (DenLink.K_ok_of_eq rs).
Local Notation lift_run := (DenLink.lift_run rs).
Local Notation index_run := (DenLink.index_run rs).
Local Notation of_nres_nobrk := (DenLink.of_nres_nobrk rs).
Local Notation den2_brk := (DenLink2.den2_brk rs).
Local Notation den_ents2_brk := (DenLink2.den_ents2_brk rs).
Local Notation den2_brk_lt := (DenLink2.den2_brk_lt rs).
Ltac trivb := let E := fresh "E" in intros ? E; cbn in E; congruence.
Ltac fuel2 n := do 2 (destruct n as [|n]; [cbn in *; lia|]).
Ltac fold_eval :=
  repeat match goal with
         | |- context [step_eval_q (evals_n bs ?m)] => change (step_eval_q (evals_n bs m)) with (eval_q bs (S m))
         | |- context [ev_q (step bs (evals_n bs ?m))] => change (ev_q (step bs (evals_n bs m))) with (eval_q bs (S m))
         | |- context [ev_q (evals_n bs ?m)] => change (ev_q (evals_n bs m)) with (eval_q bs m)
         end.

Lemma sim_emptyarr : sim Z2EmptyArr.
Proof. intros n rho v k s Inv Hn _ _ _ _ _. fuel2 n. cbn [den2]. rewrite run_single. reflexivity. Qed.
Lemma sim_emptyobj : sim Z2EmptyObj.
Proof. intros n rho v k s Inv Hn _ _ _ _ _. fuel2 n. cbn [den2]. rewrite run_single. reflexivity. Qed.

Lemma sim_fmt (nm : string) f : is_formatter (codes nm) = true -> lookup_builtin bs (codes nm) 0 = None ->
  is_var_name (codes nm) = false ->
  (forall v (k : K), (if list_N_eqb (codes nm) nm_21 then ret tt
        else if list_N_eqb (codes nm) nm_27 then
          i <- next_input ;; match i with Some x => k (plain x) None | None => raise (XErr O EPlain (Some (vstr "break"))) end
        else if list_N_eqb (codes nm) nm_25 then raise (XHalt VNull 0)
        else if list_N_eqb (codes nm) nm_26 then raise (XHalt v 5)
        else if list_N_eqb (codes nm) nm_0 || list_N_eqb (codes nm) nm_22 then k (plain (VObj [])) None
        else match call_native (codes nm) v [] with
             | Some r => lift r (fun w => k (plain w) None)
             | None => skipM "undefined-function"
             end) = lift (f v) (fun w => k (plain w) None)) ->
  forall n rho v k s (Inv : sst -> Prop), (4 <= n)%nat -> vars_only rho -> inv_ok Inv -> Inv s ->
  eval_q bs n rho (q_call (codes nm) []) (plain v) None k s = run_res k (fmt_res rs f v) s.
Proof.
  intros Hf Hb Hv Hnat n rho v k s Inv Hn Hr HI Hs. do 3 (destruct n as [|n]; [lia|]).
  unfold eval_q, q_call, q_term.
  cbn [evals_n step ev_q step_eval_q push_defs fold_left ev_t step_eval_t rev app ev_call].
  unfold step_call. cbn [List.length]. rewrite Hv. cbn [andb].
  rewrite (vars_only_fun _ _ _ Hr), Hb. cbn [fst plain]. rewrite Hnat.
  unfold guard_repsens. rewrite Hf. unfold fmt_res. rewrite (proj1 HI _ Hs).
  destruct (rs && has_number (S (jv_depth v)) v); [reflexivity|]. apply lift_run. apply (proj1 HI). exact Hs.
Qed.

Lemma sim_tostring : sim Z2ToString.
Proof.
  intros n rho v k s Inv Hn Hr HI _ _ Hs. cbn [need2] in Hn. cbn [emb2 den2].
  apply (sim_fmt "tostring" fn_tostring) with (Inv := Inv); try assumption; reflexivity.
Qed.
Lemma sim_tojson : sim Z2ToJson.
Proof.
  intros n rho v k s Inv Hn Hr HI _ _ Hs. cbn [need2] in Hn. cbn [emb2 den2].
  apply (sim_fmt "tojson" fn_tojson) with (Inv := Inv); try assumption; reflexivity.
Qed.

(* the bind step shared by all constructs: evaluate a, hand every output to a continuation that runs F *)
Lemma sim_bindk a n rho v (K' : K) (F : jv -> result) (Inv : sst -> Prop) k s :
  sim a -> (need2 a <= n)%nat -> vars_only rho -> inv_ok Inv -> K_ok Inv k ->
  (forall s', Inv s' -> (lab_bound rho <= nextid s')%N) -> Inv s ->
  (forall w, brk_lt Inv (F w)) ->
  (forall w s', Inv s' -> K' (plain w) None s' = run_res k (F w) s') ->
  eval_q bs n rho (emb2 a) (plain v) None K' s = run_res k (rbind (den2 rs a rho v) F) s.
Proof.
  intros Ha Hn Hr HI Hk Hlt Hs HF Hkk.
  assert (HK : K_ok Inv K') by (apply (K_ok_of_eq Inv k _ F); assumption).
  rewrite (Ha _ _ _ _ _ Inv) by assumption. unfold run_res at 1.
  rewrite (run_list_ext Inv _ (fun x _ => run_res k (F (fst x)))); try assumption.
  rewrite (run_rbind k F). destruct (den2 rs a rho v); reflexivity.
Qed.

Lemma brk_lt_nres (Inv : sst -> Prop) r : brk_lt Inv (of_nres rs r).
Proof. apply brk_lt_none. intros l. apply of_nres_nobrk. Qed.

Lemma brk_lt_rbind_nres (Inv : sst -> Prop) q rho v (f : jv -> nres) :
  (forall s, Inv s -> (lab_bound rho <= nextid s)%N) -> brk_lt Inv (rbind (den2 rs q rho v) (fun w => of_nres rs (f w))).
Proof.
  intros Hlt. apply (brk_lt_of_in Inv (lab_ids rho)); [apply in_lt; exact Hlt|].
  apply brk_in_rbind; [apply den2_brk|]. intros w l0 E. exfalso. exact (of_nres_nobrk _ _ E).
Qed.

Lemma sim_indexk t i : index_key i <> None -> sim t -> sim (Z2IndexK t i).
Proof.
  intros Hi Ht n rho v k s Inv Hn Hr HI Hk Hlt Hs. cbn [need2] in Hn. do 4 (destruct n as [|n]; [lia|]).
  cbn [emb2 den2]. unfold eval_q. cbn [evals_n step ev_q step_eval_q push_defs fold_left ev_t step_eval_t rev app ev_index].
  unfold step_eval_index. destruct (index_key i) as [key|] eqn:Ek; [|congruence]. cbn [ev_t step step_eval_t rev app].
  fold_eval.
  assert (HK : K_ok Inv (fun x ps' => lift (fn_index2 (fst x) key) (fun w => nav ps' x key w k))).
  { apply (K_ok_of_eq Inv k _ (fun w => of_nres rs (fn_index2 w key))); try assumption;
      [intros w; apply brk_lt_none; intros l; destruct (fn_index2 w key); discriminate|].
    intros w s' Hs'. apply index_run. apply (proj1 HI). exact Hs'. }
  rewrite (Ht _ _ _ _ _ Inv) by (try lia; assumption). unfold run_res at 1.
  rewrite (run_list_ext Inv _ (fun x _ => run_res k (of_nres rs (fn_index2 (fst x) key)))); try assumption.
  - rewrite (run_rbind k (fun w => of_nres rs (fn_index2 w key))). destruct (den2 rs t rho v); reflexivity.
  - intros w s' Hs'. apply index_run. apply (proj1 HI). exact Hs'.
Qed.


Lemma sim_indexq t iq : query_index_key (emb2 iq) = None -> sim t -> sim iq -> sim (Z2IndexQ t iq).
Proof.
  intros Hq Ht Hiq n rho v k s Inv Hn Hr HI Hk Hlt Hs. cbn [need2] in Hn. do 5 (destruct n as [|n]; [lia|]).
  cbn [emb2 den2]. unfold eval_q.
  cbn [evals_n step ev_q step_eval_q push_defs fold_left ev_t step_eval_t rev app ev_index].
  unfold step_eval_index. cbn [index_key negb]. rewrite Hq.
  cbn [ev_q ev_t step step_eval_t rev app]. fold_eval.
  change (step_eval_q (step bs (evals_n bs n))) with (eval_q bs (S (S n))).
  apply (sim_bindk iq _ rho v _ (fun ixv => rbind (den2 rs t rho v) (fun w => of_nres rs (fn_index2 w ixv))) Inv k s); try assumption; [lia| |].
  - intros ixv. apply brk_lt_rbind_nres. exact Hlt.
  - intros ixv s' Hs'. cbn [fst plain].
    apply (sim_bindk t _ rho v _ (fun w => of_nres rs (fn_index2 w ixv)) Inv k s'); try assumption; [lia| |].
    + intros w. apply brk_lt_nres.
    + intros w s'' Hs''. apply index_run. apply (proj1 HI). exact Hs''.
Qed.

Lemma rbind_single v f : rbind ([v], None) f = f v.
Proof. unfold rbind. cbn [fst snd rbind_list]. destruct (f v) as [ws [x|]]; cbn [rseq fst snd]; [reflexivity|]. rewrite app_nil_r. reflexivity. Qed.

Lemma brk_in_rbind_nres q rho v (f : jv -> nres) : brk_in (lab_ids rho) (rbind (den2 rs q rho v) (fun w => of_nres rs (f w))).
Proof. apply brk_in_rbind; [apply den2_brk|]. intros w l0 E. exfalso. exact (of_nres_nobrk _ _ E). Qed.

Lemma sim_slice t a b : index_key (Index [] None (option_map emb2 a) (option_map emb2 b) true) = None ->
  sim t -> match a with Some a => sim a | None => True end -> match b with Some b => sim b | None => True end ->
  sim (Z2Slice t a b).
Proof.
  intros Hq Ht Ha Hb n rho v k s Inv Hn Hr HI Hk Hlt Hs. cbn [need2] in Hn. do 5 (destruct n as [|n]; [lia|]).
  cbn [emb2 den2]. unfold eval_q.
  cbn [evals_n step ev_q step_eval_q push_defs fold_left ev_t step_eval_t rev app ev_index].
  unfold step_eval_index. rewrite Hq. cbn [negb].
  cbn [ev_q ev_t step step_eval_t rev app]. fold_eval.
  set (FT := fun sv ev => rbind (den2 rs t rho v) (fun w => of_nres rs (fn_slice w ev sv))).
  assert (HT : forall sv ev s', Inv s' ->
     eval_q bs (S n) rho (emb2 t) (plain v) None
       (fun x ps' => lift (fn_slice (fst x) ev sv) (fun w => nav ps' x (VObj (obj_set (obj_set [] nm_start sv) nm_end ev)) w k)) s'
     = run_res k (FT sv ev) s').
  { intros sv ev s' Hs'. apply (sim_bindk t _ rho v _ (fun w => of_nres rs (fn_slice w ev sv)) Inv k s'); try assumption; [lia| |].
    - intros w. apply brk_lt_nres.
    - intros w s'' Hs''. cbn [fst plain nav]. apply lift_run. apply (proj1 HI). exact Hs''. }
  assert (HFT : forall sv ev, brk_in (lab_ids rho) (FT sv ev)) by (intros; apply brk_in_rbind_nres).
  assert (HL : forall r, brk_in (lab_ids rho) r -> brk_lt Inv r).
  { intros r. apply brk_lt_of_in. apply in_lt. exact Hlt. }
  destruct a as [a0|], b as [b0|]; cbn [option_map] in *; repeat (rewrite rbind_single; cbn beta);
    repeat change (step_eval_q (step bs (evals_n bs n))) with (eval_q bs (S (S n))).
  - apply (sim_bindk a0 _ rho v _ (fun sv => rbind (den2 rs b0 rho v) (fun ev => FT sv ev)) Inv k s); try assumption; [lia| |].
    + intros sv. apply HL. apply brk_in_rbind; [apply den2_brk|intros ev; apply HFT].
    + intros sv s' Hs'. cbn [fst plain].
      apply (sim_bindk b0 _ rho v _ (fun ev => FT sv ev) Inv k s'); try assumption; [lia| |].
      * intros ev. apply HL. apply HFT.
      * intros ev s'' Hs''. cbn [fst plain]. apply HT. exact Hs''.
  - match goal with |- _ = run_res k ?R s => replace R with (rbind (den2 rs a0 rho v) (fun sv => FT sv VNull))
      by (apply rbind_ext; intros sv; symmetry; exact (rbind_single VNull (fun ev => FT sv ev))) end.
    apply (sim_bindk a0 _ rho v _ (fun sv => FT sv VNull) Inv k s); try assumption; [lia| |].
    + intros sv. apply HL. apply HFT.
    + intros sv s' Hs'. cbn [fst plain]. apply HT. exact Hs'.
  - apply (sim_bindk b0 _ rho v _ (fun ev => FT VNull ev) Inv k s); try assumption; [lia| |].
    + intros ev. apply HL. apply HFT.
    + intros ev s' Hs'. cbn [fst plain]. apply HT. exact Hs'.
  - apply HT. exact Hs.
Qed.

(* ---- object construction ---- *)
(* the loop body of step_eval_t's TObject case (Sem.v), named *)
Definition obj_F (E : evals) (rho : env) (v : tv) : objectkeyval -> list (jv * jv) * pst -> (list (jv * jv) * pst -> M unit) -> M unit :=
  fun (okv : objectkeyval) (st : list (jv * jv) * pst) kk =>
              let '(acc, ps) := st in
              match okv with
              | ObjectKeyVal key kstr kq val =>
                   let with_key (kx : jv) (ps1 : pst) : M unit :=
                     match val with
                     | Some qv => ev_q E rho qv v ps1 (fun x ps2 => kk ((kx, fst x) :: acc, ps2))
                     | None => skipM "malformed-object"
                     end in
                   match key with
                   | _ :: _ =>
                       if is_var_name key then
                         match val with
                         | None => ev_call E rho key [] v ps (fun x ps1 => kk ((VStr (strip_dollar key), fst x) :: acc, ps1))
                         | Some _ => ev_call E rho key [] v ps (fun x ps1 => with_key (fst x) ps1)
                         end
                       else
                         match val with
                         | None => lift (fn_index2 (fst v) (VStr key)) (fun w =>
                                     nav ps v (VStr key) w (fun x ps1 => kk ((VStr key, fst x) :: acc, ps1)))
                         | Some _ => with_key (VStr key) ps
                         end
                   | [] =>
                       match kstr, kq with
                       | Some (JString s None), _ =>
                           match val with
                           | None => lift (fn_index2 (fst v) (VStr s)) (fun w =>
                                       nav ps v (VStr s) w (fun x ps1 => kk ((VStr s, fst x) :: acc, ps1)))
                           | Some _ => with_key (VStr s) ps
                           end
                       | Some js, _ =>
                           ev_string E rho js None v ps (fun kx ps1 =>
                             match val with
                             | None => lift (fn_index2 (fst v) (fst kx)) (fun w =>
                                         nav ps1 v (fst kx) w (fun x ps2 => kk ((fst kx, fst x) :: acc, ps2)))
                             | Some _ => with_key (fst kx) ps1
                             end)
                       | None, Some q => ev_q E rho q v ps (fun kx ps1 => with_key (fst kx) ps1)
                       | None, None => skipM "malformed-object"
                       end
                   end
              end.
Definition obj_end (k : K) : list (jv * jv) * pst -> M unit :=
  fun st => match build_object (rev (fst st)) [] with
            | Some o => k (plain (VObj o)) (snd st)
            | None => raise (XErr O EObjectKeyNotString None)
            end.

Fixpoint ents_sim (es : ents2) : Prop :=
  match es with
  | E2Nil => True
  | E2K _ v r => sim v /\ ents_sim r
  | E2Q kq v r => sim kq /\ sim v /\ ents_sim r
  end.

Lemma ents_run n rho v k (Inv : sst -> Prop) : inv_ok Inv -> K_ok Inv k -> vars_only rho ->
  (forall s', Inv s' -> (lab_bound rho <= nextid s')%N) ->
  forall es, ents_sim es -> (need_ents es <= n)%nat -> forall acc s, Inv s ->
  cps_fold (obj_F (evals_n bs n) rho (plain v)) (embe es) (acc, None) (obj_end k) s = run_res k (den_ents2 rs es rho v acc) s.
Proof.
  intros HI Hk Hr Hlt.
  assert (HL : forall r, brk_in (lab_ids rho) r -> brk_lt Inv r).
  { intros r. apply brk_lt_of_in. apply in_lt. exact Hlt. }
  induction es as [|kk qv r IH|kq qv r IH]; intros Hes Hn acc s Hs.
  - cbn [embe cps_fold den_ents2]. unfold obj_end. cbn [fst snd].
    destruct (build_object (rev acc) []) as [o|]; [rewrite run_single; reflexivity|reflexivity].
  - cbn [embe cps_fold den_ents2]. destruct Hes as [Hqv Hes]. cbn [need_ents] in Hn.
    change (eval_q bs n rho (emb2 qv) (plain v) None
              (fun x ps2 => cps_fold (obj_F (evals_n bs n) rho (plain v)) (embe r) ((VStr kk, fst x) :: acc, ps2) (obj_end k)) s =
            run_res k (rbind (den2 rs qv rho v) (fun x => den_ents2 rs r rho v ((VStr kk, x) :: acc))) s).
    apply (sim_bindk qv _ rho v _ (fun x => den_ents2 rs r rho v ((VStr kk, x) :: acc)) Inv k s); try assumption; [lia| |].
    + intros x. apply HL. apply den_ents2_brk.
    + intros x s' Hs'. cbn [fst plain]. apply IH; [exact Hes|lia|exact Hs'].
  - cbn [embe cps_fold den_ents2]. destruct Hes as (Hkq & Hqv & Hes). cbn [need_ents] in Hn.
    change (eval_q bs n rho (emb2 kq) (plain v) None
              (fun kx ps1 => eval_q bs n rho (emb2 qv) (plain v) ps1
                 (fun x ps2 => cps_fold (obj_F (evals_n bs n) rho (plain v)) (embe r) ((fst kx, fst x) :: acc, ps2) (obj_end k))) s =
            run_res k (rbind (den2 rs kq rho v) (fun kx => rbind (den2 rs qv rho v) (fun x => den_ents2 rs r rho v ((kx, x) :: acc)))) s).
    apply (sim_bindk kq _ rho v _ (fun kx => rbind (den2 rs qv rho v) (fun x => den_ents2 rs r rho v ((kx, x) :: acc))) Inv k s); try assumption; [lia| |].
    + intros kx. apply HL. apply brk_in_rbind; [apply den2_brk|intros x; apply den_ents2_brk].
    + intros kx s' Hs'. cbn [fst plain].
      apply (sim_bindk qv _ rho v _ (fun x => den_ents2 rs r rho v ((kx, x) :: acc)) Inv k s'); try assumption; [lia| |].
      * intros x. apply HL. apply den_ents2_brk.
      * intros x s'' Hs''. cbn [fst plain]. apply IH; [exact Hes|lia|exact Hs''].
Qed.

Lemma sim_object es : ents_sim es -> sim (Z2Object es).
Proof.
  intros Hes n rho v k s Inv Hn Hr HI Hk Hlt Hs. cbn [need2] in Hn. do 3 (destruct n as [|n]; [lia|]).
  cbn [emb2 den2]. unfold eval_q, q_term. cbn [evals_n step ev_q step_eval_q push_defs fold_left ev_t step_eval_t rev app].
  destruct es as [|kk qv r|kq qv r].
  - cbn [embe den_ents2 rev build_object]. rewrite run_single. reflexivity.
  - change (cps_fold (obj_F (evals_n bs (S n)) rho (plain v)) (embe (E2K kk qv r)) ([], None) (obj_end k) s =
            run_res k (den_ents2 rs (E2K kk qv r) rho v []) s).
    apply (ents_run (S n) rho v k Inv); try assumption. lia.
  - change (cps_fold (obj_F (evals_n bs (S n)) rho (plain v)) (embe (E2Q kq qv r)) ([], None) (obj_end k) s =
            run_res k (den_ents2 rs (E2Q kq qv r) rho v []) s).
    apply (ents_run (S n) rho v k Inv); try assumption. lia.
Qed.

(* ---- destructuring `as` ---- *)
(* the loop bodies of step_bind_pat (Sem.v), named *)
Definition arr_F (E : evals) (x : tv) : pattern -> Z * env * pst -> (Z * env * pst -> M unit) -> M unit :=
  fun (pi : pattern) (st : Z * env * pst) kk =>
                    let '(i, rho, ps) := st in
                    lift (fn_indexarray (fst x) i) (fun w =>
                      nav ps x (VInt i) w (fun wv ps' =>
                        ev_bindpat E rho pi wv ps' (fun rho' ps'' => kk ((i + 1)%Z, rho', ps'')))).
Definition pobj_F (E : evals) (x : tv) : patternobject -> env * pst -> (env * pst -> M unit) -> M unit :=
  fun (po : patternobject) (st : env * pst) kk =>
                    let '(rho, ps) := st in
                    match po with
                    | PatternObject key kstr kq val =>
                      let with_value (varname : option bytes) (wv : tv) (ps' : pst) : M unit :=
                        let rho1 := match varname with Some nm => BVar nm wv :: rho | None => rho end in
                        match val with
                        | Some pv => ev_bindpat E rho1 pv wv ps' (fun rho' ps'' => kk (rho', ps''))
                        | None => kk (rho1, ps')
                        end in
                      let const_key (kname : bytes) (varname : option bytes) : M unit :=
                        lift (fn_index2 (fst x) (VStr kname)) (fun w =>
                          nav ps x (VStr kname) w (with_value varname)) in
                      let dyn_key (kv : tv) (ps1 : pst) : M unit :=
                        lift (fn_index2 (fst x) (fst kv)) (fun w =>
                          nav ps1 x (fst kv) w (with_value None)) in
                      match key with
                      | _ :: _ =>
                          if is_var_name key then const_key (strip_dollar key) (Some key) else const_key key None
                      | [] =>
                          match kstr, kq with
                          | Some (JString s None), _ =>
                              match s with
                              | _ :: _ => const_key s None
                              | [] => dyn_key (plain (VStr [])) ps
                              end
                          | Some js, _ => ev_string E rho js None x ps dyn_key
                          | None, Some q => ev_q E rho q x ps dyn_key
                          | None, None => skipM "malformed-pattern"
                          end
                      end
                    end.

Lemma lift_exn (r : nres) (kk : jv -> M unit) s : repsens s = rs ->
  lift r kk s = match nres_exn rs r with inl w => kk w s | inr x => (inr x, s) end.
Proof. intros Hs. destruct r as [w|c val|why]; cbn [lift nres_exn]; [reflexivity| |reflexivity]. unfold raise_err, mask. rewrite Hs. reflexivity. Qed.

Lemma bindpat_run :
  (forall p n, (pdepth p <= n)%nat -> okp p -> forall rho w (kb : env -> pst -> M unit) s, repsens s = rs ->
     ev_bindpat (evals_n bs n) rho (embp p) (plain w) None kb s =
     match pmb rs p w with inl bl => kb (bl ++ rho) None s | inr x => (inr x, s) end) /\
  (forall l n, (pdeptha l <= n)%nat -> okpa l -> forall rho w i (kb : env -> pst -> M unit) s, repsens s = rs ->
     cps_fold (arr_F (evals_n bs n) (plain w)) (embpa l) (i, rho, None) (fun st => kb (snd (fst st)) (snd st)) s =
     match pmba rs l i w with inl bl => kb (bl ++ rho) None s | inr x => (inr x, s) end) /\
  (forall l n, (pdeptho l <= n)%nat -> okpo l -> forall rho w (kb : env -> pst -> M unit) s, repsens s = rs ->
     cps_fold (pobj_F (evals_n bs n) (plain w)) (embpo l) (rho, None) (fun st => kb (fst st) (snd st)) s =
     match pmbo rs l w with inl bl => kb (bl ++ rho) None s | inr x => (inr x, s) end).
Proof.
  apply pat2_mutind.
  - intros x n Hn Hx rho w kb s Hs. cbn [pdepth] in Hn. destruct n as [|n]; [lia|].
    cbn [embp evals_n step ev_bindpat step_bind_pat]. cbn [okp] in Hx. destruct x as [|c x]; [discriminate|]. reflexivity.
  - intros l IH n Hn [Hne Hl] rho w kb s Hs. cbn [pdepth] in Hn. destruct n as [|n]; [lia|].
    rewrite pmb_arr. destruct l as [|p0 r]; [congruence|].
    cbn [embp embpa evals_n step ev_bindpat step_bind_pat].
    apply (IH n); [lia|exact Hl|exact Hs].
  - intros l IH n Hn [Hne Hl] rho w kb s Hs. cbn [pdepth] in Hn. destruct n as [|n]; [lia|].
    rewrite pmb_obj. destruct l as [|k0 p0 r|x0 p0 r]; [congruence| |];
    cbn [embp embpo evals_n step ev_bindpat step_bind_pat]; apply (IH n); try assumption; lia.
  - intros n Hn _ rho w i kb s Hs. reflexivity.
  - intros p IHp r IHr n Hn [Hp Hr] rho w i kb s Hs. cbn [pdeptha] in Hn.
    rewrite pmba_cons. cbn [embpa cps_fold]. unfold arr_F at 1. cbn [fst plain nav].
    rewrite lift_exn by exact Hs.
    destruct (nres_exn rs (fn_indexarray w i)) as [wi|x]; [|reflexivity].
    rewrite (IHp n) by (try assumption; lia).
    destruct (pmb rs p wi) as [b1|x]; [|reflexivity].
    rewrite (IHr n) by (try assumption; lia).
    destruct (pmba rs r (i + 1)%Z w) as [b2|x]; [|reflexivity]. rewrite <- app_assoc. reflexivity.
  - intros n Hn _ rho w kb s Hs. reflexivity.
  - intros k p IHp r IHr n Hn [Hp Hr] rho w kb s Hs. cbn [pdeptho] in Hn.
    rewrite pmbo_key. cbn [embpo cps_fold].
    assert (E : pobj_F (evals_n bs n) (plain w) (PatternObject [] (Some (JString k None)) None (Some (embp p))) (rho, None)
                  (fun s' => cps_fold (pobj_F (evals_n bs n) (plain w)) (embpo r) s' (fun st => kb (fst st) (snd st))) =
                lift (fn_index2 w (VStr k)) (fun w0 =>
                  ev_bindpat (evals_n bs n) rho (embp p) (plain w0) None
                    (fun rho' ps'' => cps_fold (pobj_F (evals_n bs n) (plain w)) (embpo r) (rho', ps'') (fun st => kb (fst st) (snd st)))))
      by (destruct k; reflexivity).
    rewrite E. clear E. rewrite lift_exn by exact Hs.
    destruct (nres_exn rs (fn_index2 w (VStr k))) as [wk|x]; [|reflexivity].
    rewrite (IHp n) by (try assumption; lia).
    destruct (pmb rs p wk) as [b1|x]; [|reflexivity].
    rewrite (IHr n) by (try assumption; lia).
    destruct (pmbo rs r w) as [b2|x]; [|reflexivity]. rewrite <- app_assoc. reflexivity.
  - intros x p IHp r IHr n Hn (Hx & Hp & Hr) rho w kb s Hs. cbn [pdeptho] in Hn.
    rewrite pmbo_keyvar. cbn [embpo cps_fold].
    assert (E : pobj_F (evals_n bs n) (plain w) (PatternObject x None None (Some (embp p))) (rho, None)
                  (fun s' => cps_fold (pobj_F (evals_n bs n) (plain w)) (embpo r) s' (fun st => kb (fst st) (snd st))) =
                lift (fn_index2 w (VStr (strip_dollar x))) (fun w0 =>
                  ev_bindpat (evals_n bs n) (BVar x (plain w0) :: rho) (embp p) (plain w0) None
                    (fun rho' ps'' => cps_fold (pobj_F (evals_n bs n) (plain w)) (embpo r) (rho', ps'') (fun st => kb (fst st) (snd st))))).
    { destruct x as [|c x]; [discriminate|]. unfold pobj_F at 1. rewrite Hx. reflexivity. }
    rewrite E. clear E. rewrite lift_exn by exact Hs.
    destruct (nres_exn rs (fn_index2 w (VStr (strip_dollar x)))) as [wk|y]; [|reflexivity].
    rewrite (IHp n) by (try assumption; lia).
    destruct (pmb rs p wk) as [b1|y]; [|reflexivity].
    rewrite (IHr n) by (try assumption; lia).
    destruct (pmbo rs r w) as [b2|y]; [|reflexivity]. rewrite <- !app_assoc. reflexivity.
Qed.

Lemma fold_nulls (l : list bytes) rho :
  fold_left (fun (acc : list binding) (nm : bytes) => BVar nm (plain VNull) :: acc) l rho =
  rev (map (fun nm => BVar nm (plain VNull)) l) ++ rho.
Proof. revert rho. induction l as [|x l IH]; intros rho; [reflexivity|]. cbn [fold_left map rev]. rewrite IH, <- app_assoc. reflexivity. Qed.

(* the pattern and the body, for any prefix nl of plain variables in front of the environment *)
Definition bindp_res (p : pat2) (body : qz) (R : env) (v w : jv) : result :=
  match pmb rs p w with
  | inl bl => den2 rs body (bl ++ R) v
  | inr x => ([], Some x)
  end.

Lemma bindp_cont p body nl n rho v k (Inv : sst -> Prop) : okp p -> sim body ->
  (pdepth p <= n)%nat -> (need2 body <= n)%nat -> Forall bvp nl -> vars_only rho -> inv_ok Inv -> K_ok Inv k ->
  (forall s', Inv s' -> (lab_bound rho <= nextid s')%N) ->
  (forall w, brk_lt Inv (bindp_res p body (nl ++ rho) v w)) /\
  (forall w s', Inv s' ->
     ev_bindpat (evals_n bs n) (nl ++ rho) (embp p) (plain w) None
       (fun rho' _ => eval_q bs n rho' (emb2 body) (plain v) None k) s' = run_res k (bindp_res p body (nl ++ rho) v w) s').
Proof.
  intros Hp Hbody Hn1 Hn2 Hnl Hr HI Hk Hlt. unfold bindp_res. split.
  - intros w. destruct (pmb rs p w) as [bl|x] eqn:E.
    + rewrite app_assoc. apply (brk_lt_of_in Inv (lab_ids rho)); [apply in_lt; exact Hlt|].
      assert (Hb : Forall bvp (bl ++ nl)).
      { apply Forall_app. split; [|exact Hnl]. pose proof (proj1 (pmb_props rs) p w) as H. rewrite E in H. exact H. }
      pose proof (den2_brk body ((bl ++ nl) ++ rho) v) as H.
      rewrite (bvp_lab_ids _ _ Hb) in H. exact H.
    + apply brk_lt_none. intros l. destruct (pmb_err rs _ _ _ E) as [(c & val & ->)|(why & ->)]; discriminate.
  - intros w s' Hs'.
    rewrite (proj1 bindpat_run p n Hn1 Hp (nl ++ rho) w) by (apply (proj1 HI); exact Hs').
    destruct (pmb rs p w) as [bl|x] eqn:E; [|reflexivity].
    assert (Hb : Forall bvp (bl ++ nl)).
    { apply Forall_app. split; [|exact Hnl]. pose proof (proj1 (pmb_props rs) p w) as H. rewrite E in H. exact H. }
    rewrite app_assoc.
    apply (Hbody _ _ _ _ _ Inv); try assumption; [apply bvp_vars_only; assumption|].
    intros s'' Hs''. rewrite (bvp_lab_bound _ _ Hb). apply Hlt. exact Hs''.
Qed.

Lemma sim_bindp src p body : okp p -> sim src -> sim body -> sim (Z2BindP src p body).
Proof.
  intros Hp Hsrc Hbody n rho v k s Inv Hn Hr HI Hk Hlt Hs. cbn [need2] in Hn. do 3 (destruct n as [|n]; [lia|]).
  assert (ED : den2 rs (Z2BindP src p body) rho v =
               rbind (den2 rs src rho v) (bindp_res p body (nulls_l p ++ rho) v)).
  { cbn [den2]. apply rbind_ext. intros w. unfold bindp_res. rewrite nulls2_eq. reflexivity. }
  rewrite ED. clear ED. unfold nulls_l.
  cbn [emb2]. unfold eval_q. cbn [evals_n step ev_q step_eval_q push_defs fold_left].
  cbn [alts_loop]. fold_eval.
  rewrite fold_nulls.
  change (step_eval_q (step bs (evals_n bs n))) with (eval_q bs (S (S n))).
  change (step bs (step bs (evals_n bs n))) with (evals_n bs (S (S n))).
  match goal with |- context [bindp_res p body (?NL ++ rho) v] =>
    destruct (bindp_cont p body NL (S (S n)) rho v k Inv Hp Hbody) as [HB1 HB2]; try assumption; try lia end.
  { apply Forall_rev. generalize (flat_map (pattern_vars syn_depth) [embp p]). intros l0.
    induction l0 as [|x0 l0 IH0]; constructor; [exact I|exact IH0]. }
  apply (sim_bindk src _ rho v _ _ Inv k s); try assumption. lia.
Qed.
End Link.
