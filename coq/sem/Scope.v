(* Scope.v — static name resolution of a jq program, as compiler.go does it: every function call (name and
   arity), every $variable and every `break $label` must be bound lexically, by a definition of the program,
   by builtin.jq, or by a native of the tree (GenBuiltins.native_arities, regenerated from the current tree).
   The evaluator Sem resolves names dynamically in an environment with exactly this lexical structure; this
   file is the static reading, used by Run.v to judge compile-time outcomes ("function not defined",
   "variable not defined", "label not defined"): a program the compiler accepts must be well scoped, a program
   it rejects with one of these three errors must not be.  Definitions only.

   Scopes (the positions where compiler.go brackets with newScopeDepth, i.e. where jq's grammar ends a
   query): a `def` is visible in its own body (recursion), in the later definitions of the same query and in
   the body of that query — nowhere else; parameters `g` are functions of arity 0, parameters `$a` are the
   variable $a AND the function a/0; `as` patterns, reduce/foreach patterns bind in the body (update,
   extract) only; `label $l` binds in its body. *)
From Coq Require Import String.
From Coq Require Import List ZArith NArith Bool.
From Verif Require Import common.Sexp sem.JV sem.Syntax sem.Natives sem.Sem.
Import ListNotations.

Inductive sbind := SF (name : bytes) (ar : nat) | SV (name : bytes) | SL (name : bytes).
Definition senv := list sbind.

Inductive sres := SOk | SUndef (name : bytes) | SDecline.

Definition sand (a b : sres) : sres := match a with SOk => b | _ => a end.
Definition sall {A} (f : A -> sres) (l : list A) : sres := fold_left (fun acc x => sand acc (f x)) l SOk.
Definition sopt {A} (f : A -> sres) (o : option A) : sres := match o with Some x => f x | None => SOk end.

Definition has_fun (env : senv) (name : bytes) (ar : nat) : bool :=
  existsb (fun b => match b with SF n a => list_N_eqb n name && Nat.eqb a ar | _ => false end) env.
Definition has_var (env : senv) (name : bytes) : bool :=
  existsb (fun b => match b with SV n => list_N_eqb n name | _ => false end) env.
Definition has_label (env : senv) (name : bytes) : bool :=
  existsb (fun b => match b with SL n => list_N_eqb n name | _ => false end) env.

Section Scope.
Variable bs : list funcdef.               (* builtin.jq *)
Variable natives : list (bytes * Z).      (* name, arity mask (bit i: accepts i arguments) *)

Definition native_accepts (name : bytes) (ar : nat) : bool :=
  existsb (fun p => list_N_eqb (fst p) name && Z.testbit (snd p) (Z.of_nat ar)) natives.

Definition resolve (env : senv) (name : bytes) (ar : nat) : sres :=
  if is_var_name name then
    if has_var env name || list_N_eqb name (codes "$ENV") then SOk
    else if list_N_eqb name (codes "$__loc__") then SDecline
    else SUndef name
  else if has_fun env name ar then SOk
  else if list_N_eqb name (codes "debug") then SDecline      (* compiled specially: debug/1 needs a host-provided debug/0 *)
  else match lookup_builtin bs name ar with
       | Some _ => SOk
       | None => if native_accepts name ar then SOk
                 else if Nat.eqb ar 0 && list_N_eqb name (codes "env") then SOk
                 else SUndef name
       end.

Definition param_binds (p : bytes) : senv :=
  if is_var_name p then [SV p; SF (strip_dollar p) 0] else [SF p 0].

(* a pattern whose keys are computed (query or interpolated string) is not judged *)
Fixpoint pat_simple (n : nat) (p : pattern) : bool :=
  match n with
  | O => false
  | S m =>
      match p with
      | Pattern _ arr obj =>
          forallb (pat_simple m) arr &&
          forallb (fun po => match po with
                             | PatternObject _ ks kq val =>
                                 match kq with Some _ => false | None => true end &&
                                 match ks with Some (JString _ (Some _)) => false | _ => true end &&
                                 match val with Some p' => pat_simple m p' | None => true end
                             end) obj
      end
  end.

Fixpoint sc_q (n : nat) (env : senv) (q : query) {struct n} : sres :=
  match n with
  | O => SDecline
  | S m =>
      match q with
      | Query imports fds tm lq oq rq pats =>
          match imports with
          | _ :: _ => SDecline
          | [] =>
              (* definitions, in order: each sees itself and the earlier ones *)
              let step := fun (st : senv * sres) (fd : funcdef) =>
                match fd with
                | FuncDef nm params body =>
                    let env1 := SF nm (List.length params) :: fst st in
                    let envb := flat_map param_binds (rev params) ++ env1 in
                    (env1, sand (snd st) (sc_q m envb body))
                end in
              let '(env', rdefs) := fold_left step fds (env, SOk) in
              sand rdefs
                (match tm with
                 | Some t => sc_t m env' t
                 | None =>
                     match lq, oq, rq with
                     | Some l, Some o, Some r =>
                         match o, pats with
                         | OpPipe, _ :: _ =>
                             if forallb (pat_simple m) pats then
                               let vars := flat_map (pattern_vars syn_depth) pats in
                               sand (sc_q m env' l) (sc_q m (map SV vars ++ env') r)
                             else SDecline
                         | _, _ => sand (sc_q m env' l) (sc_q m env' r)
                         end
                     | _, _, _ => SDecline
                     end
                 end)
          end
      end
  end
with sc_t (n : nat) (env : senv) (t : term) {struct n} : sres :=
  match n with
  | O => SDecline
  | S m =>
      match t with
      | Term tk sufs =>
          let sc_str := fun (s : jstring) =>
            match s with JString _ qs => match qs with Some l => sall (sc_q m env) l | None => SOk end end in
          let sc_idx := fun (i : index) =>
            match i with Index _ str st en _ => sand (sopt sc_str str) (sand (sopt (sc_q m env) st) (sopt (sc_q m env) en)) end in
          let bound := fun (p : pattern) => map SV (pattern_vars syn_depth p) ++ env in
          sand
            (match tk with
             | TIdentity | TRecurse | TNull | TTrue | TFalse | TNumber _ _ => SOk
             | TIndex i => sc_idx i
             | TFunc (Func name args) => sand (resolve env name (List.length args)) (sall (sc_q m env) args)
             | TObject kvs =>
                 sall (fun kv => match kv with
                                 | ObjectKeyVal key ks kq val =>
                                     sand (if is_var_name key then resolve env key 0 else SOk)   (* {$x} and {$x: v} both load $x *)
                                          (sand (sopt sc_str ks) (sand (sopt (sc_q m env) kq) (sopt (sc_q m env) val)))
                                 end) kvs
             | TArray q => sopt (sc_q m env) q
             | TUnary _ t' => sc_t m env t'
             | TFormat _ str => sopt sc_str str
             | TString s => sc_str s
             | TIf c a elifs e =>
                 sand (sc_q m env c) (sand (sc_q m env a)
                   (sand (sall (fun ce => sand (sc_q m env (fst ce)) (sc_q m env (snd ce))) elifs) (sopt (sc_q m env) e)))
             | TTry b h => sand (sc_q m env b) (sopt (sc_q m env) h)
             | TReduce src p st up =>
                 if pat_simple m p then sand (sc_q m env src) (sand (sc_q m env st) (sc_q m (bound p) up)) else SDecline
             | TForeach src p st up ex =>
                 if pat_simple m p
                 then sand (sc_q m env src) (sand (sc_q m env st) (sand (sc_q m (bound p) up) (sopt (sc_q m (bound p)) ex)))
                 else SDecline
             | TLabel ident body => sc_q m (SL ident :: env) body
             | TBreak l => if has_label env l then SOk else SUndef l
             | TQuery q => sc_q m env q
             end)
            (sall (fun s => match s with Suffix i _ _ => sopt sc_idx i end) sufs)
      end
  end.

Definition scope_check (q : query) : sres := sc_q syn_depth [] q.
End Scope.
