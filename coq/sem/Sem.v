(* Sem.v — executable reference semantics of jq's core language (the specification side of C01).
   Definitions only; proofs are in SemProofs.v.

   A fuelled, DEMAND-DRIVEN evaluator in continuation-passing style:

       eval_q fuel rho q v ps k : M unit

   runs query q on input v in environment rho and calls the continuation k once per output, in
   order (an eager list-of-outputs semantics cannot express first(1,error), limit(3;repeat(.)) or
   break).  M is a state-and-exception monad:
     state       outputs emitted so far, the output cap, a fresh-id counter (labels, cells,
                 navigation ids), the remaining `input`s, mutable cells
     exceptions  XErr d c val   a jq error of class c; d = number of enclosing `try` bodies the
                                error must still pass through untouched because it was raised by
                                their CONSUMER, not their body (gojq: tryEndError)
                 XBreak l       break out to label l
                 XHalt v code   halt / halt_error: not catchable by try
                 XStop          raised by the top-level continuation after `cap` outputs
                 XFuel          out of fuel (the answer is then "skip", never a verdict)
                 XSkip why      construct or native outside the model
   Mutable cells model gojq's frame variables that are NOT restored on backtracking: the state of
   reduce/foreach ("last update output wins, an empty update keeps the state"), the `found` flag
   of `//`, array collection.  A cell is allocated per activation.

   PATHS.  A value travels as tv = (value, id of the navigation step that produced it) and every
   evaluation carries ps : option pstate — None outside path(...) (and inside the regions gojq
   brackets with opexpbegin/opexpend), Some {reversed path, last navigated value, its id} inside.
   A navigation (.a, .[i], .[a:b], .[], getpath) from a value that is not the last navigated one
   raises the invalid-path error.  gojq decides "is the last navigated one" by Go identity
   (pointer+length for containers, == for scalars); the model answers Yes when the ids agree, No
   when the values differ, and declines (XSkip) when only Go identity could tell.

   Determinism is by construction: eval_q is a function.                                        *)
From Coq Require Import String.
From Coq Require Import List ZArith NArith Bool.
From Verif Require Import common.Sexp sem.JV sem.Syntax sem.Natives.
Import ListNotations.
Open Scope Z_scope.

(* ------------------------------------------------------------------------------------------ *)
(* monad *)

Definition tv := (jv * option N)%type.
Definition plain (v : jv) : tv := (v, None).

Record pstate := mkp { rpath : list jv; lv : jv; lid : N }.
Definition pst := option pstate.

Inductive exn :=
| XErr (depth : nat) (c : errclass) (val : option jv)
| XBreak (l : N)
| XHalt (v : jv) (code : Z)
| XStop
| XFuel
| XSkip (why : bytes).

Record sst := mkst {
  outs : list jv;            (* reversed *)
  nout : nat;
  cap : nat;
  nextid : N;
  inputs : list jv;
  cells : list (N * tv);
  repsens : bool;            (* the input holds numbers whose Go representation the model cannot see *)
  steps : N                  (* remaining evaluation steps: bounds the total WORK (fuel bounds the depth) *)
}.

Definition M (A : Type) := sst -> (A + exn) * sst.
Definition ret {A} (a : A) : M A := fun s => (inl a, s).
Definition raise {A} (x : exn) : M A := fun s => (inr x, s).
Definition bind {A B} (m : M A) (f : A -> M B) : M B :=
  fun s => match m s with
           | (inl a, s') => f a s'
           | (inr x, s') => (inr x, s')
           end.
Notation "x <- m ;; f" := (bind m (fun x => f)) (at level 61, m at next level, right associativity).
Notation "m1 ;; m2" := (bind m1 (fun _ => m2)) (at level 61, right associativity).

Definition skipM {A} (why : string) : M A := raise (XSkip (codes why)).

Definition K := tv -> pst -> M unit.

Definition set_cells (s : sst) (c : list (N * tv)) : sst :=
  mkst (outs s) (nout s) (cap s) (nextid s) (inputs s) c (repsens s) (steps s).

Definition fresh : M N :=
  fun s => (inl (nextid s), mkst (outs s) (nout s) (cap s) (nextid s + 1)%N (inputs s) (cells s) (repsens s) (steps s)).

Fixpoint cell_lookup (cs : list (N * tv)) (id : N) : option tv :=
  match cs with
  | [] => None
  | (i, v) :: r => if (i =? id)%N then Some v else cell_lookup r id
  end.
Fixpoint cell_update (cs : list (N * tv)) (id : N) (v : tv) : list (N * tv) :=
  match cs with
  | [] => []
  | (i, w) :: r => if (i =? id)%N then (i, v) :: r else (i, w) :: cell_update r id v
  end.
Fixpoint cell_remove (cs : list (N * tv)) (id : N) : list (N * tv) :=
  match cs with
  | [] => []
  | (i, w) :: r => if (i =? id)%N then r else (i, w) :: cell_remove r id
  end.

Definition new_cell (v : tv) : M N :=
  id <- fresh ;; fun s => (inl id, set_cells s ((id, v) :: cells s)).
Definition get_cell (id : N) : M tv :=
  fun s => match cell_lookup (cells s) id with
           | Some v => (inl v, s)
           | None => (inr (XSkip (codes "cell")), s)
           end.
Definition set_cell (id : N) (v : tv) : M unit := fun s => (inl tt, set_cells s (cell_update (cells s) id v)).
Definition free_cell (id : N) : M unit := fun s => (inl tt, set_cells s (cell_remove (cells s) id)).

(* one unit of work; the case is declined when the budget is exhausted *)
Definition tick : M unit :=
  fun s => match steps s with
           | N0 => (inr (XSkip (codes "steps")), s)
           | _ => (inl tt, mkst (outs s) (nout s) (cap s) (nextid s) (inputs s) (cells s) (repsens s) (N.pred (steps s)))
           end.

(* [with_cell scoped init body after]: run [body c] with a fresh cell c holding [init]; on every exit
   (normal or exceptional) the cell is removed, and when [scoped] the id counter is reset to its value
   at entry: the ids allocated inside are dead then (used outside path tracking only, where no id can
   escape in a value).  [after] receives the final contents of the cell. *)
Definition with_cell (scoped : bool) (init : tv) (body : N -> M unit) (after : tv -> M unit) : M unit :=
  fun s =>
    let c := nextid s in
    let restore (s1 : sst) : sst :=
      mkst (outs s1) (nout s1) (cap s1) (if scoped then nextid s else nextid s1) (inputs s1)
           (cell_remove (cells s1) c) (repsens s1) (steps s1) in
    match body c (mkst (outs s) (nout s) (cap s) (nextid s + 1)%N (inputs s) ((c, init) :: cells s) (repsens s) (steps s)) with
    | (inl _, s1) =>
        match cell_lookup (cells s1) c with
        | Some v => after v (restore s1)
        | None => (inr (XSkip (codes "cell")), s1)
        end
    | (inr x, s1) => (inr x, restore s1)
    end.

Definition scoped_ids (ps : option pstate) : bool := match ps with None => true | Some _ => false end.

Definition next_input : M (option jv) :=
  fun s => match inputs s with
           | [] => (inl None, s)
           | v :: r => (inl (Some v), mkst (outs s) (nout s) (cap s) (nextid s) r (cells s) (repsens s) (steps s))
           end.

(* the top-level continuation: record the output; Stop once the cap is reached *)
Definition emit : K :=
  fun v _ s =>
    let s' := mkst (fst v :: outs s) (S (nout s)) (cap s) (nextid s) (inputs s) (cells s) (repsens s) (steps s) in
    if Nat.leb (cap s) (S (nout s)) then (inr XStop, s') else (inl tt, s').

(* raise a jq error; a message TEXT (anything but the payload of error(x) / a plain message) embeds
   previews of values: it is withheld when the input holds numbers whose Go representation prints
   differently (then a `catch` that looks at it makes the case a skip) *)
Definition raise_err (c : errclass) (val : option jv) : M unit :=
  fun s => (inr (XErr O c (match c with
                           | EUser | EPlain => val
                           | _ => if repsens s then None else val
                           end)), s).

Definition lift (r : nres) (k : jv -> M unit) : M unit :=
  match r with
  | NOk v => k v
  | NErr c val => raise_err c val
  | NSkip why => raise (XSkip why)
  end.

(* an exception raised by the consumer of a try body passes that try untouched *)
Definition down (m : M unit) : M unit :=
  fun s => match m s with
           | (inr (XErr d c val), s') => (inr (XErr (S d) c val), s')
           | r => r
           end.

(* try: [body] is already run with the down-wrapped continuation *)
Definition try_catch (body : M unit) (handler : option jv -> M unit) : M unit :=
  fun s => match body s with
           | (inr (XErr O c val), s') => handler val s'
           | (inr (XErr (S d) c val), s') => (inr (XErr d c val), s')
           | r => r
           end.

(* label: a break to this label ends the body normally *)
Definition catch_break (l : N) (body : M unit) : M unit :=
  fun s => match body s with
           | (inr (XBreak l'), s') => if (l' =? l)%N then (inl tt, s') else (inr (XBreak l'), s')
           | r => r
           end.

(* [with_label scoped body]: run [body l] under a fresh label id l; a break to l ends it normally.  The id
   is that of a dummy cell, so that a live label is a frame exactly like the cells of `//` and foreach and
   follows the same discipline (dead at every exit; the id counter is reset when [scoped]). *)
Definition with_label (scoped : bool) (body : N -> M unit) : M unit :=
  with_cell scoped (VNull, None) (fun l => catch_break l (body l)) (fun _ => ret tt).

(* ?// : gojq's opforkalt resumes the next alternative on ANY error that backtracks through it:
   errors of the pattern, of the body AND of the consumer; break and halt included *)
Definition or_else (m alt : M unit) : M unit :=
  fun s => match m s with
           | (inr (XErr _ _ _), s') | (inr (XBreak _), s') | (inr (XHalt _ _), s') => alt s'
           | r => r
           end.

(* ------------------------------------------------------------------------------------------ *)
(* path identity *)

Inductive tri := Yes | No | Unknown.

Fixpoint strict_eqb (a b : jv) {struct a} : bool :=
  match a, b with
  | VNull, VNull => true
  | VBool x, VBool y => Bool.eqb x y
  | VNum (NInt x), VNum (NInt y) => x =? y
  | VNum (NFlt x), VNum (NFlt y) => f_eqb x y || (f_is_nan x && f_is_nan y)
  | VStr x, VStr y => bytes_eqb x y
  | VArr x, VArr y =>
      (fix go (x y : list jv) {struct x} : bool :=
         match x, y with
         | [], [] => true
         | p :: x', q :: y' => strict_eqb p q && go x' y'
         | _, _ => false
         end) x y
  | VObj x, VObj y =>
      (fix go (x y : list (bytes * jv)) {struct x} : bool :=
         match x, y with
         | [], [] => true
         | (k, p) :: x', (k', q) :: y' => bytes_eqb k k' && strict_eqb p q && go x' y'
         | _, _ => false
         end) x y
  | _, _ => false
  end.

Definition intact (rs : bool) (v : tv) (p : pstate) : tri :=
  let structural :=
    if negb (strict_eqb (fst v) (lv p)) then No
    else match fst v with
         | VNull | VBool _ | VStr _ => Yes
         | VNum (NInt z) => if in_intb z && negb rs then Yes else Unknown
         | VNum (NFlt _) => if rs then Unknown else Yes
         | VArr _ | VObj _ => Unknown
         end in
  match snd v with
  | Some i => if (i =? lid p)%N then Yes else structural
  | None => structural
  end.

Definition check_intact (v : tv) (p : pstate) (bad : errclass) : M unit :=
  fun s => match intact (repsens s) v p with
           | Yes => (inl tt, s)
           | No => raise_err bad (match bad with
                                  | EInvalidPathIter => msg_invalid_path_iter (fst v)
                                  | _ => msg_invalid_path (fst v)
                                  end) s
           | Unknown => (inr (XSkip (codes "path-identity")), s)
           end.

(* one navigation step: [src] was the value navigated from, [w] the result, [pelem] the path element *)
Definition nav (ps : pst) (src : tv) (pelem : jv) (w : jv) (k : K) : M unit :=
  match ps with
  | None => k (plain w) None
  | Some p => check_intact src p EInvalidPath ;; id <- fresh ;;
              k (w, Some id) (Some (mkp (pelem :: rpath p) w id))
  end.

(* ------------------------------------------------------------------------------------------ *)
(* environments *)

Inductive binding :=
| BVar (name : bytes) (v : tv)                    (* "$x" (with the $) *)
| BLabel (name : bytes) (id : N)                  (* label $x *)
| BFun (fd : funcdef)                             (* its closure environment is this binding and all after it *)
| BClos (name : bytes) (body : query) (cenv : list binding).   (* filter argument: body + defining env *)
Definition env := list binding.

Fixpoint lookup_var (rho : env) (name : bytes) : option tv :=
  match rho with
  | [] => None
  | BVar n v :: r => if list_N_eqb n name then Some v else lookup_var r name
  | _ :: r => lookup_var r name
  end.

Fixpoint lookup_label (rho : env) (name : bytes) : option N :=
  match rho with
  | [] => None
  | BLabel n l :: r => if list_N_eqb n name then Some l else lookup_label r name
  | _ :: r => lookup_label r name
  end.

Inductive callee := CFun (fd : funcdef) (defenv : env) | CClos (body : query) (cenv : env).

Fixpoint lookup_fun (rho : env) (name : bytes) (arity : nat) : option callee :=
  match rho with
  | [] => None
  | BFun (FuncDef nm params body) :: r =>
      if list_N_eqb nm name && Nat.eqb (List.length params) arity
      then Some (CFun (FuncDef nm params body) rho) else lookup_fun r name arity
  | BClos nm body cenv :: r =>
      if Nat.eqb arity 0 && list_N_eqb nm name then Some (CClos body cenv) else lookup_fun r name arity
  | _ :: r => lookup_fun r name arity
  end.

Fixpoint lookup_builtin (defs : list funcdef) (name : bytes) (arity : nat) : option funcdef :=
  match defs with
  | [] => None
  | FuncDef nm params body :: r =>
      if list_N_eqb nm name && Nat.eqb (List.length params) arity
      then Some (FuncDef nm params body) else lookup_builtin r name arity
  end.

Definition dollar : N := 36%N.
Definition is_var_name (n : bytes) : bool := match n with c :: _ => (c =? dollar)%N | [] => false end.
Definition strip_dollar (n : bytes) : bytes := match n with c :: r => if (c =? dollar)%N then r else n | [] => n end.

Definition push_defs (rho : env) (fds : list funcdef) : env :=
  fold_left (fun acc fd => BFun fd :: acc) fds rho.

Definition name_is (s : string) (n : bytes) : bool := list_N_eqb n (codes s).
(* name constants (converted once) *)
Definition nm_recurse : bytes := codes "recurse".
Definition nm_tostring : bytes := codes "tostring".
Definition nm_start : bytes := codes "start".
Definition nm_end : bytes := codes "end".
Definition nm_0 : bytes := codes "$ENV".
Definition nm_1 : bytes := codes "@base64".
Definition nm_2 : bytes := codes "@base64d".
Definition nm_3 : bytes := codes "@csv".
Definition nm_4 : bytes := codes "@html".
Definition nm_5 : bytes := codes "@json".
Definition nm_6 : bytes := codes "@sh".
Definition nm_7 : bytes := codes "@text".
Definition nm_8 : bytes := codes "@tsv".
Definition nm_9 : bytes := codes "@uri".
Definition nm_10 : bytes := codes "@urid".
Definition nm_11 : bytes := codes "_assign".
Definition nm_12 : bytes := codes "_last".
Definition nm_13 : bytes := codes "_modify".
Definition nm_14 : bytes := codes "_range".
Definition nm_15 : bytes := codes "_tobase64".
Definition nm_16 : bytes := codes "_tocsv".
Definition nm_17 : bytes := codes "_tohtml".
Definition nm_18 : bytes := codes "_tosh".
Definition nm_19 : bytes := codes "_totsv".
Definition nm_20 : bytes := codes "_touri".
Definition nm_21 : bytes := codes "empty".
Definition nm_22 : bytes := codes "env".
Definition nm_23 : bytes := codes "format".
Definition nm_24 : bytes := codes "getpath".
Definition nm_25 : bytes := codes "halt".
Definition nm_26 : bytes := codes "halt_error".
Definition nm_27 : bytes := codes "input".
Definition nm_28 : bytes := codes "join".
Definition nm_29 : bytes := codes "path".
Definition nm_30 : bytes := codes "tojson".
Definition nm_31 : bytes := codes "tostring".

(* ------------------------------------------------------------------------------------------ *)
(* constant index keys (query.go toIndexKey / toIndices, WITHOUT the suffix-dropping defect F2:
   a term with suffixes is not a constant) *)

Definition term_number (t : term) : option num :=
  match t with Term (TNumber _ n) [] => Some n | _ => None end.

Definition term_index_key (t : term) : option jv :=
  match t with
  | Term (TNumber _ n) [] => Some (VNum n)
  | Term (TUnary op t') [] =>
      match term_number t' with
      | Some n => Some (VNum (match op with OpSub => num_neg n | _ => n end))
      | None => None
      end
  | Term (TString (JString s None)) [] => Some (VStr s)
  | _ => None
  end.

Definition query_index_key (q : query) : option jv :=
  match q with
  | Query _ _ (Some t) _ _ _ _ => term_index_key t
  | _ => None
  end.

Definition index_key (i : index) : option jv :=
  match i with
  | Index name str start end_ isSlice =>
      match name with
      | _ :: _ => Some (VStr name)
      | [] =>
          match str with
          | Some (JString s None) => Some (VStr s)
          | Some _ => None
          | None =>
              if negb isSlice then match start with Some q => query_index_key q | None => None end
              else
                let bound (b : option query) : option jv :=
                  match b with None => Some VNull | Some q => query_index_key q end in
                match bound start, bound end_ with
                | Some s, Some e => Some (VObj (obj_set (obj_set [] nm_start s) nm_end e))
                | _, _ => None
                end
          end
      end
  end.

Definition suffix_index_key (s : suffix) : option jv :=
  match s with Suffix (Some i) _ _ => index_key i | _ => None end.

Fixpoint suffixes_keys (ss : list suffix) : option (list jv) :=
  match ss with
  | [] => Some []
  | s :: r => match suffix_index_key s, suffixes_keys r with
              | Some k, Some ks => Some (k :: ks)
              | _, _ => None
              end
  end.

Fixpoint query_indices (fuel : nat) (q : query) : option (list jv) :=
  match fuel with
  | O => None
  | S f =>
      match q with
      | Query _ _ (Some (Term kind ss)) _ _ _ _ =>
          let head := match kind with
                      | TIndex i => option_map (fun k => [k]) (index_key i)
                      | TQuery q' => query_indices f q'
                      | _ => None
                      end in
          match head, suffixes_keys ss with
          | Some h, Some t => Some (h ++ t)
          | _, _ => None
          end
      | _ => None
      end
  end.

Definition has_slice_elem (path : list jv) : bool :=
  existsb (fun p => match p with VObj _ => true | _ => false end) path.

(* variables bound by a pattern, for ?// *)
Fixpoint pattern_vars (fuel : nat) (p : pattern) : list bytes :=
  match fuel with
  | O => []
  | S f =>
      match p with
      | Pattern name arr obj =>
          (match name with [] => [] | _ => [name] end)
            ++ flat_map (pattern_vars f) arr
            ++ flat_map (fun po => match po with
                                   | PatternObject key _ _ val =>
                                       (if is_var_name key then [key] else [])
                                         ++ match val with Some p' => pattern_vars f p' | None => [] end
                                   end) obj
      end
  end.

Definition op_binop (o : operator) : option (jv -> jv -> nres) :=
  match o with
  | OpAdd | OpUpdateAdd => Some binop_add
  | OpSub | OpUpdateSub => Some binop_sub
  | OpMul | OpUpdateMul => Some binop_mul
  | OpDiv | OpUpdateDiv => Some binop_div
  | OpMod | OpUpdateMod => Some binop_mod
  | OpUpdateAlt => Some binop_alt
  | OpEq => Some (cmp_is (fun c => match c with Eq => true | _ => false end))
  | OpNe => Some (cmp_is (fun c => match c with Eq => false | _ => true end))
  | OpGt => Some (cmp_is (fun c => match c with Gt => true | _ => false end))
  | OpLt => Some (cmp_is (fun c => match c with Lt => true | _ => false end))
  | OpGe => Some (cmp_is (fun c => match c with Lt => false | _ => true end))
  | OpLe => Some (cmp_is (fun c => match c with Gt => false | _ => true end))
  | _ => None
  end.

Definition format_func (fmt : bytes) : option bytes :=
  if list_N_eqb fmt nm_7 then Some (codes "tostring")
  else if list_N_eqb fmt nm_5 then Some (codes "tojson")
  else if list_N_eqb fmt nm_4 then Some (codes "_tohtml")
  else if list_N_eqb fmt nm_9 then Some (codes "_touri")
  else if list_N_eqb fmt nm_10 then Some (codes "_tourid")
  else if list_N_eqb fmt nm_3 then Some (codes "_tocsv")
  else if list_N_eqb fmt nm_8 then Some (codes "_totsv")
  else if list_N_eqb fmt nm_6 then Some (codes "_tosh")
  else if list_N_eqb fmt nm_1 then Some (codes "_tobase64")
  else if list_N_eqb fmt nm_2 then Some (codes "_tobase64d")
  else None.

(* natives whose result shows the Go representation of a number (json.Number prints its literal
   text): declined when the input holds such numbers *)
Definition is_formatter (name : bytes) : bool :=
  list_N_eqb name nm_30 || list_N_eqb name nm_31 || list_N_eqb name nm_28 || list_N_eqb name nm_23
  || list_N_eqb name nm_17 || list_N_eqb name nm_20 || list_N_eqb name nm_16 || list_N_eqb name nm_19
  || list_N_eqb name nm_18 || list_N_eqb name nm_15.

Fixpoint has_number (fuel : nat) (v : jv) : bool :=
  match fuel with
  | O => true
  | S f => match v with
           | VNum _ => true
           | VArr l => existsb (has_number f) l
           | VObj kvs => existsb (fun kv => has_number f (snd kv)) kvs
           | _ => false
           end
  end.

Definition guard_repsens (name : bytes) (v : jv) (m : M unit) : M unit :=
  if is_formatter name
  then fun s => if repsens s && has_number (S (jv_depth v)) v
                then (inr (XSkip (codes "number-representation")), s) else m s
  else m.

(* iteration budget of the native _range (independent of the evaluation fuel) *)
Definition range_budget : nat := N.to_nat 20000.

(* ------------------------------------------------------------------------------------------ *)
(* the evaluator *)

(* ------------------------------------------------------------------------------------------ *)
(* generic control structures of the evaluator (their monotonicity is proved once in SemProofs.v) *)

(* a left-to-right loop over a syntactic list in continuation-passing style: [f a s kk] handles one
   element in state s and calls kk with the next state once per way of continuing (generators!) *)
Fixpoint cps_fold {A S : Type} (f : A -> S -> (S -> M unit) -> M unit) (l : list A) (s : S) (kend : S -> M unit) : M unit :=
  match l with
  | [] => kend s
  | a :: r => f a s (fun s' => cps_fold f r s' kend)
  end.

(* ?// : try the patterns in order; all but the last are protected by or_else *)
Fixpoint alts_loop {P : Type} (run : P -> M unit) (pats : list P) : M unit :=
  match pats with
  | [] => ret tt
  | [p] => run p
  | p :: rest => or_else (run p) (alts_loop run rest)
  end.

(* if / elif ... / else: [cond c kk] evaluates a condition and calls kk once per output *)
Fixpoint if_chain {Q : Type} (cond : Q -> (bool -> M unit) -> M unit) (branch : Q -> M unit) (c th : Q)
         (elifs : list (Q * Q)) (els : M unit) : M unit :=
  cond c (fun b =>
    if b then branch th
    else match elifs with
         | (c2, t2) :: r => if_chain cond branch c2 t2 r els
         | [] => els
         end).

(* opobject: every key must be a string; a later pair wins *)
Fixpoint build_object (pairs : list (jv * jv)) (o : list (bytes * jv)) : option (list (bytes * jv)) :=
  match pairs with
  | [] => Some o
  | (VStr ks, x) :: r => build_object r (obj_set o ks x)
  | _ :: _ => None
  end.

(* string interpolation "\(p0)..\(pn)" is ((p0 + p1) + ...) + pn *)
Fixpoint add_left (vals : list jv) (acc : jv) : nres :=
  match vals with
  | [] => NOk acc
  | x :: r => match binop_add acc x with NOk w => add_left r w | e => e end
  end.

Section Eval.
Variable builtins : list funcdef.

(* .[] *)
Definition iterate (x : tv) (ps : pst) (k : K) : M unit :=
  let each (elems : list (jv * jv)) : M unit :=
    (fix go (l : list (jv * jv)) : M unit :=
       match l with
       | [] => ret tt
       | (key, e) :: r =>
           match ps with
           | None => k (plain e) None
           | Some p => id <- fresh ;; k (e, Some id) (Some (mkp (key :: rpath p) e id))
           end ;; go r
       end) elems in
  let guarded (elems : list (jv * jv)) : M unit :=
    match ps with
    | Some p => check_intact x p EInvalidPathIter ;; each elems
    | None => each elems
    end in
  match fst x with
  | VArr l => guarded (combine (map VInt (iota (List.length l) 0)) l)
  | VObj kvs => guarded (map (fun kv => (VStr (fst kv), snd kv)) kvs)
  | _ => raise_err EIterator (msg_iterator (fst x))
  end.

(* the native _range iterator (func.go rangeIter) *)
Fixpoint range_loop (budget : nat) (cur end_ step : jv) (ps : pst) (k : K) : M unit :=
  match budget with
  | O => skipM "range-long"
  | S b =>
      let c1 := match jv_cmp step (VInt 0) with Lt => -1 | Eq => 0 | Gt => 1 end in
      let c2 := match jv_cmp cur end_ with Lt => -1 | Eq => 0 | Gt => 1 end in
      if 0 <=? c1 * c2 then ret tt
      else k (plain cur) ps ;; lift (binop_add cur step) (fun nxt => range_loop b nxt end_ step ps k)
  end.

(* Open recursion: the step functions take the evaluators of the next lower fuel level as a record;
   [evals_n] ties the knot by recursion on the fuel.  (This shape makes "more fuel, same answer" a
   statement about the monotonicity of the step functions: SemProofs.v.) *)
Record evals := mk_evals {
  ev_q : env -> query -> tv -> pst -> K -> M unit;
  ev_path : env -> query -> tv -> (list jv -> M unit) -> M unit;
  ev_modify : env -> query -> (tv -> (jv -> M unit) -> M unit) -> tv -> K -> M unit;
  ev_bindpat : env -> pattern -> tv -> pst -> (env -> pst -> M unit) -> M unit;
  ev_string : env -> jstring -> option bytes -> tv -> pst -> K -> M unit;
  ev_t : env -> term -> tv -> pst -> K -> M unit;
  ev_index : env -> term -> index -> tv -> pst -> K -> M unit;
  ev_call : env -> bytes -> list query -> tv -> pst -> K -> M unit
}.

Definition syn_depth : nat := N.to_nat 4000.

(* compileQueryUpdate resolves `_assign`, `_modify` and (for `op=`) the operator's function BY NAME through the scopes,
   so a user definition of one of these internal names replaces the update machinery: such programs are declined *)
Definition nm_assign := codes "_assign".
Definition nm_modify := codes "_modify".
Definition nm_upd_add := codes "_add".
Definition nm_upd_sub := codes "_subtract".
Definition nm_upd_mul := codes "_multiply".
Definition nm_upd_div := codes "_divide".
Definition nm_upd_mod := codes "_modulo".
Definition nm_upd_alt := codes "_alternative".
Definition user_defines (rho : env) (name : bytes) : bool :=
  match lookup_fun rho name 2 with Some _ => true | None => false end.
Definition update_fun_name (o : operator) : bytes :=
  match o with
  | OpUpdateAdd => nm_upd_add | OpUpdateSub => nm_upd_sub | OpUpdateMul => nm_upd_mul
  | OpUpdateDiv => nm_upd_div | OpUpdateMod => nm_upd_mod | _ => nm_upd_alt
  end.

Definition step_eval_q (E : evals) (rho : env) (q : query) (v : tv) (ps : pst) (k : K) : M unit :=
  match q with
  | Query imports fds tm lq oq rq pats =>
    match imports with
    | _ :: _ => skipM "imports"
    | [] =>
    let rho := push_defs rho fds in
    match tm with
    | Some t => ev_t E rho t v ps k
    | None =>
      match lq, oq, rq with
      | Some l, Some o, Some r =>
        match o with
        | OpPipe =>
            match pats with
            | [] => ev_q E rho l v ps (fun x ps' => ev_q E rho r x ps' k)
            | _ =>
                (* l as p1 ?// p2 ... | r : the source is evaluated outside path tracking *)
                let allvars := flat_map (pattern_vars syn_depth) pats in
                let rho0 := fold_left (fun acc nm => BVar nm (plain VNull) :: acc) allvars rho in
                ev_q E rho l v None (fun x _ =>
                  alts_loop (fun p => ev_bindpat E rho0 p x None (fun rho' _ => ev_q E rho' r v ps k)) pats)
            end
        | OpComma => ev_q E rho l v ps k ;; ev_q E rho r v ps k
        | OpAlt =>
            with_cell (scoped_ids ps) (plain VFalse)
              (fun c => ev_q E rho l v ps (fun x ps' =>
                 if truthy (fst x) then set_cell c (plain VTrue) ;; k x ps' else ret tt))
              (fun f => if truthy (fst f) then ret tt else ev_q E rho r v ps k)
        | OpAnd =>
            ev_q E rho l v None (fun x _ =>
              if truthy (fst x)
              then ev_q E rho r v None (fun y _ => k (plain (VBool (truthy (fst y)))) ps)
              else k (plain VFalse) ps)
        | OpOr =>
            ev_q E rho l v None (fun x _ =>
              if truthy (fst x) then k (plain VTrue) ps
              else ev_q E rho r v None (fun y _ => k (plain (VBool (truthy (fst y)))) ps))
        | OpAssign =>
            match ps with
            | Some _ => skipM "update-in-path"
            | None =>
              match query_indices syn_depth l with
              | Some path =>
                  (* compileQueryUpdate: constant path -> setpath(path; r) *)
                  if has_slice_elem path then skipM "slice-update" else
                  ev_q E rho r v None (fun x _ =>
                    lift (fn_setpath (fst v) (VArr path) (fst x)) (fun w => k (plain w) None))
              | None =>
                  (* _assign(p; $x) = reduce path(p) as $q (.; setpath($q; $x)) *)
                  if user_defines rho nm_assign then skipM "internal-name-redefined" else
                  ev_q E rho r v None (fun x _ =>
                    c <- new_cell (plain (fst v)) ;;
                    ev_path E rho l v (fun path =>
                      if has_slice_elem path then skipM "slice-update" else
                      cur <- get_cell c ;;
                      lift (fn_setpath (fst cur) (VArr path) (fst x)) (fun w => set_cell c (plain w))) ;;
                    res <- get_cell c ;; free_cell c ;; k (plain (fst res)) None)
              end
            end
        | OpModify =>
            match ps with
            | Some _ => skipM "update-in-path"
            | None =>
                if user_defines rho nm_modify then skipM "internal-name-redefined" else
                ev_modify E rho l (fun y kk => ev_q E rho r y None (fun z _ => kk (fst z))) v k
            end
        | OpUpdateAdd | OpUpdateSub | OpUpdateMul | OpUpdateDiv | OpUpdateMod | OpUpdateAlt =>
            match ps, op_binop o with
            | None, Some f =>
                (* `l op= r`: r is evaluated first, on the input; one update per output of r *)
                if user_defines rho nm_modify || user_defines rho (update_fun_name o) then skipM "internal-name-redefined" else
                ev_q E rho r v None (fun x _ =>
                  ev_modify E rho l (fun y kk => lift (f (fst y) (fst x)) kk) v k)
            | _, _ => skipM "update-in-path"
            end
        | _ =>
            match op_binop o with
            | Some f =>
                (* binary operators evaluate the RIGHT operand first (it is the outer loop) *)
                ev_q E rho r v ps (fun rv ps1 =>
                  ev_q E rho l v ps1 (fun lv_ ps2 =>
                    lift (f (fst lv_) (fst rv)) (fun w => k (plain w) ps2)))
            | None => skipM "operator"
            end
        end
      | _, _, _ => skipM "malformed-query"
      end
    end
    end
  end.


(* all paths of p on v, in order (path(p)); kp receives each path *)
Definition step_eval_path (E : evals) (rho : env) (p : query) (v : tv) (kp : list jv -> M unit) : M unit :=
      id <- fresh ;;
      ev_q E rho p (fst v, Some id) (Some (mkp [] (fst v) id)) (fun x ps' =>
        match ps' with
        | Some pp => check_intact x pp EInvalidPath ;; kp (rev (rpath pp))
        | None => skipM "path-state"
        end).


(* _modify(p; f) as compiler.go compileModify: for each path of p (on the ORIGINAL input), replace
   the value at that path in the current value by the FIRST output of f, or remember the path for
   deletion when f is empty; finally delete the remembered paths *)
Definition step_modify (E : evals) (rho : env) (p : query) (f : tv -> (jv -> M unit) -> M unit) (v : tv) (k : K) : M unit :=
      c <- new_cell (plain (fst v)) ;;
      d <- new_cell (plain (VArr [])) ;;
      ev_path E rho p v (fun path =>
        if has_slice_elem path then skipM "slice-update" else
        cur <- get_cell c ;;
        lift (fn_getpath (fst cur) (VArr path)) (fun x =>
          l <- fresh ;;
          got <- new_cell (plain VFalse) ;;
          catch_break l
            (f (plain x) (fun y =>
               cur' <- get_cell c ;;
               lift (fn_setpath (fst cur') (VArr path) y) (fun w =>
                 set_cell c (plain w) ;; set_cell got (plain VTrue) ;; raise (XBreak l)))) ;;
          g <- get_cell got ;; free_cell got ;;
          if truthy (fst g) then ret tt
          else dl <- get_cell d ;;
               match fst dl with
               | VArr ds => set_cell d (plain (VArr (ds ++ [VArr path])))
               | _ => skipM "cell"
               end)) ;;
      res <- get_cell c ;; dl <- get_cell d ;; free_cell c ;; free_cell d ;;
      lift (fn_delpaths (fst res) (fst dl)) (fun w => k (plain w) None).


(* destructuring (compiler.go compilePattern); kb receives the extended environment *)
Definition step_bind_pat (E : evals) (rho : env) (p : pattern) (x : tv) (ps : pst) (kb : env -> pst -> M unit) : M unit :=
  match p with
  | Pattern name arr obj =>
    match name, arr, obj with
    | _ :: _, _, _ => kb (BVar name x :: rho) ps
    | [], _ :: _, _ =>
        cps_fold (fun (pi : pattern) (st : Z * env * pst) kk =>
                    let '(i, rho, ps) := st in
                    lift (fn_indexarray (fst x) i) (fun w =>
                      nav ps x (VInt i) w (fun wv ps' =>
                        ev_bindpat E rho pi wv ps' (fun rho' ps'' => kk (i + 1, rho', ps'')))))
                 arr (0, rho, ps) (fun st => kb (snd (fst st)) (snd st))
    | [], [], _ :: _ =>
        cps_fold (fun (po : patternobject) (st : env * pst) kk =>
                    let '(rho, ps) := st in
                    match po with
                    | PatternObject key kstr kq val =>
                      (* what to do with the value found under the key *)
                      let with_value (varname : option bytes) (wv : tv) (ps' : pst) : M unit :=
                        let rho1 := match varname with Some nm => BVar nm wv :: rho | None => rho end in
                        match val with
                        | Some pv => ev_bindpat E rho1 pv wv ps' (fun rho' ps'' => kk (rho', ps''))
                        | None => kk (rho1, ps')
                        end in
                      let const_key (kname : bytes) (varname : option bytes) : M unit :=
                        lift (fn_index2 (fst x) (VStr kname)) (fun w =>
                          nav ps x (VStr kname) w (with_value varname)) in
                      let dyn_key (kv : tv) (ps1 : pst) : M unit :=
                        lift (fn_index2 (fst x) (fst kv)) (fun w =>
                          nav ps1 x (fst kv) w (with_value None)) in
                      match key with
                      | _ :: _ =>
                          if is_var_name key then const_key (strip_dollar key) (Some key) else const_key key None
                      | [] =>
                          match kstr, kq with
                          | Some (JString s None), _ =>
                              match s with
                              | _ :: _ => const_key s None
                              | [] => dyn_key (plain (VStr [])) ps
                              end
                          | Some js, _ => ev_string E rho js None x ps dyn_key
                          | None, Some q => ev_q E rho q x ps dyn_key
                          | None, None => skipM "malformed-pattern"
                          end
                      end
                    end)
                 obj (rho, ps) (fun st => kb (fst st) (snd st))
    | [], [], [] => skipM "invalid-pattern"
    end
  end.


(* string interpolation: ((p0 + p1) + p2) ...; non-literal parts piped through the format *)
Definition step_eval_string (E : evals) (rho : env) (s : jstring) (fmt : option bytes) (v : tv) (ps : pst) (k : K) : M unit :=
  match s with
  | JString str None => k (plain (VStr str)) ps
  | JString _ (Some parts) =>
      let f := match fmt with Some f => f | None => nm_tostring end in
      let eval_part (q : query) (ps : pst) (kk : K) : M unit :=
        match q with
        | Query _ _ (Some (Term (TString _) _)) _ _ _ _ => ev_q E rho q v ps kk
        | _ => ev_q E rho q v ps (fun x ps' => ev_call E rho f [] x ps' kk)
        end in
      (* the LAST part is the right operand of the outermost +, evaluated first (outermost loop);
         the additions happen after all parts are evaluated, innermost first *)
      cps_fold (fun (q : query) (st : list jv * pst) kk =>
                  eval_part q (snd st) (fun x ps' => kk (fst x :: fst st, ps')))
               (rev parts) ([], ps)
               (fun st => match fst st with
                          | [] => k (plain (VStr [])) (snd st)   (* no parts: cannot be produced by the parser *)
                          | v0 :: rest => lift (add_left rest v0) (fun w => k (plain w) (snd st))
                          end)
  end.


(* term . suffixes *)
Definition step_eval_t (E : evals) (rho : env) (t : term) (v : tv) (ps : pst) (k : K) : M unit :=
  match t with
  | Term kind sfx =>
    match rev sfx with
    | Suffix (Some i) _ _ :: rs => ev_index E rho (Term kind (rev rs)) i v ps k
    | Suffix None true _ :: rs => ev_t E rho (Term kind (rev rs)) v ps (fun x ps' => iterate x ps' k)
    | Suffix None false true :: rs =>
        (* `?`: only the last suffix before it is protected (compileTermSuffix) *)
        let protect (inner : tv -> pst -> K -> M unit) (x : tv) (ps' : pst) : M unit :=
          try_catch (inner x ps' (fun y ps'' => down (k y ps''))) (fun _ => ret tt) in
        match rs with
        | Suffix (Some i) _ _ :: rs' =>
            ev_t E rho (Term kind (rev rs')) v ps
              (protect (fun x ps' kk => ev_t E rho (Term (TIndex i) []) x ps' kk))
        | Suffix None true _ :: rs' =>
            ev_t E rho (Term kind (rev rs')) v ps
              (protect (fun x ps' kk => iterate x ps' kk))
        | _ => protect (fun x ps' kk => ev_t E rho (Term kind (rev rs)) x ps' kk) v ps
        end
    | Suffix None false false :: _ => skipM "invalid-suffix"
    | [] =>
      match kind with
      | TIdentity => k v ps
      | TRecurse => ev_call E rho nm_recurse [] v ps k
      | TNull => k (plain VNull) ps
      | TTrue => k (plain VTrue) ps
      | TFalse => k (plain VFalse) ps
      | TNumber _ num => k (plain (VNum num)) ps
      | TIndex i => ev_index E rho (Term TIdentity []) i v ps k
      | TFunc (Func name args) => ev_call E rho name args v ps k
      | TObject kvs =>
          match kvs with
          | [] => k (plain (VObj [])) ps
          | _ =>
            cps_fold (fun (okv : objectkeyval) (st : list (jv * jv) * pst) kk =>
              let '(acc, ps) := st in
              match okv with
              | ObjectKeyVal key kstr kq val =>
                   let with_key (kx : jv) (ps1 : pst) : M unit :=
                     match val with
                     | Some qv => ev_q E rho qv v ps1 (fun x ps2 => kk ((kx, fst x) :: acc, ps2))
                     | None => skipM "malformed-object"
                     end in
                   match key with
                   | _ :: _ =>
                       if is_var_name key then
                         match val with
                         | None => ev_call E rho key [] v ps (fun x ps1 => kk ((VStr (strip_dollar key), fst x) :: acc, ps1))
                         | Some _ => ev_call E rho key [] v ps (fun x ps1 => with_key (fst x) ps1)
                         end
                       else
                         match val with
                         | None => lift (fn_index2 (fst v) (VStr key)) (fun w =>
                                     nav ps v (VStr key) w (fun x ps1 => kk ((VStr key, fst x) :: acc, ps1)))
                         | Some _ => with_key (VStr key) ps
                         end
                   | [] =>
                       match kstr, kq with
                       | Some (JString s None), _ =>
                           match val with
                           | None => lift (fn_index2 (fst v) (VStr s)) (fun w =>
                                       nav ps v (VStr s) w (fun x ps1 => kk ((VStr s, fst x) :: acc, ps1)))
                           | Some _ => with_key (VStr s) ps
                           end
                       | Some js, _ =>
                           ev_string E rho js None v ps (fun kx ps1 =>
                             match val with
                             | None => lift (fn_index2 (fst v) (fst kx)) (fun w =>
                                         nav ps1 v (fst kx) w (fun x ps2 => kk ((fst kx, fst x) :: acc, ps2)))
                             | Some _ => with_key (fst kx) ps1
                             end)
                       | None, Some q => ev_q E rho q v ps (fun kx ps1 => with_key (fst kx) ps1)
                       | None, None => skipM "malformed-object"
                       end
                   end
              end) kvs ([], ps)
              (fun st => match build_object (rev (fst st)) [] with
                         | Some o => k (plain (VObj o)) (snd st)
                         | None => raise (XErr O EObjectKeyNotString None)
                         end)
          end
      | TArray None => k (plain (VArr [])) ps
      | TArray (Some q) =>
          with_cell (scoped_ids ps) (plain (VArr []))
            (fun c => ev_q E rho q v ps (fun x _ =>
               a <- get_cell c ;;
               match fst a with
               | VArr l => set_cell c (plain (VArr (fst x :: l)))
               | _ => skipM "cell"
               end))
            (fun a => match fst a with
                      | VArr l => k (plain (VArr (rev' l))) ps
                      | _ => skipM "cell"
                      end)
      | TUnary op t' =>
          match term_index_key t with
          | Some c => k (plain c) ps
          | None =>
              ev_t E rho t' v ps (fun x ps' =>
                match op with
                | OpAdd => lift (match fst x with VNum _ => NOk (fst x) | _ => err_unary "plus" (fst x) end) (fun w => k (plain w) ps')
                | OpSub => lift (match fst x with VNum m => NOk (VNum (num_neg m)) | _ => err_unary "negate" (fst x) end) (fun w => k (plain w) ps')
                | _ => skipM "unary-operator"
                end)
          end
      | TFormat fmt str =>
          match str with
          | None =>
              match format_func fmt with
              | Some f => ev_call E rho f [] v ps k
              | None => ev_call E rho (codes "format") [q_term (TString (JString (tl fmt) None))] v ps k
              end
          | Some s =>
              match format_func fmt with
              | Some f => ev_string E rho s (Some f) v ps k
              | None => skipM "format-string"
              end
          end
      | TString s => ev_string E rho s None v ps k
      | TIf c th elifs el =>
          if_chain (fun c kk => ev_q E rho c v None (fun x _ => kk (truthy (fst x))))
                   (fun b => ev_q E rho b v ps k) c th elifs
                   (match el with
                    | Some e => ev_q E rho e v ps k
                    | None => k v ps
                    end)
      | TTry body handler =>
          try_catch (ev_q E rho body v ps (fun y ps' => down (k y ps')))
            (fun val =>
               match handler with
               | None => ret tt
               | Some h => match val with
                           | Some e => ev_q E rho h (plain e) ps k
                           | None => skipM "error-message"
                           end
               end)
      | TReduce src pat start upd =>
          ev_q E rho start v ps (fun s0 ps0 =>
            with_cell (scoped_ids ps0) s0
              (fun c => ev_q E rho src v ps0 (fun item ps1 =>
                 ev_bindpat E rho pat item ps1 (fun rho' ps2 =>
                   cur <- get_cell c ;;
                   ev_q E rho' upd cur ps2 (fun u _ => set_cell c u))))
              (fun res => k res ps0))
      | TForeach src pat start upd ext =>
          ev_q E rho start v ps (fun s0 ps0 =>
            with_cell (scoped_ids ps0) s0
              (fun c => ev_q E rho src v ps0 (fun item ps1 =>
                 ev_bindpat E rho pat item ps1 (fun rho' ps2 =>
                   cur <- get_cell c ;;
                   ev_q E rho' upd cur ps2 (fun u ps3 =>
                     set_cell c u ;;
                     match ext with
                     | None => k u ps3
                     | Some e => ev_q E rho' e u ps3 k
                     end))))
              (fun _ => ret tt))
      | TLabel ident body =>
          with_label (scoped_ids ps) (fun l => ev_q E (BLabel ident l :: rho) body v ps k)
      | TBreak name =>
          match lookup_label rho name with
          | Some l => raise (XBreak l)
          | None => skipM "undefined-label"
          end
      | TQuery q => ev_q E rho q v ps k
      end
    end
  end.


(* e.index / e[i] / e[a:b] (compiler.go compileIndex) *)
Definition step_eval_index (E : evals) (rho : env) (e : term) (i : index) (v : tv) (ps : pst) (k : K) : M unit :=
      match index_key i with
      | Some key =>
          ev_t E rho e v ps (fun x ps' =>
            lift (fn_index2 (fst x) key) (fun w => nav ps' x key w k))
      | None =>
          match i with
          | Index _ str start end_ isSlice =>
              let dyn_index (iq : query) : M unit :=
                (* _index(e; iq): the index expression first (outer loop), outside path tracking *)
                ev_q E rho iq v None (fun ix _ =>
                  ev_t E rho e v ps (fun x ps' =>
                    lift (fn_index2 (fst x) (fst ix)) (fun w => nav ps' x (fst ix) w k))) in
              match str with
              | Some js => dyn_index (q_term (TString js))
              | None =>
                  if negb isSlice then
                    match start with Some iq => dyn_index iq | None => skipM "malformed-index" end
                  else
                    (* _slice(e; end; start): start first, then end, then e *)
                    let bound (b : option query) (kk : jv -> M unit) : M unit :=
                      match b with
                      | None => kk VNull
                      | Some bq => ev_q E rho bq v None (fun y _ => kk (fst y))
                      end in
                    bound start (fun sv =>
                      bound end_ (fun ev =>
                        ev_t E rho e v ps (fun x ps' =>
                          lift (fn_slice (fst x) ev sv) (fun w =>
                            nav ps' x (VObj (obj_set (obj_set [] nm_start sv) nm_end ev)) w k))))
              end
          end
      end.


(* function call: variables, user definitions, filter arguments, builtin.jq, natives *)
Definition step_call (E : evals) (rho : env) (name : bytes) (args : list query) (v : tv) (ps : pst) (k : K) : M unit :=
  let arity := List.length args in
  let apply (fd : funcdef) (defenv : env) : M unit :=
    match fd with
    | FuncDef _ params body =>
        (* every parameter is first bound as a closure over the CALLER's environment; then the
           $parameters are evaluated left to right (the first is the outermost loop), outside path
           tracking *)
        let closures := fold_left (fun acc pa => BClos (strip_dollar (fst pa)) (snd pa) rho :: acc)
                                  (combine params args) defenv in
        cps_fold (fun (pa : bytes * query) (benv : env) kk =>
                    if is_var_name (fst pa)
                    then ev_q E rho (snd pa) v None (fun x _ => kk (BVar (fst pa) (plain (fst x)) :: benv))
                    else kk benv)
                 (combine params args) closures (fun benv => ev_q E benv body v ps k)
    end in
  (* arguments of a native: closures run on the input, LAST argument first (outermost loop) *)
  let eval_args (qs : list query) (ps : pst) (kk : list jv -> pst -> M unit) : M unit :=
    cps_fold (fun (q : query) (st : list jv * pst) kk' =>
                ev_q E rho q v (snd st) (fun x ps' => kk' (fst x :: fst st, ps')))
             (rev qs) ([], ps) (fun st => kk (fst st) (snd st)) in
  let native (_ : unit) : M unit :=
    match args with
    | [] =>
        if list_N_eqb name nm_21 then ret tt
        else if list_N_eqb name nm_27 then
          i <- next_input ;;
          match i with
          | Some x => k (plain x) ps
          | None => raise (XErr O EPlain (Some (vstr "break")))
          end
        else if list_N_eqb name nm_25 then raise (XHalt VNull 0)
        else if list_N_eqb name nm_26 then raise (XHalt (fst v) 5)
        else if list_N_eqb name nm_0 || list_N_eqb name nm_22 then k (plain (VObj [])) ps
        else match call_native name (fst v) [] with
             | Some r => lift r (fun w => k (plain w) ps)
             | None => skipM "undefined-function"
             end
    | [a] =>
        if list_N_eqb name nm_29 then ev_path E rho a v (fun path => k (plain (VArr path)) ps)
        else if list_N_eqb name nm_24 then
          ev_q E rho a v None (fun p _ =>
            lift (fn_getpath (fst v) (fst p)) (fun w =>
              match ps, fst p with
              | Some pp, VArr elems =>
                  match elems with
                  | [] => check_intact v pp EInvalidPath ;; k (w, snd v) ps
                  | _ => check_intact v pp EInvalidPath ;; id <- fresh ;;
                         k (w, Some id) (Some (mkp (rev elems ++ rpath pp) w id))
                  end
              | _, _ => k (plain w) ps
              end))
        else if list_N_eqb name nm_12 then
          (* compileLast: the last output of g, nothing when g is empty *)
          c <- new_cell (plain VNull) ;; got <- new_cell (plain VFalse) ;;
          ev_q E rho a v ps (fun x _ => set_cell c x ;; set_cell got (plain VTrue)) ;;
          res <- get_cell c ;; g <- get_cell got ;; free_cell c ;; free_cell got ;;
          if truthy (fst g) then k (plain (fst res)) ps else ret tt
        else eval_args args ps (fun vals ps' =>
               match call_native name (fst v) vals with
               | Some r => lift r (fun w => k (plain w) ps')
               | None => skipM "undefined-function"
               end)
    | [a; b] =>
        if list_N_eqb name nm_13 then
          match ps with
          | Some _ => skipM "update-in-path"
          | None => ev_modify E rho a (fun y kk => ev_q E rho b y None (fun z _ => kk (fst z))) v k
          end
        else if list_N_eqb name nm_11 then skipM "assign-call"
        else eval_args args ps (fun vals ps' =>
               match call_native name (fst v) vals with
               | Some r => lift r (fun w => k (plain w) ps')
               | None => skipM "undefined-function"
               end)
    | _ =>
        if list_N_eqb name nm_14 then
          eval_args args ps (fun vals ps' =>
            match vals with
            | [VNum s; VNum e; VNum st] => range_loop range_budget (VNum s) (VNum e) (VNum st) ps' k
            | [_; _; _] => raise (XErr O EFunc0Type None)
            | _ => skipM "range-arity"
            end)
        else eval_args args ps (fun vals ps' =>
               match call_native name (fst v) vals with
               | Some r => lift r (fun w => k (plain w) ps')
               | None => skipM "undefined-function"
               end)
    end in
  if is_var_name name && Nat.eqb arity 0 then
    match lookup_var rho name with
    | Some x => k x ps
    | None => if list_N_eqb name nm_0 then k (plain (VObj [])) ps else skipM "undefined-variable"
    end
  else
    match lookup_fun rho name arity with
    (* every loop of a jq program goes through the application of a jq-defined function or of a
       filter argument: counting those bounds the total work *)
    | Some (CFun fd defenv) => tick ;; apply fd defenv
    | Some (CClos body cenv) => tick ;; ev_q E cenv body v ps k
    | None =>
        match lookup_builtin builtins name arity with
        | Some fd => tick ;; apply fd []
        | None => guard_repsens name (fst v) (native tt)
        end
    end.


Definition bottom : evals :=
  mk_evals (fun _ _ _ _ _ => raise XFuel) (fun _ _ _ _ => raise XFuel) (fun _ _ _ _ _ => raise XFuel)
           (fun _ _ _ _ _ => raise XFuel) (fun _ _ _ _ _ _ => raise XFuel) (fun _ _ _ _ _ => raise XFuel)
           (fun _ _ _ _ _ _ => raise XFuel) (fun _ _ _ _ _ _ => raise XFuel).

Definition step (E : evals) : evals :=
  mk_evals (step_eval_q E) (step_eval_path E) (step_modify E) (step_bind_pat E) (step_eval_string E)
           (step_eval_t E) (step_eval_index E) (step_call E).

Fixpoint evals_n (n : nat) : evals :=
  match n with
  | O => bottom
  | S n' => step (evals_n n')
  end.

Definition eval_q (n : nat) := ev_q (evals_n n).
Definition eval_t (n : nat) := ev_t (evals_n n).
Definition eval_path (n : nat) := ev_path (evals_n n).
Definition call (n : nat) := ev_call (evals_n n).

End Eval.

(* ------------------------------------------------------------------------------------------ *)
(* observations *)

Inductive ending :=
| EndNormal                                  (* the generator is exhausted *)
| EndCap                                     (* the cap of observed outputs was reached *)
| EndError (c : errclass) (val : option jv)  (* first uncaught error *)
| EndHalt (v : jv) (code : Z)
| EndSkip (why : bytes).                     (* no verdict *)

Definition step_budget : N := 200000%N.
Definition init_state (capn : nat) (ins : list jv) (rs : bool) : sst := mkst [] O capn 0%N ins [] rs step_budget.

Definition observe (builtins : list funcdef) (fuel capn : nat) (rs : bool) (ins : list jv) (q : query) (v : jv)
  : list jv * ending :=
  match eval_q builtins fuel [] q (plain v) None emit (init_state capn ins rs) with
  | (inl _, s) => (rev' (outs s), EndNormal)
  | (inr x, s) =>
      (rev' (outs s),
       match x with
       | XStop => EndCap
       | XErr _ c val => EndError c val
       | XBreak _ => EndError EBreak None
       | XHalt hv code => EndHalt hv code
       | XFuel => EndSkip (codes "fuel")
       | XSkip why => EndSkip why
       end)
  end.
