(* PathsRoot.v — the run of `..` (recurse through builtin.jq) in path mode as a structural walk, node first:
   definitions.  (Proofs: PathsRootProofs.v.) *)
From Coq Require Import String.
From Coq Require Import List ZArith NArith Bool.
From Verif Require Import common.Sexp sem.JV sem.Syntax sem.Natives sem.Sem sem.BuiltinLaws sem.BuiltinCalls sem.StreamLaws sem.StreamGen sem.StreamGenProofs.
(* (go2, the loop over (key, child) pairs with one fresh id each, is defined in StreamGenProofs.v) *)
Import ListNotations.

(* def recurse: recurse(.[]?);  def recurse(f): def r: ., (f | r); r;   (the ASTs gojq.Parse gives) *)
Definition rr_body : query :=
  q_bin q_identity OpComma (q_term (TQuery (q_bin (q_call (codes "f") []) OpPipe (q_call (codes "r") [])))).
Definition rr_def : funcdef := FuncDef (codes "r") [] rr_body.
Definition recurse1_def : funcdef :=
  FuncDef (codes "recurse") [codes "f"] (Query [] [rr_def] (Some (Term (TFunc (Func (codes "r") [])) [])) None None None []).
Definition recurse0_def : funcdef := FuncDef (codes "recurse") [] (q_call (codes "recurse") [q_optiter]).

Definition recurse_pins (bs : list funcdef) : Prop :=
  lookup_builtin bs (codes "recurse") 0 = Some recurse0_def /\
  lookup_builtin bs (codes "recurse") 1 = Some recurse1_def.

(* the environment of r inside recurse(.[]?) called from builtin.jq (empty caller environment) *)
Definition env_rr (body fq : query) (cenv : env) : env := [BFun (FuncDef (codes "r") [] body); BClos (codes "f") fq cenv].

(* the walk of `..` in path mode: the node first (consumer kp on its path), then its children; two units of the step
   budget per node (the call of r, the call of the filter argument f), one fresh navigation id per child *)
Fixpoint pre_run (kp : list jv -> M unit) (v : jv) (rp : list jv) {struct v} : M unit :=
  tick ;;
  (kp (rev rp) ;;
   (tick ;;
    match v with
    | VArr l =>
        (fix go (l : list jv) (i : Z) {struct l} : M unit :=
           match l with
           | [] => ret tt
           | e :: r => (_ <- fresh ;; pre_run kp e (VInt i :: rp)) ;; go r (i + 1)%Z
           end) l 0%Z
    | VObj kvs =>
        (fix go (l : list (bytes * jv)) {struct l} : M unit :=
           match l with
           | [] => ret tt
           | (key, e) :: r => (_ <- fresh ;; pre_run kp e (VStr key :: rp)) ;; go r
           end) kvs
    | _ => ret tt
    end)).

(* the children part alone *)
Definition pre_kids (kp : list jv -> M unit) (v : jv) (rp : list jv) : M unit :=
  go2 (fun key e => pre_run kp e (key :: rp)) (elems_of v).
