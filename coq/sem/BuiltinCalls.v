(* BuiltinCalls.v — C03, clause "builtins that are defined in jq behave exactly as their published definitions in
   builtin.jq evaluated under C01", stated about the reference semantics Sem: definitions.

   [bind_params] is what Sem.step_call does with the parameters of a jq-defined function: every parameter is
   bound as a closure over the caller's environment, the $parameters are then evaluated left to right on the
   input, outside path tracking (the first is the outermost loop).  The general law (BuiltinCallsProofs.v):
   a call of a name that the program does not define and builtin.jq does is one unit of the step budget
   followed by the BODY OF THAT DEFINITION run by the same evaluator in that environment.
   The particular laws give, for some definitions pinned to their text in builtin.jq, the body's run as a
   directly written computation in continuation-passing style (every continuation, every path state).
   Definitions only. *)
From Coq Require Import String.
From Coq Require Import List ZArith NArith Bool.
From Verif Require Import common.Sexp sem.JV sem.Syntax sem.Natives sem.Sem sem.BuiltinLaws.
Import ListNotations.

Definition closures (params : list bytes) (args : list query) (rho defenv : env) : env :=
  fold_left (fun acc pa => BClos (strip_dollar (fst pa)) (snd pa) rho :: acc) (combine params args) defenv.

Definition bind_params (bs : list funcdef) (m : nat) (rho : env) (params : list bytes) (args : list query)
           (v : tv) (kk : env -> M unit) : M unit :=
  cps_fold (fun (pa : bytes * query) (benv : env) kk' =>
              if is_var_name (fst pa)
              then eval_q bs m rho (snd pa) v None (fun x _ => kk' (BVar (fst pa) (plain (fst x)) :: benv))
              else kk' benv)
           (combine params args) (closures params args rho []) kk.

(* the definitions the particular laws are about (map_def: BuiltinLaws.v) *)
Definition q_empty : query := q_call (codes "empty") [].
Definition q_break (x : string) : query := q_term (TBreak (codes x)).

(* def not: if . then false else true end; *)
Definition not_def : funcdef :=
  FuncDef (codes "not") [] (q_term (TIf q_identity (q_term TFalse) [] (Some (q_term TTrue)))).
(* def select(f): if f then . else empty end; *)
Definition select_def : funcdef :=
  FuncDef (codes "select") [codes "f"] (q_term (TIf (q_call (codes "f") []) q_identity [] (Some q_empty))).
(* def add(f): [f] | add; *)
Definition add1_def : funcdef :=
  FuncDef (codes "add") [codes "f"]
    (q_bin (q_term (TArray (Some (q_call (codes "f") [])))) OpPipe (q_call (codes "add") [])).
(* def first(g): label $out | g | ., break $out; *)
Definition first_def : funcdef :=
  FuncDef (codes "first") [codes "g"]
    (q_term (TLabel (codes "$out") (q_bin (q_call (codes "g") []) OpPipe (q_bin q_identity OpComma (q_break "$out"))))).
(* def isempty(g): label $out | (g | false, break $out), true; *)
Definition isempty_def : funcdef :=
  FuncDef (codes "isempty") [codes "g"]
    (q_term (TLabel (codes "$out")
       (q_bin (q_term (TQuery (q_bin (q_call (codes "g") []) OpPipe (q_bin (q_term TFalse) OpComma (q_break "$out")))))
              OpComma (q_term TTrue)))).
(* def in(xs): . as $x | xs | has($x); *)
Definition in_def : funcdef :=
  FuncDef (codes "in") [codes "xs"]
    (Query [] [] None (Some q_identity) (Some OpPipe)
       (Some (q_bin (q_call (codes "xs") []) OpPipe (q_call (codes "has") [q_call (codes "$x") []])))
       [Pattern (codes "$x") [] []]).

Definition calls_pins (bs : list funcdef) : Prop :=
  lookup_builtin bs (codes "map") 1 = Some map_def /\
  lookup_builtin bs (codes "not") 0 = Some not_def /\
  lookup_builtin bs (codes "select") 1 = Some select_def /\
  lookup_builtin bs (codes "add") 1 = Some add1_def /\
  lookup_builtin bs (codes "first") 1 = Some first_def /\
  lookup_builtin bs (codes "isempty") 1 = Some isempty_def /\
  lookup_builtin bs (codes "in") 1 = Some in_def /\
  lookup_builtin bs (codes "empty") 0 = None /\
  lookup_builtin bs (codes "add") 0 = None /\
  lookup_builtin bs (codes "has") 1 = None.

(* the name is not defined by the program (so the call reaches builtin.jq / the natives) *)
Definition undefined_in (rho : env) (name : string) (arity : nat) : Prop := lookup_fun rho (codes name) arity = None.
