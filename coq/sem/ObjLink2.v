(* ObjLink2.v — opobject in the two models: c01vm2.Syntax.mk_obj inserts the (key, value) pairs from the LAST to the
   FIRST without overwriting a key that is already present, Sem.build_object from the first to the last with
   overwriting.  Both give the sorted association list in which the last pair of every key wins, and both fail exactly
   when some key is not a string.  (Sorted lists with equal lookups are equal.) *)
From Coq Require Import String.
From Coq Require Import List ZArith NArith Bool Lia.
From Verif Require Import common.Sexp sem.JV sem.Syntax sem.Natives sem.Sem sem.DenLink sem.DenLink2
  sem.DenLink2All sem.VmLink2Def sem.VmLink2Rel sem.VmLink2.
From Verif Require c01vm2.Syntax c01vm2.Den.
Import ListNotations.

(* ---- the order on keys ---- *)
Lemma cmp_refl a : bytes_cmp a a = Eq.
Proof. induction a as [|x a IH]; [reflexivity|]. cbn. rewrite N.compare_refl. exact IH. Qed.
Lemma cmp_eq a : forall b, bytes_cmp a b = Eq -> a = b.
Proof.
  induction a as [|x a IH]; intros [|y b]; cbn; try discriminate; [reflexivity|].
  destruct (N.compare_spec x y) as [Exy|Exy|Exy]; try discriminate. intros Hc. subst. f_equal. apply IH. exact Hc.
Qed.
Lemma cmp_antisym a : forall b, bytes_cmp b a = CompOpp (bytes_cmp a b).
Proof.
  induction a as [|x a IH]; intros [|y b]; cbn; try reflexivity.
  rewrite (N.compare_antisym x y). destruct (N.compare x y); cbn; try reflexivity. apply IH.
Qed.
Lemma cmp_lt_trans a : forall b c, bytes_cmp a b = Lt -> bytes_cmp b c = Lt -> bytes_cmp a c = Lt.
Proof.
  induction a as [|x a IH]; intros [|y b] [|z c]; cbn; try discriminate; try reflexivity.
  destruct (N.compare_spec x y), (N.compare_spec y z); try discriminate; intros H1 H2; subst.
  - rewrite N.compare_refl. eapply IH; eassumption.
  - destruct (N.compare_spec y z); try lia. reflexivity.
  - destruct (N.compare_spec x z); try lia. reflexivity.
  - destruct (N.compare_spec x z); try lia. reflexivity.
Qed.
Lemma cmp_gt_lt a b : bytes_cmp a b = Gt -> bytes_cmp b a = Lt.
Proof. intros H. rewrite cmp_antisym, H. reflexivity. Qed.
Lemma eqb_cmp a b : bytes_eqb a b = match bytes_cmp a b with Eq => true | _ => false end.
Proof. reflexivity. Qed.

(* ---- sorted association lists ---- *)
Section Sorted.
Variable A : Type.
Notation al := (list (bytes * A)).
Fixpoint get (l : al) (k : bytes) : option A :=
  match l with
  | [] => None
  | (k', v) :: r => match bytes_cmp k k' with Eq => Some v | Lt => None | Gt => get r k end
  end.
Fixpoint set (l : al) (k : bytes) (v : A) : al :=
  match l with
  | [] => [(k, v)]
  | (k', v') :: r => match bytes_cmp k k' with
                     | Eq => (k, v) :: r
                     | Lt => (k, v) :: l
                     | Gt => (k', v') :: set r k v
                     end
  end.
Definition lt_all (k : bytes) (l : al) : Prop := Forall (fun kv => bytes_cmp k (fst kv) = Lt) l.
Fixpoint srt (l : al) : Prop := match l with [] => True | (k, _) :: r => lt_all k r /\ srt r end.
Fixpoint has (k : bytes) (l : al) : bool :=
  match l with [] => false | (k', _) :: r => bytes_eqb k k' || has k r end.

Lemma get_le k0 r k : lt_all k0 r -> bytes_cmp k k0 <> Gt -> get r k = None.
Proof.
  intros Hl Hk. destruct r as [|[k1 v1] r]; [reflexivity|]. cbn [get]. inversion Hl as [|? ? H1 _]; subst. cbn [fst] in H1.
  assert (E : bytes_cmp k k1 = Lt).
  { destruct (bytes_cmp k k0) eqn:E0; [apply cmp_eq in E0; subst; exact H1|eapply cmp_lt_trans; eassumption|congruence]. }
  rewrite E. reflexivity.
Qed.

Lemma set_in l k v x : In x (set l k v) -> x = (k, v) \/ In x l.
Proof.
  induction l as [|[k0 v0] r IH]; cbn [set]; [intros [<-|[]]; auto|].
  destruct (bytes_cmp k k0); cbn [In]; intros H.
  - destruct H as [<-|H]; auto.
  - destruct H as [<-|H]; auto.
  - destruct H as [<-|H]; [auto|]. destruct (IH H); auto.
Qed.

Lemma srt_set l k v : srt l -> srt (set l k v).
Proof.
  induction l as [|[k0 v0] r IH]; cbn [set srt]; [intros _; split; [constructor|exact I]|].
  intros [Hl Hs]. destruct (bytes_cmp k k0) eqn:E; cbn [srt].
  - apply cmp_eq in E. subst. auto.
  - split; [|auto]. constructor; [exact E|]. unfold lt_all in *. rewrite Forall_forall in *. intros x Hx.
    eapply cmp_lt_trans; [exact E|apply Hl; exact Hx].
  - split; [|apply IH; exact Hs]. unfold lt_all in *. rewrite Forall_forall in *. intros x Hx.
    apply set_in in Hx as [->|Hx]; [cbn [fst]; apply cmp_gt_lt; exact E|apply Hl; exact Hx].
Qed.

Lemma get_set l k v k' : srt l -> get (set l k v) k' = if bytes_eqb k' k then Some v else get l k'.
Proof.
  induction l as [|[k0 v0] r IH]; intros Hs.
  - cbn [set get]. rewrite eqb_cmp. destruct (bytes_cmp k' k); reflexivity.
  - destruct Hs as [Hl Hs]. cbn [set]. destruct (bytes_cmp k k0) eqn:E.
    + apply cmp_eq in E. subst k0. cbn [get]. rewrite eqb_cmp. destruct (bytes_cmp k' k); reflexivity.
    + cbn [get]. rewrite eqb_cmp. destruct (bytes_cmp k' k) eqn:E'; try reflexivity.
      rewrite (cmp_lt_trans _ _ _ E' E). reflexivity.
    + cbn [get]. rewrite (IH Hs). rewrite eqb_cmp. destruct (bytes_cmp k' k0) eqn:E'; try reflexivity.
      * apply cmp_eq in E'. subst k'. rewrite (cmp_gt_lt _ _ E). reflexivity.
      * rewrite (cmp_lt_trans _ _ _ E' (cmp_gt_lt _ _ E)). reflexivity.
Qed.

Lemma has_lt k r : lt_all k r -> has k r = false.
Proof.
  induction 1 as [|[k1 v1] r H1 _ IH]; [reflexivity|]. cbn [has fst] in *. rewrite eqb_cmp, H1. exact IH.
Qed.
Lemma has_get l k : srt l -> has k l = match get l k with Some _ => true | None => false end.
Proof.
  induction l as [|[k0 v0] r IH]; [reflexivity|]. intros [Hl Hs]. cbn [has get]. rewrite eqb_cmp.
  destruct (bytes_cmp k k0) eqn:E; cbn [orb]; [reflexivity| |apply IH; exact Hs].
  apply has_lt. unfold lt_all in *. rewrite Forall_forall in *. intros x Hx. eapply cmp_lt_trans; [exact E|apply Hl; exact Hx].
Qed.

Lemma srt_ext a : forall b, srt a -> srt b -> (forall k, get a k = get b k) -> a = b.
Proof.
  induction a as [|[k1 v1] r1 IH]; intros [|[k2 v2] r2] Ha Hb H.
  - reflexivity.
  - specialize (H k2). cbn [get] in H. rewrite cmp_refl in H. discriminate.
  - specialize (H k1). cbn [get] in H. rewrite cmp_refl in H. discriminate.
  - destruct Ha as [Hl1 Hs1], Hb as [Hl2 Hs2].
    destruct (bytes_cmp k1 k2) eqn:E.
    + apply cmp_eq in E. subst k2. pose proof (H k1) as H1. cbn [get] in H1. rewrite cmp_refl in H1. injection H1 as ->.
      f_equal. apply IH; try assumption. intros k. specialize (H k). cbn [get] in H.
      destruct (bytes_cmp k k1) eqn:Ek; [|rewrite !(get_le k1) by (assumption || congruence); reflexivity|exact H].
      rewrite !(get_le k1) by (assumption || congruence). reflexivity.
    + specialize (H k1). cbn [get] in H. rewrite cmp_refl, E in H. discriminate.
    + specialize (H k2). cbn [get] in H. rewrite cmp_refl, (cmp_gt_lt _ _ E) in H. discriminate.
Qed.

(* the two insertion disciplines on key lists *)
Definition ins_new (m : al) (p : bytes * A) : al := if has (fst p) m then m else set m (fst p) (snd p).
Definition ins_over (m : al) (p : bytes * A) : al := set m (fst p) (snd p).
Definition ffirst (k : bytes) (l : al) : option A :=
  match find (fun p => bytes_eqb k (fst p)) l with Some p => Some (snd p) | None => None end.

Lemma srt_fold_new l : forall m, srt m -> srt (fold_left ins_new l m).
Proof. induction l as [|p l IH]; intros m Hm; [exact Hm|]. cbn [fold_left]. apply IH. unfold ins_new. destruct (has (fst p) m); [exact Hm|apply srt_set; exact Hm]. Qed.
Lemma srt_fold_over l : forall m, srt m -> srt (fold_left ins_over l m).
Proof. induction l as [|p l IH]; intros m Hm; [exact Hm|]. cbn [fold_left]. apply IH. apply srt_set. exact Hm. Qed.

Lemma get_fold_new l k : forall m, srt m ->
  get (fold_left ins_new l m) k = match get m k with Some x => Some x | None => ffirst k l end.
Proof.
  induction l as [|p l IH]; intros m Hm; [cbn; destruct (get m k); reflexivity|].
  cbn [fold_left]. rewrite IH by (unfold ins_new; destruct (has (fst p) m); [exact Hm|apply srt_set; exact Hm]).
  unfold ins_new, ffirst. cbn [find]. rewrite (has_get m (fst p) Hm).
  destruct (get m (fst p)) as [y|] eqn:Ep.
  - destruct (get m k) eqn:Ek; [reflexivity|]. rewrite eqb_cmp. destruct (bytes_cmp k (fst p)) eqn:E; try reflexivity.
    apply cmp_eq in E. subst k. congruence.
  - rewrite (get_set m _ _ k Hm). rewrite eqb_cmp. destruct (bytes_cmp k (fst p)) eqn:E.
    + apply cmp_eq in E. subst k. rewrite Ep. reflexivity.
    + destruct (get m k); reflexivity.
    + destruct (get m k); reflexivity.
Qed.

Lemma get_fold_over l k : forall m, srt m ->
  get (fold_left ins_over l m) k = match ffirst k (rev l) with Some x => Some x | None => get m k end.
Proof.
  induction l as [|p l IH] using rev_ind; intros m Hm; [reflexivity|].
  rewrite fold_left_app. cbn [fold_left]. unfold ins_over at 1. rewrite get_set by (apply srt_fold_over; exact Hm).
  rewrite rev_app_distr. cbn [rev app]. unfold ffirst. cbn [find]. destruct (bytes_eqb k (fst p)); [reflexivity|]. apply IH. exact Hm.
Qed.

Theorem new_rev_is_over l : fold_left ins_new (rev l) [] = fold_left ins_over l [].
Proof.
  apply srt_ext; [apply srt_fold_new; exact I|apply srt_fold_over; exact I|]. intros k.
  rewrite get_fold_new by exact I. rewrite get_fold_over by exact I. cbn [get]. destruct (ffirst k (rev l)); reflexivity.
Qed.
End Sorted.

(* ---- c01vm2's side ---- *)
Lemma str_cmp_eq a : forall b, VS.str_cmp a b = bytes_cmp a b.
Proof. intros b. reflexivity. Qed.   (* the two definitions are the same fixpoint *)

Lemma vput_set k v l : VS.obj_put k v l = set VS.jv l k v.
Proof. induction l as [|[k0 v0] r IH]; [reflexivity|]. cbn [VS.obj_put set]. rewrite str_cmp_eq. destruct (bytes_cmp k k0); try reflexivity. rewrite IH. reflexivity. Qed.
Lemma vhas_has k l : VS.obj_has k l = has VS.jv k l.
Proof. induction l as [|[k0 v0] r IH]; [reflexivity|]. cbn [VS.obj_has has]. unfold VS.str_eqb, bytes_eqb. rewrite str_cmp_eq, IH. reflexivity. Qed.

Definition vkey (p : VS.jv * VS.jv) : bytes := match fst p with VS.VStr s => s | _ => [] end.
Definition vallstr (ps : list (VS.jv * VS.jv)) : bool := forallb (fun p => match fst p with VS.VStr _ => true | _ => false end) ps.
Definition vkvs (ps : list (VS.jv * VS.jv)) : list (bytes * VS.jv) := map (fun p => (vkey p, snd p)) ps.

Lemma mk_rev_eq ps : forall m, VS.mk_obj_rev ps m =
  if vallstr ps then inl (VS.VObj (fold_left (ins_new VS.jv) (vkvs ps) m)) else inr (VS.EMsg []).
Proof.
  induction ps as [|[k v] ps IH]; intros m; [reflexivity|].
  destruct k; cbn [VS.mk_obj_rev vallstr forallb fst andb]; try reflexivity.
  rewrite IH. fold (vallstr ps). destruct (vallstr ps); [|reflexivity].
  cbn [vkvs map fold_left]. unfold ins_new at 2. cbn [fst snd vkey]. rewrite vhas_has, vput_set. reflexivity.
Qed.

Lemma vallstr_rev ps : vallstr (rev ps) = vallstr ps.
Proof.
  unfold vallstr. destruct (forallb _ ps) eqn:E.
  - rewrite forallb_forall in *. intros x Hx. apply E. apply in_rev. exact Hx.
  - destruct (forallb _ (rev ps)) eqn:E2; [|reflexivity]. rewrite <- E. symmetry. rewrite forallb_forall in *.
    intros x Hx. apply E2. apply -> in_rev. exact Hx.
Qed.

Lemma mk_obj_eq acc : VS.mk_obj acc =
  if vallstr acc then inl (VS.VObj (fold_left (ins_over VS.jv) (vkvs acc) [])) else inr (VS.EMsg []).
Proof.
  unfold VS.mk_obj. rewrite mk_rev_eq, vallstr_rev. destruct (vallstr acc); [|reflexivity].
  unfold vkvs. rewrite map_rev. rewrite new_rev_is_over. reflexivity.
Qed.

(* ---- Sem's side ---- *)
Lemma oset_set l k v : obj_set l k v = set jv l k v.
Proof. induction l as [|[k0 v0] r IH]; [reflexivity|]. cbn [obj_set set]. destruct (bytes_cmp k k0); try reflexivity. Qed.

Definition skey (p : jv * jv) : bytes := match fst p with VStr s => s | _ => [] end.
Definition sallstr (ps : list (jv * jv)) : bool := forallb (fun p => match fst p with VStr _ => true | _ => false end) ps.
Definition skvs (ps : list (jv * jv)) : list (bytes * jv) := map (fun p => (skey p, snd p)) ps.

Lemma build_eq ps : forall o, build_object ps o = if sallstr ps then Some (fold_left (ins_over jv) (skvs ps) o) else None.
Proof.
  induction ps as [|[k v] ps IH]; intros o; [reflexivity|].
  destruct k; cbn [build_object sallstr forallb fst andb]; try reflexivity.
  rewrite IH. fold (sallstr ps). destruct (sallstr ps); [|reflexivity].
  cbn [skvs map fold_left]. unfold ins_over at 2. cbn [fst snd skey]. rewrite oset_set. reflexivity.
Qed.

(* ---- the embedding commutes ---- *)
Definition embkv (kv : bytes * VS.jv) : bytes * jv := (fst kv, emb_v (snd kv)).
Lemma set_emb l k v : map embkv (set VS.jv l k v) = set jv (map embkv l) k (emb_v v).
Proof.
  induction l as [|[k0 v0] r IH]; [reflexivity|]. cbn [set map embkv fst snd].
  destruct (bytes_cmp k k0); cbn [map embkv fst snd]; try reflexivity. rewrite <- IH. reflexivity.
Qed.
Lemma fold_over_emb l : forall m, map embkv (fold_left (ins_over VS.jv) l m) = fold_left (ins_over jv) (map embkv l) (map embkv m).
Proof.
  induction l as [|p l IH]; intros m; [reflexivity|]. cbn [fold_left map]. rewrite IH. unfold ins_over at 2 4.
  rewrite set_emb. reflexivity.
Qed.
Lemma sallstr_emb acc : sallstr (map embpair acc) = vallstr acc.
Proof. unfold sallstr, vallstr. induction acc as [|[k v] r IH]; [reflexivity|]. cbn [map forallb embpair fst]. rewrite IH. destruct k; reflexivity. Qed.
Lemma skvs_emb acc : vallstr acc = true -> skvs (map embpair acc) = map embkv (vkvs acc).
Proof.
  unfold skvs, vkvs, vallstr. induction acc as [|[k v] r IH]; [reflexivity|]. cbn [map forallb embpair fst snd].
  intros H. apply andb_true_iff in H as [H1 H2]. rewrite (IH H2). destruct k; try discriminate. reflexivity.
Qed.

Theorem mk_obj_agree_holds : mk_obj_agree.
Proof.
  intros L acc. unfold obj_res. rewrite build_eq, mk_obj_eq, sallstr_emb.
  destruct (vallstr acc) eqn:E.
  - left. split; [|exact I]. cbn [VD.of_sum fst map emb_v]. rewrite (skvs_emb acc E).
    change (map (fun kv => (fst kv, emb_v (snd kv)))) with (map embkv). rewrite fold_over_emb. reflexivity.
  - left. split; [reflexivity|]. cbn. left. reflexivity.
Qed.

(* ---- the end-to-end statement without hypotheses about den2: the cap is compared with the number of outputs of
   c01vm2's denotation (= of the VM run) ---- *)
Lemma R_length L a b : R L a b -> (List.length (fst a) <= List.length (fst b))%nat.
Proof.
  intros [[E _]|(why & pre & post & _ & Eb & Ea)].
  - rewrite E, map_length. lia.
  - rewrite Ea, Eb, map_length, app_length. lia.
Qed.

Section EndToEnd2.
Variable bs : list funcdef.
Hypothesis Hempty : lookup_builtin bs (codes "empty") 0 = None.
Hypothesis Herror : lookup_builtin bs (codes "error") 0 = None.
Hypothesis Hlength : lookup_builtin bs (codes "length") 0 = None.
Hypothesis Htostring : lookup_builtin bs (codes "tostring") 0 = None.
Hypothesis Htojson : lookup_builtin bs (codes "tojson") 0 = None.

Theorem vm2_is_sem rsf q q' tco code :
  tr rsf q = Some q' -> option_map VK.peephole (VK.compile_raw_g tco q) = Some code ->
  forall v (n capn : nat) ins,
  (need2 q' <= n)%nat -> (List.length (fst (VD.den sem_natives2 0 q [] v)) < capn)%nat ->
  (forall why, snd (observe bs n capn rsf ins (emb2 q') (emb_v v)) <> EndSkip why) ->
  exists fuel outs m,
    VM.run sem_natives2 code fuel (VM.init code v) = (outs, m) /\
    fst (observe bs n capn rsf ins (emb2 q') (emb_v v)) = map emb_v outs /\
    end_rel (snd (observe bs n capn rsf ins (emb2 q') (emb_v v))) m.
Proof.
  intros Htr Hc v n capn ins Hn Hcap Hns.
  apply (vm2_run_is_sem_observe bs Hempty Herror Hlength Htostring Htojson rsf mk_obj_agree_holds q q' tco code Htr Hc v n capn ins Hn); [|exact Hns].
  pose proof (R_length _ _ _ (den_link2 rsf mk_obj_agree_holds (VD.call_of sem_natives2 0) q q' Htr [] [] v renv_nil)) as HL.
  unfold VD.den in Hcap. lia.
Qed.

(* the same for the denotation alone: outputs and ending of c01vm2's den (any fuel: the fragment has no calls) *)
Theorem den_is_sem rsf q q' : tr rsf q = Some q' ->
  forall fu v (n capn : nat) ins,
  (need2 q' <= n)%nat -> (List.length (fst (VD.den sem_natives2 fu q [] v)) < capn)%nat ->
  (forall why, snd (observe bs n capn rsf ins (emb2 q') (emb_v v)) <> EndSkip why) ->
  fst (observe bs n capn rsf ins (emb2 q') (emb_v v)) = map emb_v (fst (VD.den sem_natives2 fu q [] v)) /\
  match snd (observe bs n capn rsf ins (emb2 q') (emb_v v)), snd (VD.den sem_natives2 fu q [] v) with
  | EndNormal, None => True
  | EndError c val, Some (VD.XErr (VS.EVal x)) => val = Some (emb_v x)
  | EndError c val, Some (VD.XErr (VS.EMsg m)) => val = None \/ val = Some (VStr m)
  | _, _ => False
  end.
Proof.
  intros Htr fu v n capn ins Hn Hcap Hns.
  pose proof (den_link2 rsf mk_obj_agree_holds (VD.call_of sem_natives2 fu) q q' Htr [] [] v renv_nil) as HR.
  assert (Hcap2 : (List.length (fst (den2 rsf q' [] (emb_v v))) < capn)%nat).
  { pose proof (R_length _ _ _ HR) as HL. unfold VD.den in Hcap. lia. }
  rewrite (observe_den2 bs rsf Hempty Herror Hlength Htostring Htojson q' (tr_ok2 rsf q q' Htr) n capn ins (emb_v v) Hn Hcap2) in *.
  cbn [fst snd] in *. unfold VD.den.
  destruct HR as [[El Xl]|(why & pre & post & Sk & _ & _)].
  - split; [exact El|].
    destruct (snd (den2 rsf q' [] (emb_v v))) as [[[|d] c val| | | | |]|], (snd (VD.den1 sem_natives2 (VD.call_of sem_natives2 fu) q [] v)) as [[e|lb|]|];
      cbn [xrel ending_of] in *; try contradiction; try exact I.
    + destruct e; exact Xl.
    + cbn in Xl. discriminate Xl.
  - exfalso. rewrite Sk in Hns. cbn [ending_of] in Hns. eapply Hns. reflexivity.
Qed.
End EndToEnd2.

(* the VM statement for any fuel fu of the denotation (the cap is compared with den's outputs at that fuel) *)
Section EndToEnd3.
Variable bs : list funcdef.
Hypothesis Hempty : lookup_builtin bs (codes "empty") 0 = None.
Hypothesis Herror : lookup_builtin bs (codes "error") 0 = None.
Hypothesis Hlength : lookup_builtin bs (codes "length") 0 = None.
Hypothesis Htostring : lookup_builtin bs (codes "tostring") 0 = None.
Hypothesis Htojson : lookup_builtin bs (codes "tojson") 0 = None.

Theorem vm2_is_sem_fu rsf q q' tco code fu :
  tr rsf q = Some q' -> option_map VK.peephole (VK.compile_raw_g tco q) = Some code ->
  forall v (n capn : nat) ins,
  (need2 q' <= n)%nat -> (List.length (fst (VD.den sem_natives2 fu q [] v)) < capn)%nat ->
  (forall why, snd (observe bs n capn rsf ins (emb2 q') (emb_v v)) <> EndSkip why) ->
  exists fuel outs m,
    VM.run sem_natives2 code fuel (VM.init code v) = (outs, m) /\
    fst (observe bs n capn rsf ins (emb2 q') (emb_v v)) = map emb_v outs /\
    end_rel (snd (observe bs n capn rsf ins (emb2 q') (emb_v v))) m.
Proof.
  intros Htr Hc v n capn ins Hn Hcap Hns.
  destruct (den_is_sem bs Hempty Herror Hlength Htostring Htojson rsf q q' Htr fu v n capn ins Hn Hcap Hns) as [El Xl].
  destruct (VP.compile_g_correct sem_natives2 tco q code Hc fu v) as [fuel Hrun]. unfold VX.run_is in Hrun.
  destruct (VD.den sem_natives2 fu q [] v) as [ws' x']. cbn [fst snd] in *.
  destruct (snd (observe bs n capn rsf ins (emb2 q') (emb_v v))) as [| |c val| |], x' as [[[x|m]|lb|]|]; try contradiction.
  - exists fuel, ws', VM.End. split; [exact Hrun|]. split; [exact El|exact I].
  - exists fuel, ws', (VM.Error (VM.VE (VM.EV x))). split; [exact Hrun|]. split; [exact El|exact Xl].
  - exists fuel, ws', (VM.Error (VM.VE (VM.EM m))). split; [exact Hrun|]. split; [exact El|exact Xl].
Qed.
End EndToEnd3.

(* the statement for an arbitrary translation trq into gojq's AST (fuel_ok: the bound on Sem's fuel; fu: a fuel on which the
   denotation terminates), and its instance for tr2 = emb2 o tr *)
Definition link2_full_for (trq : bool -> VS.query -> option query) (fuel_ok : query -> nat -> Prop) : Prop :=
  forall bs,
  lookup_builtin bs (codes "empty") 0 = None -> lookup_builtin bs (codes "error") 0 = None ->
  lookup_builtin bs (codes "length") 0 = None -> lookup_builtin bs (codes "tostring") 0 = None ->
  lookup_builtin bs (codes "tojson") 0 = None ->
  forall rs q ast tco code, trq rs q = Some ast ->
  option_map VK.peephole (VK.compile_raw_g tco q) = Some code ->
  forall fu v (n capn : nat) ins, fuel_ok ast n ->
  snd (VD.den sem_natives2 fu q [] v) <> Some VD.XFuel ->
  (List.length (fst (VD.den sem_natives2 fu q [] v)) < capn)%nat ->
  (forall why, snd (observe bs n capn rs ins ast (emb_v v)) <> EndSkip why) ->
  exists fuel outs m,
    VM.run sem_natives2 code fuel (VM.init code v) = (outs, m) /\
    fst (observe bs n capn rs ins ast (emb_v v)) = map emb_v outs /\
    end_rel (snd (observe bs n capn rs ins ast (emb_v v))) m.

Theorem link2_full_for_tr2 : link2_full_for tr2 (fun ast n => forall q', emb2 q' = ast -> (need2 q' <= n)%nat).
Proof.
  intros bs H1 H2 H3 H4 H5 rs q ast tco code Htr Hc fu v n capn ins Hf _ Hcap Hns.
  unfold tr2 in Htr. destruct (tr rs q) as [q'|] eqn:E; [|discriminate]. cbn in Htr. injection Htr as <-.
  apply (vm2_is_sem_fu bs H1 H2 H3 H4 H5 rs q q' tco code fu E Hc v n capn ins); [apply Hf; reflexivity|exact Hcap|exact Hns].
Qed.
