(* VmLink2Def.v — the link Sem <-> coq/c01vm2 (compiler + VM + denotation, fragment F3): definitions only.
   emb_v: values of c01vm2 (integers only) into Sem's values; tr: c01vm2's query syntax into the syntax q2 of
   DenLink2.v (emb2 (tr q) is the AST handed to Sem); sem_natives2: Sem's natives as an instance of c01vm2's abstract
   natives record.  Function definitions and calls (QDef / QCallF) are not translated yet. *)
From Coq Require Import String.
From Coq Require Import List ZArith NArith Bool Lia.
From Verif Require Import common.Sexp sem.JV sem.Syntax sem.Natives sem.Sem sem.DenLink sem.DenLink2.
From Verif Require c01vm2.Syntax c01vm2.Code c01vm2.Den.
Import ListNotations.
Module VS := Verif.c01vm2.Syntax.
Module VC := Verif.c01vm2.Code.
Module VD := Verif.c01vm2.Den.

Fixpoint emb_v (v : VS.jv) : jv :=
  match v with
  | VS.VNull => VNull
  | VS.VBool b => VBool b
  | VS.VNum z => VNum (NInt z)
  | VS.VStr s => VStr s
  | VS.VArr l => VArr (map emb_v l)
  | VS.VObj l => VObj (map (fun kv => (fst kv, emb_v (snd kv))) l)
  end.
(* the inverse on float-free values (floats, which no embedded computation of the fragment produces, go to null) *)
Fixpoint unemb (v : jv) : VS.jv :=
  match v with
  | VNull => VS.VNull
  | VBool b => VS.VBool b
  | VNum (NInt z) => VS.VNum z
  | VNum (NFlt _) => VS.VNull
  | VStr s => VS.VStr s
  | VArr l => VS.VArr (map unemb l)
  | VObj l => VS.VObj (map (fun kv => (fst kv, unemb (snd kv))) l)
  end.
Fixpoint intvb (v : jv) : bool :=
  match v with
  | VNum (NFlt _) => false
  | VArr l => forallb intvb l
  | VObj l => forallb (fun kv => intvb (snd kv)) l
  | _ => true
  end.

(* variable / label n of c01vm2 is the jq name $a..a (n+1 letters) *)
Definition name_of (x : N) : bytes := 36%N :: repeat 97%N (S (N.to_nat x)).

Definition op_of (o : VS.binop) : operator :=
  match o with
  | VS.OAdd => OpAdd | VS.OSub => OpSub | VS.OEq => OpEq | VS.ONe => OpNe
  | VS.OLt => OpLt | VS.OLe => OpLe | VS.OGt => OpGt | VS.OGe => OpGe
  end.

(* patterns.  ap: are array patterns translated?  (c01vm2.Den hard-codes the empty message for the error of
   destructuring a non-array, Sem produces gojq's text: the two agree only where Sem masks message texts, i.e. in
   representation-sensitive runs; see VmLink2.v) *)
Fixpoint trp (ap : bool) (p : VS.pattern) : option pat2 :=
  match p with
  | VS.PVar x => Some (P2Var (name_of x))
  | VS.PArr l => if ap then match l with VS.ANil => None | _ => option_map P2Arr (trpa ap l) end else None
  | VS.PObj l => match l with VS.ONil => None | _ => option_map P2Obj (trpo ap l) end
  end
with trpa (ap : bool) (l : VS.parr) : option parr2 :=
  match l with
  | VS.ANil => Some A2Nil
  | VS.ACons p r => match trp ap p, trpa ap r with Some p', Some r' => Some (A2Cons p' r') | _, _ => None end
  end
with trpo (ap : bool) (l : VS.pobj) : option pobj2 :=
  match l with
  | VS.ONil => Some O2Nil
  | VS.OKey k p r => match trp ap p, trpo ap r with Some p', Some r' => Some (O2Key k p' r') | _, _ => None end
  | VS.OKeyVar k x p r =>
      (* `$x: p`: the key is the name of x *)
      if list_N_eqb k (tl (name_of x))
      then match trp ap p, trpo ap r with Some p', Some r' => Some (O2KeyVar (name_of x) p' r') | _, _ => None end
      else None
  end.

(* the entries of an object construction; f translates the sub-queries *)
Section TrEnts.
Variable f : VS.query -> option qz.
Fixpoint tr_ents (es : list ((list N + VS.query) * VS.query)) : option ents2 :=
  match es with
  | [] => Some E2Nil
  | (inl k, qv) :: r => match f qv, tr_ents r with Some v', Some r' => Some (E2K k v' r') | _, _ => None end
  | (inr kq, qv) :: r => match f kq, f qv, tr_ents r with
                         | Some k', Some v', Some r' => Some (E2Q k' v' r')
                         | _, _, _ => None
                         end
  end.
End TrEnts.
(* a bound of a slice: absent is QConst VNull in c01vm2 (compiler.go passes a null term) and None in gojq's AST *)
Definition tr_bound (f : VS.query -> option qz) (o : VS.query) : option (option qz) :=
  match o with VS.QConst VS.VNull => Some None | _ => option_map Some (f o) end.

Definition num_lit (z : Z) : query := q_term (TNumber (print_Z z) (NInt z)).
(* a negative literal -n is the unary minus applied to the literal n (parser.go.y) *)
Definition neg_lit (z : Z) : query :=
  Query [] [] (Some (Term (TUnary OpSub (Term (TNumber (print_Z (- z)) (NInt (- z))) [])) [])) None None None [].
Definition int_lit (z : Z) : query := if (0 <=? z)%Z then num_lit z else neg_lit z.
Definition lit_bound (b : VS.jv) : option (option query) :=
  match b with
  | VS.VNull => Some None
  | VS.VNum z => Some (Some (int_lit z))
  | _ => None
  end.
(* the index syntax of a constant key: ."" , .[n], .[a:b] with literal / absent bounds (the key {"start": a, "end": b}) *)
Definition const_index (k : VS.jv) : option index :=
  match k with
  | VS.VStr [] => Some (Index [] (Some (JString [] None)) None None false)
  | VS.VNum z => Some (Index [] None (Some (int_lit z)) None false)
  | VS.VObj [(ke, e); (ks, s)] =>
      if list_N_eqb ke nm_end && list_N_eqb ks nm_start
      then match lit_bound s, lit_bound e with
           | Some s', Some e' => Some (Index [] None s' e' true)
           | _, _ => None
           end
      else None
  | _ => None
  end.

(* constant arrays (folded by compiler.go into one opconst): [c1, ..., cn] as the array construction [c1, (c2, ...)];
   constant objects are not translated (den returns the literal as written, Sem rebuilds a sorted object) *)
Section TrCommas.
Variable f : VS.jv -> option qz.
Fixpoint tr_commas (l : list VS.jv) : option qz :=
  match l with
  | [] => None
  | x :: r => match r with
              | [] => f x
              | _ => match f x, tr_commas r with Some a, Some b => Some (Z2Comma a b) | _, _ => None end
              end
  end.
End TrCommas.
Fixpoint tr_const (c : VS.jv) : option qz :=
  match c with
  | VS.VNull => Some Z2Null
  | VS.VBool b => Some (Z2Bool b)
  | VS.VNum z => Some (Z2Num (print_Z z) (NInt z))
  | VS.VStr s => Some (Z2Str s)
  | VS.VArr [] => Some Z2EmptyArr
  | VS.VArr l =>
      option_map Z2Array (tr_commas (fun x => tr_const x) l)
  | VS.VObj [] => Some Z2EmptyObj
  | VS.VObj _ => None
  end.

Fixpoint tr (ap : bool) (q : VS.query) {struct q} : option qz :=
  match q with
  | VS.QId => Some Z2Id
  | VS.QConst c => tr_const c
  | VS.QPipe a b => match tr ap a, tr ap b with Some a, Some b => Some (Z2Pipe a b) | _, _ => None end
  | VS.QComma a b => match tr ap a, tr ap b with Some a, Some b => Some (Z2Comma a b) | _, _ => None end
  | VS.QEmpty => Some Z2Empty
  | VS.QIter t => option_map Z2Iter (tr ap t)
  | VS.QIndex t (VS.VStr (c :: k)) => option_map (fun t => Z2Field t c k) (tr ap t)
  | VS.QIndex t k => match const_index k, tr ap t with Some i, Some t' => Some (Z2IndexK t' i) | _, _ => None end
  | VS.QIf c a b => match tr ap c, tr ap a, tr ap b with Some c, Some a, Some b => Some (Z2If c a b) | _, _, _ => None end
  | VS.QTry a None => option_map (fun a => Z2Try a None) (tr ap a)
  | VS.QTry a (Some h) => match tr ap a, tr ap h with Some a, Some h => Some (Z2Try a (Some h)) | _, _ => None end
  | VS.QBind src x body => match tr ap src, tr ap body with Some s, Some b => Some (Z2Bind s (name_of x) b) | _, _ => None end
  | VS.QVar x => Some (Z2Var (name_of x))
  | VS.QCall0 VS.F0Error => Some Z2Error
  | VS.QCall0 VS.F0Length => Some Z2Length
  | VS.QCall0 VS.F0ToString => Some Z2ToString
  | VS.QCall0 VS.F0ToJson => Some Z2ToJson
  | VS.QCall0 _ => None                       (* the formats @html .. @base64, keys, type: not translated *)
  | VS.QCall1 _ _ => None                     (* error(a): not translated *)
  | VS.QArray q => option_map Z2Array (tr ap q)
  | VS.QAlt a b => match tr ap a, tr ap b with Some a, Some b => Some (Z2Alt a b) | _, _ => None end
  | VS.QReduce src (VS.PVar x) init upd =>
      match tr ap src, tr ap init, tr ap upd with
      | Some s, Some i, Some u => Some (Z2Reduce s (name_of x) i u)
      | _, _, _ => None
      end
  | VS.QReduce _ _ _ _ => None                (* reduce with a destructuring pattern: not translated *)
  | VS.QBinop o a b => match tr ap a, tr ap b with Some a, Some b => Some (Z2Binop (op_of o) a b) | _, _ => None end
  | VS.QLabel l b => option_map (Z2Label (name_of l)) (tr ap b)
  | VS.QBreak l => Some (Z2Break (name_of l))
  | VS.QForeach src (VS.PVar x) init upd None =>
      match tr ap src, tr ap init, tr ap upd with
      | Some s, Some i, Some u => Some (Z2Foreach s (name_of x) i u None)
      | _, _, _ => None
      end
  | VS.QForeach src (VS.PVar x) init upd (Some e) =>
      match tr ap src, tr ap init, tr ap upd, tr ap e with
      | Some s, Some i, Some u, Some e => Some (Z2Foreach s (name_of x) i u (Some e))
      | _, _, _, _ => None
      end
  | VS.QForeach _ _ _ _ _ => None             (* foreach with a destructuring pattern: not translated *)
  | VS.QDef _ _ _ _ | VS.QCallF _ _ => None   (* functions: not translated yet *)
  | VS.QObject es => option_map Z2Object (tr_ents (fun x => tr ap x) es)
  | VS.QBindP src p body =>
      match tr ap src, trp ap p, tr ap body with
      | Some s, Some p', Some b => Some (Z2BindP s p' b)
      | _, _, _ => None
      end
  | VS.QIndexQ t iq =>
      match tr ap t, tr ap iq with
      | Some t', Some q' => match query_index_key (emb2 q') with None => Some (Z2IndexQ t' q') | Some _ => None end
      | _, _ => None
      end
  | VS.QSlice t a b =>
      match tr ap t, tr_bound (fun x => tr ap x) a, tr_bound (fun x => tr ap x) b with
      | Some t', Some a', Some b' =>
          match index_key (Index [] None (option_map emb2 a') (option_map emb2 b') true) with
          | None => Some (Z2Slice t' a' b')
          | Some _ => None
          end
      | _, _, _ => None
      end
  end.

(* ---- Sem's natives as an instance of c01vm2's natives record ---- *)
Definition emsg (val : option jv) : VS.err0 :=
  match val with Some (VStr m) => VS.EMsg m | _ => VS.EMsg [] end.
(* where Sem declines (NSkip: float formatting ...) the instance is arbitrary: the theorems say nothing there *)
Definition of_n (r : nres) : VS.jv + VS.err0 :=
  match r with
  | NOk w => inl (unemb w)
  | NErr c val => inr (emsg val)
  | NSkip _ => inr (VS.EMsg [])
  end.
Definition s2_index (w k : VS.jv) : VS.jv + VS.err0 := of_n (fn_index2 (emb_v w) (emb_v k)).
Definition s2_slice (w e s : VS.jv) : VS.jv + VS.err0 := of_n (fn_slice (emb_v w) (emb_v e) (emb_v s)).
Definition s2_iter (w : VS.jv) : list VS.jv + VS.err0 :=
  match w with
  | VS.VArr l => inl l
  | VS.VObj l => inl (map snd l)
  | _ => inr (emsg (msg_iterator (emb_v w)))
  end.
(* the natives the link does not cover yet, by name through Sem's table *)
Definition nat0 (name : string) (v : VS.jv) : VS.jv + VS.err0 :=
  match call_native (codes name) (emb_v v) [] with Some r => of_n r | None => inr (VS.EMsg []) end.
Definition s2_fn0 (f : VS.fn0) (v : VS.jv) : VS.jv + VS.err0 :=
  match f with
  | VS.F0Error => inr (VS.EVal v)
  | VS.F0Length => of_n (fn_length (emb_v v))
  | VS.F0ToString => of_n (fn_tostring (emb_v v))
  | VS.F0ToJson => of_n (fn_tojson (emb_v v))
  | VS.F0ToHtml => nat0 "_tohtml" v | VS.F0ToUri => nat0 "_touri" v | VS.F0ToCsv => nat0 "_tocsv" v
  | VS.F0ToTsv => nat0 "_totsv" v | VS.F0ToSh => nat0 "_tosh" v | VS.F0ToBase64 => nat0 "_tobase64" v
  | VS.F0Keys => nat0 "keys" v | VS.F0Type => nat0 "type" v
  end.
Definition s2_fn1 (f : VS.fn1) (x a : VS.jv) : VS.jv + VS.err0 := match f with VS.F1Error => inr (VS.EVal a) end.
Definition s2_fn2 (o : VS.binop) (v l r : VS.jv) : VS.jv + VS.err0 :=
  match op_binop (op_of o) with
  | Some f => of_n (f (emb_v l) (emb_v r))
  | None => inr (VS.EMsg [])
  end.
Definition sem_natives2 : VC.natives :=
  {| VC.n_index := s2_index; VC.n_iter := s2_iter; VC.n_fn0 := s2_fn0; VC.n_fn2 := s2_fn2; VC.n_slice := s2_slice; VC.n_fn1 := s2_fn1 |}.
