(* FromstreamProofs.v — laws of fromstream over Sem. *)
From Coq Require Import String.
From Coq Require Import List ZArith NArith Bool Lia FunctionalExtensionality.
From Verif Require Import common.Sexp sem.JV sem.Syntax sem.Natives sem.Sem sem.SemProofs sem.BuiltinLaws sem.BuiltinLawsProofs
  sem.BuiltinCalls sem.BuiltinCallsProofs sem.StreamLaws sem.StreamLawsProofs sem.FromstreamLaws.
Import ListNotations.

Ltac red_eval := cbn [evals_n step ev_q step_eval_q push_defs fold_left ev_t step_eval_t rev app ev_index ev_call ev_bindpat ev_string ev_path].
Ltac cbool t := let v := eval vm_compute in t in
                match v with true => change t with true | false => change t with false end.
Ltac closed_bools :=
  repeat match goal with
         | |- context [is_var_name ?x] => cbool (is_var_name x)
         | |- context [list_N_eqb ?x ?y] => cbool (list_N_eqb x y)
         | |- context [is_formatter ?x] => cbool (is_formatter x)
         end.
Ltac ev1 := unfold q_term, q_call, q_bin, q_identity, q_fld, q_str, q_var, q_num, q_arr1, q_len_is, q_setpath; red_eval;
            try unfold step_call at 1;
            cbn [step_eval_index step_call step_bind_pat step_eval_string
                 cps_fold combine fst snd plain List.length Nat.eqb andb orb negb codes lookup_fun lookup_var lookup_label
                 if_chain alts_loop flat_map strip_dollar term_index_key query_index_key index_key term_number op_binop];
            closed_bools.
Ltac ev := repeat (progress ev1).
Ltac rw H := let H' := fresh in pose proof H as H'; unfold undefined_in in H'; cbn [codes] in H'; rewrite H'; clear H'.

Section FS.
Variable bs : list funcdef.
Hypothesis Hsetpath : lookup_builtin bs (codes "setpath") 2 = None.
Hypothesis Hlength : lookup_builtin bs (codes "length") 0 = None.
Hypothesis Hempty : lookup_builtin bs (codes "empty") 0 = None.

(* if .e then null end *)
Lemma fs_reset_eval n rho acc (K0 : K) s :
  eval_q bs (6 + n) rho fs_reset (plain acc) None K0 s = lift (fs_reset_val acc) (fun a => K0 (plain a) None) s.
Proof.
  unfold eval_q, fs_reset, fs_reset_val. cbn [Nat.add]. ev.
  destruct (fn_index2 acc _) as [e|c val|why]; cbn [lift nbind nav fst plain]; try reflexivity.
  destruct (truthy e); reflexivity.
Qed.

(* setpath(a; b) for abstract argument queries that are functions on the input *)
Lemma setpath_gen n rho a b x va vb (K0 : K) s :
  lookup_fun rho (codes "setpath") 2 = None ->
  (forall (K1 : K) st, eval_q bs n rho a (plain x) None K1 st = K1 (plain va) None st) ->
  (forall (K1 : K) st, eval_q bs n rho b (plain x) None K1 st = K1 (plain vb) None st) ->
  eval_q bs (3 + n) rho (q_setpath a b) (plain x) None K0 s = lift (fn_setpath x va vb) (fun w => K0 (plain w) None) s.
Proof.
  intros Hr Ha Hb. unfold eval_q. cbn [Nat.add]. unfold q_setpath, q_call, q_term. red_eval. unfold step_call.
  cbn [List.length]. cbool (is_var_name (codes "setpath")). cbn [andb]. rewrite Hr, Hsetpath.
  unfold guard_repsens. cbool (is_formatter (codes "setpath")). cbv iota.
  cbool (list_N_eqb (codes "setpath") nm_13). cbool (list_N_eqb (codes "setpath") nm_11). cbv iota.
  cbn [rev app cps_fold fst snd].
  change (ev_q (evals_n bs n)) with (eval_q bs n). rewrite Hb. cbv beta. rewrite Ha. cbv beta. cbn [fst plain].
  change (call_native (codes "setpath") x [va; vb]) with (Some (fn_setpath x va vb)). reflexivity.
Qed.

(* [ "s" ] *)
Lemma arr1_str n rho str x (K0 : K) s :
  eval_q bs (5 + n) rho (q_arr1 (q_term (TString (JString str None)))) (plain x) None K0 s = K0 (plain (VArr [VStr str])) None s.
Proof.
  unfold eval_q. cbn [Nat.add]. unfold q_arr1. ev. cbn [scoped_ids].
  rewrite (with_cell_done _ _ _ s (plain (VArr [VStr str])) (nextid s + 1)%N); [reflexivity|].
  change (frame (plain (VArr [])) s) with (st_of s (nextid s + 1) ((nextid s, plain (VArr [])) :: cells s)).
  pose proof (coll_step (nextid s) (cells s) (VStr str) [] (st_of s (nextid s + 1) ((nextid s, plain (VArr [])) :: cells s)) eq_refl) as E1.
  unfold coll in E1. cbn [fst plain] in E1. exact E1.
Qed.

(* $x | length == z   with $x bound to an array *)
Lemma len_is_eval n rho name p t z x (K0 : K) s :
  is_var_name (codes name) = true -> lookup_var rho (codes name) = Some (plain (VArr p)) ->
  lookup_fun rho (codes "length") 0 = None ->
  eval_q bs (8 + n) rho (q_len_is name t z) (plain x) None K0 s = K0 (plain (len_is p z)) None s.
Proof.
  intros Hv Hl Hr. unfold q_len_is. change (8 + n)%nat with (S (7 + n)). rewrite pipe_law.
  transitivity (eval_q bs (7 + n) rho (q_bin (q_call (codes "length") []) OpEq (q_num t z)) (plain (VArr p)) None K0 s).
  - unfold eval_q at 1. cbn [Nat.add]. unfold q_var, q_call, q_term. red_eval. unfold step_call. cbn [List.length].
    rewrite Hv. cbn [andb Nat.eqb]. rewrite Hl. reflexivity.
  - unfold eval_q. cbn [Nat.add]. unfold q_bin, q_num, q_call, q_term. red_eval. cbn [op_binop].
    unfold step_call. cbn [List.length]. cbool (is_var_name (codes "length")). cbn [andb]. rewrite Hr, Hlength.
    unfold guard_repsens. cbool (is_formatter (codes "length")). cbv iota.
    repeat match goal with |- context [list_N_eqb (codes "length") ?y] => cbool (list_N_eqb (codes "length") y) end. cbn [orb]. cbv iota.
    change (call_native (codes "length") (fst (plain (VArr p))) []) with (Some (fn_length (VArr p))).
    reflexivity.
Qed.

Lemma var_eval n rho name xv x ps (K0 : K) s :
  is_var_name (codes name) = true -> lookup_var rho (codes name) = Some xv ->
  eval_q bs (3 + n) rho (q_var name) x ps K0 s = K0 xv ps s.
Proof.
  intros Hv Hl. unfold eval_q. cbn [Nat.add]. unfold q_var, q_call, q_term. red_eval. unfold step_call. cbn [List.length].
  rewrite Hv. cbn [andb Nat.eqb]. rewrite Hl. reflexivity.
Qed.

(* ["v"] + $p *)
Lemma vp_eval n rho p x (K0 : K) s : lookup_var rho (codes "$p") = Some (plain (VArr p)) ->
  eval_q bs (6 + n) rho (q_bin (q_arr1 (q_str "v")) OpAdd (q_var "$p")) (plain x) None K0 s =
  K0 (plain (VArr (VStr (codes "v") :: p))) None s.
Proof.
  intros Hl. transitivity (eval_q bs (5 + n) rho (q_var "$p") (plain x) None
     (fun rv ps1 => eval_q bs (5 + n) rho (q_arr1 (q_str "v")) (plain x) ps1
        (fun lv_ ps2 => lift (binop_add (fst lv_) (fst rv)) (fun w => K0 (plain w) ps2))) s); [reflexivity|].
  change (5 + n)%nat with (3 + (2 + n))%nat at 1. rewrite (var_eval (2 + n) rho "$p" _ _ _ _ _ eq_refl Hl).
  unfold q_str. rewrite arr1_str. reflexivity.
Qed.

Section Step.
Variable farg : query.
Variable p : list jv.
Variable x : jv.   (* the value of $v *)
Variable ev : jv.  (* the event $pv *)
Let rho : env := BVar (codes "$v") (plain x) :: BVar (codes "$p") (plain (VArr p)) ::
                 BVar (codes "$v") (plain VNull) :: BVar (codes "$p") (plain VNull) :: fs_env farg ev.

Lemma fs_then_eval n a (K0 : K) s :
  eval_q bs (12 + n) rho fs_then (plain a) None K0 s =
  lift (nbind (fn_setpath a (VArr (VStr (codes "v") :: p)) x) (fun a1 => fn_setpath a1 (VArr [VStr (codes "e")]) (len_is p 0)))
       (fun w => K0 (plain w) None) s.
Proof.
  unfold fs_then. change (12 + n)%nat with (S (3 + (8 + n))). rewrite pipe_law.
  rewrite (setpath_gen (8 + n) rho _ _ a (VArr (VStr (codes "v") :: p)) x); [|reflexivity| |].
  - destruct (fn_setpath a _ x) as [a1|c val|why]; cbn [lift nbind]; try reflexivity.
    rewrite (setpath_gen (8 + n) rho _ _ a1 (VArr [VStr (codes "e")]) (len_is p 0)); [reflexivity|reflexivity| |].
    + intros K1 st. unfold q_str. change (8 + n)%nat with (5 + (3 + n))%nat. apply arr1_str.
    + intros K1 st. apply (len_is_eval n rho "$p" p "0" 0 a1 K1 st); reflexivity.
  - intros K1 st. change (8 + n)%nat with (6 + (2 + n))%nat. apply vp_eval. reflexivity.
  - intros K1 st. change (8 + n)%nat with (3 + (5 + n))%nat. apply (var_eval (5 + n) rho "$v"); reflexivity.
Qed.

Lemma fs_else_eval n a (K0 : K) s :
  eval_q bs (11 + n) rho fs_else (plain a) None K0 s =
  lift (fn_setpath a (VArr [VStr (codes "e")]) (len_is p 1)) (fun w => K0 (plain w) None) s.
Proof.
  unfold fs_else. change (11 + n)%nat with (3 + (8 + n))%nat.
  rewrite (setpath_gen (8 + n) rho _ _ a (VArr [VStr (codes "e")]) (len_is p 1)); [reflexivity|reflexivity| |].
  - intros K1 st. unfold q_str. change (8 + n)%nat with (5 + (3 + n))%nat. apply arr1_str.
  - intros K1 st. apply (len_is_eval n rho "$p" p "1" 1 a K1 st); reflexivity.
Qed.
End Step.

(* if c then a else b end  for abstract c, a, b *)
Lemma if_gen n rho c th el v ps (K0 : K) :
  eval_q bs (2 + n) rho (q_term (TIf c th [] (Some el))) v ps K0 =
  eval_q bs n rho c v None (fun x _ => if truthy (fst x) then eval_q bs n rho th v ps K0 else eval_q bs n rho el v ps K0).
Proof. reflexivity. Qed.

Definition upd_env (farg : query) (w0 w1 ev : jv) : env :=
  BVar (codes "$v") (plain w1) :: BVar (codes "$p") (plain w0) ::
  BVar (codes "$v") (plain VNull) :: BVar (codes "$p") (plain VNull) :: fs_env farg ev.

Lemma syn_depth_SS : exists d, syn_depth = S (S d).
Proof. eexists. vm_compute. reflexivity. Qed.

Definition pat_pv : pattern := Pattern [] [Pattern (codes "$p") [] []; Pattern (codes "$v") [] []] [].

(* g as [$p, $v] | body   for abstract g and body *)
Lemma bind2_gen n rho g body v ps (K0 : K) :
  eval_q bs (2 + n) rho (Query [] [] None (Some g) (Some OpPipe) (Some body) [pat_pv]) v ps K0 =
  eval_q bs (1 + n) rho g v None
    (fun xv _ => ev_bindpat (evals_n bs (1 + n))
                   (BVar (codes "$v") (plain VNull) :: BVar (codes "$p") (plain VNull) :: rho) pat_pv xv None
                   (fun rho' _ => eval_q bs (1 + n) rho' body v ps K0)).
Proof.
  unfold eval_q, pat_pv. cbn [Nat.add]. red_eval.
  destruct syn_depth_SS as [d Hd]. rewrite Hd.
  cbn [pattern_vars flat_map app fold_left alts_loop codes]. reflexivity.
Qed.

(* destructuring an array into $p, $v *)
Lemma bindpat_pv n rho evl w0 w1 (KB : env -> pst -> M unit) s :
  fn_indexarray (VArr evl) 0 = NOk w0 -> fn_indexarray (VArr evl) 1 = NOk w1 ->
  ev_bindpat (evals_n bs (2 + n)) rho pat_pv (plain (VArr evl)) None KB s =
  KB (BVar (codes "$v") (plain w1) :: BVar (codes "$p") (plain w0) :: rho) None s.
Proof.
  intros H0 H1. unfold pat_pv. cbn [Nat.add evals_n step ev_bindpat step_bind_pat codes cps_fold fst snd plain].
  rewrite H0. cbn [lift nav ev_bindpat step step_bind_pat codes fst snd]. change (0 + 1)%Z with 1%Z.
  rewrite H1. cbn [lift nav ev_bindpat step step_bind_pat codes fst snd]. reflexivity.
Qed.

Lemma bind2_eval n farg evl w0 w1 body a (K0 : K) s :
  fn_indexarray (VArr evl) 0 = NOk w0 -> fn_indexarray (VArr evl) 1 = NOk w1 ->
  eval_q bs (8 + n) (fs_env farg (VArr evl)) (Query [] [] None (Some (q_var "$pv")) (Some OpPipe) (Some body) [pat_pv])
         (plain a) None K0 s =
  eval_q bs (7 + n) (BVar (codes "$v") (plain w1) :: BVar (codes "$p") (plain w0) ::
                     BVar (codes "$v") (plain VNull) :: BVar (codes "$p") (plain VNull) :: fs_env farg (VArr evl))
         body (plain a) None K0 s.
Proof.
  intros H0 H1. change (8 + n)%nat with (2 + (6 + n))%nat. rewrite bind2_gen.
  change (1 + (6 + n))%nat with (3 + (4 + n))%nat at 1.
  rewrite (var_eval (4 + n) (fs_env farg (VArr evl)) "$pv" (plain (VArr evl)) _ _ _ _ eq_refl eq_refl).
  change (1 + (6 + n))%nat with (2 + (5 + n))%nat at 1.
  rewrite (bindpat_pv (5 + n) _ evl w0 w1 _ s H0 H1). reflexivity.
Qed.

(* THE UPDATE of fromstream on a two-element event [p, x]: a function of the accumulator *)
Lemma fs_upd2_eval n farg p x acc (K0 : K) s :
  eval_q bs (16 + n) (fs_env farg (VArr [VArr p; x])) fs_upd (plain acc) None K0 s =
  lift (fs_step2 acc p x) (fun w => K0 (plain w) None) s.
Proof.
  unfold fs_upd. change (16 + n)%nat with (S (6 + (9 + n))). rewrite pipe_law. rewrite fs_reset_eval.
  unfold fs_step2. destruct (fs_reset_val acc) as [a|c val|why]; cbn [lift nbind]; try reflexivity.
  unfold fs_bind. change (6 + (9 + n))%nat with (8 + (7 + n))%nat.
  change (Query [] [] None (Some (q_var "$pv")) (Some OpPipe) (Some fs_if)
            [Pattern [] [Pattern (codes "$p") [] []; Pattern (codes "$v") [] []] []])
    with (Query [] [] None (Some (q_var "$pv")) (Some OpPipe) (Some fs_if) [pat_pv]).
  rewrite (bind2_eval (7 + n) farg [VArr p; x] (VArr p) x fs_if a K0 s eq_refl eq_refl).
  unfold fs_if. change (7 + (7 + n))%nat with (2 + (12 + n))%nat. rewrite if_gen.
  change (12 + n)%nat with (8 + (4 + n))%nat at 1.
  rewrite (len_is_eval (4 + n) (upd_env farg (VArr p) x (VArr [VArr p; x])) "$pv" [VArr p; x] "2" 2 a _ s eq_refl eq_refl eq_refl).
  change (truthy (fst (plain (len_is [VArr p; x] 2)))) with true. cbv iota.
  change (8 + (4 + n))%nat with (12 + n)%nat. apply fs_then_eval.
Qed.

(* ... and on a one-element (closing) event [p] *)
Lemma fs_upd1_eval n farg p acc (K0 : K) s :
  eval_q bs (16 + n) (fs_env farg (VArr [VArr p])) fs_upd (plain acc) None K0 s =
  lift (fs_step1 acc p) (fun w => K0 (plain w) None) s.
Proof.
  unfold fs_upd. change (16 + n)%nat with (S (6 + (9 + n))). rewrite pipe_law. rewrite fs_reset_eval.
  unfold fs_step1. destruct (fs_reset_val acc) as [a|c val|why]; cbn [lift nbind]; try reflexivity.
  unfold fs_bind. change (6 + (9 + n))%nat with (8 + (7 + n))%nat.
  change (Query [] [] None (Some (q_var "$pv")) (Some OpPipe) (Some fs_if)
            [Pattern [] [Pattern (codes "$p") [] []; Pattern (codes "$v") [] []] []])
    with (Query [] [] None (Some (q_var "$pv")) (Some OpPipe) (Some fs_if) [pat_pv]).
  rewrite (bind2_eval (7 + n) farg [VArr p] (VArr p) VNull fs_if a K0 s eq_refl eq_refl).
  unfold fs_if. change (7 + (7 + n))%nat with (2 + (12 + n))%nat. rewrite if_gen.
  change (12 + n)%nat with (8 + (4 + n))%nat at 1.
  rewrite (len_is_eval (4 + n) (upd_env farg (VArr p) VNull (VArr [VArr p])) "$pv" [VArr p] "2" 2 a _ s eq_refl eq_refl eq_refl).
  change (truthy (fst (plain (len_is [VArr p] 2)))) with false. cbv iota.
  change (8 + (4 + n))%nat with (11 + (1 + n))%nat. apply fs_else_eval.
Qed.

(* THE EXTRACTION: if .e then .v else empty end *)
Lemma fs_ext_eval n rho u ps (K0 : K) s : lookup_fun rho (codes "empty") 0 = None ->
  eval_q bs (6 + n) rho fs_ext (plain u) ps K0 s =
  lift (fn_index2 u (VStr (codes "e")))
       (fun e => if truthy e then lift (fn_index2 u (VStr (codes "v"))) (fun w => nav ps (plain u) (VStr (codes "v")) w K0)
                 else ret tt) s.
Proof.
  intros Hr. unfold eval_q, fs_ext. cbn [Nat.add]. ev.
  destruct (fn_index2 u _) as [e|c val|why]; cbn [lift nav fst plain]; try reflexivity.
  destruct (truthy e); [reflexivity|]. rw Hr. rw Hempty. unfold guard_repsens. ev. reflexivity.
Qed.

Hypothesis Hfs : lookup_builtin bs (codes "fromstream") 1 = Some fromstream_def.

(* THE CALL LAW of fromstream(f), any f, input, path state, consumer: a cell holding null; for every output of f
   (run on the input, in the caller's path mode) the update on the cell's content, the result stored, the extraction
   handed to the consumer *)
Lemma fromstream_call m farg v ps (k : K) :
  eval_q bs (10 + m) [] (q_call (codes "fromstream") [farg]) v ps k =
  (tick ;;
   with_cell (scoped_ids ps) (plain VNull)
     (fun c => tick ;;
        eval_q bs (2 + m) [] farg v ps
          (fun item ps1 =>
             cur <- get_cell c ;;
             eval_q bs (5 + m) [BVar (codes "$pv") item; BClos (codes "f") farg []] fs_upd cur ps1
               (fun u ps3 => set_cell c u ;;
                             eval_q bs (5 + m) [BVar (codes "$pv") item; BClos (codes "f") farg []] fs_ext u ps3 k)))
     (fun _ => ret tt)).
Proof.
  change (10 + m)%nat with (3 + (7 + m))%nat.
  rewrite (builtin_call_unfold bs (7 + m) [] (codes "fromstream") [farg] _ _ _ v ps k eq_refl eq_refl Hfs).
  unfold bind_params, closures. cbn [combine fold_left cps_fold fst snd]. cbool (is_var_name (codes "f")). cbv iota.
  change (strip_dollar (codes "f")) with (codes "f").
  change (eval_q bs (7 + m) [BClos (codes "f") farg []]
            (q_term (TForeach (q_call (codes "f") []) (Pattern (codes "$pv") [] []) (q_term TNull) fs_upd (Some fs_ext))) v ps k)
    with (eval_t bs (S (5 + m)) [BClos (codes "f") farg []]
            (Term (TForeach (q_call (codes "f") []) (Pattern (codes "$pv") [] []) (q_term TNull) fs_upd (Some fs_ext)) []) v ps k).
  rewrite (foreach_unfold bs (5 + m)). reflexivity.
Time Qed.

(* the consumer fromstream installs for the outputs of f, on a two-element / one-element event *)
Definition fs_cont (n : nat) (farg : query) (c : N) (k : K) : K := fun item ps1 =>
  cur <- get_cell c ;;
  eval_q bs (16 + n) [BVar (codes "$pv") item; BClos (codes "f") farg []] fs_upd cur ps1
    (fun u ps3 => set_cell c u ;; eval_q bs (16 + n) [BVar (codes "$pv") item; BClos (codes "f") farg []] fs_ext u ps3 k).

Lemma fs_tail_eval n farg ev c k (st : nres) s :
  lift st (fun u => set_cell c (plain u) ;;
                    eval_q bs (16 + n) [BVar (codes "$pv") (plain ev); BClos (codes "f") farg []] fs_ext (plain u) None k) s =
  lift st (fun u => set_cell c (plain u) ;; fs_emit k u) s.
Proof.
  destruct st as [u|c0 val|why]; cbn [lift]; try reflexivity.
  unfold bind. destruct (set_cell c (plain u) s) as [[[]|e] s1]; [|reflexivity].
  change (16 + n)%nat with (6 + (10 + n))%nat. rewrite fs_ext_eval by reflexivity. reflexivity.
Qed.

(* ONE STEP on a two-element event, from a state whose cell c holds the (plain) accumulator acc *)
Lemma fs_cont2 n farg c k p x acc s : cell_lookup (cells s) c = Some (plain acc) ->
  fs_cont n farg c k (plain (VArr [VArr p; x])) None s =
  lift (fs_step2 acc p x) (fun u => set_cell c (plain u) ;; fs_emit k u) s.
Proof.
  intros Hc. unfold fs_cont, bind at 1. unfold get_cell. rewrite Hc.
  change [BVar (codes "$pv") (plain (VArr [VArr p; x])); BClos (codes "f") farg []] with (fs_env farg (VArr [VArr p; x])).
  rewrite fs_upd2_eval. apply (fs_tail_eval n farg (VArr [VArr p; x]) c k).
Qed.

(* ... and on a one-element (closing) event *)
Lemma fs_cont1 n farg c k p acc s : cell_lookup (cells s) c = Some (plain acc) ->
  fs_cont n farg c k (plain (VArr [VArr p])) None s =
  lift (fs_step1 acc p) (fun u => set_cell c (plain u) ;; fs_emit k u) s.
Proof.
  intros Hc. unfold fs_cont, bind at 1. unfold get_cell. rewrite Hc.
  change [BVar (codes "$pv") (plain (VArr [VArr p])); BClos (codes "f") farg []] with (fs_env farg (VArr [VArr p])).
  rewrite fs_upd1_eval. apply (fs_tail_eval n farg (VArr [VArr p]) c k).
Qed.
End FS.

(* for a table with the pins *)
Theorem fromstream_call_sem bs : fromstream_pins bs -> forall n farg v ps (k : K),
  eval_q bs (21 + n) [] (q_call (codes "fromstream") [farg]) v ps k =
  (tick ;; with_cell (scoped_ids ps) (plain VNull)
             (fun c => tick ;; eval_q bs (13 + n) [] farg v ps (fs_cont bs n farg c k))
             (fun _ => ret tt)).
Proof.
  intros (H1 & H2 & H3 & H4) n farg v ps k.
  exact (fromstream_call bs H1 (11 + n) farg v ps k).
Qed.

Theorem fromstream_step_sem bs : fromstream_pins bs -> forall n farg c (k : K) p acc s,
  cell_lookup (cells s) c = Some (plain acc) ->
  (forall x, fs_cont bs n farg c k (plain (VArr [VArr p; x])) None s =
             lift (fs_step2 acc p x) (fun u => set_cell c (plain u) ;; fs_emit k u) s) /\
  fs_cont bs n farg c k (plain (VArr [VArr p])) None s =
  lift (fs_step1 acc p) (fun u => set_cell c (plain u) ;; fs_emit k u) s.
Proof.
  intros (H1 & H2 & H3 & H4) n farg c k p acc s Hc. split.
  - intros x. apply fs_cont2; assumption.
  - apply fs_cont1; assumption.
Qed.
