(* AstDecode.v — transport: s-expression (coq/common/Sexp.v) <-> AST (Syntax.v) and values (JV.v).
   The encoder is harness/sem/ast.go (see docs/SEM.md "Transport").  Definitions only.

   bytes         hex atom, "-" for the empty string
   optional x    "_" for nil
   query         (q (<import>..) (<funcdef>..) <term|_> <query|_> <op|_> <query|_> (<pattern>..))
   import        (<hex> <hex> <hex>)
   funcdef       (<hexname> (<hexarg>..) <query>)
   term          (<kind> payload... (<suffix>..))       kinds below
   index         (<hexname> <jstring|_> <query|_> <query|_> <t|f>)
   func          (<hexname> (<query>..))
   jstring       (<hexstr> <_|(<query>..)>)
   objectkeyval  (<hexkey> <jstring|_> <query|_> <query|_>)
   suffix        (<index|_> <t|f> <t|f>)
   pattern       (<hexname> (<pattern>..) (<patternobject>..))
   patternobject (<hexkey> <jstring|_> <query|_> <pattern|_>)
   values        null true false (i <dec>) (b <dec>) (f <bits>) (s <hex>) (a v..) (o (<hexkey> v)..)   *)
From Coq Require Import String.
From Coq Require Import List ZArith NArith Bool.
From Verif Require Import common.Sexp sem.JV sem.Syntax.
Import ListNotations.

Definition is_nil (e : sexp) : bool := atom_is "_" e.

Definition dec_bytes (e : sexp) : option bytes :=
  match e with Atom a => parse_hexs a | _ => None end.

Definition dec_bool (e : sexp) : option bool :=
  if atom_is "t" e then Some true else if atom_is "f" e then Some false else None.

Fixpoint map_opt {A B} (f : A -> option B) (l : list A) : option (list B) :=
  match l with
  | [] => Some []
  | x :: r => match f x, map_opt f r with Some y, Some ys => Some (y :: ys) | _, _ => None end
  end.

Definition dec_opt {A} (f : sexp -> option A) (e : sexp) : option (option A) :=
  if is_nil e then Some None else option_map Some (f e).

Definition dec_list {A} (f : sexp -> option A) (e : sexp) : option (list A) :=
  match e with SList l => map_opt f l | _ => None end.

Definition dec_op (e : sexp) : option operator :=
  if atom_is "pipe" e then Some OpPipe else if atom_is "comma" e then Some OpComma
  else if atom_is "add" e then Some OpAdd else if atom_is "sub" e then Some OpSub
  else if atom_is "mul" e then Some OpMul else if atom_is "div" e then Some OpDiv
  else if atom_is "mod" e then Some OpMod else if atom_is "eq" e then Some OpEq
  else if atom_is "ne" e then Some OpNe else if atom_is "gt" e then Some OpGt
  else if atom_is "lt" e then Some OpLt else if atom_is "ge" e then Some OpGe
  else if atom_is "le" e then Some OpLe else if atom_is "and" e then Some OpAnd
  else if atom_is "or" e then Some OpOr else if atom_is "alt" e then Some OpAlt
  else if atom_is "assign" e then Some OpAssign else if atom_is "modify" e then Some OpModify
  else if atom_is "uadd" e then Some OpUpdateAdd else if atom_is "usub" e then Some OpUpdateSub
  else if atom_is "umul" e then Some OpUpdateMul else if atom_is "udiv" e then Some OpUpdateDiv
  else if atom_is "umod" e then Some OpUpdateMod else if atom_is "ualt" e then Some OpUpdateAlt
  else None.

Definition dec_num (e : sexp) : option num :=
  match e with
  | SList [t; Atom v] =>
      if atom_is "i" t || atom_is "b" t then option_map NInt (parse_Z v)
      else if atom_is "f" t then option_map (fun z => NFlt (f_of_bits z)) (parse_Z v)
      else None
  | _ => None
  end.

Definition dec_import (e : sexp) : option import :=
  match e with
  | SList [a; b; c] =>
      match dec_bytes a, dec_bytes b, dec_bytes c with
      | Some a, Some b, Some c => Some (Import a b c)
      | _, _, _ => None
      end
  | _ => None
  end.

(* [n] bounds the nesting depth; the caller passes the length of the line *)
Fixpoint dec_query (n : nat) (e : sexp) : option query :=
  match n with O => None | S n =>
  match e with
  | SList [tag; imps; fds; t; l; o; r; pats] =>
      if atom_is "q" tag then
        match dec_list dec_import imps, dec_list (dec_funcdef n) fds, dec_opt (dec_term n) t,
              dec_opt (dec_query n) l, dec_opt dec_op o, dec_opt (dec_query n) r,
              dec_list (dec_pattern n) pats with
        | Some imps, Some fds, Some t, Some l, Some o, Some r, Some pats => Some (Query imps fds t l o r pats)
        | _, _, _, _, _, _, _ => None
        end
      else None
  | _ => None
  end end
with dec_funcdef (n : nat) (e : sexp) : option funcdef :=
  match n with O => None | S n =>
  match e with
  | SList [nm; args; body] =>
      match dec_bytes nm, dec_list dec_bytes args, dec_query n body with
      | Some nm, Some args, Some body => Some (FuncDef nm args body)
      | _, _, _ => None
      end
  | _ => None
  end end
with dec_term (n : nat) (e : sexp) : option term :=
  match n with O => None | S n =>
  let sfx (s : sexp) := dec_list (dec_suffix n) s in
  let mk (k : option termkind) (s : sexp) :=
    match k, sfx s with Some k, Some s => Some (Term k s) | _, _ => None end in
  match e with
  | SList [k; s] =>
      if atom_is "identity" k then mk (Some TIdentity) s
      else if atom_is "recurse" k then mk (Some TRecurse) s
      else if atom_is "null" k then mk (Some TNull) s
      else if atom_is "true" k then mk (Some TTrue) s
      else if atom_is "false" k then mk (Some TFalse) s
      else None
  | SList [k; a; s] =>
      if atom_is "index" k then mk (option_map TIndex (dec_index n a)) s
      else if atom_is "func" k then mk (option_map TFunc (dec_func n a)) s
      else if atom_is "object" k then mk (option_map TObject (dec_list (dec_kv n) a)) s
      else if atom_is "array" k then mk (option_map TArray (dec_opt (dec_query n) a)) s
      else if atom_is "string" k then mk (option_map TString (dec_jstring n a)) s
      else if atom_is "break" k then mk (option_map TBreak (dec_bytes a)) s
      else if atom_is "query" k then mk (option_map TQuery (dec_query n a)) s
      else None
  | SList [k; a; b; s] =>
      if atom_is "number" k then
        mk (match dec_bytes a, dec_num b with Some a, Some b => Some (TNumber a b) | _, _ => None end) s
      else if atom_is "unary" k then
        mk (match dec_op a, dec_term n b with Some a, Some b => Some (TUnary a b) | _, _ => None end) s
      else if atom_is "format" k then
        mk (match dec_bytes a, dec_opt (dec_jstring n) b with Some a, Some b => Some (TFormat a b) | _, _ => None end) s
      else if atom_is "try" k then
        mk (match dec_query n a, dec_opt (dec_query n) b with Some a, Some b => Some (TTry a b) | _, _ => None end) s
      else if atom_is "label" k then
        mk (match dec_bytes a, dec_query n b with Some a, Some b => Some (TLabel a b) | _, _ => None end) s
      else None
  | SList [k; a; b; c; d; s] =>
      if atom_is "if" k then
        let dec_elif (x : sexp) := match x with
                                   | SList [p; q] => match dec_query n p, dec_query n q with
                                                     | Some p, Some q => Some (p, q) | _, _ => None end
                                   | _ => None end in
        mk (match dec_query n a, dec_query n b, dec_list dec_elif c, dec_opt (dec_query n) d with
            | Some a, Some b, Some c, Some d => Some (TIf a b c d) | _, _, _, _ => None end) s
      else if atom_is "reduce" k then
        mk (match dec_query n a, dec_pattern n b, dec_query n c, dec_query n d with
            | Some a, Some b, Some c, Some d => Some (TReduce a b c d) | _, _, _, _ => None end) s
      else None
  | SList [k; a; b; c; d; x; s] =>
      if atom_is "foreach" k then
        mk (match dec_query n a, dec_pattern n b, dec_query n c, dec_query n d, dec_opt (dec_query n) x with
            | Some a, Some b, Some c, Some d, Some x => Some (TForeach a b c d x) | _, _, _, _, _ => None end) s
      else None
  | _ => None
  end end
with dec_index (n : nat) (e : sexp) : option index :=
  match n with O => None | S n =>
  match e with
  | SList [nm; str; st; en; sl] =>
      match dec_bytes nm, dec_opt (dec_jstring n) str, dec_opt (dec_query n) st, dec_opt (dec_query n) en, dec_bool sl with
      | Some nm, Some str, Some st, Some en, Some sl => Some (Index nm str st en sl)
      | _, _, _, _, _ => None
      end
  | _ => None
  end end
with dec_func (n : nat) (e : sexp) : option func :=
  match n with O => None | S n =>
  match e with
  | SList [nm; args] =>
      match dec_bytes nm, dec_list (dec_query n) args with
      | Some nm, Some args => Some (Func nm args)
      | _, _ => None
      end
  | _ => None
  end end
with dec_jstring (n : nat) (e : sexp) : option jstring :=
  match n with O => None | S n =>
  match e with
  | SList [s; qs] =>
      match dec_bytes s, dec_opt (dec_list (dec_query n)) qs with
      | Some s, Some qs => Some (JString s qs)
      | _, _ => None
      end
  | _ => None
  end end
with dec_kv (n : nat) (e : sexp) : option objectkeyval :=
  match n with O => None | S n =>
  match e with
  | SList [k; ks; kq; v] =>
      match dec_bytes k, dec_opt (dec_jstring n) ks, dec_opt (dec_query n) kq, dec_opt (dec_query n) v with
      | Some k, Some ks, Some kq, Some v => Some (ObjectKeyVal k ks kq v)
      | _, _, _, _ => None
      end
  | _ => None
  end end
with dec_suffix (n : nat) (e : sexp) : option suffix :=
  match n with O => None | S n =>
  match e with
  | SList [i; it; op] =>
      match dec_opt (dec_index n) i, dec_bool it, dec_bool op with
      | Some i, Some it, Some op => Some (Suffix i it op)
      | _, _, _ => None
      end
  | _ => None
  end end
with dec_pattern (n : nat) (e : sexp) : option pattern :=
  match n with O => None | S n =>
  match e with
  | SList [nm; arr; obj] =>
      match dec_bytes nm, dec_list (dec_pattern n) arr, dec_list (dec_patobj n) obj with
      | Some nm, Some arr, Some obj => Some (Pattern nm arr obj)
      | _, _, _ => None
      end
  | _ => None
  end end
with dec_patobj (n : nat) (e : sexp) : option patternobject :=
  match n with O => None | S n =>
  match e with
  | SList [k; ks; kq; v] =>
      match dec_bytes k, dec_opt (dec_jstring n) ks, dec_opt (dec_query n) kq, dec_opt (dec_pattern n) v with
      | Some k, Some ks, Some kq, Some v => Some (PatternObject k ks kq v)
      | _, _, _, _ => None
      end
  | _ => None
  end end.

(* ------------------------------------------------------------------------------------------ *)
(* values *)

Fixpoint dec_jv (n : nat) (e : sexp) : option jv :=
  match n with O => None | S n =>
  match e with
  | Atom _ =>
      if atom_is "null" e then Some VNull
      else if atom_is "true" e then Some (VBool true)
      else if atom_is "false" e then Some (VBool false)
      else None
  | SList (t :: rest) =>
      if atom_is "a" t then option_map VArr (map_opt (dec_jv n) rest)
      else if atom_is "o" t then
        option_map VObj (map_opt (fun kv => match kv with
                                            | SList [k; v] => match dec_bytes k, dec_jv n v with
                                                              | Some k, Some v => Some (k, v) | _, _ => None end
                                            | _ => None end) rest)
      else if atom_is "s" t then
        match rest with [x] => option_map VStr (dec_bytes x) | _ => None end
      else option_map VNum (dec_num e)
  | _ => None
  end end.

Fixpoint enc_jv (v : jv) : sexp :=
  match v with
  | VNull => A "null"
  | VBool true => A "true"
  | VBool false => A "false"
  | VNum (NInt z) => SList [A "i"; Atom (print_Z z)]
  | VNum (NFlt f) => SList [A "f"; Atom (print_Z (f_bits f))]
  | VStr s => SList [A "s"; Atom (print_hexs s)]
  | VArr l => SList (A "a" :: map enc_jv l)
  | VObj kvs => SList (A "o" :: map (fun kv => SList [Atom (print_hexs (fst kv)); enc_jv (snd kv)]) kvs)
  end.

(* objects arrive sorted from the harness; re-sorting here keeps the invariant independent of it *)
Fixpoint normalize (v : jv) : jv :=
  match v with
  | VArr l => VArr (map normalize l)
  | VObj kvs => VObj (fold_left (fun acc kv => obj_set acc (fst kv) (normalize (snd kv))) kvs [])
  | _ => v
  end.
