(* AstDecode.v — transport: s-expression (coq/common/Sexp.v) <-> AST (Syntax.v) and values (JV.v).
   The encoder is harness/sem/ast.go (see docs/SEM.md "Transport").  Definitions only.

   bytes         hex atom, "-" for the empty string
   optional x    "_" for nil
   query         (q (<import>..) (<funcdef>..) <term|_> <query|_> <op|_> <query|_> (<pattern>..))
   import        (<hex> <hex> <hex>)
   funcdef       (<hexname> (<hexarg>..) <query>)
   term          (<kind> payload... (<suffix>..))       kinds below
   index         (<hexname> <jstring|_> <query|_> <query|_> <t|f>)
   func          (<hexname> (<query>..))
   jstring       (<hexstr> <_|(<query>..)>)
   objectkeyval  (<hexkey> <jstring|_> <query|_> <query|_>)
   suffix        (<index|_> <t|f> <t|f>)
   pattern       (<hexname> (<pattern>..) (<patternobject>..))
   patternobject (<hexkey> <jstring|_> <query|_> <pattern|_>)
   values        null true false (i <dec>) (b <dec>) (f <bits>) (s <hex>) (a v..) (o (<hexkey> v)..)   *)
From Coq Require Import String.
From Coq Require Import List ZArith NArith Bool.
From Verif Require Import common.Sexp sem.JV sem.Syntax.
Import ListNotations.

(* tag constants (converted once) *)
Definition tg_nil : bytes := codes "_".
Definition tg_a : bytes := codes "a".
Definition tg_add : bytes := codes "add".
Definition tg_alt : bytes := codes "alt".
Definition tg_and : bytes := codes "and".
Definition tg_array : bytes := codes "array".
Definition tg_assign : bytes := codes "assign".
Definition tg_b : bytes := codes "b".
Definition tg_break : bytes := codes "break".
Definition tg_comma : bytes := codes "comma".
Definition tg_div : bytes := codes "div".
Definition tg_eq : bytes := codes "eq".
Definition tg_f : bytes := codes "f".
Definition tg_false : bytes := codes "false".
Definition tg_foreach : bytes := codes "foreach".
Definition tg_format : bytes := codes "format".
Definition tg_func : bytes := codes "func".
Definition tg_ge : bytes := codes "ge".
Definition tg_gt : bytes := codes "gt".
Definition tg_i : bytes := codes "i".
Definition tg_identity : bytes := codes "identity".
Definition tg_if : bytes := codes "if".
Definition tg_index : bytes := codes "index".
Definition tg_label : bytes := codes "label".
Definition tg_le : bytes := codes "le".
Definition tg_lt : bytes := codes "lt".
Definition tg_mod : bytes := codes "mod".
Definition tg_modify : bytes := codes "modify".
Definition tg_mul : bytes := codes "mul".
Definition tg_ne : bytes := codes "ne".
Definition tg_null : bytes := codes "null".
Definition tg_number : bytes := codes "number".
Definition tg_o : bytes := codes "o".
Definition tg_object : bytes := codes "object".
Definition tg_or : bytes := codes "or".
Definition tg_pipe : bytes := codes "pipe".
Definition tg_q : bytes := codes "q".
Definition tg_query : bytes := codes "query".
Definition tg_recurse : bytes := codes "recurse".
Definition tg_reduce : bytes := codes "reduce".
Definition tg_s : bytes := codes "s".
Definition tg_string : bytes := codes "string".
Definition tg_sub : bytes := codes "sub".
Definition tg_t : bytes := codes "t".
Definition tg_true : bytes := codes "true".
Definition tg_try : bytes := codes "try".
Definition tg_uadd : bytes := codes "uadd".
Definition tg_ualt : bytes := codes "ualt".
Definition tg_udiv : bytes := codes "udiv".
Definition tg_umod : bytes := codes "umod".
Definition tg_umul : bytes := codes "umul".
Definition tg_unary : bytes := codes "unary".
Definition tg_usub : bytes := codes "usub".
Definition is_tag (c : bytes) (e : sexp) : bool := match e with Atom a => list_N_eqb a c | _ => false end.

Definition is_nil (e : sexp) : bool := is_tag tg_nil e.

Definition dec_bytes (e : sexp) : option bytes :=
  match e with Atom a => parse_hexs a | _ => None end.

Definition dec_bool (e : sexp) : option bool :=
  if is_tag tg_t e then Some true else if is_tag tg_f e then Some false else None.

Fixpoint map_opt {A B} (f : A -> option B) (l : list A) : option (list B) :=
  match l with
  | [] => Some []
  | x :: r => match f x, map_opt f r with Some y, Some ys => Some (y :: ys) | _, _ => None end
  end.

Definition dec_opt {A} (f : sexp -> option A) (e : sexp) : option (option A) :=
  if is_nil e then Some None else option_map Some (f e).

Definition dec_list {A} (f : sexp -> option A) (e : sexp) : option (list A) :=
  match e with SList l => map_opt f l | _ => None end.

Definition dec_op (e : sexp) : option operator :=
  if is_tag tg_pipe e then Some OpPipe else if is_tag tg_comma e then Some OpComma
  else if is_tag tg_add e then Some OpAdd else if is_tag tg_sub e then Some OpSub
  else if is_tag tg_mul e then Some OpMul else if is_tag tg_div e then Some OpDiv
  else if is_tag tg_mod e then Some OpMod else if is_tag tg_eq e then Some OpEq
  else if is_tag tg_ne e then Some OpNe else if is_tag tg_gt e then Some OpGt
  else if is_tag tg_lt e then Some OpLt else if is_tag tg_ge e then Some OpGe
  else if is_tag tg_le e then Some OpLe else if is_tag tg_and e then Some OpAnd
  else if is_tag tg_or e then Some OpOr else if is_tag tg_alt e then Some OpAlt
  else if is_tag tg_assign e then Some OpAssign else if is_tag tg_modify e then Some OpModify
  else if is_tag tg_uadd e then Some OpUpdateAdd else if is_tag tg_usub e then Some OpUpdateSub
  else if is_tag tg_umul e then Some OpUpdateMul else if is_tag tg_udiv e then Some OpUpdateDiv
  else if is_tag tg_umod e then Some OpUpdateMod else if is_tag tg_ualt e then Some OpUpdateAlt
  else None.

Definition dec_num (e : sexp) : option num :=
  match e with
  | SList [t; Atom v] =>
      if is_tag tg_i t || is_tag tg_b t then option_map NInt (parse_Z v)
      else if is_tag tg_f t then option_map (fun z => NFlt (f_of_bits z)) (parse_Z v)
      else None
  | _ => None
  end.

Definition dec_import (e : sexp) : option import :=
  match e with
  | SList [a; b; c] =>
      match dec_bytes a, dec_bytes b, dec_bytes c with
      | Some a, Some b, Some c => Some (Import a b c)
      | _, _, _ => None
      end
  | _ => None
  end.

(* [n] bounds the nesting depth; the caller passes the length of the line *)
Fixpoint dec_query (n : nat) (e : sexp) : option query :=
  match n with O => None | S n =>
  match e with
  | SList [tag; imps; fds; t; l; o; r; pats] =>
      if is_tag tg_q tag then
        match dec_list dec_import imps, dec_list (dec_funcdef n) fds, dec_opt (dec_term n) t,
              dec_opt (dec_query n) l, dec_opt dec_op o, dec_opt (dec_query n) r,
              dec_list (dec_pattern n) pats with
        | Some imps, Some fds, Some t, Some l, Some o, Some r, Some pats => Some (Query imps fds t l o r pats)
        | _, _, _, _, _, _, _ => None
        end
      else None
  | _ => None
  end end
with dec_funcdef (n : nat) (e : sexp) : option funcdef :=
  match n with O => None | S n =>
  match e with
  | SList [nm; args; body] =>
      match dec_bytes nm, dec_list dec_bytes args, dec_query n body with
      | Some nm, Some args, Some body => Some (FuncDef nm args body)
      | _, _, _ => None
      end
  | _ => None
  end end
with dec_term (n : nat) (e : sexp) : option term :=
  match n with O => None | S n =>
  let sfx (s : sexp) := dec_list (dec_suffix n) s in
  let mk (k : option termkind) (s : sexp) :=
    match k, sfx s with Some k, Some s => Some (Term k s) | _, _ => None end in
  match e with
  | SList [k; s] =>
      if is_tag tg_identity k then mk (Some TIdentity) s
      else if is_tag tg_recurse k then mk (Some TRecurse) s
      else if is_tag tg_null k then mk (Some TNull) s
      else if is_tag tg_true k then mk (Some TTrue) s
      else if is_tag tg_false k then mk (Some TFalse) s
      else None
  | SList [k; a; s] =>
      if is_tag tg_index k then mk (option_map TIndex (dec_index n a)) s
      else if is_tag tg_func k then mk (option_map TFunc (dec_func n a)) s
      else if is_tag tg_object k then mk (option_map TObject (dec_list (dec_kv n) a)) s
      else if is_tag tg_array k then mk (option_map TArray (dec_opt (dec_query n) a)) s
      else if is_tag tg_string k then mk (option_map TString (dec_jstring n a)) s
      else if is_tag tg_break k then mk (option_map TBreak (dec_bytes a)) s
      else if is_tag tg_query k then mk (option_map TQuery (dec_query n a)) s
      else None
  | SList [k; a; b; s] =>
      if is_tag tg_number k then
        mk (match dec_bytes a, dec_num b with Some a, Some b => Some (TNumber a b) | _, _ => None end) s
      else if is_tag tg_unary k then
        mk (match dec_op a, dec_term n b with Some a, Some b => Some (TUnary a b) | _, _ => None end) s
      else if is_tag tg_format k then
        mk (match dec_bytes a, dec_opt (dec_jstring n) b with Some a, Some b => Some (TFormat a b) | _, _ => None end) s
      else if is_tag tg_try k then
        mk (match dec_query n a, dec_opt (dec_query n) b with Some a, Some b => Some (TTry a b) | _, _ => None end) s
      else if is_tag tg_label k then
        mk (match dec_bytes a, dec_query n b with Some a, Some b => Some (TLabel a b) | _, _ => None end) s
      else None
  | SList [k; a; b; c; d; s] =>
      if is_tag tg_if k then
        let dec_elif (x : sexp) := match x with
                                   | SList [p; q] => match dec_query n p, dec_query n q with
                                                     | Some p, Some q => Some (p, q) | _, _ => None end
                                   | _ => None end in
        mk (match dec_query n a, dec_query n b, dec_list dec_elif c, dec_opt (dec_query n) d with
            | Some a, Some b, Some c, Some d => Some (TIf a b c d) | _, _, _, _ => None end) s
      else if is_tag tg_reduce k then
        mk (match dec_query n a, dec_pattern n b, dec_query n c, dec_query n d with
            | Some a, Some b, Some c, Some d => Some (TReduce a b c d) | _, _, _, _ => None end) s
      else None
  | SList [k; a; b; c; d; x; s] =>
      if is_tag tg_foreach k then
        mk (match dec_query n a, dec_pattern n b, dec_query n c, dec_query n d, dec_opt (dec_query n) x with
            | Some a, Some b, Some c, Some d, Some x => Some (TForeach a b c d x) | _, _, _, _, _ => None end) s
      else None
  | _ => None
  end end
with dec_index (n : nat) (e : sexp) : option index :=
  match n with O => None | S n =>
  match e with
  | SList [nm; str; st; en; sl] =>
      match dec_bytes nm, dec_opt (dec_jstring n) str, dec_opt (dec_query n) st, dec_opt (dec_query n) en, dec_bool sl with
      | Some nm, Some str, Some st, Some en, Some sl => Some (Index nm str st en sl)
      | _, _, _, _, _ => None
      end
  | _ => None
  end end
with dec_func (n : nat) (e : sexp) : option func :=
  match n with O => None | S n =>
  match e with
  | SList [nm; args] =>
      match dec_bytes nm, dec_list (dec_query n) args with
      | Some nm, Some args => Some (Func nm args)
      | _, _ => None
      end
  | _ => None
  end end
with dec_jstring (n : nat) (e : sexp) : option jstring :=
  match n with O => None | S n =>
  match e with
  | SList [s; qs] =>
      match dec_bytes s, dec_opt (dec_list (dec_query n)) qs with
      | Some s, Some qs => Some (JString s qs)
      | _, _ => None
      end
  | _ => None
  end end
with dec_kv (n : nat) (e : sexp) : option objectkeyval :=
  match n with O => None | S n =>
  match e with
  | SList [k; ks; kq; v] =>
      match dec_bytes k, dec_opt (dec_jstring n) ks, dec_opt (dec_query n) kq, dec_opt (dec_query n) v with
      | Some k, Some ks, Some kq, Some v => Some (ObjectKeyVal k ks kq v)
      | _, _, _, _ => None
      end
  | _ => None
  end end
with dec_suffix (n : nat) (e : sexp) : option suffix :=
  match n with O => None | S n =>
  match e with
  | SList [i; it; op] =>
      match dec_opt (dec_index n) i, dec_bool it, dec_bool op with
      | Some i, Some it, Some op => Some (Suffix i it op)
      | _, _, _ => None
      end
  | _ => None
  end end
with dec_pattern (n : nat) (e : sexp) : option pattern :=
  match n with O => None | S n =>
  match e with
  | SList [nm; arr; obj] =>
      match dec_bytes nm, dec_list (dec_pattern n) arr, dec_list (dec_patobj n) obj with
      | Some nm, Some arr, Some obj => Some (Pattern nm arr obj)
      | _, _, _ => None
      end
  | _ => None
  end end
with dec_patobj (n : nat) (e : sexp) : option patternobject :=
  match n with O => None | S n =>
  match e with
  | SList [k; ks; kq; v] =>
      match dec_bytes k, dec_opt (dec_jstring n) ks, dec_opt (dec_query n) kq, dec_opt (dec_pattern n) v with
      | Some k, Some ks, Some kq, Some v => Some (PatternObject k ks kq v)
      | _, _, _, _ => None
      end
  | _ => None
  end end.

(* ------------------------------------------------------------------------------------------ *)
(* values *)

Fixpoint dec_jv (n : nat) (e : sexp) : option jv :=
  match n with O => None | S n =>
  match e with
  | Atom _ =>
      if is_tag tg_null e then Some VNull
      else if is_tag tg_true e then Some (VBool true)
      else if is_tag tg_false e then Some (VBool false)
      else None
  | SList (t :: rest) =>
      if is_tag tg_a t then option_map VArr (map_opt (dec_jv n) rest)
      else if is_tag tg_o t then
        option_map VObj (map_opt (fun kv => match kv with
                                            | SList [k; v] => match dec_bytes k, dec_jv n v with
                                                              | Some k, Some v => Some (k, v) | _, _ => None end
                                            | _ => None end) rest)
      else if is_tag tg_s t then
        match rest with [x] => option_map VStr (dec_bytes x) | _ => None end
      else option_map VNum (dec_num e)
  | _ => None
  end end.

Fixpoint enc_jv (v : jv) : sexp :=
  match v with
  | VNull => A "null"
  | VBool true => A "true"
  | VBool false => A "false"
  | VNum (NInt z) => SList [A "i"; Atom (print_Z z)]
  | VNum (NFlt f) => SList [A "f"; Atom (print_Z (f_bits f))]
  | VStr s => SList [A "s"; Atom (print_hexs s)]
  | VArr l => SList (A "a" :: map enc_jv l)
  | VObj kvs => SList (A "o" :: map (fun kv => SList [Atom (print_hexs (fst kv)); enc_jv (snd kv)]) kvs)
  end.

(* objects arrive sorted from the harness; re-sorting here keeps the invariant independent of it *)
Fixpoint normalize (v : jv) : jv :=
  match v with
  | VArr l => VArr (map normalize l)
  | VObj kvs => VObj (fold_left (fun acc kv => obj_set acc (fst kv) (normalize (snd kv))) kvs [])
  | _ => v
  end.
