(* DenLink2Old.v — Sem = den2 for the constructs DenLink.q0 already has.  The proofs are those of DenLink.v
   (sim_pipe ... sim_label), transcribed for the larger syntax q2 / den2 / emb2 of DenLink2.v; the lemmas about
   continuations, frames and cells that do not mention the syntax are re-proved here in the same section. *)
From Coq Require Import String.
From Coq Require Import List ZArith NArith Bool Lia.
From Verif Require Import common.Sexp sem.JV sem.Syntax sem.Natives sem.Sem sem.SemProofs sem.DenLink sem.DenLink2.
Import ListNotations.

Section Link.
Variable bs : list funcdef.
Variable rs : bool.
Hypothesis Hempty : lookup_builtin bs (codes "empty") 0 = None.
Hypothesis Herror : lookup_builtin bs (codes "error") 0 = None.
Hypothesis Hlength : lookup_builtin bs (codes "length") 0 = None.

Local Notation sim := (sim2 bs rs).
Local Notation inv_ok := (DenLink.inv_ok rs).
Local Notation K_ok_of_eq := (DenLink.K_ok_of_eq rs).
Local Notation den2_brk := (DenLink2.den2_brk rs).
Local Notation den2_brk_lt := (DenLink2.den2_brk_lt rs).
Local Notation den2_depth0 := (DenLink2.den2_depth0 rs).
Local Notation den2_ren := (DenLink2.den2_ren rs).
Ltac trivb := let E := fresh "E" in intros ? E; cbn in E; congruence.
Ltac triv0 := let E := fresh "E" in intros ? ? ? E; cbn in E; congruence.

Lemma run_single k w s : run_res k ([w], None) s = k (plain w) None s.
Proof. unfold run_res. cbn [run_list fst snd]. unfold bind, ret. destruct (k (plain w) None s) as [[[]|x] s1]; reflexivity. Qed.

Ltac fuel2 n := do 2 (destruct n as [|n]; [cbn in *; lia|]).

Lemma sim_leaves : sim Z2Id /\ sim Z2Null /\ (forall b, sim (Z2Bool b)) /\ (forall t m, sim (Z2Num t m)) /\ (forall x, sim (Z2Str x)).
Proof.
  repeat split; intros; intros n rho v k s Inv Hn _ _ _ _ _; fuel2 n; cbn [den2]; rewrite run_single; try reflexivity.
  - destruct b; reflexivity.
  - destruct n as [|n]; [cbn in Hn; lia|]. reflexivity.
Qed.

Lemma sim_pipe a b : sim a -> sim b -> sim (Z2Pipe a b).
Proof.
  intros Ha Hb n rho v k s Inv Hn Hr HI Hk Hlt Hs. cbn [need2] in Hn. destruct n as [|n]; [lia|].
  cbn [emb2 den2]. rewrite pipe_law.
  assert (HK : K_ok Inv (fun x ps' => eval_q bs n rho (emb2 b) x ps' k)).
  { apply (K_ok_of_eq Inv k _ (den2 rs b rho)); try assumption; [intros w; apply den2_brk_lt; assumption|].
    intros w s' Hs'. apply (Hb _ _ _ _ _ Inv); try assumption. lia. }
  rewrite (Ha _ _ _ _ _ Inv) by (try lia; assumption). unfold run_res at 1.
  rewrite (run_list_ext Inv _ (fun x _ => run_res k (den2 rs b rho (fst x)))); try assumption.
  - rewrite run_rbind. destruct (den2 rs a rho v); reflexivity.
  - intros w s' Hs'. apply (Hb _ _ _ _ _ Inv); try assumption. lia.
Qed.

Lemma sim_comma a b : sim a -> sim b -> sim (Z2Comma a b).
Proof.
  intros Ha Hb n rho v k s Inv Hn Hr HI Hk Hlt Hs. cbn [need2] in Hn. destruct n as [|n]; [lia|].
  cbn [emb2 den2]. rewrite comma_law. unfold bind. rewrite (Ha _ _ _ _ _ Inv) by (try lia; assumption).
  pose proof (run_list_ok Inv k (fst (den2 rs a rho v)) (snd (den2 rs a rho v)) s Hk Hs) as Hs1.
  unfold run_res in *. destruct (den2 rs a rho v) as [ws [x|]]; cbn [fst snd rseq] in *.
  - rewrite <- (run_list_exn_absorbs k ws x (ret tt)). unfold bind.
    destruct (run_list k ws (Some x) s) as [[[]|y] s1] eqn:E; [|reflexivity].
    exfalso. clear -E. revert s E. induction ws as [|w r IH]; intros s E; cbn [run_list] in E; [discriminate|].
    unfold bind in E. destruct (k (plain w) None s) as [[[]|y] s2]; [eapply IH; exact E|discriminate].
  - rewrite run_list_app. unfold bind. destruct (run_list k ws None s) as [[[]|y] s1]; [|reflexivity].
    apply (Hb _ _ _ _ _ Inv); try assumption. lia.
Qed.

Lemma sim_empty : sim Z2Empty.
Proof.
  intros n rho v k s Inv Hn Hr HI _ _ _. cbn [need2] in Hn. do 3 (destruct n as [|n]; [lia|]).
  cbn [emb2 den2]. unfold eval_q, q_call, q_term.
  cbn [evals_n step ev_q step_eval_q push_defs fold_left ev_t step_eval_t rev app ev_call].
  unfold step_call. cbn [List.length].
  replace (is_var_name (codes "empty") && Nat.eqb 0 0) with false by reflexivity.
  rewrite (vars_only_fun _ _ _ Hr), Hempty. reflexivity.
Qed.

Lemma sim_error : sim Z2Error.
Proof.
  intros n rho v k s Inv Hn Hr HI _ _ _. cbn [need2] in Hn. do 3 (destruct n as [|n]; [lia|]).
  cbn [emb2 den2]. unfold eval_q, q_call, q_term.
  cbn [evals_n step ev_q step_eval_q push_defs fold_left ev_t step_eval_t rev app ev_call].
  unfold step_call. cbn [List.length].
  replace (is_var_name (codes "error") && Nat.eqb 0 0) with false by reflexivity.
  rewrite (vars_only_fun _ _ _ Hr), Herror. reflexivity.
Qed.

Lemma sim_length : sim Z2Length.
Proof.
  intros n rho v k s Inv Hn Hr HI _ _ Hs. cbn [need2] in Hn. do 3 (destruct n as [|n]; [lia|]).
  cbn [emb2 den2]. unfold eval_q, q_call, q_term.
  cbn [evals_n step ev_q step_eval_q push_defs fold_left ev_t step_eval_t rev app ev_call].
  unfold step_call. cbn [List.length].
  replace (is_var_name (codes "length") && Nat.eqb 0 0) with false by reflexivity.
  rewrite (vars_only_fun _ _ _ Hr), Hlength.
  change (guard_repsens (codes "length") (fst (plain v))
            (lift (fn_length v) (fun w => k (plain w) None)) s = run_res k (of_nres rs (fn_length v)) s).
  unfold guard_repsens. replace (is_formatter (codes "length")) with false by reflexivity.
  destruct (fn_length v) as [w|c val|why]; cbn [lift of_nres].
  - rewrite run_single. reflexivity.
  - unfold raise_err, run_res, mask. cbn [run_list fst snd]. rewrite (proj1 HI _ Hs). reflexivity.
  - reflexivity.
Qed.

Lemma sim_var x : ok2 (Z2Var x) -> sim (Z2Var x).
Proof.
  intros [Hx Henv] n rho v k s Inv Hn Hr HI _ _ _. cbn [need2] in Hn. do 3 (destruct n as [|n]; [lia|]).
  cbn [emb2 den2]. unfold eval_q, q_call, q_term.
  cbn [evals_n step ev_q step_eval_q push_defs fold_left ev_t step_eval_t rev app ev_call].
  unfold step_call. cbn [List.length]. rewrite Hx. cbn [andb Nat.eqb].
  destruct (lookup_var rho x) as [w|] eqn:E.
  - rewrite run_single. rewrite <- (vars_only_var _ _ _ Hr E). reflexivity.
  - change (list_N_eqb x nm_0) with (list_N_eqb x (codes "$ENV")). rewrite Henv. reflexivity.
Qed.

(* .[] outside path tracking *)
Lemma iterate_run k w s : repsens s = rs -> iterate (plain w) None k s = run_res k (iter_res rs w) s.
Proof.
  intros Hs. unfold iterate. cbn [fst plain].
  assert (Hel : forall (elems : list (jv * jv)) s,
    (fix go (l : list (jv * jv)) : M unit :=
       match l with
       | [] => ret tt
       | (key, e) :: r => k (plain e) None ;; go r
       end) elems s = run_list k (map snd elems) None s).
  { induction elems as [|[key e] r IH]; intros s0; [reflexivity|]. cbn [map snd run_list]. unfold bind.
    destruct (k (plain e) None s0) as [[[]|x] s1]; [apply IH|reflexivity]. }
  destruct w; try (unfold raise_err, run_res, iter_res, mask; cbn [run_list fst snd]; rewrite Hs; reflexivity).
  - unfold iter_res, run_res. cbn [fst snd]. rewrite Hel. f_equal.
    generalize 0%Z. induction l as [|e r IH]; intros z; [reflexivity|]. cbn. f_equal. apply IH.
  - unfold iter_res, run_res. cbn [fst snd]. rewrite Hel. rewrite map_map. reflexivity.
Qed.

Ltac fold_eval :=
  repeat match goal with
         | |- context [step_eval_q (evals_n bs ?m)] => change (step_eval_q (evals_n bs m)) with (eval_q bs (S m))
         | |- context [ev_q (step bs (evals_n bs ?m))] => change (ev_q (step bs (evals_n bs m))) with (eval_q bs (S m))
         | |- context [ev_q (evals_n bs ?m)] => change (ev_q (evals_n bs m)) with (eval_q bs m)
         end.

Lemma sim_iter t : sim t -> sim (Z2Iter t).
Proof.
  intros Ht n rho v k s Inv Hn Hr HI Hk Hlt Hs. cbn [need2] in Hn. do 4 (destruct n as [|n]; [lia|]).
  cbn [emb2 den2]. unfold eval_q. cbn [evals_n step ev_q step_eval_q push_defs fold_left ev_t step_eval_t rev app].
  fold_eval.
  assert (HK : K_ok Inv (fun x ps' => iterate x ps' k)).
  { apply (K_ok_of_eq Inv k _ (iter_res rs)); try assumption; [intros w; apply brk_lt_none; intros l; destruct w; discriminate|].
    intros w s' Hs'. apply iterate_run. apply (proj1 HI). exact Hs'. }
  rewrite (Ht _ _ _ _ _ Inv) by (try lia; assumption). unfold run_res at 1.
  rewrite (run_list_ext Inv _ (fun x _ => run_res k (iter_res rs (fst x)))); try assumption.
  - rewrite run_rbind. destruct (den2 rs t rho v); reflexivity.
  - intros w s' Hs'. apply iterate_run. apply (proj1 HI). exact Hs'.
Qed.

Lemma index_run k w key s : repsens s = rs ->
  lift (fn_index2 w key) (fun r => nav None (plain w) key r k) s = run_res k (of_nres rs (fn_index2 w key)) s.
Proof.
  intros Hs. destruct (fn_index2 w key) as [r|c val|why]; cbn [lift of_nres nav].
  - rewrite run_single. reflexivity.
  - unfold raise_err, run_res, mask. cbn [run_list fst snd]. rewrite Hs. reflexivity.
  - reflexivity.
Qed.

Lemma sim_field t c key : sim t -> sim (Z2Field t c key).
Proof.
  intros Ht n rho v k s Inv Hn Hr HI Hk Hlt Hs. cbn [need2] in Hn. do 4 (destruct n as [|n]; [lia|]).
  cbn [emb2 den2]. unfold eval_q. cbn [evals_n step ev_q step_eval_q push_defs fold_left ev_t step_eval_t rev app ev_index].
  unfold step_eval_index. cbn [index_key ev_t step step_eval_t rev app].
  fold_eval.
  assert (HK : K_ok Inv (fun x ps' => lift (fn_index2 (fst x) (VStr (c :: key))) (fun w => nav ps' x (VStr (c :: key)) w k))).
  { apply (K_ok_of_eq Inv k _ (fun w => of_nres rs (fn_index2 w (VStr (c :: key))))); try assumption;
      [intros w; apply brk_lt_none; intros l; destruct (fn_index2 w (VStr (c :: key))); discriminate|].
    intros w s' Hs'. apply index_run. apply (proj1 HI). exact Hs'. }
  rewrite (Ht _ _ _ _ _ Inv) by (try lia; assumption). unfold run_res at 1.
  rewrite (run_list_ext Inv _ (fun x _ => run_res k (of_nres rs (fn_index2 (fst x) (VStr (c :: key)))))); try assumption.
  - rewrite (run_rbind k (fun w => of_nres rs (fn_index2 w (VStr (c :: key))))). destruct (den2 rs t rho v); reflexivity.
  - intros w s' Hs'. apply index_run. apply (proj1 HI). exact Hs'.
Qed.

Lemma sim_if c a b : sim c -> sim a -> sim b -> sim (Z2If c a b).
Proof.
  intros Hc Ha Hb n rho v k s Inv Hn Hr HI Hk Hlt Hs. cbn [need2] in Hn. do 3 (destruct n as [|n]; [lia|]).
  cbn [emb2 den2]. unfold eval_q, q_term. cbn [evals_n step ev_q step_eval_q push_defs fold_left ev_t step_eval_t rev app if_chain].
  fold_eval.
  set (K' := fun (x : tv) (_ : pst) => if truthy (fst x) then eval_q bs (S n) rho (emb2 a) (plain v) None k
                                       else eval_q bs (S n) rho (emb2 b) (plain v) None k).
  assert (HK : K_ok Inv K').
  { apply (K_ok_of_eq Inv k _ (fun w => if truthy w then den2 rs a rho v else den2 rs b rho v)); try assumption;
      [intros w; destruct (truthy w); apply den2_brk_lt; assumption|].
    intros w s' Hs'. unfold K'. cbn [fst plain]. destruct (truthy w); [apply (Ha _ _ _ _ _ Inv)|apply (Hb _ _ _ _ _ Inv)]; try assumption; lia. }
  change (eval_q bs (S n) rho (emb2 c) (plain v) None K' s = run_res k (rbind (den2 rs c rho v) (fun w => if truthy w then den2 rs a rho v else den2 rs b rho v)) s).
  rewrite (Hc _ _ _ _ _ Inv) by (try lia; assumption). unfold run_res at 1.
  rewrite (run_list_ext Inv _ (fun x _ => run_res k ((fun w => if truthy w then den2 rs a rho v else den2 rs b rho v) (fst x)))); try assumption.
  - rewrite (run_rbind k (fun w => if truthy w then den2 rs a rho v else den2 rs b rho v)). destruct (den2 rs c rho v); reflexivity.
  - intros w s' Hs'. unfold K'. cbn [fst plain]. destruct (truthy w); [apply (Ha _ _ _ _ _ Inv)|apply (Hb _ _ _ _ _ Inv)]; try assumption; lia.
Qed.

(* errors in results of den2 are raised at depth 0 *)

Lemma sim_try a h : sim a -> match h with Some h => sim h | None => True end -> sim (Z2Try a h).
Proof.
  intros Ha Hh n rho v k s Inv Hn Hr HI Hk Hlt Hs. cbn [need2] in Hn. do 3 (destruct n as [|n]; [lia|]).
  cbn [emb2]. unfold eval_q, q_term. cbn [evals_n step ev_q step_eval_q push_defs fold_left ev_t step_eval_t rev app].
  fold_eval.
  assert (HK : K_ok Inv (fun y ps' => down (k y ps'))).
  { constructor.
    - intros w s' Hs'. unfold down. pose proof (kg_ok _ _ Hk w s' Hs') as H1. destruct (k (plain w) None s') as [[[]|[]] s1]; exact H1.
    - intros w s' Hs'. unfold down. pose proof (kg_nid _ _ Hk w s' Hs') as H1. destruct (k (plain w) None s') as [[[]|[]] s1]; exact H1.
    - intros w s' val Hs'. unfold down. rewrite (kg_fr _ _ Hk w s' val Hs'). destruct (k (plain w) None s') as [[[]|[]] s1]; reflexivity.
    - intros w s' l Hs'. unfold down. pose proof (kg_brk _ _ Hk w s' l Hs') as H1.
      destruct (k (plain w) None s') as [[[]|[]] s1]; cbn [fst] in *; try discriminate; exact H1. }
  unfold try_catch at 1.
  rewrite (Ha _ _ _ _ _ Inv) by (try lia; assumption).
  change (try_catch (run_res (fun y ps' => down (k y ps')) (den2 rs a rho v))
            (fun val => match option_map emb2 h with
                        | None => ret tt
                        | Some hq => match val with
                                     | Some e => eval_q bs (S n) rho hq (plain e) None k
                                     | None => skipM "error-message"
                                     end
                        end) s = run_res k (den2 rs (Z2Try a h) rho v) s).
  unfold run_res at 1. rewrite run_try. cbn [den2].
  pose proof (den2_depth0 a rho v) as Hd.
  pose proof (run_list_ok Inv k (fst (den2 rs a rho v)) None s Hk Hs) as Hs1.
  destruct (den2 rs a rho v) as [ws [[d c val| | | | |]|]]; cbn [fst snd] in *;
    try (unfold run_res; cbn [fst snd]; rewrite run_list_raise; reflexivity).
  - assert (d = O) by (eapply Hd; reflexivity). subst d.
    destruct h as [hq|]; cbn [option_map].
    + destruct val as [e|].
      * unfold run_res. cbn [rseq fst snd]. rewrite run_list_app. unfold bind.
        destruct (run_list k ws None s) as [[[]|y] s1]; [|reflexivity]. apply (Hh _ _ _ _ _ Inv); try assumption. lia.
      * unfold run_res. cbn [fst snd]. rewrite run_list_raise. reflexivity.
    + unfold run_res. cbn [fst snd]. unfold bind, ret. destruct (run_list k ws None s) as [[[]|y] s1]; reflexivity.
  - unfold run_res. cbn [fst snd]. unfold bind, ret. destruct (run_list k ws None s) as [[[]|y] s1]; reflexivity.
Qed.

(* ---- constructs with a cell: [q] and reduce (with_cell restores the state on exit) ---- *)

Definition coll (c : N) : K :=
  fun x _ => a <- get_cell c ;;
             match fst a with
             | VArr l => set_cell c (plain (VArr (fst x :: l)))
             | _ => skipM "cell"
             end.

Lemma set_cells_twice s a b : set_cells (set_cells s a) b = set_cells s b.
Proof. reflexivity. Qed.

Lemma coll_step c cs w acc s0 : cells s0 = (c, plain (VArr acc)) :: cs ->
  coll c (plain w) None s0 = (inl tt, set_cells s0 ((c, plain (VArr (w :: acc))) :: cs)).
Proof.
  intros Hc. unfold coll, bind, get_cell. rewrite Hc. cbn [cell_lookup]. rewrite N.eqb_refl. cbn [fst plain].
  unfold set_cell. rewrite Hc. cbn [cell_update]. rewrite N.eqb_refl. reflexivity.
Qed.

Lemma coll_run c cs ws e : forall acc s0, cells s0 = (c, plain (VArr acc)) :: cs ->
  run_list (coll c) ws e s0 =
  (match e with None => inl tt | Some x => inr x end, set_cells s0 ((c, plain (VArr (rev ws ++ acc))) :: cs)).
Proof.
  induction ws as [|w r IH]; intros acc s0 Hc; cbn [run_list].
  - cbn [rev app]. rewrite <- Hc. destruct s0; destruct e; reflexivity.
  - unfold bind. rewrite (coll_step c cs w acc s0 Hc).
    rewrite (IH (w :: acc) (set_cells s0 ((c, plain (VArr (w :: acc))) :: cs)) eq_refl).
    rewrite set_cells_twice. cbn [rev]. rewrite <- app_assoc. reflexivity.
Qed.

(* collectors and setters of a cell c are well-behaved on states where c is an allocated id *)
Definition inv_c (c : N) (s : sst) : Prop := repsens s = rs /\ (c < nextid s)%N.

Lemma inv_c_ok c : inv_ok (inv_c c).
Proof. split; [intros s [H _]; exact H|]. intros s val [H1 H2]. split; [exact H1|]. cbn [fr1 nextid]. lia. Qed.

Lemma coll_ok c : K_ok (inv_c c) (coll c).
Proof.
  constructor.
  - intros w s [H1 H2]. unfold coll, bind, get_cell. destruct (cell_lookup (cells s) c) as [[a i]|]; [|split; assumption].
    cbn [fst]. destruct a; split; assumption.
  - intros w s _. unfold coll, bind, get_cell. destruct (cell_lookup (cells s) c) as [[a i]|]; [|reflexivity].
    cbn [fst]. destruct a; reflexivity.
  - intros w s val [H1 H2]. unfold coll, bind, get_cell. cbn [fr1 cells cell_lookup].
    destruct (N.eqb_spec (nextid s) c) as [E|_]; [lia|].
    destruct (cell_lookup (cells s) c) as [[a i]|]; [|reflexivity].
    cbn [fst]. destruct a; try reflexivity.
    unfold set_cell, set_cells. cbn [fr1 cells cell_update outs nout cap nextid inputs repsens steps fst snd].
    destruct (N.eqb_spec (nextid s) c) as [E|_]; [lia|]. reflexivity.
  - intros w s l _. unfold coll, bind, get_cell. destruct (cell_lookup (cells s) c) as [[a i]|]; [|discriminate].
    cbn [fst]. destruct a; discriminate.
Qed.

Lemma sim_array q : sim q -> sim (Z2Array q).
Proof.
  intros Hq n rho v k s Inv Hn Hr HI Hk Hlt Hs. cbn [need2] in Hn. do 3 (destruct n as [|n]; [lia|]).
  cbn [emb2 den2]. unfold eval_q, q_term. cbn [evals_n step ev_q step_eval_q push_defs fold_left ev_t step_eval_t rev app scoped_ids].
  fold_eval. unfold with_cell.
  change (fun (x : tv) (_ : pst) => a <- get_cell (nextid s);; match fst a with
            | VArr l => set_cell (nextid s) (plain (VArr (fst x :: l))) | _ => skipM "cell" end) with (coll (nextid s)).
  set (st := mkst (outs s) (nout s) (cap s) (nextid s + 1)%N (inputs s) ((nextid s, plain (VArr [])) :: cells s) (repsens s) (steps s)).
  rewrite (Hq _ _ _ _ _ (inv_c (nextid s))); [|lia|assumption|apply inv_c_ok|apply coll_ok|intros s1 [_ H1]; specialize (Hlt s Hs); lia|split; [exact (proj1 HI _ Hs)|subst st; cbn [nextid]; lia]].
  unfold run_res. rewrite (coll_run (nextid s) (cells s) (fst (den2 rs q rho v)) (snd (den2 rs q rho v)) [] st eq_refl).
  subst st.
  destruct (den2 rs q rho v) as [ws [x|]]; cbn [fst snd set_cells cells cell_lookup cell_remove outs nout cap nextid inputs repsens steps].
  - rewrite N.eqb_refl. destruct s; reflexivity.
  - rewrite !N.eqb_refl. cbn [fst plain]. rewrite app_nil_r. unfold rev'. rewrite <- rev_alt, rev_involutive.
    change (run_list k [VArr ws] None s) with (run_res k ([VArr ws], None) s). rewrite run_single. destruct s; reflexivity.
Qed.

Definition setter (c : N) : K := fun u _ => set_cell c u.

Lemma last_cons {A} (u : A) r acc : last (u :: r) acc = last r u.
Proof. revert u. induction r as [|a r IH]; intros u; [reflexivity|]. cbn [last] in *. destruct r; [reflexivity|apply IH]. Qed.

Lemma setter_run c cs us e : forall acc s1, cells s1 = (c, plain acc) :: cs ->
  run_list (setter c) us e s1 =
  (match e with None => inl tt | Some x => inr x end, set_cells s1 ((c, plain (last us acc)) :: cs)).
Proof.
  induction us as [|u r IH]; intros acc s1 Hc; cbn [run_list].
  - cbn [last]. rewrite <- Hc. destruct s1; destruct e; reflexivity.
  - unfold bind, setter at 1, set_cell. rewrite Hc. cbn [cell_update]. rewrite N.eqb_refl.
    rewrite (IH u (set_cells s1 ((c, plain u) :: cs)) eq_refl). rewrite set_cells_twice, last_cons. reflexivity.
Qed.

Lemma setter_ok c : K_ok (inv_c c) (setter c).
Proof.
  constructor.
  - intros w s H. exact H.
  - intros w s _. reflexivity.
  - intros w s val [H1 H2]. unfold setter, set_cell, set_cells.
    cbn [fr1 cells cell_update outs nout cap nextid inputs repsens steps fst snd].
    destruct (N.eqb_spec (nextid s) c) as [E|_]; [lia|]. reflexivity.
  - intros w s l _. discriminate.
Qed.

Lemma cell_lookup_update cs c v u : cell_lookup cs c = Some v -> cell_lookup (cell_update cs c u) c = Some u.
Proof.
  induction cs as [|[i w] r IH]; [discriminate|]. cbn [cell_lookup cell_update].
  destruct (N.eqb_spec i c) as [->|Hne]; cbn [cell_lookup].
  - intros _. rewrite N.eqb_refl. reflexivity.
  - intros H. destruct (N.eqb_spec i c); [contradiction|]. apply IH. exact H.
Qed.

(* the cell c holds a plain value: kept by any run of its setter *)
Definition holds (c : N) (s : sst) : Prop := exists a, cell_lookup (cells s) c = Some (plain a).

Lemma setter_holds c us e : forall s, holds c s -> holds c (snd (run_list (setter c) us e s)).
Proof.
  induction us as [|u r IH]; intros s H; cbn [run_list].
  - destruct e; exact H.
  - unfold bind, setter at 1, set_cell. cbn [fst snd]. apply IH. destruct H as [a Ha]. exists u.
    cbn [set_cells cells]. eapply cell_lookup_update. exact Ha.
Qed.

Lemma sim_reduce src x init upd : is_var_name x = true -> sim src -> sim init -> sim upd -> sim (Z2Reduce src x init upd).
Proof.
  intros Hx Hsrc Hinit Hupd n rho v k s Inv Hn Hr HI Hk Hlt Hs. cbn [need2] in Hn. do 4 (destruct n as [|n]; [lia|]).
  destruct x as [|cx x]; [discriminate Hx|].
  cbn [emb2]. unfold eval_q, q_term. cbn [evals_n step ev_q step_eval_q push_defs fold_left ev_t step_eval_t rev app].
  fold_eval.
  set (upd0 := fun w acc => den2 rs upd (BVar (cx :: x) (plain w) :: rho) acc).
  set (Kitem := fun (c : N) (item : tv) (ps1 : pst) =>
         ev_bindpat (step bs (step bs (evals_n bs n))) rho (Pattern (cx :: x) [] []) item ps1
           (fun rho' ps2 => cur <- get_cell c ;; eval_q bs (S (S n)) rho' (emb2 upd) cur ps2 (fun u _ => set_cell c u))).
  set (F := fun s0 : jv =>
         let '(ws, sx) := den2 rs src rho v in
         match reduce_fold0 upd0 ws s0 with
         | inr e => ([], Some e)
         | inl acc => match sx with Some e => ([], Some e) | None => ([acc], None) end
         end).
  pose (InvC := fun (c : N) (s1 : sst) => inv_c c s1 /\ holds c s1).
  (* one item *)
  (* one item, wherever the cell sits *)
  assert (Hitem0 : forall c w acc s1, (lab_bound rho <= c)%N -> inv_c c s1 -> cell_lookup (cells s1) c = Some (plain acc) ->
            Kitem c (plain w) None s1 = run_res (setter c) (upd0 w acc) s1).
  { intros c w acc s1 Hc0 Hs1 Hc. unfold Kitem. cbn [ev_bindpat step step_bind_pat].
    unfold bind, get_cell. rewrite Hc.
    change (fun (u : tv) (_ : pst) => set_cell c u) with (setter c).
    apply (Hupd _ _ _ _ _ (inv_c c)); [lia|exact Hr|apply inv_c_ok|apply setter_ok|intros s2 [_ H2]; cbn [lab_bound]; lia|exact Hs1]. }
  (* one item, the cell on top *)
  assert (Hitem : forall c cs w acc s1, (lab_bound rho <= c)%N -> cells s1 = (c, plain acc) :: cs -> inv_c c s1 ->
            Kitem c (plain w) None s1 =
            (match snd (upd0 w acc) with None => inl tt | Some e => inr e end,
             set_cells s1 ((c, plain (last (fst (upd0 w acc)) acc)) :: cs))).
  { intros c cs w acc s1 Hc0 Hc Hs1. rewrite (Hitem0 c w acc s1 Hc0 Hs1) by (rewrite Hc; cbn [cell_lookup]; rewrite N.eqb_refl; reflexivity).
    unfold run_res. apply (setter_run c cs _ _ acc s1 Hc). }
  assert (HInvC : forall c, inv_ok (InvC c)).
  { intros c. split; [intros s0 [[H0 _] _]; exact H0|]. intros s0 val [H0 [a Ha]]. split; [apply (proj2 (inv_c_ok c)); exact H0|].
    exists a. cbn [fr1 cells cell_lookup]. destruct H0 as [_ H0]. destruct (N.eqb_spec (nextid s0) c); [lia|exact Ha]. }
  assert (HKitem : forall c, (lab_bound rho <= c)%N -> K_ok (InvC c) (Kitem c)).
  { intros c Hc0. constructor.
    - intros w s1 [Hs1 [acc Hc]]. rewrite (Hitem0 c w acc s1 Hc0 Hs1 Hc). split.
      + apply (run_list_ok (inv_c c)); [apply setter_ok|exact Hs1].
      + apply setter_holds. exists acc. exact Hc.
    - intros w s1 [Hs1 [acc Hc]]. rewrite (Hitem0 c w acc s1 Hc0 Hs1 Hc). apply (run_list_nid (inv_c c)); [apply setter_ok|exact Hs1].
    - intros w s1 val [Hs1 [acc Hc]].
      rewrite (Hitem0 c w acc (fr1 val s1) Hc0).
      + rewrite (Hitem0 c w acc s1 Hc0 Hs1 Hc). apply (run_list_fr (inv_c c)); [apply setter_ok|exact Hs1].
      + apply (proj2 (inv_c_ok c)). exact Hs1.
      + cbn [fr1 cells cell_lookup]. destruct Hs1 as [_ Hlt1]. destruct (N.eqb_spec (nextid s1) c); [lia|exact Hc].
    - intros w s1 l [Hs1 [acc Hc]]. rewrite (Hitem0 c w acc s1 Hc0 Hs1 Hc). intros E.
      destruct (run_list_brk (inv_c c) (setter c) _ _ s1 l (setter_ok c) Hs1 E) as [H|H]; [exact H|].
      pose proof (den2_brk upd (BVar (cx :: x) (plain w) :: rho) acc l H) as Hin. cbn [lab_ids] in Hin.
      apply lab_ids_lt in Hin. destruct Hs1 as [_ Hlt1]. lia. }
  (* all items *)
  assert (Hitems : forall c cs ws sx acc s1, (lab_bound rho <= c)%N -> cells s1 = (c, plain acc) :: cs -> inv_c c s1 ->
            exists a', run_list (Kitem c) ws sx s1 =
            (match reduce_fold0 upd0 ws acc with
             | inr e => inr e
             | inl _ => match sx with None => inl tt | Some e => inr e end
             end, set_cells s1 ((c, plain a') :: cs)) /\
            (forall r, reduce_fold0 upd0 ws acc = inl r -> a' = r)).
  { intros c cs ws sx. induction ws as [|w r IH]; intros acc s1 Hc0 Hc Hs1; cbn [run_list reduce_fold0].
    - exists acc. split; [rewrite <- Hc; destruct s1; destruct sx; reflexivity|]. intros r [= <-]. reflexivity.
    - unfold bind. rewrite (Hitem c cs w acc s1 Hc0 Hc Hs1).
      destruct (upd0 w acc) as [us [e|]]; cbn [fst snd].
      + exists (last us acc). split; [reflexivity|]. intros r0 E; discriminate.
      + destruct (IH (last us acc) (set_cells s1 ((c, plain (last us acc)) :: cs)) Hc0 eq_refl Hs1) as [a' [E1 E2]].
        exists a'. rewrite E1, set_cells_twice. split; [reflexivity|exact E2]. }
  (* the continuation of init *)
  set (K' := fun (s0 : tv) (ps0 : pst) =>
         with_cell (scoped_ids ps0) s0 (fun c => eval_q bs (S (S n)) rho (emb2 src) (plain v) ps0 (Kitem c)) (fun res => k res ps0)).
  assert (HK' : forall w0 s', Inv s' -> K' (plain w0) None s' = run_res k (F w0) s').
  { intros w0 s' Hs'. unfold K', with_cell. cbn [scoped_ids].
    set (st := mkst (outs s') (nout s') (cap s') (nextid s' + 1)%N (inputs s') ((nextid s', plain w0) :: cells s') (repsens s') (steps s')).
    assert (Hst : inv_c (nextid s') st) by (split; [exact (proj1 HI _ Hs')|subst st; cbn [nextid]; lia]).
    rewrite (Hsrc _ _ _ _ _ (InvC (nextid s'))); [|lia|exact Hr|apply HInvC|apply HKitem; apply Hlt; exact Hs'|intros s2 [[_ H2] _]; specialize (Hlt s' Hs'); lia|split; [exact Hst|exists w0; subst st; cbn [cells cell_lookup]; rewrite N.eqb_refl; reflexivity]].
    unfold run_res.
    destruct (Hitems (nextid s') (cells s') (fst (den2 rs src rho v)) (snd (den2 rs src rho v)) w0 st (Hlt s' Hs') eq_refl Hst) as [a' [E1 E2]].
    rewrite E1. unfold F. destruct (den2 rs src rho v) as [ws sx]. cbn [fst snd] in *.
    destruct (reduce_fold0 upd0 ws w0) as [acc|e] eqn:ER.
    - specialize (E2 acc eq_refl). subst a'. destruct sx as [e|];
        cbn [set_cells cells cell_lookup cell_remove outs nout cap nextid inputs repsens steps]; rewrite ?N.eqb_refl.
      + subst st. destruct s'; reflexivity.
      + change (run_list k (fst ([acc], None)) (snd ([acc], None)) s') with (run_res k ([acc], None) s'). rewrite run_single. subst st. destruct s'; reflexivity.
    - cbn [set_cells cells cell_remove outs nout cap nextid inputs repsens steps]. rewrite N.eqb_refl. subst st. destruct s'; reflexivity. }
  assert (HFb : forall w0, brk_lt Inv (F w0)).
  { intros w0. apply (brk_lt_of_in Inv (lab_ids rho)); [apply in_lt; exact Hlt|]. unfold F.
    pose proof (den2_brk src rho v) as IHs. destruct (den2 rs src rho v) as [ws sx].
    destruct (reduce_fold0 upd0 ws w0) as [acc|e] eqn:ER.
    - destruct sx as [e|]; [|trivb]. intros l E. cbn in E. apply IHs. exact E.
    - intros l E. cbn in E. injection E as ->.
      eapply reduce_fold0_brk; [|exact ER]. intros w acc. apply (den2_brk upd (BVar (cx :: x) (plain w) :: rho) acc). }
  assert (HKok : K_ok Inv K') by (apply (K_ok_of_eq Inv k K' F); assumption).
  change (eval_q bs (S (S n)) rho (emb2 init) (plain v) None K' s = run_res k (den2 rs (Z2Reduce src (cx :: x) init upd) rho v) s).
  rewrite (Hinit _ _ _ _ _ Inv) by (try lia; assumption). unfold run_res at 1.
  rewrite (run_list_ext Inv _ (fun x0 _ => run_res k (F (fst x0)))); try assumption.
  rewrite (run_rbind k F). cbn [den2]. destruct (den2 rs init rho v); reflexivity.
Qed.

(* ---- a // b : the consumer runs while the `found` cell is live (a frame) ---- *)

Fixpoint frames (fs : list tv) (s : sst) : sst :=
  match fs with
  | [] => s
  | f :: r => fr1 f (frames r s)
  end.

Lemma frames_repsens fs s : repsens (frames fs s) = repsens s.
Proof. induction fs; [reflexivity|exact IHfs]. Qed.

Lemma frames_nextid_le fs s : (nextid s <= nextid (frames fs s))%N.
Proof. induction fs as [|f r IH]; cbn [frames fr1 nextid]; lia. Qed.

Lemma frames_inv Inv fs s : inv_ok Inv -> Inv s -> Inv (frames fs s).
Proof. intros [_ H2] Hs. induction fs as [|f r IH]; [exact Hs|]. apply H2. exact IH. Qed.

Lemma k_frames Inv k w fs s : inv_ok Inv -> K_ok Inv k -> Inv s ->
  k (plain w) None (frames fs s) = (fst (k (plain w) None s), frames fs (snd (k (plain w) None s))).
Proof.
  intros HI Hk Hs. induction fs as [|f r IH]; cbn [frames].
  - destruct (k (plain w) None s); reflexivity.
  - rewrite (kg_fr _ _ Hk w (frames r s) f) by (apply frames_inv; assumption). rewrite IH. reflexivity.
Qed.

Lemma set_cell_frames u fs b s0 :
  set_cell (nextid s0) u (frames fs (fr1 b s0)) = (inl tt, frames fs (fr1 u s0)).
Proof.
  unfold set_cell. f_equal.
  induction fs as [|f r IH]; cbn [frames].
  - unfold set_cells. cbn [fr1 cells cell_update outs nout cap nextid inputs repsens steps]. rewrite N.eqb_refl. reflexivity.
  - rewrite <- IH. unfold set_cells. cbn [fr1 cells cell_update outs nout cap nextid inputs repsens steps].
    assert (Hne : (nextid (frames r (fr1 b s0)) =? nextid s0)%N = false).
    { apply N.eqb_neq. pose proof (frames_nextid_le r (fr1 b s0)) as H. cbn [fr1 nextid] in H. lia. }
    rewrite Hne. reflexivity.
Qed.

Definition K1 (k : K) (c : N) : K :=
  fun x ps' => if truthy (fst x) then set_cell c (plain VTrue) ;; k x ps' else ret tt.

Definition inv_alt (Inv : sst -> Prop) (c : N) (s1 : sst) : Prop :=
  exists fs b s0, Inv s0 /\ nextid s0 = c /\ s1 = frames fs (fr1 (plain (VBool b)) s0).

Lemma frames_nextid fs X s : nextid (frames fs (fr1 X s)) = (nextid s + 1 + N.of_nat (List.length fs))%N.
Proof. induction fs as [|f r IH]; cbn [frames fr1 nextid List.length]; [lia|]. rewrite IH. lia. Qed.

Lemma K1_step Inv k w fs b s0 : inv_ok Inv -> K_ok Inv k -> Inv s0 ->
  K1 k (nextid s0) (plain w) None (frames fs (fr1 (plain (VBool b)) s0)) =
  if truthy w then (fst (k (plain w) None s0), frames fs (fr1 (plain VTrue) (snd (k (plain w) None s0))))
  else (inl tt, frames fs (fr1 (plain (VBool b)) s0)).
Proof.
  intros HI Hk Hs. unfold K1. cbn [fst plain]. destruct (truthy w); [|reflexivity].
  unfold bind. rewrite set_cell_frames.
  rewrite (k_frames Inv k w fs (fr1 (plain VTrue) s0) HI Hk) by (apply (proj2 HI); exact Hs).
  rewrite (kg_fr _ _ Hk w s0 (plain VTrue) Hs). reflexivity.
Qed.

Lemma inv_alt_ok Inv c : inv_ok Inv -> inv_ok (inv_alt Inv c).
Proof.
  intros HI. split.
  - intros s1 (fs & b & s0 & H0 & _ & ->). rewrite frames_repsens. cbn [fr1 repsens]. apply (proj1 HI). exact H0.
  - intros s1 val (fs & b & s0 & H0 & Hc & ->). exists (val :: fs), b, s0. auto.
Qed.

Lemma inv_alt_lt (Inv : sst -> Prop) c (B : N) : (forall s, Inv s -> (B <= nextid s)%N) -> forall s1, inv_alt Inv c s1 -> (B <= nextid s1)%N.
Proof. intros H s1 (fs & b & s0 & H0 & _ & ->). rewrite frames_nextid. specialize (H s0 H0). lia. Qed.

Lemma K1_ok Inv k c : inv_ok Inv -> K_ok Inv k -> K_ok (inv_alt Inv c) (K1 k c).
Proof.
  intros HI Hk. constructor.
  - intros w s1 (fs & b & s0 & H0 & <- & ->). rewrite (K1_step Inv k w fs b s0 HI Hk H0).
    destruct (truthy w); cbn [snd].
    + exists fs, true, (snd (k (plain w) None s0)). split; [apply (kg_ok _ _ Hk); exact H0|]. split; [apply (kg_nid _ _ Hk); exact H0|reflexivity].
    + exists fs, b, s0. auto.
  - intros w s1 (fs & b & s0 & H0 & <- & ->). rewrite (K1_step Inv k w fs b s0 HI Hk H0).
    destruct (truthy w); cbn [snd]; [|reflexivity]. rewrite !frames_nextid. rewrite (kg_nid _ _ Hk w s0 H0). reflexivity.
  - intros w s1 val (fs & b & s0 & H0 & <- & ->).
    change (fr1 val (frames fs (fr1 (plain (VBool b)) s0))) with (frames (val :: fs) (fr1 (plain (VBool b)) s0)).
    rewrite (K1_step Inv k w (val :: fs) b s0 HI Hk H0), (K1_step Inv k w fs b s0 HI Hk H0).
    destruct (truthy w); reflexivity.
  - intros w s1 l (fs & b & s0 & H0 & <- & ->). rewrite (K1_step Inv k w fs b s0 HI Hk H0).
    destruct (truthy w); cbn [fst]; [|discriminate]. intros E. pose proof (kg_brk _ _ Hk w s0 l H0 E).
    rewrite frames_nextid. lia.
Qed.

Definition is_nil {A} (l : list A) : bool := match l with [] => true | _ => false end.

Lemma alt_run Inv k e : inv_ok Inv -> K_ok Inv k -> forall ws b s0, Inv s0 ->
  exists b', run_list (K1 k (nextid s0)) ws e (fr1 (plain (VBool b)) s0) =
             (fst (run_list k (filter truthy ws) e s0), fr1 (plain (VBool b')) (snd (run_list k (filter truthy ws) e s0))) /\
             (fst (run_list k (filter truthy ws) e s0) = inl tt -> b' = b || negb (is_nil (filter truthy ws))).
Proof.
  intros HI Hk. induction ws as [|w r IH]; intros b s0 H0; cbn [run_list filter].
  - exists b. split; [destruct e; reflexivity|]. intros _. cbn. rewrite orb_false_r. reflexivity.
  - unfold bind at 1. pose proof (K1_step Inv k w [] b s0 HI Hk H0) as HS. cbn [frames] in HS. rewrite HS. clear HS.
    destruct (truthy w) eqn:Tw; cbn [run_list].
    + unfold bind. pose proof (kg_ok _ _ Hk w s0 H0) as H1. pose proof (kg_nid _ _ Hk w s0 H0) as H2.
      destruct (k (plain w) None s0) as [[[]|x] s1]; cbn [fst snd] in *.
      * rewrite <- H2. destruct (IH true s1 H1) as [b' [E1 E2]]. exists b'. split; [exact E1|].
        intros E. rewrite (E2 E). cbn [is_nil negb orb]. rewrite orb_true_r. reflexivity.
      * exists true. split; [reflexivity|]. intros E; discriminate.
    + apply IH. exact H0.
Qed.

Lemma run_list_some_not_inl k ws x s : fst (run_list k ws (Some x) s) <> inl tt.
Proof.
  revert s. induction ws as [|w r IH]; intros s; cbn [run_list]; [discriminate|].
  unfold bind. destruct (k (plain w) None s) as [[[]|y] s1]; [apply IH|discriminate].
Qed.

Lemma sim_alt a b : sim a -> sim b -> sim (Z2Alt a b).
Proof.
  intros Ha Hb n rho v k s Inv Hn Hr HI Hk Hlt Hs. cbn [need2] in Hn. do 2 (destruct n as [|n]; [lia|]).
  cbn [emb2]. unfold eval_q, q_bin. cbn [evals_n step ev_q step_eval_q push_defs fold_left scoped_ids].
  fold_eval. unfold with_cell.
  change (fun (x : tv) (ps' : pst) => if truthy (fst x) then set_cell (nextid s) (plain VTrue);; k x ps' else ret tt) with (K1 k (nextid s)).
  change (mkst (outs s) (nout s) (cap s) (nextid s + 1)%N (inputs s) ((nextid s, plain VFalse) :: cells s) (repsens s) (steps s))
    with (fr1 (plain (VBool false)) s).
  rewrite (Ha _ _ _ _ _ (inv_alt Inv (nextid s))); [|lia|assumption|apply inv_alt_ok; assumption|apply K1_ok; assumption|apply inv_alt_lt; exact Hlt|exists [], false, s; auto].
  unfold run_res. destruct (alt_run Inv k (snd (den2 rs a rho v)) HI Hk (fst (den2 rs a rho v)) false s Hs) as [b' [E1 E2]].
  rewrite E1. cbn [den2].
  pose proof (run_list_nid Inv k (filter truthy (fst (den2 rs a rho v))) (snd (den2 rs a rho v)) s Hk Hs) as Hnid.
  destruct (den2 rs a rho v) as [ws e]; cbn [fst snd] in *.
  set (R := run_list k (filter truthy ws) e s) in *.
  destruct R as [[[]|x] sR] eqn:ER; cbn [fst snd fr1 cells cell_lookup cell_remove outs nout cap nextid inputs repsens steps] in *.
  - rewrite Hnid, N.eqb_refl. specialize (E2 eq_refl). cbn [orb] in E2. subst b'. cbn [fst plain].
    destruct e as [x0|].
    + exfalso. eapply (run_list_some_not_inl k (filter truthy ws) x0 s). subst R. rewrite ER. reflexivity.
    + destruct (filter truthy ws) as [|t ts] eqn:Ef; cbn [is_nil negb truthy].
      * subst R. cbn [run_list ret] in ER. injection ER as <-. 
        replace (mkst (outs s) (nout s) (cap s) (nextid s) (inputs s) (cells s) (repsens s) (steps s)) with s by (destruct s; reflexivity).
        apply (Hb _ _ _ _ _ Inv); try assumption. lia.
      * cbn [fst snd]. change (run_list k (t :: ts) None s) with R. rewrite ER. unfold ret. f_equal. rewrite <- Hnid. destruct sR; reflexivity.
  - rewrite Hnid, N.eqb_refl.
    assert (ER' : run_list k (filter truthy ws) e s = (inr x, sR)) by (subst R; exact ER).
    destruct e as [x0|].
    + cbn [fst snd]. rewrite ER'. f_equal. rewrite <- Hnid. destruct sR; reflexivity.
    + destruct (filter truthy ws) as [|t ts] eqn:Ef.
      * cbn [run_list ret] in ER'. discriminate ER'.
      * cbn [fst snd]. rewrite ER'. f_equal. rewrite <- Hnid. destruct sR; reflexivity.
Qed.

(* ---- foreach: the state cell is a frame while extraction and consumer run ---- *)

Definition inv_frame (Inv : sst -> Prop) (c : N) (s1 : sst) : Prop :=
  exists fs cur s0, Inv s0 /\ nextid s0 = c /\ s1 = frames fs (fr1 (plain cur) s0).

Lemma inv_frame_ok Inv c : inv_ok Inv -> inv_ok (inv_frame Inv c).
Proof.
  intros HI. split.
  - intros s1 (fs & val & s0 & H0 & _ & ->). rewrite frames_repsens. cbn [fr1 repsens]. apply (proj1 HI). exact H0.
  - intros s1 v1 (fs & cur & s0 & H0 & Hc & ->). exists (v1 :: fs), cur, s0. auto.
Qed.

Lemma inv_frame_lt (Inv : sst -> Prop) c (B : N) : (forall s, Inv s -> (B <= nextid s)%N) -> forall s1, inv_frame Inv c s1 -> (B <= nextid s1)%N.
Proof. intros H s1 (fs & b & s0 & H0 & _ & ->). rewrite frames_nextid. specialize (H s0 H0). lia. Qed.

Definition Ku (k2 : K) (c : N) : K := fun u ps' => set_cell c u ;; k2 u ps'.

Lemma Ku_step Inv k2 w fs val s0 : inv_ok Inv -> K_ok Inv k2 -> Inv s0 ->
  Ku k2 (nextid s0) (plain w) None (frames fs (fr1 val s0)) =
  (fst (k2 (plain w) None s0), frames fs (fr1 (plain w) (snd (k2 (plain w) None s0)))).
Proof.
  intros HI Hk Hs. unfold Ku, bind. rewrite set_cell_frames.
  rewrite (k_frames Inv k2 w fs (fr1 (plain w) s0) HI Hk) by (apply (proj2 HI); exact Hs).
  rewrite (kg_fr _ _ Hk w s0 (plain w) Hs). reflexivity.
Qed.

Lemma Ku_ok Inv k2 c : inv_ok Inv -> K_ok Inv k2 -> K_ok (inv_frame Inv c) (Ku k2 c).
Proof.
  intros HI Hk. constructor.
  - intros w s1 (fs & cur & s0 & H0 & <- & ->). rewrite (Ku_step Inv k2 w fs (plain cur) s0 HI Hk H0). cbn [snd].
    exists fs, w, (snd (k2 (plain w) None s0)). split; [apply (kg_ok _ _ Hk); exact H0|]. split; [apply (kg_nid _ _ Hk); exact H0|reflexivity].
  - intros w s1 (fs & cur & s0 & H0 & <- & ->). rewrite (Ku_step Inv k2 w fs (plain cur) s0 HI Hk H0). cbn [snd].
    rewrite !frames_nextid. rewrite (kg_nid _ _ Hk w s0 H0). reflexivity.
  - intros w s1 v1 (fs & cur & s0 & H0 & <- & ->).
    change (fr1 v1 (frames fs (fr1 (plain cur) s0))) with (frames (v1 :: fs) (fr1 (plain cur) s0)).
    rewrite (Ku_step Inv k2 w (v1 :: fs) (plain cur) s0 HI Hk H0), (Ku_step Inv k2 w fs (plain cur) s0 HI Hk H0). reflexivity.
  - intros w s1 l (fs & cur & s0 & H0 & <- & ->). rewrite (Ku_step Inv k2 w fs (plain cur) s0 HI Hk H0). cbn [fst].
    intros E. pose proof (kg_brk _ _ Hk w s0 l H0 E). rewrite frames_nextid. lia.
Qed.

Lemma Ku_run Inv k2 e : inv_ok Inv -> K_ok Inv k2 -> forall ws acc s0, Inv s0 ->
  exists acc', (forall fs, run_list (Ku k2 (nextid s0)) ws e (frames fs (fr1 (plain acc) s0)) =
               (fst (run_list k2 ws e s0), frames fs (fr1 (plain acc') (snd (run_list k2 ws e s0))))) /\
               (fst (run_list k2 ws e s0) = inl tt -> acc' = last ws acc).
Proof.
  intros HI Hk. induction ws as [|w r IH]; intros acc s0 H0; cbn [run_list].
  - exists acc. split; [intros fs; destruct e; reflexivity|]. intros _. reflexivity.
  - pose proof (kg_ok _ _ Hk w s0 H0) as H1. pose proof (kg_nid _ _ Hk w s0 H0) as H2.
    destruct (k2 (plain w) None s0) as [[[]|x] s1] eqn:Ek2; cbn [fst snd] in *.
    + destruct (IH w s1 H1) as [acc' [E1 E2]]. exists acc'. split.
      * intros fs. unfold bind at 1. rewrite (Ku_step Inv k2 w fs (plain acc) s0 HI Hk H0). rewrite Ek2. cbn [fst snd].
        unfold bind. rewrite Ek2. rewrite <- H2. apply E1.
      * unfold bind. rewrite Ek2. intros E. rewrite (E2 E). rewrite last_cons. reflexivity.
    + exists w. split.
      * intros fs. unfold bind at 1. rewrite (Ku_step Inv k2 w fs (plain acc) s0 HI Hk H0). rewrite Ek2. cbn [fst snd].
        unfold bind. rewrite Ek2. reflexivity.
      * unfold bind. rewrite Ek2. intros E; discriminate.
Qed.

Lemma get_cell_frames fs val s0 :
  get_cell (nextid s0) (frames fs (fr1 val s0)) = (inl val, frames fs (fr1 val s0)).
Proof.
  unfold get_cell.
  assert (H : cell_lookup (cells (frames fs (fr1 val s0))) (nextid s0) = Some val).
  { induction fs as [|f r IH]; cbn [frames fr1 cells cell_lookup].
    - rewrite N.eqb_refl. reflexivity.
    - assert (Hne : (nextid (frames r (fr1 val s0)) =? nextid s0)%N = false).
      { apply N.eqb_neq. pose proof (frames_nextid_le r (fr1 val s0)) as H. cbn [fr1 nextid] in H. lia. }
      rewrite Hne. exact IH. }
  rewrite H. reflexivity.
Qed.

(* foreach_upd0 / foreach_fold0 in terms of rbind / rseq *)
Lemma foreach_upd0_spec ext us acc :
  fst (foreach_upd0 ext us acc) = rbind_list us ext /\
  (snd (rbind_list us ext) = None -> snd (foreach_upd0 ext us acc) = last us acc).
Proof.
  revert acc. induction us as [|u r IH]; intros acc; cbn [foreach_upd0 rbind_list]; [split; reflexivity|].
  destruct (ext u) as [os [x|]]; cbn [rseq fst snd].
  - split; [reflexivity|]. intros E; discriminate.
  - destruct (IH u) as [E1 E2]. destruct (foreach_upd0 ext r u) as [[os' x] acc']. cbn [fst snd] in *.
    rewrite <- E1. cbn [fst snd]. split; [reflexivity|]. intros E. rewrite last_cons. apply E2. rewrite <- E1. exact E.
Qed.

Definition item_res (upd ext : jv -> jv -> result) (w acc : jv) : result := rbind (upd w acc) (ext w).

Lemma foreach_fold0_cons upd ext w r acc :
  foreach_fold0 upd ext (w :: r) acc =
  rseq (item_res upd ext w acc) (foreach_fold0 upd ext r (last (fst (upd w acc)) acc)).
Proof.
  cbn [foreach_fold0]. unfold item_res, rbind. destruct (upd w acc) as [us ux]. cbn [fst snd].
  destruct (foreach_upd0_spec (ext w) us acc) as [E1 E2].
  destruct (foreach_upd0 (ext w) us acc) as [[os x] acc']. cbn [fst snd] in *. rewrite <- E1.
  destruct x as [x|]; [reflexivity|]. destruct ux as [x|]; [reflexivity|].
  cbn [rseq]. rewrite (E2 (f_equal snd (eq_sym E1)) ). reflexivity.
Qed.


Lemma rseq_assoc a b c : rseq (rseq a b) c = rseq a (rseq b c).
Proof.
  destruct a as [wa [xa|]]; [reflexivity|]. destruct b as [wb [xb|]]; cbn [rseq fst snd]; [reflexivity|].
  rewrite app_assoc. reflexivity.
Qed.

Lemma run_rseq k a b s :
  run_res k (rseq a b) s =
  match snd a with
  | None => (run_list k (fst a) None ;; run_res k b) s
  | Some _ => run_res k a s
  end.
Proof.
  destruct a as [wa [xa|]]; cbn [rseq fst snd]; [reflexivity|]. unfold run_res. cbn [fst snd]. apply run_list_app.
Qed.

Lemma sim_foreach src x init upd ext : is_var_name x = true -> sim src -> sim init -> sim upd ->
  match ext with Some e => sim e | None => True end -> sim (Z2Foreach src x init upd ext).
Proof.
  intros Hx Hsrc Hinit Hupd Hext n rho v k s Inv Hn Hr HI Hk Hlt Hs. cbn [need2] in Hn. do 4 (destruct n as [|n]; [lia|]).
  destruct x as [|cx x]; [discriminate Hx|].
  cbn [emb2]. unfold eval_q, q_term. cbn [evals_n step ev_q step_eval_q push_defs fold_left ev_t step_eval_t rev app].
  fold_eval.
  set (upd0 := fun w acc => den2 rs upd (BVar (cx :: x) (plain w) :: rho) acc).
  set (ext0 := fun w u => match ext with Some e => den2 rs e (BVar (cx :: x) (plain w) :: rho) u | None => ([u], None) end).
  (* the continuation after the state was stored: extraction, then the consumer *)
  set (Ek := fun (w : jv) (u : tv) (ps3 : pst) =>
         match option_map emb2 ext with
         | None => k u ps3
         | Some e => eval_q bs (S (S n)) (BVar (cx :: x) (plain w) :: rho) e u ps3 k
         end).
  assert (HEk : forall w u s', Inv s' -> Ek w (plain u) None s' = run_res k (ext0 w u) s').
  { intros w u s' Hs'. unfold Ek, ext0. destruct ext as [e|]; cbn [option_map].
    - apply (Hext _ _ _ _ _ Inv); try assumption. lia.
    - rewrite run_single. reflexivity. }
  assert (Hextb : forall w u, brk_in (lab_ids rho) (ext0 w u)).
  { intros w u. unfold ext0. destruct ext as [e|]; [apply (den2_brk e (BVar (cx :: x) (plain w) :: rho) u)|trivb]. }
  assert (HEkok : forall w, K_ok Inv (Ek w)).
  { intros w. apply (K_ok_of_eq Inv k (Ek w) (ext0 w)); try assumption; [|apply HEk].
    intros u. apply (brk_lt_of_in Inv (lab_ids rho)); [apply in_lt; exact Hlt|apply Hextb]. }
  assert (Hib : forall w cur, brk_in (lab_ids rho) (item_res upd0 ext0 w cur)).
  { intros w cur. unfold item_res. apply brk_in_rbind; [apply (den2_brk upd (BVar (cx :: x) (plain w) :: rho) cur)|apply Hextb]. }
  set (Kit := fun (c : N) (item : tv) (ps1 : pst) =>
         ev_bindpat (step bs (step bs (evals_n bs n))) rho (Pattern (cx :: x) [] []) item ps1
           (fun rho' ps2 => cur <- get_cell c ;;
              eval_q bs (S (S n)) rho' (emb2 upd) cur ps2 (fun u ps3 =>
                set_cell c u ;;
                match option_map emb2 ext with
                | None => k u ps3
                | Some e => eval_q bs (S (S n)) rho' e u ps3 k
                end))).
  (* one item under the frame *)
  assert (Hitem : forall w cur s0, Inv s0 ->
            exists acc', (forall fs, Kit (nextid s0) (plain w) None (frames fs (fr1 (plain cur) s0)) =
              (fst (run_res k (item_res upd0 ext0 w cur) s0),
               frames fs (fr1 (plain acc') (snd (run_res k (item_res upd0 ext0 w cur) s0))))) /\
              (fst (run_res k (item_res upd0 ext0 w cur) s0) = inl tt -> acc' = last (fst (upd0 w cur)) cur)).
  { intros w cur s0 H0.
    destruct (Ku_run Inv (Ek w) (snd (upd0 w cur)) HI (HEkok w) (fst (upd0 w cur)) cur s0 H0) as [acc' [E1 E2]].
    assert (ER : run_list (Ek w) (fst (upd0 w cur)) (snd (upd0 w cur)) s0 = run_res k (item_res upd0 ext0 w cur) s0).
    { rewrite (run_list_ext Inv _ (fun u _ => run_res k (ext0 w (fst u)))); [|apply HEkok|exact H0|intros u s' Hs'; apply HEk; exact Hs'].
      rewrite (run_rbind k (ext0 w)). unfold item_res. destruct (upd0 w cur); reflexivity. }
    exists acc'. split; [|rewrite <- ER; exact E2].
    intros fs. unfold Kit. cbn [ev_bindpat step step_bind_pat].
    unfold bind at 1. rewrite get_cell_frames.
    change (fun (u : tv) (ps3 : pst) => set_cell (nextid s0) u;; match option_map emb2 ext with
              | Some e => eval_q bs (S (S n)) (BVar (cx :: x) (plain w) :: rho) e u ps3 k | None => k u ps3 end)
      with (Ku (Ek w) (nextid s0)).
    rewrite (Hupd _ _ _ _ _ (inv_frame Inv (nextid s0))); [|lia|exact Hr|apply inv_frame_ok; exact HI|apply Ku_ok; [exact HI|apply HEkok]|apply inv_frame_lt; exact Hlt|exists fs, cur, s0; auto].
    change (den2 rs upd (BVar (cx :: x) (plain w) :: rho) cur) with (upd0 w cur).
    unfold run_res at 1. rewrite E1, ER. reflexivity. }
  assert (HKit : forall c, K_ok (inv_frame Inv c) (Kit c)).
  { intros c. constructor.
    - intros w s1 (fs & cur & s0 & H0 & <- & ->).
      destruct (Hitem w cur s0 H0) as [acc' [E1 _]]. rewrite E1. cbn [snd].
      exists fs, acc', (snd (run_res k (item_res upd0 ext0 w cur) s0)).
      split; [apply (run_list_ok Inv); assumption|]. split; [apply (run_list_nid Inv); assumption|reflexivity].
    - intros w s1 (fs & cur & s0 & H0 & <- & ->).
      destruct (Hitem w cur s0 H0) as [acc' [E1 _]]. rewrite E1. cbn [snd].
      rewrite !frames_nextid. unfold run_res. rewrite (run_list_nid Inv k _ _ s0 Hk H0). reflexivity.
    - intros w s1 v1 (fs & cur & s0 & H0 & <- & ->).
      change (fr1 v1 (frames fs (fr1 (plain cur) s0))) with (frames (v1 :: fs) (fr1 (plain cur) s0)).
      destruct (Hitem w cur s0 H0) as [a1 [E1 _]].
      rewrite (E1 (v1 :: fs)), (E1 fs). reflexivity.
    - intros w s1 l (fs & cur & s0 & H0 & <- & ->).
      destruct (Hitem w cur s0 H0) as [acc' [E1 _]]. rewrite E1. cbn [fst]. intros E. rewrite frames_nextid.
      destruct (run_list_brk Inv k _ _ s0 l Hk H0 E) as [H|H]; [lia|].
      pose proof (in_lt Inv rho Hlt s0 l H0 (Hib w cur l H)). lia. }
  (* all items, the cell on top *)
  assert (Hitems : forall ws sx cur s0, Inv s0 ->
            exists acc', run_list (Kit (nextid s0)) ws sx (fr1 (plain cur) s0) =
              (fst (run_res k (rseq (foreach_fold0 upd0 ext0 ws cur) ([], sx)) s0),
               fr1 (plain acc') (snd (run_res k (rseq (foreach_fold0 upd0 ext0 ws cur) ([], sx)) s0)))).
  { intros ws sx. induction ws as [|w r IH]; intros cur s0 H0.
    - exists cur. cbn [run_list foreach_fold0 rseq app fst snd]. unfold run_res. cbn [fst snd run_list]. destruct sx; reflexivity.
    - cbn [run_list]. unfold bind at 1. destruct (Hitem w cur s0 H0) as [a1 [E1 F1]].
      pose proof (E1 []) as E1'. cbn [frames] in E1'. rewrite E1'. clear E1'.
      rewrite foreach_fold0_cons, rseq_assoc, run_rseq.
      pose proof (run_list_ok Inv k (fst (item_res upd0 ext0 w cur)) (snd (item_res upd0 ext0 w cur)) s0 Hk H0) as Hok.
      pose proof (run_list_nid Inv k (fst (item_res upd0 ext0 w cur)) (snd (item_res upd0 ext0 w cur)) s0 Hk H0) as Hni.
      unfold run_res in *.
      destruct (run_list k (fst (item_res upd0 ext0 w cur)) (snd (item_res upd0 ext0 w cur)) s0) as [[[]|xx] s1] eqn:ERi; cbn [fst snd] in *.
      + specialize (F1 eq_refl). subst a1.
        destruct (snd (item_res upd0 ext0 w cur)) as [x0|] eqn:Esn.
        * exfalso. eapply (run_list_some_not_inl k (fst (item_res upd0 ext0 w cur)) x0 s0). try rewrite ERi. reflexivity.
        * unfold bind. try rewrite ERi. rewrite <- Hni. apply IH. exact Hok.
      + exists a1. destruct (snd (item_res upd0 ext0 w cur)) as [x0|] eqn:Esn.
        * reflexivity.
        * unfold bind. try rewrite ERi. reflexivity. }
  set (F := fun w0 : jv => let '(ws, sx) := den2 rs src rho v in rseq (foreach_fold0 upd0 ext0 ws w0) ([], sx)).
  set (K' := fun (s0 : tv) (ps0 : pst) =>
         with_cell (scoped_ids ps0) s0 (fun c => eval_q bs (S (S n)) rho (emb2 src) (plain v) ps0 (Kit c)) (fun _ => ret tt)).
  assert (HK' : forall w0 s', Inv s' -> K' (plain w0) None s' = run_res k (F w0) s').
  { intros w0 s' Hs'. unfold K', with_cell. cbn [scoped_ids].
    change (mkst (outs s') (nout s') (cap s') (nextid s' + 1)%N (inputs s') ((nextid s', plain w0) :: cells s') (repsens s') (steps s'))
      with (fr1 (plain w0) s').
    rewrite (Hsrc _ _ _ _ _ (inv_frame Inv (nextid s'))); [|lia|exact Hr|apply inv_frame_ok; exact HI|apply HKit|apply inv_frame_lt; exact Hlt|exists [], w0, s'; auto].
    unfold run_res at 1.
    destruct (Hitems (fst (den2 rs src rho v)) (snd (den2 rs src rho v)) w0 s' Hs') as [acc' E1]. rewrite E1.
    unfold F. destruct (den2 rs src rho v) as [ws sx]. cbn [fst snd].
    pose proof (run_list_nid Inv k (fst (rseq (foreach_fold0 upd0 ext0 ws w0) ([], sx))) (snd (rseq (foreach_fold0 upd0 ext0 ws w0) ([], sx))) s' Hk Hs') as Hnid.
    unfold run_res in *.
    destruct (run_list k (fst (rseq (foreach_fold0 upd0 ext0 ws w0) ([], sx))) (snd (rseq (foreach_fold0 upd0 ext0 ws w0) ([], sx))) s') as [[[]|xx] sR];
      cbn [fst snd fr1 cells cell_lookup cell_remove outs nout cap nextid inputs repsens steps] in *; rewrite Hnid, N.eqb_refl.
    - unfold ret. f_equal. rewrite <- Hnid. destruct sR; reflexivity.
    - f_equal. rewrite <- Hnid. destruct sR; reflexivity. }
  assert (HFb : forall w0, brk_lt Inv (F w0)).
  { intros w0. apply (brk_lt_of_in Inv (lab_ids rho)); [apply in_lt; exact Hlt|]. unfold F.
    pose proof (den2_brk src rho v) as IHs. destruct (den2 rs src rho v) as [ws sx].
    apply brk_in_rseq; [|exact IHs].
    apply foreach_fold0_brk; [intros w acc; apply (den2_brk upd (BVar (cx :: x) (plain w) :: rho) acc)|apply Hextb]. }
  assert (HKok : K_ok Inv K') by (apply (K_ok_of_eq Inv k K' F); assumption).
  change (eval_q bs (S (S n)) rho (emb2 init) (plain v) None K' s = run_res k (den2 rs (Z2Foreach src (cx :: x) init upd ext) rho v) s).
  rewrite (Hinit _ _ _ _ _ Inv) by (try lia; assumption). unfold run_res at 1.
  rewrite (run_list_ext Inv _ (fun x0 _ => run_res k (F (fst x0)))); try assumption.
  rewrite (run_rbind k F). cbn [den2]. destruct (den2 rs init rho v); reflexivity.
Qed.

Lemma syn_depth_S : exists d, syn_depth = S d.
Proof. eexists. vm_compute. reflexivity. Qed.

Lemma sim_bind src x body : is_var_name x = true -> sim src -> sim body -> sim (Z2Bind src x body).
Proof.
  intros Hx Hsrc Hbody n rho v k s Inv Hn Hr HI Hk Hlt Hs. cbn [need2] in Hn. do 3 (destruct n as [|n]; [lia|]).
  cbn [emb2 den2]. unfold eval_q. cbn [evals_n step ev_q step_eval_q push_defs fold_left].
  destruct syn_depth_S as [d Hd]. rewrite Hd.
  destruct x as [|c x]; [discriminate Hx|].
  cbn [flat_map pattern_vars app fold_left alts_loop ev_bindpat step step_bind_pat].
  fold_eval.
  set (K' := fun (x0 : tv) (_ : pst) =>
               eval_q bs (S (S n)) (BVar (c :: x) x0 :: BVar (c :: x) (plain VNull) :: rho) (emb2 body) (plain v) None k).
  assert (HR : forall w, vars_only (bind_env rho (c :: x) w)) by (intros w; exact Hr).
  assert (HK : K_ok Inv K').
  { apply (K_ok_of_eq Inv k _ (fun w => den2 rs body (bind_env rho (c :: x) w) v)); try assumption;
      [intros w; apply den2_brk_lt; exact Hlt|].
    intros w s' Hs'. unfold K'. apply (Hbody _ _ _ _ _ Inv); [lia|apply HR|assumption|assumption|exact Hlt|assumption]. }
  change (eval_q bs (S (S n)) rho (emb2 src) (plain v) None K' s =
          run_res k (rbind (den2 rs src rho v) (fun w => den2 rs body (bind_env rho (c :: x) w) v)) s).
  rewrite (Hsrc _ _ _ _ _ Inv) by (try lia; assumption). unfold run_res at 1.
  rewrite (run_list_ext Inv _ (fun x0 _ => run_res k ((fun w => den2 rs body (bind_env rho (c :: x) w) v) (fst x0)))); try assumption.
  - rewrite (run_rbind k (fun w => den2 rs body (bind_env rho (c :: x) w) v)). destruct (den2 rs src rho v); reflexivity.
  - intros w s' Hs'. unfold K'. apply (Hbody _ _ _ _ _ Inv); [lia|apply HR|assumption|assumption|exact Hlt|assumption].
Qed.


(* ---- arithmetic and comparison operators ---- *)
Lemma binop_law n rho l o r v ps k : is_arith o = true ->
  eval_q bs (S n) rho (q_bin l o r) v ps k =
  match op_binop o with
  | Some f => eval_q bs n rho r v ps (fun rv ps1 =>
                eval_q bs n rho l v ps1 (fun lv ps2 => lift (f (fst lv) (fst rv)) (fun w => k (plain w) ps2)))
  | None => skipM "operator"
  end.
Proof. intros H. destruct o; try discriminate H; reflexivity. Qed.

Lemma lift_run k (r : nres) s : repsens s = rs -> lift r (fun w => k (plain w) None) s = run_res k (of_nres rs r) s.
Proof.
  intros Hs. destruct r as [w|c val|why]; cbn [lift of_nres].
  - rewrite run_single. reflexivity.
  - unfold raise_err, run_res, mask. cbn [run_list fst snd]. rewrite Hs. reflexivity.
  - reflexivity.
Qed.

Lemma of_nres_nobrk r l : snd (of_nres rs r) <> Some (XBreak l).
Proof. destruct r; discriminate. Qed.

Lemma sim_binop o a b : is_arith o = true -> sim a -> sim b -> sim (Z2Binop o a b).
Proof.
  intros Ho Ha Hb n rho v k s Inv Hn Hr HI Hk Hlt Hs. cbn [need2] in Hn. destruct n as [|n]; [lia|].
  cbn [emb2 den2]. rewrite (binop_law n rho (emb2 a) o (emb2 b) (plain v) None k Ho). unfold binop_res.
  destruct (op_binop o) as [f|] eqn:Ef; [|destruct o; discriminate].
  set (KL := fun (r : jv) (lv : tv) (ps2 : pst) => lift (f (fst lv) r) (fun w => k (plain w) ps2)).
  assert (HKL : forall r, K_ok Inv (KL r)).
  { intros r. apply (K_ok_of_eq Inv k _ (fun l => of_nres rs (f l r))); try assumption.
    - intros l. apply brk_lt_none. intros l0. apply of_nres_nobrk.
    - intros l s' Hs'. unfold KL. cbn [fst plain]. apply lift_run. apply (proj1 HI). exact Hs'. }
  set (FR := fun r : jv => rbind (den2 rs a rho v) (fun l => of_nres rs (f l r))).
  assert (HKR : forall r s', Inv s' -> eval_q bs n rho (emb2 a) (plain v) None (KL r) s' = run_res k (FR r) s').
  { intros r s' Hs'. rewrite (Ha _ _ _ _ _ Inv); [|lia|assumption|assumption|apply HKL|assumption|assumption]. unfold run_res at 1.
    rewrite (run_list_ext Inv _ (fun x _ => run_res k ((fun l => of_nres rs (f l r)) (fst x)))); [|apply HKL|assumption|].
    - rewrite (run_rbind k (fun l => of_nres rs (f l r))). unfold FR. destruct (den2 rs a rho v); reflexivity.
    - intros l s'' Hs''. unfold KL. cbn [fst plain]. apply lift_run. apply (proj1 HI). exact Hs''. }
  assert (HKRok : K_ok Inv (fun rv ps1 => eval_q bs n rho (emb2 a) (plain v) ps1 (KL (fst rv)))).
  { apply (K_ok_of_eq Inv k _ FR); [assumption|assumption| |intros r s' Hs'; cbn [fst plain]; apply HKR; exact Hs'].
    intros r. apply (brk_lt_of_in Inv (lab_ids rho)); [apply in_lt; exact Hlt|]. unfold FR.
    apply brk_in_rbind; [apply den2_brk|]. intros l l0 E. exfalso. exact (of_nres_nobrk _ _ E). }
  change (eval_q bs n rho (emb2 b) (plain v) None (fun rv ps1 => eval_q bs n rho (emb2 a) (plain v) ps1 (KL (fst rv))) s =
          run_res k (rbind (den2 rs b rho v) FR) s).
  rewrite (Hb _ _ _ _ _ Inv) by (try lia; assumption). unfold run_res at 1.
  rewrite (run_list_ext Inv _ (fun x _ => run_res k (FR (fst x)))); [|assumption|assumption|intros r s' Hs'; cbn [fst plain]; apply HKR; exact Hs'].
  rewrite (run_rbind k FR). destruct (den2 rs b rho v); reflexivity.
Qed.

(* a well-behaved continuation is well-behaved under a frame *)
Lemma k_frames1 Inv k w fs cur s0 : inv_ok Inv -> K_ok Inv k -> Inv s0 ->
  k (plain w) None (frames fs (fr1 cur s0)) = (fst (k (plain w) None s0), frames fs (fr1 cur (snd (k (plain w) None s0)))).
Proof.
  intros HI Hk Hs. rewrite (k_frames Inv k w fs (fr1 cur s0) HI Hk) by (apply (proj2 HI); exact Hs).
  rewrite (kg_fr _ _ Hk w s0 cur Hs). reflexivity.
Qed.

Lemma K_frame_ok Inv k c : inv_ok Inv -> K_ok Inv k -> K_ok (inv_frame Inv c) k.
Proof.
  intros HI Hk. constructor.
  - intros w s1 (fs & cur & s0 & H0 & <- & ->). rewrite (k_frames1 Inv k w fs (plain cur) s0 HI Hk H0). cbn [snd].
    exists fs, cur, (snd (k (plain w) None s0)). split; [apply (kg_ok _ _ Hk); exact H0|]. split; [apply (kg_nid _ _ Hk); exact H0|reflexivity].
  - intros w s1 (fs & cur & s0 & H0 & <- & ->). rewrite (k_frames1 Inv k w fs (plain cur) s0 HI Hk H0). cbn [snd].
    rewrite !frames_nextid. rewrite (kg_nid _ _ Hk w s0 H0). reflexivity.
  - intros w s1 v1 (fs & cur & s0 & H0 & <- & ->).
    change (fr1 v1 (frames fs (fr1 (plain cur) s0))) with (frames (v1 :: fs) (fr1 (plain cur) s0)).
    rewrite (k_frames1 Inv k w (v1 :: fs) (plain cur) s0 HI Hk H0), (k_frames1 Inv k w fs (plain cur) s0 HI Hk H0). reflexivity.
  - intros w s1 l (fs & cur & s0 & H0 & <- & ->). rewrite (k_frames1 Inv k w fs (plain cur) s0 HI Hk H0). cbn [fst].
    intros E. pose proof (kg_brk _ _ Hk w s0 l H0 E). rewrite frames_nextid. lia.
Qed.

Lemma catch_break_eq l (m : M unit) s :
  catch_break l m s = (match fst (m s) with
                       | inr (XBreak l') => if (l' =? l)%N then inl tt else fst (m s)
                       | a => a
                       end, snd (m s)).
Proof. unfold catch_break. destruct (m s) as [[[]|[]] s1]; cbn [fst snd]; try reflexivity. destruct (l0 =? l)%N; reflexivity. Qed.

(* catching the break of a fresh label on a run = running the result with that break removed *)
Lemma catch_run Inv k ws e s : K_ok Inv k -> Inv s ->
  (match fst (run_list k ws e s) with
   | inr (XBreak l') => if (l' =? nextid s)%N then inl tt else fst (run_list k ws e s)
   | a => a
   end, snd (run_list k ws e s)) = run_res k (label_res (nextid s) (ws, e)) s.
Proof.
  intros Hk Hs. unfold run_res.
  assert (Hnb : forall e', e' <> Some (XBreak (nextid s)) ->
            match fst (run_list k ws e' s) with
            | inr (XBreak l') => if (l' =? nextid s)%N then inl tt else fst (run_list k ws e' s)
            | a => a
            end = fst (run_list k ws e' s)).
  { intros e' He'. destruct (fst (run_list k ws e' s)) as [[]|[d c val|l| | | |]] eqn:E; try reflexivity.
    destruct (N.eqb_spec l (nextid s)) as [->|]; [|reflexivity].
    destruct (run_list_brk Inv k ws e' s (nextid s) Hk Hs E) as [H|H]; [lia|contradiction]. }
  destruct e as [[d c val|l| | | |]|]; cbn [label_res fst snd];
    try (rewrite Hnb by discriminate; destruct (run_list k ws _ s); reflexivity).
  destruct (N.eqb_spec l (nextid s)) as [->|Hne]; cbn [fst snd].
  - rewrite run_list_raise. unfold bind, raise.
    pose proof (Hnb None ltac:(discriminate)) as H0.
    destruct (run_list k ws None s) as [[[]|x] s1] eqn:E0; cbn [fst snd] in *.
    + rewrite N.eqb_refl. reflexivity.
    + rewrite H0. reflexivity.
  - rewrite Hnb by congruence. destruct (run_list k ws _ s); reflexivity.
Qed.

Lemma sim_break nm : sim (Z2Break nm).
Proof.
  intros n rho v k s Inv Hn Hr HI _ _ _. cbn [need2] in Hn. do 3 (destruct n as [|n]; [lia|]).
  cbn [emb2 den2]. unfold eval_q, q_term.
  cbn [evals_n step ev_q step_eval_q push_defs fold_left ev_t step_eval_t rev app].
  destruct (lookup_label rho nm); reflexivity.
Qed.

Lemma sim_label nm body : sim body -> sim (Z2Label nm body).
Proof.
  intros Hb n rho v k s Inv Hn Hr HI Hk Hlt Hs. cbn [need2] in Hn. do 3 (destruct n as [|n]; [lia|]).
  cbn [emb2]. unfold eval_q, q_term. cbn [evals_n step ev_q step_eval_q push_defs fold_left ev_t step_eval_t rev app scoped_ids].
  fold_eval. unfold with_label, with_cell.
  change (mkst (outs s) (nout s) (cap s) (nextid s + 1)%N (inputs s) ((nextid s, (VNull, None)) :: cells s) (repsens s) (steps s))
    with (fr1 (plain VNull) s).
  rewrite catch_break_eq.
  rewrite (Hb _ _ _ _ _ (inv_frame Inv (nextid s))); [|lia|exact Hr|apply inv_frame_ok; exact HI|apply K_frame_ok; assumption| |exists [], VNull, s; auto].
  2:{ intros s1 (fs & cur & s0 & H0 & Hc & ->). cbn [lab_bound]. rewrite frames_nextid. specialize (Hlt s0 H0). lia. }
  set (rc := den2 rs body (BLabel nm (nextid s) :: rho) v).
  unfold run_res. rewrite (run_list_fr Inv k _ _ s (plain VNull) Hk Hs). cbn [fst snd].
  (* the renaming step: the id of den2 and the id of Sem give the same result *)
  assert (HA : den2 rs (Z2Label nm body) rho v = label_res (nextid s) (fst rc, snd rc)).
  { cbn [den2]. set (ID := lab_bound rho). set (p := fun i : N => if (i =? nextid s)%N then ID else i).
    assert (E : BLabel nm ID :: rho = ren_env p (BLabel nm (nextid s) :: rho)).
    { cbn [ren_env map ren_b]. unfold p at 1. rewrite N.eqb_refl. f_equal. symmetry. apply ren_env_id.
      intros l Hl. unfold p. apply lab_ids_lt in Hl. specialize (Hlt s Hs). destruct (N.eqb_spec l (nextid s)); [lia|reflexivity]. }
    rewrite E, den2_ren. fold rc.
    pose proof (den2_brk body (BLabel nm (nextid s) :: rho) v) as Hbk. fold rc in Hbk. cbn [lab_ids] in Hbk.
    destruct rc as [ws [[d c val|l| | | |]|]]; cbn [ren_res fst snd option_map ren_exn label_res]; try reflexivity.
    destruct (N.eqb_spec l (nextid s)) as [->|Hne].
    - unfold p. rewrite N.eqb_refl, N.eqb_refl. reflexivity.
    - destruct (Hbk l eq_refl) as [H|H]; [congruence|]. apply lab_ids_lt in H. fold ID in H.
      unfold ren_res, p. cbn [fst snd option_map ren_exn label_res].
      destruct (N.eqb_spec l (nextid s)); [contradiction|]. destruct (N.eqb_spec l ID); [lia|reflexivity]. }
  rewrite HA. clear HA. fold (run_res k (label_res (nextid s) (fst rc, snd rc)) s).
  pose proof (catch_run Inv k (fst rc) (snd rc) s Hk Hs) as HC.
  pose proof (run_list_nid Inv k (fst (label_res (nextid s) (fst rc, snd rc))) (snd (label_res (nextid s) (fst rc, snd rc))) s Hk Hs) as Hnid.
  fold (run_res k (label_res (nextid s) (fst rc, snd rc)) s) in Hnid.
  remember (run_res k (label_res (nextid s) (fst rc, snd rc)) s) as R' eqn:ER'. clear ER'.
  pose proof (f_equal fst HC) as HC1. pose proof (f_equal snd HC) as HC2. cbn [fst snd] in HC1, HC2. rewrite HC1, HC2. clear HC HC1 HC2.
  destruct R' as [[[]|x] sR]; cbn [fst snd fr1 cells cell_lookup cell_remove outs nout cap nextid inputs repsens steps] in *;
    rewrite Hnid, N.eqb_refl.
  - unfold ret. f_equal. rewrite <- Hnid. destruct sR; reflexivity.
  - f_equal. rewrite <- Hnid. destruct sR; reflexivity.
Qed.

End Link.
