(* PathSoundProofs.v — C02, first clause: path tracking of the reference semantics Sem is sound on the
   navigation fragment of PathSound.v.  Proofs. *)
From Coq Require Import String.
From Coq Require Import List ZArith NArith Bool Lia Wf_nat.
From Verif Require Import common.Sexp sem.JV sem.Syntax sem.Natives sem.Sem sem.SemProofs sem.PathSound.
Import ListNotations.

(* ------------------------------------------------------------------------------------------ *)
(* value level *)

Lemma nav_path_snoc v p w x : nav_path v p = NOk w -> nav_path v (p ++ [x]) = fn_index2 w x.
Proof.
  revert v. induction p as [|a r IH]; intros v H; cbn [nav_path app] in *.
  - injection H as ->. destruct (fn_index2 w x); reflexivity.
  - destruct (fn_index2 v a); try discriminate. apply IH; exact H.
Qed.

Lemma nav_path_app v p q w : nav_path v p = NOk w -> nav_path v (p ++ q) = nav_path w q.
Proof.
  revert v. induction p as [|a r IH]; intros v H; cbn [nav_path app] in *.
  - injection H as ->. reflexivity.
  - destruct (fn_index2 v a); try discriminate. apply IH; exact H.
Qed.

(* func.go getpath agrees with component-wise navigation unless the path navigates from a string (D10) *)
Lemma getpath_nav path : forall v w, nav_path v path = NOk w -> str_nav v path = false ->
  fn_getpath v (VArr path) = NOk w.
Proof.
  unfold fn_getpath. induction path as [|x r IH]; intros v w H S; cbn [nav_path str_nav] in *.
  - exact H.
  - destruct (fn_index2 v x) as [u| |] eqn:E; try discriminate.
    destruct v; try discriminate S; try (apply IH; assumption).
    + exfalso. unfold fn_index2, fn_slice in E.
      destruct x as [|?|?|?|?|m]; try discriminate E.
      destruct (obj_get m (codes "start")), (obj_get m (codes "end")); discriminate E.
    + exfalso. unfold fn_index2, fn_slice in E.
      destruct x as [|?|?|?|?|m]; try discriminate E.
      destruct (obj_get m (codes "start")), (obj_get m (codes "end")); discriminate E.
Qed.

(* -- bytes order -- *)
Lemma bytes_cmp_refl a : bytes_cmp a a = Eq.
Proof. induction a as [|x a IH]; [reflexivity|]. cbn. rewrite N.compare_refl. exact IH. Qed.

Lemma bytes_cmp_lt_trans a : forall b c, bytes_cmp a b = Lt -> bytes_cmp b c = Lt -> bytes_cmp a c = Lt.
Proof.
  induction a as [|x a IH]; intros [|y b] [|z c]; cbn; try discriminate; try reflexivity.
  destruct (N.compare_spec x y), (N.compare_spec y z); try discriminate; intros H1 H2; subst.
  - rewrite N.compare_refl. eapply IH; eassumption.
  - destruct (N.compare_spec y z); try lia. reflexivity.
  - destruct (N.compare_spec x z); try lia. reflexivity.
  - destruct (N.compare_spec x z); try lia. reflexivity.
Qed.

Lemma bytes_cmp_gt a : forall b, bytes_cmp a b = Lt -> bytes_cmp b a = Gt.
Proof.
  induction a as [|x a IH]; intros [|y b]; cbn; try discriminate; try reflexivity.
  rewrite (N.compare_antisym x y). destruct (N.compare x y); cbn; try discriminate; try reflexivity. apply IH.
Qed.

Definition key_lt_all (k : bytes) (kvs : list (bytes * jv)) : Prop :=
  forall k' v', In (k', v') kvs -> bytes_cmp k k' = Lt.

Lemma sorted_head k v r : obj_sorted ((k, v) :: r) = true -> key_lt_all k r /\ obj_sorted r = true.
Proof.
  revert k v. induction r as [|[k1 v1] r IH]; intros k v H.
  - split; [intros ? ? []|reflexivity].
  - cbn [obj_sorted] in H. apply andb_true_iff in H as [H1 H2].
    change (obj_sorted ((k1, v1) :: r) = true) in H2.
    split; [|exact H2]. destruct (IH _ _ H2) as [H3 _].
    unfold bytes_ltb in H1. destruct (bytes_cmp k k1) eqn:E; try discriminate.
    intros k' v' [[= <- <-]|Hin]; [exact E|]. eapply bytes_cmp_lt_trans; [exact E|]. eapply H3; exact Hin.
Qed.

Lemma sorted_get kvs : obj_sorted kvs = true -> forall k v, In (k, v) kvs -> obj_get kvs k = Some v.
Proof.
  induction kvs as [|[k0 v0] r IH]; intros Hs k v Hin; [destruct Hin|].
  destruct (sorted_head _ _ _ Hs) as [Hlt Hr]. cbn [obj_get].
  destruct Hin as [[= <- <-]|Hin].
  - rewrite bytes_cmp_refl. reflexivity.
  - rewrite (bytes_cmp_gt _ _ (Hlt _ _ Hin)). apply IH; assumption.
Qed.

(* -- well-formedness -- *)
Lemma wf_arr l : jv_wf (VArr l) <-> (zlen l <= max_int)%Z /\ Forall jv_wf l.
Proof.
  cbn [jv_wf]. split; intros [H1 H2]; (split; [exact H1|]); clear H1.
  - induction l as [|x r IH]; [constructor|]. destruct H2. constructor; [assumption|apply IH; assumption].
  - induction H2; [exact I|]. split; assumption.
Qed.

Lemma wf_obj kvs : jv_wf (VObj kvs) <-> obj_sorted kvs = true /\ Forall (fun kv => jv_wf (snd kv)) kvs.
Proof.
  cbn [jv_wf]. split; intros [H1 H2]; (split; [exact H1|]); clear H1.
  - induction kvs as [|x r IH]; [constructor|]. destruct H2. constructor; [assumption|apply IH; assumption].
  - induction H2; [exact I|]. split; assumption.
Qed.

Lemma obj_get_in kvs k v : obj_get kvs k = Some v -> exists k', In (k', v) kvs.
Proof.
  induction kvs as [|[k0 v0] r IH]; [discriminate|]. cbn [obj_get].
  destruct (bytes_cmp k k0); try discriminate.
  - intros [= ->]. exists k0. left. reflexivity.
  - intros H. destruct (IH H) as [k' Hin]. exists k'. right. exact Hin.
Qed.

Lemma nth_z_in {A} (l : list A) i x : nth_z l i = Some x -> In x l.
Proof. unfold nth_z. destruct (i <? 0)%Z; [discriminate|]. apply nth_error_In. Qed.

Lemma sublist_len {A} (l : list A) s e : (List.length (sublist l s e) <= List.length l)%nat.
Proof. unfold sublist. rewrite firstn_length, skipn_length. lia. Qed.

Lemma in_firstn {A} n : forall (l : list A) x, In x (firstn n l) -> In x l.
Proof. induction n as [|n IH]; intros [|a l] x H; cbn in *; try tauto. destruct H; [left; assumption|right; apply IH; assumption]. Qed.
Lemma in_skipn {A} n : forall (l : list A) x, In x (skipn n l) -> In x l.
Proof. induction n as [|n IH]; intros [|a l] x H; cbn in *; try tauto. right. apply IH. exact H. Qed.
Lemma sublist_in {A} (l : list A) s e x : In x (sublist l s e) -> In x l.
Proof. unfold sublist. intros H. apply in_firstn in H. eapply in_skipn. exact H. Qed.

Lemma indices_from_len xs : forall vs i, (List.length (indices_from vs xs i) <= List.length vs)%nat.
Proof.
  induction vs as [|v r IH]; intros i; cbn [indices_from]; [cbn; lia|].
  rewrite app_length. specialize (IH (i + 1)%Z). destruct (prefix_eq xs (v :: r)); simpl; lia.
Qed.

Lemma index_wf v key w : jv_wf v -> fn_index2 v key = NOk w -> jv_wf w.
Proof.
  intros Hv. unfold fn_index2. destruct key as [|?|n|k|xs|m].
  - destruct v; discriminate.
  - destruct v; discriminate.
  - destruct v as [|?|?|s|l|?]; try discriminate; intros [= <-]; try exact I.
    + unfold index_string. destruct (nth_z _ _); exact I.
    + unfold index_array. destruct (nth_z _ _) eqn:E; [|exact I].
      apply nth_z_in in E. apply wf_arr in Hv as [_ Hv]. rewrite Forall_forall in Hv. apply Hv. exact E.
  - destruct v as [|?|?|?|?|kvs]; try discriminate; intros [= <-]; try exact I.
    destruct (obj_get kvs k) eqn:E; [|exact I]. apply obj_get_in in E as [k' E].
    apply wf_obj in Hv as [_ Hv]. rewrite Forall_forall in Hv. apply (Hv (k', j)). exact E.
  - destruct v as [|?|?|?|l|?]; try discriminate; intros [= <-]; try exact I.
    apply wf_arr. apply wf_arr in Hv as [Hl _]. split.
    + unfold zlen in *. rewrite map_length. unfold indices_of. destruct xs; [cbn; unfold max_int; lia|].
      pose proof (indices_from_len (j :: xs) l 0). lia.
    + apply Forall_forall. intros x Hx. apply in_map_iff in Hx as [z [<- _]]. exact I.
  - destruct v as [|?|?|?|l|?]; try (intros [= <-]; exact I);
      destruct (obj_get m (codes "start")), (obj_get m (codes "end")); try discriminate; unfold fn_slice; try discriminate.
    + destruct (slice_bounds _ _ _ _) as [[st en]|]; [|discriminate]. intros [= <-]. exact I.
    + destruct (slice_bounds _ _ _ _) as [[st en]|]; [|discriminate]. intros [= <-].
      apply wf_arr. apply wf_arr in Hv as [Hl Hv]. split.
      * pose proof (sublist_len l st en). unfold zlen in *. lia.
      * rewrite Forall_forall in *. intros x Hx. apply Hv. eapply sublist_in. exact Hx.
Qed.

Lemma nav_path_wf path : forall v w, jv_wf v -> nav_path v path = NOk w -> jv_wf w.
Proof.
  induction path as [|x r IH]; intros v w Hv H; cbn [nav_path] in H.
  - injection H as <-. exact Hv.
  - destruct (fn_index2 v x) eqn:E; try discriminate. eapply IH; [|exact H]. eapply index_wf; eassumption.
Qed.

Lemma combine_iota_in (l : list jv) : forall from key e,
  In (key, e) (combine (map VInt (iota (List.length l) from)) l) ->
  exists j, key = VInt (from + Z.of_nat j) /\ nth_error l j = Some e.
Proof.
  induction l as [|x r IH]; intros from key e H; cbn in H; [destruct H|].
  destruct H as [[= <- <-]|H].
  - exists O. split; [f_equal; lia|reflexivity].
  - destruct (IH _ _ _ H) as [j [-> Hj]]. exists (S j). split; [f_equal; lia|exact Hj].
Qed.

Lemma min_int_neg : (min_int < 0)%Z.
Proof. reflexivity. Qed.

Lemma clamp_int_id z : (0 <= z <= max_int)%Z -> clamp_int z = z.
Proof.
  intros H. unfold clamp_int. pose proof min_int_neg.
  destruct (Z.ltb_spec z min_int); [lia|]. destruct (Z.ltb_spec max_int z); [lia|]. reflexivity.
Qed.
Lemma clamp_index_id i len : (0 <= i < len)%Z -> clamp_index i (-1) len = i.
Proof.
  intros H. unfold clamp_index. destruct (Z.ltb_spec i 0); [lia|].
  destruct (Z.ltb_spec i (-1)); [lia|]. destruct (Z.ltb_spec i len); [reflexivity|lia].
Qed.

Lemma arr_elems l key e : jv_wf (VArr l) ->
  In (key, e) (combine (map VInt (iota (List.length l) 0)) l) -> fn_index2 (VArr l) key = NOk e /\ jv_wf e.
Proof.
  intros Hv Hin. apply wf_arr in Hv as [Hl Hv]. destruct (combine_iota_in _ _ _ _ Hin) as [j [-> Hj]].
  assert (Hlt : (j < List.length l)%nat) by (apply nth_error_Some; congruence).
  split.
  - unfold VInt, fn_index2, to_int, index_array. cbn [Z.add]. unfold zlen in *.
    rewrite clamp_int_id by lia. rewrite clamp_index_id by lia. unfold nth_z.
    destruct (Z.ltb_spec (Z.of_nat j) 0); [lia|]. rewrite Nat2Z.id, Hj. reflexivity.
  - rewrite Forall_forall in Hv. apply Hv. eapply nth_error_In. exact Hj.
Qed.

Lemma obj_elems kvs key e : jv_wf (VObj kvs) ->
  In (key, e) (map (fun kv => (VStr (fst kv), snd kv)) kvs) -> fn_index2 (VObj kvs) key = NOk e /\ jv_wf e.
Proof.
  intros Hv Hin. apply wf_obj in Hv as [Hs Hv]. apply in_map_iff in Hin as [[k v] [[= <- <-] Hin]].
  cbn [fst snd]. split.
  - unfold fn_index2. rewrite (sorted_get _ Hs _ _ Hin). reflexivity.
  - rewrite Forall_forall in Hv. apply (Hv (k, v)). exact Hin.
Qed.

(* ------------------------------------------------------------------------------------------ *)
(* more value level: getpath of the model implies component-wise navigation *)
Lemma getpath_ok_nav path : forall v w, fn_getpath v (VArr path) = NOk w -> nav_path v path = NOk w.
Proof.
  unfold fn_getpath. induction path as [|x r IH]; intros v w H; cbn [nav_path].
  - exact H.
  - destruct v; try discriminate H; destruct (fn_index2 _ x) as [u| |]; try discriminate H; apply IH; exact H.
Qed.

Lemma syn_depth_S : exists d, syn_depth = S d.
Proof. eexists. vm_compute. reflexivity. Qed.

(* ------------------------------------------------------------------------------------------ *)
(* the simulation: a term run inside path(..) (mode MPath) or in an expression region of the path run
   (mode MPlain), against the same term run outside path(..), on the same value *)

(* -- frames -- *)
Lemma desc_weaken ids b b' : (b <= b')%N -> desc ids b -> desc ids b'.
Proof. destruct ids; cbn; [tauto|]. intros H [H1 H2]. split; [lia|exact H2]. Qed.

Lemma desc_in ids : forall b i, desc ids b -> In i ids -> (i < b)%N.
Proof.
  induction ids as [|j r IH]; intros b i H Hin; [destruct Hin|]. destruct H as [H1 H2].
  destruct Hin as [<-|Hin]; [exact H1|]. specialize (IH _ _ H2 Hin). lia.
Qed.

Lemma desc_app_lt ext : forall x rest b, desc (ext ++ x :: rest) b -> forall i, In i ext -> (x < i)%N.
Proof.
  induction ext as [|e ext IH]; intros x rest b H i Hin; [destruct Hin|]. cbn in H. destruct H as [H1 H2].
  destruct Hin as [<-|Hin]; [|eapply IH; eassumption].
  eapply desc_in; [exact H2|]. apply in_or_app. right. left. reflexivity.
Qed.

Lemma with_cell_eq sc init body after s :
  with_cell sc init body after s =
  match body (nextid s) (push_cell s init) with
  | (inl _, t) => match cell_lookup (cells t) (nextid s) with
                  | Some v => after v (restore_cell sc (nextid s) (nextid s) t)
                  | None => (inr (XSkip (codes "cell")), t)
                  end
  | (inr x, t) => (inr x, restore_cell sc (nextid s) (nextid s) t)
  end.
Proof. reflexivity. Qed.

Lemma lab_in_mono ext w a b : lab_in w a b -> lab_in (ext ++ w) a b.
Proof. intros [fr [H1 H2]]. exists fr. split; [apply in_or_app; right; exact H1|exact H2]. Qed.

Lemma env_rel_mono ext w rho1 rho2 : env_rel w rho1 rho2 -> env_rel (ext ++ w) rho1 rho2.
Proof. induction 1; constructor; auto. apply lab_in_mono. assumption. Qed.

Lemma xrel_mono ext w x1 x2 : xrel w x1 x2 -> xrel (ext ++ w) x1 x2.
Proof. destruct x1, x2; cbn; auto. apply lab_in_mono. Qed.

(* updating / reading corresponding cells somewhere in the stacks *)
Lemma cells_upd ext fr w0 : forall cs1 cs2 b1 b2 v1 v2,
  map fst cs1 = map f1 (ext ++ fr :: w0) -> map fst cs2 = map f2 (ext ++ fr :: w0) ->
  Forall2 cell_val_rel cs1 cs2 ->
  desc (map f1 (ext ++ fr :: w0)) b1 -> desc (map f2 (ext ++ fr :: w0)) b2 -> fst v1 = fst v2 ->
  map fst (cell_update cs1 (f1 fr) v1) = map fst cs1 /\ map fst (cell_update cs2 (f2 fr) v2) = map fst cs2 /\
  Forall2 cell_val_rel (cell_update cs1 (f1 fr) v1) (cell_update cs2 (f2 fr) v2).
Proof.
  induction ext as [|e ext IH]; intros cs1 cs2 b1 b2 v1 v2 M1 M2 HF D1 D2 Hv.
  - destruct cs1 as [|[c1 u1] r1]; [discriminate M1|]. destruct cs2 as [|[c2 u2] r2]; [discriminate M2|].
    cbn in M1, M2. injection M1 as -> M1. injection M2 as -> M2. cbn [cell_update]. rewrite !N.eqb_refl.
    inversion HF; subst. repeat split; try reflexivity. constructor; [exact Hv|assumption].
  - destruct cs1 as [|[c1 u1] r1]; [discriminate M1|]. destruct cs2 as [|[c2 u2] r2]; [discriminate M2|].
    cbn [app map fst] in M1, M2, D1, D2. injection M1 as -> M1. injection M2 as -> M2.
    destruct D1 as [D1a D1], D2 as [D2a D2]. inversion HF as [|? ? ? ? Hh Ht]; subst.
    assert (N1 : (f1 e =? f1 fr)%N = false).
    { apply N.eqb_neq. rewrite map_app in D1. cbn [map] in D1.
      pose proof (desc_in _ _ (f1 fr) D1 ltac:(apply in_or_app; right; left; reflexivity)). lia. }
    assert (N2 : (f2 e =? f2 fr)%N = false).
    { apply N.eqb_neq. rewrite map_app in D2. cbn [map] in D2.
      pose proof (desc_in _ _ (f2 fr) D2 ltac:(apply in_or_app; right; left; reflexivity)). lia. }
    cbn [cell_update]. rewrite N1, N2. destruct (IH r1 r2 _ _ v1 v2 M1 M2 Ht D1 D2 Hv) as (A & B & C).
    cbn [map fst]. rewrite A, B. repeat split; try reflexivity. constructor; assumption.
Qed.

Lemma cells_get ext fr w0 : forall cs1 cs2 b1 b2,
  map fst cs1 = map f1 (ext ++ fr :: w0) -> map fst cs2 = map f2 (ext ++ fr :: w0) ->
  Forall2 cell_val_rel cs1 cs2 ->
  desc (map f1 (ext ++ fr :: w0)) b1 -> desc (map f2 (ext ++ fr :: w0)) b2 ->
  exists u1 u2, cell_lookup cs1 (f1 fr) = Some u1 /\ cell_lookup cs2 (f2 fr) = Some u2 /\ fst u1 = fst u2.
Proof.
  induction ext as [|e ext IH]; intros cs1 cs2 b1 b2 M1 M2 HF D1 D2.
  - destruct cs1 as [|[c1 u1] r1]; [discriminate M1|]. destruct cs2 as [|[c2 u2] r2]; [discriminate M2|].
    cbn in M1, M2. injection M1 as -> M1. injection M2 as -> M2. cbn [cell_lookup]. rewrite !N.eqb_refl.
    inversion HF; subst. exists u1, u2. repeat split; assumption.
  - destruct cs1 as [|[c1 u1] r1]; [discriminate M1|]. destruct cs2 as [|[c2 u2] r2]; [discriminate M2|].
    cbn [app map fst] in M1, M2, D1, D2. injection M1 as -> M1. injection M2 as -> M2.
    destruct D1 as [D1a D1], D2 as [D2a D2]. inversion HF as [|? ? ? ? Hh Ht]; subst.
    assert (N1 : (f1 e =? f1 fr)%N = false).
    { apply N.eqb_neq. rewrite map_app in D1. cbn [map] in D1.
      pose proof (desc_in _ _ (f1 fr) D1 ltac:(apply in_or_app; right; left; reflexivity)). lia. }
    assert (N2 : (f2 e =? f2 fr)%N = false).
    { apply N.eqb_neq. rewrite map_app in D2. cbn [map] in D2.
      pose proof (desc_in _ _ (f2 fr) D2 ltac:(apply in_or_app; right; left; reflexivity)). lia. }
    cbn [cell_lookup]. rewrite N1, N2. eapply IH; eassumption.
Qed.

Section Rel.
Variable bs : list funcdef.
Variable root : jv.
Hypothesis Hempty : lookup_builtin bs (codes "empty") 0 = None.
Hypothesis Herror : lookup_builtin bs (codes "error") 0 = None.
Hypothesis Hgetpath : lookup_builtin bs (codes "getpath") 1 = None.
Hypothesis Hselect : lookup_builtin bs (codes "select") 1 = Some select_def.
Hypothesis Hfirst : lookup_builtin bs (codes "first") 1 = Some first_def.
Hypothesis Hrec1 : lookup_builtin bs (codes "recurse") 1 = Some recurse1_def.
Hypothesis Hrec0 : lookup_builtin bs (codes "recurse") 0 = Some recurse0_def.
Hypothesis Hlimit : lookup_builtin bs (codes "limit") 2 = Some limit_def.
Hypothesis Herror1 : lookup_builtin bs (codes "error") 1 = None.

(* results at world w: no claim when either run declines; otherwise related endings and related states *)
Definition RR (w : world) (r1 r2 : res) : Prop :=
  declined r1 \/ declined r2 \/ (rrel w (fst r1) (fst r2) /\ SR root w (snd r1) (snd r2)).

(* the path state is linked to the travelling value: it is the value last navigated to, and the recorded
   path navigates the root to it *)
Definition linked (x : tv) (pp : pstate) : Prop :=
  snd x = Some (lid pp) /\ fst x = lv pp /\ nav_path root (rev (rpath pp)) = NOk (lv pp) /\ jv_wf (lv pp).

(* configurations of the two runs: same value; in path mode the left run tracks a linked path state *)
Definition cfg (m : mode) (x : tv) (ps1 : pst) (y : tv) : Prop :=
  fst y = fst x /\
  match m with
  | MPath => exists pp, ps1 = Some pp /\ linked x pp
  | MPlain => ps1 = None
  end.

(* continuations: related at one world / at every world that extends w (frames pushed since) *)
Definition klocal (m : mode) (w : world) (k1 k2 : K) : Prop :=
  forall x ps1 y, cfg m x ps1 y -> forall s1 s2, SR root w s1 s2 -> RR w (k1 x ps1 s1) (k2 y None s2).
Definition krel (m : mode) (w : world) (k1 k2 : K) : Prop := forall ext, klocal m (ext ++ w) k1 k2.

Lemma krel_local m w k1 k2 : krel m w k1 k2 -> klocal m w k1 k2.
Proof. intros H. exact (H []). Qed.
Lemma krel_mono ext m w k1 k2 : krel m w k1 k2 -> krel m (ext ++ w) k1 k2.
Proof. intros H ext'. rewrite app_assoc. apply H. Qed.

Lemma cfg_plain m x ps1 y : cfg m x ps1 y -> cfg MPlain x None y.
Proof. intros [H _]. split; [exact H|reflexivity]. Qed.

(* -- the state relation -- *)
Lemma SR_bump w s1 s2 : SR root w s1 s2 -> SR root w (bump s1) s2.
Proof.
  intros [H (A & B & C & D & E)]. split; [exact H|]. repeat split; try assumption.
  cbn. eapply desc_weaken; [|exact D]. lia.
Qed.
Lemma SR_rs w s1 s2 : SR root w s1 s2 -> repsens s1 = repsens s2.
Proof. intros [H _]. apply H. Qed.
Lemma SR_steps w s1 s2 : SR root w s1 s2 -> steps s1 = steps s2.
Proof. intros [H _]. apply H. Qed.
Lemma SR_dec w s1 s2 : SR root w s1 s2 -> SR root w (dec_steps s1) (dec_steps s2).
Proof.
  intros [(H1 & H2 & H3 & H4 & H5 & H6) HC]. split; [|exact HC].
  repeat split; cbn; try assumption. rewrite H5. reflexivity.
Qed.

Lemma SR_push w lab s1 s2 i1 i2 : SR root w s1 s2 -> fst i1 = fst i2 ->
  SR root (mkfr lab (nextid s1) (nextid s2) :: w) (push_cell s1 i1) (push_cell s2 i2).
Proof.
  intros [H (A & B & C & D & E)] Hi. split; [exact H|]. unfold cells_rel, push_cell. cbn.
  rewrite A, B. repeat split; try reflexivity; try assumption; try lia. constructor; [exact Hi|exact C].
Qed.

Lemma SR_pop w fr sc1 sc2 t1 t2 : SR root (fr :: w) t1 t2 ->
  SR root w (restore_cell sc1 (f1 fr) (f1 fr) t1) (restore_cell sc2 (f2 fr) (f2 fr) t2).
Proof.
  intros [H (A & B & C & D & E)]. split; [exact H|]. unfold cells_rel, restore_cell. cbn.
  destruct (cells t1) as [|[c1 u1] r1]; [discriminate A|]. destruct (cells t2) as [|[c2 u2] r2]; [discriminate B|].
  cbn in A, B, D, E. injection A as -> A. injection B as -> B. cbn [cell_remove]. rewrite !N.eqb_refl.
  inversion C; subst. destruct D as [D1 D2], E as [E1 E2]. repeat split; try assumption.
  - destruct sc1; [exact D2|]. eapply desc_weaken; [|exact D2]. lia.
  - destruct sc2; [exact E2|]. eapply desc_weaken; [|exact E2]. lia.
Qed.

Lemma SR_head w fr t1 t2 : SR root (fr :: w) t1 t2 ->
  exists u1 u2, cell_lookup (cells t1) (f1 fr) = Some u1 /\ cell_lookup (cells t2) (f2 fr) = Some u2 /\ fst u1 = fst u2.
Proof. intros [_ (A & B & C & D & E)]. exact (cells_get [] fr w _ _ _ _ A B C D E). Qed.

Lemma SR_get ext fr w t1 t2 : SR root (ext ++ fr :: w) t1 t2 ->
  exists u1 u2, cell_lookup (cells t1) (f1 fr) = Some u1 /\ cell_lookup (cells t2) (f2 fr) = Some u2 /\ fst u1 = fst u2.
Proof. intros [_ (A & B & C & D & E)]. exact (cells_get ext fr w _ _ _ _ A B C D E). Qed.

Lemma SR_set ext fr w t1 t2 v1 v2 : SR root (ext ++ fr :: w) t1 t2 -> fst v1 = fst v2 ->
  SR root (ext ++ fr :: w) (set_cells t1 (cell_update (cells t1) (f1 fr) v1)) (set_cells t2 (cell_update (cells t2) (f2 fr) v2)).
Proof.
  intros [H (A & B & C & D & E)] Hv. split; [exact H|].
  destruct (cells_upd ext fr w _ _ _ _ v1 v2 A B C D E Hv) as (X & Y & Z).
  unfold cells_rel, set_cells. cbn. rewrite X, Y. repeat split; assumption.
Qed.

(* -- the result relation -- *)
Lemma RR_ret w s1 s2 : SR root w s1 s2 -> RR w (inl tt, s1) (inl tt, s2).
Proof. intros H. right. right. split; [exact I|exact H]. Qed.

Lemma RR_mono_exn w x s1 s2 : (forall l, x <> XBreak l) -> SR root w s1 s2 -> RR w (inr x, s1) (inr x, s2).
Proof. intros Hx H. right. right. split; [|exact H]. destruct x; cbn; try reflexivity. exfalso. eapply Hx. reflexivity. Qed.

Lemma RR_bind w (m1 m2 : M unit) (f1 f2 : M unit) s1 s2 :
  RR w (m1 s1) (m2 s2) -> (forall t1 t2, SR root w t1 t2 -> RR w (f1 t1) (f2 t2)) ->
  RR w ((m1 ;; f1) s1) ((m2 ;; f2) s2).
Proof.
  intros [H|[H|[H H']]] Hf; unfold bind.
  - unfold declined in H. destruct (m1 s1) as [[[]|x1] t1]; cbn [fst] in H; try contradiction. left. exact H.
  - unfold declined in H. destruct (m2 s2) as [[[]|x2] t2]; cbn [fst] in H; try contradiction. right. left. exact H.
  - destruct (m1 s1) as [[[]|x1] t1], (m2 s2) as [[[]|x2] t2]; cbn [fst snd rrel] in H, H'; try contradiction.
    + apply Hf. exact H'.
    + right. right. split; assumption.
Qed.

Lemma RR_tick w (f1 f2 : M unit) s1 s2 : SR root w s1 s2 ->
  (forall t1 t2, SR root w t1 t2 -> RR w (f1 t1) (f2 t2)) -> RR w ((tick ;; f1) s1) ((tick ;; f2) s2).
Proof.
  intros H Hf. unfold bind.
  assert (T : forall s, (steps s <> 0)%N -> tick s = (inl tt, dec_steps s)).
  { intros s Hs. unfold tick, dec_steps. destruct (steps s); [congruence|reflexivity]. }
  pose proof (SR_steps _ _ _ H) as E.
  destruct (N.eq_dec (steps s1) 0) as [Z|NZ].
  - left. unfold declined, tick. rewrite Z. exact I.
  - rewrite (T s1 NZ), (T s2) by (rewrite <- E; exact NZ). apply Hf. apply SR_dec. exact H.
Qed.

Ltac rr_fin H' :=
  first [ left; exact I | right; left; exact I
        | right; right; split; [cbn [fst rrel xrel]; first [exact I | reflexivity | assumption]|exact H'] ].

Lemma RR_down w (m1 m2 : M unit) s1 s2 : RR w (m1 s1) (m2 s2) -> RR w (down m1 s1) (down m2 s2).
Proof.
  unfold down. intros [H|[H|[H H']]].
  - unfold declined in H. destruct (m1 s1) as [[[]|x1] t1]; cbn [fst] in H; try contradiction.
    destruct x1; try contradiction; left; exact I.
  - unfold declined in H. destruct (m2 s2) as [[[]|x2] t2]; cbn [fst] in H; try contradiction.
    destruct x2; try contradiction; right; left; exact I.
  - destruct (m1 s1) as [[[]|x1] t1], (m2 s2) as [[[]|x2] t2]; cbn [fst snd rrel] in H, H'; try contradiction.
    + apply RR_ret. exact H'.
    + destruct x1, x2; cbn [xrel] in H; try contradiction; try discriminate H;
        try (injection H as -> -> ->); try (injection H as -> ->); try (injection H as ->); rr_fin H'.
Qed.

Lemma RR_try w (m1 m2 : M unit) (h1 h2 : option jv -> M unit) s1 s2 :
  RR w (m1 s1) (m2 s2) -> (forall val t1 t2, SR root w t1 t2 -> RR w (h1 val t1) (h2 val t2)) ->
  RR w (try_catch m1 h1 s1) (try_catch m2 h2 s2).
Proof.
  unfold try_catch. intros [H|[H|[H H']]] Hh.
  - unfold declined in H. destruct (m1 s1) as [[[]|x1] t1]; cbn [fst] in H; try contradiction.
    destruct x1; try contradiction; left; exact I.
  - unfold declined in H. destruct (m2 s2) as [[[]|x2] t2]; cbn [fst] in H; try contradiction.
    destruct x2; try contradiction; right; left; exact I.
  - destruct (m1 s1) as [[[]|x1] t1], (m2 s2) as [[[]|x2] t2]; cbn [fst snd rrel] in H, H'; try contradiction.
    + apply RR_ret. exact H'.
    + destruct x1, x2; cbn [xrel] in H; try contradiction; try discriminate H;
        try (injection H as -> -> ->); try (injection H as -> ->); try (injection H as ->); try (rr_fin H').
      destruct depth0; [apply Hh; exact H'|rr_fin H'].
Qed.

Lemma check_linked x pp c s : linked x pp -> check_intact x pp c s = (inl tt, s).
Proof.
  intros [H _]. unfold check_intact, intact. rewrite H. rewrite N.eqb_refl. reflexivity.
Qed.

Lemma raise_err_rel w c val s1 s2 : SR root w s1 s2 -> RR w (raise_err c val s1) (raise_err c val s2).
Proof. intros H. unfold raise_err. rewrite (SR_rs _ _ _ H). apply RR_mono_exn; [discriminate|exact H]. Qed.

Lemma lift_rel w (r : nres) (k1 k2 : jv -> M unit) s1 s2 : SR root w s1 s2 ->
  (forall u, r = NOk u -> RR w (k1 u s1) (k2 u s2)) -> RR w (lift r k1 s1) (lift r k2 s2).
Proof.
  intros H Hk. destruct r as [u|c val|why]; cbn [lift].
  - apply Hk. reflexivity.
  - apply raise_err_rel. exact H.
  - left. exact I.
Qed.

Lemma nav_rel m w x ps1 y key u k1 k2 s1 s2 :
  cfg m x ps1 y -> klocal m w k1 k2 -> SR root w s1 s2 -> fn_index2 (fst x) key = NOk u ->
  RR w (nav ps1 x key u k1 s1) (nav None y key u k2 s2).
Proof.
  intros [Hy Hc] Hk HR Hi. destruct m.
  - destruct Hc as [pp [-> HL]]. cbn [nav]. unfold bind. rewrite (check_linked _ _ _ _ HL). unfold fresh. cbn [fst snd].
    apply (Hk (u, Some (nextid s1)) (Some (mkp (key :: rpath pp) u (nextid s1))) (plain u)); [|apply SR_bump; exact HR].
    split; [reflexivity|]. eexists. split; [reflexivity|].
    destruct HL as [_ [H2 [H3 H4]]]. repeat split; cbn [fst snd lid lv rpath rev].
    + rewrite (nav_path_snoc _ _ _ key H3). rewrite <- H2. exact Hi.
    + eapply index_wf; [exact H4|]. rewrite <- H2. exact Hi.
  - subst ps1. cbn [nav]. apply Hk; [|exact HR]. split; reflexivity.
Qed.

Lemma index_rel m w x ps1 y key k1 k2 s1 s2 :
  cfg m x ps1 y -> klocal m w k1 k2 -> SR root w s1 s2 ->
  RR w (lift (fn_index2 (fst x) key) (fun u => nav ps1 x key u k1) s1)
       (lift (fn_index2 (fst y) key) (fun u => nav None y key u k2) s2).
Proof.
  intros Hc Hk HR. rewrite (proj1 Hc). apply lift_rel; [exact HR|]. intros u Hu. eapply nav_rel; eassumption.
Qed.

(* .[] *)
Lemma iterate_rel m w x ps1 y k1 k2 s1 s2 :
  cfg m x ps1 y -> klocal m w k1 k2 -> SR root w s1 s2 ->
  RR w (iterate x ps1 k1 s1) (iterate y None k2 s2).
Proof.
  intros [Hy Hc] Hk HR. destruct m.
  - destruct Hc as [pp [-> HL]]. unfold iterate. rewrite Hy.
    assert (Hel : forall elems : list (jv * jv),
      (forall key e, In (key, e) elems -> fn_index2 (lv pp) key = NOk e /\ jv_wf e) ->
      forall s1 s2, SR root w s1 s2 ->
      RR w ((fix go (l : list (jv * jv)) : M unit :=
             match l with
             | [] => ret tt
             | (key, e) :: r => (id <- fresh ;; k1 (e, Some id) (Some (mkp (key :: rpath pp) e id))) ;; go r
             end) elems s1)
         ((fix go (l : list (jv * jv)) : M unit :=
             match l with
             | [] => ret tt
             | (key, e) :: r => k2 (plain e) None ;; go r
             end) elems s2)).
    { induction elems as [|[key e] r IH]; intros Hin t1 t2 Ht.
      - apply RR_ret. exact Ht.
      - apply RR_bind.
        + unfold bind, fresh. cbn [fst snd].
          apply (Hk (e, Some (nextid t1)) (Some (mkp (key :: rpath pp) e (nextid t1))) (plain e)); [|apply SR_bump; exact Ht].
          split; [reflexivity|]. eexists. split; [reflexivity|].
          destruct HL as [_ [H2 [H3 H4]]]. destruct (Hin key e (or_introl eq_refl)) as [Hi He].
          repeat split; cbn [fst snd lid lv rpath rev]; [|exact He].
          rewrite (nav_path_snoc _ _ _ key H3). exact Hi.
        + intros u1 u2 Hu. apply IH; [|exact Hu]. intros key' e' H'. apply Hin. right. exact H'. }
    destruct HL as [H1 [H2 [H3 H4]]].
    destruct (fst x) as [|?|?|?|l|kvs] eqn:Ex; try (apply raise_err_rel; exact HR).
    + unfold bind. rewrite (check_linked x pp _ _ (conj H1 (conj (eq_trans Ex H2) (conj H3 H4)))) by idtac.
      apply Hel; [|exact HR]. rewrite <- H2. intros key e Hin. apply arr_elems; [rewrite H2; exact H4|exact Hin].
    + unfold bind. rewrite (check_linked x pp _ _ (conj H1 (conj (eq_trans Ex H2) (conj H3 H4)))) by idtac.
      apply Hel; [|exact HR]. rewrite <- H2. intros key e Hin. apply obj_elems; [rewrite H2; exact H4|exact Hin].
  - subst ps1. unfold iterate. rewrite Hy.
    assert (Hel : forall elems : list (jv * jv), forall s1 s2, SR root w s1 s2 ->
      RR w ((fix go (l : list (jv * jv)) : M unit :=
             match l with
             | [] => ret tt
             | (key, e) :: r => k1 (plain e) None ;; go r
             end) elems s1)
         ((fix go (l : list (jv * jv)) : M unit :=
             match l with
             | [] => ret tt
             | (key, e) :: r => k2 (plain e) None ;; go r
             end) elems s2)).
    { induction elems as [|[key e] r IH]; intros t1 t2 Ht.
      - apply RR_ret. exact Ht.
      - apply RR_bind; [|exact IH]. apply Hk; [|exact Ht]. split; reflexivity. }
    destruct (fst x) as [|?|?|?|l|kvs]; try (apply raise_err_rel; exact HR); apply Hel; exact HR.
Qed.

(* -- frames: a cell / a label alive while the consumer runs -- *)
Lemma xrel_pop_cell fr w x1 x2 : f_lab fr = false -> xrel (fr :: w) x1 x2 -> xrel w x1 x2.
Proof.
  intros Hf. destruct x1, x2; cbn; auto. intros [fr' [[<-|Hin] [Hl Hr]]]; [congruence|]. exists fr'. exact (conj Hin (conj Hl Hr)).
Qed.

(* [with_cell]: the body runs one frame deeper and must end with an exception that makes sense without the frame *)
Lemma with_cell_rel w lab sc1 sc2 i1 i2 (body1 body2 : N -> M unit) (after1 after2 : tv -> M unit) s1 s2 :
  SR root w s1 s2 -> fst i1 = fst i2 ->
  (forall t1 t2, SR root (mkfr lab (nextid s1) (nextid s2) :: w) t1 t2 ->
     declined (body1 (nextid s1) t1) \/ declined (body2 (nextid s2) t2) \/
     (rrel w (fst (body1 (nextid s1) t1)) (fst (body2 (nextid s2) t2)) /\
      SR root (mkfr lab (nextid s1) (nextid s2) :: w) (snd (body1 (nextid s1) t1)) (snd (body2 (nextid s2) t2)))) ->
  (forall v1 v2 t1 t2, fst v1 = fst v2 -> SR root w t1 t2 -> RR w (after1 v1 t1) (after2 v2 t2)) ->
  RR w (with_cell sc1 i1 body1 after1 s1) (with_cell sc2 i2 body2 after2 s2).
Proof.
  intros HR Hi Hb Ha. rewrite !with_cell_eq.
  specialize (Hb _ _ (SR_push w lab s1 s2 i1 i2 HR Hi)).
  set (fr := mkfr lab (nextid s1) (nextid s2)) in *.
  destruct Hb as [H|[H|[H H']]].
  - unfold declined in H. destruct (body1 _ _) as [[[]|x1] t1]; cbn [fst] in H; try contradiction. left. exact H.
  - unfold declined in H. destruct (body2 _ _) as [[[]|x2] t2]; cbn [fst] in H; try contradiction. right. left. exact H.
  - destruct (body1 _ _) as [[[]|x1] t1], (body2 _ _) as [[[]|x2] t2]; cbn [fst snd rrel] in H, H'; try contradiction.
    + destruct (SR_head _ _ _ _ H') as (u1 & u2 & L1 & L2 & Hu). cbn [f1 f2 fr] in L1, L2. rewrite L1, L2.
      apply Ha; [exact Hu|]. exact (SR_pop w fr sc1 sc2 _ _ H').
    + right. right. split; [exact H|]. exact (SR_pop w fr sc1 sc2 _ _ H').
Qed.

Lemma set_cell_rel ext fr w v1 v2 s1 s2 : SR root (ext ++ fr :: w) s1 s2 -> fst v1 = fst v2 ->
  RR (ext ++ fr :: w) (set_cell (f1 fr) v1 s1) (set_cell (f2 fr) v2 s2).
Proof. intros H Hv. unfold set_cell. apply RR_ret. apply SR_set; assumption. Qed.

(* catch_break at the label frame on top: a break to it ends the body normally in both runs, any other
   break passes in both *)
Lemma catch_break_rel w l1 l2 (m1 m2 : M unit) t1 t2 :
  SR root (mkfr true l1 l2 :: w) t1 t2 -> RR (mkfr true l1 l2 :: w) (m1 t1) (m2 t2) ->
  declined (catch_break l1 m1 t1) \/ declined (catch_break l2 m2 t2) \/
  (rrel w (fst (catch_break l1 m1 t1)) (fst (catch_break l2 m2 t2)) /\
   SR root (mkfr true l1 l2 :: w) (snd (catch_break l1 m1 t1)) (snd (catch_break l2 m2 t2))).
Proof.
  intros _ [H|[H|[H H']]]; unfold catch_break.
  - unfold declined in H. destruct (m1 t1) as [[[]|x1] u1]; cbn [fst] in H; try contradiction.
    destruct x1; try contradiction; left; exact I.
  - unfold declined in H. destruct (m2 t2) as [[[]|x2] u2]; cbn [fst] in H; try contradiction.
    destruct x2; try contradiction; right; left; exact I.
  - destruct (m1 t1) as [[[]|x1] u1], (m2 t2) as [[[]|x2] u2]; cbn [fst snd rrel] in H, H'; try contradiction.
    + right. right. split; [exact I|exact H'].
    + destruct x1, x2; cbn [xrel] in H; try contradiction; try discriminate H;
        try (right; right; split; [exact H|exact H']).
      destruct H as [fr' [[<-|Hin] (Hl & <- & <-)]].
      * cbn [f1 f2]. rewrite !N.eqb_refl. right. right. split; [exact I|exact H'].
      * pose proof H' as [HT (A & B & C & D & E)]. cbn [map f1 f2] in D, E. destruct D as [_ D], E as [_ E].
        assert (L1 : (f1 fr' < l1)%N) by (eapply desc_in; [exact D|apply in_map; exact Hin]).
        assert (L2 : (f2 fr' < l2)%N) by (eapply desc_in; [exact E|apply in_map; exact Hin]).
        replace (f1 fr' =? l1)%N with false by (symmetry; apply N.eqb_neq; lia).
        replace (f2 fr' =? l2)%N with false by (symmetry; apply N.eqb_neq; lia).
        right. right. split; [|exact H'].
        cbn [fst rrel xrel]. exists fr'. repeat split; assumption.
Qed.

(* environments of variables and labels hold no function; they agree on variables up to ids *)
Lemma env_rel_fun w rho1 rho2 name ar : env_rel w rho1 rho2 ->
  lookup_fun rho1 name ar = None /\ lookup_fun rho2 name ar = None.
Proof. induction 1; cbn [lookup_fun]; auto. Qed.

Lemma env_rel_var w rho1 rho2 name : env_rel w rho1 rho2 ->
  match lookup_var rho1 name, lookup_var rho2 name with
  | Some a, Some b => fst b = fst a
  | None, None => True
  | _, _ => False
  end.
Proof.
  induction 1; cbn [lookup_var]; auto. destruct (list_N_eqb n name); [symmetry; assumption|assumption].
Qed.

Lemma env_rel_label w rho1 rho2 name : env_rel w rho1 rho2 ->
  match lookup_label rho1 name, lookup_label rho2 name with
  | Some a, Some b => lab_in w a b
  | None, None => True
  | _, _ => False
  end.
Proof.
  induction 1; cbn [lookup_label]; auto. destruct (list_N_eqb n name); assumption.
Qed.

Definition sim (m : mode) (p : pq) : Prop :=
  forall n w rho1 rho2 x ps1 y k1 k2 s1 s2,
    env_rel w rho1 rho2 -> cfg m x ps1 y -> krel m w k1 k2 -> SR root w s1 s2 ->
    RR w (eval_q bs n rho1 (emb p) x ps1 k1 s1) (eval_q bs n rho2 (emb p) y None k2 s2).

Ltac fuel n := destruct n as [|n]; [left; exact I|].
Ltac fold_eval :=
  repeat match goal with
         | |- context [step_eval_q (evals_n bs ?m)] => change (step_eval_q (evals_n bs m)) with (eval_q bs (S m))
         | |- context [ev_q (step bs (evals_n bs ?m))] => change (ev_q (step bs (evals_n bs m))) with (eval_q bs (S m))
         | |- context [ev_q (evals_n bs ?m)] => change (ev_q (evals_n bs m)) with (eval_q bs m)
         end.
Ltac red_eval := cbn [evals_n step ev_q step_eval_q push_defs fold_left ev_t step_eval_t rev app ev_index ev_call].
(* a continuation built from k, used at an extension of the current world *)
Ltac kext := let ext := fresh "ext" in let z := fresh "z" in let ps' := fresh "ps'" in let z' := fresh "z'" in
             let Hz := fresh "Hz" in let t1 := fresh "t1" in let t2 := fresh "t2" in let Ht := fresh "Ht" in
             intros ext z ps' z' Hz t1 t2 Ht.

Lemma sim_id m : sim m PId.
Proof.
  intros n w rho1 rho2 x ps1 y k1 k2 s1 s2 He Hc Hk HR. fuel n. fuel n.
  apply (krel_local _ _ _ _ Hk); assumption.
Qed.

Lemma sim_idx m i : index_key i <> None -> sim m (PIdx i).
Proof.
  intros Hi n w rho1 rho2 x ps1 y k1 k2 s1 s2 He Hc Hk HR.
  destruct (index_key i) as [key|] eqn:Ek; [|congruence].
  cbn [emb]. unfold eval_q, q_term. fuel n. red_eval. fuel n. red_eval. fuel n. red_eval.
  unfold step_eval_index. rewrite Ek. fuel n. red_eval.
  eapply index_rel; try eassumption. apply krel_local. exact Hk.
Qed.

Lemma sim_iter m : sim m PIter.
Proof.
  intros n w rho1 rho2 x ps1 y k1 k2 s1 s2 He Hc Hk HR. do 3 fuel n.
  cbn [emb]. unfold eval_q. red_eval.
  eapply iterate_rel; try eassumption. apply krel_local. exact Hk.
Qed.

Lemma sim_pipe m a b : sim m a -> sim m b -> sim m (PPipe a b).
Proof.
  intros Ha Hb n w rho1 rho2 x ps1 y k1 k2 s1 s2 He Hc Hk HR. fuel n.
  cbn [emb]. rewrite !pipe_law. apply Ha; try assumption.
  kext. apply Hb; try assumption; [apply env_rel_mono; exact He|apply krel_mono; exact Hk].
Qed.

Lemma sim_comma m a b : sim m a -> sim m b -> sim m (PComma a b).
Proof.
  intros Ha Hb n w rho1 rho2 x ps1 y k1 k2 s1 s2 He Hc Hk HR. fuel n.
  cbn [emb]. rewrite !comma_law. apply RR_bind.
  - apply Ha; assumption.
  - intros t1 t2 Ht. apply Hb; assumption.
Qed.

Lemma sim_empty m : sim m PEmpty.
Proof.
  intros n w rho1 rho2 x ps1 y k1 k2 s1 s2 He Hc Hk HR. do 3 fuel n.
  cbn [emb]. unfold eval_q, q_call, q_term. red_eval.
  unfold step_call. cbn [List.length].
  replace (is_var_name (codes "empty") && Nat.eqb 0 0) with false by reflexivity.
  destruct (env_rel_fun _ _ _ (codes "empty") O He) as [-> ->]. rewrite Hempty.
  apply RR_ret. exact HR.
Qed.

Lemma sim_error m : sim m PError.
Proof.
  intros n w rho1 rho2 x ps1 y k1 k2 s1 s2 He Hc Hk HR. do 3 fuel n.
  cbn [emb]. unfold eval_q, q_call, q_term. red_eval.
  unfold step_call. cbn [List.length].
  replace (is_var_name (codes "error") && Nat.eqb 0 0) with false by reflexivity.
  destruct (env_rel_fun _ _ _ (codes "error") O He) as [-> ->]. rewrite Herror.
  unfold guard_repsens. replace (is_formatter (codes "error")) with false by reflexivity.
  replace (list_N_eqb (codes "error") nm_21) with false by reflexivity.
  replace (list_N_eqb (codes "error") nm_27) with false by reflexivity.
  replace (list_N_eqb (codes "error") nm_25) with false by reflexivity.
  replace (list_N_eqb (codes "error") nm_26) with false by reflexivity.
  replace (list_N_eqb (codes "error") nm_0 || list_N_eqb (codes "error") nm_22) with false by reflexivity.
  replace (call_native (codes "error") (fst x) []) with (Some (fn_error0 (fst x))) by reflexivity.
  replace (call_native (codes "error") (fst y) []) with (Some (fn_error0 (fst y))) by reflexivity.
  rewrite (proj1 Hc). unfold fn_error0. cbn [lift]. apply raise_err_rel. exact HR.
Qed.

(* the branches of an if, after the condition *)
Lemma sim_if_gen m c (a1 a2 b1 b2 : M unit) n w rho1 rho2 x ps1 y s1 s2 :
  sim MPlain c -> env_rel w rho1 rho2 -> cfg m x ps1 y -> SR root w s1 s2 ->
  (forall ext t1 t2, SR root (ext ++ w) t1 t2 -> RR (ext ++ w) (a1 t1) (a2 t2)) ->
  (forall ext t1 t2, SR root (ext ++ w) t1 t2 -> RR (ext ++ w) (b1 t1) (b2 t2)) ->
  RR w (eval_q bs n rho1 (emb c) x None (fun z _ => if truthy (fst z) then a1 else b1) s1)
       (eval_q bs n rho2 (emb c) y None (fun z _ => if truthy (fst z) then a2 else b2) s2).
Proof.
  intros Hsc He Hc HR Ha Hb. apply Hsc; try assumption; [eapply cfg_plain; exact Hc|].
  intros ext z ps' z' [Hz _] t1 t2 Ht. rewrite Hz. destruct (truthy (fst z)); [apply Ha|apply Hb]; exact Ht.
Qed.

Lemma sim_if m c a b : sim MPlain c -> sim m a -> sim m b -> sim m (PIf c a b).
Proof.
  intros Hsc Ha Hb n w rho1 rho2 x ps1 y k1 k2 s1 s2 He Hc Hk HR. do 2 fuel n.
  cbn [emb]. unfold eval_q, q_term. red_eval. cbn [if_chain].
  apply (sim_if_gen m c _ _ _ _ n w rho1 rho2 x ps1 y s1 s2); try assumption; intros ext t1 t2 Ht;
    [apply Ha|apply Hb]; try assumption; try (apply env_rel_mono; exact He); apply krel_mono; exact Hk.
Qed.

Lemma sim_ifne m c a : sim MPlain c -> sim m a -> sim m (PIfNoElse c a).
Proof.
  intros Hsc Ha n w rho1 rho2 x ps1 y k1 k2 s1 s2 He Hc Hk HR. do 2 fuel n.
  cbn [emb]. unfold eval_q, q_term. red_eval. cbn [if_chain].
  apply (sim_if_gen m c _ _ _ _ n w rho1 rho2 x ps1 y s1 s2); try assumption; intros ext t1 t2 Ht.
  - apply Ha; try assumption; [apply env_rel_mono; exact He|apply krel_mono; exact Hk].
  - apply Hk; assumption.
Qed.

Lemma sim_try m p : sim m p -> sim m (PTry p).
Proof.
  intros Hp n w rho1 rho2 x ps1 y k1 k2 s1 s2 He Hc Hk HR. do 2 fuel n.
  cbn [emb]. unfold eval_q, q_term. red_eval.
  apply RR_try.
  - apply Hp; try assumption. kext. apply RR_down. apply Hk; assumption.
  - intros val t1 t2 Ht. apply RR_ret. exact Ht.
Qed.

Lemma sim_lit t : is_lit t = true -> sim MPlain (PLit t).
Proof.
  intros Ht n w rho1 rho2 x ps1 y k1 k2 s1 s2 He Hc Hk HR. do 2 fuel n.
  assert (Hp : forall u, RR w (k1 (plain u) ps1 s1) (k2 (plain u) None s2)).
  { intros u. apply (krel_local _ _ _ _ Hk); [|exact HR]. split; [reflexivity|apply Hc]. }
  cbn [emb]. unfold eval_q, q_term. red_eval.
  destruct t; try discriminate Ht; try apply Hp.
  destruct s as [str [qs|]]; [discriminate Ht|]. fuel n. cbn [ev_string evals_n step step_eval_string]. apply Hp.
Qed.

Lemma sim_var x0 : is_var_name x0 = true -> sim MPlain (PVar x0).
Proof.
  intros Hx n w rho1 rho2 x ps1 y k1 k2 s1 s2 He Hc Hk HR. do 3 fuel n.
  cbn [emb]. unfold eval_q, q_call, q_term. red_eval.
  unfold step_call. cbn [List.length]. rewrite Hx. cbn [andb Nat.eqb].
  pose proof (env_rel_var _ _ _ x0 He) as Hv.
  destruct (lookup_var rho1 x0) as [a|], (lookup_var rho2 x0) as [b|]; try contradiction.
  - apply (krel_local _ _ _ _ Hk); [|exact HR]. split; [exact Hv|apply Hc].
  - destruct (list_N_eqb x0 nm_0); [|left; exact I]. apply (krel_local _ _ _ _ Hk); [|exact HR]. split; [reflexivity|apply Hc].
Qed.

Lemma sim_native0 name : native0_ok name = true -> lookup_builtin bs name 0 = None -> sim MPlain (PNative0 name).
Proof.
  intros Hn Hb n w rho1 rho2 x ps1 y k1 k2 s1 s2 He Hc Hk HR. do 3 fuel n.
  unfold native0_ok in Hn. repeat (apply andb_true_iff in Hn as [Hn ?]).
  repeat match goal with H : negb _ = true |- _ => apply negb_true_iff in H end.
  cbn [emb]. unfold eval_q, q_call, q_term. red_eval.
  unfold step_call. cbn [List.length]. rewrite Hn. cbn [andb].
  destruct (env_rel_fun _ _ _ name O He) as [-> ->]. rewrite Hb.
  unfold guard_repsens.
  repeat match goal with H : _ = false |- _ => rewrite H end. cbn [orb].
  rewrite (proj1 Hc). destruct (call_native name (fst x) []) as [r|]; [|left; exact I].
  apply lift_rel; [exact HR|]. intros u _. apply (krel_local _ _ _ _ Hk); [|exact HR]. split; [reflexivity|apply Hc].
Qed.

Lemma sim_binop o a b : binop_ok o = true -> sim MPlain a -> sim MPlain b -> sim MPlain (PBinop o a b).
Proof.
  intros Ho Ha Hb n w rho1 rho2 x ps1 y k1 k2 s1 s2 He Hc Hk HR. fuel n.
  assert (Hps : ps1 = None) by apply Hc. subst ps1.
  assert (Hp : forall ext u t1 t2, SR root (ext ++ w) t1 t2 -> RR (ext ++ w) (k1 (plain u) None t1) (k2 (plain u) None t2)).
  { intros ext u t1 t2 Ht. apply Hk; [|exact Ht]. split; reflexivity. }
  cbn [emb]. unfold eval_q, q_bin. red_eval.
  assert (Harith : forall f : jv -> jv -> nres,
    RR w (ev_q (evals_n bs n) rho1 (emb b) x None (fun rv ps1 => ev_q (evals_n bs n) rho1 (emb a) x ps1
            (fun lv_ ps2 => lift (f (fst lv_) (fst rv)) (fun u => k1 (plain u) ps2))) s1)
         (ev_q (evals_n bs n) rho2 (emb b) y None (fun rv ps1 => ev_q (evals_n bs n) rho2 (emb a) y ps1
            (fun lv_ ps2 => lift (f (fst lv_) (fst rv)) (fun u => k2 (plain u) ps2))) s2)).
  { intros f. fold_eval. apply Hb; try assumption. intros ext z ps' z' [Hz Hps] t1 t2 Ht. cbn in Hps. subst ps'.
    apply Ha; try assumption; [apply env_rel_mono; exact He|].
    intros ext' u ps'' u' [Hu Hps] v1 v2 Hv. cbn in Hps. subst ps''.
    rewrite Hz, Hu. apply lift_rel; [exact Hv|]. intros r _. rewrite app_assoc in *. apply Hp. exact Hv. }
  destruct o; try discriminate Ho; cbn [op_binop]; try apply Harith.
  - (* and *)
    apply Ha; try assumption. intros ext z ps' z' [Hz _] t1 t2 Ht. rewrite Hz.
    destruct (truthy (fst z)); [|apply Hp; exact Ht].
    apply Hb; try assumption; [apply env_rel_mono; exact He|].
    intros ext' u ps'' u' [Hu _] v1 v2 Hv. rewrite Hu. rewrite app_assoc in *. apply Hp. exact Hv.
  - (* or *)
    apply Ha; try assumption. intros ext z ps' z' [Hz _] t1 t2 Ht. rewrite Hz.
    destruct (truthy (fst z)); [apply Hp; exact Ht|].
    apply Hb; try assumption; [apply env_rel_mono; exact He|].
    intros ext' u ps'' u' [Hu _] v1 v2 Hv. rewrite Hu. rewrite app_assoc in *. apply Hp. exact Hv.
Qed.

Lemma sim_bind m e x0 p : is_var_name x0 = true -> sim MPlain e -> sim m p -> sim m (PBind e x0 p).
Proof.
  intros Hx Hse Hp n w rho1 rho2 x ps1 y k1 k2 s1 s2 He Hc Hk HR. do 2 fuel n.
  cbn [emb]. unfold eval_q. red_eval.
  destruct syn_depth_S as [d Hd]. rewrite Hd.
  destruct x0 as [|c x0]; [discriminate Hx|].
  cbn [flat_map pattern_vars app fold_left alts_loop ev_bindpat step step_bind_pat].
  fold_eval. apply Hse; try assumption; [eapply cfg_plain; exact Hc|].
  intros ext z ps' z' [Hz _] t1 t2 Ht. apply Hp; try assumption; [|apply krel_mono; exact Hk].
  apply ER_var; [symmetry; exact Hz|]. apply ER_var; [reflexivity|apply env_rel_mono; exact He].
Qed.

Lemma sim_idxdyn m e : query_index_key (emb e) = None -> sim MPlain e -> sim m (PIdxDyn e).
Proof.
  intros Hq Hse n w rho1 rho2 x ps1 y k1 k2 s1 s2 He Hc Hk HR.
  cbn [emb]. unfold eval_q, q_term. fuel n. red_eval. fuel n. red_eval. fuel n. red_eval.
  unfold step_eval_index. cbn [index_key negb]. rewrite Hq. fuel n. red_eval.
  fold_eval. apply Hse; try assumption; [eapply cfg_plain; exact Hc|].
  intros ext z ps' z' [Hz _] t1 t2 Ht. rewrite Hz. eapply index_rel; try eassumption. apply Hk.
Qed.

Lemma sim_getpath m e : sim MPlain e -> sim m (PGetpath e).
Proof.
  intros Hse n w rho1 rho2 x ps1 y k1 k2 s1 s2 He Hc Hk HR. do 3 fuel n.
  cbn [emb]. unfold eval_q, q_call, q_term. red_eval.
  unfold step_call. cbn [List.length].
  replace (is_var_name (codes "getpath") && Nat.eqb 1 0) with false by reflexivity.
  destruct (env_rel_fun _ _ _ (codes "getpath") 1%nat He) as [-> ->]. rewrite Hgetpath.
  unfold guard_repsens. replace (is_formatter (codes "getpath")) with false by reflexivity.
  replace (list_N_eqb (codes "getpath") nm_29) with false by reflexivity.
  replace (list_N_eqb (codes "getpath") nm_24) with true by reflexivity.
  cbn [ev_q step]. fold_eval. apply Hse; try assumption; [eapply cfg_plain; exact Hc|].
  intros ext z ps' z' [Hz _] t1 t2 Ht. rewrite Hz, (proj1 Hc).
  apply lift_rel; [exact Ht|]. intros u Hu. destruct Hc as [Hy Hc]. destruct m.
  - destruct Hc as [pp [-> HL]].
    destruct (fst z) as [| | | |elems|] eqn:Ez; try discriminate Hu.
    destruct elems as [|e0 es].
    + unfold bind. rewrite (check_linked _ _ _ _ HL). cbn in Hu. injection Hu as <-.
      apply Hk; [|exact Ht]. split; [reflexivity|]. eexists. split; [reflexivity|].
      destruct HL as (L1 & L2 & L3 & L4). repeat split; assumption.
    + unfold bind. rewrite (check_linked _ _ _ _ HL). unfold fresh. cbn [fst snd].
      apply Hk; [|apply SR_bump; exact Ht]. split; [reflexivity|]. eexists. split; [reflexivity|].
      destruct HL as (L1 & L2 & L3 & L4). apply getpath_ok_nav in Hu. rewrite L2 in Hu.
      repeat split; cbn [fst snd lid lv rpath].
      * rewrite rev_app_distr, rev_involutive. rewrite (nav_path_app _ _ _ _ L3). exact Hu.
      * eapply nav_path_wf; eassumption.
  - subst ps1. apply Hk; [|exact Ht]. split; reflexivity.
Qed.

Lemma sim_select m c : sim MPlain c -> sim m (PSelect c).
Proof.
  intros Hsc n w rho1 rho2 x ps1 y k1 k2 s1 s2 He Hc Hk HR. do 3 fuel n.
  cbn [emb]. unfold eval_q, q_call, q_term. red_eval.
  unfold step_call. cbn [List.length].
  replace (is_var_name (codes "select") && Nat.eqb 1 0) with false by reflexivity.
  destruct (env_rel_fun _ _ _ (codes "select") 1%nat He) as [-> ->]. rewrite Hselect.
  unfold select_def, q_call, q_identity, q_term.
  cbn [combine fold_left cps_fold fst snd].
  replace (is_var_name (codes "f")) with false by reflexivity.
  apply RR_tick; [exact HR|]. intros t1 t2 Ht.
  fuel n. red_eval. fuel n. red_eval. cbn [if_chain].
  fuel n. red_eval. fuel n. red_eval. fuel n. red_eval.
  unfold step_call. cbn [List.length].
  replace (is_var_name (codes "f") && Nat.eqb 0 0) with false by reflexivity.
  cbn [lookup_fun].
  replace (Nat.eqb 0 0 && list_N_eqb (strip_dollar (codes "f")) (codes "f")) with true by reflexivity.
  apply RR_tick; [exact Ht|]. intros u1 u2 Hu.
  fold_eval. apply Hsc; try assumption; [eapply cfg_plain; exact Hc|].
  intros ext z ps' z' [Hz _] v1 v2 Hv. rewrite Hz. destruct (truthy (fst z)).
  - apply Hk; assumption.
  - rewrite Hempty. apply RR_ret. exact Hv.
Qed.

(* the suffix form of `?` protects the last suffix only (compileTermSuffix) *)
Lemma sim_optidx m i : index_key i <> None -> sim m (POptIdx i).
Proof.
  intros Hi n w rho1 rho2 x ps1 y k1 k2 s1 s2 He Hc Hk HR.
  destruct (index_key i) as [key|] eqn:Ek; [|congruence].
  cbn [emb]. unfold eval_q. fuel n. red_eval. fuel n. red_eval.
  apply RR_try; [|intros val t1 t2 Ht; apply RR_ret; exact Ht].
  fuel n. red_eval. fuel n. red_eval. unfold step_eval_index. rewrite Ek. fuel n. red_eval.
  eapply index_rel; try eassumption.
  intros z ps' z' Hz t1 t2 Ht. apply RR_down. apply (krel_local _ _ _ _ Hk); assumption.
Qed.

Lemma sim_optiter m : sim m POptIter.
Proof.
  intros n w rho1 rho2 x ps1 y k1 k2 s1 s2 He Hc Hk HR.
  cbn [emb]. unfold eval_q. fuel n. red_eval. fuel n. red_eval. fuel n. red_eval.
  apply RR_try; [|intros val t1 t2 Ht; apply RR_ret; exact Ht].
  eapply iterate_rel; try eassumption.
  intros z ps' z' Hz t1 t2 Ht. apply RR_down. apply (krel_local _ _ _ _ Hk); assumption.
Qed.

(* terms with suffix lists *)
Lemma last_case {A} (l : list A) : l = [] \/ exists l' x, l = l' ++ [x].
Proof. induction l as [|x l' _] using rev_ind; [left; reflexivity|right; exists l', x; reflexivity]. Qed.

Definition simT_at (m : mode) (kind : termkind) (ss : list psuf) : Prop :=
  forall n w rho1 rho2 x ps1 y k1 k2 s1 s2, env_rel w rho1 rho2 -> cfg m x ps1 y -> klocal m w k1 k2 -> SR root w s1 s2 ->
  RR w (ev_t (evals_n bs n) rho1 (Term kind (map emb_suf ss)) x ps1 k1 s1)
       (ev_t (evals_n bs n) rho2 (Term kind (map emb_suf ss)) y None k2 s2).

Lemma simT_base m kind : (kind = TIdentity \/ exists i, kind = TIndex i /\ index_key i <> None) -> simT_at m kind [].
Proof.
  intros Hkind n w rho1 rho2 x ps1 y k1 k2 s1 s2 He Hc Hk HR.
  cbn [map]. fuel n. destruct Hkind as [->|[i [-> Hi]]].
  - red_eval. apply Hk; assumption.
  - destruct (index_key i) as [key|] eqn:Ek; [|congruence].
    red_eval. fuel n. red_eval. unfold step_eval_index. rewrite Ek. fuel n. red_eval.
    eapply index_rel; eassumption.
Qed.

Lemma klocal_protect m w k1 k2 (in1 in2 : tv -> pst -> K -> M unit) :
  klocal m w k1 k2 ->
  (forall z ps' z' j1 j2 t1 t2, cfg m z ps' z' -> klocal m w j1 j2 -> SR root w t1 t2 ->
     RR w (in1 z ps' j1 t1) (in2 z' None j2 t2)) ->
  klocal m w (fun x ps' => try_catch (in1 x ps' (fun y ps'' => down (k1 y ps''))) (fun _ => ret tt))
             (fun x ps' => try_catch (in2 x ps' (fun y ps'' => down (k2 y ps''))) (fun _ => ret tt)).
Proof.
  intros Hk Hin z ps' z' Hz t1 t2 Ht. apply RR_try; [|intros val u1 u2 Hu; apply RR_ret; exact Hu].
  apply Hin; try assumption. intros q ps'' q' Hq u1 u2 Hu. apply RR_down. apply Hk; assumption.
Qed.

Lemma simT m kind : (kind = TIdentity \/ exists i, kind = TIndex i /\ index_key i <> None) ->
  forall len ss, (List.length ss <= len)%nat -> Forall suf_ok ss -> simT_at m kind ss.
Proof.
  intros Hkind len. induction len as [|len IH]; intros ss Hlen Hss.
  { destruct ss; [apply simT_base; exact Hkind|cbn in Hlen; lia]. }
  destruct (last_case ss) as [->|(ss1 & s & ->)]; [apply simT_base; exact Hkind|].
  rewrite app_length in Hlen. cbn in Hlen.
  apply Forall_app in Hss as [Hss1 Hs]. inversion Hs as [|? ? Hs1 _]; subst.
  assert (IH1 : simT_at m kind ss1) by (apply IH; [lia|exact Hss1]).
  intros n w rho1 rho2 x ps1 y k1 k2 st1 st2 He Hc Hk HR.
  rewrite map_app. cbn [map]. fuel n. cbn [evals_n step ev_t]. unfold step_eval_t. rewrite !rev_unit.
  destruct s as [i| |]; cbn [emb_suf suf_ok] in *; cbv beta iota.
  - rewrite !rev_involutive. destruct (index_key i) as [key|] eqn:Ek; [|congruence].
    fuel n. cbn [evals_n step ev_index]. unfold step_eval_index. rewrite Ek.
    apply IH1; try assumption. intros z ps' z' Hz t1 t2 Ht. eapply index_rel; eassumption.
  - rewrite !rev_involutive. apply IH1; try assumption. intros z ps' z' Hz t1 t2 Ht. eapply iterate_rel; eassumption.
  - (* ? : protects the suffix before it *)
    destruct (last_case ss1) as [->|(ss2 & sb & ->)].
    + cbn [map rev]. cbv beta iota.
      apply (klocal_protect m w k1 k2 (fun x0 ps' kk => ev_t (evals_n bs n) rho1 (Term kind []) x0 ps' kk)
                                        (fun x0 ps' kk => ev_t (evals_n bs n) rho2 (Term kind []) x0 ps' kk)); try assumption.
      intros z ps' z' j1 j2 t1 t2 Hz Hj Ht. apply (simT_base m kind Hkind); assumption.
    + rewrite map_app. cbn [map]. rewrite !rev_unit.
      apply Forall_app in Hss1 as [Hss2 Hs2]. inversion Hs2 as [|? ? Hs2' _]; subst.
      rewrite app_length in Hlen. cbn in Hlen.
      assert (IH2 : simT_at m kind ss2) by (apply IH; [lia|exact Hss2]).
      destruct sb as [i| |]; cbn [emb_suf suf_ok] in *; cbv beta iota.
      * rewrite !rev_involutive. apply IH2; try assumption.
        apply (klocal_protect m w k1 k2 (fun x0 ps' kk => ev_t (evals_n bs n) rho1 (Term (TIndex i) []) x0 ps' kk)
                                          (fun x0 ps' kk => ev_t (evals_n bs n) rho2 (Term (TIndex i) []) x0 ps' kk)); try assumption.
        intros z ps' z' j1 j2 t1 t2 Hz Hj Ht.
        apply (simT_base m (TIndex i)); try assumption. right. exists i. split; [reflexivity|assumption].
      * rewrite !rev_involutive. apply IH2; try assumption.
        apply (klocal_protect m w k1 k2 (fun x0 ps' kk => iterate x0 ps' kk) (fun x0 ps' kk => iterate x0 ps' kk)); try assumption.
        intros z ps' z' j1 j2 t1 t2 Hz Hj Ht. eapply iterate_rel; eassumption.
      * cbn [rev]. rewrite !rev_involutive.
        change [Suffix None false true] with (map emb_suf [SOpt]). rewrite <- !map_app.
        assert (IH3 : simT_at m kind (ss2 ++ [SOpt])) by (apply IH; [rewrite app_length; cbn; lia|apply Forall_app; split; assumption]).
        apply RR_try; [|intros val u1 u2 Hu; apply RR_ret; exact Hu].
        apply IH3; try assumption. intros q ps'' q' Hq u1 u2 Hu. apply RR_down. apply Hk; assumption.
Qed.

Lemma sim_chain m h ss : match h with Some i => index_key i <> None | None => True end -> Forall suf_ok ss ->
  sim m (PChain h ss).
Proof.
  intros Hh Hss n w rho1 rho2 x ps1 y k1 k2 s1 s2 He Hc Hk HR. fuel n.
  cbn [emb]. unfold eval_q. cbn [evals_n step ev_q step_eval_q push_defs fold_left].
  assert (Hkind : (match h with Some i => TIndex i | None => TIdentity end) = TIdentity \/
                  exists i, (match h with Some i => TIndex i | None => TIdentity end) = TIndex i /\ index_key i <> None).
  { destruct h as [i|]; [right; exists i; split; [reflexivity|exact Hh]|left; reflexivity]. }
  apply (simT m _ Hkind (List.length ss) ss (le_n _) Hss); try assumption. apply krel_local. exact Hk.
Qed.

(* -- constructs with frames -- *)
Lemma RR_pop_cell fr w r1 r2 : f_lab fr = false -> RR (fr :: w) r1 r2 ->
  declined r1 \/ declined r2 \/ (rrel w (fst r1) (fst r2) /\ SR root (fr :: w) (snd r1) (snd r2)).
Proof.
  intros Hf [H|[H|[H H']]]; [left; exact H|right; left; exact H|]. right. right. split; [|exact H'].
  destruct (fst r1) as [[]|x1], (fst r2) as [[]|x2]; cbn [rrel] in *; try tauto. eapply xrel_pop_cell; eassumption.
Qed.

Lemma app_cons_assoc {A} (ext : list A) fr w : ext ++ fr :: w = (ext ++ [fr]) ++ w.
Proof. rewrite <- app_assoc. reflexivity. Qed.

Lemma sim_alt m a b : sim m a -> sim m b -> sim m (PAlt a b).
Proof.
  intros Ha Hb n w rho1 rho2 x ps1 y k1 k2 s1 s2 He Hc Hk HR. fuel n.
  cbn [emb]. unfold eval_q, q_bin. red_eval.
  apply (with_cell_rel w false); [exact HR|reflexivity| |].
  - intros t1 t2 Ht. apply RR_pop_cell; [reflexivity|]. fold_eval.
    apply Ha; try assumption; [apply (env_rel_mono [_]); exact He|].
    intros ext z ps' z' Hz u1 u2 Hu. rewrite (proj1 Hz). destruct (truthy (fst z)); [|apply RR_ret; exact Hu].
    apply RR_bind.
    + apply (set_cell_rel ext (mkfr false (nextid s1) (nextid s2)) w); [exact Hu|reflexivity].
    + intros v1 v2 Hv. rewrite app_cons_assoc in *. apply Hk; assumption.
  - intros v1 v2 t1 t2 Hv Ht. rewrite Hv. destruct (truthy (fst v2)); [apply RR_ret; exact Ht|].
    fold_eval. apply Hb; assumption.
Qed.

Lemma sim_first m p : sim m p -> sim m (PFirst p).
Proof.
  intros Hp n w rho1 rho2 x ps1 y k1 k2 s1 s2 He Hc Hk HR. do 3 fuel n.
  cbn [emb]. unfold eval_q, q_call, q_term. red_eval.
  unfold step_call. cbn [List.length].
  replace (is_var_name (codes "first") && Nat.eqb 1 0) with false by reflexivity.
  destruct (env_rel_fun _ _ _ (codes "first") 1%nat He) as [-> ->]. rewrite Hfirst.
  unfold first_def, q_call, q_identity, q_term, q_bin.
  cbn [combine fold_left cps_fold fst snd].
  replace (is_var_name (codes "g")) with false by reflexivity.
  apply RR_tick; [exact HR|]. intros t1 t2 Ht.
  fuel n. red_eval. fuel n. red_eval.
  unfold with_label. apply (with_cell_rel w true); [exact Ht|reflexivity| |].
  - intros u1 u2 Hu. apply catch_break_rel; [exact Hu|].
    fuel n. red_eval. fuel n. red_eval. fuel n. red_eval. fuel n. red_eval.
    unfold step_call. cbn [List.length].
    replace (is_var_name (codes "g") && Nat.eqb 0 0) with false by reflexivity.
    cbn [lookup_fun].
    replace (Nat.eqb 0 0 && list_N_eqb (strip_dollar (codes "g")) (codes "g")) with true by reflexivity.
    apply RR_tick; [exact Hu|]. intros v1 v2 Hv.
    fold_eval. apply Hp; try assumption; [apply (env_rel_mono [_]); exact He|].
    intros ext z ps' z' Hz r1 r2 Hr.
    cbn [evals_n step ev_q step_eval_q push_defs fold_left ev_t step_eval_t rev app lookup_label].
    replace (list_N_eqb (codes "$out") (codes "$out")) with true by reflexivity.
    apply RR_bind.
    + rewrite app_cons_assoc in *. apply Hk; assumption.
    + intros q1 q2 Hq. right. right. split; [|exact Hq]. cbn [fst rrel xrel].
      exists (mkfr true (nextid t1) (nextid t2)). split; [apply in_or_app; right; left; reflexivity|repeat split].
  - intros v1 v2 r1 r2 _ Hr. apply RR_ret. exact Hr.
Qed.

(* -- recursion: def recurse(f): def r: ., (f | r); r;  by induction on the fuel -- *)
Definition env_r (f : pq) (rho : env) : env := [BFun rec_r_def; BClos (strip_dollar (codes "f")) (emb f) rho].

Lemma env_r_lookup_r f rho : lookup_fun (env_r f rho) (codes "r") 0 = Some (CFun rec_r_def (env_r f rho)).
Proof. reflexivity. Qed.
Lemma env_r_lookup_f f rho : lookup_fun (env_r f rho) (codes "f") 0 = Some (CClos (emb f) rho).
Proof. reflexivity. Qed.

Lemma rec_loop m f : sim m f ->
  forall n w rho1 rho2 x ps1 y k1 k2 s1 s2,
    env_rel w rho1 rho2 -> cfg m x ps1 y -> krel m w k1 k2 -> SR root w s1 s2 ->
    RR w (eval_q bs n (env_r f rho1) (q_call (codes "r") []) x ps1 k1 s1)
         (eval_q bs n (env_r f rho2) (q_call (codes "r") []) y None k2 s2).
Proof.
  intros Hf n. induction n as [n IH] using (well_founded_induction lt_wf).
  intros w rho1 rho2 x ps1 y k1 k2 s1 s2 He Hc Hk HR.
  destruct n as [|n]; [left; exact I|]. destruct n as [|n]; [left; exact I|]. destruct n as [|n]; [left; exact I|].
  unfold eval_q, q_call, q_term. red_eval.
  unfold step_call. cbn [List.length].
  replace (is_var_name (codes "r") && Nat.eqb 0 0) with false by reflexivity.
  rewrite !env_r_lookup_r.
  apply RR_tick; [exact HR|]. intros t1 t2 Ht.
  unfold rec_r_def. cbn [combine fold_left cps_fold].
  unfold q_bin, q_identity, q_call, q_term.
  destruct n as [|n]; [left; exact I|]. red_eval.
  destruct n as [|n]; [left; exact I|]. red_eval.
  destruct n as [|n]; [left; exact I|]. red_eval.
  apply RR_bind; [apply (krel_local _ _ _ _ Hk); assumption|]. intros u1 u2 Hu.
  destruct n as [|n]; [left; exact I|]. red_eval.
  destruct n as [|n]; [left; exact I|]. red_eval.
  destruct n as [|n]; [left; exact I|]. red_eval.
  destruct n as [|n]; [left; exact I|]. red_eval.
  unfold step_call at 1 3. cbn [List.length].
  replace (is_var_name (codes "f") && Nat.eqb 0 0) with false by reflexivity.
  rewrite !env_r_lookup_f.
  apply RR_tick; [exact Hu|]. intros v1 v2 Hv.
  fold_eval. apply Hf; try assumption.
  intros ext z ps' z' Hz r1 r2 Hr.
  change (RR (ext ++ w) (eval_q bs (S (S (S n))) (env_r f rho1) (q_call (codes "r") []) z ps' k1 r1)
                        (eval_q bs (S (S (S n))) (env_r f rho2) (q_call (codes "r") []) z' None k2 r2)).
  apply IH; try assumption; [lia|apply env_rel_mono; exact He|apply krel_mono; exact Hk].
Qed.

Lemma sim_recurse1 m f : sim m f -> sim m (PRecurse1 f).
Proof.
  intros Hf n w rho1 rho2 x ps1 y k1 k2 s1 s2 He Hc Hk HR. do 3 fuel n.
  cbn [emb]. unfold eval_q, q_call, q_term. red_eval.
  unfold step_call. cbn [List.length].
  replace (is_var_name (codes "recurse") && Nat.eqb 1 0) with false by reflexivity.
  destruct (env_rel_fun _ _ _ (codes "recurse") 1%nat He) as [-> ->]. rewrite Hrec1.
  unfold recurse1_def.
  cbn [combine fold_left cps_fold fst snd].
  replace (is_var_name (codes "f")) with false by reflexivity.
  apply RR_tick; [exact HR|]. intros t1 t2 Ht.
  fuel n. cbn [evals_n step ev_q step_eval_q push_defs fold_left].
  change (RR w (eval_q bs (S n) (env_r f rho1) (q_call (codes "r") []) x ps1 k1 t1)
               (eval_q bs (S n) (env_r f rho2) (q_call (codes "r") []) y None k2 t2)).
  apply (rec_loop m); assumption.
Qed.

Lemma sim_recurse0_gen m (q : query) : (q = q_call (codes "recurse") [] \/ q = q_term TRecurse) ->
  forall n w rho1 rho2 x ps1 y k1 k2 s1 s2,
    env_rel w rho1 rho2 -> cfg m x ps1 y -> krel m w k1 k2 -> SR root w s1 s2 ->
    RR w (eval_q bs n rho1 q x ps1 k1 s1) (eval_q bs n rho2 q y None k2 s2).
Proof.
  intros Hq n w rho1 rho2 x ps1 y k1 k2 s1 s2 He Hc Hk HR.
  assert (Hcall : forall n0, RR w (ev_call (evals_n bs n0) rho1 (codes "recurse") [] x ps1 k1 s1)
                                  (ev_call (evals_n bs n0) rho2 (codes "recurse") [] y None k2 s2)).
  { intros n0. destruct n0 as [|n0]; [left; exact I|].
    cbn [evals_n step ev_call]. unfold step_call. cbn [List.length].
    replace (is_var_name (codes "recurse") && Nat.eqb 0 0) with false by reflexivity.
    destruct (env_rel_fun _ _ _ (codes "recurse") 0%nat He) as [-> ->]. rewrite Hrec0.
    unfold recurse0_def. cbn [combine fold_left cps_fold fst snd].
    apply RR_tick; [exact HR|]. intros t1 t2 Ht.
    apply (sim_recurse1 m POptIter (sim_optiter m) n0 w [] []); try assumption. constructor. }
  destruct Hq as [-> | ->]; unfold eval_q, q_call, q_term; fuel n; red_eval; fuel n; red_eval; apply Hcall.
Qed.

Lemma sim_recurse0 m : sim m PRecurse0.
Proof. intros n w rho1 rho2 x ps1 y k1 k2 s1 s2. cbn [emb]. apply sim_recurse0_gen. left. reflexivity. Qed.
Lemma sim_dotdot m : sim m PDotDot.
Proof. intros n w rho1 rho2 x ps1 y k1 k2 s1 s2. cbn [emb]. apply sim_recurse0_gen. right. reflexivity. Qed.

(* -- limit: label + foreach with a counter cell -- *)
(* calls, one run at a time *)
Lemma call_var E rho nm xv v ps k : is_var_name nm = true -> lookup_var rho nm = Some xv ->
  step_call bs E rho nm [] v ps k = k xv ps.
Proof. intros Hv Hl. unfold step_call. cbn [List.length]. rewrite Hv, Hl. reflexivity. Qed.

Lemma call_clos E rho nm body cenv v ps k : is_var_name nm = false -> lookup_fun rho nm 0 = Some (CClos body cenv) ->
  step_call bs E rho nm [] v ps k = (tick ;; ev_q E cenv body v ps k).
Proof. intros Hv Hl. unfold step_call. cbn [List.length]. rewrite Hv, Hl. reflexivity. Qed.

Lemma call_empty E rho v ps k : lookup_fun rho (codes "empty") 0 = None ->
  step_call bs E rho (codes "empty") [] v ps k = ret tt.
Proof.
  intros Hl. unfold step_call. cbn [List.length].
  replace (is_var_name (codes "empty") && Nat.eqb 0 0) with false by reflexivity. rewrite Hl, Hempty. reflexivity.
Qed.

Lemma call_error1 n rho msg v ps k s : lookup_fun rho (codes "error") 1 = None ->
  step_call bs (evals_n bs (S (S (S n)))) rho (codes "error") [q_term (TString (JString msg None))] v ps k s =
  raise_err EUser (Some (VStr msg)) s.
Proof.
  intros Hl. unfold step_call. cbn [List.length].
  replace (is_var_name (codes "error") && Nat.eqb 1 0) with false by reflexivity. rewrite Hl, Herror1.
  unfold guard_repsens. replace (is_formatter (codes "error")) with false by reflexivity.
  replace (list_N_eqb (codes "error") nm_29) with false by reflexivity.
  replace (list_N_eqb (codes "error") nm_24) with false by reflexivity.
  replace (list_N_eqb (codes "error") nm_12) with false by reflexivity.
  unfold q_term. cbn [rev app cps_fold fst snd evals_n step ev_q step_eval_q push_defs fold_left ev_t step_eval_t ev_string step_eval_string plain].
  reflexivity.
Qed.

Lemma call_error1' n rho msg v ps k s : lookup_fun rho (codes "error") 1 = None ->
  declined (step_call bs (evals_n bs n) rho (codes "error") [q_term (TString (JString msg None))] v ps k s) \/
  step_call bs (evals_n bs n) rho (codes "error") [q_term (TString (JString msg None))] v ps k s =
  raise_err EUser (Some (VStr msg)) s.
Proof.
  intros Hl. destruct n as [|[|[|n]]]; [left|left|left|right; apply call_error1; exact Hl];
    unfold step_call; cbn [List.length];
    replace (is_var_name (codes "error") && Nat.eqb 1 0) with false by reflexivity; rewrite Hl, Herror1;
    unfold guard_repsens; replace (is_formatter (codes "error")) with false by reflexivity;
    replace (list_N_eqb (codes "error") nm_29) with false by reflexivity;
    replace (list_N_eqb (codes "error") nm_24) with false by reflexivity;
    replace (list_N_eqb (codes "error") nm_12) with false by reflexivity; exact I.
Qed.

Definition lim_env (nv : jv) (e p : pq) (rho : env) : env :=
  [BVar (codes "$n") (plain nv); BClos (strip_dollar (codes "g")) (emb p) rho; BClos (strip_dollar (codes "$n")) (emb e) rho].

Lemma lim_lookup_empty1 nv e p rho : lookup_fun (lim_env nv e p rho) (codes "empty") 0 = None.
Proof. reflexivity. Qed.
Lemma lim_lookup_empty2 nv e p rho a b c d :
  lookup_fun (BVar a b :: BLabel c d :: lim_env nv e p rho) (codes "empty") 0 = None.
Proof. reflexivity. Qed.
Lemma lim_lookup_error nv e p rho : lookup_fun (lim_env nv e p rho) (codes "error") 1 = None.
Proof. reflexivity. Qed.

Lemma get_cell_rel ext fr w (g1 g2 : tv -> M unit) s1 s2 : SR root (ext ++ fr :: w) s1 s2 ->
  (forall u1 u2, fst u1 = fst u2 -> RR (ext ++ fr :: w) (g1 u1 s1) (g2 u2 s2)) ->
  RR (ext ++ fr :: w) ((cur <- get_cell (f1 fr) ;; g1 cur) s1) ((cur <- get_cell (f2 fr) ;; g2 cur) s2).
Proof.
  intros H Hg. destruct (SR_get _ _ _ _ _ H) as (u1 & u2 & L1 & L2 & Hu).
  unfold bind, get_cell. rewrite L1, L2. apply Hg. exact Hu.
Qed.

Lemma limit_body_rel m e p : sim m p ->
  forall n w rho1 rho2 nv x ps1 y k1 k2 u1 u2,
    env_rel w rho1 rho2 -> cfg m x ps1 y -> krel m w k1 k2 -> SR root w u1 u2 ->
    RR w (eval_q bs n (lim_env nv e p rho1) lim_body x ps1 k1 u1)
         (eval_q bs n (lim_env nv e p rho2) lim_body y None k2 u2).
Proof.
  intros Hp n w rho1 rho2 nv x ps1 y k1 k2 u1 u2 He Hc Hk HU.
  pose proof (env_rel_fun _ _ _ (codes "empty") 0%nat He) as [Em1 Em2].
  pose proof (env_rel_fun _ _ _ (codes "error") 1%nat He) as [Er1 Er2].
  (* the body: if $n > 0 ... elif $n == 0 ... else ... *)
  unfold eval_q, lim_body, q_term. fuel n. red_eval. fuel n. red_eval. cbn [if_chain].
  unfold q_bin, lim_zero, q_call, q_term.
  fuel n. red_eval. fuel n. red_eval. fuel n. red_eval. fuel n. red_eval.
  cbn [op_binop]. rewrite !(call_var _ _ (codes "$n") (plain nv)) by reflexivity. cbn [op_binop fst plain].
  apply lift_rel; [exact HU|]. intros b1 _. destruct (truthy b1).
  - (* label $out | foreach ... *)
    unfold with_label. apply (with_cell_rel w true); [exact HU|reflexivity| |intros; apply RR_ret; assumption].
    intros v1 v2 Hv. apply catch_break_rel; [exact Hv|].
    set (frl := mkfr true (nextid u1) (nextid u2)) in *.
    unfold lim_foreach, q_call, q_term. red_eval. fuel n. red_eval. fuel n. red_eval. fuel n. red_eval.
    rewrite !(call_var _ _ (codes "$n") (plain nv)) by reflexivity.
    apply (with_cell_rel (frl :: w) false); [exact Hv|reflexivity| |intros; apply RR_ret; assumption].
    intros r1 r2 Hr. apply RR_pop_cell; [reflexivity|].
    set (frc := mkfr false (nextid v1) (nextid v2)) in *.
    rewrite (call_clos _ _ (codes "g") (emb p) rho1), (call_clos _ _ (codes "g") (emb p) rho2) by reflexivity.
    apply RR_tick; [exact Hr|]. intros q1 q2 Hq.
    fold_eval. apply Hp; try assumption; [apply (env_rel_mono [_; _]); exact He|].
    (* per item *)
    intros ext z ps' z' Hz a1 a2 Ha.
    cbn [evals_n step ev_bindpat step_bind_pat].
    change (ext ++ frc :: frl :: w) with (ext ++ frc :: (frl :: w)) in *.
    apply (get_cell_rel ext frc (frl :: w)); [exact Ha|]. intros c1 c2 Hcur.
    unfold lim_upd, q_bin, q_identity, q_term. red_eval. cbn [op_binop]. rewrite Hcur.
    apply lift_rel; [exact Ha|]. intros cnt _.
    apply RR_bind; [apply (set_cell_rel ext frc (frl :: w)); [exact Ha|reflexivity]|]. intros b1' b2' Hb.
    unfold lim_ext, q_bin, q_call, q_term. red_eval.
    apply RR_bind.
    + fuel n. red_eval. rewrite !(call_var _ _ (codes "$item") _) by reflexivity.
      replace (ext ++ frc :: frl :: w) with ((ext ++ [frc; frl]) ++ w) in * by (rewrite <- app_assoc; reflexivity).
      apply Hk; assumption.
    + intros d1 d2 Hd. fuel n. red_eval. cbn [if_chain]. unfold lim_zero, q_identity, q_term.
      fuel n. red_eval. fuel n. red_eval. cbn [op_binop fst plain].
      apply lift_rel; [exact Hd|]. intros b2 _. destruct (truthy b2).
      * cbn [lookup_label]. replace (list_N_eqb (codes "$out") (codes "$out")) with true by reflexivity.
        right. right. split; [|exact Hd]. cbn [fst rrel xrel]. exists frl.
        split; [apply in_or_app; right; right; left; reflexivity|repeat split].
      * rewrite !call_empty by apply lim_lookup_empty2. apply RR_ret. exact Hd.
  - (* elif $n == 0 then empty else error(..) *)
    try rewrite !(call_var _ _ (codes "$n") (plain nv)) by reflexivity. cbn [op_binop fst plain].
    apply lift_rel; [exact HU|]. intros b2 _. destruct (truthy b2).
    + rewrite !call_empty by apply lim_lookup_empty1. apply RR_ret. exact HU.
    + change (step bs (evals_n bs n)) with (evals_n bs (S n)).
      destruct (call_error1' (S n) (lim_env nv e p rho1) lim_msg x ps1 k1 u1 (lim_lookup_error _ _ _ _)) as [D|E1];
        [left; exact D|].
      destruct (call_error1' (S n) (lim_env nv e p rho2) lim_msg y None k2 u2 (lim_lookup_error _ _ _ _)) as [D|E2];
        [right; left; exact D|].
      unfold q_term in E1, E2. rewrite E1, E2. apply raise_err_rel. exact HU.
Qed.

Lemma sim_limit m e p : sim MPlain e -> sim m p -> sim m (PLimit e p).
Proof.
  intros Hse Hp n w rho1 rho2 x ps1 y k1 k2 s1 s2 He Hc Hk HR. do 3 fuel n.
  cbn [emb]. unfold eval_q, q_call, q_term. red_eval.
  unfold step_call. cbn [List.length].
  replace (is_var_name (codes "limit") && Nat.eqb 2 0) with false by reflexivity.
  destruct (env_rel_fun _ _ _ (codes "limit") 2%nat He) as [-> ->]. rewrite Hlimit.
  unfold limit_def. cbn [combine fold_left cps_fold fst snd].
  replace (is_var_name (codes "$n")) with true by reflexivity.
  replace (is_var_name (codes "g")) with false by reflexivity.
  apply RR_tick; [exact HR|]. intros t1 t2 Ht.
  fold_eval. apply Hse; try assumption; [eapply cfg_plain; exact Hc|].
  intros ext nz ps' nz' [Hnz _] u1 u2 Hu. rewrite Hnz.
  change (RR (ext ++ w) (eval_q bs n (lim_env (fst nz) e p rho1) lim_body x ps1 k1 u1)
                        (eval_q bs n (lim_env (fst nz) e p rho2) lim_body y None k2 u2)).
  apply (limit_body_rel m e p Hp); try assumption; [apply env_rel_mono; exact He|apply krel_mono; exact Hk].
Qed.

(* -- elif -- *)
Lemma emb_if_shape p : forall m, ok bs m p -> if_form p = true ->
  exists c2 a2 elifs els, emb p = q_term (TIf c2 a2 elifs els).
Proof.
  induction p; intros m H F; try discriminate F; cbn [emb].
  - do 4 eexists. reflexivity.
  - do 4 eexists. reflexivity.
  - cbn [ok] in H. destruct H as (_ & _ & H3 & H4). destruct (IHp3 m H3 H4) as (c2 & a2 & el & els & E).
    rewrite E. unfold q_term. do 4 eexists. reflexivity.
Qed.

Lemma sim_elif m c a rest : sim MPlain c -> sim m a -> sim m rest ->
  (exists c2 a2 elifs els, emb rest = q_term (TIf c2 a2 elifs els)) -> sim m (PElif c a rest).
Proof.
  intros Hsc Ha Hrest (c2 & a2 & el & els & E) n w rho1 rho2 x ps1 y k1 k2 s1 s2 He Hc Hk HR.
  cbn [emb]. rewrite E. unfold q_term. fuel n. fuel n. unfold eval_q. red_eval. cbn [if_chain].
  apply (sim_if_gen m c _ _ _ _ n w rho1 rho2 x ps1 y s1 s2); try assumption; intros ext t1 t2 Ht.
  - apply Ha; try assumption; [apply env_rel_mono; exact He|apply krel_mono; exact Hk].
  - pose proof (Hrest (S (S n)) (ext ++ w) rho1 rho2 x ps1 y k1 k2 t1 t2 (env_rel_mono _ _ _ _ He) Hc (krel_mono _ _ _ _ _ Hk) Ht) as Hr.
    rewrite E in Hr. exact Hr.
Qed.

(* -- computed slice bounds -- *)
Lemma slice_key_index v sv ev : fn_index2 v (VObj (obj_set (obj_set [] nm_start sv) nm_end ev)) = fn_slice v ev sv.
Proof. destruct v; reflexivity. Qed.

Lemma slice_core m w n rho1 rho2 x ps1 y k1 k2 sv ev t1 t2 :
  cfg m x ps1 y -> klocal m w k1 k2 -> SR root w t1 t2 ->
  RR w (ev_t (evals_n bs n) rho1 (Term TIdentity []) x ps1
          (fun x0 ps' => lift (fn_slice (fst x0) ev sv)
             (fun u => nav ps' x0 (VObj (obj_set (obj_set [] nm_start sv) nm_end ev)) u k1)) t1)
       (ev_t (evals_n bs n) rho2 (Term TIdentity []) y None
          (fun x0 ps' => lift (fn_slice (fst x0) ev sv)
             (fun u => nav ps' x0 (VObj (obj_set (obj_set [] nm_start sv) nm_end ev)) u k2)) t2).
Proof.
  intros Hc Hk Ht. fuel n. red_eval. rewrite <- !slice_key_index. eapply index_rel; eassumption.
Qed.

Lemma sim_slicedyn m ha hb a b :
  (ha = true -> sim MPlain a) -> (hb = true -> sim MPlain b) ->
  index_key (Index [] None (if ha then Some (emb a) else None) (if hb then Some (emb b) else None) true) = None ->
  sim m (PSliceDyn ha hb a b).
Proof.
  intros Ha Hb Hkey n w rho1 rho2 x ps1 y k1 k2 s1 s2 He Hc Hk HR.
  cbn [emb]. unfold eval_q, q_term. fuel n. red_eval. fuel n. red_eval. fuel n. red_eval.
  unfold step_eval_index. rewrite Hkey. cbn [negb].
  destruct ha, hb.
  - fold_eval. apply (Ha eq_refl); try assumption; [eapply cfg_plain; exact Hc|].
    intros ext z ps' z' [Hz _] t1 t2 Ht. rewrite Hz.
    fold_eval. apply (Hb eq_refl); try assumption; [apply env_rel_mono; exact He|eapply cfg_plain; exact Hc|].
    intros ext' z2 ps2 z2' [Hz2 _] r1 r2 Hr. rewrite Hz2.
    apply (slice_core m); try assumption. rewrite app_assoc. apply Hk.
  - fold_eval. apply (Ha eq_refl); try assumption; [eapply cfg_plain; exact Hc|].
    intros ext z ps' z' [Hz _] t1 t2 Ht. rewrite Hz.
    apply (slice_core m); try assumption. apply Hk.
  - fold_eval. apply (Hb eq_refl); try assumption; [eapply cfg_plain; exact Hc|].
    intros ext z ps' z' [Hz _] t1 t2 Ht. rewrite Hz.
    apply (slice_core m); try assumption. apply Hk.
  - discriminate Hkey.
Qed.

(* -- array destructuring:  e as [$a, $b, ...] | p -- *)
Lemma syn_depth_SS : exists d, syn_depth = S (S d).
Proof. eexists. vm_compute. reflexivity. Qed.

Definition mkvp (x : bytes) : pattern := Pattern x [] [].

Lemma pattern_vars_arr d xs : Forall (fun x => is_var_name x = true) xs ->
  pattern_vars (S (S d)) (Pattern [] (map mkvp xs) []) = xs.
Proof.
  intros H. cbn [pattern_vars app]. rewrite app_nil_r. induction H as [|x r Hx _ IH]; [reflexivity|].
  cbn [map flat_map]. rewrite IH. destruct x as [|c x]; [discriminate Hx|]. reflexivity.
Qed.

Lemma env_rel_nulls w xs : forall rho1 rho2, env_rel w rho1 rho2 ->
  env_rel w (fold_left (fun acc nm => BVar nm (plain VNull) :: acc) xs rho1)
            (fold_left (fun acc nm => BVar nm (plain VNull) :: acc) xs rho2).
Proof. induction xs as [|x r IH]; intros rho1 rho2 H; [exact H|]. cbn [fold_left]. apply IH. constructor; [reflexivity|exact H]. Qed.

Lemma bindpat_var n rho c nm wv ps kb :
  ev_bindpat (evals_n bs (S n)) rho (Pattern (c :: nm) [] []) wv ps kb = kb (BVar (c :: nm) wv :: rho) ps.
Proof. reflexivity. Qed.

Lemma bind_arr_fold w n (x y : tv) (kb1 kb2 : env -> pst -> M unit) : fst y = fst x ->
  (forall r1 r2, env_rel w r1 r2 -> forall u1 u2, SR root w u1 u2 -> RR w (kb1 r1 None u1) (kb2 r2 None u2)) ->
  forall xs, Forall (fun x => is_var_name x = true) xs ->
  forall i rho1 rho2 t1 t2, env_rel w rho1 rho2 -> SR root w t1 t2 ->
  RR w (cps_fold (fun (pi : pattern) (st : Z * env * pst) kk =>
                    let '(i, rho, ps) := st in
                    lift (fn_indexarray (fst x) i) (fun u =>
                      nav ps x (VInt i) u (fun wv ps' =>
                        ev_bindpat (evals_n bs n) rho pi wv ps' (fun rho' ps'' => kk ((i + 1)%Z, rho', ps'')))))
                 (map mkvp xs) (i, rho1, None) (fun st => kb1 (snd (fst st)) (snd st)) t1)
       (cps_fold (fun (pi : pattern) (st : Z * env * pst) kk =>
                    let '(i, rho, ps) := st in
                    lift (fn_indexarray (fst y) i) (fun u =>
                      nav ps y (VInt i) u (fun wv ps' =>
                        ev_bindpat (evals_n bs n) rho pi wv ps' (fun rho' ps'' => kk ((i + 1)%Z, rho', ps'')))))
                 (map mkvp xs) (i, rho2, None) (fun st => kb2 (snd (fst st)) (snd st)) t2).
Proof.
  intros Hy Hkb xs Hxs. destruct x as [xv xi], y as [yv yi]. cbn [fst] in Hy. subst yv.
  induction Hxs as [|c r Hc _ IH]; intros i rho1 rho2 t1 t2 He Ht.
  - cbn [map cps_fold fst snd]. apply Hkb; assumption.
  - cbn [map cps_fold]. cbn [fst]. apply lift_rel; [exact Ht|]. intros u _.
    cbn [nav]. destruct n as [|n]; [left; exact I|]. destruct c as [|c0 c]; [discriminate Hc|].
    change (mkvp (c0 :: c)) with (Pattern (c0 :: c) [] []). rewrite !bindpat_var.
    apply IH; [|exact Ht]. constructor; [reflexivity|exact He].
Qed.

Lemma sim_bindarr m e xs p : xs <> [] -> Forall (fun x => is_var_name x = true) xs ->
  sim MPlain e -> sim m p -> sim m (PBindArr e xs p).
Proof.
  intros Hne Hxs Hse Hp n w rho1 rho2 x ps1 y k1 k2 s1 s2 He Hc Hk HR. do 2 fuel n.
  cbn [emb]. unfold eval_q. red_eval.
  destruct syn_depth_SS as [d Hd]. rewrite Hd.
  cbn [flat_map]. rewrite app_nil_r. change (fun x0 : bytes => Pattern x0 [] []) with mkvp.
  rewrite (pattern_vars_arr d xs Hxs). cbn [alts_loop].
  fold_eval. apply Hse; try assumption; [eapply cfg_plain; exact Hc|].
  intros ext z ps' z' [Hz _] t1 t2 Ht.
  cbn [evals_n step ev_bindpat]. unfold step_bind_pat.
  destruct xs as [|x0 xs]; [congruence|]. cbn [map]. unfold mkvp at 1 3.
  change (Pattern x0 [] [] :: map mkvp xs) with (map mkvp (x0 :: xs)).
  apply (bind_arr_fold (ext ++ w) n z z' (fun r _ => eval_q bs (S n) r (emb p) x ps1 k1) (fun r _ => eval_q bs (S n) r (emb p) y None k2)); try assumption.
  - intros r1 r2 Hr u1 u2 Hu. fold_eval. apply Hp; try assumption. apply krel_mono. exact Hk.
  - apply env_rel_nulls. apply env_rel_mono. exact He.
Qed.

(* -- object destructuring:  e as {$a, k: $b, ...} | p -- *)
Lemma pattern_vars_obj d es : Forall po_ok es ->
  pattern_vars (S (S d)) (Pattern [] [] (map emb_po es)) = map po_var es.
Proof.
  intros H. cbn [pattern_vars app flat_map]. induction H as [|e r He _ IH]; [reflexivity|].
  cbn [map flat_map]. rewrite IH. destruct e as [xv|k xv]; cbn [emb_po po_var po_ok] in *.
  - rewrite He. reflexivity.
  - destruct He as (_ & -> & Hx). destruct xv as [|c xv]; [discriminate Hx|]. reflexivity.
Qed.

Lemma sim_bindobj m e es p : es <> [] -> Forall po_ok es ->
  sim MPlain e -> sim m p -> sim m (PBindObj e es p).
Proof.
  intros Hne Hes Hse Hp n w rho1 rho2 x ps1 y k1 k2 s1 s2 He Hc Hk HR. do 2 fuel n.
  cbn [emb]. unfold eval_q. red_eval.
  destruct syn_depth_SS as [d Hd]. rewrite Hd.
  cbn [flat_map]. rewrite app_nil_r. rewrite (pattern_vars_obj d es Hes). cbn [alts_loop].
  fold_eval. apply Hse; try assumption; [eapply cfg_plain; exact Hc|].
  intros ext z ps' z' [Hz _] t1 t2 Ht.
  destruct z as [zv zi], z' as [zv' zi']. cbn [fst] in Hz. subst zv'.
  cbn [evals_n step ev_bindpat]. unfold step_bind_pat.
  destruct es as [|e0 es]; [congruence|]. cbn [map].
  change (emb_po e0 :: map emb_po es) with (map emb_po (e0 :: es)).
  match goal with |- RR _ (cps_fold ?F1 _ _ _ _) (cps_fold ?F2 _ _ _ _) => set (G1 := F1); set (G2 := F2) end.
  assert (HI : forall es', Forall po_ok es' -> forall r1 r2 u1 u2, env_rel (ext ++ w) r1 r2 -> SR root (ext ++ w) u1 u2 ->
            RR (ext ++ w)
               (cps_fold G1 (map emb_po es') (r1, None)
                  (fun st => (fun (rho' : env) (_ : pst) => eval_q bs (S n) rho' (emb p) x ps1 k1) (fst st) (snd st)) u1)
               (cps_fold G2 (map emb_po es') (r2, None)
                  (fun st => (fun (rho' : env) (_ : pst) => eval_q bs (S n) rho' (emb p) y None k2) (fst st) (snd st)) u2)).
  { induction 1 as [|e1 r Hok _ IH]; intros r1 r2 u1 u2 Hr Hu.
    - cbn [map cps_fold fst snd]. apply Hp; try assumption. apply krel_mono. exact Hk.
    - cbn [map cps_fold]. unfold G1 at 1, G2 at 1. destruct e1 as [xv|k xv]; cbn [emb_po po_ok] in *.
      + destruct xv as [|c xv]; [discriminate Hok|]. rewrite Hok. cbn [fst].
        apply lift_rel; [exact Hu|]. intros u _. cbn [nav].
        apply IH; [|exact Hu]. constructor; [reflexivity|exact Hr].
      + destruct Hok as (Hk0 & Hk1 & Hx). destruct k as [|c k]; [congruence|]. rewrite Hk1. cbn [fst].
        apply lift_rel; [exact Hu|]. intros u _. cbn [nav].
        destruct n as [|n']; [left; exact I|].
        destruct xv as [|c' xv]; [discriminate Hx|]. rewrite !bindpat_var.
        apply IH; [|exact Hu]. constructor; [reflexivity|exact Hr]. }
  apply HI; try assumption. apply env_rel_nulls. apply env_rel_mono. exact He.
Qed.

(* -- more expressions: [e], reduce, foreach (outside path tracking on both sides) -- *)
Definition extends (W w : world) : Prop := exists E, W = E ++ w.
Lemma extends_refl w : extends w w.
Proof. exists []. reflexivity. Qed.
Lemma extends_app E W w : extends W w -> extends (E ++ W) w.
Proof. intros [E' ->]. exists (E ++ E'). rewrite app_assoc. reflexivity. Qed.
Lemma extends_cons fr W w : extends W w -> extends (fr :: W) w.
Proof. intros H. apply (extends_app [fr]). exact H. Qed.
Lemma extends_mid E fr W w : extends W w -> extends (E ++ fr :: W) w.
Proof. intros H. apply extends_app. apply extends_cons. exact H. Qed.
Lemma env_rel_ext W w rho1 rho2 : extends W w -> env_rel w rho1 rho2 -> env_rel W rho1 rho2.
Proof. intros [E ->]. apply env_rel_mono. Qed.
Lemma krel_ext m W w k1 k2 : extends W w -> krel m w k1 k2 -> krel m W k1 k2.
Proof. intros [E ->]. apply krel_mono. Qed.
Hint Resolve extends_refl extends_app extends_cons extends_mid : ext.

Lemma sim_array e : sim MPlain e -> sim MPlain (PArray e).
Proof.
  intros Hse n w rho1 rho2 x ps1 y k1 k2 s1 s2 He Hc Hk HR. do 2 fuel n.
  assert (Hps : ps1 = None) by apply Hc. subst ps1.
  cbn [emb]. unfold eval_q, q_term. red_eval. cbn [scoped_ids].
  apply (with_cell_rel w false); [exact HR|reflexivity| |].
  - intros t1 t2 Ht. apply RR_pop_cell; [reflexivity|]. fold_eval.
    apply Hse; try assumption; [apply (env_rel_mono [_]); exact He|].
    intros ext z ps' z' [Hz _] u1 u2 Hu.
    apply (get_cell_rel ext (mkfr false (nextid s1) (nextid s2)) w); [exact Hu|]. intros c1 c2 Hcc.
    rewrite Hcc, Hz. destruct (fst c2); try (left; exact I).
    apply (set_cell_rel ext (mkfr false (nextid s1) (nextid s2)) w); [exact Hu|reflexivity].
  - intros v1 v2 t1 t2 Hv Ht. rewrite Hv. destruct (fst v2); try (left; exact I).
    apply (krel_local _ _ _ _ Hk); [split; reflexivity|exact Ht].
Qed.

Lemma sim_array0 : sim MPlain PArray0.
Proof.
  intros n w rho1 rho2 x ps1 y k1 k2 s1 s2 He Hc Hk HR. do 2 fuel n.
  cbn [emb]. unfold eval_q, q_term. red_eval.
  apply (krel_local _ _ _ _ Hk); [split; [reflexivity|apply Hc]|exact HR].
Qed.

Lemma sim_reduce src x0 init upd : is_var_name x0 = true ->
  sim MPlain src -> sim MPlain init -> sim MPlain upd -> sim MPlain (PReduce src x0 init upd).
Proof.
  intros Hx Hsrc Hinit Hupd n w rho1 rho2 x ps1 y k1 k2 s1 s2 He Hc Hk HR. do 2 fuel n.
  assert (Hps : ps1 = None) by apply Hc. subst ps1.
  destruct x0 as [|c0 x0]; [discriminate Hx|].
  cbn [emb]. unfold eval_q, q_term. red_eval.
  fold_eval. apply Hinit; try assumption.
  intros ext s0 ps0 s0' [Hs0 Hps0] t1 t2 Ht. cbn in Hps0. subst ps0. cbn [scoped_ids].
  apply (with_cell_rel (ext ++ w) false); [exact Ht|symmetry; exact Hs0| |].
  - intros u1 u2 Hu. apply RR_pop_cell; [reflexivity|]. fold_eval.
    set (fr := mkfr false (nextid t1) (nextid t2)) in *.
    apply Hsrc; try assumption; [eapply env_rel_ext; [|exact He]; auto with ext|].
    intros ext2 item psi item' [Hit Hpsi] v1 v2 Hv. cbn in Hpsi. subst psi.
    destruct n as [|n]; [left; exact I|]. rewrite !bindpat_var.
    apply (get_cell_rel ext2 fr (ext ++ w)); [exact Hv|]. intros c1 c2 Hcc.
    fold_eval. apply Hupd; try assumption.
    + constructor; [symmetry; exact Hit|]. eapply env_rel_ext; [|exact He]. auto with ext.
    + split; [symmetry; exact Hcc|reflexivity].
    + intros ext3 u psu u' [Hu' _] r1 r2 Hr. rewrite app_assoc in *.
      apply (set_cell_rel (ext3 ++ ext2) fr (ext ++ w)); [exact Hr|symmetry; exact Hu'].
  - intros v1 v2 r1 r2 Hv Hr. apply Hk; [split; [symmetry; exact Hv|reflexivity]|exact Hr].
Qed.

Lemma sim_foreach src x0 init upd ext0 : is_var_name x0 = true ->
  sim MPlain src -> sim MPlain init -> sim MPlain upd -> sim MPlain ext0 -> sim MPlain (PForeach src x0 init upd ext0).
Proof.
  intros Hx Hsrc Hinit Hupd Hext n w rho1 rho2 x ps1 y k1 k2 s1 s2 He Hc Hk HR. do 2 fuel n.
  assert (Hps : ps1 = None) by apply Hc. subst ps1.
  destruct x0 as [|c0 x0]; [discriminate Hx|].
  cbn [emb]. unfold eval_q, q_term. red_eval.
  fold_eval. apply Hinit; try assumption.
  intros ext s0 ps0 s0' [Hs0 Hps0] t1 t2 Ht. cbn in Hps0. subst ps0. cbn [scoped_ids].
  apply (with_cell_rel (ext ++ w) false); [exact Ht|symmetry; exact Hs0| |intros; apply RR_ret; assumption].
  intros u1 u2 Hu. apply RR_pop_cell; [reflexivity|]. fold_eval.
  set (fr := mkfr false (nextid t1) (nextid t2)) in *.
  apply Hsrc; try assumption; [eapply env_rel_ext; [|exact He]; auto with ext|].
  intros ext2 item psi item' [Hit Hpsi] v1 v2 Hv. cbn in Hpsi. subst psi.
  destruct n as [|n]; [left; exact I|]. rewrite !bindpat_var.
  apply (get_cell_rel ext2 fr (ext ++ w)); [exact Hv|]. intros c1 c2 Hcc.
  assert (HeI : env_rel (ext2 ++ fr :: ext ++ w) (BVar (c0 :: x0) item :: rho1) (BVar (c0 :: x0) item' :: rho2)).
  { constructor; [symmetry; exact Hit|]. eapply env_rel_ext; [|exact He]. auto with ext. }
  fold_eval. apply Hupd; try assumption; [split; [symmetry; exact Hcc|reflexivity]|].
  intros ext3 u psu u' [Hu' Hpsu] r1 r2 Hr. cbn in Hpsu. subst psu.
  apply RR_bind.
  - rewrite app_assoc in *. apply (set_cell_rel (ext3 ++ ext2) fr (ext ++ w)); [exact Hr|symmetry; exact Hu'].
  - intros q1 q2 Hq. fold_eval. apply Hext; try assumption.
    + apply env_rel_mono. exact HeI.
    + split; [exact Hu'|reflexivity].
    + eapply krel_ext; [|exact Hk]. auto with ext.
Qed.

(* -- jq-defined builtins without parameters whose body is in the fragment; natives with one argument -- *)
Lemma sim_builtin0 m name b : is_var_name name = false ->
  lookup_builtin bs name 0 = Some (FuncDef name [] (emb b)) -> sim m b -> sim m (PBuiltin0 name b).
Proof.
  intros Hn Hb Hsb n w rho1 rho2 x ps1 y k1 k2 s1 s2 He Hc Hk HR. do 3 fuel n.
  cbn [emb]. unfold eval_q, q_call, q_term. red_eval.
  unfold step_call. cbn [List.length]. rewrite Hn. cbn [andb].
  destruct (env_rel_fun _ _ _ name O He) as [-> ->]. rewrite Hb.
  cbn [combine fold_left cps_fold].
  apply RR_tick; [exact HR|]. intros t1 t2 Ht.
  fold_eval. apply Hsb; try assumption. constructor.
Qed.

Lemma sim_native1 name a : native1_ok name = true -> lookup_builtin bs name 1 = None ->
  sim MPlain a -> sim MPlain (PNative1 name a).
Proof.
  intros Hn Hb Ha n w rho1 rho2 x ps1 y k1 k2 s1 s2 He Hc Hk HR. do 3 fuel n.
  assert (Hps : ps1 = None) by apply Hc. subst ps1.
  unfold native1_ok in Hn. repeat (apply andb_true_iff in Hn as [Hn ?]).
  repeat match goal with H : negb _ = true |- _ => apply negb_true_iff in H end.
  cbn [emb]. unfold eval_q, q_call, q_term. red_eval.
  unfold step_call. cbn [List.length]. rewrite Hn. cbn [andb].
  destruct (env_rel_fun _ _ _ name 1%nat He) as [-> ->]. rewrite Hb.
  unfold guard_repsens.
  repeat match goal with H : _ = false |- _ => rewrite H end.
  cbn [rev app cps_fold fst snd].
  fold_eval. apply Ha; try assumption.
  intros ext z ps' z' [Hz Hps] t1 t2 Ht. cbn in Hps. subst ps'. cbn [fst snd]. rewrite Hz, (proj1 Hc).
  destruct (call_native name (fst x) [fst z]) as [r|]; [|left; exact I].
  apply lift_rel; [exact Ht|]. intros u _. apply Hk; [split; reflexivity|exact Ht].
Qed.

Theorem sim_all p : forall m, ok bs m p -> sim m p.
Proof.
  induction p; intros m H; cbn [ok] in H.
  - apply sim_id.
  - apply sim_idx. exact H.
  - apply sim_iter.
  - destruct H. apply sim_pipe; auto.
  - destruct H. apply sim_comma; auto.
  - apply sim_empty.
  - apply sim_error.
  - destruct H as (H1 & H2 & H3). apply sim_if; auto.
  - destruct H as (H1 & H2). apply sim_ifne; auto.
  - apply sim_select; auto.
  - destruct H as (H1 & H2). apply sim_idxdyn; auto.
  - apply sim_getpath; auto.
  - destruct H as (H1 & H2 & H3). apply sim_bind; auto.
  - apply sim_try; auto.
  - destruct H as (-> & H2). apply sim_lit; auto.
  - destruct H as (-> & H2). apply sim_var; auto.
  - destruct H as (-> & H2 & H3 & H4). apply sim_binop; auto.
  - destruct H as (-> & H2 & H3). apply sim_native0; auto.
  - apply sim_optidx. exact H.
  - apply sim_optiter.
  - destruct H. apply sim_chain; assumption.
  - destruct H. apply sim_alt; auto.
  - apply sim_first; auto.
  - apply sim_recurse1; auto.
  - apply sim_recurse0.
  - apply sim_dotdot.
  - destruct H. apply sim_limit; auto.
  - destruct H as (H1 & H2 & H3 & H4). apply sim_elif; auto. eapply emb_if_shape; eassumption.
  - destruct H as (H1 & H2 & H3). apply sim_slicedyn; auto; [intros ->; auto|intros ->; auto].
  - destruct H as (H1 & H2 & H3 & H4). apply sim_bindarr; auto.
  - destruct H as (H1 & H2 & H3 & H4). apply sim_bindobj; auto.
  - destruct H as (-> & H2). apply sim_array; auto.
  - subst m. apply sim_array0.
  - destruct H as (-> & H2 & H3 & H4 & H5). apply sim_reduce; auto.
  - destruct H as (-> & H2 & H3 & H4 & H5 & H6). apply sim_foreach; auto.
  - destruct H as (H1 & H2 & H3). apply sim_builtin0; auto.
  - destruct H as (-> & H2 & H3 & H4). apply sim_native1; auto.
Qed.
End Rel.

(* ------------------------------------------------------------------------------------------ *)
(* top level: observe (path(p)) against observe p *)

Lemma Forall2_rev {A B} (P : A -> B -> Prop) l1 l2 : Forall2 P l1 l2 -> Forall2 P (rev l1) (rev l2).
Proof.
  induction 1; cbn [rev]; [constructor|]. apply Forall2_app; [assumption|]. constructor; [assumption|constructor].
Qed.

Definition ending_of_res (r : (unit + exn)) : ending :=
  match r with
  | inl _ => EndNormal
  | inr x => match x with
             | XStop => EndCap
             | XErr _ c val => EndError c val
             | XBreak _ => EndError EBreak None
             | XHalt hv code => EndHalt hv code
             | XFuel => EndSkip (codes "fuel")
             | XSkip why => EndSkip why
             end
  end.

Section Top.
Variable bs : list funcdef.
Hypothesis Hempty : lookup_builtin bs (codes "empty") 0 = None.
Hypothesis Hpath : lookup_builtin bs (codes "path") 1 = None.
Hypothesis Herror : lookup_builtin bs (codes "error") 0 = None.
Hypothesis Hgetpath : lookup_builtin bs (codes "getpath") 1 = None.
Hypothesis Hselect : lookup_builtin bs (codes "select") 1 = Some select_def.
Hypothesis Hfirst : lookup_builtin bs (codes "first") 1 = Some first_def.
Hypothesis Hrec1 : lookup_builtin bs (codes "recurse") 1 = Some recurse1_def.
Hypothesis Hrec0 : lookup_builtin bs (codes "recurse") 0 = Some recurse0_def.
Hypothesis Hlimit : lookup_builtin bs (codes "limit") 2 = Some limit_def.
Hypothesis Herror1 : lookup_builtin bs (codes "error") 1 = None.

Lemma top_bump root s1 s2 : top_rel root s1 s2 -> top_rel root (bump s1) s2.
Proof. exact (fun H => H). Qed.
Lemma top_rs root s1 s2 : top_rel root s1 s2 -> repsens s1 = repsens s2.
Proof. intros H. apply H. Qed.
Lemma top_steps root s1 s2 : top_rel root s1 s2 -> steps s1 = steps s2.
Proof. intros H. apply H. Qed.
Lemma top_dec root s1 s2 : top_rel root s1 s2 -> top_rel root (dec_steps s1) (dec_steps s2).
Proof. intros (H1 & H2 & H3 & H4 & H5 & H6). repeat split; cbn; try assumption. rewrite H5. reflexivity. Qed.

(* the continuation path(..) installs, against the top-level continuation *)
Definition kpath : K := fun x ps' =>
  match ps' with
  | Some pp => check_intact x pp EInvalidPath ;; emit (plain (VArr (rev (rpath pp)))) None
  | None => skipM "path-state"
  end.

Lemma kpath_rel root : krel root MPath [] kpath emit.
Proof.
  intros ext x ps1 y [Hy [pp [-> HL]]] s1 s2 [HR HC]. unfold kpath, bind. rewrite (check_linked root x pp _ _ HL).
  destruct HL as (_ & H2 & H3 & _). destruct HR as (R1 & R2 & R3 & R4 & R5 & R6).
  unfold emit. rewrite R1, R2. cbn [fst plain].
  assert (HR' : SR root (ext ++ [])
            (mkst (VArr (rev (rpath pp)) :: outs s1) (S (nout s2)) (cap s2) (nextid s1) (inputs s1) (cells s1) (repsens s1) (steps s1))
            (mkst (fst y :: outs s2) (S (nout s2)) (cap s2) (nextid s2) (inputs s2) (cells s2) (repsens s2) (steps s2))).
  { split; [|exact HC]. repeat split; cbn; try assumption. constructor; [|exact R6]. exists (rev (rpath pp)). split; [reflexivity|].
    rewrite Hy, H2. exact H3. }
  destruct (Nat.leb (cap s2) (S (nout s2))); [apply RR_mono_exn; [discriminate|exact HR']|apply RR_ret; exact HR'].
Qed.

Lemma rrel_nil_ending r1 r2 : rrel [] r1 r2 -> ending_of_res r1 = ending_of_res r2.
Proof.
  destruct r1 as [[]|x1], r2 as [[]|x2]; cbn; try tauto.
  destruct x1, x2; cbn; try tauto; try discriminate; try (intros [= -> -> ->]; reflexivity);
    try (intros [= -> ->]; reflexivity); try (intros [= ->]; reflexivity); try reflexivity.
Qed.

Lemma path_unfold n q v k s :
  eval_q bs (4 + n) [] (q_path q) (plain v) None k s =
  eval_q bs n [] q (v, Some (nextid s)) (Some (mkp [] v (nextid s)))
    (fun x ps' => match ps' with
                  | Some pp => check_intact x pp EInvalidPath ;; k (plain (VArr (rev (rpath pp)))) None
                  | None => skipM "path-state"
                  end) (bump s).
Proof.
  unfold eval_q, q_path, q_call, q_term.
  cbn [Nat.add evals_n step ev_q step_eval_q push_defs fold_left ev_t step_eval_t rev app ev_call].
  unfold step_call. cbn [List.length].
  replace (is_var_name (codes "path") && Nat.eqb 1 0) with false by reflexivity.
  cbn [lookup_fun]. rewrite Hpath.
  unfold guard_repsens. replace (is_formatter (codes "path")) with false by reflexivity.
  replace (list_N_eqb (codes "path") nm_29) with true by reflexivity.
  cbn [ev_path step]. unfold step_eval_path. unfold bind at 1. unfold fresh at 1. cbn [fst snd plain]. reflexivity.
Qed.

Definition ending_of := ending_of_res.

Lemma observe_eq fuel capn rs ins q v :
  observe bs fuel capn rs ins q v =
  (rev' (outs (snd (raw_run bs fuel capn rs ins q v))), ending_of (fst (raw_run bs fuel capn rs ins q v))).
Proof. unfold observe, raw_run. destruct (eval_q _ _ _ _ _ _ _ _) as [[[]|x] s]; reflexivity. Qed.

Lemma verdict_not_declined (r : res) : verdict (ending_of (fst r)) -> ~ declined r.
Proof. unfold declined. destruct r as [[[]|x] s]; cbn; [tauto|]. destruct x; cbn; tauto. Qed.

Lemma verdict_fuel_free (r : res) : verdict (ending_of (fst r)) -> fuel_free r.
Proof. unfold fuel_free. destruct r as [[[]|x] s]; cbn; [tauto|]. destruct x; cbn; tauto. Qed.

(* C02, first clause, on the fragment: the k-th path emitted by path(p) navigates the input to the k-th
   output of p; same number of outputs; same ending *)
Theorem path_sound p : pf bs p -> forall n1 n2 capn rs ins v, jv_wf v ->
  verdict (snd (observe bs n1 capn rs ins (q_path (emb p)) v)) ->
  verdict (snd (observe bs n2 capn rs ins (emb p) v)) ->
  snd (observe bs n1 capn rs ins (q_path (emb p)) v) = snd (observe bs n2 capn rs ins (emb p) v) /\
  Forall2 (out_rel v) (fst (observe bs n1 capn rs ins (q_path (emb p)) v)) (fst (observe bs n2 capn rs ins (emb p) v)).
Proof.
  intros Hp n1 n2 capn rs ins v Hv V1 V2.
  set (N := Nat.max n1 n2).
  rewrite observe_eq in V1, V2. cbn [snd] in V1, V2.
  rewrite <- (observe_fuel_mono bs n1 (4 + N) capn rs ins _ v) by (try apply verdict_fuel_free; try assumption; lia).
  rewrite <- (observe_fuel_mono bs n2 N capn rs ins _ v) by (try apply verdict_fuel_free; try assumption; lia).
  pose proof (eval_fuel_mono bs n1 (4 + N) [] (q_path (emb p)) (plain v) None emit (init_state capn ins rs)
                ltac:(lia) (verdict_fuel_free _ V1)) as E1.
  pose proof (eval_fuel_mono bs n2 N [] (emb p) (plain v) None emit (init_state capn ins rs)
                ltac:(lia) (verdict_fuel_free _ V2)) as E2.
  unfold raw_run in V1, V2. rewrite <- E1 in V1. rewrite <- E2 in V2.
  rewrite !observe_eq. unfold raw_run. cbn [fst snd].
  rewrite path_unfold in *.
  pose proof (sim_all bs v Hempty Herror Hgetpath Hselect Hfirst Hrec1 Hrec0 Hlimit Herror1
                p MPath Hp N [] [] []
                (v, Some (nextid (init_state capn ins rs))) (Some (mkp [] v (nextid (init_state capn ins rs)))) (plain v)
                kpath emit (bump (init_state capn ins rs)) (init_state capn ins rs)) as HS.
  change (fun (x : tv) (ps' : pst) => match ps' with
            | Some pp => check_intact x pp EInvalidPath ;; emit (plain (VArr (rev (rpath pp)))) None
            | None => skipM "path-state" end) with kpath in *.
  destruct HS as [D|[D|[F S]]].
  - constructor.
  - split; [reflexivity|]. eexists. split; [reflexivity|]. repeat split; cbn; try reflexivity. exact Hv.
  - apply kpath_rel.
  - repeat split; cbn; try constructor; try reflexivity.
  - exfalso. exact (verdict_not_declined _ V1 D).
  - exfalso. exact (verdict_not_declined _ V2 D).
  - unfold ending_of. rewrite (rrel_nil_ending _ _ F). split; [reflexivity|]. unfold rev'. rewrite <- !rev_alt. apply Forall2_rev. apply S.
Qed.
End Top.

(* ------------------------------------------------------------------------------------------ *)
(* the invalid-path clause: navigating, inside path(..), from a value the model classifies as COMPUTED
   (not the value last navigated to: [intact] answers No) raises an error and never reaches the consumer *)

Lemma nav_invalid pp x key w k s : intact (repsens s) x pp = No ->
  nav (Some pp) x key w k s = raise_err EInvalidPath (msg_invalid_path (fst x)) s.
Proof. intros H. cbn [nav]. unfold bind, check_intact. rewrite H. reflexivity. Qed.

Lemma iterate_invalid pp x k s : intact (repsens s) x pp = No ->
  iterate x (Some pp) k s = raise_err EInvalidPathIter (msg_invalid_path_iter (fst x)) s \/
  iterate x (Some pp) k s = raise_err EIterator (msg_iterator (fst x)) s.
Proof.
  intros H. unfold iterate. destruct (fst x) eqn:E; try (right; reflexivity);
    left; unfold bind, check_intact; rewrite H, E; reflexivity.
Qed.

Section Neg.
Variable bs : list funcdef.

(* a constant index / slice (.a, .[3], .[1:2]) from a computed value: the error of the index function when
   the value cannot be indexed that way, the invalid-path error otherwise; the consumer k is never called *)
Theorem index_from_computed i key n rho x pp k s : index_key i = Some key -> intact (repsens s) x pp = No ->
  eval_q bs (4 + n) rho (emb (PIdx i)) x (Some pp) k s =
  match fn_index2 (fst x) key with
  | NOk _ => raise_err EInvalidPath (msg_invalid_path (fst x)) s
  | NErr c val => raise_err c val s
  | NSkip why => (inr (XSkip why), s)
  end.
Proof.
  intros Ek H. cbn [emb]. unfold eval_q, q_term.
  cbn [Nat.add evals_n step ev_q step_eval_q push_defs fold_left ev_t step_eval_t rev app ev_index].
  unfold step_eval_index. rewrite Ek. cbn [ev_t step step_eval_t rev app].
  destruct (fn_index2 (fst x) key); cbn [lift]; [apply nav_invalid; exact H|reflexivity|reflexivity].
Qed.

Theorem iterate_from_computed n rho x pp k s : intact (repsens s) x pp = No ->
  eval_q bs (3 + n) rho (emb PIter) x (Some pp) k s = raise_err EInvalidPathIter (msg_invalid_path_iter (fst x)) s \/
  eval_q bs (3 + n) rho (emb PIter) x (Some pp) k s = raise_err EIterator (msg_iterator (fst x)) s.
Proof.
  intros H. cbn [emb]. unfold eval_q.
  cbn [Nat.add evals_n step ev_q step_eval_q push_defs fold_left ev_t step_eval_t rev app].
  apply iterate_invalid. exact H.
Qed.

(* "computed" does not depend on the representation flag *)
Lemma intact_No_rs rs rs' x pp : intact rs x pp = No -> intact rs' x pp = No.
Proof.
  unfold intact. destruct (snd x) as [i|]; [destruct (i =? lid pp)%N; [discriminate|]|];
    destruct (negb (strict_eqb (fst x) (lv pp))); try reflexivity;
    destruct (fst x) as [| | [z|f] | | |]; try discriminate;
    try (destruct (in_intb z && negb rs); discriminate); destruct rs; discriminate.
Qed.

Lemma nav_invalid' pp x key w k s : (forall rs, intact rs x pp = No) ->
  nav (Some pp) x key w k s = raise_err EInvalidPath (msg_invalid_path (fst x)) s.
Proof. intros H. apply nav_invalid. apply H. Qed.

(* a COMPUTED key .[e] from a computed value: the key expression runs (outside path tracking), then the error of
   the index function or the invalid-path error; the consumer k does not occur in the result *)
Theorem idxdyn_from_computed e n rho x pp k s : query_index_key (emb e) = None -> intact (repsens s) x pp = No ->
  eval_q bs (4 + n) rho (emb (PIdxDyn e)) x (Some pp) k s =
  eval_q bs (S n) rho (emb e) x None
    (fun ix _ s' => match fn_index2 (fst x) (fst ix) with
                    | NOk _ => raise_err EInvalidPath (msg_invalid_path (fst x)) s'
                    | NErr c val => raise_err c val s'
                    | NSkip why => (inr (XSkip why), s')
                    end) s.
Proof.
  intros Hq H. cbn [emb]. unfold eval_q, q_term.
  cbn [Nat.add evals_n step ev_q step_eval_q push_defs fold_left ev_t step_eval_t rev app ev_index].
  unfold step_eval_index. cbn [index_key negb]. rewrite Hq.
  cbn [ev_t step step_eval_t rev app ev_q].
  f_equal. apply FunctionalExtensionality.functional_extensionality. intros ix.
  apply FunctionalExtensionality.functional_extensionality. intros ps'.
  apply FunctionalExtensionality.functional_extensionality. intros s'.
  destruct (fn_index2 (fst x) (fst ix)); cbn [lift]; try reflexivity.
  apply nav_invalid'. intros rs. eapply intact_No_rs. exact H.
Qed.
End Neg.

Theorem path_sound_law bs : builtins_ok bs -> forall p, pf bs p -> path_law bs (emb p).
Proof.
  intros (H1 & H2 & H3 & H4 & H5 & H6 & H7 & H8 & H9 & H10) p Hp n1 n2 capn rs ins v Hv V1 V2.
  apply (path_sound bs H1 H2 H3 H4 H5 H6 H7 H8 H9 H10 p Hp); assumption.
Qed.

Lemma out_rel_getpath v q w : out_rel v q w -> out_getpath v q w.
Proof.
  intros [path [-> H]]. exists path. split; [reflexivity|].
  destruct (str_nav v path) eqn:E; [right; reflexivity|left; apply getpath_nav; assumption].
Qed.

Theorem path_sound_getpath bs : builtins_ok bs -> forall p, pf bs p -> path_law_getpath bs (emb p).
Proof.
  intros Hb p Hp n1 n2 capn rs ins v Hv V1 V2.
  destruct (path_sound_law bs Hb p Hp n1 n2 capn rs ins v Hv V1 V2) as [E F]. split; [exact E|].
  clear -F. induction F; constructor; [apply out_rel_getpath; assumption|assumption].
Qed.
