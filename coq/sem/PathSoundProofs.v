(* PathSoundProofs.v — C02, first clause: path tracking of the reference semantics Sem is sound on the
   navigation fragment of PathSound.v.  Proofs. *)
From Coq Require Import String.
From Coq Require Import List ZArith NArith Bool Lia.
From Verif Require Import common.Sexp sem.JV sem.Syntax sem.Natives sem.Sem sem.SemProofs sem.PathSound.
Import ListNotations.

(* ------------------------------------------------------------------------------------------ *)
(* value level *)

Lemma nav_path_snoc v p w x : nav_path v p = NOk w -> nav_path v (p ++ [x]) = fn_index2 w x.
Proof.
  revert v. induction p as [|a r IH]; intros v H; cbn [nav_path app] in *.
  - injection H as ->. destruct (fn_index2 w x); reflexivity.
  - destruct (fn_index2 v a); try discriminate. apply IH; exact H.
Qed.

Lemma nav_path_app v p q w : nav_path v p = NOk w -> nav_path v (p ++ q) = nav_path w q.
Proof.
  revert v. induction p as [|a r IH]; intros v H; cbn [nav_path app] in *.
  - injection H as ->. reflexivity.
  - destruct (fn_index2 v a); try discriminate. apply IH; exact H.
Qed.

(* func.go getpath agrees with component-wise navigation unless the path navigates from a string (D10) *)
Lemma getpath_nav path : forall v w, nav_path v path = NOk w -> str_nav v path = false ->
  fn_getpath v (VArr path) = NOk w.
Proof.
  unfold fn_getpath. induction path as [|x r IH]; intros v w H S; cbn [nav_path str_nav] in *.
  - exact H.
  - destruct (fn_index2 v x) as [u| |] eqn:E; try discriminate.
    destruct v; try discriminate S; try (apply IH; assumption).
    + exfalso. unfold fn_index2, fn_slice in E.
      destruct x as [|?|?|?|?|m]; try discriminate E.
      destruct (obj_get m (codes "start")), (obj_get m (codes "end")); discriminate E.
    + exfalso. unfold fn_index2, fn_slice in E.
      destruct x as [|?|?|?|?|m]; try discriminate E.
      destruct (obj_get m (codes "start")), (obj_get m (codes "end")); discriminate E.
Qed.

(* -- bytes order -- *)
Lemma bytes_cmp_refl a : bytes_cmp a a = Eq.
Proof. induction a as [|x a IH]; [reflexivity|]. cbn. rewrite N.compare_refl. exact IH. Qed.

Lemma bytes_cmp_lt_trans a : forall b c, bytes_cmp a b = Lt -> bytes_cmp b c = Lt -> bytes_cmp a c = Lt.
Proof.
  induction a as [|x a IH]; intros [|y b] [|z c]; cbn; try discriminate; try reflexivity.
  destruct (N.compare_spec x y), (N.compare_spec y z); try discriminate; intros H1 H2; subst.
  - rewrite N.compare_refl. eapply IH; eassumption.
  - destruct (N.compare_spec y z); try lia. reflexivity.
  - destruct (N.compare_spec x z); try lia. reflexivity.
  - destruct (N.compare_spec x z); try lia. reflexivity.
Qed.

Lemma bytes_cmp_gt a : forall b, bytes_cmp a b = Lt -> bytes_cmp b a = Gt.
Proof.
  induction a as [|x a IH]; intros [|y b]; cbn; try discriminate; try reflexivity.
  rewrite (N.compare_antisym x y). destruct (N.compare x y); cbn; try discriminate; try reflexivity. apply IH.
Qed.

Definition key_lt_all (k : bytes) (kvs : list (bytes * jv)) : Prop :=
  forall k' v', In (k', v') kvs -> bytes_cmp k k' = Lt.

Lemma sorted_head k v r : obj_sorted ((k, v) :: r) = true -> key_lt_all k r /\ obj_sorted r = true.
Proof.
  revert k v. induction r as [|[k1 v1] r IH]; intros k v H.
  - split; [intros ? ? []|reflexivity].
  - cbn [obj_sorted] in H. apply andb_true_iff in H as [H1 H2].
    change (obj_sorted ((k1, v1) :: r) = true) in H2.
    split; [|exact H2]. destruct (IH _ _ H2) as [H3 _].
    unfold bytes_ltb in H1. destruct (bytes_cmp k k1) eqn:E; try discriminate.
    intros k' v' [[= <- <-]|Hin]; [exact E|]. eapply bytes_cmp_lt_trans; [exact E|]. eapply H3; exact Hin.
Qed.

Lemma sorted_get kvs : obj_sorted kvs = true -> forall k v, In (k, v) kvs -> obj_get kvs k = Some v.
Proof.
  induction kvs as [|[k0 v0] r IH]; intros Hs k v Hin; [destruct Hin|].
  destruct (sorted_head _ _ _ Hs) as [Hlt Hr]. cbn [obj_get].
  destruct Hin as [[= <- <-]|Hin].
  - rewrite bytes_cmp_refl. reflexivity.
  - rewrite (bytes_cmp_gt _ _ (Hlt _ _ Hin)). apply IH; assumption.
Qed.

(* -- well-formedness -- *)
Lemma wf_arr l : jv_wf (VArr l) <-> (zlen l <= max_int)%Z /\ Forall jv_wf l.
Proof.
  cbn [jv_wf]. split; intros [H1 H2]; (split; [exact H1|]); clear H1.
  - induction l as [|x r IH]; [constructor|]. destruct H2. constructor; [assumption|apply IH; assumption].
  - induction H2; [exact I|]. split; assumption.
Qed.

Lemma wf_obj kvs : jv_wf (VObj kvs) <-> obj_sorted kvs = true /\ Forall (fun kv => jv_wf (snd kv)) kvs.
Proof.
  cbn [jv_wf]. split; intros [H1 H2]; (split; [exact H1|]); clear H1.
  - induction kvs as [|x r IH]; [constructor|]. destruct H2. constructor; [assumption|apply IH; assumption].
  - induction H2; [exact I|]. split; assumption.
Qed.

Lemma obj_get_in kvs k v : obj_get kvs k = Some v -> exists k', In (k', v) kvs.
Proof.
  induction kvs as [|[k0 v0] r IH]; [discriminate|]. cbn [obj_get].
  destruct (bytes_cmp k k0); try discriminate.
  - intros [= ->]. exists k0. left. reflexivity.
  - intros H. destruct (IH H) as [k' Hin]. exists k'. right. exact Hin.
Qed.

Lemma nth_z_in {A} (l : list A) i x : nth_z l i = Some x -> In x l.
Proof. unfold nth_z. destruct (i <? 0)%Z; [discriminate|]. apply nth_error_In. Qed.

Lemma sublist_len {A} (l : list A) s e : (List.length (sublist l s e) <= List.length l)%nat.
Proof. unfold sublist. rewrite firstn_length, skipn_length. lia. Qed.

Lemma in_firstn {A} n : forall (l : list A) x, In x (firstn n l) -> In x l.
Proof. induction n as [|n IH]; intros [|a l] x H; cbn in *; try tauto. destruct H; [left; assumption|right; apply IH; assumption]. Qed.
Lemma in_skipn {A} n : forall (l : list A) x, In x (skipn n l) -> In x l.
Proof. induction n as [|n IH]; intros [|a l] x H; cbn in *; try tauto. right. apply IH. exact H. Qed.
Lemma sublist_in {A} (l : list A) s e x : In x (sublist l s e) -> In x l.
Proof. unfold sublist. intros H. apply in_firstn in H. eapply in_skipn. exact H. Qed.

Lemma indices_from_len xs : forall vs i, (List.length (indices_from vs xs i) <= List.length vs)%nat.
Proof.
  induction vs as [|v r IH]; intros i; cbn [indices_from]; [cbn; lia|].
  rewrite app_length. specialize (IH (i + 1)%Z). destruct (prefix_eq xs (v :: r)); simpl; lia.
Qed.

Lemma index_wf v key w : jv_wf v -> fn_index2 v key = NOk w -> jv_wf w.
Proof.
  intros Hv. unfold fn_index2. destruct key as [|?|n|k|xs|m].
  - destruct v; discriminate.
  - destruct v; discriminate.
  - destruct v as [|?|?|s|l|?]; try discriminate; intros [= <-]; try exact I.
    + unfold index_string. destruct (nth_z _ _); exact I.
    + unfold index_array. destruct (nth_z _ _) eqn:E; [|exact I].
      apply nth_z_in in E. apply wf_arr in Hv as [_ Hv]. rewrite Forall_forall in Hv. apply Hv. exact E.
  - destruct v as [|?|?|?|?|kvs]; try discriminate; intros [= <-]; try exact I.
    destruct (obj_get kvs k) eqn:E; [|exact I]. apply obj_get_in in E as [k' E].
    apply wf_obj in Hv as [_ Hv]. rewrite Forall_forall in Hv. apply (Hv (k', j)). exact E.
  - destruct v as [|?|?|?|l|?]; try discriminate; intros [= <-]; try exact I.
    apply wf_arr. apply wf_arr in Hv as [Hl _]. split.
    + unfold zlen in *. rewrite map_length. unfold indices_of. destruct xs; [cbn; unfold max_int; lia|].
      pose proof (indices_from_len (j :: xs) l 0). lia.
    + apply Forall_forall. intros x Hx. apply in_map_iff in Hx as [z [<- _]]. exact I.
  - destruct v as [|?|?|?|l|?]; try (intros [= <-]; exact I);
      destruct (obj_get m (codes "start")), (obj_get m (codes "end")); try discriminate; unfold fn_slice; try discriminate.
    + destruct (slice_bounds _ _ _ _) as [[st en]|]; [|discriminate]. intros [= <-]. exact I.
    + destruct (slice_bounds _ _ _ _) as [[st en]|]; [|discriminate]. intros [= <-].
      apply wf_arr. apply wf_arr in Hv as [Hl Hv]. split.
      * pose proof (sublist_len l st en). unfold zlen in *. lia.
      * rewrite Forall_forall in *. intros x Hx. apply Hv. eapply sublist_in. exact Hx.
Qed.

Lemma nav_path_wf path : forall v w, jv_wf v -> nav_path v path = NOk w -> jv_wf w.
Proof.
  induction path as [|x r IH]; intros v w Hv H; cbn [nav_path] in H.
  - injection H as <-. exact Hv.
  - destruct (fn_index2 v x) eqn:E; try discriminate. eapply IH; [|exact H]. eapply index_wf; eassumption.
Qed.

Lemma combine_iota_in (l : list jv) : forall from key e,
  In (key, e) (combine (map VInt (iota (List.length l) from)) l) ->
  exists j, key = VInt (from + Z.of_nat j) /\ nth_error l j = Some e.
Proof.
  induction l as [|x r IH]; intros from key e H; cbn in H; [destruct H|].
  destruct H as [[= <- <-]|H].
  - exists O. split; [f_equal; lia|reflexivity].
  - destruct (IH _ _ _ H) as [j [-> Hj]]. exists (S j). split; [f_equal; lia|exact Hj].
Qed.

Lemma min_int_neg : (min_int < 0)%Z.
Proof. reflexivity. Qed.

Lemma clamp_int_id z : (0 <= z <= max_int)%Z -> clamp_int z = z.
Proof.
  intros H. unfold clamp_int. pose proof min_int_neg.
  destruct (Z.ltb_spec z min_int); [lia|]. destruct (Z.ltb_spec max_int z); [lia|]. reflexivity.
Qed.
Lemma clamp_index_id i len : (0 <= i < len)%Z -> clamp_index i (-1) len = i.
Proof.
  intros H. unfold clamp_index. destruct (Z.ltb_spec i 0); [lia|].
  destruct (Z.ltb_spec i (-1)); [lia|]. destruct (Z.ltb_spec i len); [reflexivity|lia].
Qed.

Lemma arr_elems l key e : jv_wf (VArr l) ->
  In (key, e) (combine (map VInt (iota (List.length l) 0)) l) -> fn_index2 (VArr l) key = NOk e /\ jv_wf e.
Proof.
  intros Hv Hin. apply wf_arr in Hv as [Hl Hv]. destruct (combine_iota_in _ _ _ _ Hin) as [j [-> Hj]].
  assert (Hlt : (j < List.length l)%nat) by (apply nth_error_Some; congruence).
  split.
  - unfold VInt, fn_index2, to_int, index_array. cbn [Z.add]. unfold zlen in *.
    rewrite clamp_int_id by lia. rewrite clamp_index_id by lia. unfold nth_z.
    destruct (Z.ltb_spec (Z.of_nat j) 0); [lia|]. rewrite Nat2Z.id, Hj. reflexivity.
  - rewrite Forall_forall in Hv. apply Hv. eapply nth_error_In. exact Hj.
Qed.

Lemma obj_elems kvs key e : jv_wf (VObj kvs) ->
  In (key, e) (map (fun kv => (VStr (fst kv), snd kv)) kvs) -> fn_index2 (VObj kvs) key = NOk e /\ jv_wf e.
Proof.
  intros Hv Hin. apply wf_obj in Hv as [Hs Hv]. apply in_map_iff in Hin as [[k v] [[= <- <-] Hin]].
  cbn [fst snd]. split.
  - unfold fn_index2. rewrite (sorted_get _ Hs _ _ Hin). reflexivity.
  - rewrite Forall_forall in Hv. apply (Hv (k, v)). exact Hin.
Qed.

(* ------------------------------------------------------------------------------------------ *)
(* more value level: getpath of the model implies component-wise navigation *)
Lemma getpath_ok_nav path : forall v w, fn_getpath v (VArr path) = NOk w -> nav_path v path = NOk w.
Proof.
  unfold fn_getpath. induction path as [|x r IH]; intros v w H; cbn [nav_path].
  - exact H.
  - destruct v; try discriminate H; destruct (fn_index2 _ x) as [u| |]; try discriminate H; apply IH; exact H.
Qed.

Lemma syn_depth_S : exists d, syn_depth = S d.
Proof. eexists. vm_compute. reflexivity. Qed.

(* ------------------------------------------------------------------------------------------ *)
(* the simulation: a term run inside path(..) (mode MPath) or in an expression region of the path run
   (mode MPlain), against the same term run outside path(..), on the same value *)

Section Rel.
Variable bs : list funcdef.
Variable root : jv.
(* the relation between the states of the two runs, kept abstract: it must tolerate the id allocations of
   the path run, agree on the representation flag and on the step budget *)
Variable R : sst -> sst -> Prop.
Hypothesis R_bump : forall s1 s2, R s1 s2 -> R (bump s1) s2.
Hypothesis R_rs : forall s1 s2, R s1 s2 -> repsens s1 = repsens s2.
Hypothesis R_steps : forall s1 s2, R s1 s2 -> steps s1 = steps s2.
Hypothesis R_dec : forall s1 s2, R s1 s2 -> R (dec_steps s1) (dec_steps s2).
Hypothesis Hempty : lookup_builtin bs (codes "empty") 0 = None.
Hypothesis Herror : lookup_builtin bs (codes "error") 0 = None.
Hypothesis Hgetpath : lookup_builtin bs (codes "getpath") 1 = None.
Hypothesis Hselect : lookup_builtin bs (codes "select") 1 = Some select_def.

(* results: no claim when either run declines; otherwise same ending (same exception) and related states *)
Definition RR (r1 r2 : res) : Prop :=
  declined r1 \/ declined r2 \/ (fst r1 = fst r2 /\ R (snd r1) (snd r2)).

(* the path state is linked to the travelling value: it is the value last navigated to, and the recorded
   path navigates the root to it *)
Definition linked (x : tv) (pp : pstate) : Prop :=
  snd x = Some (lid pp) /\ fst x = lv pp /\ nav_path root (rev (rpath pp)) = NOk (lv pp) /\ jv_wf (lv pp).

(* configurations of the two runs: same value; in path mode the left run tracks a linked path state *)
Definition cfg (m : mode) (x : tv) (ps1 : pst) (y : tv) : Prop :=
  fst y = fst x /\
  match m with
  | MPath => exists pp, ps1 = Some pp /\ linked x pp
  | MPlain => ps1 = None
  end.

Definition krel (m : mode) (k1 k2 : K) : Prop :=
  forall x ps1 y, cfg m x ps1 y -> forall s1 s2, R s1 s2 -> RR (k1 x ps1 s1) (k2 y None s2).

Lemma cfg_plain m x ps1 y : cfg m x ps1 y -> cfg MPlain x None y.
Proof. intros [H _]. split; [exact H|reflexivity]. Qed.

Lemma RR_same (r : (unit + exn)) s1 s2 : R s1 s2 -> RR (r, s1) (r, s2).
Proof. intros H. right. right. split; [reflexivity|exact H]. Qed.

Lemma RR_bind (m1 m2 : M unit) (f1 f2 : M unit) s1 s2 :
  RR (m1 s1) (m2 s2) -> (forall s1' s2', R s1' s2' -> RR (f1 s1') (f2 s2')) ->
  RR ((m1 ;; f1) s1) ((m2 ;; f2) s2).
Proof.
  intros H Hf. unfold bind. unfold RR, declined in *.
  destruct (m1 s1) as [[[]|x1] t1], (m2 s2) as [[[]|x2] t2]; cbn [fst snd] in *.
  - destruct H as [[]|[[]|[_ H]]]. apply Hf. exact H.
  - destruct H as [[]|[H|[H _]]]; [|discriminate]. right. left. exact H.
  - destruct H as [H|[[]|[H _]]]; [|discriminate]. left. exact H.
  - exact H.
Qed.

Lemma RR_tick (f1 f2 : M unit) s1 s2 : R s1 s2 ->
  (forall s1' s2', R s1' s2' -> RR (f1 s1') (f2 s2')) -> RR ((tick ;; f1) s1) ((tick ;; f2) s2).
Proof.
  intros H Hf. unfold bind.
  assert (T : forall s, (steps s <> 0)%N -> tick s = (inl tt, dec_steps s)).
  { intros s Hs. unfold tick, dec_steps. destruct (steps s); [congruence|reflexivity]. }
  pose proof (R_steps _ _ H) as E.
  destruct (N.eq_dec (steps s1) 0) as [Z|NZ].
  - left. unfold declined, tick. rewrite Z. exact I.
  - rewrite (T s1 NZ), (T s2) by (rewrite <- E; exact NZ). apply Hf. apply R_dec. exact H.
Qed.

Lemma RR_down (m1 m2 : M unit) s1 s2 : RR (m1 s1) (m2 s2) -> RR (down m1 s1) (down m2 s2).
Proof.
  unfold down. intros [H|[H|[H H']]].
  - unfold declined in H. destruct (m1 s1) as [[[]|x1] t1]; cbn [fst] in H; try contradiction.
    destruct x1; try contradiction; left; exact I.
  - unfold declined in H. destruct (m2 s2) as [[[]|x2] t2]; cbn [fst] in H; try contradiction.
    destruct x2; try contradiction; right; left; exact I.
  - destruct (m1 s1) as [r1 t1], (m2 s2) as [r2 t2]; cbn [fst snd] in H, H'. subst r2.
    destruct r1 as [[]|x]; [apply RR_same; exact H'|]. destruct x; apply RR_same; exact H'.
Qed.

Lemma RR_try (m1 m2 : M unit) (h1 h2 : option jv -> M unit) s1 s2 :
  RR (m1 s1) (m2 s2) -> (forall val t1 t2, R t1 t2 -> RR (h1 val t1) (h2 val t2)) ->
  RR (try_catch m1 h1 s1) (try_catch m2 h2 s2).
Proof.
  unfold try_catch. intros [H|[H|[H H']]] Hh.
  - unfold declined in H. destruct (m1 s1) as [[[]|x1] t1]; cbn [fst] in H; try contradiction.
    destruct x1; try contradiction; left; exact I.
  - unfold declined in H. destruct (m2 s2) as [[[]|x2] t2]; cbn [fst] in H; try contradiction.
    destruct x2; try contradiction; right; left; exact I.
  - destruct (m1 s1) as [r1 t1], (m2 s2) as [r2 t2]; cbn [fst snd] in H, H'. subst r2.
    destruct r1 as [[]|x]; [apply RR_same; exact H'|].
    destruct x as [[|d] c val| | | | |]; try (apply RR_same; exact H'). apply Hh. exact H'.
Qed.

Lemma check_linked x pp c s : linked x pp -> check_intact x pp c s = (inl tt, s).
Proof.
  intros [H _]. unfold check_intact, intact. rewrite H. rewrite N.eqb_refl. reflexivity.
Qed.

Lemma raise_err_rel c val s1 s2 : R s1 s2 -> RR (raise_err c val s1) (raise_err c val s2).
Proof. intros H. unfold raise_err. rewrite (R_rs _ _ H). apply RR_same. exact H. Qed.

Lemma lift_rel (r : nres) (k1 k2 : jv -> M unit) s1 s2 : R s1 s2 ->
  (forall w, r = NOk w -> RR (k1 w s1) (k2 w s2)) -> RR (lift r k1 s1) (lift r k2 s2).
Proof.
  intros H Hk. destruct r as [w|c val|why]; cbn [lift].
  - apply Hk. reflexivity.
  - apply raise_err_rel. exact H.
  - left. exact I.
Qed.

Lemma nav_rel m x ps1 y key w k1 k2 s1 s2 :
  cfg m x ps1 y -> krel m k1 k2 -> R s1 s2 -> fn_index2 (fst x) key = NOk w ->
  RR (nav ps1 x key w k1 s1) (nav None y key w k2 s2).
Proof.
  intros [Hy Hc] Hk HR Hi. destruct m.
  - destruct Hc as [pp [-> HL]]. cbn [nav]. unfold bind. rewrite (check_linked _ _ _ _ HL). unfold fresh. cbn [fst snd].
    apply (Hk (w, Some (nextid s1)) (Some (mkp (key :: rpath pp) w (nextid s1))) (plain w)); [|apply R_bump; exact HR].
    split; [reflexivity|]. eexists. split; [reflexivity|].
    destruct HL as [_ [H2 [H3 H4]]]. repeat split; cbn [fst snd lid lv rpath rev].
    + rewrite (nav_path_snoc _ _ _ key H3). rewrite <- H2. exact Hi.
    + eapply index_wf; [exact H4|]. rewrite <- H2. exact Hi.
  - subst ps1. cbn [nav]. apply Hk; [|exact HR]. split; reflexivity.
Qed.

Lemma index_rel m x ps1 y key k1 k2 s1 s2 :
  cfg m x ps1 y -> krel m k1 k2 -> R s1 s2 ->
  RR (lift (fn_index2 (fst x) key) (fun w => nav ps1 x key w k1) s1)
     (lift (fn_index2 (fst y) key) (fun w => nav None y key w k2) s2).
Proof.
  intros Hc Hk HR. rewrite (proj1 Hc). apply lift_rel; [exact HR|]. intros w Hw. eapply nav_rel; eassumption.
Qed.

(* .[] *)
Lemma iterate_rel m x ps1 y k1 k2 s1 s2 :
  cfg m x ps1 y -> krel m k1 k2 -> R s1 s2 ->
  RR (iterate x ps1 k1 s1) (iterate y None k2 s2).
Proof.
  intros [Hy Hc] Hk HR. destruct m.
  - destruct Hc as [pp [-> HL]]. unfold iterate. rewrite Hy.
    assert (Hel : forall elems : list (jv * jv),
      (forall key e, In (key, e) elems -> fn_index2 (lv pp) key = NOk e /\ jv_wf e) ->
      forall s1 s2, R s1 s2 ->
      RR ((fix go (l : list (jv * jv)) : M unit :=
             match l with
             | [] => ret tt
             | (key, e) :: r => (id <- fresh ;; k1 (e, Some id) (Some (mkp (key :: rpath pp) e id))) ;; go r
             end) elems s1)
         ((fix go (l : list (jv * jv)) : M unit :=
             match l with
             | [] => ret tt
             | (key, e) :: r => k2 (plain e) None ;; go r
             end) elems s2)).
    { induction elems as [|[key e] r IH]; intros Hin t1 t2 Ht.
      - apply RR_same. exact Ht.
      - apply RR_bind.
        + unfold bind, fresh. cbn [fst snd].
          apply (Hk (e, Some (nextid t1)) (Some (mkp (key :: rpath pp) e (nextid t1))) (plain e)); [|apply R_bump; exact Ht].
          split; [reflexivity|]. eexists. split; [reflexivity|].
          destruct HL as [_ [H2 [H3 H4]]]. destruct (Hin key e (or_introl eq_refl)) as [Hi He].
          repeat split; cbn [fst snd lid lv rpath rev]; [|exact He].
          rewrite (nav_path_snoc _ _ _ key H3). exact Hi.
        + intros u1 u2 Hu. apply IH; [|exact Hu]. intros key' e' H'. apply Hin. right. exact H'. }
    destruct HL as [H1 [H2 [H3 H4]]].
    destruct (fst x) as [|?|?|?|l|kvs] eqn:Ex; try (apply raise_err_rel; exact HR).
    + unfold bind. rewrite (check_linked x pp _ _ (conj H1 (conj (eq_trans Ex H2) (conj H3 H4)))) by idtac.
      apply Hel; [|exact HR]. rewrite <- H2. intros key e Hin. apply arr_elems; [rewrite H2; exact H4|exact Hin].
    + unfold bind. rewrite (check_linked x pp _ _ (conj H1 (conj (eq_trans Ex H2) (conj H3 H4)))) by idtac.
      apply Hel; [|exact HR]. rewrite <- H2. intros key e Hin. apply obj_elems; [rewrite H2; exact H4|exact Hin].
  - subst ps1. unfold iterate. rewrite Hy.
    assert (Hel : forall elems : list (jv * jv), forall s1 s2, R s1 s2 ->
      RR ((fix go (l : list (jv * jv)) : M unit :=
             match l with
             | [] => ret tt
             | (key, e) :: r => k1 (plain e) None ;; go r
             end) elems s1)
         ((fix go (l : list (jv * jv)) : M unit :=
             match l with
             | [] => ret tt
             | (key, e) :: r => k2 (plain e) None ;; go r
             end) elems s2)).
    { induction elems as [|[key e] r IH]; intros t1 t2 Ht.
      - apply RR_same. exact Ht.
      - apply RR_bind; [|exact IH]. apply Hk; [|exact Ht]. split; reflexivity. }
    destruct (fst x) as [|?|?|?|l|kvs]; try (apply raise_err_rel; exact HR); apply Hel; exact HR.
Qed.

(* environments of variables and labels hold no function; they agree on variables up to ids *)
Lemma env_rel_fun rho1 rho2 name ar : env_rel rho1 rho2 ->
  lookup_fun rho1 name ar = None /\ lookup_fun rho2 name ar = None.
Proof. induction 1; cbn [lookup_fun]; auto. Qed.

Lemma env_rel_var rho1 rho2 name : env_rel rho1 rho2 ->
  match lookup_var rho1 name, lookup_var rho2 name with
  | Some a, Some b => fst b = fst a
  | None, None => True
  | _, _ => False
  end.
Proof.
  induction 1; cbn [lookup_var]; auto. destruct (list_N_eqb n name); [symmetry; assumption|assumption].
Qed.

Definition sim (m : mode) (p : pq) : Prop :=
  forall n rho1 rho2 x ps1 y k1 k2 s1 s2,
    env_rel rho1 rho2 -> cfg m x ps1 y -> krel m k1 k2 -> R s1 s2 ->
    RR (eval_q bs n rho1 (emb p) x ps1 k1 s1) (eval_q bs n rho2 (emb p) y None k2 s2).

Ltac fuel n := destruct n as [|n]; [left; exact I|].
Ltac fold_eval :=
  repeat match goal with
         | |- context [step_eval_q (evals_n bs ?m)] => change (step_eval_q (evals_n bs m)) with (eval_q bs (S m))
         | |- context [ev_q (step bs (evals_n bs ?m))] => change (ev_q (step bs (evals_n bs m))) with (eval_q bs (S m))
         | |- context [ev_q (evals_n bs ?m)] => change (ev_q (evals_n bs m)) with (eval_q bs m)
         end.
Ltac red_eval := cbn [evals_n step ev_q step_eval_q push_defs fold_left ev_t step_eval_t rev app ev_index ev_call].

Lemma sim_id m : sim m PId.
Proof.
  intros n rho1 rho2 x ps1 y k1 k2 s1 s2 He Hc Hk HR. fuel n. fuel n.
  apply Hk; assumption.
Qed.

Lemma sim_idx m i : index_key i <> None -> sim m (PIdx i).
Proof.
  intros Hi n rho1 rho2 x ps1 y k1 k2 s1 s2 He Hc Hk HR.
  destruct (index_key i) as [key|] eqn:Ek; [|congruence].
  cbn [emb]. unfold eval_q, q_term. fuel n. red_eval. fuel n. red_eval. fuel n. red_eval.
  unfold step_eval_index. rewrite Ek. fuel n. red_eval.
  eapply index_rel; eassumption.
Qed.

Lemma sim_iter m : sim m PIter.
Proof.
  intros n rho1 rho2 x ps1 y k1 k2 s1 s2 He Hc Hk HR. do 3 fuel n.
  cbn [emb]. unfold eval_q. red_eval.
  eapply iterate_rel; eassumption.
Qed.

Lemma sim_pipe m a b : sim m a -> sim m b -> sim m (PPipe a b).
Proof.
  intros Ha Hb n rho1 rho2 x ps1 y k1 k2 s1 s2 He Hc Hk HR. fuel n.
  cbn [emb]. rewrite !pipe_law. apply Ha; try assumption.
  intros x' ps' y' Hc' t1 t2 Ht. apply Hb; assumption.
Qed.

Lemma sim_comma m a b : sim m a -> sim m b -> sim m (PComma a b).
Proof.
  intros Ha Hb n rho1 rho2 x ps1 y k1 k2 s1 s2 He Hc Hk HR. fuel n.
  cbn [emb]. rewrite !comma_law. apply RR_bind.
  - apply Ha; assumption.
  - intros t1 t2 Ht. apply Hb; assumption.
Qed.

Lemma sim_empty m : sim m PEmpty.
Proof.
  intros n rho1 rho2 x ps1 y k1 k2 s1 s2 He Hc Hk HR. do 3 fuel n.
  cbn [emb]. unfold eval_q, q_call, q_term. red_eval.
  unfold step_call. cbn [List.length].
  replace (is_var_name (codes "empty") && Nat.eqb 0 0) with false by reflexivity.
  destruct (env_rel_fun _ _ (codes "empty") O He) as [-> ->]. rewrite Hempty.
  apply RR_same. exact HR.
Qed.

Lemma sim_error m : sim m PError.
Proof.
  intros n rho1 rho2 x ps1 y k1 k2 s1 s2 He Hc Hk HR. do 3 fuel n.
  cbn [emb]. unfold eval_q, q_call, q_term. red_eval.
  unfold step_call. cbn [List.length].
  replace (is_var_name (codes "error") && Nat.eqb 0 0) with false by reflexivity.
  destruct (env_rel_fun _ _ (codes "error") O He) as [-> ->]. rewrite Herror.
  unfold guard_repsens. replace (is_formatter (codes "error")) with false by reflexivity.
  replace (list_N_eqb (codes "error") nm_21) with false by reflexivity.
  replace (list_N_eqb (codes "error") nm_27) with false by reflexivity.
  replace (list_N_eqb (codes "error") nm_25) with false by reflexivity.
  replace (list_N_eqb (codes "error") nm_26) with false by reflexivity.
  replace (list_N_eqb (codes "error") nm_0 || list_N_eqb (codes "error") nm_22) with false by reflexivity.
  replace (call_native (codes "error") (fst x) []) with (Some (fn_error0 (fst x))) by reflexivity.
  replace (call_native (codes "error") (fst y) []) with (Some (fn_error0 (fst y))) by reflexivity.
  rewrite (proj1 Hc). unfold fn_error0. cbn [lift]. apply raise_err_rel. exact HR.
Qed.

(* the branches of an if, after the condition *)
Lemma sim_if_gen m c (a1 a2 b1 b2 : M unit) n rho1 rho2 x ps1 y s1 s2 :
  sim MPlain c -> env_rel rho1 rho2 -> cfg m x ps1 y -> R s1 s2 ->
  (forall t1 t2, R t1 t2 -> RR (a1 t1) (a2 t2)) -> (forall t1 t2, R t1 t2 -> RR (b1 t1) (b2 t2)) ->
  RR (eval_q bs n rho1 (emb c) x None (fun z _ => if truthy (fst z) then a1 else b1) s1)
     (eval_q bs n rho2 (emb c) y None (fun z _ => if truthy (fst z) then a2 else b2) s2).
Proof.
  intros Hsc He Hc HR Ha Hb. apply Hsc; try assumption; [eapply cfg_plain; exact Hc|].
  intros z ps' z' [Hz _] t1 t2 Ht. rewrite Hz. destruct (truthy (fst z)); [apply Ha|apply Hb]; exact Ht.
Qed.

Lemma sim_if m c a b : sim MPlain c -> sim m a -> sim m b -> sim m (PIf c a b).
Proof.
  intros Hsc Ha Hb n rho1 rho2 x ps1 y k1 k2 s1 s2 He Hc Hk HR. do 2 fuel n.
  cbn [emb]. unfold eval_q, q_term. red_eval. cbn [if_chain].
  apply (sim_if_gen m c _ _ _ _ n rho1 rho2 x ps1 y s1 s2); try assumption; intros t1 t2 Ht; [apply Ha|apply Hb]; assumption.
Qed.

Lemma sim_ifne m c a : sim MPlain c -> sim m a -> sim m (PIfNoElse c a).
Proof.
  intros Hsc Ha n rho1 rho2 x ps1 y k1 k2 s1 s2 He Hc Hk HR. do 2 fuel n.
  cbn [emb]. unfold eval_q, q_term. red_eval. cbn [if_chain].
  apply (sim_if_gen m c _ _ _ _ n rho1 rho2 x ps1 y s1 s2); try assumption; intros t1 t2 Ht; [apply Ha|apply Hk]; assumption.
Qed.

Lemma sim_try m p : sim m p -> sim m (PTry p).
Proof.
  intros Hp n rho1 rho2 x ps1 y k1 k2 s1 s2 He Hc Hk HR. do 2 fuel n.
  cbn [emb]. unfold eval_q, q_term. red_eval.
  apply RR_try.
  - apply Hp; try assumption. intros z ps' z' Hz t1 t2 Ht. apply RR_down. apply Hk; assumption.
  - intros val t1 t2 Ht. apply RR_same. exact Ht.
Qed.

Lemma sim_lit t : is_lit t = true -> sim MPlain (PLit t).
Proof.
  intros Ht n rho1 rho2 x ps1 y k1 k2 s1 s2 He Hc Hk HR. do 2 fuel n.
  assert (Hp : forall w, RR (k1 (plain w) ps1 s1) (k2 (plain w) None s2)).
  { intros w. apply Hk; [|exact HR]. split; [reflexivity|apply Hc]. }
  cbn [emb]. unfold eval_q, q_term. red_eval.
  destruct t; try discriminate Ht; try apply Hp.
  destruct s as [str [qs|]]; [discriminate Ht|]. fuel n. cbn [ev_string evals_n step step_eval_string]. apply Hp.
Qed.

Lemma sim_var x0 : is_var_name x0 = true -> sim MPlain (PVar x0).
Proof.
  intros Hx n rho1 rho2 x ps1 y k1 k2 s1 s2 He Hc Hk HR. do 3 fuel n.
  cbn [emb]. unfold eval_q, q_call, q_term. red_eval.
  unfold step_call. cbn [List.length]. rewrite Hx. cbn [andb Nat.eqb].
  pose proof (env_rel_var _ _ x0 He) as Hv.
  destruct (lookup_var rho1 x0) as [a|], (lookup_var rho2 x0) as [b|]; try contradiction.
  - apply Hk; [|exact HR]. split; [exact Hv|apply Hc].
  - destruct (list_N_eqb x0 nm_0); [|left; exact I]. apply Hk; [|exact HR]. split; [reflexivity|apply Hc].
Qed.

Lemma sim_native0 name : native0_ok name = true -> lookup_builtin bs name 0 = None -> sim MPlain (PNative0 name).
Proof.
  intros Hn Hb n rho1 rho2 x ps1 y k1 k2 s1 s2 He Hc Hk HR. do 3 fuel n.
  unfold native0_ok in Hn. repeat (apply andb_true_iff in Hn as [Hn ?]).
  repeat match goal with H : negb _ = true |- _ => apply negb_true_iff in H end.
  cbn [emb]. unfold eval_q, q_call, q_term. red_eval.
  unfold step_call. cbn [List.length]. rewrite Hn. cbn [andb].
  destruct (env_rel_fun _ _ name O He) as [-> ->]. rewrite Hb.
  unfold guard_repsens.
  repeat match goal with H : _ = false |- _ => rewrite H end. cbn [orb].
  rewrite (proj1 Hc). destruct (call_native name (fst x) []) as [r|]; [|left; exact I].
  apply lift_rel; [exact HR|]. intros w _. apply Hk; [|exact HR]. split; [reflexivity|apply Hc].
Qed.

Lemma sim_binop o a b : binop_ok o = true -> sim MPlain a -> sim MPlain b -> sim MPlain (PBinop o a b).
Proof.
  intros Ho Ha Hb n rho1 rho2 x ps1 y k1 k2 s1 s2 He Hc Hk HR. fuel n.
  assert (Hp : forall w t1 t2, R t1 t2 -> RR (k1 (plain w) ps1 t1) (k2 (plain w) None t2)).
  { intros w t1 t2 Ht. apply Hk; [|exact Ht]. split; [reflexivity|apply Hc]. }
  assert (Hps : ps1 = None) by apply Hc. subst ps1.
  cbn [emb]. unfold eval_q, q_bin. red_eval.
  destruct o; try discriminate Ho; cbn [op_binop];
    try (apply Hb; try assumption; intros z ps' z' [Hz Hps] t1 t2 Ht; cbn in Hps; subst ps';
         apply Ha; try assumption; intros u ps'' u' [Hu Hps] v1 v2 Hv; cbn in Hps; subst ps'';
         rewrite Hz, Hu; apply lift_rel; [exact Hv|]; intros w _; apply Hp; exact Hv).
  - (* and *)
    apply Ha; try assumption. intros z ps' z' [Hz _] t1 t2 Ht. rewrite Hz.
    destruct (truthy (fst z)); [|apply Hp; exact Ht].
    apply Hb; try assumption. intros u ps'' u' [Hu _] v1 v2 Hv. rewrite Hu. apply Hp. exact Hv.
  - (* or *)
    apply Ha; try assumption. intros z ps' z' [Hz _] t1 t2 Ht. rewrite Hz.
    destruct (truthy (fst z)); [apply Hp; exact Ht|].
    apply Hb; try assumption. intros u ps'' u' [Hu _] v1 v2 Hv. rewrite Hu. apply Hp. exact Hv.
Qed.

Lemma sim_bind m e x0 p : is_var_name x0 = true -> sim MPlain e -> sim m p -> sim m (PBind e x0 p).
Proof.
  intros Hx Hse Hp n rho1 rho2 x ps1 y k1 k2 s1 s2 He Hc Hk HR. do 2 fuel n.
  cbn [emb]. unfold eval_q. red_eval.
  destruct syn_depth_S as [d Hd]. rewrite Hd.
  destruct x0 as [|c x0]; [discriminate Hx|].
  cbn [flat_map pattern_vars app fold_left alts_loop ev_bindpat step step_bind_pat].
  fold_eval.
  fold_eval. apply Hse; try assumption; [eapply cfg_plain; exact Hc|].
  intros z ps' z' [Hz _] t1 t2 Ht. apply Hp; try assumption.
  apply ER_var; [symmetry; exact Hz|]. apply ER_var; [reflexivity|exact He].
Qed.

Lemma sim_idxdyn m e : query_index_key (emb e) = None -> sim MPlain e -> sim m (PIdxDyn e).
Proof.
  intros Hq Hse n rho1 rho2 x ps1 y k1 k2 s1 s2 He Hc Hk HR.
  cbn [emb]. unfold eval_q, q_term. fuel n. red_eval. fuel n. red_eval. fuel n. red_eval.
  unfold step_eval_index. cbn [index_key negb]. rewrite Hq. fuel n. red_eval.
  fold_eval. apply Hse; try assumption; [eapply cfg_plain; exact Hc|].
  intros z ps' z' [Hz _] t1 t2 Ht. rewrite Hz. eapply index_rel; eassumption.
Qed.

Lemma sim_getpath m e : sim MPlain e -> sim m (PGetpath e).
Proof.
  intros Hse n rho1 rho2 x ps1 y k1 k2 s1 s2 He Hc Hk HR. do 3 fuel n.
  cbn [emb]. unfold eval_q, q_call, q_term. red_eval.
  unfold step_call. cbn [List.length].
  replace (is_var_name (codes "getpath") && Nat.eqb 1 0) with false by reflexivity.
  destruct (env_rel_fun _ _ (codes "getpath") 1%nat He) as [-> ->]. rewrite Hgetpath.
  unfold guard_repsens. replace (is_formatter (codes "getpath")) with false by reflexivity.
  replace (list_N_eqb (codes "getpath") nm_29) with false by reflexivity.
  replace (list_N_eqb (codes "getpath") nm_24) with true by reflexivity.
  cbn [ev_q step]. apply Hse; try assumption; [eapply cfg_plain; exact Hc|].
  intros z ps' z' [Hz _] t1 t2 Ht. rewrite Hz, (proj1 Hc).
  apply lift_rel; [exact Ht|]. intros w Hw. destruct Hc as [Hy Hc]. destruct m.
  - destruct Hc as [pp [-> HL]].
    destruct (fst z) as [| | | |elems|] eqn:Ez; try discriminate Hw.
    destruct elems as [|e0 es].
    + unfold bind. rewrite (check_linked _ _ _ _ HL). cbn in Hw. injection Hw as <-.
      apply Hk; [|exact Ht]. split; [reflexivity|]. eexists. split; [reflexivity|].
      destruct HL as (L1 & L2 & L3 & L4). repeat split; assumption.
    + unfold bind. rewrite (check_linked _ _ _ _ HL). unfold fresh. cbn [fst snd].
      apply Hk; [|apply R_bump; exact Ht]. split; [reflexivity|]. eexists. split; [reflexivity|].
      destruct HL as (L1 & L2 & L3 & L4). apply getpath_ok_nav in Hw. rewrite L2 in Hw.
      repeat split; cbn [fst snd lid lv rpath].
      * rewrite rev_app_distr, rev_involutive. rewrite (nav_path_app _ _ _ _ L3). exact Hw.
      * eapply nav_path_wf; eassumption.
  - subst ps1. apply Hk; [|exact Ht]. split; reflexivity.
Qed.

Lemma sim_select m c : sim MPlain c -> sim m (PSelect c).
Proof.
  intros Hsc n rho1 rho2 x ps1 y k1 k2 s1 s2 He Hc Hk HR. do 3 fuel n.
  cbn [emb]. unfold eval_q, q_call, q_term. red_eval.
  unfold step_call. cbn [List.length].
  replace (is_var_name (codes "select") && Nat.eqb 1 0) with false by reflexivity.
  destruct (env_rel_fun _ _ (codes "select") 1%nat He) as [-> ->]. rewrite Hselect.
  unfold select_def, q_call, q_identity, q_term.
  cbn [combine fold_left cps_fold fst snd].
  replace (is_var_name (codes "f")) with false by reflexivity.
  apply RR_tick; [exact HR|]. intros t1 t2 Ht.
  fuel n. red_eval. fuel n. red_eval. cbn [if_chain].
  fuel n. red_eval. fuel n. red_eval. fuel n. red_eval.
  unfold step_call. cbn [List.length].
  replace (is_var_name (codes "f") && Nat.eqb 0 0) with false by reflexivity.
  cbn [lookup_fun].
  replace (Nat.eqb 0 0 && list_N_eqb (strip_dollar (codes "f")) (codes "f")) with true by reflexivity.
  apply RR_tick; [exact Ht|]. intros u1 u2 Hu.
  fold_eval. apply Hsc; try assumption; [eapply cfg_plain; exact Hc|].
  intros z ps' z' [Hz _] v1 v2 Hv. rewrite Hz. destruct (truthy (fst z)).
  - apply Hk; assumption.
  - rewrite Hempty. apply RR_same. exact Hv.
Qed.

(* the suffix form of `?` protects the last suffix only (compileTermSuffix) *)
Lemma sim_optidx m i : index_key i <> None -> sim m (POptIdx i).
Proof.
  intros Hi n rho1 rho2 x ps1 y k1 k2 s1 s2 He Hc Hk HR.
  destruct (index_key i) as [key|] eqn:Ek; [|congruence].
  cbn [emb]. unfold eval_q. fuel n. red_eval. fuel n. red_eval.
  apply RR_try; [|intros val t1 t2 Ht; apply RR_same; exact Ht].
  fuel n. red_eval. fuel n. red_eval. unfold step_eval_index. rewrite Ek. fuel n. red_eval.
  eapply index_rel; try eassumption.
  intros z ps' z' Hz t1 t2 Ht. apply RR_down. apply Hk; assumption.
Qed.

Lemma sim_optiter m : sim m POptIter.
Proof.
  intros n rho1 rho2 x ps1 y k1 k2 s1 s2 He Hc Hk HR.
  cbn [emb]. unfold eval_q. fuel n. red_eval. fuel n. red_eval. fuel n. red_eval.
  apply RR_try; [|intros val t1 t2 Ht; apply RR_same; exact Ht].
  eapply iterate_rel; try eassumption.
  intros z ps' z' Hz t1 t2 Ht. apply RR_down. apply Hk; assumption.
Qed.

(* terms with suffix lists *)
Lemma simT m kind : (kind = TIdentity \/ exists i, kind = TIndex i /\ index_key i <> None) ->
  forall ss, Forall suf_ok ss ->
  forall n rho1 rho2 x ps1 y k1 k2 s1 s2, env_rel rho1 rho2 -> cfg m x ps1 y -> krel m k1 k2 -> R s1 s2 ->
  RR (ev_t (evals_n bs n) rho1 (Term kind (map emb_suf ss)) x ps1 k1 s1)
     (ev_t (evals_n bs n) rho2 (Term kind (map emb_suf ss)) y None k2 s2).
Proof.
  intros Hkind ss. induction ss as [|s ss IH] using rev_ind; intros Hss n rho1 rho2 x ps1 y k1 k2 s1 s2 He Hc Hk HR.
  - cbn [map]. fuel n. destruct Hkind as [->|[i [-> Hi]]].
    + red_eval. apply Hk; assumption.
    + destruct (index_key i) as [key|] eqn:Ek; [|congruence].
      red_eval. fuel n. red_eval. unfold step_eval_index. rewrite Ek. fuel n. red_eval.
      eapply index_rel; eassumption.
  - apply Forall_app in Hss as [Hss Hs]. inversion Hs as [|? ? Hs1 _]; subst.
    rewrite map_app. cbn [map]. fuel n. cbn [evals_n step ev_t]. unfold step_eval_t. rewrite !rev_unit.
    destruct s as [i|]; cbn [emb_suf suf_ok] in *; cbv beta iota; rewrite !rev_involutive.
    + destruct (index_key i) as [key|] eqn:Ek; [|congruence].
      fuel n. cbn [evals_n step ev_index]. unfold step_eval_index. rewrite Ek.
      apply IH; try assumption. intros z ps' z' Hz t1 t2 Ht. eapply index_rel; eassumption.
    + apply IH; try assumption. intros z ps' z' Hz t1 t2 Ht. eapply iterate_rel; eassumption.
Qed.

Lemma sim_chain m h ss : match h with Some i => index_key i <> None | None => True end -> Forall suf_ok ss ->
  sim m (PChain h ss).
Proof.
  intros Hh Hss n rho1 rho2 x ps1 y k1 k2 s1 s2 He Hc Hk HR. fuel n.
  cbn [emb]. unfold eval_q. cbn [evals_n step ev_q step_eval_q push_defs fold_left].
  apply (simT m); try assumption. destruct h as [i|]; [right; exists i; split; [reflexivity|exact Hh]|left; reflexivity].
Qed.

Theorem sim_all p : forall m, ok bs m p -> sim m p.
Proof.
  induction p; intros m H; cbn [ok] in H.
  - apply sim_id.
  - apply sim_idx. exact H.
  - apply sim_iter.
  - destruct H. apply sim_pipe; auto.
  - destruct H. apply sim_comma; auto.
  - apply sim_empty.
  - apply sim_error.
  - destruct H as (H1 & H2 & H3). apply sim_if; auto.
  - destruct H as (H1 & H2). apply sim_ifne; auto.
  - apply sim_select; auto.
  - destruct H as (H1 & H2). apply sim_idxdyn; auto.
  - apply sim_getpath; auto.
  - destruct H as (H1 & H2 & H3). apply sim_bind; auto.
  - apply sim_try; auto.
  - destruct H as (-> & H2). apply sim_lit; auto.
  - destruct H as (-> & H2). apply sim_var; auto.
  - destruct H as (-> & H2 & H3 & H4). apply sim_binop; auto.
  - destruct H as (-> & H2 & H3). apply sim_native0; auto.
  - apply sim_optidx. exact H.
  - apply sim_optiter.
  - destruct H. apply sim_chain; assumption.
Qed.
End Rel.

(* ------------------------------------------------------------------------------------------ *)
(* top level: observe (path(p)) against observe p *)

Lemma Forall2_rev {A B} (P : A -> B -> Prop) l1 l2 : Forall2 P l1 l2 -> Forall2 P (rev l1) (rev l2).
Proof.
  induction 1; cbn [rev]; [constructor|]. apply Forall2_app; [assumption|]. constructor; [assumption|constructor].
Qed.

Section Top.
Variable bs : list funcdef.
Hypothesis Hempty : lookup_builtin bs (codes "empty") 0 = None.
Hypothesis Hpath : lookup_builtin bs (codes "path") 1 = None.
Hypothesis Herror : lookup_builtin bs (codes "error") 0 = None.
Hypothesis Hgetpath : lookup_builtin bs (codes "getpath") 1 = None.
Hypothesis Hselect : lookup_builtin bs (codes "select") 1 = Some select_def.

Lemma top_bump root s1 s2 : top_rel root s1 s2 -> top_rel root (bump s1) s2.
Proof. exact (fun H => H). Qed.
Lemma top_rs root s1 s2 : top_rel root s1 s2 -> repsens s1 = repsens s2.
Proof. intros H. apply H. Qed.
Lemma top_steps root s1 s2 : top_rel root s1 s2 -> steps s1 = steps s2.
Proof. intros H. apply H. Qed.
Lemma top_dec root s1 s2 : top_rel root s1 s2 -> top_rel root (dec_steps s1) (dec_steps s2).
Proof. intros (H1 & H2 & H3 & H4 & H5 & H6). repeat split; cbn; try assumption. rewrite H5. reflexivity. Qed.

(* the continuation path(..) installs, against the top-level continuation *)
Definition kpath : K := fun x ps' =>
  match ps' with
  | Some pp => check_intact x pp EInvalidPath ;; emit (plain (VArr (rev (rpath pp)))) None
  | None => skipM "path-state"
  end.

Lemma kpath_rel root : krel root (top_rel root) MPath kpath emit.
Proof.
  intros x ps1 y [Hy [pp [-> HL]]] s1 s2 HR. unfold kpath, bind. rewrite (check_linked root x pp _ _ HL).
  destruct HL as (_ & H2 & H3 & _). destruct HR as (R1 & R2 & R3 & R4 & R5 & R6).
  unfold emit. rewrite R1, R2. cbn [fst plain].
  assert (HR' : top_rel root
            (mkst (VArr (rev (rpath pp)) :: outs s1) (S (nout s2)) (cap s2) (nextid s1) (inputs s1) (cells s1) (repsens s1) (steps s1))
            (mkst (fst y :: outs s2) (S (nout s2)) (cap s2) (nextid s2) (inputs s2) (cells s2) (repsens s2) (steps s2))).
  { repeat split; cbn; try assumption. constructor; [|exact R6]. exists (rev (rpath pp)). split; [reflexivity|].
    rewrite Hy, H2. exact H3. }
  destruct (Nat.leb (cap s2) (S (nout s2))); apply RR_same; exact HR'.
Qed.

Lemma path_unfold n q v k s :
  eval_q bs (4 + n) [] (q_path q) (plain v) None k s =
  eval_q bs n [] q (v, Some (nextid s)) (Some (mkp [] v (nextid s)))
    (fun x ps' => match ps' with
                  | Some pp => check_intact x pp EInvalidPath ;; k (plain (VArr (rev (rpath pp)))) None
                  | None => skipM "path-state"
                  end) (bump s).
Proof.
  unfold eval_q, q_path, q_call, q_term.
  cbn [Nat.add evals_n step ev_q step_eval_q push_defs fold_left ev_t step_eval_t rev app ev_call].
  unfold step_call. cbn [List.length].
  replace (is_var_name (codes "path") && Nat.eqb 1 0) with false by reflexivity.
  cbn [lookup_fun]. rewrite Hpath.
  unfold guard_repsens. replace (is_formatter (codes "path")) with false by reflexivity.
  replace (list_N_eqb (codes "path") nm_29) with true by reflexivity.
  cbn [ev_path step]. unfold step_eval_path. unfold bind at 1. unfold fresh at 1. cbn [fst snd plain]. reflexivity.
Qed.

Definition ending_of (r : (unit + exn)) : ending :=
  match r with
  | inl _ => EndNormal
  | inr x => match x with
             | XStop => EndCap
             | XErr _ c val => EndError c val
             | XBreak _ => EndError EBreak None
             | XHalt hv code => EndHalt hv code
             | XFuel => EndSkip (codes "fuel")
             | XSkip why => EndSkip why
             end
  end.

Lemma observe_eq fuel capn rs ins q v :
  observe bs fuel capn rs ins q v =
  (rev' (outs (snd (raw_run bs fuel capn rs ins q v))), ending_of (fst (raw_run bs fuel capn rs ins q v))).
Proof. unfold observe, raw_run. destruct (eval_q _ _ _ _ _ _ _ _) as [[[]|x] s]; reflexivity. Qed.

Lemma verdict_not_declined (r : res) : verdict (ending_of (fst r)) -> ~ declined r.
Proof. unfold declined. destruct r as [[[]|x] s]; cbn; [tauto|]. destruct x; cbn; tauto. Qed.

Lemma verdict_fuel_free (r : res) : verdict (ending_of (fst r)) -> fuel_free r.
Proof. unfold fuel_free. destruct r as [[[]|x] s]; cbn; [tauto|]. destruct x; cbn; tauto. Qed.

(* C02, first clause, on the fragment: the k-th path emitted by path(p) navigates the input to the k-th
   output of p; same number of outputs; same ending *)
Theorem path_sound p : pf bs p -> forall n1 n2 capn rs ins v, jv_wf v ->
  verdict (snd (observe bs n1 capn rs ins (q_path (emb p)) v)) ->
  verdict (snd (observe bs n2 capn rs ins (emb p) v)) ->
  snd (observe bs n1 capn rs ins (q_path (emb p)) v) = snd (observe bs n2 capn rs ins (emb p) v) /\
  Forall2 (out_rel v) (fst (observe bs n1 capn rs ins (q_path (emb p)) v)) (fst (observe bs n2 capn rs ins (emb p) v)).
Proof.
  intros Hp n1 n2 capn rs ins v Hv V1 V2.
  set (N := Nat.max n1 n2).
  rewrite observe_eq in V1, V2. cbn [snd] in V1, V2.
  rewrite <- (observe_fuel_mono bs n1 (4 + N) capn rs ins _ v) by (try apply verdict_fuel_free; try assumption; lia).
  rewrite <- (observe_fuel_mono bs n2 N capn rs ins _ v) by (try apply verdict_fuel_free; try assumption; lia).
  pose proof (eval_fuel_mono bs n1 (4 + N) [] (q_path (emb p)) (plain v) None emit (init_state capn ins rs)
                ltac:(lia) (verdict_fuel_free _ V1)) as E1.
  pose proof (eval_fuel_mono bs n2 N [] (emb p) (plain v) None emit (init_state capn ins rs)
                ltac:(lia) (verdict_fuel_free _ V2)) as E2.
  unfold raw_run in V1, V2. rewrite <- E1 in V1. rewrite <- E2 in V2.
  rewrite !observe_eq. unfold raw_run. cbn [fst snd].
  rewrite path_unfold in *.
  pose proof (sim_all bs v (top_rel v) (top_bump v) (top_rs v) (top_steps v) (top_dec v) Hempty Herror Hgetpath Hselect
                p MPath Hp N [] []
                (v, Some (nextid (init_state capn ins rs))) (Some (mkp [] v (nextid (init_state capn ins rs)))) (plain v)
                kpath emit (bump (init_state capn ins rs)) (init_state capn ins rs)) as HS.
  change (fun (x : tv) (ps' : pst) => match ps' with
            | Some pp => check_intact x pp EInvalidPath ;; emit (plain (VArr (rev (rpath pp)))) None
            | None => skipM "path-state" end) with kpath in *.
  destruct HS as [D|[D|[F S]]].
  - constructor.
  - split; [reflexivity|]. eexists. split; [reflexivity|]. repeat split; cbn; try reflexivity. exact Hv.
  - apply kpath_rel.
  - repeat split; cbn; constructor.
  - exfalso. exact (verdict_not_declined _ V1 D).
  - exfalso. exact (verdict_not_declined _ V2 D).
  - rewrite F. split; [reflexivity|]. unfold rev'. rewrite <- !rev_alt. apply Forall2_rev. apply S.
Qed.
End Top.

(* ------------------------------------------------------------------------------------------ *)
(* the invalid-path clause: navigating, inside path(..), from a value the model classifies as COMPUTED
   (not the value last navigated to: [intact] answers No) raises an error and never reaches the consumer *)

Lemma nav_invalid pp x key w k s : intact (repsens s) x pp = No ->
  nav (Some pp) x key w k s = raise_err EInvalidPath (msg_invalid_path (fst x)) s.
Proof. intros H. cbn [nav]. unfold bind, check_intact. rewrite H. reflexivity. Qed.

Lemma iterate_invalid pp x k s : intact (repsens s) x pp = No ->
  iterate x (Some pp) k s = raise_err EInvalidPathIter (msg_invalid_path_iter (fst x)) s \/
  iterate x (Some pp) k s = raise_err EIterator (msg_iterator (fst x)) s.
Proof.
  intros H. unfold iterate. destruct (fst x) eqn:E; try (right; reflexivity);
    left; unfold bind, check_intact; rewrite H, E; reflexivity.
Qed.

Section Neg.
Variable bs : list funcdef.

(* a constant index / slice (.a, .[3], .[1:2]) from a computed value: the error of the index function when
   the value cannot be indexed that way, the invalid-path error otherwise; the consumer k is never called *)
Theorem index_from_computed i key n rho x pp k s : index_key i = Some key -> intact (repsens s) x pp = No ->
  eval_q bs (4 + n) rho (emb (PIdx i)) x (Some pp) k s =
  match fn_index2 (fst x) key with
  | NOk _ => raise_err EInvalidPath (msg_invalid_path (fst x)) s
  | NErr c val => raise_err c val s
  | NSkip why => (inr (XSkip why), s)
  end.
Proof.
  intros Ek H. cbn [emb]. unfold eval_q, q_term.
  cbn [Nat.add evals_n step ev_q step_eval_q push_defs fold_left ev_t step_eval_t rev app ev_index].
  unfold step_eval_index. rewrite Ek. cbn [ev_t step step_eval_t rev app].
  destruct (fn_index2 (fst x) key); cbn [lift]; [apply nav_invalid; exact H|reflexivity|reflexivity].
Qed.

Theorem iterate_from_computed n rho x pp k s : intact (repsens s) x pp = No ->
  eval_q bs (3 + n) rho (emb PIter) x (Some pp) k s = raise_err EInvalidPathIter (msg_invalid_path_iter (fst x)) s \/
  eval_q bs (3 + n) rho (emb PIter) x (Some pp) k s = raise_err EIterator (msg_iterator (fst x)) s.
Proof.
  intros H. cbn [emb]. unfold eval_q.
  cbn [Nat.add evals_n step ev_q step_eval_q push_defs fold_left ev_t step_eval_t rev app].
  apply iterate_invalid. exact H.
Qed.
End Neg.

Theorem path_sound_law bs : builtins_ok bs -> forall p, pf bs p -> path_law bs (emb p).
Proof.
  intros (H1 & H2 & H3 & H4 & H5) p Hp n1 n2 capn rs ins v Hv V1 V2.
  apply (path_sound bs H1 H2 H3 H4 H5 p Hp); assumption.
Qed.
