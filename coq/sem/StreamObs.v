(* StreamObs.v — the events of a value as a list, and the state after the walk of tostream with the top-level
   consumer: definitions.  (Proofs: StreamObsProofs.v.) *)
From Coq Require Import String.
From Coq Require Import List ZArith NArith Bool.
From Verif Require Import common.Sexp sem.JV sem.Syntax sem.Natives sem.Sem sem.BuiltinLaws sem.BuiltinCalls sem.StreamLaws sem.StreamGen.
Import ListNotations.

(* the events of the subtree v at (reversed) path rp, children first; d bounds the depth of the recursion
   (any d >= vsize v gives the same list; [events] uses vsize v) *)
Fixpoint events_at (d : nat) (v : jv) (rp : list jv) : list jv :=
  match d with
  | O => []
  | S d' => flat_map (fun ke => events_at d' (snd ke) (fst ke :: rp)) (elems_of v) ++ [ts_event (rev rp) v]
  end.
Definition events (v : jv) : list jv := events_at (vsize v) v [].

(* the state after emitting evs, allocating ids navigation ids and spending tk units of budget *)
Definition st_walk (s : sst) (evs : list jv) (ids tk : nat) : sst :=
  mkst (rev evs ++ outs s) (nout s + List.length evs) (cap s) (nextid s + N.of_nat ids)%N (inputs s) (cells s)
       (repsens s) (steps s - N.of_nat tk)%N.

Definition size_sum (l : list (jv * jv)) : nat := fold_right (fun ke acc => (vsize (snd ke) + acc)%nat) O l.

(* the paths of the subtree v at (reversed) path rp, node first, then its children (the order of `..`) *)
Fixpoint paths_at (d : nat) (v : jv) (rp : list jv) : list (list jv) :=
  match d with
  | O => []
  | S d' => rev rp :: flat_map (fun ke => paths_at d' (snd ke) (fst ke :: rp)) (elems_of v)
  end.
(* the paths of the proper descendants of v *)
Definition kids_paths (v : jv) : list (list jv) :=
  flat_map (fun ke => paths_at (vsize v) (snd ke) [fst ke]) (elems_of v).
