(* stack.go and scope_stack.go of /repo, transcribed line by line.  Both files have the same code shape
   (scopeStack has no [top]); the model is generic in the cell type A ([any] resp. [scope]).
   Definitions only (no proofs): this file is extracted.

     type stack struct { data []block; index int; limit int }
     type block struct { value any; next int }

   Go [int] is modelled by Z (indices stay far below 2^63: they are bounded by len data).
   A Go run-time panic (index out of range) is [None]. *)
From Coq Require Import List ZArith Bool.
Import ListNotations.
Open Scope Z_scope.

Section Stack.
Variable A : Type.

Record block := mkBlock { bvalue : A; bnext : Z }.
Record stack := mkStack { data : list block; index : Z; limit : Z }.

(* func newStack() *stack { return &stack{index: -1, limit: -1} } *)
Definition new_stack : stack := mkStack [] (-1) (-1).

Definition len (d : list block) : Z := Z.of_nat (length d).

(* s.data[i] ; None = index out of range panic *)
Definition get (d : list block) (i : Z) : option block :=
  if i <? 0 then None else nth_error d (Z.to_nat i).

(* s.data[i] = b  (only called with 0 <= i < len) *)
Fixpoint set_nth (n : nat) (b : block) (d : list block) : list block :=
  match d, n with
  | [], _ => []
  | _ :: r, O => b :: r
  | x :: r, S m => x :: set_nth m b r
  end.

(* func (s *stack) push(v any) {
     b := block{v, s.index}
     s.index = max(s.index, s.limit) + 1
     if s.index < len(s.data) { s.data[s.index] = b } else { s.data = append(s.data, b) } } *)
Definition push (v : A) (s : stack) : stack :=
  let b := mkBlock v (index s) in
  let i := Z.max (index s) (limit s) + 1 in
  mkStack (if i <? len (data s) then set_nth (Z.to_nat i) b (data s) else data s ++ [b]) i (limit s).

(* func (s *stack) pop() any { b := s.data[s.index]; s.index = b.next; return b.value } *)
Definition pop (s : stack) : option (A * stack) :=
  match get (data s) (index s) with
  | Some b => Some (bvalue b, mkStack (data s) (bnext b) (limit s))
  | None => None
  end.

(* func (s *stack) top() any { return s.data[s.index].value } *)
Definition top (s : stack) : option A := option_map bvalue (get (data s) (index s)).

(* func (s *stack) empty() bool { return s.index < 0 } *)
Definition empty (s : stack) : bool := index s <? 0.

(* func (s *stack) save() (index, limit int) {
     index, limit = s.index, s.limit
     if s.index > s.limit { s.limit = s.index }
     return } *)
Definition save (s : stack) : (Z * Z) * stack :=
  ((index s, limit s), mkStack (data s) (index s) (if index s >? limit s then index s else limit s)).

(* func (s *stack) restore(index, limit int) { s.index, s.limit = index, limit } *)
Definition restore (p : Z * Z) (s : stack) : stack := mkStack (data s) (fst p) (snd p).

(* The abstract content: follow the next pointers from position i.  [fuel] only makes the definition
   structural; StackProofs shows the result does not depend on it once fuel > i (next < position). *)
Fixpoint chain (d : list block) (fuel : nat) (i : Z) : list A :=
  match fuel with
  | O => []
  | S f => match get d i with
           | Some b => bvalue b :: chain d f (bnext b)
           | None => []
           end
  end.
Definition view_at (d : list block) (i : Z) : list A := chain d (length d) i.
Definition view (s : stack) : list A := view_at (data s) (index s).

(* ---------------------------------------------------------------------------------------------
   Operation sequences under the fork discipline: the machine carries the pending saved pairs
   (env.forks), most recent first; [ORestore] pops the most recent one and restores it. *)
Inductive op := OPush (v : A) | OPop | OSave | ORestore.

Definition cfg := (stack * list (Z * Z))%type.

Definition exec1 (o : op) (c : cfg) : option cfg :=
  let (s, pend) := c in
  match o with
  | OPush v => Some (push v s, pend)
  | OPop => match pop s with Some (_, s') => Some (s', pend) | None => None end
  | OSave => let (p, s') := save s in Some (s', p :: pend)
  | ORestore => match pend with p :: r => Some (restore p s, r) | [] => None end
  end.

Fixpoint exec (ops : list op) (c : cfg) : option cfg :=
  match ops with
  | [] => Some c
  | o :: r => match exec1 o c with Some c' => exec r c' | None => None end
  end.

(* Specification: a persistent (immutable, shared) list stack; save = remember the list. *)
Definition scfg := (list A * list (list A))%type.

Definition spec1 (o : op) (c : scfg) : option scfg :=
  let (l, saved) := c in
  match o with
  | OPush v => Some (v :: l, saved)
  | OPop => match l with _ :: l' => Some (l', saved) | [] => None end
  | OSave => Some (l, l :: saved)
  | ORestore => match saved with l' :: r => Some (l', r) | [] => None end
  end.

Fixpoint spec_exec (ops : list op) (c : scfg) : option scfg :=
  match ops with
  | [] => Some c
  | o :: r => match spec1 o c with Some c' => spec_exec r c' | None => None end
  end.

Definition abs (c : cfg) : scfg :=
  (view (fst c), map (fun p => view_at (data (fst c)) (fst p)) (snd c)).

(* high-water mark of an execution: the largest slot a push writes to (+1) *)
Definition hi (s : stack) : Z := Z.max (index s) (limit s) + 1.

Fixpoint peak (ops : list op) (c : cfg) : Z :=
  match ops with
  | [] => 0
  | o :: r => Z.max (match o with OPush _ => hi (fst c) + 1 | _ => 0 end)
                    (match exec1 o c with Some c' => peak r c' | None => 0 end)
  end.

End Stack.

Arguments mkBlock {A}. Arguments bvalue {A}. Arguments bnext {A}.
Arguments mkStack {A}. Arguments data {A}. Arguments index {A}. Arguments limit {A}.
Arguments new_stack {A}. Arguments len {A}. Arguments get {A}. Arguments set_nth {A}.
Arguments push {A}. Arguments pop {A}. Arguments top {A}. Arguments empty {A}.
Arguments save {A}. Arguments restore {A}. Arguments chain {A}. Arguments view_at {A}. Arguments view {A}.
Arguments OPush {A}. Arguments OPop {A}. Arguments OSave {A}. Arguments ORestore {A}.
Arguments exec1 {A}. Arguments exec {A}. Arguments spec1 {A}. Arguments spec_exec {A}. Arguments abs {A}.
Arguments hi {A}. Arguments peak {A}.
