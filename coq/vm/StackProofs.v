(* Proofs about vm/Stack.v: the array-with-limit stack of stack.go / scope_stack.go refines a persistent
   list stack under the fork discipline, and its data array only grows at a new high-water mark. *)
From Coq Require Import List ZArith Bool Lia.
From Verif Require Import vm.Stack.
Import ListNotations.
Open Scope Z_scope.

Section Proofs.
Variable A : Type.
Notation block := (block A).
Notation stack := (stack A).
Notation cfg := (cfg A).

(* ---- list facts --------------------------------------------------------------------------- *)
Lemma length_set_nth : forall (d : list block) n b, length (set_nth n b d) = length d.
Proof. induction d; destruct n; simpl; intros; auto. Qed.

Lemma nth_error_set_same : forall (d : list block) n b, (n < length d)%nat -> nth_error (set_nth n b d) n = Some b.
Proof. induction d; destruct n; simpl; intros; try lia; auto. apply IHd. lia. Qed.

Lemma nth_error_set_other : forall (d : list block) n m b, n <> m -> nth_error (set_nth n b d) m = nth_error d m.
Proof. induction d; destruct n; destruct m; simpl; intros; try congruence; auto. Qed.

Lemma get_Some_range : forall (d : list block) i b, get d i = Some b -> 0 <= i < len d.
Proof.
  unfold get, len. intros d i b H. destruct (i <? 0) eqn:E; [discriminate|].
  apply Z.ltb_ge in E. assert (Hn : nth_error d (Z.to_nat i) <> None) by congruence.
  apply nth_error_Some in Hn. lia.
Qed.

Lemma get_in_range : forall (d : list block) i, 0 <= i < len d -> exists b, get d i = Some b.
Proof.
  unfold get, len. intros d i H. destruct (i <? 0) eqn:E; [apply Z.ltb_lt in E; lia|].
  destruct (nth_error d (Z.to_nat i)) eqn:N; eauto. apply nth_error_None in N. lia.
Qed.

Lemma get_neg : forall (d : list block) i, i < 0 -> get d i = None.
Proof. unfold get. intros. destruct (i <? 0) eqn:E; auto. apply Z.ltb_ge in E. lia. Qed.

Lemma get_set_same : forall (d : list block) p b, 0 <= p < len d -> get (set_nth (Z.to_nat p) b d) p = Some b.
Proof.
  unfold get, len. intros. destruct (p <? 0) eqn:E; [apply Z.ltb_lt in E; lia|].
  apply nth_error_set_same. lia.
Qed.

Lemma get_set_other : forall (d : list block) p i b, 0 <= p -> i <> p -> get (set_nth (Z.to_nat p) b d) i = get d i.
Proof.
  unfold get. intros. destruct (i <? 0) eqn:E; auto. apply Z.ltb_ge in E.
  apply nth_error_set_other. lia.
Qed.

Lemma get_app_old : forall (d : list block) i b, i < len d -> get (d ++ [b]) i = get d i.
Proof.
  unfold get, len. intros. destruct (i <? 0) eqn:E; auto. apply Z.ltb_ge in E.
  apply nth_error_app1. lia.
Qed.

Lemma get_app_other : forall (d : list block) i b, i <> len d -> get (d ++ [b]) i = get d i.
Proof.
  intros. destruct (Z.lt_ge_cases i (len d)); [apply get_app_old; auto|].
  unfold get, len in *. destruct (i <? 0) eqn:E; auto.
  assert (N1 : nth_error (d ++ [b]) (Z.to_nat i) = None) by (apply nth_error_None; rewrite app_length; simpl; lia).
  assert (N2 : nth_error d (Z.to_nat i) = None) by (apply nth_error_None; lia).
  congruence.
Qed.

Lemma get_app_new : forall (d : list block) b, get (d ++ [b]) (len d) = Some b.
Proof.
  unfold get, len. intros. destruct (Z.of_nat (length d) <? 0) eqn:E; [apply Z.ltb_lt in E; lia|].
  rewrite Nat2Z.id. rewrite nth_error_app2 by lia. rewrite Nat.sub_diag. reflexivity.
Qed.

(* ---- invariant ---------------------------------------------------------------------------- *)
(* every block ever written points strictly below its own position *)
Definition blocks_ok (d : list block) : Prop := forall i b, get d i = Some b -> -1 <= bnext b < i.

Definition WF (s : stack) : Prop :=
  blocks_ok (data s) /\ -1 <= index s < len (data s) /\ -1 <= limit s < len (data s).

(* pending saved pairs, most recent first: each saved index and limit is at most the limit that was
   current right after that save, i.e. the limit restored by the next younger pending pair *)
Fixpoint PendOK (pend : list (Z * Z)) (lim : Z) : Prop :=
  match pend with
  | [] => True
  | p :: r => -1 <= fst p <= lim /\ -1 <= snd p <= lim /\ PendOK r (snd p)
  end.

Definition Inv (c : cfg) : Prop := WF (fst c) /\ PendOK (snd c) (limit (fst c)).

Lemma new_stack_Inv : Inv (new_stack, []).
Proof.
  assert (B : blocks_ok (@nil block)).
  { intros i b H. apply get_Some_range in H. unfold len in H. simpl in H. lia. }
  unfold Inv, WF, new_stack, len; simpl. split; [split; [exact B|lia]|exact I].
Qed.

Lemma PendOK_weaken : forall pend lim lim', lim <= lim' -> PendOK pend lim -> PendOK pend lim'.
Proof. destruct pend; simpl; intros; auto. intuition lia. Qed.

Lemma PendOK_le : forall pend lim, PendOK pend lim -> Forall (fun p => fst p <= lim) pend.
Proof.
  induction pend; simpl; intros; constructor.
  - lia.
  - destruct H as (H1 & H2 & H3). apply IHpend in H3.
    eapply Forall_impl; [|exact H3]. simpl. intros. lia.
Qed.

(* ---- chain -------------------------------------------------------------------------------- *)
Lemma chain_fuel : forall (d : list block), blocks_ok d -> forall f1 f2 i,
  i < Z.of_nat f1 -> i < Z.of_nat f2 -> chain d f1 i = chain d f2 i.
Proof.
  intros d Hok. induction f1; intros f2 i H1 H2.
  - simpl. destruct f2; simpl; auto. rewrite get_neg by lia. reflexivity.
  - destruct f2.
    + simpl. rewrite get_neg by lia. reflexivity.
    + simpl. destruct (get d i) eqn:G; auto. f_equal.
      apply Hok in G. apply IHf1; lia.
Qed.

Lemma chain_ext : forall (d d' : list block) p, blocks_ok d ->
  (forall i, i < p -> get d' i = get d i) ->
  forall f i, i < p -> chain d' f i = chain d f i.
Proof.
  intros d d' p Hok Hsame. induction f; intros i Hi; simpl; auto.
  rewrite Hsame by assumption. destruct (get d i) eqn:G; auto. f_equal.
  apply Hok in G. apply IHf. lia.
Qed.

Lemma view_at_ext : forall (d d' : list block) p, blocks_ok d -> blocks_ok d' ->
  (forall i, i < p -> get d' i = get d i) -> p <= len d -> p <= len d' ->
  forall i, i < p -> view_at d' i = view_at d i.
Proof.
  intros. unfold view_at.
  rewrite (chain_fuel d' H0 (length d') (Z.to_nat p) i) by (unfold len in *; lia).
  rewrite (chain_fuel d H (length d) (Z.to_nat p) i) by (unfold len in *; lia).
  eapply chain_ext; eauto.
Qed.

Lemma view_at_step : forall (d : list block) i b, blocks_ok d -> get d i = Some b ->
  view_at d i = bvalue b :: view_at d (bnext b).
Proof.
  intros d i b Hok G. unfold view_at. pose proof (get_Some_range _ _ _ G) as R. unfold len in R.
  destruct (length d) as [|f] eqn:L; [lia|].
  assert (E : chain d (S f) i = bvalue b :: chain d f (bnext b)) by (simpl; rewrite G; reflexivity).
  rewrite E. f_equal. apply Hok in G. apply chain_fuel; auto; lia.
Qed.

Lemma view_at_neg : forall (d : list block) i, i < 0 -> view_at d i = [].
Proof. intros. unfold view_at. destruct (length d); simpl; auto. rewrite get_neg; auto. Qed.

(* ---- push --------------------------------------------------------------------------------- *)
Lemma hi_le_len : forall s, WF s -> 0 <= hi s <= len (data s).
Proof. unfold WF, hi. intros s (_ & H1 & H2). lia. Qed.

Lemma push_data_below : forall v s i, WF s -> i < hi s -> get (data (push v s)) i = get (data s) i.
Proof.
  intros v s i Hwf Hi. pose proof (hi_le_len s Hwf) as Hh. unfold hi in *. unfold push. simpl.
  destruct (Z.max (index s) (limit s) + 1 <? len (data s)) eqn:E.
  - apply get_set_other; lia.
  - apply get_app_old. lia.
Qed.

Lemma push_data_other : forall v s i, WF s -> i <> hi s -> get (data (push v s)) i = get (data s) i.
Proof.
  intros v s i Hwf Hi. pose proof (hi_le_len s Hwf) as Hh. unfold hi in *. unfold push. simpl.
  destruct (Z.max (index s) (limit s) + 1 <? len (data s)) eqn:E.
  - apply get_set_other; lia.
  - apply Z.ltb_ge in E. apply get_app_other. lia.
Qed.

Lemma push_data_at : forall v s, WF s -> get (data (push v s)) (hi s) = Some (mkBlock v (index s)).
Proof.
  intros v s Hwf. pose proof (hi_le_len s Hwf) as Hh. unfold hi in *. unfold push. simpl.
  destruct (Z.max (index s) (limit s) + 1 <? len (data s)) eqn:E.
  - apply Z.ltb_lt in E. apply get_set_same. lia.
  - apply Z.ltb_ge in E. replace (Z.max (index s) (limit s) + 1) with (len (data s)) by lia. apply get_app_new.
Qed.

(* the data array grows only when the push goes to a new high-water mark, and then by one block *)
Lemma push_len : forall v s, WF s -> len (data (push v s)) = Z.max (len (data s)) (hi s + 1).
Proof.
  intros v s Hwf. pose proof (hi_le_len s Hwf) as Hh. unfold hi in *. unfold push. simpl.
  destruct (Z.max (index s) (limit s) + 1 <? len (data s)) eqn:E.
  - apply Z.ltb_lt in E. unfold len in *. rewrite length_set_nth. lia.
  - apply Z.ltb_ge in E. unfold len in *. rewrite app_length. simpl. lia.
Qed.

Lemma push_blocks_ok : forall v s, WF s -> blocks_ok (data (push v s)).
Proof.
  intros v s Hwf i b G. destruct (Z.eq_dec i (hi s)) as [L|L].
  - subst i.
    rewrite push_data_at in G by assumption. inversion G; subst; simpl.
    destruct Hwf as (_ & ? & ?). unfold hi. lia.
  - rewrite push_data_other in G by assumption. destruct Hwf as (Hok & _). apply Hok; auto.
Qed.

Lemma push_WF : forall v s, WF s -> WF (push v s).
Proof.
  intros v s Hwf. split; [apply push_blocks_ok; auto|].
  rewrite push_len by assumption. pose proof (hi_le_len s Hwf). destruct Hwf as (_ & ? & ?).
  unfold push, hi in *. simpl. lia.
Qed.

Lemma push_view_at_below : forall v s i, WF s -> i < hi s -> view_at (data (push v s)) i = view_at (data s) i.
Proof.
  intros v s i Hwf Hi. pose proof (hi_le_len s Hwf).
  apply view_at_ext with (p := hi s); auto.
  - apply Hwf.
  - apply push_blocks_ok; auto.
  - intros. apply push_data_below; auto.
  - lia.
  - rewrite push_len by assumption. lia.
Qed.

Lemma push_view : forall v s, WF s -> view (push v s) = v :: view s.
Proof.
  intros v s Hwf. unfold view.
  assert (index (push v s) = hi s) by reflexivity. rewrite H.
  rewrite (view_at_step _ _ _ (push_blocks_ok v s Hwf) (push_data_at v s Hwf)). simpl. f_equal.
  apply push_view_at_below; auto. unfold hi. lia.
Qed.

(* ---- one step ----------------------------------------------------------------------------- *)
Lemma pop_spec : forall s, WF s ->
  match pop s with
  | Some (v, s') => view s = v :: view s' /\ data s' = data s /\ limit s' = limit s /\ WF s' /\ index s' < index s
  | None => view s = []
  end.
Proof.
  intros s Hwf. unfold pop. destruct (get (data s) (index s)) eqn:G.
  - unfold view. simpl. destruct Hwf as (Hok & Hi & Hl).
    rewrite (view_at_step _ _ _ Hok G). pose proof (Hok _ _ G) as Hn.
    split; [reflexivity|]. split; [reflexivity|]. split; [reflexivity|].
    split; [split; [exact Hok|simpl; lia]|simpl; lia].
  - unfold view. destruct (Z.lt_ge_cases (index s) 0) as [L|L]; [apply view_at_neg; auto|].
    destruct Hwf as (_ & Hi & _). destruct (get_in_range (data s) (index s)) as (b & Hb); [lia|congruence].
Qed.

Lemma step_refines : forall o c, Inv c ->
  option_map abs (exec1 o c) = spec1 o (abs c) /\ (forall c', exec1 o c = Some c' -> Inv c').
Proof.
  intros o (s, pend) (Hwf & Hp). simpl in Hwf, Hp. destruct o; simpl.
  - (* push *)
    split.
    + unfold abs. simpl. f_equal. rewrite push_view by assumption. f_equal.
      apply map_ext_in. intros p Hin. apply push_view_at_below; auto.
      pose proof (PendOK_le _ _ Hp) as F. rewrite Forall_forall in F. apply F in Hin. unfold hi. lia.
    + intros c' E. inversion E; subst. split; simpl; [apply push_WF; auto|exact Hp].
  - (* pop *)
    pose proof (pop_spec s Hwf) as P. destruct (pop s) as [(v, s')|].
    + destruct P as (Hv & Hd & Hl & Hwf' & _). split.
      * unfold abs. simpl. rewrite Hv, Hd. reflexivity.
      * intros c' E. inversion E; subst. split; simpl; auto. rewrite Hl. exact Hp.
    + split; [|discriminate]. unfold abs. simpl. rewrite P. reflexivity.
  - (* save *)
    split.
    + reflexivity.
    + intros c' E. inversion E; subst. destruct Hwf as (Hok & Hi & Hl). split; simpl.
      * split; [exact Hok|]. simpl. destruct (Z.gtb_spec (index s) (limit s)); lia.
      * destruct (Z.gtb_spec (index s) (limit s)); (split; [lia|split; [lia|exact Hp]]).
  - (* restore *)
    destruct pend as [|p r]; simpl.
    + split; [reflexivity|discriminate].
    + split; [reflexivity|]. intros c' E. inversion E; subst.
      destruct Hp as (H1 & H2 & H3). destruct Hwf as (Hok & Hi & Hl).
      split; simpl; [split; [exact Hok|simpl; lia]|exact H3].
Qed.

(* ---- Stack_refines ------------------------------------------------------------------------ *)
Theorem Stack_refines : forall ops c, Inv c ->
  option_map abs (exec ops c) = spec_exec ops (abs c) /\ (forall c', exec ops c = Some c' -> Inv c').
Proof.
  induction ops as [|o r IH]; intros c Hinv; simpl.
  - split; auto. intros c' E. inversion E; subst; auto.
  - destruct (step_refines o c Hinv) as (Habs & Hinv').
    destruct (exec1 o c) as [c1|]; simpl in Habs.
    + rewrite <- Habs. apply IH. apply Hinv'. reflexivity.
    + rewrite <- Habs. split; [reflexivity|discriminate].
Qed.

(* The saved prefix is never overwritten after save(): whatever single operation is executed, the
   view of every pair that was pending before it is the same list afterwards. *)
Theorem pending_view_frame : forall o c c', Inv c -> exec1 o c = Some c' ->
  forall p, In p (snd c) -> view_at (data (fst c')) (fst p) = view_at (data (fst c)) (fst p).
Proof.
  intros o (s, pend) c' (Hwf & Hp) E p Hin. simpl in *. destruct o; simpl in E.
  - inversion E; subst; simpl. apply push_view_at_below; auto.
    pose proof (PendOK_le _ _ Hp) as F. rewrite Forall_forall in F. apply F in Hin. unfold hi. lia.
  - pose proof (pop_spec s Hwf) as P. destruct (pop s) as [(v, s')|]; [|discriminate].
    inversion E; subst; simpl. destruct P as (_ & Hd & _). rewrite Hd. reflexivity.
  - inversion E; subst; reflexivity.
  - destruct pend; [discriminate|]. inversion E; subst; reflexivity.
Qed.

(* Sequence form: the pending pairs that are still pending at the end (a suffix of the initial list,
   by the LIFO discipline) have unchanged views; this is what the refinement's saved component says,
   spelled out on the implementation side. *)
Definition pending_views (c : cfg) : list (list A) := snd (abs c).

Theorem pending_views_refine : forall ops c c', Inv c -> exec ops c = Some c' ->
  exists l', spec_exec ops (abs c) = Some (l', pending_views c').
Proof.
  intros ops c c' Hinv E. destruct (Stack_refines ops c Hinv) as (H & _). rewrite E in H. simpl in H.
  exists (view (fst c')). rewrite <- H. reflexivity.
Qed.

(* the specification never alters a saved list: the final saved lists are new ones on top of a suffix of the initial *)
Lemma spec_saved_suffix : forall ops (l : list A) saved l' saved', spec_exec ops (l, saved) = Some (l', saved') ->
  exists new k, saved' = new ++ skipn k saved.
Proof.
  induction ops as [|o r IH]; intros l saved l' saved' E; simpl in E.
  - inversion E; subst. exists [], O. reflexivity.
  - destruct o; simpl in E.
    + apply IH in E. exact E.
    + destruct l; [discriminate|]. apply IH in E. exact E.
    + apply IH in E. destruct E as (new & k & E). destruct k.
      * exists (new ++ [l]), O. simpl in *. rewrite E. rewrite <- app_assoc. reflexivity.
      * exists new, k. simpl in E. exact E.
    + destruct saved as [|x saved0]; [discriminate|]. apply IH in E. destruct E as (new & k & E).
      exists new, (S k). exact E.
Qed.

(* ---- len data ----------------------------------------------------------------------------- *)
(* a push right after a pop of a block above the limit reuses that block's slot or a lower one:
   the data array does not grow *)
Theorem push_after_pop_reuses : forall s v s1 w, WF s -> limit s < index s -> pop s = Some (v, s1) ->
  len (data (push w s1)) = len (data s) /\ index (push w s1) <= index s /\ limit (push w s1) = limit s.
Proof.
  intros s v s1 w Hwf Hlim Hpop. pose proof (pop_spec s Hwf) as P. rewrite Hpop in P.
  destruct P as (_ & Hd & Hl & Hwf1 & Hlt). rewrite push_len by assumption.
  unfold hi. rewrite Hd, Hl. destruct Hwf as (_ & Hi & _). simpl. split; [|split]; try lia.
Qed.

Theorem stack_len_bound : forall ops c c', Inv c -> exec ops c = Some c' ->
  len (data (fst c')) = Z.max (len (data (fst c))) (peak ops c).
Proof.
  induction ops as [|o r IH]; intros c c' Hinv E; simpl in *.
  - inversion E; subst. unfold len. lia.
  - destruct (step_refines o c Hinv) as (_ & Hinv').
    destruct (exec1 o c) as [c1|] eqn:E1; [|discriminate].
    specialize (Hinv' c1 eq_refl). rewrite (IH c1 c' Hinv' E).
    destruct c as (s, pend). destruct Hinv as (Hwf & Hp). simpl in Hwf. destruct o; simpl in E1.
    + inversion E1; subst; cbn [fst snd]. pose proof (push_len v s Hwf). lia.
    + pose proof (pop_spec s Hwf) as P. destruct (pop s) as [(v, s')|]; [|discriminate].
      inversion E1; subst; cbn [fst snd]. destruct P as (_ & Hd & _). rewrite Hd. unfold len. lia.
    + inversion E1; subst; cbn [fst snd data]. unfold len. lia.
    + destruct pend; [discriminate|]. inversion E1; subst; cbn [fst snd data restore]. unfold len. lia.
Qed.

(* consequence used by C20: if every push of an execution happens at high-water mark < C, the data
   array never exceeds max(initial length, C) *)
Corollary stack_len_le : forall ops c c' C, Inv c -> exec ops c = Some c' -> peak ops c <= C ->
  len (data (fst c')) <= Z.max (len (data (fst c))) C.
Proof. intros. rewrite (stack_len_bound ops c c') by assumption. lia. Qed.

End Proofs.
