(* C15 — the property's own statement, written independently of the state-passing model in Cli.v:
   stdout, stderr and exit status as declarative functions of the outcome history, using only
   list combinators (take_while / find / flat_map / last).  Status numbers are the DOCUMENTED ones,
   written as literals (0 1 2 3 4 5), not the generated constants.  DEFINITIONS ONLY. *)
From Coq Require Import List ZArith NArith Bool.
From Verif Require Import c15.Cli.
Import ListNotations.

Section ListOps.
  Context {A : Type}.
  Fixpoint take_while (p : A -> bool) (l : list A) : list A :=
    match l with x :: r => if p x then x :: take_while p r else [] | [] => [] end.
  (* the elements up to AND INCLUDING the first one satisfying p *)
  Fixpoint upto_incl (p : A -> bool) (l : list A) : list A :=
    match l with x :: r => if p x then [x] else x :: upto_incl p r | [] => [] end.
  Fixpoint last_opt (l : list A) : option A :=
    match l with [] => None | [x] => Some x | _ :: r => last_opt r end.
End ListOps.

(* an outcome that ends the current input's outputs: an error, a halt, or a value the selected
   marshaler rejects (--raw-output0 on a string containing NUL) *)
Definition stopper (o : opts) (x : outcome) : bool :=
  match x with
  | OVal v => match marshal o v with None => true | Some _ => false end
  | _ => true
  end.
Definition first_stop (o : opts) (outs : list outcome) : option outcome := find (stopper o) outs.
Definition before_stop (o : opts) (outs : list outcome) : list outcome :=
  take_while (fun x => negb (stopper o x)) outs.

(* bytes of one output: rendering (or the raw string) followed by the terminator *)
Definition out_bytes (o : opts) (x : outcome) : bytes :=
  match x with
  | OVal v => match marshal o v with Some b => b ++ terminator o | None => [] end
  | _ => []
  end.
Definition out_value (x : outcome) : list value := match x with OVal v => [v] | _ => [] end.

Definition input_stdout (o : opts) (i : input) : bytes :=
  match i with InErr => [] | InRun outs => flat_map (out_bytes o) (before_stop o outs) end.
Definition input_values (o : opts) (i : input) : list value :=
  match i with InErr => [] | InRun outs => flat_map out_value (before_stop o outs) end.

(* does this input halt the command? *)
Definition halt_in (o : opts) (i : input) : option (value * Z) :=
  match i with
  | InRun outs => match first_stop o outs with Some (OHalt v c) => Some (v, c) | _ => None end
  | InErr => None
  end.
Definition halts (o : opts) (i : input) : bool :=
  match halt_in o i with Some _ => true | None => false end.

(* the error (its exit code, if it carries one) with which this input fails, if it does *)
Definition input_error (o : opts) (i : input) : option (option Z) :=
  match i with
  | InErr => Some None
  | InRun outs =>
      match first_stop o outs with
      | Some (OErr c _) => Some c
      | Some (OVal _) => Some None
      | _ => None
      end
  end.
(* and what it puts on stderr *)
Definition input_diag (o : opts) (i : input) : list chunk :=
  match i with
  | InErr => [CDiag]
  | InRun outs =>
      match first_stop o outs with
      | Some (OErr _ m) => [CExact (diag_line m)]
      | Some (OVal _) => [CDiag]
      | Some (OHalt v _) => halt_chunks v
      | None => []
      end
  end.

(* the inputs that are processed at all: everything up to and including the first halting one *)
Definition live (o : opts) (ins : list input) : list input := upto_incl (halts o) ins.

Definition spec_stdout (o : opts) (ins : list input) : bytes := flat_map (input_stdout o) (live o ins).
Definition spec_stderr (o : opts) (ins : list input) : list chunk := flat_map (input_diag o) (live o ins).
Definition spec_values (o : opts) (ins : list input) : list value := flat_map (input_values o) (live o ins).
Definition spec_errors (o : opts) (ins : list input) : list (option Z) :=
  flat_map (fun i => match input_error o i with Some c => [c] | None => [] end) (live o ins).
Definition spec_halt (o : opts) (ins : list input) : option (value * Z) :=
  match find (halts o) ins with Some i => halt_in o i | None => None end.

(* THE DOCUMENTED TABLE.
     2  usage (flag parsing) error              3  query parse / compile error
     halt / halt_error: the requested status (the operating system reduces it modulo 256)
     5  after any runtime or input error (an error that carries its own exit code keeps it; the
        library's error/1 carries 5)            also 5 for a rejected option value (--indent 10)
     under --exit-status: 1 when the last output is false or null, 4 when there was no output
     0  otherwise *)
Definition spec_status (o : opts) (p : pre) (ins : list input) : Z :=
  match p with
  | PFlagErr => 2
  | POptErr => 5
  | PParseErr | PCompileErr => 3
  | PReady =>
      match spec_halt o ins with
      | Some (_, c) => c
      | None =>
          match last_opt (spec_errors o ins) with
          | Some (Some c) => c
          | Some None => 5
          | None =>
              if o_exit o then
                match last_opt (spec_values o ins) with
                | None => 4
                | Some v => if falsy v then 1 else 0
                end
              else 0
          end
      end
  end%Z.

Definition spec_result (o : opts) (p : pre) (ins : list input) : result :=
  match p with
  | PReady => mkR (spec_stdout o ins) (spec_stderr o ins) (spec_status o p ins)
  | _ => mkR [] [CDiag] (spec_status o p ins)
  end.

(* every error outcome carries no exit code or the library's error/1 code: then "5 after any error" *)
Definition err_code_ok (c : option Z) : bool :=
  match c with None => true | Some c => (c =? 5)%Z end.
