(* C15 correspondence: one harness line -> verdict.
   (case <opts> <pre> <stream> <inputs> <impl>)
     opts    (o r r0 j c tab <indent|-> e n s)           flags as 0/1
     pre     flagerr | opterr | parseerr | compileerr | ready
     stream  (st <number of well-formed documents on stdin> <malformed tail 0/1>)
     inputs  (ins <item>...)   item = inerr | (run <outcome>...)
     outcome (v n <hexjson>) | (v f <hexjson>) | (v o <hexjson>) | (v s <hexraw> <hexjson>)
             | (e <code|-> <hexmsg>) | (h <value> <code>)
     impl    (impl <raw|os> <hexstdout> <status> <hexstderr>)    os = status as seen by the parent process
   Verdict "ok", or (bad <what> <expected>).  With the (spec <line>) wrapper the expected behaviour is
   computed by the declarative specification (Spec.v) instead of the model (Cli.v).
   stdout and status are compared exactly.  stderr: exact where the model knows the bytes (library
   error messages are passed through by the harness, halt_error messages are modelled), and
   "gojq: <non-empty text>\n" for diagnostics whose wording belongs to the command (invalid json,
   NUL rejection, flag/parse/compile messages). *)
From Coq Require Import List ZArith NArith Bool String.
From Verif Require Import common.Sexp gen.GenCliTables c15.Cli c15.Spec.
Import ListNotations.

Definition dec_bit (e : sexp) : option bool :=
  if atom_is "1" e then Some true else if atom_is "0" e then Some false else None.

Definition dec_opts (e : sexp) : option opts :=
  match e with
  | SList [k; r; r0; j; c; tab; Atom ind; ex; n; s] =>
      if atom_is "o" k then
        match dec_bit r, dec_bit r0, dec_bit j, dec_bit c, dec_bit tab, dec_bit ex, dec_bit n, dec_bit s with
        | Some r, Some r0, Some j, Some c, Some tab, Some ex, Some n, Some s =>
            if list_N_eqb ind (codes "-") then Some (mkO r r0 j c tab None ex n s)
            else match parse_N ind with
                 | Some i => Some (mkO r r0 j c tab (Some (N.to_nat i)) ex n s)
                 | None => None
                 end
        | _, _, _, _, _, _, _, _ => None
        end
      else None
  | _ => None
  end.

Definition dec_pre (e : sexp) : option pre :=
  if atom_is "flagerr" e then Some PFlagErr else if atom_is "opterr" e then Some POptErr
  else if atom_is "parseerr" e then Some PParseErr else if atom_is "compileerr" e then Some PCompileErr
  else if atom_is "ready" e then Some PReady else None.

Definition dec_value (e : sexp) : option value :=
  match e with
  | SList [k; t; Atom h] =>
      if atom_is "v" k then
        match parse_hexs h with
        | Some js =>
            if atom_is "n" t then Some (mkV KNull js)
            else if atom_is "f" t then Some (mkV KFalse js)
            else if atom_is "o" t then Some (mkV KOther js)
            else None
        | None => None
        end
      else None
  | SList [k; t; Atom hr; Atom hj] =>
      if atom_is "v" k && atom_is "s" t then
        match parse_hexs hr, parse_hexs hj with
        | Some raw, Some js => Some (mkV (KStr raw) js)
        | _, _ => None
        end
      else None
  | _ => None
  end.

Definition dec_outcome (e : sexp) : option outcome :=
  match e with
  | SList [k; Atom c; Atom m] =>
      if atom_is "e" k then
        match parse_hexs m with
        | Some msg =>
            if list_N_eqb c (codes "-") then Some (OErr None msg)
            else option_map (fun z => OErr (Some z) msg) (parse_Z c)
        | None => None
        end
      else option_map OVal (dec_value e)
  | SList [k; v; Atom c] =>
      if atom_is "h" k then
        match dec_value v, parse_Z c with
        | Some v, Some z => Some (OHalt v z)
        | _, _ => None
        end
      else option_map OVal (dec_value e)
  | _ => option_map OVal (dec_value e)
  end.

Fixpoint dec_list {A} (f : sexp -> option A) (l : list sexp) : option (list A) :=
  match l with
  | [] => Some []
  | x :: r => match f x, dec_list f r with Some a, Some t => Some (a :: t) | _, _ => None end
  end.

Definition dec_input (e : sexp) : option input :=
  match e with
  | SList (k :: outs) => if atom_is "run" k then option_map InRun (dec_list dec_outcome outs) else None
  | _ => if atom_is "inerr" e then Some InErr else None
  end.

Definition dec_inputs (e : sexp) : option (list input) :=
  match e with
  | SList (k :: items) => if atom_is "ins" k then dec_list dec_input items else None
  | _ => None
  end.

Definition dec_stream (e : sexp) : option (nat * bool) :=
  match e with
  | SList [k; Atom n; t] =>
      if atom_is "st" k then
        match parse_N n, dec_bit t with Some n, Some t => Some (N.to_nat n, t) | _, _ => None end
      else None
  | _ => None
  end.

(* ---- stderr matching ---- *)
Fixpoint is_prefix (p s : bytes) : option bytes :=   (* Some rest *)
  match p, s with
  | [], _ => Some s
  | a :: p', b :: s' => if (a =? b)%N then is_prefix p' s' else None
  | _ :: _, [] => None
  end.
Definition strip_suffix (suf s : bytes) : option bytes :=
  option_map (@rev N) (is_prefix (rev suf) (rev s)).

Fixpoint exact_prefix (cs : list chunk) : bytes * list chunk :=   (* leading exact bytes, rest from first CDiag *)
  match cs with
  | CExact b :: r => let '(p, rest) := exact_prefix r in (b ++ p, rest)
  | _ => ([], cs)
  end.
Fixpoint min_len (cs : list chunk) : nat :=
  match cs with
  | [] => 0
  | CExact b :: r => List.length b + min_len r
  | CDiag :: r => 8 + min_len r
  end.
Definition rev_chunks (cs : list chunk) : list chunk :=
  rev (map (fun c => match c with CExact b => CExact (rev b) | CDiag => CDiag end) cs).

Definition stderr_matches (cs : list chunk) (s : bytes) : bool :=
  let '(p, rest) := exact_prefix cs in
  match is_prefix p s with
  | None => false
  | Some s1 =>
      match rest with
      | [] => match s1 with [] => true | _ => false end
      | _ =>
          let '(q, mid_rev) := exact_prefix (rev_chunks rest) in   (* q = reversed exact suffix *)
          match is_prefix q (rev s1) with
          | None => false
          | Some m_rev =>
              let m := rev m_rev in
              (min_len mid_rev <=? List.length m)%nat
              && (match is_prefix gojq_prefix m with Some _ => true | None => false end)
              && (match m_rev with c :: _ => (c =? 10)%N | [] => false end)
          end
      end
  end.

Fixpoint enc_chunks (cs : list chunk) : list sexp :=
  match cs with
  | [] => []
  | CExact b :: r => Atom (print_hexs b) :: enc_chunks r
  | CDiag :: r => A "diag" :: enc_chunks r
  end.

Definition count_runs (ins : list input) : nat :=
  List.length (filter (fun i => match i with InRun _ => true | InErr => false end) ins).
Fixpoint inerr_only_last (ins : list input) : bool :=
  match ins with
  | [] => true
  | [x] => true
  | InErr :: _ => false
  | _ :: r => inerr_only_last r
  end.
Definition has_inerr (ins : list input) : bool :=
  existsb (fun i => match i with InErr => true | _ => false end) ins.

Definition judge (expected : result) (osmode : bool) (out : bytes) (status : Z) (err : bytes) : sexp :=
  if negb (list_N_eqb out (r_out expected)) then SList [A "bad"; A "stdout"; Atom (print_hexs (r_out expected))]
  else if negb (if osmode then (os_status (r_status expected) =? status)%Z else (r_status expected =? status)%Z)
  then SList [A "bad"; A "status"; Atom (print_Z (if osmode then os_status (r_status expected) else r_status expected))]
  else if negb (stderr_matches (r_err expected) err) then SList (A "bad" :: A "stderr" :: enc_chunks (r_err expected))
  else A "ok".

Definition run_case (use_spec : bool) (e : sexp) : sexp :=
  match e with
  | SList [k; eo; ep; es; ei; SList [ki; mode; Atom hout; Atom st; Atom herr]] =>
      if atom_is "case" k && atom_is "impl" ki then
        match dec_opts eo, dec_pre ep, dec_stream es, dec_inputs ei with
        | Some o, Some p, Some (nd, tail), Some ins =>
            match parse_hexs hout, parse_Z st, parse_hexs herr with
            | Some out, Some status, Some err =>
                let shape_ok :=
                  match p with
                  | PReady =>
                      let '(n, t) := input_shape o nd tail in
                      Nat.eqb (count_runs ins) n && Bool.eqb (has_inerr ins) t && inerr_only_last ins
                  | _ => match ins with [] => true | _ => false end
                  end in
                if negb shape_ok then SList [A "bad"; A "shape"]
                else
                  let expected := if use_spec then spec_result o p ins else run o p ins in
                  judge expected (atom_is "os" mode) out status err
            | _, _, _ => A "undecodable-impl"
            end
        | None, _, _, _ => A "undecodable-opts"
        | _, None, _, _ => A "undecodable-pre"
        | _, _, None, _ => A "undecodable-stream"
        | _, _, _, None => A "undecodable-inputs"
        end
      else A "undecodable"
  | _ => A "undecodable"
  end.

Definition run_line (l : list N) : list N :=
  match parse l with
  | Some (SList [k; e]) => if atom_is "spec" k then print (run_case true e) else codes "undecodable"
  | Some e => print (run_case false e)
  | None => codes "unparsable"
  end.
