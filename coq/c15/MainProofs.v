(* C15 / C08 — proofs about the command from argv (c15/Main.v): it never reaches the Panic / Fuel outcome of the flag parser,
   every phase has the documented result, the exit status has a documented origin, and C15's theorems about the run loop
   (stdout is the concatenation, an error ends one input only, a halt stops) hold for [cli_main] with the options the argv
   denotes. *)
From Coq Require Import List ZArith NArith Bool String Lia.
From Verif Require Import common.Sexp gen.GenFlagTable gen.GenCliTables c08.Flags c08.FlagsProofs c15.Cli c15.Spec c15.Proofs c15.Main.
Import ListNotations.
Open Scope Z_scope.

Lemma names_exist : names_ok = true.
Proof. vm_compute. reflexivity. Qed.

(* ---- (i) totality ---- *)
Lemma after_flags_no_panic rest fo w : after_flags rest fo w <> PhPanic.
Proof.
  unfold after_flags.
  repeat match goal with
         | |- (if ?c then _ else _) <> _ => destruct c
         | |- (let _ := _ in _) <> _ => cbv zeta
         end; try discriminate.
  destruct (query_of fo rest w) as [[q files]|]; [|discriminate].
  destruct (w_lib w (job_of fo q files)); discriminate.
Qed.

Theorem main_never_panics args w : phase_of args w <> PhPanic.
Proof.
  unfold phase_of. pose proof (flags_total args) as Hf.
  destruct (parse_flags flag_table args) as [rest fo|m|s|]; try contradiction.
  - apply after_flags_no_panic.
  - discriminate.
Qed.

(* the errors before the loop are POptErr / PParseErr / PCompileErr only *)
Lemma after_flags_pre rest fo w o p : after_flags rest fo w = PhPre o p -> p = POptErr \/ p = PParseErr \/ p = PCompileErr.
Proof.
  unfold after_flags.
  repeat match goal with
         | |- (if ?c then _ else _) = _ -> _ => destruct c
         | |- (let _ := _ in _) = _ -> _ => cbv zeta
         end; try discriminate; try (intros H; injection H as _ <-; auto).
  destruct (query_of fo rest w) as [[q files]|]; [|intros H; injection H as _ <-; auto].
  destruct (w_lib w (job_of fo q files)); try discriminate; intros H; injection H as _ <-; auto.
Qed.

Lemma phase_pre args w o p : phase_of args w = PhPre o p -> p = POptErr \/ p = PParseErr \/ p = PCompileErr.
Proof.
  unfold phase_of. destruct (parse_flags flag_table args) as [rest fo|m|s|]; try discriminate.
  apply after_flags_pre.
Qed.

(* ---- every phase has the documented result (stdout, stderr chunks, status) ---- *)
Definition phase_result (w : world) (ph : phase) : result :=
  match ph with
  | PhPanic => mkR [] [] (-1)
  | PhUsage => mkR [] [CDiag] 2
  | PhHelp => mkR (w_help w) [] 0
  | PhVersion => mkR (w_version w) [] 0
  | PhPre _ POptErr => mkR [] [CDiag] 5
  | PhPre _ PFlagErr => mkR [] [CDiag] 2
  | PhPre o PReady => spec_result o PReady []      (* never: [phase_pre] *)
  | PhPre _ _ => mkR [] [CDiag] 3
  | PhRun o ins => spec_result o PReady ins
  end.

Lemma finish_documented w ph : finish w ph = phase_result w ph.
Proof.
  destruct ph as [| | | |o p|o ins]; cbn [finish phase_result]; try reflexivity.
  - rewrite run_is_spec. destruct p; reflexivity.
  - apply run_is_spec.
Qed.

Theorem main_result args w : cli_main args w = phase_result w (phase_of args w).
Proof. apply finish_documented. Qed.

(* ---- (ii) usage errors, rejected option values and query errors print nothing on stdout, one diagnostic on stderr ---- *)
Theorem main_silent_before_loop args w :
  match phase_of args w with
  | PhUsage | PhPre _ _ => r_out (cli_main args w) = [] /\ r_err (cli_main args w) = [CDiag]
  | _ => True
  end.
Proof.
  rewrite main_result. pose proof (phase_pre args w) as Hp.
  destruct (phase_of args w) as [| | | |o p|o ins]; try exact I; [split; reflexivity|].
  destruct (Hp o p eq_refl) as [->|[->| ->]]; split; reflexivity.
Qed.

(* ---- the exit status and where it comes from; no hypothesis on the world ---- *)
Definition run_status_origin (o : opts) (ins : list input) (st : Z) : Prop :=
  match spec_halt o ins with
  | Some (_, c) => st = c                                             (* halt / halt_error: the requested status *)
  | None =>
      match last_opt (spec_errors o ins) with
      | Some (Some c) => st = c                                       (* an error value carrying its own ExitCode *)
      | Some None => st = 5                                           (* any other runtime / input error *)
      | None =>
          if o_exit o
          then match last_opt (spec_values o ins) with
               | None => st = 4
               | Some v => st = if falsy v then 1 else 0
               end
          else st = 0
      end
  end.

Definition status_origin (args : list bytes) (w : world) (st : Z) : Prop :=
  match phase_of args w with
  | PhPanic => False
  | PhUsage => st = 2
  | PhHelp | PhVersion => st = 0
  | PhPre _ POptErr => st = 5
  | PhPre _ p => st = 3 /\ (p = PParseErr \/ p = PCompileErr)
  | PhRun o ins => run_status_origin o ins st
  end.

Theorem main_status_origin args w : status_origin args w (r_status (cli_main args w)).
Proof.
  unfold status_origin. rewrite main_result.
  pose proof (main_never_panics args w) as Hn. pose proof (phase_pre args w) as Hp.
  destruct (phase_of args w) as [| | | |o p|o ins]; try reflexivity; try congruence.
  - destruct (Hp o p eq_refl) as [->|[->| ->]]; cbn; auto.
  - unfold run_status_origin. cbn [phase_result spec_result r_status spec_status].
    destruct (spec_halt o ins) as [[v c]|]; [reflexivity|].
    destruct (last_opt (spec_errors o ins)) as [[c|]|]; try reflexivity.
    destruct (o_exit o); [|reflexivity]. destruct (last_opt (spec_values o ins)); reflexivity.
Qed.

(* the pre-rendering of colour / YAML mode keeps the error and halt outcomes *)
Lemma color_outs_err f outs c m : In (OErr c m) (map (color_outcome f) outs) -> In (OErr c m) outs.
Proof.
  induction outs as [|x r IH]; cbn; [tauto|]. intros [H|H]; [|right; exact (IH H)].
  left. destruct x; cbn in H; congruence.
Qed.
Lemma yaml_outs_err f outs : forall first c m, In (OErr c m) (yaml_outs f first outs) -> In (OErr c m) outs.
Proof.
  induction outs as [|x r IH]; intros first c m; cbn; [tauto|].
  destruct x; cbn; (intros [H|H]; [try discriminate; left; exact H|right; exact (IH _ _ _ H)]).
Qed.
Lemma color_outs_halt f outs v c : In (OHalt v c) (map (color_outcome f) outs) -> In (OHalt v c) outs.
Proof.
  induction outs as [|x r IH]; cbn; [tauto|]. intros [H|H]; [|right; exact (IH H)].
  left. destruct x; cbn in H; congruence.
Qed.
Lemma yaml_outs_halt f outs : forall first v c, In (OHalt v c) (yaml_outs f first outs) -> In (OHalt v c) outs.
Proof.
  induction outs as [|x r IH]; intros first v c; cbn; [tauto|].
  destruct x; cbn; (intros [H|H]; [try discriminate; left; exact H|right; exact (IH _ _ _ H)]).
Qed.

(* an outcome kind-preservingly related list of inputs *)
Definition errs_of (ins : list input) (c : option Z) : Prop := exists outs m, In (InRun outs) ins /\ In (OErr c m) outs.
Definition halts_of (ins : list input) (c : Z) : Prop := exists outs v, In (InRun outs) ins /\ In (OHalt v c) outs.

Lemma yaml_ins_sub f ins : forall first,
  (forall c, errs_of (yaml_ins f first ins) c -> errs_of ins c) /\ (forall c, halts_of (yaml_ins f first ins) c -> halts_of ins c).
Proof.
  induction ins as [|i r IH]; intros first; split; intros c (outs & x & Hin & Ho); cbn in Hin; try contradiction.
  - destruct i as [|outs0]; cbn in Hin.
    + destruct Hin as [Hin|Hin]; [discriminate|]. destruct (proj1 (IH first) c) as (o1 & m1 & A & B); [exists outs, x; auto|].
      exists o1, m1. split; [right; exact A|exact B].
    + destruct Hin as [Hin|Hin].
      * injection Hin as <-. exists outs0, x. split; [left; reflexivity|]. eapply yaml_outs_err; eauto.
      * destruct (proj1 (IH (first && negb (starts_with_value outs0))%bool) c) as (o1 & m1 & A & B); [exists outs, x; eauto|]. exists o1, m1. split; [right; exact A|exact B].
  - destruct i as [|outs0]; cbn in Hin.
    + destruct Hin as [Hin|Hin]; [discriminate|]. destruct (proj2 (IH first) c) as (o1 & m1 & A & B); [exists outs, x; auto|].
      exists o1, m1. split; [right; exact A|exact B].
    + destruct Hin as [Hin|Hin].
      * injection Hin as <-. exists outs0, x. split; [left; reflexivity|]. eapply yaml_outs_halt; eauto.
      * destruct (proj2 (IH (first && negb (starts_with_value outs0))%bool) c) as (o1 & m1 & A & B); [exists outs, x; eauto|]. exists o1, m1. split; [right; exact A|exact B].
Qed.

Lemma color_ins_sub f ins :
  (forall c, errs_of (color_ins f ins) c -> errs_of ins c) /\ (forall c, halts_of (color_ins f ins) c -> halts_of ins c).
Proof.
  split; intros c (outs & x & Hin & Ho); unfold color_ins in Hin; apply in_map_iff in Hin; destruct Hin as (i & Hi & Hin);
    destruct i as [|outs0]; try discriminate; injection Hi as <-; exists outs0, x; (split; [exact Hin|]).
  - eapply color_outs_err; eauto.
  - eapply color_outs_halt; eauto.
Qed.

Lemma eff_ins_sub fo w ins :
  (forall c, errs_of (eff_ins fo w ins) c -> errs_of ins c) /\ (forall c, halts_of (eff_ins fo w ins) c -> halts_of ins c).
Proof.
  unfold eff_ins. destruct (outmode_of fo w); [split; auto|apply color_ins_sub|apply yaml_ins_sub].
Qed.

(* where a PhRun comes from: the flags parsed, no early exit, no rejected option value, and the library compiled the
   query the argv denotes with the bindings the argv denotes *)
Lemma phase_run_inv args w o ins : phase_of args w = PhRun o ins ->
  exists rest fo q files lins,
    parse_flags flag_table args = FOk rest fo /\ fbool fo "help" = false /\ fbool fo "version" = false /\
    indent_bad fo = false /\ bindings_ok fo w = true /\
    query_of fo rest w = Some (q, files) /\ w_lib w (job_of fo q files) = LOk lins /\
    o = eff_opts fo w /\ ins = eff_ins fo w (shape_ins fo lins).
Proof.
  unfold phase_of. destruct (parse_flags flag_table args) as [rest fo|m|s|]; try discriminate.
  unfold after_flags. destruct (fbool fo "help") eqn:Hh; [discriminate|]. destruct (fbool fo "version") eqn:Hv; [discriminate|].
  cbv zeta. destruct (color_on fo w && negb (w_colors_env_ok w)); [discriminate|].
  destruct (indent_bad fo) eqn:Hi; [discriminate|]. destruct (fbool fo "yaml-output" && fbool fo "tab"); [discriminate|].
  destruct (bindings_ok fo w) eqn:Hb; [|discriminate]. cbn [negb].
  destruct (query_of fo rest w) as [[q files]|] eqn:Hq; [|discriminate].
  destruct (w_lib w (job_of fo q files)) as [| |lins] eqn:Hl; try discriminate.
  intros H. injection H as <- <-. exists rest, fo, q, files, lins. repeat split; auto.
Qed.

(* the documented set, as in C08c: 0..5, or the code of a halt / halt_error, or the ExitCode an error value of one of
   the library's runs carries *)
Definition lib_runs (args : list bytes) (w : world) (lins : list input) : Prop :=
  exists rest fo q files a, parse_flags flag_table args = FOk rest fo /\ query_of fo rest w = Some (q, files) /\
                            w_lib w (job_of fo q files) = LOk a /\ lins = shape_ins fo a.

Theorem main_status_documented args w :
  let st := r_status (cli_main args w) in
  0 <= st <= 5 \/ exists lins, lib_runs args w lins /\ (halts_of lins st \/ errs_of lins (Some st)).
Proof.
  cbv zeta. pose proof (main_status_origin args w) as H. unfold status_origin in H.
  destruct (phase_of args w) as [| | | |o p|o ins] eqn:Hph; try (left; lia); try contradiction.
  - destruct p; left; lia.
  - destruct (phase_run_inv _ _ _ _ Hph) as (rest & fo & q & files & a & Hf & _ & _ & _ & _ & Hq & Hl & -> & ->).
    set (lins := shape_ins fo a) in *.
    unfold run_status_origin in H.
    destruct (spec_halt (eff_opts fo w) (eff_ins fo w lins)) as [[v c]|] eqn:Hh.
    + right. exists lins. split; [exists rest, fo, q, files, a; auto|]. left. rewrite H.
      apply (proj2 (eff_ins_sub fo w lins)).
      unfold spec_halt in Hh. destruct (find (halts (eff_opts fo w)) (eff_ins fo w lins)) as [i|] eqn:F; [|discriminate].
      apply find_some in F as [Hin _]. destruct i as [|outs]; [discriminate|]. cbn in Hh.
      unfold first_stop in Hh. destruct (find (stopper (eff_opts fo w)) outs) as [x|] eqn:G; [|discriminate].
      apply find_some in G as [Hx _]. destruct x; try discriminate. injection Hh as -> ->. exists outs, v. split; assumption.
    + destruct (last_opt (spec_errors (eff_opts fo w) (eff_ins fo w lins))) as [[c|]|] eqn:L.
      * right. exists lins. split; [exists rest, fo, q, files, a; auto|]. right. rewrite H.
        apply (proj1 (eff_ins_sub fo w lins)).
        apply last_opt_In in L. unfold spec_errors in L. apply in_flat_map in L. destruct L as (i & Hi & Hc).
        assert (Hin : In i (eff_ins fo w lins)).
        { clear -Hi. unfold live in Hi. induction (eff_ins fo w lins) as [|y r IH]; cbn in Hi; [contradiction|].
          destruct (halts _ y); cbn in Hi; [destruct Hi as [<-|[]]; left; reflexivity|].
          destruct Hi as [<-|Hi]; [left; reflexivity|right; exact (IH Hi)]. }
        destruct i as [|outs]; cbn in Hc; [destruct Hc as [Hc|[]]; discriminate|].
        destruct (first_stop _ outs) as [[v|c' m|v c']|] eqn:F; cbn in Hc; try contradiction.
        -- destruct Hc as [Hc|[]]; discriminate.
        -- destruct Hc as [Hc|[]]. subst c'. unfold first_stop in F. apply find_some in F. destruct F as [F _].
           exists outs, m. split; assumption.
      * left; lia.
      * left. destruct (o_exit _); [|lia]. destruct (last_opt (spec_values _ _)) as [v|]; [destruct (falsy v)|]; lia.
Qed.

(* 1 and 4 only under --exit-status (unless requested by a halt or carried by an error value) *)
Theorem main_status_1_4 args w o ins : phase_of args w = PhRun o ins ->
  spec_halt o ins = None -> spec_errors o ins = [] ->
  let st := r_status (cli_main args w) in
  (o_exit o = false -> st = 0) /\
  (o_exit o = true -> match last_opt (spec_values o ins) with None => st = 4 | Some v => st = if falsy v then 1 else 0 end).
Proof.
  intros Hph Hh He. cbv zeta. pose proof (main_status_origin args w) as H. unfold status_origin in H. rewrite Hph in H.
  unfold run_status_origin in H. rewrite Hh, He in H. cbn [last_opt] in H.
  destruct (o_exit o); split; intros E; try discriminate; exact H.
Qed.

(* ---- (iii) C15's theorems about the run loop, for the command started from an argument vector ---- *)
Theorem main_stdout_is_concat args w o ins : phase_of args w = PhRun o ins ->
  r_out (cli_main args w) =
  flat_map (fun i => match i with
                     | InErr => []
                     | InRun outs => flat_map (out_bytes o) (take_while (fun x => negb (stopper o x)) outs)
                     end)
           (upto_incl (halts o) ins).
Proof. intros H. unfold cli_main. rewrite H. cbn [finish]. apply stdout_is_concat. Qed.

Theorem main_stderr_is_concat args w o ins : phase_of args w = PhRun o ins ->
  r_err (cli_main args w) = flat_map (input_diag o) (upto_incl (halts o) ins).
Proof. intros H. unfold cli_main. rewrite H. cbn [finish]. apply stderr_is_concat. Qed.

(* two argument vectors / worlds whose runs are [pre ++ post] and [post]: an error in [pre] ends that input only *)
Theorem main_error_continues args w o pre post : phase_of args w = PhRun o (pre ++ post) ->
  forallb (fun i => negb (halts o i)) pre = true ->
  r_out (cli_main args w) = flat_map (input_stdout o) pre ++ r_out (run o PReady post).
Proof. intros H Hp. unfold cli_main. rewrite H. cbn [finish]. apply error_continues. exact Hp. Qed.

Theorem main_halt_stops args w o pre i post : phase_of args w = PhRun o (pre ++ i :: post) ->
  halts o i = true -> cli_main args w = run o PReady (pre ++ [i]).
Proof. intros H Hh. unfold cli_main. rewrite H. cbn [finish]. apply halt_stops. exact Hh. Qed.

Theorem main_exit_status_table args w o ins : phase_of args w = PhRun o ins ->
  r_status (cli_main args w) = spec_status o PReady ins.
Proof. intros H. unfold cli_main. rewrite H. cbn [finish]. apply exit_status_table. Qed.

(* ... with the options and the library outcomes THE ARGV DENOTES.  Plain JSON output: *)
Theorem main_plain args w rest fo : parse_flags flag_table args = FOk rest fo ->
  fbool fo "help" = false -> fbool fo "version" = false -> outmode_of fo w = MPlain ->
  forall o ins, phase_of args w = PhRun o ins ->
  o = opts_of fo /\
  (exists q files a, query_of fo rest w = Some (q, files) /\ w_lib w (job_of fo q files) = LOk a /\ ins = shape_ins fo a) /\
  cli_main args w = spec_result (opts_of fo) PReady ins.
Proof.
  intros Hf Hh Hv Hm o ins Hph.
  destruct (phase_run_inv _ _ _ _ Hph) as (rest' & fo' & q & files & a & Hf' & _ & _ & _ & _ & Hq & Hl & Ho & Hi).
  rewrite Hf in Hf'. injection Hf' as <- <-.
  unfold eff_opts in Ho. unfold eff_ins in Hi. rewrite Hm in Ho, Hi. subst o ins.
  split; [reflexivity|]. split; [exists q, files, a; auto|].
  rewrite main_result, Hph. reflexivity.
Qed.

(* colour: only the rendering changes (raw strings stay raw, NUL rejection and terminators as in plain mode) *)
Theorem color_out_bytes o k b :
  out_bytes (with_compact o) (OVal (mkV k b)) =
  match k with
  | KStr s => if o_raw o || o_raw0 o || o_join o then (if o_raw0 o && has_nul s then [] else s ++ terminator o) else b ++ terminator o
  | _ => b ++ terminator o
  end.
Proof.
  destruct (out_bytes_spelled (with_compact o) (mkV k b)) as [H _]. rewrite H. cbn [v_kind with_compact o_raw o_raw0 o_join].
  unfold render, indent_unit, terminator. cbn [with_compact o_compact o_raw0 o_join v_json]. reflexivity.
Qed.

(* YAML: every value is written as the YAML encoder's bytes, preceded by "---\n" unless it is the first value of the run;
   no terminator, and no value is ever rejected *)
Theorem yaml_out_bytes o k b : out_bytes (yaml_opts o) (OVal (mkV (no_str k) b)) = b /\ stopper (yaml_opts o) (OVal (mkV (no_str k) b)) = false.
Proof. destruct k; cbn; rewrite ?app_nil_r; split; reflexivity. Qed.

Lemma yaml_values_stdout f o vs : forall first,
  flat_map (out_bytes (yaml_opts o)) (before_stop (yaml_opts o) (yaml_outs f first (map OVal vs))) =
  match vs with
  | [] => []
  | v :: r => (if first then [] else yaml_sep) ++ f v ++ flat_map (fun v => yaml_sep ++ f v) r
  end.
Proof.
  induction vs as [|v r IH]; intros first; [reflexivity|].
  cbn [map yaml_outs]. unfold before_stop. cbn [take_while].
  destruct (yaml_out_bytes o (v_kind v) ((if first then [] else yaml_sep) ++ f v)) as [Hb Hs]. rewrite Hs. cbn [negb flat_map].
  rewrite Hb. fold (before_stop (yaml_opts o) (yaml_outs f false (map OVal r))). rewrite IH.
  rewrite <- app_assoc. f_equal. f_equal. destruct r as [|v' r']; [reflexivity|]. cbn [flat_map]. rewrite <- app_assoc. reflexivity.
Qed.

(* one input whose run yields the values vs: stdout = y(v1) "---\n" y(v2) "---\n" y(v3) ... *)
Theorem main_yaml_one_input args w rest fo vs : parse_flags flag_table args = FOk rest fo ->
  fbool fo "yaml-output" = true ->
  phase_of args w = PhRun (eff_opts fo w) (eff_ins fo w [InRun (map OVal vs)]) ->
  r_out (cli_main args w) =
  match vs with
  | [] => []
  | v :: r => w_yaml w (findent fo) v ++ flat_map (fun v => yaml_sep ++ w_yaml w (findent fo) v) r
  end.
Proof.
  intros Hf Hy Hph. unfold cli_main. rewrite Hph. cbn [finish]. rewrite stdout_is_concat.
  unfold eff_opts, eff_ins, outmode_of. rewrite Hy. cbn [yaml_ins].
  unfold spec_stdout, live. cbn [upto_incl].
  assert (Hnh : halts (yaml_opts (opts_of fo)) (InRun (yaml_outs (w_yaml w (findent fo)) true (map OVal vs))) = false).
  { unfold halts, halt_in, first_stop.
    assert (G : forall first, find (stopper (yaml_opts (opts_of fo))) (yaml_outs (w_yaml w (findent fo)) first (map OVal vs)) = None).
    { clear Hph. induction vs as [|v r IH]; intros first; [reflexivity|]. cbn [map yaml_outs find].
      rewrite (proj2 (yaml_out_bytes _ _ _)). apply IH. }
    rewrite G. reflexivity. }
  rewrite Hnh. cbn [flat_map input_stdout]. rewrite app_nil_r.
  rewrite yaml_values_stdout. destruct vs; reflexivity.
Qed.

(* ---- non-vacuity: a world in which the library yields, for any job but the query `.[`, the runs [1, error x, 1] and [false] ---- *)
Definition example_world : world :=
  let v1 := mkV KOther (codes "1") in
  {| w_auto_color := false; w_colors_env_ok := true; w_json_ok := fun _ => true; w_slurp_ok := fun _ => true;
              w_file := fun _ => None; w_help := codes "help"; w_version := codes "version";
              w_lib := fun j => match j_query j with
                                | QArg [46%N; 91%N] => LParseErr
                                | _ => LOk (mkAns [Some [OVal v1; OErr None (codes "x"); OVal v1]; Some [OVal (mkV KFalse (codes "false"))]]
                                                  [OVal (mkV KNull (codes "null"))] [OVal (mkV KOther (codes "[1,false]"))])
                                end;
              w_color := fun _ v => v_json v; w_yaml := fun _ v => (v_json v ++ [10%N])%list |}.

Lemma main_examples :
  let w := example_world in
  cli_main [codes "-e"; codes "."] w = mkR (codes "1" ++ [10; 102; 97; 108; 115; 101; 10]%N) [CExact (codes "gojq: x" ++ [10%N])] 5 /\
  cli_main [codes ".["] w = mkR [] [CDiag] 3 /\
  cli_main [codes "--indent"; codes "10"] w = mkR [] [CDiag] 5 /\
  cli_main [codes "--indent"] w = mkR [] [CDiag] 2 /\
  cli_main [codes "-f"] w = mkR [] [CDiag] 5 /\
  cli_main [codes "-h"; codes "--nosuch"] w = mkR [] [CDiag] 2 /\
  cli_main [codes "--version"; codes "-h"] w = mkR (codes "help") [] 0 /\
  cli_main [] w = mkR (codes "1" ++ [10; 102; 97; 108; 115; 101; 10]%N) [CExact (codes "gojq: x" ++ [10%N])] 5 /\
  r_out (cli_main [codes "--yaml-output"; codes "--raw-output0"] w) = (codes "1" ++ [10%N] ++ yaml_sep ++ codes "false" ++ [10%N])%list /\
  cli_main [codes "-n"; codes "-e"; codes "."] w = mkR (codes "null" ++ [10%N]) [] 1 /\
  cli_main [codes "-sc"; codes "."] w = mkR (codes "[1,false]" ++ [10%N]) [] 0.
Proof. vm_compute. repeat split; reflexivity. Qed.

(* the shape of the input list, spelled out *)
Theorem input_shape_spelled fo a :
  shape_ins fo a =
  if fbool fo "null-input" then [InRun (a_null a)]
  else if fbool fo "slurp" then (if existsb is_err_item (a_items a) then [InErr] else [InRun (a_slurp a)])
  else map item_input (a_items a).
Proof. reflexivity. Qed.
