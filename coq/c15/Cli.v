(* C15 — model of the gojq command after flag parsing (cli/cli.go: run, runInternal, process,
   printValues, createMarshaler; cli/marshaler.go: rawMarshaler; cli/error.go).
   DEFINITIONS ONLY (no proofs) so that the model still runs when a proof breaks.

   The LIBRARY IS ABSTRACTED: for every input value the model receives the list of outcomes that
   the iterator returned by Code.Run yields (a value | an error | a halt), the outcome of
   gojq.Parse/gojq.Compile, and the outcome of decoding the input stream.  What the model fixes
   is how the command turns these into stdout bytes, stderr chunks and the exit status.
   Status constants and the ExitCode() tables are the CURRENT tree's (gen/GenCliTables.v). *)
From Coq Require Import List ZArith NArith Bool.
From Verif Require Import gen.GenCliTables.
Import ListNotations.

Definition bytes := list N.

(* ---------------------------------------------------------------------------------------- *)
(* What the library yields                                                                   *)

(* the only distinctions the command makes between values: nil, false, string, anything else *)
Inductive vkind := KNull | KFalse | KStr (raw : bytes) | KOther.
(* v_json = gojq.Marshal v (compact JSON text of the value) *)
Record value := mkV { v_kind : vkind; v_json : bytes }.

Inductive outcome :=
| OVal (v : value)
| OErr (code : option Z) (msg : bytes)   (* an error value; code = its ExitCode() when it has one; msg = Error() *)
| OHalt (v : value) (code : Z).          (* *gojq.HaltError: Value(), ExitCode() *)

(* one item of the input iterator: a decoding error, or a value on which the query is run *)
Inductive input := InErr | InRun (outs : list outcome).

(* what happened before the loop *)
Inductive pre :=
| PFlagErr      (* parseFlags failed *)
| POptErr       (* an option VALUE was rejected by runInternal (fmt.Errorf, no ExitCode): --indent 10 *)
| PParseErr     (* gojq.Parse failed *)
| PCompileErr   (* gojq.Compile failed *)
| PReady.

Record opts := mkO {
  o_raw : bool; o_raw0 : bool; o_join : bool;
  o_compact : bool; o_tab : bool; o_indent : option nat;
  o_exit : bool; o_null : bool; o_slurp : bool }.

(* ---------------------------------------------------------------------------------------- *)
(* Rendering in the selected format (createMarshaler + cli/encoder.go layout)                 *)

(* the indentation unit; None = compact.  -c beats --tab beats --indent n; default 2 spaces *)
Definition indent_unit (o : opts) : option bytes :=
  if o_compact o then None
  else if o_tab o then Some [9%N]
  else Some (repeat 32%N (match o_indent o with Some n => n | None => 2%nat end)).

Definition is_open (c : N) : bool := (c =? 91)%N || (c =? 123)%N.
Definition is_close (c : N) : bool := (c =? 93)%N || (c =? 125)%N.
Fixpoint rep_unit (unit : bytes) (depth : nat) : bytes :=
  match depth with O => [] | S d => unit ++ rep_unit unit d end.
Definition newline_indent (unit : bytes) (depth : nat) : bytes := 10%N :: rep_unit unit depth.

(* layout of cli/encoder.go applied to the compact text: newline+indent after an opening bracket
   of a non-empty container, after every comma, before the closing bracket; ": " after keys *)
Fixpoint reindent (unit : bytes) (s : bytes) (instr esc : bool) (depth : nat) : bytes :=
  match s with
  | [] => []
  | c :: r =>
      if instr then
        c :: (if esc then reindent unit r true false depth
              else if (c =? 92)%N then reindent unit r true true depth
              else if (c =? 34)%N then reindent unit r false false depth
              else reindent unit r true false depth)
      else if (c =? 34)%N then c :: reindent unit r true false depth
      else if is_open c then
        match r with
        | d :: r' =>
            if is_close d then c :: d :: reindent unit r' false false depth
            else c :: newline_indent unit (S depth) ++ reindent unit r false false (S depth)
        | [] => [c]
        end
      else if is_close c then newline_indent unit (pred depth) ++ c :: reindent unit r false false (pred depth)
      else if (c =? 44)%N then c :: newline_indent unit depth ++ reindent unit r false false depth
      else if (c =? 58)%N then c :: 32%N :: reindent unit r false false depth
      else c :: reindent unit r false false depth
  end.

Definition render (o : opts) (v : value) : bytes :=
  match indent_unit o with
  | None => v_json v
  | Some u => reindent u (v_json v) false false 0
  end.

(* ---------------------------------------------------------------------------------------- *)
(* createMarshaler / rawMarshaler.marshal / the terminator of printValues                     *)

Definition rawmode (o : opts) : bool := o_raw o || o_raw0 o || o_join o.
Definition has_nul (s : bytes) : bool := existsb (fun c => (c =? 0)%N) s.

(* None = marshal returned an error (nothing was written) *)
Definition marshal (o : opts) (v : value) : option bytes :=
  match v_kind v with
  | KStr s =>
      if rawmode o then (if o_raw0 o && has_nul s then None else Some s)
      else Some (render o v)
  | _ => Some (render o v)
  end.

Definition terminator (o : opts) : bytes :=
  if o_raw0 o then [0%N] else if o_join o then [] else [10%N].

Definition falsy (v : value) : bool :=
  match v_kind v with KNull | KFalse => true | _ => false end.

(* ---------------------------------------------------------------------------------------- *)
(* stderr: exact bytes, or one "gojq: <text>\n" diagnostic whose text is not modelled         *)

Inductive chunk := CExact (b : bytes) | CDiag.

Definition gojq_prefix : bytes := [103; 111; 106; 113; 58; 32]%N.   (* "gojq: " *)
Definition diag_line (msg : bytes) : bytes := gojq_prefix ++ msg ++ [10%N].

(* process: the message of a HaltError: nothing for nil, strings raw, others JSON + newline *)
Definition halt_chunks (v : value) : list chunk :=
  match v_kind v with
  | KNull => []
  | KStr s => [CExact s]
  | _ => [CExact (v_json v ++ [10%N])]
  end.

(* ---------------------------------------------------------------------------------------- *)
(* printValues: [ec] is cli.exitCodeError (None = nil, i.e. no --exit-status)                 *)

Inductive pv_end :=
| PvDone
| PvErr (code : option Z) (c : chunk)
| PvHalt (v : value) (code : Z).

Definition record_value (ec : option Z) (v : value) : option Z :=
  match ec with None => None | Some _ => Some (exitStatus_after (falsy v)) end.

(* returns (bytes written to stdout, cli.exitCodeError afterwards, how the loop ended) *)
Fixpoint print_values (o : opts) (outs : list outcome) (ec : option Z) : bytes * option Z * pv_end :=
  match outs with
  | [] => ([], ec, PvDone)
  | OVal v :: r =>
      match marshal o v with
      | None => ([], ec, PvErr None CDiag)
      | Some b =>
          let '(out, ec', e) := print_values o r (record_value ec v) in
          (b ++ terminator o ++ out, ec', e)
      end
  | OErr c m :: _ => ([], ec, PvErr c (CExact (diag_line m)))
  | OHalt v c :: _ => ([], ec, PvHalt v c)
  end.

(* process: [err] is the local variable err (None = nil; Some c = an error whose ExitCode is c,
   Some None = an error without ExitCode).  Returns (stdout, stderr, exitCodeError, err). *)
Fixpoint process (o : opts) (ins : list input) (ec : option Z) (err : option (option Z))
  : bytes * list chunk * option Z * option (option Z) :=
  match ins with
  | [] => ([], [], ec, err)
  | InErr :: r =>
      let '(out, d, ec', err') := process o r ec (Some None) in
      (out, CDiag :: d, ec', err')
  | InRun outs :: r =>
      let '(out1, ec1, e) := print_values o outs ec in
      match e with
      | PvDone =>
          let '(out, d, ec', err') := process o r ec1 err in (out1 ++ out, d, ec', err')
      | PvErr c ch =>
          let '(out, d, ec', err') := process o r ec1 (Some c) in (out1 ++ out, ch :: d, ec', err')
      | PvHalt v c => (out1, halt_chunks v, ec1, Some (Some c))
      end
  end.

(* ---------------------------------------------------------------------------------------- *)
(* runInternal and run                                                                        *)

(* an error returned by runInternal: its ExitCode (if it has the method), and whether it is one of
   the silent kinds (isEmptyError: emptyError, exitCodeError) *)
Record cerr := mkE { e_code : option Z; e_silent : bool }.

(* the deferred function installed under --exit-status *)
Definition deferred (ret : option cerr) (recorded : Z) : option cerr :=
  match exitStatus_override (option_map e_code ret) recorded with
  | Some c =>
      match ret with
      | Some e => match e_code e with
                  | Some _ => Some e                               (* kept *)
                  | None => Some (mkE (option_map exitCodeError_ExitCode c) true)
                  end
      | None => Some (mkE (option_map exitCodeError_ExitCode c) true)
      end
  | None => None
  end.

(* the part of runInternal that runs with the deferred override installed:
   returns (stdout, stderr, cli.exitCodeError at return, returned error) *)
Definition guarded (o : opts) (p : pre) (ins : list input) : bytes * list chunk * option Z * option cerr :=
  let ec0 := if o_exit o then Some exitStatus_initial else None in
  match p with
  | PParseErr => ([], [], ec0, Some (mkE (Some queryParseError_ExitCode) false))
  | PCompileErr => ([], [], ec0, Some (mkE (Some compileError_ExitCode) false))
  | _ =>
      let '(out, d, ec, err) := process o ins ec0 None in
      (out, d, ec,
       match err with
       | Some c => Some (mkE (Some (emptyError_ExitCode c)) true)
       | None => None
       end)
  end.

Definition run_internal (o : opts) (p : pre) (ins : list input) : bytes * list chunk * option cerr :=
  match p with
  | PFlagErr => ([], [], Some (mkE (Some flagParseError_ExitCode) false))
  | POptErr => ([], [], Some (mkE None false))
  | _ =>
      let '(out, d, ec, ret) := guarded o p ins in
      (out, d, match ec with Some recorded => deferred ret recorded | None => ret end)
  end.

Record result := mkR { r_out : bytes; r_err : list chunk; r_status : Z }.

Definition run (o : opts) (p : pre) (ins : list input) : result :=
  let '(out, d, ret) := run_internal o p ins in
  match ret with
  | None => mkR out d (run_status None)
  | Some e => mkR out (d ++ (if e_silent e then [] else [CDiag])) (run_status (Some (e_code e)))
  end.

(* ---------------------------------------------------------------------------------------- *)
(* how -n / -s shape the input iterator (createInputIter, newNullInputIter, slurpInputIter):
   from (number of well-formed documents, malformed tail?) to (number of runs, input error?) *)
Definition input_shape (o : opts) (ndocs : nat) (tail : bool) : nat * bool :=
  if o_null o then (1%nat, false)
  else if o_slurp o then (if tail then (0%nat, true) else (1%nat, false))
  else (ndocs, tail).
