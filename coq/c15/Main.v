(* C15 / C08 — THE COMMAND FROM ARGV.  [cli_main args w] = parse_flags (c08/Flags.v, over the option table translated
   from the struct tags of cli/cli.go) -> cli.go runInternal BEFORE the loop, in source order -> the run loop of
   c15/Cli.v.  DEFINITIONS ONLY (proofs in c15/MainProofs.v).

   cli.go runInternal, transcribed in source order:
     parseFlags fails                                              -> &flagParseError{err}                      (usage, 2)
     opts.Help                                                     -> help text on STDOUT, return nil           (0)
     opts.Version                                                  -> version line on STDOUT, return nil        (0)
     colours: -C / -M given: noColor = opts.OutputMono (so -C -M is monochrome); else NO_COLOR / TERM / isatty
     !noColor and GOJQ_COLORS set and rejected by setColors        -> return err                                (no ExitCode: 5)
     --indent > 9, --indent < 0                                    -> fmt.Errorf                                (5, NOT 2)
     --yaml-output with --tab                                      -> errors.New                                (5)
     --arg k v       : "$k" bound to the string v
     --argjson k v   : first JSON value of v; a decoding error     -> return err                                (5)
     --slurpfile k f : slurpFile(f); error                         -> return err                                (5)
     --rawfile k f   : os.ReadFile(f); error                       -> return err                                (5)
     named[k] for all of the above; positional := opts.Args, then every non-nil opts.JSONArgs[i] decoded (error -> 5) and
       stored at positional[i] (i < len) or appended; "$ARGS" = {named, positional} bound last
     -f: no remaining argument -> errors.New (5); os.ReadFile(args[0]) fails -> return err (5); else query := file contents
     no remaining argument (without -f)                            -> query := "."   (NOT a usage error)
     otherwise                                                     -> query := strings.TrimSpace(args[0])
     the remaining arguments are input FILES
     --exit-status: cli.exitCodeError = exitCodeError{4} and the deferred override are installed HERE (after the checks above)
     gojq.Parse fails                                              -> &queryParseError                          (3)
     gojq.Compile fails                                            -> &queryParseError / &compileError          (3)
     -s wraps the input iterator (createInputIter), -n replaces it by the one-null iterator ([shape_ins]); cli.process  (Cli.v)

   THE OUTSIDE WORLD is the record [world]: the terminal / environment, the files, the JSON reader used for option values,
   the texts printed for --help / --version (they contain runtime.Version()), and THE LIBRARY: for the query source, the
   variable bindings, the module path list and the input configuration that the argv denotes, [w_lib] says whether
   gojq.Parse / gojq.Compile fail and otherwise what the input iterator and, per input value, the iterator of Code.Run yield
   (c15/Cli.v [input]).  Nothing is assumed about the world.

   OUTPUT FORMATS.  Plain JSON is rendered by Cli.v from gojq.Marshal's text ([render]).  Colour (-C, or a terminal) and
   --yaml-output renderings are functions of the world ([w_color], [w_yaml]: the bytes the colour encoder / the YAML encoder
   write for one value): cli.go printValues under --yaml-output writes "---\n" before every value except the first one of
   the whole run, no terminator, never the raw / NUL-rejecting marshaler (createMarshaler returns the YAML marshaler first);
   under colour only the encoder changes (strings under -r/-j/--raw-output0 are still written raw).  Both are expressed by
   running Cli.v's loop on pre-rendered values ([eff_opts], [eff_ins]), so every theorem about [run] applies.
   The YAML encoder is assumed not to fail on library values (the harness reports a case where it does). *)
From Coq Require Import List ZArith NArith Bool String.
From Verif Require Import common.Sexp gen.GenFlagTable gen.GenCliTables c08.Flags c15.Cli.
Import ListNotations.
Open Scope Z_scope.

(* ---- reading the option struct filled by parseFlags (fields are found by their long name) ---- *)
Definition field (fo : list fval) (long : string) : fval :=
  match lookup_long flag_table (codes long) with Some i => get_opt i fo | None => VOther end.
Definition fbool (fo : list fval) (long : string) : bool := match field fo long with VBool b => b | _ => false end.
Definition findent (fo : list fval) : option Z := match field fo "indent" with VInt z => z | _ => None end.
Definition fmap (fo : list fval) (long : string) : list (bytes * bytes) := match field fo long with VMap m => m | _ => [] end.
Definition fslice (fo : list fval) (long : string) : list (option bytes) := match field fo long with VSlice l => l | _ => [] end.

(* every long name used below is an option of the current cli.go, of the kind it is read as *)
Definition names_used : list (string * kind) :=
  [("help", KBool); ("version", KBool); ("indent", KIntPtr); ("tab", KBool); ("yaml-output", KBool); ("raw-output", KBool);
   ("raw-output0", KBool); ("join-output", KBool); ("compact-output", KBool); ("exit-status", KBool); ("null-input", KBool);
   ("slurp", KBool); ("from-file", KBool); ("color-output", KBool); ("monochrome-output", KBool); ("raw-input", KBool);
   ("stream", KBool); ("yaml-input", KBool); ("library-path", KSlice); ("arg", KMap); ("argjson", KMap); ("slurpfile", KMap);
   ("rawfile", KMap); ("args", KSlice); ("jsonargs", KSlice)]%string.
Definition kind_eqb (a b : kind) : bool :=
  match a, b with
  | KBool, KBool | KString, KString | KIntPtr, KIntPtr | KOtherPtr, KOtherPtr | KSlice, KSlice | KMap, KMap => true
  | _, _ => false
  end.
Definition names_ok : bool :=
  forallb (fun nk => match lookup_long flag_table (codes (fst nk)) with
                     | Some i => kind_eqb (kind_of flag_table i) (snd nk)
                     | None => false end) names_used.

(* ---- variable bindings ---- *)
Inductive argsrc := AStr (s : bytes) | AJson (text : bytes) | ASlurpFile (path : bytes) | ARawFile (path : bytes).
Inductive possrc := PNil | PStr (s : bytes) | PJson (text : bytes).

Definition named_of (fo : list fval) : list (bytes * argsrc) :=
  map (fun kv => (fst kv, AStr (snd kv))) (fmap fo "arg") ++
  map (fun kv => (fst kv, AJson (snd kv))) (fmap fo "argjson") ++
  map (fun kv => (fst kv, ASlurpFile (snd kv))) (fmap fo "slurpfile") ++
  map (fun kv => (fst kv, ARawFile (snd kv))) (fmap fo "rawfile").

(* positional := opts.Args; for i, v := range opts.JSONArgs { if v != nil { if i < len(positional) { positional[i] = val }
   else { positional = append(positional, val) } } } *)
Fixpoint set_pos (n : nat) (v : possrc) (l : list possrc) : list possrc :=
  match l, n with
  | [], _ => []
  | _ :: r, O => v :: r
  | x :: r, S k => x :: set_pos k v r
  end.
Fixpoint merge_json (i : nat) (js : list (option bytes)) (pos : list possrc) : list possrc :=
  match js with
  | [] => pos
  | None :: r => merge_json (S i) r pos
  | Some t :: r => merge_json (S i) r (if (i <? List.length pos)%nat then set_pos i (PJson t) pos else pos ++ [PJson t])
  end.
Definition positional_of (fo : list fval) : list possrc :=
  merge_json 0 (fslice fo "jsonargs") (map (fun a => match a with Some s => PStr s | None => PNil end) (fslice fo "args")).

(* ---- what the library is asked ---- *)
Inductive qsrc := QDot | QArg (a : bytes) (* strings.TrimSpace(a) is parsed *) | QFile (name contents : bytes).
Record job := mkJob {
  j_query : qsrc;
  j_named : list (bytes * argsrc);
  j_positional : list possrc;
  j_modpaths : list (option bytes);
  j_raw : bool; j_stream : bool; j_yaml_in : bool; j_slurp : bool;    (* which decoder createInputIter selects *)
  j_files : list bytes }.
(* what the library and the input decoders yield for a job that compiles:
   a_items = the items of the input iterator BEFORE the slurp wrapper and the -n replacement (newIter(stdin) or
             newFilesInputIter(newIter, files, stdin)): None = an error item, Some outs = a value on which Code.Run yields outs
   a_null  = what Code.Run yields on nil (used under -n)
   a_slurp = what Code.Run yields on the slurped value (array of all values; with -R the concatenated string): used
             under -s when no item is an error *)
Record answers := mkAns { a_items : list (option (list outcome)); a_null : list outcome; a_slurp : list outcome }.
Inductive lib := LParseErr | LCompileErr | LOk (a : answers).

Record world := {
  w_auto_color : bool;            (* neither -C nor -M: colours iff NO_COLOR unset, TERM != dumb, stdout is a terminal *)
  w_colors_env_ok : bool;         (* GOJQ_COLORS unset, or accepted by setColors *)
  w_json_ok : bytes -> bool;      (* the first JSON value of an --argjson / --jsonargs text decodes (or the text is empty) *)
  w_slurp_ok : bytes -> bool;     (* slurpFile(path) succeeds *)
  w_file : bytes -> option bytes; (* os.ReadFile *)
  w_help : bytes;                 (* what --help prints *)
  w_version : bytes;              (* what --version prints *)
  w_lib : job -> lib;
  w_color : opts -> value -> bytes;      (* the colour encoder's bytes for one value in the selected layout *)
  w_yaml : option Z -> value -> bytes    (* the YAML encoder's bytes for one value, SetIndent(indent or 2) *)
}.

(* ---- the option record of Cli.v ---- *)
Definition opts_of (fo : list fval) : opts :=
  mkO (fbool fo "raw-output") (fbool fo "raw-output0") (fbool fo "join-output") (fbool fo "compact-output")
      (fbool fo "tab") (option_map Z.to_nat (findent fo)) (fbool fo "exit-status") (fbool fo "null-input") (fbool fo "slurp").

Definition color_on (fo : list fval) (w : world) : bool :=
  if fbool fo "color-output" || fbool fo "monochrome-output" then negb (fbool fo "monochrome-output") else w_auto_color w.

Definition indent_bad (fo : list fval) : bool :=
  match findent fo with Some i => (i >? 9) || (i <? 0) | None => false end.

Definition src_ok (w : world) (s : argsrc) : bool :=
  match s with
  | AStr _ => true
  | AJson t => w_json_ok w t
  | ASlurpFile p => w_slurp_ok w p
  | ARawFile p => match w_file w p with Some _ => true | None => false end
  end.
Definition bindings_ok (fo : list fval) (w : world) : bool :=
  forallb (fun kv => src_ok w (snd kv)) (named_of fo) &&
  forallb (fun v => match v with Some t => w_json_ok w t | None => true end) (fslice fo "jsonargs").

(* the query source and the input files; None = -f without a file name / unreadable file *)
Definition query_of (fo : list fval) (rest : list bytes) (w : world) : option (qsrc * list bytes) :=
  if fbool fo "from-file" then
    match rest with
    | [] => None
    | f :: files => match w_file w f with Some src => Some (QFile f src, files) | None => None end
    end
  else match rest with
       | [] => Some (QDot, [])
       | a :: files => Some (QArg a, files)
       end.

Definition job_of (fo : list fval) (q : qsrc) (files : list bytes) : job :=
  mkJob q (named_of fo) (positional_of fo) (fslice fo "library-path")
        (fbool fo "raw-input") (fbool fo "stream") (fbool fo "yaml-input") (fbool fo "slurp") files.

(* cli.go: createInputIter wraps the iterator in newSlurpInputIter / newSlurpRawInputIter under -s (all values in one, or the
   first error item and then nothing); runInternal replaces it by newNullInputIter() under -n (one nil, nothing is read) *)
Definition is_err_item (i : option (list outcome)) : bool := match i with None => true | Some _ => false end.
Definition item_input (i : option (list outcome)) : input := match i with None => InErr | Some outs => InRun outs end.
Definition shape_ins (fo : list fval) (a : answers) : list input :=
  if fbool fo "null-input" then [InRun (a_null a)]
  else if fbool fo "slurp" then (if existsb is_err_item (a_items a) then [InErr] else [InRun (a_slurp a)])
  else map item_input (a_items a).

(* ---- pre-rendered values: colour and YAML output on top of Cli.v's loop ---- *)
Inductive outmode := MPlain | MColor | MYaml.
Definition outmode_of (fo : list fval) (w : world) : outmode :=
  if fbool fo "yaml-output" then MYaml else if color_on fo w then MColor else MPlain.

Definition yaml_sep : bytes := [45; 45; 45; 10]%N.    (* "---\n" *)
Definition no_str (k : vkind) : vkind := match k with KStr _ => KOther | k => k end.

Definition with_compact (o : opts) : opts :=
  mkO (o_raw o) (o_raw0 o) (o_join o) true (o_tab o) (o_indent o) (o_exit o) (o_null o) (o_slurp o).
(* YAML: no raw strings, no NUL rejection, no terminator *)
Definition yaml_opts (o : opts) : opts := mkO false false true true false None (o_exit o) (o_null o) (o_slurp o).

Definition color_outcome (f : value -> bytes) (x : outcome) : outcome :=
  match x with OVal v => OVal (mkV (v_kind v) (f v)) | _ => x end.
Definition color_ins (f : value -> bytes) (ins : list input) : list input :=
  map (fun i => match i with InErr => InErr | InRun outs => InRun (map (color_outcome f) outs) end) ins.

(* [first] = cli.outputYAMLSeparator is still false *)
Fixpoint yaml_outs (f : value -> bytes) (first : bool) (outs : list outcome) : list outcome :=
  match outs with
  | [] => []
  | OVal v :: r => OVal (mkV (no_str (v_kind v)) ((if first then [] else yaml_sep) ++ f v)) :: yaml_outs f false r
  | x :: r => x :: yaml_outs f first r     (* printValues returns here: the rest is never looked at *)
  end.
Definition starts_with_value (outs : list outcome) : bool := match outs with OVal _ :: _ => true | _ => false end.
Fixpoint yaml_ins (f : value -> bytes) (first : bool) (ins : list input) : list input :=
  match ins with
  | [] => []
  | InErr :: r => InErr :: yaml_ins f first r
  | InRun outs :: r => InRun (yaml_outs f first outs) :: yaml_ins f (first && negb (starts_with_value outs)) r
  end.

Definition eff_opts (fo : list fval) (w : world) : opts :=
  match outmode_of fo w with
  | MPlain => opts_of fo
  | MColor => with_compact (opts_of fo)
  | MYaml => yaml_opts (opts_of fo)
  end.
Definition eff_ins (fo : list fval) (w : world) (ins : list input) : list input :=
  match outmode_of fo w with
  | MPlain => ins
  | MColor => color_ins (w_color w (opts_of fo)) ins
  | MYaml => yaml_ins (w_yaml w (findent fo)) true ins
  end.

(* ---- the phases of runInternal ---- *)
Inductive phase :=
| PhPanic                                   (* parseFlags indexed out of range or ran on: never (MainProofs) *)
| PhUsage                                   (* flagParseError *)
| PhHelp | PhVersion
| PhPre (o : opts) (p : pre)                (* POptErr | PParseErr | PCompileErr: an error before the loop *)
| PhRun (o : opts) (ins : list input).      (* cli.process over these inputs, values pre-rendered when colour / YAML *)

Definition after_flags (rest : list bytes) (fo : list fval) (w : world) : phase :=
  if fbool fo "help" then PhHelp
  else if fbool fo "version" then PhVersion
  else
    let o := eff_opts fo w in
    if color_on fo w && negb (w_colors_env_ok w) then PhPre o POptErr
    else if indent_bad fo then PhPre o POptErr
    else if fbool fo "yaml-output" && fbool fo "tab" then PhPre o POptErr
    else if negb (bindings_ok fo w) then PhPre o POptErr
    else match query_of fo rest w with
         | None => PhPre o POptErr
         | Some (q, files) =>
             match w_lib w (job_of fo q files) with
             | LParseErr => PhPre o PParseErr
             | LCompileErr => PhPre o PCompileErr
             | LOk a => PhRun o (eff_ins fo w (shape_ins fo a))
             end
         end.

Definition phase_of (args : list bytes) (w : world) : phase :=
  match parse_flags flag_table args with
  | FErr _ => PhUsage
  | FOk rest fo => after_flags rest fo w
  | FPanic _ | FFuel => PhPanic
  end.

(* cli.run on top: what is written where, and the value handed to os.Exit *)
Definition finish (w : world) (ph : phase) : result :=
  match ph with
  | PhPanic => mkR [] [] (-1)
  | PhUsage => run (opts_of []) PFlagErr []
  | PhHelp => mkR (w_help w) [] (run_status None)
  | PhVersion => mkR (w_version w) [] (run_status None)
  | PhPre o p => run o p []
  | PhRun o ins => run o PReady ins
  end.

Definition cli_main (args : list bytes) (w : world) : result := finish w (phase_of args w).
