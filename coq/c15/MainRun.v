(* C15 correspondence for the command from argv (c15/Main.v): one harness line -> verdict.

   (argv (<arghex>...)
         (world <auto_color 0/1> <colors_env_ok 0/1> (<hex text whose JSON decoding fails>...) (<hex path whose slurp fails>...)
                ((<hex path> <hex contents>)...) <hex help text> <hex version text>)
         <lib>        none | parseerr | compileerr | (ans (items <item>...) <null-run> <slurp-run>)
                      item = inerr | (run <outcome>...) as in c15/Run.v: the items of the input iterator before -s / -n;
                      null-run / slurp-run = (run <outcome>...) of Code.Run on nil / on the slurped value
         (pretty (<hex gojq.Marshal text> <hex rendering>)...)                      colour / YAML renderings of the values
         <job>        - | (job <q> (<named>...) (<positional>...) (<modpath>...) <raw> <stream> <yamlin> <slurp> (<file>...))
                      q = dot | (arg <hex>) | (file <hexname> <hexcontents>)
                      named = (<hexname> a|j|s|r <hex>)    positional = n | (s <hex>) | (j <hex>)
         (impl raw <hexstdout> <status> <hexstderr>))
   The world's library answers [lib] for the job the HARNESS derived from the command line (its own reading of the option
   struct); the verdict is (bad job) when the model derives a different job from the argv.  "none" = the harness did not
   get as far as the library (usage error, help, rejected option value): the model must not ask.
   Lines of any other shape are judged by c15/Run.v. *)
From Coq Require Import List ZArith NArith Bool String.
From Verif Require Import common.Sexp c08.FastSexp gen.GenFlagTable gen.GenCliTables c08.Flags c15.Cli c15.Spec c15.Run c15.Main.
Import ListNotations.

Definition dec_hex (e : sexp) : option bytes := match e with Atom a => parse_hexs a | _ => None end.
Definition dec_pair (e : sexp) : option (bytes * bytes) :=
  match e with
  | SList [a; b] => match dec_hex a, dec_hex b with Some x, Some y => Some (x, y) | _, _ => None end
  | _ => None
  end.
Fixpoint assoc (k : bytes) (l : list (bytes * bytes)) : option bytes :=
  match l with [] => None | (a, b) :: r => if list_N_eqb a k then Some b else assoc k r end.
Definition mem (k : bytes) (l : list bytes) : bool := existsb (list_N_eqb k) l.

(* ---- the job, printed canonically by both sides ---- *)
Definition enc_hex (b : bytes) : sexp := Atom (print_hexs b).
Definition enc_bit (b : bool) : sexp := if b then A "1" else A "0".
Definition enc_job (j : job) : sexp :=
  SList [A "job";
         match j_query j with QDot => A "dot" | QArg a => SList [A "arg"; enc_hex a] | QFile n c => SList [A "file"; enc_hex n; enc_hex c] end;
         SList (map (fun kv => match snd kv with
                               | AStr s => SList [enc_hex (fst kv); A "a"; enc_hex s]
                               | AJson s => SList [enc_hex (fst kv); A "j"; enc_hex s]
                               | ASlurpFile s => SList [enc_hex (fst kv); A "s"; enc_hex s]
                               | ARawFile s => SList [enc_hex (fst kv); A "r"; enc_hex s]
                               end) (j_named j));
         SList (map (fun p => match p with PNil => A "n" | PStr s => SList [A "s"; enc_hex s] | PJson s => SList [A "j"; enc_hex s] end)
                    (j_positional j));
         SList (map (fun p => match p with Some s => enc_hex s | None => A "n" end) (j_modpaths j));
         enc_bit (j_raw j); enc_bit (j_stream j); enc_bit (j_yaml_in j); enc_bit (j_slurp j);
         SList (map enc_hex (j_files j))].

Inductive libans := LaNone | LaAns (l : lib).
Definition dec_lib (e : sexp) : option libans :=
  if atom_is "none" e then Some LaNone
  else if atom_is "parseerr" e then Some (LaAns LParseErr)
  else if atom_is "compileerr" e then Some (LaAns LCompileErr)
  else match e with
       | SList [k; SList (ki :: items); rn; rs] =>
           if atom_is "ans" k && atom_is "items" ki then
             match dec_list dec_input items, dec_input rn, dec_input rs with
             | Some items, Some (InRun n), Some (InRun s) =>
                 Some (LaAns (LOk (mkAns (map (fun i => match i with InErr => None | InRun o => Some o end) items) n s)))
             | _, _, _ => None
             end
           else None
       | _ => None
       end.

(* the library of the world: the recorded answer for the recorded job; anything else is flagged by [asked] below *)
Definition mk_world (auto colors_ok : bool) (jsonbad slurpbad : list bytes) (files : list (bytes * bytes)) (help version : bytes)
                    (ans : lib) (pretty : list (bytes * bytes)) : world :=
  {| w_auto_color := auto; w_colors_env_ok := colors_ok;
     w_json_ok := fun t => negb (mem t jsonbad); w_slurp_ok := fun p => negb (mem p slurpbad);
     w_file := fun p => assoc p files; w_help := help; w_version := version;
     w_lib := fun _ => ans;
     w_color := fun _ v => match assoc (v_json v) pretty with Some b => b | None => [] end;
     w_yaml := fun _ v => match assoc (v_json v) pretty with Some b => b | None => [] end |}.

(* the job the model asks the library about, if it gets that far *)
Definition asked_job (args : list bytes) (w : world) : option job :=
  match parse_flags flag_table args with
  | FOk rest fo =>
      if fbool fo "help" || fbool fo "version" then None
      else if color_on fo w && negb (w_colors_env_ok w) then None
      else if indent_bad fo then None
      else if fbool fo "yaml-output" && fbool fo "tab" then None
      else if negb (bindings_ok fo w) then None
      else match query_of fo rest w with Some (q, files) => Some (job_of fo q files) | None => None end
  | _ => None
  end.

Definition sexp_eqb (a b : sexp) : bool := list_N_eqb (print a) (print b).
(* Go maps lose the insertion order: the named bindings are compared as sets *)
Definition set_eqb (a b : list sexp) : bool :=
  Nat.eqb (List.length a) (List.length b) && forallb (fun x => existsb (sexp_eqb x) b) a && forallb (fun x => existsb (sexp_eqb x) a) b.
Definition job_eqb (a b : sexp) : bool :=
  match a, b with
  | SList (j1 :: q1 :: SList n1 :: r1), SList (j2 :: q2 :: SList n2 :: r2) =>
      sexp_eqb (SList (j1 :: q1 :: r1)) (SList (j2 :: q2 :: r2)) && set_eqb n1 n2
  | _, _ => false
  end.

Definition run_argv (e : sexp) : sexp :=
  match e with
  | SList [k; SList args; SList [kw; ac; co; SList jb; SList sb; SList fl; hh; hv]; el; SList (kp :: pr); ej;
           SList [ki; mode; Atom hout; Atom st; Atom herr]] =>
      if atom_is "argv" k && atom_is "world" kw && atom_is "pretty" kp && atom_is "impl" ki then
        match dec_list dec_hex args, dec_bit ac, dec_bit co, dec_list dec_hex jb, dec_list dec_hex sb with
        | Some args, Some ac, Some co, Some jb, Some sb =>
            match dec_list dec_pair fl, dec_hex hh, dec_hex hv, dec_lib el, dec_list dec_pair pr with
            | Some fl, Some hh, Some hv, Some la, Some pr =>
                match parse_hexs hout, parse_Z st, parse_hexs herr with
                | Some out, Some status, Some err =>
                    let w := mk_world ac co jb sb fl hh hv (match la with LaAns l => l | LaNone => LParseErr end) pr in
                    let job_ok :=
                      match asked_job args w, la with
                      | None, LaNone => true
                      | Some j, LaAns _ => job_eqb (enc_job j) ej
                      | _, _ => false
                      end in
                    if negb job_ok
                    then SList [A "bad"; A "job"; match asked_job args w with Some j => enc_job j | None => A "none" end]
                    else judge (cli_main args w) false out status err
                | _, _, _ => A "undecodable-impl"
                end
            | _, _, _, _, _ => A "undecodable-world2"
            end
        | _, _, _, _, _ => A "undecodable-world1"
        end
      else A "undecodable"
  | _ => A "undecodable"
  end.

(* "(argv " ; these lines carry long hex atoms and are read by the linear-time reader c08/FastSexp.v *)
Definition is_argv_line (l : list N) : bool :=
  match l with 40 :: 97 :: 114 :: 103 :: 118 :: 32 :: _ => true | _ => false end%N.

(* "(spec (argv " : the (spec ...) wrapper of lib/verif.py; for these lines model and specification coincide by
   MainProofs.main_result, so the wrapper is ignored *)
Definition is_spec_argv_line (l : list N) : bool :=
  match l with 40 :: 115 :: 112 :: 101 :: 99 :: 32 :: 40 :: 97 :: 114 :: 103 :: 118 :: 32 :: _ => true | _ => false end%N.

Definition run_line (l : list N) : list N :=
  if is_argv_line l then match parse_fast l with Some e => print (run_argv e) | None => codes "unparsable" end
  else if is_spec_argv_line l then match parse_fast l with Some (SList [_; e]) => print (run_argv e) | _ => codes "unparsable" end
  else (* the body of Run.run_line (calling it would make extraction rename one of the two run_line) *)
    match parse l with
    | Some (SList [k; e]) => if atom_is "spec" k then print (run_case true e) else codes "undecodable"
    | Some e => print (run_case false e)
    | None => codes "unparsable"
    end.
