(* C15 — proofs: the state-passing model of the command (Cli.v) equals the declarative
   specification (Spec.v), by induction over the outcome list of one input (print_values) and
   over the input list (process). *)
From Coq Require Import List ZArith NArith Bool Lia.
From Verif Require Import gen.GenCliTables c15.Cli c15.Spec.
Import ListNotations.

(* ---- list helpers ---- *)
Lemma last_opt_some {A} (y : A) l : exists z, last_opt (y :: l) = Some z.
Proof. revert y. induction l as [|x l IH]; intros y; [exists y; reflexivity|].
  change (last_opt (y :: x :: l)) with (last_opt (x :: l)). apply IH. Qed.

Lemma last_opt_cons {A} (x : A) l :
  last_opt (x :: l) = match last_opt l with Some y => Some y | None => Some x end.
Proof. destruct l as [|y l]; [reflexivity|]. change (last_opt (x :: y :: l)) with (last_opt (y :: l)).
  destruct (last_opt_some y l) as [z ->]. reflexivity. Qed.

Lemma last_opt_app {A} (a b : list A) :
  last_opt (a ++ b) = match last_opt b with Some y => Some y | None => last_opt a end.
Proof. induction a as [|x a IH]; cbn [app].
  - destruct (last_opt b); reflexivity.
  - rewrite !last_opt_cons, IH. destruct (last_opt b); [reflexivity|]. reflexivity. Qed.

Lemma upto_incl_app_stop {A} (p : A -> bool) pre x post :
  p x = true -> upto_incl p (pre ++ x :: post) = upto_incl p (pre ++ [x]).
Proof. intros H. induction pre as [|y pre IH]; cbn; [rewrite H; reflexivity|].
  destruct (p y); [reflexivity|]. f_equal. exact IH. Qed.

Lemma upto_incl_app_none {A} (p : A -> bool) pre post :
  forallb (fun x => negb (p x)) pre = true -> upto_incl p (pre ++ post) = pre ++ upto_incl p post.
Proof. induction pre as [|y pre IH]; cbn; [reflexivity|]. intros H. apply andb_prop in H. destruct H as [H1 H2].
  destruct (p y); [discriminate|]. f_equal. apply IH. exact H2. Qed.

Lemma find_app_none {A} (p : A -> bool) pre post :
  forallb (fun x => negb (p x)) pre = true -> find p (pre ++ post) = find p post.
Proof. induction pre as [|y pre IH]; cbn; [reflexivity|]. intros H. apply andb_prop in H. destruct H as [H1 H2].
  destruct (p y); [discriminate|]. apply IH. exact H2. Qed.

(* ---- printValues ---- *)
Definition ec_after (ec : option Z) (vs : list value) : option Z :=
  match ec with
  | None => None
  | Some e => Some (match last_opt vs with None => e | Some v => exitStatus_after (falsy v) end)
  end.

Definition end_of (o : opts) (outs : list outcome) : pv_end :=
  match first_stop o outs with
  | None => PvDone
  | Some (OVal _) => PvErr None CDiag
  | Some (OErr c m) => PvErr c (CExact (diag_line m))
  | Some (OHalt v c) => PvHalt v c
  end.

Lemma ec_after_record ec v vs : ec_after (record_value ec v) vs = ec_after ec (v :: vs).
Proof. destruct ec as [e|]; [|reflexivity]. cbn [record_value ec_after]. rewrite last_opt_cons.
  destruct (last_opt vs); reflexivity. Qed.

Lemma ec_after_app ec a b : ec_after (ec_after ec a) b = ec_after ec (a ++ b).
Proof. destruct ec as [e|]; [|reflexivity]. cbn [ec_after]. rewrite last_opt_app. destruct (last_opt b); reflexivity. Qed.

Lemma print_values_spec o outs : forall ec,
  print_values o outs ec =
  (flat_map (out_bytes o) (before_stop o outs), ec_after ec (flat_map out_value (before_stop o outs)), end_of o outs).
Proof.
  unfold before_stop, end_of, first_stop. induction outs as [|x r IH]; intros ec.
  - cbn. destruct ec; reflexivity.
  - destruct x as [v|c m|v c].
    + cbn [print_values take_while find stopper]. destruct (marshal o v) as [b|] eqn:M.
      * cbn [negb]. rewrite IH. cbn [flat_map out_bytes out_value]. rewrite M.
        rewrite ec_after_record. cbn [app]. rewrite <- app_assoc. reflexivity.
      * cbn. destruct ec; reflexivity.
    + cbn. destruct ec; reflexivity.
    + cbn. destruct ec; reflexivity.
Qed.

(* ---- process ---- *)
Definition err_after (o : opts) (ins : list input) (err : option (option Z)) : option (option Z) :=
  match spec_halt o ins with
  | Some (_, c) => Some (Some c)
  | None => match last_opt (spec_errors o ins) with Some c => Some c | None => err end
  end.

Lemma live_halt o i r : halts o i = true -> live o (i :: r) = [i].
Proof. unfold live. cbn. intros ->. reflexivity. Qed.
Lemma live_nohalt o i r : halts o i = false -> live o (i :: r) = i :: live o r.
Proof. unfold live. cbn. intros ->. reflexivity. Qed.
Lemma spec_halt_nohalt o i r : halts o i = false -> spec_halt o (i :: r) = spec_halt o r.
Proof. unfold spec_halt. cbn. intros ->. reflexivity. Qed.
Lemma spec_halt_halt o i r : halts o i = true -> spec_halt o (i :: r) = halt_in o i.
Proof. unfold spec_halt. cbn. intros ->. reflexivity. Qed.

Lemma process_spec o ins : forall ec err,
  process o ins ec err =
  (spec_stdout o ins, spec_stderr o ins, ec_after ec (spec_values o ins), err_after o ins err).
Proof.
  induction ins as [|i r IH]; intros ec err.
  - cbn. destruct ec; reflexivity.
  - destruct i as [|outs].
    + (* input error *)
      cbn [process]. rewrite IH.
      assert (H : halts o InErr = false) by reflexivity.
      unfold spec_stdout, spec_stderr, spec_values, err_after, spec_errors.
      rewrite (live_nohalt _ _ _ H), (spec_halt_nohalt _ _ _ H). cbn [flat_map input_stdout input_diag input_values input_error app].
      f_equal. destruct (spec_halt o r) as [[? ?]|]; [reflexivity|].
      change (None :: ?l) with ([@None Z] ++ l). rewrite last_opt_app.
      fold (spec_errors o r). destruct (last_opt (spec_errors o r)); reflexivity.
    + cbn [process]. rewrite print_values_spec. unfold end_of.
      unfold spec_stdout, spec_stderr, spec_values, err_after, spec_errors.
      destruct (first_stop o outs) as [[v|c m|v c]|] eqn:F.
      * (* marshal error *)
        assert (H : halts o (InRun outs) = false) by (unfold halts, halt_in; rewrite F; reflexivity).
        rewrite IH, (live_nohalt _ _ _ H), (spec_halt_nohalt _ _ _ H).
        cbn [flat_map input_stdout input_diag input_values input_error]. rewrite F. cbn [app].
        rewrite ec_after_app. f_equal.
        unfold err_after. destruct (spec_halt o r) as [[? ?]|]; [reflexivity|].
        change (None :: ?l) with ([@None Z] ++ l). rewrite last_opt_app.
        fold (spec_errors o r). destruct (last_opt (spec_errors o r)); reflexivity.
      * (* runtime error *)
        assert (H : halts o (InRun outs) = false) by (unfold halts, halt_in; rewrite F; reflexivity).
        rewrite IH, (live_nohalt _ _ _ H), (spec_halt_nohalt _ _ _ H).
        cbn [flat_map input_stdout input_diag input_values input_error]. rewrite F. cbn [app].
        rewrite ec_after_app. f_equal.
        unfold err_after. destruct (spec_halt o r) as [[? ?]|]; [reflexivity|].
        change (c :: ?l) with ([c] ++ l). rewrite last_opt_app.
        fold (spec_errors o r). destruct (last_opt (spec_errors o r)); reflexivity.
      * (* halt *)
        assert (H : halts o (InRun outs) = true) by (unfold halts, halt_in; rewrite F; reflexivity).
        rewrite (live_halt _ _ _ H), (spec_halt_halt _ _ _ H).
        cbn [flat_map input_stdout input_diag input_values input_error halt_in]. rewrite F.
        rewrite !app_nil_r. reflexivity.
      * (* all outputs printed *)
        assert (H : halts o (InRun outs) = false) by (unfold halts, halt_in; rewrite F; reflexivity).
        rewrite IH, (live_nohalt _ _ _ H), (spec_halt_nohalt _ _ _ H).
        cbn [flat_map input_stdout input_diag input_values input_error]. rewrite F. cbn [app].
        rewrite ec_after_app. reflexivity.
Qed.

(* ---- the whole command ---- *)

(* the generated tables are the documented ones (breaks when the constants or ExitCode methods change) *)
Lemma tables_documented :
  exitCodeOK = 0%Z /\ exitCodeFalsyErr = 1%Z /\ exitCodeFlagParseErr = 2%Z /\ exitCodeCompileErr = 3%Z /\
  exitCodeNoValueErr = 4%Z /\ exitCodeDefaultErr = 5%Z /\
  flagParseError_ExitCode = 2%Z /\ queryParseError_ExitCode = 3%Z /\ compileError_ExitCode = 3%Z /\
  (forall c, emptyError_ExitCode (Some c) = c) /\ emptyError_ExitCode None = 5%Z /\
  (forall c, exitCodeError_ExitCode c = c) /\
  exitStatus_initial = 4%Z /\ exitStatus_after true = 1%Z /\ exitStatus_after false = 0%Z /\
  lib_error_code = 5%Z /\ lib_halt_code = 0%Z /\ lib_halt_error_default_code = 5%Z /\
  (forall c, lib_HaltError_ExitCode c = c).
Proof. repeat split. Qed.

Theorem run_is_spec o p ins : run o p ins = spec_result o p ins.
Proof.
  destruct p; try reflexivity.
  - (* parse error *) unfold run, run_internal, guarded. destruct (o_exit o); reflexivity.
  - (* compile error *) unfold run, run_internal, guarded. destruct (o_exit o); reflexivity.
  - (* ready *)
    unfold run, run_internal, guarded. rewrite process_spec. unfold spec_result, spec_status, err_after.
    destruct (spec_halt o ins) as [[hv hc]|].
    + destruct (o_exit o); cbn; rewrite app_nil_r; reflexivity.
    + destruct (last_opt (spec_errors o ins)) as [[c|]|].
      * destruct (o_exit o); cbn; rewrite app_nil_r; reflexivity.
      * destruct (o_exit o); cbn; rewrite app_nil_r; reflexivity.
      * destruct (o_exit o); cbn [ec_after].
        -- destruct (last_opt (spec_values o ins)) as [v|]; cbn; rewrite app_nil_r; [destruct (falsy v)|]; reflexivity.
        -- cbn. reflexivity.
Qed.

Lemma stdout_is_concat o ins : r_out (run o PReady ins) = spec_stdout o ins.
Proof. rewrite run_is_spec. reflexivity. Qed.

Lemma stdout_empty_before_loop o p ins : p <> PReady -> r_out (run o p ins) = [].
Proof. intros H. rewrite run_is_spec. destruct p; try reflexivity. congruence. Qed.

Lemma stderr_is_concat o ins : r_err (run o PReady ins) = spec_stderr o ins.
Proof. rewrite run_is_spec. reflexivity. Qed.

Lemma exit_status_table o p ins : r_status (run o p ins) = spec_status o p ins.
Proof. rewrite run_is_spec. destruct p; reflexivity. Qed.

(* a runtime error, input error or rejected string ends that input's outputs only *)
Lemma error_continues o pre post :
  forallb (fun i => negb (halts o i)) pre = true ->
  r_out (run o PReady (pre ++ post)) = flat_map (input_stdout o) pre ++ r_out (run o PReady post).
Proof. intros H. rewrite !stdout_is_concat. unfold spec_stdout, live.
  rewrite (upto_incl_app_none _ _ _ H), flat_map_app. reflexivity. Qed.

Lemma error_continues_one o i rest :
  halts o i = false ->
  r_out (run o PReady (i :: rest)) = input_stdout o i ++ r_out (run o PReady rest).
Proof. intros H. change (i :: rest) with ([i] ++ rest). rewrite error_continues; cbn; [rewrite app_nil_r; reflexivity|].
  rewrite H. reflexivity. Qed.

(* nothing after a halting input is looked at: stdout, stderr and status are those of the run cut there *)
Lemma halt_stops o pre i post :
  halts o i = true -> run o PReady (pre ++ i :: post) = run o PReady (pre ++ [i]).
Proof.
  intros H. rewrite !run_is_spec. unfold spec_result, spec_status, spec_stdout, spec_stderr, spec_values, spec_errors, live.
  rewrite (upto_incl_app_stop _ pre i post H).
  replace (spec_halt o (pre ++ i :: post)) with (spec_halt o (pre ++ [i])); [reflexivity|].
  unfold spec_halt. clear -H. induction pre as [|y pre IH]; cbn; [rewrite H; reflexivity|].
  destruct (halts o y); [reflexivity|exact IH].
Qed.

(* ... and the status is the requested one; the operating system reduces it modulo 256 *)
Lemma halt_status o pre outs post v c :
  forallb (fun i => negb (halts o i)) pre = true ->
  first_stop o outs = Some (OHalt v c) ->
  let r := run o PReady (pre ++ InRun outs :: post) in
  r_status r = c /\ os_status (r_status r) = (c mod 256)%Z /\
  r_err r = flat_map (input_diag o) pre ++ halt_chunks v /\
  r_out r = flat_map (input_stdout o) pre ++ flat_map (out_bytes o) (before_stop o outs).
Proof.
  intros Hpre F r. subst r.
  assert (Hh : halts o (InRun outs) = true) by (unfold halts, halt_in; rewrite F; reflexivity).
  rewrite run_is_spec. unfold spec_result, spec_status, spec_stdout, spec_stderr, live, os_status.
  rewrite (upto_incl_app_none _ _ _ Hpre). cbn [upto_incl]. rewrite Hh.
  unfold spec_halt. rewrite (find_app_none _ _ _ Hpre). cbn [find]. rewrite Hh.
  cbn [halt_in r_status r_err r_out]. rewrite F. rewrite !flat_map_app. cbn [flat_map input_diag input_stdout].
  rewrite F, !app_nil_r. repeat split.
Qed.

(* the table in the simple documented form, when every library error carries no code or code 5 *)
Lemma spec_errors_codes o ins :
  (forall i outs c m, In i ins -> i = InRun outs -> In (OErr c m) outs -> err_code_ok c = true) ->
  forall c, In c (spec_errors o ins) -> err_code_ok c = true.
Proof.
  intros H c Hc. unfold spec_errors in Hc. apply in_flat_map in Hc. destruct Hc as [i [Hi Hc]].
  assert (Hin : In i ins).
  { clear -Hi. unfold live in Hi. induction ins as [|y r IH]; cbn in Hi; [contradiction|].
    destruct (halts o y); cbn in Hi; [destruct Hi as [<-|[]]; left; reflexivity|].
    destruct Hi as [<-|Hi]; [left; reflexivity|right; exact (IH Hi)]. }
  destruct i as [|outs]; cbn in Hc.
  - destruct Hc as [<-|[]]. reflexivity.
  - destruct (first_stop o outs) as [[v|c' m|v c']|] eqn:F; cbn in Hc; try contradiction.
    + destruct Hc as [<-|[]]. reflexivity.
    + destruct Hc as [<-|[]]. unfold first_stop in F. apply find_some in F. destruct F as [F _].
      exact (H _ _ _ _ Hin eq_refl F).
Qed.

Lemma last_opt_In {A} (l : list A) x : last_opt l = Some x -> In x l.
Proof. induction l as [|y l IH]; [discriminate|]. rewrite last_opt_cons. destruct (last_opt l) as [z|].
  - intros E. right. apply IH. exact E.
  - intros E. injection E as <-. left. reflexivity. Qed.

Lemma exit_status_documented o ins :
  (forall i outs c m, In i ins -> i = InRun outs -> In (OErr c m) outs -> err_code_ok c = true) ->
  r_status (run o PReady ins) =
  match spec_halt o ins with
  | Some (_, c) => c
  | None =>
      match spec_errors o ins with
      | _ :: _ => 5%Z
      | [] =>
          if o_exit o then
            match last_opt (spec_values o ins) with None => 4 | Some v => if falsy v then 1 else 0 end%Z
          else 0%Z
      end
  end.
Proof.
  intros H. rewrite exit_status_table. unfold spec_status.
  destruct (spec_halt o ins) as [[? ?]|]; [reflexivity|].
  pose proof (spec_errors_codes o ins H) as Hc.
  destruct (spec_errors o ins) as [|e l] eqn:E; [reflexivity|].
  destruct (last_opt (e :: l)) as [c|] eqn:L.
  - apply last_opt_In in L. specialize (Hc c L). destruct c as [c|]; [|reflexivity].
    cbn in Hc. apply Z.eqb_eq in Hc. exact Hc.
  - rewrite last_opt_cons in L. destruct (last_opt l); discriminate.
Qed.

(* one output's bytes spelled out *)
Lemma out_bytes_spelled o v :
  out_bytes o (OVal v) =
  match v_kind v with
  | KStr s =>
      if o_raw o || o_raw0 o || o_join o
      then (if o_raw0 o && has_nul s then [] else s ++ terminator o)
      else render o v ++ terminator o
  | _ => render o v ++ terminator o
  end
  /\ terminator o = (if o_raw0 o then [0%N] else if o_join o then [] else [10%N])
  /\ (stopper o (OVal v) = true <->
      exists s, v_kind v = KStr s /\ o_raw0 o = true /\ has_nul s = true).
Proof.
  split; [|split; [reflexivity|]].
  - unfold out_bytes, marshal, rawmode. destruct (v_kind v); try reflexivity.
    destruct (o_raw o || o_raw0 o || o_join o); [|reflexivity].
    destruct (o_raw0 o && has_nul raw); reflexivity.
  - unfold stopper, marshal, rawmode. split.
    + destruct (v_kind v) as [| |s|]; try discriminate.
      destruct (o_raw0 o) eqn:R0; [|rewrite ?orb_false_r; destruct (o_raw o || o_join o); discriminate].
      rewrite orb_true_r. cbn. destruct (has_nul s) eqn:Hn; [|discriminate].
      intros _. exists s. repeat split. exact Hn.
    + intros [s [-> [-> Hn]]]. rewrite orb_true_r. cbn. rewrite Hn. reflexivity.
Qed.
