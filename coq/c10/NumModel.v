(* C10: hand-written model of how integer operands in each Go representation reach the int kernels
   (operator.go: binopTypeSwitch; func.go: parseNumber, funcOpNegate, funcAbs; compare.go).
   Tied to the code by the correspondence stream of the C10 check.  Definitions only. *)
From Coq Require Import List ZArith NArith Bool.
From Verif Require Import common.Int64 common.Sexp gen.GenArith.
From Verif Require Export c10.NumRep.
Import ListNotations.
Open Scope Z_scope.

(* parseNumber on an integer literal: int when it fits, else *big.Int *)
Definition norm (n : num) : option num :=
  match n with
  | NLit t => match lit_value t with
              | Some z => Some (if in_intb z then NInt z else NBig z)
              | None => None
              end
  | _ => Some n
  end.

Definition of_res (r : res) : bres :=
  match r with
  | RInt z => BNum (NInt z)
  | RBig z => BNum (NBig z)
  | RFltDiv l r => BFlt l r
  | RZeroDiv => BZeroDiv
  | RZeroMod => BZeroMod
  | _ => BBad
  end.

Definition int_kernel (o : op) : Z -> Z -> res :=
  match o with OAdd => add_int | OSub => sub_int | OMul => mul_int | ODiv => div_int | OMod => mod_int end.

(* callbackBigInts of each operator: math/big is exact (trusted base) *)
Definition big_kernel (o : op) (l r : Z) : bres :=
  match o with
  | OAdd => BNum (NBig (l + r))
  | OSub => BNum (NBig (l - r))
  | OMul => BNum (NBig (l * r))
  | ODiv => if r =? 0 then BZeroDiv
            else if Z.modulo l r =? 0 then BNum (NBig (Z.div l r)) (* DivMod: Euclidean; exact when m = 0 *)
            else BFlt l r
  | OMod => if r =? 0 then BZeroMod else BNum (NBig (Z.rem l r))
  end.

(* binopTypeSwitch restricted to integer operands *)
Definition binop (o : op) (a b : num) : bres :=
  match norm a, norm b with
  | Some (NInt l), Some (NInt r) => of_res (int_kernel o l r)
  | Some (NInt l), Some (NBig r) => big_kernel o l r
  | Some (NBig l), Some (NInt r) => big_kernel o l r
  | Some (NBig l), Some (NBig r) => big_kernel o l r
  | _, _ => BBad
  end.

(* Compare on integer operands: cmp.Compare and big.Int Cmp *)
Definition cmp (a b : num) : option comparison :=
  match norm a, norm b with
  | Some (NInt l), Some (NInt r) => Some (Z.compare l r)
  | Some (NInt l), Some (NBig r) => Some (Z.compare l r)
  | Some (NBig l), Some (NInt r) => Some (Z.compare l r)
  | Some (NBig l), Some (NBig r) => Some (Z.compare l r)
  | _, _ => None
  end.

(* funcOpNegate: textual on json.Number *)
Definition neg (a : num) : bres :=
  match a with
  | NInt z => of_res (negate z)
  | NBig z => BNum (NBig (- z))
  | NLit t => if is_minus t then BNum (NLit (tl t)) else BNum (NLit (45%N :: t))
  end.

(* funcAbs / funcLength on numbers *)
Definition absn (a : num) : bres :=
  match a with
  | NInt z => of_res (abs_int z)
  | NBig z => BNum (NBig (Z.abs z))   (* Sign() >= 0 ? v : Abs(v) *)
  | NLit t => if is_minus t then BNum (NLit (tl t)) else BNum (NLit t)
  end.

(* the encoders on exact numbers: strconv.AppendInt / big.Int.Append / json.Number verbatim *)
Definition encode_num (n : num) : list N :=
  match n with NInt z => print_Z z | NBig z => print_Z z | NLit t => t end.

